(* E1 model RefElect(n): the completion election of when_all (include/unifex/when_all.hpp:
   _op::type::{request_stop, element_complete, deliver_result}, _element_receiver::{set_value,
   set_error,set_done}).  n children each finish with value / error / done; a stop callback on
   the receiver's token borrows one count while it forwards the stop.  The same shape (with other
   initial counts) is used by when_all_range, stop_when, v1 attach and type_erased_stream next.
   Executable definitions only. *)
From Coq Require Import ZArith List Bool.
Import ListNotations.
Local Open Scope Z_scope.

Module RefElect.

Inductive outcome := OVal | OErr | ODone.

(* program counter of child i *)
Inductive kpc :=
| KXchg (o : outcome)   (* error/done: about to doneOrError_.exchange(true)  (then stopSource_.request_stop()) *)
| KSub                  (* about to refCount_.fetch_sub(1) *)
| KObs                  (* elected: about to read get_stop_token(receiver_).stop_requested() *)
| KLoad                 (* about to doneOrError_.load() and complete the receiver *)
| KFin.

(* the stop callback (cancel_operation -> _op::request_stop) *)
Inductive cpc :=
| CIdle                 (* not invoked (yet) *)
| CSub                  (* fetch_add read non-zero; stopSource_.request_stop() then fetch_sub *)
| CObs | CLoad
| CFin                  (* returned (bailed out or finished) *).

Record st := {
  rc : Z;                     (* refCount_ *)
  doe : bool;                 (* doneOrError_ *)
  first : option outcome;     (* outcome of the child that won the doneOrError_ exchange *)
  stopped : bool;             (* stop requested on the receiver's token *)
  kids : list kpc;
  cb : cpc;
  delivered : list outcome    (* completions of the receiver, newest first *)
}.

Inductive ev :=
| ERc (sub : bool) (old new : Z)     (* refCount_ fetch_sub / fetch_add *)
| EDoeX (old : bool)                 (* doneOrError_.exchange(true) *)
| EDoeL (v : bool)                   (* doneOrError_.load() *)
| EExtSet                            (* the external request_stop sets the stop bit *)
| EExtObs (b : bool)                 (* deliver_result reads stop_requested() *)
| ERoot (o : outcome).               (* the receiver is completed *)

Definition kid_start (o : outcome) : kpc := match o with OVal => KSub | _ => KXchg o end.

Definition init (outs : list outcome) : st :=
  {| rc := Z.of_nat (length outs); doe := false; first := None; stopped := false;
     kids := map kid_start outs; cb := CIdle; delivered := [] |}.

Fixpoint set_nth {A} (n : nat) (x : A) (l : list A) : list A :=
  match l, n with
  | [], _ => []
  | _ :: r, O => x :: r
  | y :: r, S n' => y :: set_nth n' x r
  end.

Definition upd_kid (s : st) (i : nat) (p : kpc) : st :=
  {| rc := rc s; doe := doe s; first := first s; stopped := stopped s;
     kids := set_nth i p (kids s); cb := cb s; delivered := delivered s |}.
Definition upd_cb (s : st) (p : cpc) : st :=
  {| rc := rc s; doe := doe s; first := first s; stopped := stopped s;
     kids := kids s; cb := p; delivered := delivered s |}.
Definition upd_rc (s : st) (v : Z) : st :=
  {| rc := v; doe := doe s; first := first s; stopped := stopped s;
     kids := kids s; cb := cb s; delivered := delivered s |}.
Definition deliver (s : st) (o : outcome) : st :=
  {| rc := rc s; doe := doe s; first := first s; stopped := stopped s;
     kids := kids s; cb := cb s; delivered := o :: delivered s |}.

(* what deliver_result hands to the receiver when it is not stopped *)
Definition result_of (s : st) : outcome :=
  if doe s then match first s with Some o => o | None => ODone end else OVal.

(* thread ids: 0..n-1 children, n = the callback, n+1 = the external stop requester *)
Definition nkids (s : st) : nat := length (kids s).

Definition step_kid (i : nat) (s : st) : option (st * list ev) :=
  match nth_error (kids s) i with
  | None => None
  | Some (KXchg o) =>
      let old := doe s in
      let s' := {| rc := rc s; doe := true; first := if old then first s else Some o;
                   stopped := stopped s; kids := set_nth i KSub (kids s); cb := cb s;
                   delivered := delivered s |} in
      Some (s', [EDoeX old])
  | Some KSub =>
      let old := rc s in
      let s' := upd_rc s (old - 1) in
      Some (upd_kid s' i (if old =? 1 then KObs else KFin), [ERc true old (old - 1)])
  | Some KObs =>
      if stopped s then Some (deliver (upd_kid s i KFin) ODone, [EExtObs true; ERoot ODone])
      else Some (upd_kid s i KLoad, [EExtObs false])
  | Some KLoad =>
      Some (deliver (upd_kid s i KFin) (result_of s), [EDoeL (doe s); ERoot (result_of s)])
  | Some KFin => None
  end.

Definition step_cb (s : st) : option (st * list ev) :=
  match cb s with
  | CIdle =>
      let old := rc s in
      let s' := upd_rc s (old + 1) in
      Some (upd_cb s' (if old =? 0 then CFin else CSub), [ERc false old (old + 1)])
  | CSub =>
      let old := rc s in
      let s' := upd_rc s (old - 1) in
      Some (upd_cb s' (if old =? 1 then CObs else CFin), [ERc true old (old - 1)])
  | CObs =>
      if stopped s then Some (deliver (upd_cb s CFin) ODone, [EExtObs true; ERoot ODone])
      else Some (upd_cb s CLoad, [EExtObs false])
  | CLoad =>
      Some (deliver (upd_cb s CFin) (result_of s), [EDoeL (doe s); ERoot (result_of s)])
  | CFin => None
  end.

Definition step_stopper (s : st) : option (st * list ev) :=
  if stopped s then None
  else Some ({| rc := rc s; doe := doe s; first := first s; stopped := true;
                kids := kids s; cb := cb s; delivered := delivered s |}, [EExtSet]).

Definition step (t : nat) (s : st) : option (st * list ev) :=
  if Nat.ltb t (nkids s) then step_kid t s
  else if Nat.eqb t (nkids s) then step_cb s
  else if Nat.eqb t (S (nkids s)) then step_stopper s
  else None.

(* quiescence: every child finished and the callback is not in flight *)
Definition kid_fin (p : kpc) : bool := match p with KFin => true | _ => false end.
Definition cb_quiet (p : cpc) : bool := match p with CIdle | CFin => true | _ => false end.
Definition quiescent (s : st) : bool := forallb kid_fin (kids s) && cb_quiet (cb s).

End RefElect.
