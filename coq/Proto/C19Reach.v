(* Generic "complete reachable-set invariant by reflection" for finite-state E1 models (used by the
   C19 models whose thread set is fixed by the protocol: Canary).  Given a decidable equality on
   states, a hash (only an index; soundness does not need injectivity) and the step function of a
   model with thread ids 0..nthr-1, [reach] computes the reachable states by a work-list search,
   [check_with] re-checks inside the kernel that the set contains the initial state, is closed
   under every thread's step and that a decidable predicate holds on each element, and
   [check_with_sound] lifts this to every state of every run of an ARBITRARY schedule. *)
From Coq Require Import List Bool Arith PArith FMapPositive.
From V Require Import Base.Sched.
Import ListNotations.

Section Reach.
  Variables (st ev : Type).
  Variable st_eq_dec : forall a b : st, {a = b} + {a <> b}.
  Variable code : st -> positive.
  Variable step : nat -> st -> option (st * list ev).
  Variable nthr : nat.
  (* thread ids >= nthr cannot move *)
  Hypothesis step_bound : forall t s, nthr <= t -> step t s = None.

  Definition smap := PositiveMap.t st.

  Definition succs (s : st) : list st :=
    flat_map (fun t => match step t s with Some (s', _) => [s'] | None => [] end) (seq 0 nthr).

  Definition inR (R : smap) (s : st) : bool :=
    match PositiveMap.find (code s) R with
    | Some s' => if st_eq_dec s s' then true else false
    | None => false
    end.

  Fixpoint add_new (l work : list st) (seen : smap) : list st * smap :=
    match l with
    | [] => (work, seen)
    | s :: r =>
        match PositiveMap.find (code s) seen with
        | Some _ => add_new r work seen
        | None => add_new r (s :: work) (PositiveMap.add (code s) s seen)
        end
    end.

  Fixpoint bfs (fuel : nat) (work : list st) (seen : smap) : smap :=
    match fuel with
    | O => seen
    | S f =>
        match work with
        | [] => seen
        | s :: w => let '(w', seen') := add_new (succs s) w seen in bfs f w' seen'
        end
    end.

  Definition reach (fuel : nat) (s0 : st) : smap :=
    bfs fuel [s0] (PositiveMap.add (code s0) s0 (PositiveMap.empty st)).

  Definition closed (R : smap) : bool :=
    forallb (fun cs => forallb (inR R) (succs (snd cs))) (PositiveMap.elements R).

  Definition all_ok (P : st -> bool) (R : smap) : bool :=
    forallb (fun cs => P (snd cs)) (PositiveMap.elements R).

  Definition check_with (P : st -> bool) (s0 : st) (R : smap) : bool :=
    inR R s0 && closed R && all_ok P R.

  Lemma inR_elements R s : inR R s = true -> In (code s, s) (PositiveMap.elements R).
  Proof.
    unfold inR. destruct (PositiveMap.find (code s) R) as [s'|] eqn:E; [|discriminate].
    destruct (st_eq_dec s s') as [->|]; [|discriminate]. intros _.
    apply PositiveMap.elements_correct. exact E.
  Qed.

  Lemma step_in_succs t s s' evs : step t s = Some (s', evs) -> In s' (succs s).
  Proof.
    intros H. unfold succs. apply in_flat_map. exists t. split.
    - apply in_seq. split; [apply Nat.le_0_l|]. cbn.
      destruct (Nat.lt_ge_cases t nthr) as [Hlt|Hge]; [exact Hlt|].
      rewrite (step_bound t s Hge) in H. discriminate H.
    - rewrite H. left. reflexivity.
  Qed.

  Lemma closed_step R : closed R = true ->
    forall s t s' evs, inR R s = true -> step t s = Some (s', evs) -> inR R s' = true.
  Proof.
    intros Hc s t s' evs Hin Hs. unfold closed in Hc. rewrite forallb_forall in Hc.
    specialize (Hc _ (inR_elements _ _ Hin)). cbn [snd] in Hc. rewrite forallb_forall in Hc.
    apply Hc. eapply step_in_succs; eauto.
  Qed.

  Theorem check_with_sound P s0 R : check_with P s0 R = true ->
    forall sched, P (fst (run step sched (s0, []))) = true.
  Proof.
    unfold check_with. intros H sched.
    apply andb_true_iff in H as [H H3]. apply andb_true_iff in H as [H1 H2].
    assert (Hin : inR R (fst (run step sched (s0, []))) = true).
    { apply (run_invariant_state st nat ev step (fun s => inR R s = true)); [|exact H1].
      intros s t s' e HI Hs. eapply closed_step; eauto. }
    unfold all_ok in H3. rewrite forallb_forall in H3.
    exact (H3 _ (inR_elements _ _ Hin)).
  Qed.
End Reach.
