(* E1 model MutexV1(nlock, ntry): v1::async_mutex
     include/unifex/v1/async_mutex.hpp        (try_lock, lock_sender::_op::type::start)
     source/async_mutex_v1.cpp                (try_enqueue, unlock)
     include/unifex/detail/atomic_intrusive_queue.hpp
                                              (try_mark_active, enqueue_or_mark_active,
                                               try_mark_inactive, try_mark_inactive_or_dequeue_all)
   One shared word atomicQueue_.head_ : the inactive sentinel (unlocked), nullptr (locked, no new
   waiters) or the newest waiter of a LIFO stack linked through waiter_base::next_; plus the
   holder-owned FIFO pendingQueue_.
   Threads 0..nlock-1 are lockers (async_lock, critical section, unlock), threads
   nlock..nlock+ntry-1 call try_lock once (and unlock if they got it).  A resumed waiter's
   continuation (critical section + unlock) runs on the waiter's own thread id: the state
   transitions do not depend on which OS thread executes them (in the library the continuation
   may as well run nested inside the unlock() that resumed it; the K1 driver does both).
   compare_exchange_weak is taken as strong (no spurious failure; the shim maps weak to strong).
   Executable definitions only. *)
From Coq Require Import List Bool Arith.
Import ListNotations.

Module MutexV1.

(* a value of head_ as a pointer: what a thread can remember and compare *)
Inductive wv :=
| WInact            (* producer_inactive_value(): the address of head_ itself = unlocked *)
| WNull             (* nullptr: locked, nobody enqueued since the last dequeue_all *)
| WPtr (j : nat).   (* address of locker j's waiter_base *)

Definition wv_eqb (a b : wv) : bool :=
  match a, b with
  | WInact, WInact => true
  | WNull, WNull => true
  | WPtr i, WPtr j => Nat.eqb i j
  | _, _ => false
  end.

Inductive pc :=
| PLoad             (* locker: enqueue_or_mark_active, about to head_.load(relaxed)  [atomic_intrusive_queue.hpp:84] *)
| PCas (old : wv)   (* locker: about to compare_exchange_weak(old, new, acq_rel)     [atomic_intrusive_queue.hpp:86-94] *)
| PTry              (* try_lock thread: about to CAS inactive -> nullptr (acquire)   [atomic_intrusive_queue.hpp:64-71] *)
| PWait             (* enqueued, suspended until some unlock() calls resume_ *)
| PHeld             (* owns the mutex (receiver got set_value / try_lock returned true): critical section *)
| PUnl              (* unlock(): pendingQueue_.empty()? pop+resume : head_.load(relaxed)   [async_mutex_v1.cpp:33-42, atomic_intrusive_queue.hpp:149] *)
| PUnlCas           (* try_mark_inactive: about to CAS nullptr -> inactive (release) [atomic_intrusive_queue.hpp:150-158] *)
| PUnlX             (* about to head_.exchange(nullptr, acquire)                     [atomic_intrusive_queue.hpp:177] *)
| PDone             (* unlock() returned *)
| PFailed.          (* try_lock returned false *)

Record st := {
  w : option (list nat);   (* head_: None = inactive; Some l = active, l = the stack, newest first *)
  pend : list nat;         (* pendingQueue_, next to be resumed first *)
  pcs : list pc
}.

Inductive ev :=
| ELd (v : wv)                         (* head_.load(relaxed) *)
| ECasLock (obs new : wv) (ok : bool)  (* enqueue_or_mark_active's CAS; obs = value found in head_ *)
| ECasTry (obs : wv) (ok : bool)       (* try_mark_active's CAS inactive -> nullptr *)
| ECasUnl (obs : wv) (ok : bool)       (* try_mark_inactive's CAS nullptr -> inactive *)
| EXchg (old : wv)                     (* try_mark_inactive_or_dequeue_all's exchange(nullptr) *)
| EAcquire (i : nat) (handoff : bool)  (* i's receiver gets set_value / try_lock returned true;
                                          handoff = resumed by an unlock() (i had been enqueued) *)
| ERelease (i : nat)                   (* i leaves its critical section and calls unlock() *)
| ETryFail (t : nat).                  (* try_lock returned false *)

Definition head_of (x : option (list nat)) : wv :=
  match x with
  | None => WInact
  | Some [] => WNull
  | Some (j :: _) => WPtr j
  end.

Fixpoint set_nth {A} (n : nat) (x : A) (l : list A) : list A :=
  match l, n with
  | [], _ => []
  | _ :: r, O => x :: r
  | y :: r, S n' => y :: set_nth n' x r
  end.

Definition init (nlock ntry : nat) : st :=
  {| w := None; pend := []; pcs := repeat PLoad nlock ++ repeat PTry ntry |}.

Definition set_pc (s : st) (t : nat) (p : pc) : st :=
  {| w := w s; pend := pend s; pcs := set_nth t p (pcs s) |}.

(* unlock() hands the mutex to j: pop_front already done by the caller; resume_ -> set_value *)
Definition hand_over (s : st) (t j : nat) (newpend : list nat) (neww : option (list nat)) : st :=
  {| w := neww; pend := newpend; pcs := set_nth j PHeld (set_nth t PDone (pcs s)) |}.

Definition step (t : nat) (s : st) : option (st * list ev) :=
  match nth_error (pcs s) t with
  | None => None
  | Some PLoad =>
      Some (set_pc s t (PCas (head_of (w s))), [ELd (head_of (w s))])
  | Some (PCas old) =>
      (* newValue was computed from the remembered old value; item->next_ = old.  The CAS
         compares pointers; on success the chain behind the old head is whatever it is now *)
      let cur := head_of (w s) in
      let new := match old with WInact => WNull | _ => WPtr t end in
      if wv_eqb cur old then
        match w s with
        | None =>      (* inactive -> nullptr: lock acquired synchronously, set_value inline *)
            Some ({| w := Some []; pend := pend s; pcs := set_nth t PHeld (pcs s) |},
                  [ECasLock cur new true; EAcquire t false])
        | Some l =>    (* pushed on the stack *)
            Some ({| w := Some (t :: l); pend := pend s; pcs := set_nth t PWait (pcs s) |},
                  [ECasLock cur new true])
        end
      else Some (set_pc s t (PCas cur), [ECasLock cur new false])
  | Some PTry =>
      match w s with
      | None => Some ({| w := Some []; pend := pend s; pcs := set_nth t PHeld (pcs s) |},
                      [ECasTry WInact true; EAcquire t false])
      | Some _ => Some (set_pc s t PFailed, [ECasTry (head_of (w s)) false; ETryFail t])
      end
  | Some PWait => None
  | Some PHeld => Some (set_pc s t PUnl, [ERelease t])
  | Some PUnl =>
      match pend s with
      | j :: r => Some (hand_over s t j r (w s), [EAcquire j true])
      | [] =>
          let v := head_of (w s) in
          Some (set_pc s t (match v with WNull => PUnlCas | _ => PUnlX end), [ELd v])
      end
  | Some PUnlCas =>
      match w s with
      | Some [] => Some ({| w := None; pend := pend s; pcs := set_nth t PDone (pcs s) |},
                         [ECasUnl WNull true])
      | _ => Some (set_pc s t PUnlX, [ECasUnl (head_of (w s)) false])
      end
  | Some PUnlX =>
      match w s with
      | Some (a :: l) =>
          (* make_reversed, pendingQueue_ = the batch, pop_front, resume_ *)
          match rev (a :: l) with
          | j :: r => Some (hand_over s t j r (Some []), [EXchg (WPtr a); EAcquire j true])
          | [] => None
          end
      | _ => None   (* UNIFEX_ASSERT(oldValue != nullptr && != inactive): never reached, see Proofs *)
      end
  | Some PDone => None
  | Some PFailed => None
  end.

Definition finished (p : pc) : bool := match p with PDone | PFailed => true | _ => false end.
Definition quiescent (s : st) : bool := forallb finished (pcs s).

Definition is_holder (p : pc) : bool :=
  match p with PHeld | PUnl | PUnlCas | PUnlX => true | _ => false end.
Definition holders (s : st) : nat := length (filter is_holder (pcs s)).
Definition is_waiting (p : pc) : bool := match p with PWait => true | _ => false end.
Definition waiting (s : st) : nat := length (filter is_waiting (pcs s)).

End MutexV1.
