(* E1 model AsyncStack: the async-stack bookkeeping of libunifex (debug configuration,
   UNIFEX_NO_ASYNC_STACKS = 0).  Executable definitions only.

   C++ mirrored:
     include/unifex/tracing/async_stack.hpp        AsyncStackFrame {parentFrame, stackRoot},
                                                    AsyncStackRoot {topFrame, nextRoot},
                                                    ScopedAsyncStackRoot::{activateFrame, ensureFrameDeactivated}
     include/unifex/tracing/async_stack-inl.hpp    checkAsyncStackFrameIsActive, activateAsyncStackFrame,
                                                    deactivateAsyncStackFrame, AsyncStackRoot::setTopFrame  (l.21-39, 127-132)
     source/async_stack.cpp                        thread-local currentThreadAsyncStackRoot,
                                                    ScopedAsyncStackRoot ctor / dtor  (l.189-217)
     include/unifex/tracing/inject_async_stack.hpp _root_and_frame_ref (bracket around start(), l.97-115, 212-217),
                                                    _root_and_frame (bracket around each completion signal, l.76-95, 134-164)
     include/unifex/sync_wait.hpp                  initial_stack_root (l.122-135)

   State: a store of frames (the first [nops] are the operations' own frames, _op_base::frame_ of
   the wrapper that unifex::connect puts around every operation state; frame nops + r is the
   temporary frame that lives next to root r inside a _root_and_frame object), a store of roots (ScopedAsyncStackRoot objects on
   the threads' stacks), the per-thread current-root pointer, and per thread a continuation: the
   part of its "traced run" not yet executed.  A traced run is a forest of brackets
     AStart n body     op_wrapper::start of operation n around the start of the wrapped operation
     AComplete n body  rcvr_wrapper::set_value/error/done of operation n around the downstream receiver
     AWait n m body    sync_wait's initial_stack_root (n = the pseudo operation owning the initial frame,
                     m = the connected operation whose completion lets ctx.run() return)
     ALoop body        a bare ScopedAsyncStackRoot of an event loop
     AObs tag          an observation point (no effect)
   The op tree ([par n] = the operation whose receiver operation n completes into) is a parameter.
   Every primitive (root constructor, setParentFrame, activate, deactivate, ensureFrameDeactivated,
   root destructor) is one step.  [failed] records that an assert of the C++ would have fired.
   Guards (a thread is blocked = None): an operation is started at most once, after its parent's
   frame has been activated; it is completed only after its own frame has been activated - the
   sender/receiver contract. *)
From Coq Require Import List Bool Arith.
Import ListNotations.

Module AsyncStack.

Record frame := { f_parent : option nat;     (* AsyncStackFrame::parentFrame *)
                  f_root : option nat }.     (* AsyncStackFrame::stackRoot (cached root) *)
Record root := { r_top : option nat;         (* AsyncStackRoot::topFrame *)
                 r_next : option nat;        (* AsyncStackRoot::nextRoot *)
                 r_thr : nat;                (* the thread on whose stack the root lives *)
                 r_live : bool }.            (* between constructor and destructor *)

Inductive kind := KS | KC | KW | KL.

Inductive act :=
| AStart (n : nat) (body : list act)
| AComplete (n : nat) (body : list act)
| AWait (n m : nat) (body : list act)
| ALoop (body : list act)
| AObs (tag : nat).

(* continuation items.  Opening k r f n prepared body: the root r of a bracket of kind k has been
   pushed; frame f is about to get its parent (prepared = false) / to be activated (prepared = true);
   n = the operation concerned.  Closing k r f popping: the bracket's body has been unfolded in
   front of it; the frame is about to be deactivated (popping = false) / the root destroyed. *)
Inductive item :=
| Do (a : act)
| Opening (k : kind) (r f n : nat) (prepared : bool) (body : list act)
| Closing (k : kind) (r f : nat) (popping : bool).

Record st := {
  frames : nat -> frame;
  roots : nat -> root; nroots : nat;
  cur : nat -> option nat;             (* per thread: currentThreadAsyncStackRoot *)
  begun : nat -> option nat;           (* contract bookkeeping: the root pushed by op n's start bracket *)
  started : nat -> bool;               (* op n's own frame has been activated *)
  completed : nat -> bool;             (* op n's completion bracket has activated its copy *)
  waits : nat -> nat;                  (* sync_wait pseudo op -> the operation whose completion ends ctx.run *)
  failed : bool;
  conts : nat -> list item;
  nthreads : nat;
  par : nat -> option nat; nops : nat
}.

Inductive ev :=
| ERootPush (r : nat) (next : option nat)
| ESetParent (f : nat) (p : option nat)
| ECopy (c n : nat) (p : option nat)
| EActivate (r f : nat)
| EDeactivate (r f : nat)
| EEnsure (r : nat) (old : option nat)
| ERootPop (r : nat) (next : option nat)
| EObs (tag : nat)
| EAssert (what : nat).

Definition upd {A} (f : nat -> A) (i : nat) (v : A) : nat -> A :=
  fun j => if Nat.eqb j i then v else f j.

Definition frame0 : frame := {| f_parent := None; f_root := None |}.
Definition root0 : root := {| r_top := None; r_next := None; r_thr := 0; r_live := false |}.

Definition oeqb (a b : option nat) : bool :=
  match a, b with
  | None, None => true
  | Some x, Some y => Nat.eqb x y
  | _, _ => false
  end.

(* ---- setters ---------------------------------------------------------------------------- *)
Definition set_conts (s : st) (t : nat) (k : list item) : st :=
  {| frames := frames s; roots := roots s; nroots := nroots s; cur := cur s;
     begun := begun s; started := started s; completed := completed s; waits := waits s; failed := failed s; conts := upd (conts s) t k;
     nthreads := nthreads s; par := par s; nops := nops s |}.
Definition set_frame (s : st) (f : nat) (v : frame) : st :=
  {| frames := upd (frames s) f v; roots := roots s; nroots := nroots s; cur := cur s;
     begun := begun s; started := started s; completed := completed s; waits := waits s; failed := failed s; conts := conts s;
     nthreads := nthreads s; par := par s; nops := nops s |}.
Definition set_root (s : st) (r : nat) (v : root) : st :=
  {| frames := frames s; roots := upd (roots s) r v; nroots := nroots s; cur := cur s;
     begun := begun s; started := started s; completed := completed s; waits := waits s; failed := failed s; conts := conts s;
     nthreads := nthreads s; par := par s; nops := nops s |}.
Definition set_cur (s : st) (t : nat) (c : option nat) : st :=
  {| frames := frames s; roots := roots s; nroots := nroots s; cur := upd (cur s) t c;
     begun := begun s; started := started s; completed := completed s; waits := waits s; failed := failed s; conts := conts s;
     nthreads := nthreads s; par := par s; nops := nops s |}.
Definition set_begun (s : st) (n : nat) (r : nat) : st :=
  {| frames := frames s; roots := roots s; nroots := nroots s; cur := cur s;
     begun := upd (begun s) n (Some r); started := started s; completed := completed s; waits := waits s; failed := failed s; conts := conts s;
     nthreads := nthreads s; par := par s; nops := nops s |}.
Definition set_started (s : st) (n : nat) : st :=
  {| frames := frames s; roots := roots s; nroots := nroots s; cur := cur s;
     begun := begun s; started := upd (started s) n true; completed := completed s; waits := waits s; failed := failed s; conts := conts s;
     nthreads := nthreads s; par := par s; nops := nops s |}.
Definition set_completed (s : st) (n : nat) : st :=
  {| frames := frames s; roots := roots s; nroots := nroots s; cur := cur s;
     begun := begun s; started := started s; completed := upd (completed s) n true; waits := waits s;
     failed := failed s; conts := conts s;
     nthreads := nthreads s; par := par s; nops := nops s |}.
Definition set_waits (s : st) (n m : nat) : st :=
  {| frames := frames s; roots := roots s; nroots := nroots s; cur := cur s;
     begun := begun s; started := started s; completed := completed s; waits := upd (waits s) n m;
     failed := failed s; conts := conts s;
     nthreads := nthreads s; par := par s; nops := nops s |}.
Definition set_failed (s : st) : st :=
  {| frames := frames s; roots := roots s; nroots := nroots s; cur := cur s;
     begun := begun s; started := started s; completed := completed s; waits := waits s; failed := true; conts := conts s;
     nthreads := nthreads s; par := par s; nops := nops s |}.
(* ---- the primitives --------------------------------------------------------------------- *)
(* ScopedAsyncStackRoot::ScopedAsyncStackRoot (async_stack.cpp l.206-211):
   root_.nextRoot = current; current = &root_.  The new root gets index nroots. *)
Definition prim_root_push (t : nat) (s : st) : st :=
  let r := nroots s in
  let s1 := {| frames := frames s;
               roots := upd (roots s) r {| r_top := None; r_next := cur s t; r_thr := t; r_live := true |};
               nroots := S r; cur := upd (cur s) t (Some r);
               begun := begun s; started := started s; completed := completed s; waits := waits s; failed := failed s; conts := conts s;
               nthreads := nthreads s; par := par s; nops := nops s |} in
  s1.

(* activateAsyncStackFrame(root, frame) (inl l.29-33) + AsyncStackRoot::setTopFrame (l.127-132):
   assert current == &root; assert root.topFrame == null; assert frame.stackRoot == null;
   frame.stackRoot = &root; root.topFrame = &frame *)
Definition activate_ok (t r f : nat) (s : st) : bool :=
  oeqb (cur s t) (Some r) && oeqb (r_top (roots s r)) None && oeqb (f_root (frames s f)) None.
Definition prim_activate (r f : nat) (s : st) : st :=
  let ro := roots s r in
  let fr := frames s f in
  set_root (set_frame s f {| f_parent := f_parent fr; f_root := Some r |})
           r {| r_top := Some f; r_next := r_next ro; r_thr := r_thr ro; r_live := r_live ro |}.

(* deactivateAsyncStackFrame(frame) (inl l.35-39) with checkAsyncStackFrameIsActive (l.21-27):
   assert frame.stackRoot != null; assert current == frame.stackRoot;
   assert frame.stackRoot->topFrame == &frame; topFrame = null; frame.stackRoot = null *)
Definition deactivate_ok (t f : nat) (s : st) : bool :=
  match f_root (frames s f) with
  | None => false
  | Some r => oeqb (cur s t) (Some r) && oeqb (r_top (roots s r)) (Some f)
  end.
Definition prim_deactivate (f : nat) (s : st) : st :=
  match f_root (frames s f) with
  | None => s
  | Some r =>
      let ro := roots s r in
      let fr := frames s f in
      set_frame (set_root s r {| r_top := None; r_next := r_next ro; r_thr := r_thr ro; r_live := r_live ro |})
                f {| f_parent := f_parent fr; f_root := None |}
  end.

(* ScopedAsyncStackRoot::ensureFrameDeactivated(possiblyDeadFrame) (async_stack.hpp l.518-526):
   assert current == &root_; old = topFrame.exchange(null); assert old == null || old == frame.
   The frame itself is not touched (it may be dead): its cached stackRoot stays. *)
Definition ensure_ok (t r f : nat) (s : st) : bool :=
  oeqb (cur s t) (Some r) &&
  (oeqb (r_top (roots s r)) None || oeqb (r_top (roots s r)) (Some f)).
Definition prim_ensure (r : nat) (s : st) : st :=
  let ro := roots s r in
  set_root s r {| r_top := None; r_next := r_next ro; r_thr := r_thr ro; r_live := r_live ro |}.

(* ScopedAsyncStackRoot::~ScopedAsyncStackRoot (async_stack.cpp l.213-217):
   assert current == &root_; assert root_.topFrame == null; current = root_.nextRoot *)
Definition pop_ok (t r : nat) (s : st) : bool :=
  oeqb (cur s t) (Some r) && oeqb (r_top (roots s r)) None.
Definition prim_root_pop (t r : nat) (s : st) : st :=
  let ro := roots s r in
  set_cur (set_root s r {| r_top := r_top ro; r_next := r_next ro; r_thr := r_thr ro; r_live := false |})
          t (r_next ro).

(* ---- one step of thread t --------------------------------------------------------------- *)
Definition parent_started (s : st) (n : nat) : bool :=
  match par s n with None => true | Some p => started s p end.

Definition abort (s : st) (t : nat) (what : nat) : option (st * list ev) :=
  Some (set_conts (set_failed s) t [], [EAssert what]).

Definition closing_kind_strict (k : kind) : bool :=
  match k with KS => false | _ => true end.

Definition step (t : nat) (s : st) : option (st * list ev) :=
  if negb (Nat.ltb t (nthreads s)) then None else
  match conts s t with
  | [] => None
  | Do (AObs tag) :: k => Some (set_conts s t k, [EObs tag])
  | Do (AStart n body) :: k =>
      (* op_wrapper::start: _root_and_frame_ref's member root_ is constructed first *)
      match begun s n with
      | Some _ => None
      | None =>
        if Nat.ltb n (nops s) && parent_started s n then
          let r := nroots s in
          let s1 := set_begun (prim_root_push t s) n r in
          Some (set_conts s1 t (Opening KS r n n false body :: k), [ERootPush r (cur s t)])
        else None
      end
  | Do (AWait n m body) :: k =>
      (* initial_stack_root: members frame, root; the constructor body activates the frame.
         m = the operation sync_wait connects: ctx.run returns once its receiver was signalled *)
      match begun s n with
      | Some _ => None
      | None =>
        if Nat.ltb n (nops s) && oeqb (par s n) None then
          let r := nroots s in
          let s1 := set_waits (set_begun (prim_root_push t s) n r) n m in
          Some (set_conts s1 t (Opening KW r n n true body :: k), [ERootPush r (cur s t)])
        else None
      end
  | Do (AComplete n body) :: k =>
      (* rcvr_wrapper::set_xxx: _root_and_frame's members frame_ (fresh) and root_ are constructed first *)
      if Nat.ltb n (nops s) && started s n then
        let r := nroots s in
        let c := nops s + r in
        let s1 := prim_root_push t s in
        Some (set_conts s1 t (Opening KC r c n false body :: k), [ERootPush r (cur s t)])
      else None
  | Do (ALoop body) :: k =>
      let r := nroots s in
      let s1 := prim_root_push t s in
      Some (set_conts s1 t (map Do body ++ Closing KL r 0 true :: k), [ERootPush r (cur s t)])
  | Opening KS r f n false body :: k =>
      (* _root_and_frame_ref ctor body: if the receiver has a frame, frame.setParentFrame(it) *)
      let fr := frames s f in
      let s1 := match par s n with
                | None => s
                | Some p => set_frame s f {| f_parent := Some p; f_root := f_root fr |}
                end in
      Some (set_conts s1 t (Opening KS r f n true body :: k), [ESetParent f (par s n)])
  | Opening KC r c n false body :: k =>
      (* _root_and_frame ctor body: frame = the downstream receiver's frame; copy its parent (and return address) *)
      let p := match par s n with None => None | Some d => f_parent (frames s d) end in
      let fr := frames s c in
      let s1 := set_frame s c {| f_parent := p; f_root := f_root fr |} in
      Some (set_conts s1 t (Opening KC r c n true body :: k), [ECopy c n p])
  | Opening kd r f n false body :: k =>       (* KW / KL have no preparation step *)
      Some (set_conts s t (Opening kd r f n true body :: k), [ESetParent f None])
  | Opening kd r f n true body :: k =>
      if activate_ok t r f s then
        let s1 := prim_activate r f s in
        let s2 := if Nat.ltb f (nops s) then set_started s1 f else set_completed s1 n in
        Some (set_conts s2 t (map Do body ++ Closing kd r f false :: k), [EActivate r f])
      else abort s t 1
  | Closing KW r f false :: k =>
      (* sync_wait: ctx.run() blocks until the receiver was signalled; then ~initial_stack_root *)
      if negb (completed s (waits s f)) then None else
      if deactivate_ok t f s then
        match f_root (frames s f) with
        | Some r' => Some (set_conts (prim_deactivate f s) t (Closing KW r f true :: k), [EDeactivate r' f])
        | None => abort s t 2
        end
      else abort s t 2
  | Closing kd r f false :: k =>
      if closing_kind_strict kd then
        if deactivate_ok t f s then
          match f_root (frames s f) with
          | Some r' => Some (set_conts (prim_deactivate f s) t (Closing kd r f true :: k), [EDeactivate r' f])
          | None => abort s t 2
          end
        else abort s t 2
      else
        if ensure_ok t r f s then
          Some (set_conts (prim_ensure r s) t (Closing kd r f true :: k), [EEnsure r (r_top (roots s r))])
        else abort s t 3
  | Closing kd r f true :: k =>
      if pop_ok t r s then
        Some (set_conts (prim_root_pop t r s) t k, [ERootPop r (r_next (roots s r))])
      else abort s t 4
  end.

(* ---- initial state ---------------------------------------------------------------------- *)
(* pars: the op tree (index = op id); progs: one traced run per thread *)
Definition init (pars : list (option nat)) (progs : list (list act)) : st :=
  {| frames := fun _ => frame0;
     roots := fun _ => root0; nroots := 0;
     cur := fun _ => None; begun := fun _ => None; started := fun _ => false; completed := fun _ => false; waits := fun _ => 0; failed := false;
     conts := fun t => map Do (nth t progs []);
     nthreads := length progs;
     par := fun n => nth n pars None; nops := length pars |}.

Fixpoint all_nil (k : nat -> list item) (n : nat) : bool :=
  match n with
  | O => true
  | S m => match k m with [] => all_nil k m | _ => false end
  end.
Definition quiescent (s : st) : bool := all_nil (conts s) (nthreads s).

(* ---- observations ----------------------------------------------------------------------- *)
(* the parent chain of a frame, as async_trace / getAsyncStackTraceFromInitialFrame walk it *)
Fixpoint chain (s : st) (fuel : nat) (f : nat) : list nat :=
  match fuel with
  | O => []
  | S k => f :: match f_parent (frames s f) with None => [] | Some p => chain s k p end
  end.
(* the ancestors of an operation in the op tree, itself first *)
Fixpoint anc (pr : nat -> option nat) (fuel : nat) (n : nat) : list nat :=
  match fuel with
  | O => []
  | S k => n :: match pr n with None => [] | Some p => anc pr k p end
  end.
(* a thread's roots, innermost first, following nextRoot *)
Fixpoint root_chain (s : st) (fuel : nat) (c : option nat) : list nat :=
  match fuel, c with
  | S k, Some r => r :: root_chain s k (r_next (roots s r))
  | _, _ => []
  end.
(* the roots a continuation will still pop, in order *)
Fixpoint pending_roots (k : list item) : list nat :=
  match k with
  | [] => []
  | Do _ :: k' => pending_roots k'
  | Opening _ r _ _ _ _ :: k' => r :: pending_roots k'
  | Closing _ r _ _ :: k' => r :: pending_roots k'
  end.

(* event counters for the balance statements *)
Definition is_act (r f : nat) (e : ev) : bool :=
  match e with EActivate r' f' => Nat.eqb r r' && Nat.eqb f f' | _ => false end.
Definition is_deact (r f : nat) (e : ev) : bool :=
  match e with
  | EDeactivate r' f' => Nat.eqb r r' && Nat.eqb f f'
  | EEnsure r' (Some f') => Nat.eqb r r' && Nat.eqb f f'
  | _ => false
  end.
Definition count (p : ev -> bool) (tr : list ev) : nat := length (filter p tr).
Definition is_assert (e : ev) : bool := match e with EAssert _ => true | _ => false end.

(* ---- the generator of traced runs from an abstract expression and a completion script ----
   XLeaf id: asynchronous leaf, completed later by the script; XInl: completes inside its start;
   XUn: an adaptor with one child (then, upon_*, with_query_value ...: completes when the child does);
   XSeq a b: let_value / sequence / finally shape: b is connected and started inside a's completion,
   the node completes when b does; XPar a b: when_all / stop_when shape: both started from the
   node's start, the node completes inside the completion of the last child.  Operations are
   numbered in preorder. *)
Inductive aexp := XLeaf (id : nat) | XInl | XUn (a : aexp) | XSeq (a b : aexp) | XPar (a b : aexp).

Fixpoint size (e : aexp) : nat :=
  match e with
  | XLeaf _ | XInl => 1
  | XUn a => S (size a)
  | XSeq a b | XPar a b => S (size a + size b)
  end.
Fixpoint pars_of (e : aexp) (base : nat) (up : option nat) : list (option nat) :=
  match e with
  | XLeaf _ | XInl => [up]
  | XUn a => up :: pars_of a (S base) (Some base)
  | XSeq a b | XPar a b => up :: pars_of a (S base) (Some base) ++ pars_of b (S base + size a) (Some base)
  end.

Inductive pst := PIdle | PPend | PDone | PUn (c : pst) | PBin (a b : pst).

(* start e (numbered from base); [k] = what the downstream receiver does if e completes inline.
   Returns the acts (to be placed in the enclosing bracket), the pending state, completed-inline. *)
Fixpoint gstart (e : aexp) (base : nat) (k : list act) : list act * pst * bool :=
  match e with
  | XLeaf id => ([AStart base [AObs id]], PPend, false)
  | XInl => ([AStart base [AComplete base k]], PDone, true)
  | XUn a =>
      let '(xs, p, d) := gstart a (S base) [AComplete base k] in
      ([AStart base xs], PUn p, d)
  | XSeq a b =>
      let '(ys, pb, db) := gstart b (S base + size a) [AComplete base k] in
      let '(xs, pa, da) := gstart a (S base) ys in
      if da then ([AStart base xs], PBin PDone pb, db)
      else ([AStart base xs], PBin pa PIdle, false)
  | XPar a b =>
      let '(xs, pa, da) := gstart a (S base) [] in
      let '(ys, pb, db) := gstart b (S base + size a) (if da then [AComplete base k] else []) in
      ([AStart base (xs ++ ys)], PBin pa pb, da && db)
  end.

Fixpoint has_leaf (e : aexp) (id : nat) : bool :=
  match e with
  | XLeaf i => Nat.eqb i id
  | XInl => false
  | XUn a => has_leaf a id
  | XSeq a b | XPar a b => has_leaf a id || has_leaf b id
  end.
Fixpoint pdone (p : pst) : bool :=
  match p with PDone => true | PUn c => pdone c | PBin a b => pdone a && pdone b | _ => false end.

(* the script completes leaf id: acts of the completing thread, new state, whether e completed.
   [k] = the downstream reaction to e's completion. *)
Fixpoint gdeliver (e : aexp) (base : nat) (p : pst) (id : nat) (k : list act) : option (list act * pst * bool) :=
  match e, p with
  | XLeaf i, PPend => if Nat.eqb i id then Some ([AComplete base k], PDone, true) else None
  | XUn a, PUn c =>
      match gdeliver a (S base) c id [AComplete base k] with
      | Some (xs, c', d) => Some (xs, PUn c', d)
      | None => None
      end
  | XSeq a b, PBin pa pb =>
      if pdone pa then
        match gdeliver b (S base + size a) pb id [AComplete base k] with
        | Some (xs, pb', d) => Some (xs, PBin pa pb', d)
        | None => None
        end
      else
        let '(ys, pb', db) := gstart b (S base + size a) [AComplete base k] in
        match gdeliver a (S base) pa id ys with
        | Some (xs, pa', true) => Some (xs, PBin pa' pb', db)
        | Some (xs, pa', false) => Some (xs, PBin pa' pb, false)
        | None => None
        end
  | XPar a b, PBin pa pb =>
      if has_leaf a id then
        match gdeliver a (S base) pa id (if pdone pb then [AComplete base k] else []) with
        | Some (xs, pa', d) => Some (xs, PBin pa' pb, d && pdone pb)
        | None => None
        end
      else
        match gdeliver b (S base + size a) pb id (if pdone pa then [AComplete base k] else []) with
        | Some (xs, pb', d) => Some (xs, PBin pa pb', d && pdone pa)
        | None => None
        end
  | _, _ => None
  end.

Fixpoint add_to {A} (l : list (list A)) (t : nat) (x : list A) : list (list A) :=
  match l, t with
  | [], _ => []
  | y :: r, O => (y ++ x) :: r
  | y :: r, S t' => y :: add_to r t' x
  end.

(* script: (leaf id, thread) in order; [wait]: the whole run happens under sync_wait (the expression is
   then numbered from 1 and op 0 owns the initial frame) *)
Fixpoint gscript (e : aexp) (base : nat) (p : pst) (sc : list (nat * nat)) (progs : list (list act))
  : list (list act) :=
  match sc with
  | [] => progs
  | (id, t) :: sc' =>
      match gdeliver e base p id [AObs 1000] with
      | Some (xs, p', _) => gscript e base p' sc' (add_to progs t xs)
      | None => gscript e base p sc' progs
      end
  end.

Definition gen (e : aexp) (wait : bool) (nthr : nat) (sc : list (nat * nat)) : list (option nat) * list (list act) :=
  if wait then
    let '(xs, p, _) := gstart e 1 [AObs 1000] in
    (None :: pars_of e 1 (Some 0), gscript e 1 p sc (add_to (repeat [] nthr) 0 [AWait 0 1 xs]))
  else
    let '(xs, p, _) := gstart e 0 [AObs 1000] in
    (pars_of e 0 None, gscript e 0 p sc (add_to (repeat [] nthr) 0 xs)).

End AsyncStack.
