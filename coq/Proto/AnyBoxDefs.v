(* AnyBox: abstract machine for unifex::basic_any_object / unifex::any_unique (C18, part A).
   Executable model only, no proofs.  Mirrors
     /repo/include/unifex/any_object.hpp                       (KObj)
     /repo/include/unifex/any_unique.hpp                       (KUniq)
     /repo/include/unifex/detail/any_heap_allocated_storage.hpp (heap storage of any_object)
     /repo/include/unifex/detail/type_erasure_builtins.hpp     (destroy / move-construct vtable entries)
   as driven by /verif/harness/k3_anybox.cpp (tracked wrapped types, counting allocator).

   A wrapper variable is dead (no wrapper object) or holds a box:
     Empty        any_unique with impl_ = nullptr; any_object whose heap storage was moved from
                  (state_ = nullptr) or that holds the invalid_obj vtable after a failed assignment:
                  destructible / assignable, invoking a CPO on it is undefined (step = None)
     Inline o     any_object holding o in its inline buffer (o may be a moved-from husk)
     Heap b n o   o lives in heap block b of n bytes
   The machine is sequential: all nondeterminism is the operation list. *)
From Coq Require Import List Arith Bool.
Import ListNotations.

Module AnyBox.

(* ---- parameters ------------------------------------------------------------------------------ *)
Inductive kind := KObj | KUniq.
(* template arguments of basic_any_object used by the driver: InlineSize, InlineAlignment,
   RequireNoexceptMove (ignored for KUniq) *)
Record cfg := { ckind : kind; isz : nat; ial : nat; req : bool }.
(* a wrapped-type class: sizeof, alignof, is_nothrow_move_constructible *)
Record cls := { sz : nat; al : nat; nt : bool }.

Definition ptr_size := 8.   (* sizeof(void ptr) = alignof(void ptr) on the target *)
(* any_object.hpp:53-56  padded_alignment / padded_size *)
Definition padded_size (c : cfg) := if isz c <? ptr_size then ptr_size else isz c.
Definition padded_align (c : cfg) := if ial c <? ptr_size then ptr_size else ial c.
(* any_object.hpp:63-66  can_be_stored_inplace_v; any_unique always heap-allocates *)
Definition inplace (c : cfg) (k : cls) : bool :=
  match ckind c with
  | KUniq => false
  | KObj => ((sz k <=? padded_size c) && (al k <=? padded_align c)) && (negb (req c) || nt k)
  end.
(* size of the heap block.  any_object: any_heap_allocated_storage state = T object followed by the
   (1 byte, not [[no_unique_address]] under g++ 12: config.hpp:45) rebound allocator, rounded to alignof T.
   any_unique: the same layout (concrete_impl base) when an allocator is given (hdr), else plain new T. *)
Definition heap_bytes (c : cfg) (hdr : bool) (k : cls) : nat :=
  match ckind c with
  | KObj => sz k + al k
  | KUniq => if hdr then sz k + al k else sz k
  end.

(* ---- tracked objects, boxes, state ----------------------------------------------------------- *)
Record obj := { oid : nat; ocls : cls; opay : nat; omoved : bool }.
Inductive box := Empty | Inline (o : obj) | Heap (b n : nat) (o : obj).
Record st := { vars : list (option box); nid : nat; nblk : nat }.

Inductive res :=
| ROk | RVal (p : nat) | RMf | RBoom (i : nat) | ROom | RPerr (p : nat)
| RRef (p : option nat) (same : bool) | REnd.

Inductive ev :=
| Ctor (i : nat)              (* T(int) *)
| Move (n o : nat)            (* T(T&&): new n from old o *)
| Copy (n o : nat)            (* T(const T&): never emitted by the machine *)
| MThrow (o : nat)            (* T(T&&) threw while moving from o (nothing constructed) *)
| AThrow (n : nat)            (* allocation of n bytes threw *)
| Dtor (i : nat)
| Alloc (b n : nat)
| Dealloc (b n : nat)
| Ret (r : res).

Definition init (nvars : nat) : st := {| vars := repeat None nvars; nid := 0; nblk := 0 |}.

(* counters + armed failure (0 none, 1 first move of a throwing-move class throws, 2 first allocation throws) *)
Record ctx := { cnid : nat; cnblk : nat; carm : nat }.
Definition ctx0 (s : st) (arm : nat) : ctx := {| cnid := nid s; cnblk := nblk s; carm := arm |}.
Definition disarm (x : ctx) : ctx := {| cnid := cnid x; cnblk := cnblk x; carm := 0 |}.
Definition bump_id (x : ctx) : ctx := {| cnid := S (cnid x); cnblk := cnblk x; carm := carm x |}.
Definition bump_blk (x : ctx) : ctx := {| cnid := cnid x; cnblk := S (cnblk x); carm := carm x |}.
Definition mkst (vs : list (option box)) (x : ctx) : st := {| vars := vs; nid := cnid x; nblk := cnblk x |}.

Fixpoint upd {A : Type} (n : nat) (x : A) (l : list A) : list A :=
  match l with
  | [] => []
  | h :: t => match n with 0 => x :: t | S n' => h :: upd n' x t end
  end.
Definition getv (s : st) (v : nat) : option (option box) := nth_error (vars s) v.

(* ---- wrapped-object primitives (harness tracked<Size,Align,NoThrow>) ---------------------------- *)
Definition new_obj (x : ctx) (k : cls) (p : nat) : obj * ctx * list ev :=
  ({| oid := cnid x; ocls := k; opay := p; omoved := false |}, bump_id x, [Ctor (cnid x)]).
Definition husk (o : obj) : obj := {| oid := oid o; ocls := ocls o; opay := opay o; omoved := true |}.
(* T(T&&): throws before touching anything when armed and the class has a throwing move;
   the new object inherits payload and husk-ness, the source becomes a husk (callers apply husk) *)
Definition move_obj (x : ctx) (o : obj) : option obj * ctx * list ev :=
  if negb (nt (ocls o)) && (carm x =? 1) then (None, disarm x, [MThrow (oid o)])
  else (Some {| oid := cnid x; ocls := ocls o; opay := opay o; omoved := omoved o |}, bump_id x,
        [Move (cnid x) (oid o)]).
Definition alloc (x : ctx) (n : nat) : option nat * ctx * list ev :=
  if carm x =? 2 then (None, disarm x, [AThrow n])
  else (Some (cnblk x), bump_blk x, [Alloc (cnblk x) n]).

(* how the wrapped object of a new box comes into being: T(p) in place, or T(move(o)) *)
Inductive maker := MkNew (k : cls) (p : nat) | MkMove (o : obj).
Definition mk_cls (m : maker) : cls := match m with MkNew k _ => k | MkMove o => ocls o end.
Definition run_maker (x : ctx) (m : maker) : (obj + res) * ctx * list ev :=
  match m with
  | MkNew k p => let '(o, x1, e) := new_obj x k p in (inl o, x1, e)
  | MkMove o =>
    match move_obj x o with
    | (Some o', x1, e) => (inl o', x1, e)
    | (None, x1, e) => (inr (RBoom (oid o)), x1, e)
    end
  end.

(* construct the storage of a wrapper.
   inline: any_object.hpp:131-137 placement new into storage_.
   heap (any_object): any_heap_allocated_storage.hpp:63-80 allocate, scope_guard deallocate, construct.
   heap (any_unique): any_unique.hpp:121-147 allocate / try construct / catch deallocate; :159-170 new T. *)
Definition build (x : ctx) (c : cfg) (hdr : bool) (m : maker) : (box + res) * ctx * list ev :=
  let k := mk_cls m in
  if inplace c k then
    match run_maker x m with
    | (inl o, x1, e) => (inl (Inline o), x1, e)
    | (inr r, x1, e) => (inr r, x1, e)
    end
  else
    let n := heap_bytes c hdr k in
    match alloc x n with
    | (None, x1, e1) => (inr ROom, x1, e1)
    | (Some b, x1, e1) =>
      match run_maker x1 m with
      | (inl o, x2, e2) => (inl (Heap b n o), x2, e1 ++ e2)
      | (inr r, x2, e2) => (inr r, x2, e1 ++ e2 ++ [Dealloc b n])
      end
    end.

(* the destroy vtable entry: any_object.hpp:206-209; any_heap_allocated_storage.hpp:115-121;
   any_unique.hpp:193-201 + 66-70 *)
Definition destroy_box (b : box) : list ev :=
  match b with
  | Empty => []
  | Inline o => [Dtor (oid o)]
  | Heap blk n o => [Dtor (oid o); Dealloc blk n]
  end.

(* the move-construct vtable entry / pointer steal: any_object.hpp:196-204,
   any_heap_allocated_storage.hpp:112-113, any_unique.hpp:172-174.  Result: destination, source after. *)
Definition move_box (x : ctx) (src : box) : (box * box + res) * ctx * list ev :=
  match src with
  | Empty => (inl (Empty, Empty), x, [])
  | Heap b n o => (inl (Heap b n o, Empty), x, [])
  | Inline o =>
    match move_obj x o with
    | (Some o', x1, e) => (inl (Inline o', Inline (husk o)), x1, e)
    | (None, x1, e) => (inr (RBoom (oid o)), x1, e)
    end
  end.

(* operator=(type&&) for distinct wrappers.  any_object.hpp:212-245: destroy own, (invalid_obj vtable),
   move-construct from other; if that throws the destination keeps the invalid_obj vtable (Empty).
   any_unique.hpp:181-184: by-value parameter steals the pointer, swap, the parameter's destructor
   destroys the old contents: the same event order since stealing emits nothing. *)
Definition assign_box (x : ctx) (dst src : box) : (box * box * option res) * ctx * list ev :=
  let e1 := destroy_box dst in
  match move_box x src with
  | (inl (d, s'), x1, e2) => ((d, s', None), x1, e1 ++ e2)
  | (inr r, x1, e2) => ((Empty, src, Some r), x1, e1 ++ e2)
  end.

(* ---- operations ---------------------------------------------------------------------------------- *)
Inductive op :=
| ONew (v : nat) (k : cls) (p : nat) (inpl hdr : bool) (arm : nat)
| OMoveC (v w arm : nat)
| OMoveA (v w arm : nat)
| OAssignV (v : nat) (k : cls) (p arm : nat)
| OSwap (v w arm : nat)
| OInv (v : nat)
| OPoke (v d : nat) (t : bool)
| ORef (v w : nat)
| ODel (v : nat).

Definition box_obj (b : box) : option obj :=
  match b with Empty => None | Inline o => Some o | Heap _ _ o => Some o end.
Definition set_obj (b : box) (o : obj) : box :=
  match b with Empty => Empty | Inline _ => Inline o | Heap blk n _ => Heap blk n o end.
Definition obs (o : obj) : option nat := if omoved o then None else Some (opay o).
Definition obs_res (o : obj) : res := match obs o with Some p => RVal p | None => RMf end.

Definition res_of (r : option res) : res := match r with Some x => x | None => ROk end.

Definition step (c : cfg) (s : st) (o : op) : option (st * list ev) :=
  match o with
  | ONew v k p inpl hdr arm =>
    match getv s v with
    | Some None =>
      let x := ctx0 s arm in
      if inpl then
        match build x c hdr (MkNew k p) with
        | (inl b, x1, e) => Some (mkst (upd v (Some b) (vars s)) x1, e ++ [Ret ROk])
        | (inr r, x1, e) => Some (mkst (vars s) x1, e ++ [Ret r])
        end
      else
        (* driver: T tmp(p); W(std::move(tmp)); tmp destroyed at scope exit (also when unwinding) *)
        let '(t, x0, e0) := new_obj x k p in
        match build x0 c hdr (MkMove t) with
        | (inl b, x1, e) => Some (mkst (upd v (Some b) (vars s)) x1, e0 ++ e ++ [Dtor (oid t); Ret ROk])
        | (inr r, x1, e) => Some (mkst (vars s) x1, e0 ++ e ++ [Dtor (oid t); Ret r])
        end
    | _ => None
    end
  | OMoveC v w arm =>
    match getv s v, getv s w with
    | Some None, Some (Some bw) =>
      match move_box (ctx0 s arm) bw with
      | (inl (d, s'), x1, e) => Some (mkst (upd v (Some d) (upd w (Some s') (vars s))) x1, e ++ [Ret ROk])
      | (inr r, x1, e) => Some (mkst (vars s) x1, e ++ [Ret r])
      end
    | _, _ => None
    end
  | OMoveA v w arm =>
    match getv s v, getv s w with
    | Some (Some bv), Some (Some bw) =>
      if v =? w then Some (s, [Ret ROk])     (* any_object.hpp:213 self test; any_unique: steal + swap back *)
      else
        match assign_box (ctx0 s arm) bv bw with
        | ((d, s', r), x1, e) =>
          Some (mkst (upd v (Some d) (upd w (Some s') (vars s))) x1, e ++ [Ret (res_of r)])
        end
    | _, _ => None
    end
  | OAssignV v k p arm =>
    match getv s v with
    | Some (Some bv) =>
      let '(t, x0, e0) := new_obj (ctx0 s arm) k p in
      match ckind c with
      | KObj =>
        (* any_object.hpp:247-296: destroy, (invalid_obj vtable), construct the new value *)
        match build x0 c true (MkMove t) with
        | (inl b, x1, e) =>
          Some (mkst (upd v (Some b) (vars s)) x1, e0 ++ destroy_box bv ++ e ++ [Dtor (oid t); Ret ROk])
        | (inr r, x1, e) =>
          Some (mkst (upd v (Some Empty) (vars s)) x1, e0 ++ destroy_box bv ++ e ++ [Dtor (oid t); Ret r])
        end
      | KUniq =>
        (* implicit any_unique(T&&) temporary (new T), then operator=(type) *)
        match build x0 c false (MkMove t) with
        | (inl b, x1, e) =>
          Some (mkst (upd v (Some b) (vars s)) x1, e0 ++ e ++ destroy_box bv ++ [Dtor (oid t); Ret ROk])
        | (inr r, x1, e) =>
          Some (mkst (vars s) x1, e0 ++ e ++ [Dtor (oid t); Ret r])
        end
      end
    | _ => None
    end
  | OSwap v w arm =>
    match getv s v, getv s w with
    | Some (Some bv), Some (Some bw) =>
      match ckind c with
      | KUniq =>   (* any_unique.hpp:176-179 *)
        Some (mkst (upd v (Some bw) (upd w (Some bv) (vars s))) (ctx0 s arm), [Ret ROk])
      | KObj =>    (* std::swap: W tmp(move(a)); a = move(b); b = move(tmp); ~tmp *)
        match move_box (ctx0 s arm) bv with
        | (inr r, x1, e1) => Some (mkst (vars s) x1, e1 ++ [Ret r])
        | (inl (tmp, a1), x1, e1) =>
          if v =? w then
            (* a = move(a) is a no-op; a = move(tmp) *)
            match assign_box x1 a1 tmp with
            | ((a2, tmp1, r), x2, e2) =>
              Some (mkst (upd v (Some a2) (vars s)) x2, e1 ++ e2 ++ destroy_box tmp1 ++ [Ret (res_of r)])
            end
          else
            match assign_box x1 a1 bw with
            | ((a2, b1, Some r), x2, e2) =>
              Some (mkst (upd v (Some a2) (upd w (Some b1) (vars s))) x2,
                    e1 ++ e2 ++ destroy_box tmp ++ [Ret r])
            | ((a2, b1, None), x2, e2) =>
              match assign_box x2 b1 tmp with
              | ((b2, tmp1, r), x3, e3) =>
                Some (mkst (upd v (Some a2) (upd w (Some b2) (vars s))) x3,
                      e1 ++ e2 ++ e3 ++ destroy_box tmp1 ++ [Ret (res_of r)])
              end
            end
        end
      end
    | _, _ => None
    end
  | OInv v =>
    match getv s v with
    | Some (Some b) =>
      match box_obj b with
      | Some o => Some (s, [Ret (obs_res o)])
      | None => None     (* CPO on an empty wrapper: null dereference / abort *)
      end
    | _ => None
    end
  | OPoke v d t =>
    match getv s v with
    | Some (Some b) =>
      match box_obj b with
      | Some o =>
        let o' := {| oid := oid o; ocls := ocls o; opay := opay o + d; omoved := omoved o |} in
        Some ({| vars := upd v (Some (set_obj b o')) (vars s); nid := nid s; nblk := nblk s |},
              [Ret (if t then RPerr (opay o') else RVal (opay o'))])
      | None => None
      end
    | _ => None
    end
  | ORef v w =>
    match getv s v, getv s w with
    | Some (Some b), Some (Some _) =>
      match box_obj b with
      | Some o => Some (s, [Ret (RRef (obs o) (v =? w))])
      | None => None
      end
    | _, _ => None
    end
  | ODel v =>
    match getv s v with
    | Some (Some b) =>
      Some ({| vars := upd v None (vars s); nid := nid s; nblk := nblk s |}, destroy_box b ++ [Ret ROk])
    | _ => None
    end
  end.

(* end of the driver's run: destroy the wrappers that are still alive, in variable order *)
Fixpoint finish_evs (l : list (option box)) : list ev :=
  match l with
  | [] => []
  | None :: t => finish_evs t
  | Some b :: t => destroy_box b ++ finish_evs t
  end.
Definition finish (s : st) : st * list ev :=
  ({| vars := map (fun _ => None) (vars s); nid := nid s; nblk := nblk s |}, finish_evs (vars s) ++ [Ret REnd]).

(* run an operation list; operations whose precondition fails are skipped (reported by valid) *)
Fixpoint run (c : cfg) (s : st) (ops : list op) : st * list ev :=
  match ops with
  | [] => (s, [])
  | o :: r =>
    match step c s o with
    | Some (s1, e) => let '(s2, e2) := run c s1 r in (s2, e ++ e2)
    | None => run c s r
    end
  end.
Definition exec (c : cfg) (nvars : nat) (ops : list op) : list ev :=
  let '(s, e) := run c (init nvars) ops in e ++ snd (finish s).

End AnyBox.
