(* Proofs about the E1 model NewThread (Proto/NewThreadDefs.v): new_thread_context.
   For arbitrary starters / operation counts / stop sets and an arbitrary schedule (spurious
   wake-ups of the destructor's wait included). *)
From Coq Require Import List Bool Arith Lia FinFun.
From V Require Import Base.Sched Proto.NewThreadDefs.
Import ListNotations.
Import NewThread.

(* ------------------------------------------------------------------------------------------ *)
(* list helpers                                                                               *)

Lemma set_nth_length {A} (i : nat) (x : A) (l : list A) : length (set_nth i x l) = length l.
Proof. revert i; induction l as [|y r IH]; intros [|i]; cbn; auto. Qed.

Lemma nth_error_set_nth_eq {A} (i : nat) (x : A) (l : list A) :
  i < length l -> nth_error (set_nth i x l) i = Some x.
Proof. revert i; induction l as [|y r IH]; intros [|i] Hlt; cbn in *; try lia; auto. apply IH; lia. Qed.

Lemma nth_error_set_nth_neq {A} (i j : nat) (x : A) (l : list A) :
  i <> j -> nth_error (set_nth i x l) j = nth_error l j.
Proof. revert i j; induction l as [|y r IH]; intros [|i] [|j] Hne; cbn; auto; try congruence. Qed.

Lemma nth_error_lt {A} (l : list A) i x : nth_error l i = Some x -> i < length l.
Proof. intros H. apply nth_error_Some. congruence. Qed.

Lemma nth_error_set_nth {A} (i j : nat) (x y : A) (l : list A) :
  nth_error (set_nth i x l) j = Some y ->
  (i = j /\ y = x /\ j < length l) \/ (i <> j /\ nth_error l j = Some y).
Proof.
  intros H. destruct (Nat.eq_dec i j) as [->|Hne].
  - left. assert (Hlt : j < length l).
    { apply nth_error_lt in H. now rewrite set_nth_length in H. }
    rewrite nth_error_set_nth_eq in H by exact Hlt. injection H as <-. auto.
  - right. rewrite nth_error_set_nth_neq in H by exact Hne. auto.
Qed.

Lemma map_fst_set_nth {A B} (l : list (A * B)) i a b b' :
  nth_error l i = Some (a, b) -> map fst (set_nth i (a, b') l) = map fst l.
Proof.
  revert i; induction l as [|y r IH]; intros [|i] H; cbn in *; try discriminate.
  - injection H as ->. reflexivity.
  - f_equal. eauto.
Qed.

Lemma NoDup_app_singleton {A} (l : list A) x : NoDup l -> ~ In x l -> NoDup (l ++ [x]).
Proof.
  intros Hn Hx. induction Hn as [|y r Hy Hr IH]; cbn.
  - constructor; [intros []|constructor].
  - constructor.
    + rewrite in_app_iff. cbn. intros [H|[H|[]]]; [auto|]. subst. apply Hx. now left.
    + apply IH. intros H. apply Hx. now right.
Qed.

Lemma item_eqb_eq a b : item_eqb a b = true <-> a = b.
Proof.
  destruct a as [p j], b as [q k]. unfold item_eqb; cbn.
  rewrite andb_true_iff, !Nat.eqb_eq. split; [intros [-> ->]; reflexivity|].
  intros H; injection H; auto.
Qed.

Lemma mem_In a l : mem a l = true <-> In a l.
Proof.
  unfold mem. rewrite existsb_exists. split.
  - intros (x & Hx & He). apply item_eqb_eq in He. now subst.
  - intros H. exists a. split; [exact H|]. now apply item_eqb_eq.
Qed.

Lemma nth_error_map_some {A B} (f : A -> B) l i y :
  nth_error (map f l) i = Some y -> exists x, nth_error l i = Some x /\ y = f x.
Proof.
  revert i; induction l as [|a r IH]; intros [|i] H; cbn in *; try discriminate.
  - injection H as <-. eauto.
  - eauto.
Qed.

(* two positions of a duplicate-free list holding the same key are the same position *)
Lemma nodup_fst_index {B} (l : list (item * B)) i j a b b' :
  NoDup (map fst l) -> nth_error l i = Some (a, b) -> nth_error l j = Some (a, b') -> i = j.
Proof.
  intros Hn Hi Hj.
  assert (E1 : nth_error (map fst l) i = Some a) by (rewrite nth_error_map, Hi; reflexivity).
  assert (E2 : nth_error (map fst l) j = Some a) by (rewrite nth_error_map, Hj; reflexivity).
  apply (proj1 (NoDup_nth_error (map fst l)) Hn); [eapply nth_error_lt; eauto|congruence].
Qed.

(* creating the thread of an operation = replacing its entry *)
Lemma create_set_nth (l : list (item * tpc)) i it :
  NoDup (map fst l) -> nth_error l i = Some (it, TNotCreated) -> create it l = set_nth i (it, TLock) l.
Proof.
  revert i; induction l as [|[a b] r IH]; intros [|i] Hn H; cbn in *; try discriminate.
  - injection H as -> ->. rewrite (proj2 (item_eqb_eq it it) eq_refl). f_equal.
    inversion Hn as [|? ? Hx Hr]; subst. clear -Hx. induction r as [|[a b] r IH]; cbn; [reflexivity|].
    destruct (item_eqb it a) eqn:E.
    + apply item_eqb_eq in E. subst. exfalso. apply Hx. now left.
    + f_equal. apply IH. intros H. apply Hx. now right.
  - inversion Hn as [|? ? Hx Hr]; subst. destruct (item_eqb it a) eqn:E.
    + apply item_eqb_eq in E. subst. exfalso. apply Hx.
      change a with (fst (a, TNotCreated)). apply in_map. eapply nth_error_In; eauto.
    + f_equal. eauto.
Qed.

(* ------------------------------------------------------------------------------------------ *)
(* counting                                                                                   *)

Definition b2n (b : bool) : nat := if b then 1 else 0.

(* a created thread that has not yet decremented activeThreadCount_ *)
Definition active (p : tpc) : bool :=
  match p with TLock | TUnlock | TRun | RLock | RSub => true | _ => false end.
(* has completed its receiver *)
Definition past_run (p : tpc) : bool :=
  match p with RLock | RSub | RNotify | RUnlock | TAfter => true | _ => false end.
(* has swapped itself into threadToJoin_ *)
Definition is_retired (p : tpc) : bool :=
  match p with RSub | RNotify | RUnlock | TAfter => true | _ => false end.
Definition holds_c (p : tpc) : bool := match p with RSub | RNotify | RUnlock => true | _ => false end.
Definition owner_holds (o : opc) : bool := match o with OPred | OWait | OJoin | OUnlock => true | _ => false end.

Fixpoint nactive (l : list (item * tpc)) : nat :=
  match l with [] => 0 | p :: r => b2n (active (snd p)) + nactive r end.

Lemma nactive_set_nth l i it p q :
  nth_error l i = Some (it, p) ->
  nactive (set_nth i (it, q) l) + b2n (active p) = nactive l + b2n (active q).
Proof.
  revert i; induction l as [|y r IH]; intros [|i] H; cbn in *; try discriminate.
  - injection H as ->. cbn. lia.
  - specialize (IH i H). lia.
Qed.

Lemma nactive_zero l i it p : nactive l = 0 -> nth_error l i = Some (it, p) -> active p = false.
Proof.
  revert i; induction l as [|y r IH]; intros [|i] H0 H; cbn in *; try discriminate.
  - injection H as ->. cbn in H0. destruct (active p); [cbn in H0; try lia|]; reflexivity.
  - apply (IH i); [lia|exact H].
Qed.

(* the operations started so far by a starter *)
Definition created_upto (p : spc) : nat := match p with SLock j | SAdd j => j | SUnlock j => S j end.

(* all_items *)
Lemma in_all_items x0 counts p j :
  In (p, j) (all_items x0 counts) <-> exists x n, p = S (x0 + x) /\ nth_error counts x = Some n /\ j < n.
Proof.
  revert x0; induction counts as [|n r IH]; intros x0; cbn.
  - split; [intros []|]. intros (x & n & _ & H & _). destruct x; discriminate.
  - rewrite in_app_iff, in_map_iff, IH. split.
    + intros [(j' & E & Hin)|(x & n' & -> & Hn & Hj)].
      * injection E as <- <-. apply in_seq in Hin. exists 0, n. rewrite Nat.add_0_r. cbn. repeat split; auto; lia.
      * exists (S x), n'. cbn. repeat split; auto; lia.
    + intros ([|x] & n' & -> & Hn & Hj); cbn in Hn.
      * injection Hn as <-. left. exists j. rewrite Nat.add_0_r. split; [reflexivity|]. apply in_seq. lia.
      * right. exists x, n'. repeat split; auto; lia.
Qed.

Lemma NoDup_app_intro {A} (l r : list A) :
  NoDup l -> NoDup r -> (forall a, In a l -> In a r -> False) -> NoDup (l ++ r).
Proof.
  intros Hl Hr Hd. induction Hl as [|x l Hx Hl IH]; cbn; [exact Hr|].
  constructor.
  - rewrite in_app_iff. intros [H|H]; [auto|]. apply (Hd x); [now left|exact H].
  - apply IH. intros a Ha. apply Hd. now right.
Qed.

Lemma nodup_all_items x0 counts : NoDup (all_items x0 counts).
Proof.
  revert x0; induction counts as [|n r IH]; intros x0; cbn; [constructor|].
  apply NoDup_app_intro.
  - apply Injective_map_NoDup; [|apply seq_NoDup]. intros a b E. now injection E.
  - apply IH.
  - intros [p j] H1 H2. apply in_map_iff in H1 as (j' & E & _). injection E as <- <-.
    apply in_all_items in H2 as (x & n' & E & _). lia.
Qed.

(* ------------------------------------------------------------------------------------------ *)
(* the invariant                                                                              *)

Definition is_osub (o : opc) : bool := match o with OSub => true | _ => false end.

Record Inv (counts : list nat) (s : st) : Prop := {
  V_items : map fst (threads s) = all_items 0 counts;
  V_counts : map fst (starters s) = counts;
  V_own : owner_holds (owner s) = true -> cmtx s = Some 0;
  V_thr : forall i it pc, nth_error (threads s) i = Some (it, pc) -> holds_c pc = true ->
          cmtx s = Some (S (nstart s + i));
  V_count : count s = b2n (is_osub (owner s)) + nactive (threads s);
  V_created : forall x n pc i j tp, nth_error (starters s) x = Some (n, pc) ->
              nth_error (threads s) i = Some ((S x, j), tp) -> (tp = TNotCreated <-> created_upto pc <= j);
  V_sbound : forall x n pc, nth_error (starters s) x = Some (n, pc) ->
             created_upto pc <= n /\ (match pc with SLock _ => True | SAdd j | SUnlock j => j < n end);
  V_completed : forall i it pc, nth_error (threads s) i = Some (it, pc) ->
                (In it (map fst (completed s)) <-> past_run pc = true);
  V_cnodup : NoDup (map fst (completed s));
  V_cstop : forall it b, In (it, b) (completed s) -> b = mem it (stopped s);
  V_retired : forall i it pc, nth_error (threads s) i = Some (it, pc) ->
              (In it (retired s) <-> is_retired pc = true);
  V_rnodup : NoDup (retired s);
  V_started : is_osub (owner s) = false -> all_starters_done s = true;
  V_wait : owner s = OWait -> count s <> 0;
  V_blocked : owner s = OBlocked false ->
              count s <> 0 \/ exists i it, nth_error (threads s) i = Some (it, RNotify);
  V_joined : (owner s = OJoin \/ owner s = OUnlock \/ owner s = ODone) ->
             count s = 0 /\ forall i it pc, nth_error (threads s) i = Some (it, pc) -> pc = TAfter
}.

Lemma nactive_init l : nactive (map (fun it : item => (it, TNotCreated)) l) = 0.
Proof. induction l; cbn; auto. Qed.

Lemma inv_init counts stops : Inv counts (init counts stops).
Proof.
  constructor; cbn; try discriminate; try (intros; discriminate).
  - rewrite map_map. cbn. apply map_id.
  - rewrite map_map. cbn. apply map_id.
  - intros i it pc H. apply nth_error_map_some in H as (y & _ & E). injection E as -> ->. discriminate.
  - now rewrite nactive_init.
  - intros x n pc i j tp H1 H2. apply nth_error_map_some in H1 as (y & _ & E). injection E as -> ->.
    apply nth_error_map_some in H2 as (y' & _ & E). injection E as _ ->. cbn. split; [lia|reflexivity].
  - intros x n pc H. apply nth_error_map_some in H as (y & _ & E). injection E as -> ->. cbn. split; [lia|exact I].
  - intros i it pc H. apply nth_error_map_some in H as (y & _ & E). injection E as -> ->. cbn. split; [intros []|discriminate].
  - constructor.
  - intros it b [].
  - intros i it pc H. apply nth_error_map_some in H as (y & _ & E). injection E as -> ->. cbn. split; [intros []|discriminate].
  - constructor.
  - intros [H|[H|H]]; discriminate.
Qed.

Ltac nt_simpl :=
  unfold nstart, all_starters_done, set_owner, set_cmtx, set_count, set_starter, set_thread, set_oplocked, upd in *;
  cbn [count cmtx owner starters threads oplocked retired stopped completed] in *;
  rewrite ?set_nth_length in *.

Lemma all_done_nth (l : list (nat * spc)) i n pc :
  forallb starter_done l = true -> nth_error l i = Some (n, pc) -> exists j, pc = SLock j /\ n <= j.
Proof.
  rewrite forallb_forall. intros H Hn.
  specialize (H _ (nth_error_In _ _ Hn)). unfold starter_done in H; cbn in H.
  destruct pc; try discriminate. apply Nat.leb_le in H. eauto.
Qed.

(* the thread entry of an operation of starter x *)
Lemma thread_of_item counts s x n j :
  Inv counts s -> nth_error counts x = Some n -> j < n ->
  exists i tp, nth_error (threads s) i = Some ((S x, j), tp).
Proof.
  intros I Hn Hj.
  assert (Hin : In (S x, j) (map fst (threads s))).
  { rewrite (V_items _ _ I). apply in_all_items. exists x, n. auto. }
  apply In_nth_error in Hin as [i Hi]. apply nth_error_map_some in Hi as ([it tp] & Hi & E).
  cbn in E. subst it. eauto.
Qed.

Lemma item_of_thread counts s i it pc :
  Inv counts s -> nth_error (threads s) i = Some (it, pc) ->
  exists x n pcx, it = (S x, snd it) /\ nth_error (starters s) x = Some (n, pcx) /\ snd it < n.
Proof.
  intros I Hi.
  assert (Hin : In it (all_items 0 counts)).
  { rewrite <- (V_items _ _ I). change it with (fst (it, pc)). apply in_map. eapply nth_error_In; eauto. }
  destruct it as [p j]. apply in_all_items in Hin as (x & n & -> & Hn & Hj). cbn in *.
  rewrite <- (V_counts _ _ I) in Hn. apply nth_error_map_some in Hn as ([n' pcx] & Hn & E). cbn in E. subst n'.
  exists x, n, pcx. auto.
Qed.

Lemma threads_nodup counts s : Inv counts s -> NoDup (map fst (threads s)).
Proof. intros I. rewrite (V_items _ _ I). apply nodup_all_items. Qed.

Lemma step_owner_inv counts s s' evs : Inv counts s -> step_owner s = Some (s', evs) -> Inv counts s'.
Proof.
  intros I H. unfold step_owner in H. pose proof I as I0. destruct I.
  destruct (owner s) as [| | | |[]| | |] eqn:Eo; try discriminate.
  - (* OSub *)
    destruct (all_starters_done s) eqn:Ed; [|discriminate]. injection H as <- <-.
    constructor; nt_simpl; auto; try discriminate; try (intros; discriminate).
    + cbn in *. lia.
    + intros [E|[E|E]]; discriminate.
  - (* OLock *)
    destruct (cmtx s) eqn:Em; [discriminate|]. injection H as <- <-.
    constructor; nt_simpl; auto; try discriminate; try (intros; discriminate).
    + intros i it pc Hn Hh. specialize (V_thr0 _ _ _ Hn Hh). discriminate.
    + intros [E|[E|E]]; discriminate.
  - (* OPred *)
    injection H as <- <-. specialize (V_own0 eq_refl).
    destruct (Nat.eqb_spec (count s) 0) as [Hz|Hnz].
    + constructor; nt_simpl; auto; try discriminate; try (intros; discriminate).
      intros _. split; [exact Hz|]. intros i it pc Hn.
      cbn in V_count0. assert (Hna : nactive (threads s) = 0) by lia.
      pose proof (nactive_zero _ _ _ _ Hna Hn) as Hact.
      assert (Hh : holds_c pc = false).
      { destruct (holds_c pc) eqn:E; [|reflexivity]. specialize (V_thr0 _ _ _ Hn E). rewrite V_own0 in V_thr0. discriminate. }
      destruct (item_of_thread counts s i it pc I0 Hn) as (x & n & pcx & Eit & Hx & Hj).
      destruct (all_done_nth _ _ _ _ (V_started0 eq_refl) Hx) as (j' & -> & Hle).
      rewrite Eit in Hn. pose proof (V_created0 _ _ _ _ _ _ Hx Hn) as Hc. cbn in Hc.
      destruct pc; try discriminate; try reflexivity. exfalso. destruct Hc as [Hc _]. specialize (Hc eq_refl). lia.
    + constructor; nt_simpl; auto; try discriminate; try (intros; discriminate).
      intros [E|[E|E]]; discriminate.
  - (* OWait *)
    injection H as <- <-. specialize (V_own0 eq_refl).
    constructor; nt_simpl; auto; try discriminate; try (intros; discriminate).
    + intros i it pc Hn Hh. specialize (V_thr0 _ _ _ Hn Hh). rewrite V_own0 in V_thr0. discriminate.
    + intros [E|[E|E]]; discriminate.
  - (* OBlocked true *)
    destruct (cmtx s) eqn:Em; [discriminate|]. injection H as <- <-.
    constructor; nt_simpl; auto; try discriminate; try (intros; discriminate).
    + intros i it pc Hn Hh. specialize (V_thr0 _ _ _ Hn Hh). discriminate.
    + intros [E|[E|E]]; discriminate.
  - (* OJoin *)
    specialize (V_own0 eq_refl). destruct (V_joined0 (or_introl eq_refl)) as [Hz Hall].
    destruct (retired s) eqn:Er.
    + injection H as <- <-.
      constructor; nt_simpl; rewrite ?Er; auto; try discriminate; try (intros; discriminate).
      all: try (intros i it pc Hn Hh; rewrite (Hall _ _ _ Hn) in Hh; discriminate).
    + destruct (all_retired_finished s); [|discriminate]. injection H as <- <-.
      constructor; nt_simpl; rewrite ?Er; auto; try discriminate; try (intros; discriminate).
  - (* OUnlock *)
    injection H as <- <-. specialize (V_own0 eq_refl). destruct (V_joined0 (or_intror (or_introl eq_refl))) as [Hz Hall].
    constructor; nt_simpl; auto; try discriminate; try (intros; discriminate).
    intros i it pc Hn Hh. rewrite (Hall _ _ _ Hn) in Hh. discriminate.
Qed.

Lemma step_spur_inv counts s s' evs : Inv counts s -> step_spur s = Some (s', evs) -> Inv counts s'.
Proof.
  intros I H. unfold step_spur in H. destruct I.
  destruct (owner s) as [| | | |[]| | |] eqn:Eo; try discriminate. injection H as <- <-.
  constructor; nt_simpl; auto; try discriminate; try (intros; discriminate).
  intros [E|[E|E]]; discriminate.
Qed.

Lemma all_done_contra (l : list (nat * spc)) x n pc :
  forallb starter_done l = true -> nth_error l x = Some (n, pc) ->
  (match pc with SLock j => j < n | _ => True end) -> False.
Proof. intros H Hn Hp. destruct (all_done_nth l x n pc H Hn) as (j & -> & Hle). lia. Qed.

(* a starter that is still working keeps the owner before its fetch_sub *)
Lemma starter_busy_osub counts s x n pc :
  Inv counts s -> nth_error (starters s) x = Some (n, pc) ->
  (match pc with SLock j => j < n | _ => True end) -> owner s = OSub.
Proof.
  intros I Hn Hp. destruct (owner s) eqn:Eo; [reflexivity| | | | | | |];
    exfalso; eapply (all_done_contra (starters s)); eauto; apply (V_started _ _ I); rewrite Eo; reflexivity.
Qed.

Lemma step_starter_inv counts x s s' evs : Inv counts s -> step_starter x s = Some (s', evs) -> Inv counts s'.
Proof.
  intros HI H. unfold step_starter in H. pose proof HI as I0.
  destruct (nth_error (starters s) x) as [[n pc]|] eqn:En; [|discriminate].
  assert (Hx : x < length (starters s)) by (eapply nth_error_lt; eauto).
  destruct pc as [j|j|j].
  - (* SLock *)
    destruct (Nat.ltb_spec j n) as [Hj|]; [|discriminate]. injection H as <- <-.
    pose proof (starter_busy_osub counts s x n (SLock j) I0 En Hj) as Eo. destruct HI.
    constructor; nt_simpl; rewrite ?Eo in *; auto; try discriminate; try (intros; discriminate).
    + erewrite map_fst_set_nth; eauto.
    + intros x0 n0 pc0 i j0 tp Hn0 Ht. apply nth_error_set_nth in Hn0 as [(<- & E & _)|(Hne & Hn0)]; [|eauto].
      injection E as -> ->. apply (V_created0 _ _ _ _ _ _ En Ht).
    + intros x0 n0 pc0 Hn0. apply nth_error_set_nth in Hn0 as [(<- & E & _)|(Hne & Hn0)]; [|eauto].
      injection E as -> ->. cbn. split; [lia|exact Hj].
  - (* SAdd: the thread is created and counted *)
    injection H as <- <-.
    pose proof (starter_busy_osub counts s x n (SAdd j) I0 En I) as Eo.
    destruct (V_sbound _ _ I0 _ _ _ En) as [_ Hj].
    assert (Hcx : nth_error counts x = Some n).
    { rewrite <- (V_counts _ _ I0), nth_error_map, En. reflexivity. }
    destruct (thread_of_item counts s x n j I0 Hcx Hj) as (i & tp & Hi).
    assert (Etp : tp = TNotCreated) by (apply (V_created _ _ I0 _ _ _ _ _ _ En Hi); cbn; lia). subst tp.
    pose proof (threads_nodup counts s I0) as Hnd.
    rewrite (create_set_nth _ i _ Hnd Hi).
    assert (Hil : i < length (threads s)) by (eapply nth_error_lt; eauto).
    destruct HI.
    constructor; nt_simpl; rewrite ?Eo in *; auto; try discriminate; try (intros; discriminate).
    + erewrite map_fst_set_nth; eauto.
    + erewrite map_fst_set_nth; eauto.
    + intros i0 it pc Hn Hh. apply nth_error_set_nth in Hn as [(<- & E & _)|(Hne & Hn)]; [injection E as _ ->; discriminate|eauto].
    + pose proof (nactive_set_nth _ _ _ _ TLock Hi) as Hc. cbn in *. lia.
    + intros x0 n0 pc0 i0 j0 tp Hn0 Ht.
      apply nth_error_set_nth in Hn0 as [(<- & E & _)|(Hne & Hn0)].
      * injection E as -> ->. cbn. apply nth_error_set_nth in Ht as [(<- & E & _)|(Hne & Ht)].
        -- injection E as -> ->. split; [discriminate|lia].
        -- pose proof (V_created0 _ _ _ _ _ _ En Ht) as Hc. cbn in Hc. rewrite Hc.
           assert (j0 <> j). { intros ->. apply Hne. eapply nodup_fst_index; eauto. }
           lia.
      * apply nth_error_set_nth in Ht as [(<- & E & _)|(Hne' & Ht)]; [injection E as E _ _; congruence|eauto].
    + intros x0 n0 pc0 Hn0. apply nth_error_set_nth in Hn0 as [(<- & E & _)|(Hne & Hn0)]; [|eauto].
      injection E as -> ->. cbn. split; [lia|exact Hj].
    + intros i0 it pc Hn. apply nth_error_set_nth in Hn as [(<- & E & _)|(Hne & Hn)]; [|eauto].
      injection E as -> ->. rewrite (V_completed0 _ _ _ Hi). cbn. tauto.
    + intros i0 it pc Hn. apply nth_error_set_nth in Hn as [(<- & E & _)|(Hne & Hn)]; [|eauto].
      injection E as -> ->. rewrite (V_retired0 _ _ _ Hi). cbn. tauto.
    + intros [E|[E|E]]; discriminate.
  - (* SUnlock *)
    injection H as <- <-.
    pose proof (starter_busy_osub counts s x n (SUnlock j) I0 En I) as Eo.
    destruct (V_sbound _ _ I0 _ _ _ En) as [_ Hj]. destruct HI.
    constructor; nt_simpl; rewrite ?Eo in *; auto; try discriminate; try (intros; discriminate).
    + erewrite map_fst_set_nth; eauto.
    + intros x0 n0 pc0 i j0 tp Hn0 Ht. apply nth_error_set_nth in Hn0 as [(<- & E & _)|(Hne & Hn0)]; [|eauto].
      injection E as -> ->. apply (V_created0 _ _ _ _ _ _ En Ht).
    + intros x0 n0 pc0 Hn0. apply nth_error_set_nth in Hn0 as [(<- & E & _)|(Hne & Hn0)]; [|eauto].
      injection E as -> ->. cbn. split; [lia|exact I].
Qed.

Ltac tsplit Hn := apply nth_error_set_nth in Hn as [(<- & Hn & _)|(? & Hn)].

(* a thread moves between two program counters of the same kind *)
Lemma thr_simple counts s i it pc0 pc1 :
  Inv counts s -> nth_error (threads s) i = Some (it, pc0) ->
  pc0 <> TNotCreated -> pc1 <> TNotCreated -> pc0 <> TAfter -> pc0 <> RNotify ->
  active pc1 = active pc0 -> past_run pc1 = past_run pc0 -> is_retired pc1 = is_retired pc0 ->
  holds_c pc1 = false ->
  Inv counts (set_thread s i (it, pc1)).
Proof.
  intros HI Hi Hn0 Hn1 Ha Hr Eact Epr Ert Hh. destruct HI.
  constructor; nt_simpl; auto.
  - erewrite map_fst_set_nth; eauto.
  - intros i0 it0 pc Hn Hhc. tsplit Hn; [injection Hn as -> ->; congruence|eauto].
  - pose proof (nactive_set_nth _ _ _ _ pc1 Hi) as Hc. rewrite Eact in Hc. lia.
  - intros x n pc i0 j tp Hx Ht. tsplit Ht; [|eauto].
    injection Ht as <- ->. pose proof (V_created0 _ _ _ _ _ _ Hx Hi) as Hc. split; [congruence|].
    intros Hle. exfalso. apply Hn0. now apply Hc.
  - intros i0 it0 pc Hn. tsplit Hn; [|eauto]. injection Hn as -> ->. rewrite Epr. eauto.
  - intros i0 it0 pc Hn. tsplit Hn; [|eauto]. injection Hn as -> ->. rewrite Ert. eauto.
  - intros Eo. destruct (V_blocked0 Eo) as [Hc|(i0 & it0 & Hn)]; [auto|]. right.
    exists i0, it0. rewrite nth_error_set_nth_neq; [exact Hn|]. intros ->. rewrite Hi in Hn. injection Hn as _ ->.
    congruence.
  - intros Ho. destruct (V_joined0 Ho) as [Hz Hall]. exfalso. apply Ha. eapply Hall; eauto.
Qed.

Lemma step_thread_inv counts i s s' evs : Inv counts s -> step_thread i s = Some (s', evs) -> Inv counts s'.
Proof.
  intros HI H. unfold step_thread in H. pose proof HI as I0.
  destruct (nth_error (threads s) i) as [[it pc]|] eqn:Ei; [|discriminate].
  assert (Hil : i < length (threads s)) by (eapply nth_error_lt; eauto).
  pose proof (threads_nodup counts s I0) as Hnd.
  assert (Hother : forall i0 it0 pc0, i <> i0 -> nth_error (threads s) i0 = Some (it0, pc0) -> it0 <> it).
  { intros i0 it0 pc0 Hne Hn ->. apply Hne. eapply nodup_fst_index; eauto. }
  destruct pc; try discriminate.
  - (* TLock *)
    destruct (mem it (oplocked s)); [discriminate|]. injection H as <- <-.
    eapply thr_simple; eauto; try discriminate; reflexivity.
  - (* TUnlock *)
    injection H as <- <-. eapply thr_simple; eauto; try discriminate; reflexivity.
  - (* TRun: the receiver is completed *)
    injection H as <- <-. destruct HI.
    assert (Hfresh : ~ In it (map fst (completed s))).
    { intros Hin. apply (V_completed0 _ _ _ Ei) in Hin. discriminate. }
    constructor; nt_simpl; auto.
    + erewrite map_fst_set_nth; eauto.
    + intros i0 it0 pc Hn Hhc. tsplit Hn; [injection Hn as -> ->; discriminate|eauto].
    + pose proof (nactive_set_nth _ _ _ _ RLock Ei) as Hc. cbn in Hc. lia.
    + intros x n pc i0 j tp Hx Ht. tsplit Ht; [|eauto].
      injection Ht as <- ->. pose proof (V_created0 _ _ _ _ _ _ Hx Ei) as Hc. split; [discriminate|].
      intros Hle. apply Hc in Hle. discriminate.
    + intros i0 it0 pc Hn. rewrite map_app, in_app_iff. cbn. tsplit Hn.
      * injection Hn as -> ->. cbn. tauto.
      * rewrite (V_completed0 _ _ _ Hn). split; [intros [Hp|[E|[]]]; [exact Hp|]|tauto].
        exfalso. eapply Hother; eauto.
    + rewrite map_app. cbn. apply NoDup_app_singleton; auto.
    + intros it0 b Hin. apply in_app_iff in Hin as [Hin|[E|[]]]; [eauto|]. now injection E as <- <-.
    + intros i0 it0 pc Hn. tsplit Hn; [|eauto]. injection Hn as -> ->. rewrite (V_retired0 _ _ _ Ei). cbn. tauto.
    + intros Eo. destruct (V_blocked0 Eo) as [Hc|(i0 & it0 & Hn)]; [auto|]. right.
      exists i0, it0. rewrite nth_error_set_nth_neq; [exact Hn|]. intros ->. rewrite Ei in Hn. discriminate.
    + intros Ho. destruct (V_joined0 Ho) as [Hz Hall]. specialize (Hall _ _ _ Ei). discriminate.
  - (* RLock: enters retire_thread's critical section and swaps itself into threadToJoin_ *)
    destruct (cmtx s) eqn:Em; [discriminate|]. injection H as <- <-. destruct HI.
    assert (Hfresh : ~ In it (retired s)).
    { intros Hin. apply (V_retired0 _ _ _ Ei) in Hin. discriminate. }
    constructor; nt_simpl; auto.
    + erewrite map_fst_set_nth; eauto.
    + intros Ho. specialize (V_own0 Ho). congruence.
    + intros i0 it0 pc Hn Hhc. tsplit Hn; [reflexivity|]. specialize (V_thr0 _ _ _ Hn Hhc). congruence.
    + pose proof (nactive_set_nth _ _ _ _ RSub Ei) as Hc. cbn in Hc. lia.
    + intros x n pc i0 j tp Hx Ht. tsplit Ht; [|eauto].
      injection Ht as <- ->. pose proof (V_created0 _ _ _ _ _ _ Hx Ei) as Hc. split; [discriminate|].
      intros Hle. apply Hc in Hle. discriminate.
    + intros i0 it0 pc Hn. tsplit Hn; [|eauto]. injection Hn as -> ->. rewrite (V_completed0 _ _ _ Ei). cbn. tauto.
    + intros i0 it0 pc Hn. rewrite in_app_iff. cbn. tsplit Hn.
      * injection Hn as -> ->. cbn. tauto.
      * rewrite (V_retired0 _ _ _ Hn). split; [intros [Hp|[E|[]]]; [exact Hp|]|tauto].
        exfalso. eapply Hother; eauto.
    + apply NoDup_app_singleton; auto.
    + intros Eo. destruct (V_blocked0 Eo) as [Hc|(i0 & it0 & Hn)]; [auto|]. right.
      exists i0, it0. rewrite nth_error_set_nth_neq; [exact Hn|]. intros ->. rewrite Ei in Hn. discriminate.
    + intros Ho. destruct (V_joined0 Ho) as [Hz Hall]. specialize (Hall _ _ _ Ei). discriminate.
  - (* RSub: the decrement *)
    injection H as <- <-. destruct HI.
    pose proof (V_thr0 _ _ _ Ei eq_refl) as Hm.
    pose proof (nactive_set_nth _ _ _ _ (if Nat.eqb (count s) 1 then RNotify else RUnlock) Ei) as Hc.
    assert (Hinact : active (if Nat.eqb (count s) 1 then RNotify else RUnlock) = false) by (destruct (Nat.eqb (count s) 1); reflexivity).
    rewrite Hinact in Hc. cbn in Hc.
    assert (Hownf : owner_holds (owner s) = false).
    { destruct (owner_holds (owner s)) eqn:E; [|reflexivity]. specialize (V_own0 eq_refl). rewrite V_own0 in Hm. injection Hm as Hm. lia. }
    constructor; nt_simpl; auto.
    + erewrite map_fst_set_nth; eauto.
    + intros i0 it0 pc Hn Hhc. tsplit Hn; [exact Hm|eauto].
    + lia.
    + intros x n pc i0 j tp Hx Ht. tsplit Ht; [|eauto].
      injection Ht as <- ->. pose proof (V_created0 _ _ _ _ _ _ Hx Ei) as Hcr. split.
      * intros E. destruct (Nat.eqb (count s) 1); discriminate.
      * intros Hle. apply Hcr in Hle. discriminate.
    + intros i0 it0 pc Hn. tsplit Hn; [|eauto]. injection Hn as -> ->. rewrite (V_completed0 _ _ _ Ei).
      destruct (Nat.eqb (count s) 1); cbn; tauto.
    + intros i0 it0 pc Hn. tsplit Hn; [|eauto]. injection Hn as -> ->. rewrite (V_retired0 _ _ _ Ei).
      destruct (Nat.eqb (count s) 1); cbn; tauto.
    + intros Eo. rewrite Eo in Hownf. discriminate.
    + intros Eo. destruct (Nat.eqb_spec (count s) 1) as [E1|E1].
      * right. exists i, it. now rewrite nth_error_set_nth_eq.
      * left. lia.
    + intros Ho. destruct (V_joined0 Ho) as [Hz Hall]. specialize (Hall _ _ _ Ei). discriminate.
  - (* RNotify *)
    injection H as <- <-. destruct HI.
    pose proof (V_thr0 _ _ _ Ei eq_refl) as Hm.
    assert (Ew : is_osub (wake (owner s)) = is_osub (owner s)) by (destruct (owner s) as [| | | |[]| | |]; reflexivity).
    assert (Eh : owner_holds (wake (owner s)) = owner_holds (owner s)) by (destruct (owner s) as [| | | |[]| | |]; reflexivity).
    constructor; nt_simpl; rewrite ?Ew, ?Eh; auto.
    + erewrite map_fst_set_nth; eauto.
    + intros i0 it0 pc Hn Hhc. tsplit Hn; [exact Hm|eauto].
    + pose proof (nactive_set_nth _ _ _ _ RUnlock Ei) as Hc. cbn in Hc. lia.
    + intros x n pc i0 j tp Hx Ht. tsplit Ht; [|eauto].
      injection Ht as <- ->. pose proof (V_created0 _ _ _ _ _ _ Hx Ei) as Hcr. split; [discriminate|].
      intros Hle. apply Hcr in Hle. discriminate.
    + intros i0 it0 pc Hn. tsplit Hn; [|eauto]. injection Hn as -> ->. rewrite (V_completed0 _ _ _ Ei). cbn. tauto.
    + intros i0 it0 pc Hn. tsplit Hn; [|eauto]. injection Hn as -> ->. rewrite (V_retired0 _ _ _ Ei). cbn. tauto.
    + intros Eo. apply V_wait0. destruct (owner s) as [| | | |[]| | |]; cbn in Eo; congruence.
    + intros Eo. exfalso. destruct (owner s) as [| | | |[]| | |]; cbn in Eo; discriminate.
    + intros Ho. assert (Ho' : owner s = OJoin \/ owner s = OUnlock \/ owner s = ODone).
      { destruct (owner s) as [| | | |[]| | |]; cbn in Ho; intuition discriminate. }
      destruct (V_joined0 Ho') as [Hz Hall]. specialize (Hall _ _ _ Ei). discriminate.
  - (* RUnlock *)
    injection H as <- <-. destruct HI.
    pose proof (V_thr0 _ _ _ Ei eq_refl) as Hm.
    assert (Hownf : owner_holds (owner s) = false).
    { destruct (owner_holds (owner s)) eqn:E; [|reflexivity]. specialize (V_own0 eq_refl). rewrite V_own0 in Hm. injection Hm as Hm. lia. }
    constructor; nt_simpl; auto.
    + erewrite map_fst_set_nth; eauto.
    + intros Ho. rewrite Ho in Hownf. discriminate.
    + intros i0 it0 pc Hn Hhc. tsplit Hn; [injection Hn as -> ->; discriminate|].
      specialize (V_thr0 _ _ _ Hn Hhc). rewrite Hm in V_thr0. injection V_thr0 as E. lia.
    + pose proof (nactive_set_nth _ _ _ _ TAfter Ei) as Hc. cbn in Hc. lia.
    + intros x n pc i0 j tp Hx Ht. tsplit Ht; [|eauto].
      injection Ht as <- ->. pose proof (V_created0 _ _ _ _ _ _ Hx Ei) as Hcr. split; [discriminate|].
      intros Hle. apply Hcr in Hle. discriminate.
    + intros i0 it0 pc Hn. tsplit Hn; [|eauto]. injection Hn as -> ->. rewrite (V_completed0 _ _ _ Ei). cbn. tauto.
    + intros i0 it0 pc Hn. tsplit Hn; [|eauto]. injection Hn as -> ->. rewrite (V_retired0 _ _ _ Ei). cbn. tauto.
    + intros Eo. destruct (V_blocked0 Eo) as [Hc|(i0 & it0 & Hn)]; [auto|]. right.
      exists i0, it0. rewrite nth_error_set_nth_neq; [exact Hn|]. intros ->. rewrite Ei in Hn. discriminate.
    + intros Ho. destruct (V_joined0 Ho) as [Hz Hall]. specialize (Hall _ _ _ Ei). discriminate.
Qed.

Lemma step_inv counts t s s' evs : Inv counts s -> step t s = Some (s', evs) -> Inv counts s'.
Proof.
  intros HI H. unfold step in H.
  destruct (Nat.eqb t 0); [eapply step_owner_inv; eauto|].
  destruct (Nat.leb t (nstart s)); [eapply step_starter_inv; eauto|].
  destruct (Nat.leb t (nstart s + length (threads s))); [eapply step_thread_inv; eauto|].
  destruct (Nat.eqb t (S (nstart s + length (threads s)))); [eapply step_spur_inv; eauto|discriminate].
Qed.

Theorem inv_reachable counts stops (sched : list nat) :
  Inv counts (fst (run step sched (init counts stops, []))).
Proof.
  apply (run_invariant_state _ _ _ step (Inv counts)).
  - intros s t s' ev. apply step_inv.
  - apply inv_init.
Qed.

(* ------------------------------------------------------------------------------------------ *)
(* traces                                                                                      *)

Definition runs (tr : list ev) : list (item * bool) :=
  flat_map (fun e => match e with ERun it b => [(it, b)] | _ => [] end) tr.

Lemma step_ghost t s s' evs :
  step t s = Some (s', evs) -> completed s' = completed s ++ runs evs /\ stopped s' = stopped s.
Proof.
  unfold step.
  destruct (Nat.eqb t 0).
  { unfold step_owner. destruct (owner s) as [| | | |[]| | |]; try discriminate;
      try (destruct (all_starters_done s)); try (destruct (cmtx s)); try (destruct (retired s));
      try (destruct (all_retired_finished s)); try discriminate;
      intros H; injection H as <- <-; cbn; now rewrite ?app_nil_r. }
  destruct (Nat.leb t (nstart s)).
  { unfold step_starter. destruct (nth_error (starters s) (pred t)) as [[n [j|j|j]]|]; try discriminate;
      try (destruct (Nat.ltb j n)); try discriminate; intros H; injection H as <- <-; cbn; now rewrite ?app_nil_r. }
  destruct (Nat.leb t (nstart s + length (threads s))).
  { unfold step_thread. destruct (nth_error (threads s) (t - S (nstart s))) as [[it []]|]; try discriminate;
      try (destruct (mem it (oplocked s))); try (destruct (cmtx s)); try discriminate;
      intros H; injection H as <- <-; cbn; now rewrite ?app_nil_r. }
  destruct (Nat.eqb t (S (nstart s + length (threads s)))); [|discriminate].
  unfold step_spur. destruct (owner s) as [| | | |[]| | |]; try discriminate.
  intros H; injection H as <- <-; cbn; now rewrite ?app_nil_r.
Qed.

Theorem tinv_reachable counts stops (sched : list nat) :
  let c := run step sched (init counts stops, []) in
  runs (snd c) = completed (fst c) /\ stopped (fst c) = stops.
Proof.
  apply (run_invariant _ _ _ step (fun c => runs (snd c) = completed (fst c) /\ stopped (fst c) = stops)).
  - intros c t s' ev (H1 & H2) H. apply step_ghost in H as (G1 & G2). cbn [fst snd].
    unfold runs in *. rewrite flat_map_app, H1, G1, G2. auto.
  - split; reflexivity.
Qed.

(* completed operations are operations of the program *)
Definition CIn (counts : list nat) (s : st) : Prop :=
  forall it, In it (map fst (completed s)) -> In it (all_items 0 counts).

Lemma step_cin counts t s s' evs : Inv counts s -> CIn counts s -> step t s = Some (s', evs) -> CIn counts s'.
Proof.
  intros HI HC H. unfold CIn in *. pose proof H as Hg. apply step_ghost in Hg as [Hg _]. rewrite Hg.
  intros it Hin. rewrite map_app, in_app_iff in Hin. destruct Hin as [Hin|Hin]; [auto|].
  (* only a thread's TRun step emits ERun, for its own operation *)
  unfold step in H.
  destruct (Nat.eqb t 0).
  { exfalso. unfold step_owner in H. destruct (owner s) as [| | | |[]| | |]; try discriminate;
      try (destruct (all_starters_done s)); try (destruct (cmtx s)); try (destruct (retired s));
      try (destruct (all_retired_finished s)); try discriminate;
      injection H as <- <-; cbn in Hin; contradiction. }
  destruct (Nat.leb t (nstart s)).
  { exfalso. unfold step_starter in H. destruct (nth_error (starters s) (pred t)) as [[n [j|j|j]]|]; try discriminate;
      try (destruct (Nat.ltb j n)); try discriminate; injection H as <- <-; cbn in Hin; contradiction. }
  destruct (Nat.leb t (nstart s + length (threads s))).
  { unfold step_thread in H. destruct (nth_error (threads s) (t - S (nstart s))) as [[it0 []]|] eqn:Ei; try discriminate;
      try (destruct (mem it0 (oplocked s))); try (destruct (cmtx s)); try discriminate;
      injection H as <- <-; cbn in Hin; try contradiction.
    all: destruct Hin as [<-|[]]; rewrite <- (V_items _ _ HI); change it0 with (fst (it0, TRun));
      apply in_map; eapply nth_error_In; eauto. }
  exfalso. destruct (Nat.eqb t (S (nstart s + length (threads s)))); [|discriminate].
  unfold step_spur in H. destruct (owner s) as [| | | |[]| | |]; try discriminate.
  injection H as <- <-; cbn in Hin; contradiction.
Qed.

Theorem cin_reachable counts stops (sched : list nat) :
  CIn counts (fst (run step sched (init counts stops, []))).
Proof.
  apply (run_invariant_state _ _ _ step (fun s => Inv counts s /\ CIn counts s)).
  - intros s t s' ev [HI HC] H. split; [eapply step_inv; eauto|eapply step_cin; eauto].
  - split; [apply inv_init|]. intros it [].
Qed.

Lemma step_retired t s s' evs :
  step t s = Some (s', evs) ->
  retired s' = retired s \/ exists i it, nth_error (threads s) i = Some (it, RLock) /\ retired s' = retired s ++ [it].
Proof.
  unfold step.
  destruct (Nat.eqb t 0).
  { unfold step_owner. destruct (owner s) as [| | | |[]| | |]; try discriminate;
      try (destruct (all_starters_done s)); try (destruct (cmtx s)); try (destruct (retired s) eqn:Er);
      try (destruct (all_retired_finished s)); try discriminate;
      intros H; injection H as <- <-; cbn; auto. }
  destruct (Nat.leb t (nstart s)).
  { unfold step_starter. destruct (nth_error (starters s) (pred t)) as [[n [j|j|j]]|]; try discriminate;
      try (destruct (Nat.ltb j n)); try discriminate; intros H; injection H as <- <-; cbn; auto. }
  destruct (Nat.leb t (nstart s + length (threads s))).
  { unfold step_thread. destruct (nth_error (threads s) (t - S (nstart s))) as [[it []]|] eqn:Ei; try discriminate;
      try (destruct (mem it (oplocked s))); try (destruct (cmtx s)); try discriminate;
      intros H; injection H as <- <-; cbn; eauto. }
  destruct (Nat.eqb t (S (nstart s + length (threads s)))); [|discriminate].
  unfold step_spur. destruct (owner s) as [| | | |[]| | |]; try discriminate.
  intros H; injection H as <- <-; cbn; auto.
Qed.

Definition RIn (counts : list nat) (s : st) : Prop :=
  forall it, In it (retired s) -> In it (all_items 0 counts).

Theorem rin_reachable counts stops (sched : list nat) :
  RIn counts (fst (run step sched (init counts stops, []))).
Proof.
  apply (run_invariant_state _ _ _ step (fun s => Inv counts s /\ RIn counts s)).
  - intros s t s' ev [HI HR] H. split; [eapply step_inv; eauto|].
    unfold RIn in *. destruct (step_retired _ _ _ _ H) as [->|(i & it & Hi & ->)]; [exact HR|].
    intros it0 Hin. apply in_app_iff in Hin as [Hin|[<-|[]]]; [auto|].
    rewrite <- (V_items _ _ HI). change it with (fst (it, RLock)). apply in_map. eapply nth_error_In; eauto.
  - split; [apply inv_init|]. intros it [].
Qed.

(* ------------------------------------------------------------------------------------------ *)
(* theorems                                                                                    *)

Section Reach.
  Variables (counts : list nat) (stops : list item) (sched : list nat).
  Let c := run step sched (init counts stops, []).
  Let s := fst c.
  Let tr := snd c.
  Let HI : Inv counts s := inv_reachable counts stops sched.

  (* each operation completes at most once, with set_done exactly when its stop token was
     requested, and only operations of the program complete *)
  Theorem at_most_once :
    NoDup (map fst (runs tr)) /\
    (forall it b, In (it, b) (runs tr) -> b = mem it stops) /\
    (forall it b, In (it, b) (runs tr) -> exists x n, fst it = S x /\ nth_error counts x = Some n /\ snd it < n).
  Proof.
    destruct (tinv_reachable counts stops sched) as [H1 H2]. fold c in H1, H2. fold tr s in H1. fold s in H2. rewrite H1.
    split; [apply (V_cnodup _ _ HI)|]. split.
    - intros it b Hin. rewrite <- H2. apply (V_cstop _ _ HI _ _ Hin).
    - intros it b Hin.
      assert (Hm : In it (map fst (completed s))) by (change it with (fst (it, b)); now apply in_map).
      apply (cin_reachable counts stops sched) in Hm. destruct it as [p j].
      apply in_all_items in Hm as (x & n & -> & Hn & Hj). exists x, n. auto.
  Qed.

  (* activeThreadCount_ = (1 while the context has not dropped its own count) + the number of
     created threads that have not yet decremented it *)
  Theorem count_accounting : count s = b2n (is_osub (owner s)) + nactive (threads s).
  Proof. apply (V_count _ _ HI). Qed.

  (* the destructor passes its wait only when the count is zero, and then every operation's
     thread has left retire_thread's critical section (it only has to join its predecessor and
     exit); the destructor's join of threadToJoin_ therefore waits for all of them *)
  Theorem destructor_waits_for_all :
    (owner s = OJoin \/ owner s = OUnlock \/ owner s = ODone) ->
    count s = 0 /\ (forall i it pc, nth_error (threads s) i = Some (it, pc) -> pc = TAfter) /\
    all_retired_finished s = true.
  Proof.
    intros Ho. destruct (V_joined _ _ HI Ho) as [Hz Hall]. split; [exact Hz|]. split; [exact Hall|].
    unfold all_retired_finished. apply forallb_forall. intros it Hin. unfold thread_pc.
    destruct (find (fun p => item_eqb it (fst p)) (threads s)) as [[it' pc]|] eqn:Ef.
    - apply find_some in Ef as [Hin' _]. apply In_nth_error in Hin' as [i Hi]. now rewrite (Hall _ _ _ Hi).
    - exfalso. apply (rin_reachable counts stops sched) in Hin. fold c s in Hin.
      rewrite <- (V_items _ _ HI) in Hin. apply in_map_iff in Hin as ([it' pc] & E & Hin'). cbn in E. subst it'.
      eapply find_none in Ef; [|exact Hin']. cbn in Ef. rewrite (proj2 (item_eqb_eq it it) eq_refl) in Ef. discriminate.
  Qed.

  (* when everything has finished every operation has completed exactly once and its thread has
     retired exactly once *)
  Theorem exactly_once_final :
    final s = true ->
    NoDup (map fst (runs tr)) /\ NoDup (retired s) /\
    forall x n j, nth_error counts x = Some n -> j < n ->
      In (S x, j) (map fst (runs tr)) /\ In (S x, j) (retired s).
  Proof.
    intros Hf. unfold final in Hf. destruct (owner s) eqn:Eo; try discriminate.
    destruct (tinv_reachable counts stops sched) as [H1 _]. fold c in H1. fold tr s in H1. rewrite H1.
    split; [apply (V_cnodup _ _ HI)|]. split; [apply (V_rnodup _ _ HI)|].
    intros x n j Hn Hj. destruct (thread_of_item counts s x n j HI Hn Hj) as (i & tp & Hi).
    destruct (V_joined _ _ HI (or_intror (or_intror Eo))) as [_ Hall]. rewrite (Hall _ _ _ Hi) in Hi.
    split; [apply (V_completed _ _ HI _ _ _ Hi)|apply (V_retired _ _ HI _ _ _ Hi)]; reflexivity.
  Qed.

  (* no lost wake-up for the destructor *)
  Theorem no_lost_wakeup :
    owner s = OBlocked false ->
    count s <> 0 \/ exists i it, nth_error (threads s) i = Some (it, RNotify) /\ cmtx s = Some (S (nstart s + i)).
  Proof.
    intros Ho. destruct (V_blocked _ _ HI Ho) as [H|(i & it & Hi)]; [auto|]. right. exists i, it.
    split; [exact Hi|]. apply (V_thr _ _ HI _ _ _ Hi). reflexivity.
  Qed.

  Theorem mutex_owner :
    (owner_holds (owner s) = true -> cmtx s = Some 0) /\
    (forall i it pc, nth_error (threads s) i = Some (it, pc) -> holds_c pc = true -> cmtx s = Some (S (nstart s + i))).
  Proof. split; [apply (V_own _ _ HI)|apply (V_thr _ _ HI)]. Qed.
End Reach.

(* a completion happens in a step of the operation's own thread (never of the starter) *)
Theorem completion_on_own_thread counts stops (sched1 : list nat) t s' evs it b :
  let s := fst (run step sched1 (init counts stops, [])) in
  step t s = Some (s', evs) -> In (ERun it b) evs ->
  exists i, t = S (nstart s + i) /\ nth_error (threads s) i = Some (it, TRun) /\ b = mem it stops.
Proof.
  intros s H Hin.
  destruct (tinv_reachable counts stops sched1) as [_ Hst]. fold s in Hst.
  unfold step in H.
  destruct (Nat.eqb t 0).
  { exfalso. unfold step_owner in H. destruct (owner s) as [| | | |[]| | |]; try discriminate;
      try (destruct (all_starters_done s)); try (destruct (cmtx s)); try (destruct (retired s));
      try (destruct (all_retired_finished s)); try discriminate;
      injection H as <- <-; cbn in Hin; intuition discriminate. }
  destruct (Nat.leb_spec t (nstart s)) as [|Hts].
  { exfalso. unfold step_starter in H. destruct (nth_error (starters s) (pred t)) as [[n [j|j|j]]|]; try discriminate;
      try (destruct (Nat.ltb j n)); try discriminate; injection H as <- <-; cbn in Hin; intuition discriminate. }
  destruct (Nat.leb t (nstart s + length (threads s))).
  { unfold step_thread in H. destruct (nth_error (threads s) (t - S (nstart s))) as [[it0 []]|] eqn:Ei; try discriminate;
      try (destruct (mem it0 (oplocked s))); try (destruct (cmtx s)); try discriminate;
      injection H as <- <-; cbn in Hin; try (exfalso; intuition discriminate).
    all: destruct Hin as [E|[E|[]]]; [discriminate|]; injection E as <- <-;
      exists (t - S (nstart s)); (split; [lia|]); (split; [exact Ei|]); now rewrite Hst. }
  exfalso. destruct (Nat.eqb t (S (nstart s + length (threads s)))); [|discriminate].
  unfold step_spur in H. destruct (owner s) as [| | | |[]| | |]; try discriminate.
  injection H as <- <-; cbn in Hin; intuition discriminate.
Qed.
