(* E1 model Canary: the mutual-destruction protocol of unifex::canary / canary::watcher /
   canary::guard (include/unifex/canary.hpp).  The canary lives in an operation state that may be
   destroyed at any time by thread 1; the watcher lives on the stack of thread 0 (start()), which
   optionally asks watcher.alive(), uses the operation state under a truthy guard, releases the
   guard and destroys the watcher.  canary.watch() happened before both threads start.

   Words: cw = canary::watcher_ (null / w / w|1), wc = watcher::canary_ (null / c / c|1),
   ws = watcher::state_ (alive 0, guarded 1, dead 2, done 3).
   Ghost: [cgone] the canary (with its operation state) is destroyed, [wgone] the watcher is;
   [late] counts accesses to the canary's word or to the guarded operation state after cgone and
   accesses to the watcher's words after wgone.  Executable definitions only. *)
From Coq Require Import List Bool Arith.
Import ListNotations.

Module Canary.

Record params := { watched : bool; ask : bool }.

Inductive ptr := PNull | PSet | PLocked.
Definition ptr_val (x : ptr) : nat := match x with PNull => 0 | PSet => 2 | PLocked => 3 end.

Inductive wst := WAlive | WGuarded | WDead | WDone.
Definition wst_val (x : wst) : nat :=
  match x with WAlive => 0 | WGuarded => 1 | WDead => 2 | WDone => 3 end.

(* thread 0: the watcher's owner *)
Inductive pcw :=
| W0Alive        (* watcher::alive(): CAS state_ alive -> guarded (canary.hpp:140-147) *)
| W1Use          (* under a truthy guard: touch the operation state *)
| W2Release      (* ~guard: state_.store(done) (line 85) *)
| W3Load         (* ~watcher: canary_.load (line 105) *)
| W4Lock         (* CAS canary_ c -> c|1 (line 110) *)
| W5Clear        (* CAS loop on c->watcher_: this -> null (lines 124-134) *)
| W6Spin         (* spin until canary_ = null (line 114) *)
| W7Store        (* canary_.store(null) (line 137) *)
| WFin.

(* thread 1: ~canary *)
Inductive pcc :=
| C0Load         (* watcher_.load (line 172) *)
| C1Lock         (* CAS watcher_ w -> w|1 (line 177) *)
| C2LockW        (* CAS w->canary_ this -> this|1 (line 188) *)
| C2Unlock       (* deadlock: watcher_.store(w) (line 192) *)
| C2Spin         (* spin until watcher_ = null (line 194) *)
| C3Xchg         (* w->state_.exchange(dead) (line 201) *)
| C4Spin         (* spin while state_ = dead (line 207) *)
| C5StoreW       (* w->canary_.store(null) (line 212) *)
| C6StoreC       (* watcher_.store(null) (line 213) *)
| CFin.

Record st := {
  cw : ptr; wc : ptr; ws : wst;
  pw : pcw; pc : pcc;
  guard : option bool;       (* result of alive(): Some true = truthy guard *)
  held : bool;               (* a truthy guard exists *)
  marked : bool;             (* ghost: ~canary has executed its exchange(dead) *)
  amk : bool;                (* ghost: the value of [marked] when alive() was executed *)
  late : nat;
  blocked_unheld : bool      (* ghost: ~canary was made to wait at line 207 with no guard held *)
}.

Inductive ev :=
| EWsC (old new : nat) (ok : bool)      (* state_ CAS *)
| EWsS (v : nat)                        (* state_ store *)
| EWsX (old new : nat)                  (* state_ exchange *)
| EWsL (v : nat)                        (* state_ load *)
| EWcL (v : nat) | EWcLa (v : nat) | EWcC (old new : nat) (ok : bool) | EWcS (v : nat)    (* watcher::canary_ *)
| ECwL (v : nat) | ECwLa (v : nat) | ECwC (old new : nat) (ok : bool) | ECwS (v : nat)    (* canary::watcher_ *)
| EUse | EWGone | ECGone.

Definition init (p : params) : st :=
  {| cw := if watched p then PSet else PNull;
     wc := if watched p then PSet else PNull;
     ws := WAlive;
     pw := if watched p then (if ask p then W0Alive else W3Load) else WFin;
     pc := C0Load; guard := None; held := false; marked := false; amk := false; late := 0;
     blocked_unheld := false |}.

Definition cgone (s : st) : bool := match pc s with CFin => true | _ => false end.
Definition wgone (s : st) : bool := match pw s with WFin => true | _ => false end.

Definition upd (s : st) (a b : ptr) (c : wst) (x : pcw) (y : pcc) : st :=
  {| cw := a; wc := b; ws := c; pw := x; pc := y; guard := guard s; held := held s;
     marked := marked s; amk := amk s; late := late s; blocked_unheld := blocked_unheld s |}.
Definition set_guard (s : st) (g : bool) : st :=
  {| cw := cw s; wc := wc s; ws := ws s; pw := pw s; pc := pc s; guard := Some g; held := g;
     marked := marked s; amk := marked s; late := late s; blocked_unheld := blocked_unheld s |}.
Definition unhold (s : st) : st :=
  {| cw := cw s; wc := wc s; ws := ws s; pw := pw s; pc := pc s; guard := guard s;
     held := false; marked := marked s; amk := amk s; late := late s; blocked_unheld := blocked_unheld s |}.
Definition mark (s : st) : st :=
  {| cw := cw s; wc := wc s; ws := ws s; pw := pw s; pc := pc s; guard := guard s;
     held := held s; marked := true; amk := amk s; late := late s; blocked_unheld := blocked_unheld s |}.
Definition bump (s : st) (b : bool) : st :=
  {| cw := cw s; wc := wc s; ws := ws s; pw := pw s; pc := pc s; guard := guard s;
     held := held s; marked := marked s; amk := amk s; late := if b then S (late s) else late s;
     blocked_unheld := blocked_unheld s |}.
Definition note_block (s : st) : st :=
  {| cw := cw s; wc := wc s; ws := ws s; pw := pw s; pc := pc s; guard := guard s;
     held := held s; marked := marked s; amk := amk s; late := late s;
     blocked_unheld := blocked_unheld s || negb (held s) |}.
(* accesses: to the canary / operation state, to the watcher *)
Definition touch_c (s : st) : st := bump s (cgone s).
Definition touch_w (s : st) : st := bump s (wgone s).

Definition stepW (s : st) : option (st * list ev) :=
  match pw s with
  | W0Alive =>
      match ws s with
      | WAlive => Some (set_guard (upd s (cw s) (wc s) WGuarded W1Use (pc s)) true, [EWsC 0 1 true])
      | x => Some (set_guard (upd s (cw s) (wc s) x W3Load (pc s)) false,
                   [EWsC (wst_val x) 1 false])
      end
  | W1Use => Some (upd (touch_c s) (cw s) (wc s) (ws s) W2Release (pc s), [EUse])
  | W2Release => Some (unhold (upd s (cw s) (wc s) WDone W3Load (pc s)), [EWsS 3])
  | W3Load =>
      match wc s with
      | PNull => Some (upd s (cw s) (wc s) (ws s) WFin (pc s), [EWcL 0; EWGone])
      | PSet => Some (upd s (cw s) (wc s) (ws s) W4Lock (pc s), [EWcL 2])
      | PLocked => Some (upd s (cw s) (wc s) (ws s) W6Spin (pc s), [EWcL 3])
      end
  | W4Lock =>
      match wc s with
      | PSet => Some (upd s (cw s) PLocked (ws s) W5Clear (pc s), [EWcC 2 3 true])
      | x => Some (upd s (cw s) x (ws s) W6Spin (pc s), [EWcC (ptr_val x) 3 false])
      end
  | W5Clear =>
      (* the CAS loop retries while watcher_ is locked by ~canary: blocking *)
      match cw s with
      | PSet => Some (upd (touch_c s) PNull (wc s) (ws s) W7Store (pc s), [ECwC 2 0 true])
      | PNull => Some (upd (touch_c s) PNull (wc s) (ws s) W7Store (pc s), [ECwC 0 0 false])
      | PLocked => None
      end
  | W6Spin =>
      match wc s with
      | PNull => Some (upd s (cw s) (wc s) (ws s) WFin (pc s), [EWcLa 0; EWGone])
      | _ => None
      end
  | W7Store => Some (upd s (cw s) PNull (ws s) WFin (pc s), [EWcS 0; EWGone])
  | WFin => None
  end.

Definition stepC (s : st) : option (st * list ev) :=
  match pc s with
  | C0Load =>
      match cw s with
      | PNull => Some (upd s (cw s) (wc s) (ws s) (pw s) CFin, [ECwL 0; ECGone])
      | PSet => Some (upd s (cw s) (wc s) (ws s) (pw s) C1Lock, [ECwL 2])
      | PLocked => Some (upd s (cw s) (wc s) (ws s) (pw s) CFin, [ECwL 3; ECGone])
      end
  | C1Lock =>
      match cw s with
      | PSet => Some (upd s PLocked (wc s) (ws s) (pw s) C2LockW, [ECwC 2 3 true])
      | x => Some (upd s x (wc s) (ws s) (pw s) CFin, [ECwC (ptr_val x) 3 false; ECGone])
      end
  | C2LockW =>
      match wc s with
      | PSet => Some (upd (touch_w s) (cw s) PLocked (ws s) (pw s) C3Xchg, [EWcC 2 3 true])
      | x => Some (upd (touch_w s) (cw s) x (ws s) (pw s) C2Unlock, [EWcC (ptr_val x) 3 false])
      end
  | C2Unlock => Some (upd s PSet (wc s) (ws s) (pw s) C2Spin, [ECwS 2])
  | C2Spin =>
      match cw s with
      | PNull => Some (upd s (cw s) (wc s) (ws s) (pw s) CFin, [ECwLa 0; ECGone])
      | _ => None
      end
  | C3Xchg =>
      let s1 := mark (touch_w s) in
      match ws s with
      | WGuarded => Some (upd s1 (cw s) (wc s) WDead (pw s) C4Spin, [EWsX 1 2])
      | x => Some (upd s1 (cw s) (wc s) WDead (pw s) C5StoreW, [EWsX (wst_val x) 2])
      end
  | C4Spin =>
      match ws s with
      | WDead => None
      | x => Some (upd (touch_w s) (cw s) (wc s) x (pw s) C5StoreW, [EWsL (wst_val x)])
      end
  | C5StoreW => Some (upd (touch_w s) (cw s) PNull (ws s) (pw s) C6StoreC, [EWcS 0])
  | C6StoreC => Some (upd s PNull (wc s) (ws s) (pw s) CFin, [ECwS 0; ECGone])
  | CFin => None
  end.

(* a ghost observation that costs no step: thread 1 is waiting at line 207 *)
Definition observe (s : st) : st :=
  match pc s, ws s with
  | C4Spin, WDead => note_block s
  | _, _ => s
  end.

Definition step (p : params) (t : nat) (s : st) : option (st * list ev) :=
  match t with
  | 0 => match stepW s with Some (s', e) => Some (observe s', e) | None => None end
  | 1 => match stepC s with Some (s', e) => Some (observe s', e) | None => None end
  | _ => None
  end.

Definition is_none {A} (o : option A) : bool := match o with None => true | _ => false end.
Definition quiescent (p : params) (s : st) : bool :=
  is_none (step p 0 s) && is_none (step p 1 s).

End Canary.
