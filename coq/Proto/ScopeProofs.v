(* Proofs about the Scope model (Proto/ScopeDefs.v): for all numbers of references, all closer /
   joiner programs and all schedules. *)
From Coq Require Import ZArith List Bool Lia Arith PeanoNat.
From V Require Import Base.Sched Proto.ScopeDefs.
Import ListNotations.
Import Scope.
Local Open Scope Z_scope.

(* ------------------------------------------------------------------------------------------ *)
(* lists *)
Lemma set_nth_length {A} (i : nat) (x : A) (l : list A) : length (set_nth i x l) = length l.
Proof. revert i; induction l; intros [|i]; simpl; auto. Qed.

Lemma nth_error_set_nth_eq {A} (i : nat) (x : A) (l : list A) :
  (i < length l)%nat -> nth_error (set_nth i x l) i = Some x.
Proof. revert i; induction l; intros [|i] H; simpl in *; try lia; auto. apply IHl; lia. Qed.

Lemma nth_error_set_nth_neq {A} (i j : nat) (x : A) (l : list A) :
  i <> j -> nth_error (set_nth i x l) j = nth_error l j.
Proof. revert i j; induction l; intros [|i] [|j] H; simpl; auto; try congruence. Qed.

Lemma nth_error_set_nth {A} (i j : nat) (x y : A) (l : list A) :
  nth_error (set_nth i x l) j = Some y ->
  (i = j /\ y = x /\ (i < length l)%nat) \/ (i <> j /\ nth_error l j = Some y).
Proof.
  intros H. destruct (Nat.eq_dec i j) as [->|N].
  - left. assert (L : (j < length l)%nat).
    { rewrite <- (set_nth_length j x l). apply nth_error_Some. congruence. }
    rewrite nth_error_set_nth_eq in H by exact L. inversion H; auto.
  - right. rewrite nth_error_set_nth_neq in H by exact N. auto.
Qed.

Lemma nth_error_lt {A} (l : list A) i x : nth_error l i = Some x -> (i < length l)%nat.
Proof. intros H. apply nth_error_Some. congruence. Qed.

(* sum of a measure over a list; counting = measure 0/1 *)
Fixpoint sumf {A} (f : A -> nat) (l : list A) : nat :=
  match l with [] => O | x :: r => (f x + sumf f r)%nat end.

Lemma sumf_set_nth {A} (f : A -> nat) i (p q : A) l :
  nth_error l i = Some p -> (sumf f (set_nth i q l) + f p = sumf f l + f q)%nat.
Proof.
  revert i; induction l as [|a l IH]; intros [|i] H; simpl in *; try discriminate.
  - inversion H; subst. lia.
  - specialize (IH _ H). lia.
Qed.

Lemma sumf_zero_nth {A} (f : A -> nat) l :
  sumf f l = O -> forall i x, nth_error l i = Some x -> f x = O.
Proof.
  induction l as [|a l IH]; intros H [|i] x E; simpl in *; try discriminate.
  - inversion E; subst. lia.
  - apply (IH ltac:(lia) i x E).
Qed.

Lemma sumf_all_zero {A} (f : A -> nat) l :
  (forall i x, nth_error l i = Some x -> f x = O) -> sumf f l = O.
Proof.
  induction l as [|a l IH]; intros H; simpl; auto.
  rewrite (H O a eq_refl). simpl. apply IH. intros i x E. apply (H (S i) x E).
Qed.

Lemma sumf_map {A B} (f : B -> nat) (g : A -> B) l : sumf f (map g l) = sumf (fun x => f (g x)) l.
Proof. induction l; simpl; auto. Qed.

Lemma sumf_const0 {A} (l : list A) : sumf (fun _ => O) l = O.
Proof. induction l; simpl; auto. Qed.

Definition b2n (b : bool) : nat := if b then 1%nat else 0%nat.

(* ------------------------------------------------------------------------------------------ *)
(* the packed word *)
Lemma word_even h b : (b = 0 \/ b = 1) -> Z.even (2 * h + b) = (b =? 0).
Proof.
  intros [->| ->].
  - rewrite Z.add_0_r, Z.even_mul. reflexivity.
  - replace (2 * h + 1) with (1 + 2 * h) by lia. rewrite Z.even_add_mul_2. reflexivity.
Qed.

Lemma word_odd h b : (b = 0 \/ b = 1) -> Z.odd (2 * h + b) = (b =? 1).
Proof.
  intros H. rewrite <- Z.negb_even, (word_even h b H). destruct H as [->| ->]; reflexivity.
Qed.

Lemma word_count h b : (b = 0 \/ b = 1) -> count_of (2 * h + b) = h.
Proof.
  intros H. unfold count_of. rewrite Z.shiftr_div_pow2 by lia. change (2 ^ 1) with 2.
  symmetry. apply (Z.div_unique (2 * h + b) 2 h b); lia.
Qed.

Lemma word_clear h b : (b = 0 \/ b = 1) -> Z.land (2 * h + b) (-2) = 2 * h.
Proof.
  intros H. change (-2) with (Z.lnot 1). rewrite <- Z.ldiff_land.
  change 1 with (Z.ones 1) at 1. rewrite Z.ldiff_ones_r by lia.
  rewrite Z.shiftl_mul_pow2 by lia. fold (count_of (2 * h + b)). rewrite (word_count h b H).
  change (2 ^ 1) with 2. lia.
Qed.

Lemma b2z_odd_cases v : Z.b2z (Z.odd v) = 0 \/ Z.b2z (Z.odd v) = 1.
Proof. destruct (Z.odd v); simpl; auto. Qed.

(* ------------------------------------------------------------------------------------------ *)
(* measures of a state *)
Definition holdn (p : plan * spc) : nat := b2n (holds (snd p)).
Definition setn (p : plan * spc) : nat := b2n (sp_setting p).
Definition pendn (x : jst) : nat := match jmode_ x with JPend => 1%nat | _ => 0%nat end.
Fixpoint nclose (p : list jop) : nat :=
  match p with [] => O | JClose :: r => S (nclose r) | _ :: r => nclose r end.
Fixpoint ndone (p : list jop) : nat :=
  match p with [] => O | JDone :: r => S (ndone r) | _ :: r => ndone r end.
Definition closen (x : jst) : nat := nclose (jprog x).

Definition holders (s : st) : nat := sumf holdn (sps s).
Definition pending (s : st) : nat := (sumf setn (sps s) + sumf pendn (jns s))%nat.
Definition closes_left (s : st) : nat := sumf closen (jns s).

(* ------------------------------------------------------------------------------------------ *)
(* waking the parked joiners *)
Definition woke (x : jst) : jst := {| jprog := jprog x; jmode_ := JReady; jwaited := true |}.

Lemma wake1_length js j : length (wake1 js j) = length js.
Proof.
  unfold wake1. destruct (nth_error js j) as [x|]; auto. destruct (jmode_ x); auto.
  apply set_nth_length.
Qed.

Lemma wake1_nth js j k y :
  nth_error (wake1 js j) k = Some y ->
  exists x, nth_error js k = Some x /\
    (y = x \/ (k = j /\ jmode_ x = JBlocked /\ y = woke x)).
Proof.
  unfold wake1. destruct (nth_error js j) as [x|] eqn:E; [|eauto].
  destruct (jmode_ x) eqn:M; eauto.
  intros H. apply nth_error_set_nth in H. destruct H as [(-> & -> & _)|(N & H)]; eauto.
  exists x. split; auto.
Qed.

Lemma wake1_other js j k : k <> j -> nth_error (wake1 js j) k = nth_error js k.
Proof.
  intros N. unfold wake1. destruct (nth_error js j) as [x|]; auto. destruct (jmode_ x); auto.
  apply nth_error_set_nth_neq. auto.
Qed.

Lemma wake1_self js j x :
  nth_error js j = Some x -> exists y, nth_error (wake1 js j) j = Some y /\ jmode_ y <> JBlocked /\
    jprog y = jprog x.
Proof.
  intros E. unfold wake1. rewrite E. destruct (jmode_ x) eqn:M.
  - exists x. rewrite E, M. repeat split; congruence.
  - exists x. rewrite E, M. repeat split; congruence.
  - exists (woke x). rewrite nth_error_set_nth_eq by (eapply nth_error_lt; eauto).
    repeat split; simpl; congruence.
Qed.

Lemma wake1_sum (f : jst -> nat) js j :
  (forall x, jmode_ x = JBlocked -> f (woke x) = f x) -> sumf f (wake1 js j) = sumf f js.
Proof.
  intros Hf. unfold wake1. destruct (nth_error js j) as [x|] eqn:E; auto.
  destruct (jmode_ x) eqn:M; auto.
  pose proof (sumf_set_nth f j x (woke x) js E) as H. rewrite (Hf x M) in H.
  unfold woke in H. lia.
Qed.

Lemma wake_length ws js : length (fold_left wake1 ws js) = length js.
Proof. revert js; induction ws; simpl; intros; auto. rewrite IHws. apply wake1_length. Qed.

Lemma wake_sum (f : jst -> nat) ws js :
  (forall x, jmode_ x = JBlocked -> f (woke x) = f x) -> sumf f (fold_left wake1 ws js) = sumf f js.
Proof.
  intros Hf. revert js; induction ws; simpl; intros; auto. rewrite IHws. apply wake1_sum; auto.
Qed.

Lemma wake_nth ws js k y :
  nth_error (fold_left wake1 ws js) k = Some y ->
  exists x, nth_error js k = Some x /\ (y = x \/ (In k ws /\ jmode_ x = JBlocked /\ y = woke x)).
Proof.
  revert js y; induction ws as [|j ws IH]; simpl; intros js y H; [eauto|].
  destruct (IH _ _ H) as (x1 & E1 & D1).
  destruct (wake1_nth _ _ _ _ E1) as (x & E & D).
  exists x. split; auto.
  destruct D as [->|(-> & M & ->)].
  - destruct D1 as [->|(I & M & ->)]; [auto | right; auto].
  - destruct D1 as [->|(I & M1 & ->)]; [right; auto|]. simpl in M1. discriminate.
Qed.

Lemma wake_unblocks ws js k y :
  In k ws -> nth_error (fold_left wake1 ws js) k = Some y -> jmode_ y <> JBlocked.
Proof.
  revert js y; induction ws as [|j ws IH]; simpl; intros js y I H; [tauto|].
  destruct (Nat.eq_dec j k) as [->|N].
  - destruct (wake_nth _ _ _ _ H) as (x1 & E1 & D1).
    assert (exists x, nth_error js k = Some x) as (x & E).
    { destruct (wake1_nth _ _ _ _ E1) as (x & E & _). eauto. }
    destruct (wake1_self js k x E) as (y1 & E1' & NB & _).
    rewrite E1 in E1'. inversion E1'; subst y1.
    destruct D1 as [->|(_ & M & _)]; congruence.
  - destruct I as [->|I]; [congruence|]. eapply IH; eauto.
Qed.

Lemma wake_prog ws js k y :
  nth_error (fold_left wake1 ws js) k = Some y ->
  exists x, nth_error js k = Some x /\ jprog y = jprog x.
Proof.
  intros H. destruct (wake_nth _ _ _ _ H) as (x & E & [->|(_ & _ & ->)]); eauto.
Qed.

(* ------------------------------------------------------------------------------------------ *)
(* the main invariant *)
Definition wopen (s : st) : Z := Z.b2z (Z.odd (w s)).

Record Inv (s : st) : Prop := {
  I_cnt : w s = 2 * Z.of_nat (holders s) + wopen s;
  I_safe : ((0 < pending s)%nat \/ evt s = true) -> w s = 0;
  I_live : w s = 0 -> evt s = true \/ (0 < pending s)%nat;
  I_cas : forall i pl o, nth_error (sps s) i = Some (pl, SCas o) -> Z.odd o = true;
  I_w1 : forall j, In j (waiters s) ->
         exists x, nth_error (jns s) j = Some x /\ jmode_ x = JBlocked;
  I_w2 : forall j x, nth_error (jns s) j = Some x -> jmode_ x = JBlocked -> In j (waiters s);
  I_w3 : NoDup (waiters s);
  I_w4 : evt s = true -> waiters s = [];
  I_g : forall j x, nth_error (jns s) j = Some x -> jwaited x = true -> evt s = true
}.

Lemma Inv_init b plans progs : Inv (init b plans progs).
Proof.
  constructor; simpl; unfold holders, pending, wopen; simpl.
  - rewrite sumf_map. unfold holdn; simpl. rewrite sumf_const0. reflexivity.
  - rewrite !sumf_map. unfold setn, pendn; simpl. rewrite !sumf_const0. intros [H|H]; [lia|discriminate].
  - discriminate.
  - intros i pl o H. revert i H. induction plans as [|a l IH]; intros [|i] H; simpl in *; try discriminate; eauto.
  - tauto.
  - intros j x H M. exfalso. revert j H. induction progs as [|a l IH]; intros [|j] H; simpl in *;
      try discriminate; eauto. inversion H; subst; discriminate.
  - constructor.
  - discriminate.
  - intros j x H M. exfalso. revert j H. induction progs as [|a l IH]; intros [|j] H; simpl in *;
      try discriminate; eauto. inversion H; subst; discriminate.
Qed.

(* a reference changes its pc only *)
Lemma inv_sp_pc s s' i pl p0 p :
  Inv s -> w s' = w s -> evt s' = evt s -> waiters s' = waiters s -> jns s' = jns s ->
  sps s' = set_nth i (pl, p) (sps s) -> nth_error (sps s) i = Some (pl, p0) ->
  holds p = holds p0 -> sp_setting (pl, p) = sp_setting (pl, p0) ->
  (forall o, p = SCas o -> Z.odd o = true) -> Inv s'.
Proof.
  intros [C S L K W1 W2 W3 W4 G] Hw He Hws Hj Hs E Hh Hp Hc.
  assert (HH : holders s' = holders s).
  { unfold holders. rewrite Hs. pose proof (sumf_set_nth holdn i (pl, p0) (pl, p) _ E) as Q.
    change (holdn (pl, p)) with (b2n (holds p)) in Q.
    change (holdn (pl, p0)) with (b2n (holds p0)) in Q. rewrite Hh in Q. lia. }
  assert (HP : pending s' = pending s).
  { unfold pending. rewrite Hs, Hj. pose proof (sumf_set_nth setn i (pl, p0) (pl, p) _ E) as Q.
    change (setn (pl, p)) with (b2n (sp_setting (pl, p))) in Q.
    change (setn (pl, p0)) with (b2n (sp_setting (pl, p0))) in Q. rewrite Hp in Q. lia. }
  constructor; unfold wopen; rewrite ?Hw, ?He, ?Hws, ?Hj, ?HH, ?HP; auto.
  intros k pl' o H. rewrite Hs in H. apply nth_error_set_nth in H.
  destruct H as [(_ & Q & _)|(_ & H)]; [inversion Q; eauto | eauto].
Qed.

(* a closer/joiner that stays JReady advances in its program *)
Lemma inv_jn_ready s s' j x x' :
  Inv s -> w s' = w s -> evt s' = evt s -> waiters s' = waiters s -> sps s' = sps s ->
  jns s' = set_nth j x' (jns s) -> nth_error (jns s) j = Some x ->
  jmode_ x = JReady -> jmode_ x' = JReady ->
  (jwaited x' = true -> jwaited x = true \/ evt s = true) -> Inv s'.
Proof.
  intros [C S L K W1 W2 W3 W4 G] Hw He Hws Hs Hj E M M' Hg.
  assert (HP : pending s' = pending s).
  { unfold pending. rewrite Hs, Hj. pose proof (sumf_set_nth pendn j x x' _ E) as Q.
    assert (pendn x = O /\ pendn x' = O) as (Q1 & Q2) by (unfold pendn; rewrite M, M'; auto).
    lia. }
  assert (HH : holders s' = holders s) by (unfold holders; rewrite Hs; auto).
  constructor; unfold wopen; rewrite ?Hw, ?He, ?Hws, ?Hs, ?HH, ?HP; auto.
  - intros k I. destruct (W1 k I) as (y & Ey & My). rewrite Hj.
    destruct (Nat.eq_dec j k) as [->|N]; [congruence|].
    exists y. rewrite nth_error_set_nth_neq by auto. auto.
  - intros k y H My. rewrite Hj in H. apply nth_error_set_nth in H.
    destruct H as [(_ & -> & _)|(_ & H)]; [congruence | eauto].
  - intros k y H Wy. rewrite Hj in H. apply nth_error_set_nth in H.
    destruct H as [(-> & -> & _)|(_ & H)]; [|eauto].
    destruct (Hg Wy); eauto.
Qed.

(* evt_.set() *)
Lemma inv_set s js sp :
  Inv s -> sumf holdn sp = holders s ->
  (sumf setn sp + sumf pendn js + 1 = pending s)%nat ->
  (forall i pl o, nth_error sp i = Some (pl, SCas o) -> Z.odd o = true) ->
  (forall j x, nth_error js j = Some x -> jmode_ x = JBlocked ->
     exists y, nth_error (jns s) j = Some y /\ jmode_ y = JBlocked) ->
  Inv (fst (do_set s js sp)).
Proof.
  intros [C S L K W1 W2 W3 W4 G] HH HP HK HB. unfold do_set; simpl.
  assert (W0 : w s = 0) by (apply S; left; lia).
  constructor; simpl.
  - unfold holders, wopen; simpl. rewrite HH. exact C.
  - auto.
  - auto.
  - exact HK.
  - tauto.
  - intros k y H My. exfalso.
    destruct (wake_nth _ _ _ _ H) as (x & E & [->|(_ & _ & ->)]); [|discriminate].
    destruct (HB k x E My) as (y0 & Ey & By).
    exact (wake_unblocks _ _ _ _ (W2 k y0 Ey By) H My).
  - constructor.
  - auto.
  - auto.
Qed.

(* only the word and the references change *)
Lemma inv_core s s' :
  Inv s -> evt s' = evt s -> waiters s' = waiters s -> jns s' = jns s ->
  w s' = 2 * Z.of_nat (holders s') + wopen s' ->
  (((0 < pending s')%nat \/ evt s' = true) -> w s' = 0) ->
  (w s' = 0 -> evt s' = true \/ (0 < pending s')%nat) ->
  (forall i pl o, nth_error (sps s') i = Some (pl, SCas o) -> Z.odd o = true) ->
  Inv s'.
Proof.
  intros [C S L K W1 W2 W3 W4 G] He Hws Hj C' S' L' K'.
  constructor; auto; rewrite ?He, ?Hws, ?Hj; auto.
Qed.

Lemma sum_hold_upd s i pl p0 p :
  nth_error (sps s) i = Some (pl, p0) ->
  (sumf holdn (set_nth i (pl, p) (sps s)) + b2n (holds p0) = holders s + b2n (holds p))%nat.
Proof. intros E. exact (sumf_set_nth holdn i (pl, p0) (pl, p) _ E). Qed.

Lemma sum_set_upd s i pl p0 p :
  nth_error (sps s) i = Some (pl, p0) ->
  (sumf setn (set_nth i (pl, p) (sps s)) + b2n (sp_setting (pl, p0))
   = sumf setn (sps s) + b2n (sp_setting (pl, p)))%nat.
Proof. intros E. exact (sumf_set_nth setn i (pl, p0) (pl, p) _ E). Qed.

Lemma wopen_cases s : wopen s = 0 \/ wopen s = 1.
Proof. apply b2z_odd_cases. Qed.

Lemma cas_upd s i pl p k pl' o :
  (forall i pl o, nth_error (sps s) i = Some (pl, SCas o) -> Z.odd o = true) ->
  (forall o, p = SCas o -> Z.odd o = true) ->
  nth_error (set_nth i (pl, p) (sps s)) k = Some (pl', SCas o) -> Z.odd o = true.
Proof.
  intros K Hp H. apply nth_error_set_nth in H.
  destruct H as [(_ & Q & _)|(_ & H)]; [inversion Q; eauto | eauto].
Qed.

Lemma odd_shift2 v : Z.odd (v - 2) = Z.odd v /\ Z.odd (v + 2) = Z.odd v.
Proof.
  split.
  - replace (v - 2) with (v + 2 * (-1)) by lia. apply Z.odd_add_mul_2.
  - replace (v + 2) with (v + 2 * 1) by lia. apply Z.odd_add_mul_2.
Qed.

Ltac pcstep p0 :=
  match goal with
  | |- Inv (upd_sp ?s ?v ?i ?pl ?p) =>
      apply (inv_sp_pc s (upd_sp s v i pl p) i pl p0 p); auto; try reflexivity
  end.

Lemma step_sp_inv i s s' evs : Inv s -> step_sp i s = Some (s', evs) -> Inv s'.
Proof.
  intros I H. unfold step_sp in H.
  destruct (nth_error (sps s) i) as [[pl pc]|] eqn:E; [|discriminate].
  pose proof I as [C S L K W1 W2 W3 W4 G].
  destruct pc.
  - (* SLoad *)
    inversion H; subst; clear H.
    pcstep SLoad.
    + destruct (closed_word (w s)), pl; reflexivity.
    + destruct (closed_word (w s)), pl; reflexivity.
    + intros o Q. unfold closed_word in Q. destruct (Z.even (w s)) eqn:Ev.
      * destruct pl; discriminate.
      * inversion Q; subst. rewrite <- Z.negb_even, Ev. reflexivity.
  - (* SCas *)
    destruct (w s =? o) eqn:Q.
    + apply Z.eqb_eq in Q. inversion H; subst s' evs; clear H.
      assert (Oo : Z.odd o = true) by (eapply K; eauto).
      assert (Wo : wopen s = 1) by (unfold wopen; rewrite Q, Oo; reflexivity).
      pose proof (sum_hold_upd s i pl (SCas o) (after_admit pl) E) as HH.
      pose proof (sum_set_upd s i pl (SCas o) (after_admit pl) E) as HS.
      assert (A1 : holds (after_admit pl) = true) by (destruct pl; reflexivity).
      assert (A2 : sp_setting (pl, after_admit pl) = false) by (destruct pl; reflexivity).
      rewrite A1 in HH. rewrite A2 in HS. simpl in HH, HS.
      apply (inv_core s); auto; unfold upd_sp, holders, pending, wopen; cbn [w sps jns evt waiters].
      * destruct (odd_shift2 o) as [_ ->]. rewrite Oo. cbn [Z.b2z]. lia.
      * intros P. assert (w s = 0) by (apply S; unfold pending; destruct P; [left; lia|auto]).
        assert (Ho : o = 0) by lia. rewrite Ho in Oo. simpl in Oo. discriminate Oo.
      * intros Z0. assert (Ho : o = -2) by lia. rewrite Ho in Oo. simpl in Oo. discriminate Oo.
      * intros k pl' o'. apply cas_upd; auto. intros o'' Q'. destruct pl; discriminate.
    + inversion H; subst; clear H.
      pcstep (SCas o).
      * destruct (closed_word (w s)), pl; reflexivity.
      * destruct (closed_word (w s)), pl; reflexivity.
      * intros o' Q'. unfold closed_word in Q'. destruct (Z.even (w s)) eqn:Ev.
        -- destruct pl; discriminate.
        -- inversion Q'; subst. rewrite <- Z.negb_even, Ev. reflexivity.
  - (* SRejected *)
    inversion H; subst; clear H.
    pcstep SRejected. discriminate.
  - (* SAdmitted *)
    inversion H; subst; clear H.
    pcstep SAdmitted. discriminate.
  - (* SRunning *)
    inversion H; subst; clear H.
    pcstep SRunning. discriminate.
  - (* SSub *)
    inversion H; subst s' evs; clear H.
    set (np := if closed_word (w s) && (count_of (w s) =? 1) then SSet else SFin true).
    pose proof (sum_hold_upd s i pl SSub np E) as HH.
    pose proof (sum_set_upd s i pl SSub np E) as HS.
    assert (A1 : holds np = false) by (unfold np; destruct (_ && _); reflexivity).
    rewrite A1 in HH. simpl in HH, HS.
    destruct (wopen_cases s) as [Wo|Wo].
    + (* closed *)
      assert (Cw : closed_word (w s) = true).
      { unfold closed_word. rewrite C, Wo. rewrite word_even by auto. reflexivity. }
      assert (Cn : count_of (w s) = Z.of_nat (holders s)).
      { rewrite C, Wo. apply word_count. auto. }
      apply (inv_core s); auto; unfold upd_sp, holders, pending, wopen; cbn [w sps jns evt waiters]; fold np.
      * destruct (odd_shift2 (w s)) as [-> _]. fold (wopen s). lia.
      * intros P. destruct (Z.of_nat (holders s) =? 1) eqn:H1.
        -- apply Z.eqb_eq in H1. lia.
        -- assert (NP : np = SFin true) by (unfold np; rewrite Cw, Cn, H1; reflexivity).
           rewrite NP in HS, P. cbn [sp_setting snd b2n] in HS.
           assert (w s = 0). { apply S. unfold pending. destruct P; [left; lia|auto]. }
           lia.
      * intros Z0. right.
        assert (H1 : (Z.of_nat (holders s) =? 1) = true) by (apply Z.eqb_eq; lia).
        assert (NP : np = SSet) by (unfold np; rewrite Cw, Cn, H1; reflexivity).
        rewrite NP in HS |- *. cbn [sp_setting snd b2n] in HS. lia.
      * intros k pl' o'. apply cas_upd; auto. intros o'' Q'. unfold np in Q'.
        destruct (_ && _); discriminate.
    + (* open *)
      assert (Cw : closed_word (w s) = false).
      { unfold closed_word. rewrite C, Wo. rewrite word_even by auto. reflexivity. }
      assert (NP : np = SFin true) by (unfold np; rewrite Cw; reflexivity).
      rewrite NP in *. simpl in HS.
      apply (inv_core s); auto; unfold upd_sp, holders, pending, wopen; cbn [w sps jns evt waiters].
      * destruct (odd_shift2 (w s)) as [-> _]. fold (wopen s). lia.
      * intros P. assert (w s = 0) by (apply S; unfold pending; destruct P; [left; lia|auto]).
        lia.
      * intros Z0. lia.
      * intros k pl' o'. apply cas_upd; auto. discriminate.
  - (* SSet *)
    inversion H; subst s' evs; clear H.
    pose proof (sum_hold_upd s i pl SSet (SFin true) E) as HH.
    pose proof (sum_set_upd s i pl SSet (SFin true) E) as HS. simpl in HH, HS.
    change (Inv (fst (do_set s (jns s) (set_nth i (pl, SFin true) (sps s))))).
    apply inv_set; auto.
    + lia.
    + unfold pending. lia.
    + intros k pl' o'. apply cas_upd; auto. discriminate.
    + eauto.
  - discriminate.
Qed.

(* a closer/joiner that is not parked, and does not park, is replaced *)
Lemma inv_jn_upd s s' j x x' :
  Inv s -> evt s' = evt s -> waiters s' = waiters s ->
  jns s' = set_nth j x' (jns s) -> nth_error (jns s) j = Some x ->
  jmode_ x <> JBlocked -> jmode_ x' <> JBlocked ->
  (jwaited x' = true -> jwaited x = true \/ evt s = true) ->
  w s' = 2 * Z.of_nat (holders s') + wopen s' ->
  (((0 < pending s')%nat \/ evt s' = true) -> w s' = 0) ->
  (w s' = 0 -> evt s' = true \/ (0 < pending s')%nat) ->
  (forall i pl o, nth_error (sps s') i = Some (pl, SCas o) -> Z.odd o = true) ->
  Inv s'.
Proof.
  intros [C S L K W1 W2 W3 W4 G] He Hws Hj E M M' Hg C' S' L' K'.
  constructor; auto; rewrite ?He, ?Hws; auto.
  - intros k I. destruct (W1 k I) as (y & Ey & My). rewrite Hj.
    destruct (Nat.eq_dec j k) as [->|N]; [congruence|].
    exists y. rewrite nth_error_set_nth_neq by auto. auto.
  - intros k y H My. rewrite Hj in H. apply nth_error_set_nth in H.
    destruct H as [(_ & -> & _)|(_ & H)]; [congruence | eauto].
  - intros k y H Wy. rewrite Hj in H. apply nth_error_set_nth in H.
    destruct H as [(-> & -> & _)|(_ & H)]; [|eauto].
    destruct (Hg Wy); eauto.
Qed.

Lemma sum_pend_upd s j x x' :
  nth_error (jns s) j = Some x ->
  (sumf pendn (set_nth j x' (jns s)) + pendn x = sumf pendn (jns s) + pendn x')%nat.
Proof. intros E. exact (sumf_set_nth pendn j x x' _ E). Qed.

Ltac jstep s j x :=
  lazymatch goal with
  | |- Inv ?S =>
      let js := eval cbn [jns upd_jn] in (jns S) in
      lazymatch js with
      | set_nth _ ?x' _ => apply (inv_jn_ready s S j x x'); auto; simpl; auto
      end
  end.

Lemma step_jn_inv j s s' evs : Inv s -> step_jn j s = Some (s', evs) -> Inv s'.
Proof.
  intros I H. unfold step_jn in H.
  destruct (nth_error (jns s) j) as [x|] eqn:E; [|discriminate].
  pose proof I as [C S L K W1 W2 W3 W4 G].
  destruct (jmode_ x) eqn:M.
  - (* JReady *)
    destruct (jprog x) as [|op r] eqn:P; [discriminate|].
    destruct op.
    + (* JClose *)
      inversion H; subst s' evs; clear H.
      set (sets := (count_of (w s) =? 0) && (if strict s then negb (closed_word (w s)) else true)).
      set (x' := {| jprog := r; jmode_ := if sets then JPend else JReady; jwaited := jwaited x |}).
      pose proof (sum_pend_upd s j x x' E) as HP.
      assert (PX : pendn x = O) by (unfold pendn; rewrite M; auto).
      assert (PX' : pendn x' = b2n sets) by (unfold pendn, x'; simpl; destruct sets; auto).
      rewrite PX, PX' in HP.
      assert (Cn : count_of (w s) = Z.of_nat (holders s)).
      { rewrite C. apply word_count. apply wopen_cases. }
      assert (Cl : Z.land (w s) (-2) = 2 * Z.of_nat (holders s)).
      { rewrite C at 1. apply word_clear. apply wopen_cases. }
      assert (Ev : Z.odd (2 * Z.of_nat (holders s)) = false).
      { rewrite Z.odd_mul. reflexivity. }
      apply (inv_jn_upd s _ j x x'); auto; try (unfold x'; simpl; destruct sets; congruence);
        unfold holders, pending, wopen; cbn [w sps jns evt waiters]; fold x'; rewrite Cl.
      * rewrite Ev. cbn [Z.b2z]. unfold holders. lia.
      * intros Q. destruct sets eqn:SS.
        -- unfold sets in SS. apply andb_prop in SS. destruct SS as [SS _].
           apply Z.eqb_eq in SS. lia.
        -- simpl in HP. assert (w s = 0) by (apply S; unfold pending; destruct Q; [left; lia|auto]).
           destruct (wopen_cases s); lia.
      * intros Z0. assert (H0 : holders s = O) by lia.
        destruct sets eqn:SS; [right; simpl in HP; lia|].
        simpl in HP. unfold sets in SS. rewrite Cn, H0 in SS. simpl in SS.
        destruct (strict s); [|discriminate].
        apply negb_false_iff in SS. unfold closed_word in SS.
        assert (W0 : w s = 0).
        { rewrite C, H0. unfold wopen. rewrite <- Z.negb_even, SS. reflexivity. }
        destruct (L W0); [left; auto | right; unfold pending in *; lia].
    + (* JStop *)
      inversion H; subst s' evs; clear H.
      jstep s j x.
    + (* JWait *)
      destruct (evt s) eqn:Ee.
      * inversion H; subst s' evs; clear H.
        jstep s j x.
      * inversion H; subst s' evs; clear H.
        set (x' := {| jprog := r; jmode_ := JBlocked; jwaited := jwaited x |}).
        pose proof (sum_pend_upd s j x x' E) as HP.
        assert (PX : pendn x = O) by (unfold pendn; rewrite M; auto).
        assert (PX' : pendn x' = O) by reflexivity.
        rewrite PX, PX' in HP.
        assert (NI : ~ In j (waiters s)).
        { intros I0. destruct (W1 j I0) as (y & Ey & My). congruence. }
        constructor; unfold holders, pending, wopen; cbn [w sps jns evt waiters]; fold x'.
        -- exact C.
        -- intros Q. apply S. unfold pending. destruct Q as [Q|Q]; [left; lia|discriminate].
        -- intros Z0. destruct (L Z0) as [Q|Q]; [congruence | right; unfold pending in Q; lia].
        -- exact K.
        -- intros k [<-|I0].
           ++ exists x'. rewrite nth_error_set_nth_eq by (eapply nth_error_lt; eauto). auto.
           ++ destruct (W1 k I0) as (y & Ey & My). exists y.
              rewrite nth_error_set_nth_neq by (intros ->; tauto). auto.
        -- intros k y Hy My. apply nth_error_set_nth in Hy.
           destruct Hy as [(-> & _)|(_ & Hy)]; [left; auto | right; eauto].
        -- constructor; auto.
        -- discriminate.
        -- intros k y Hy Wy. apply nth_error_set_nth in Hy. rewrite <- Ee.
           destruct Hy as [(-> & -> & _)|(_ & Hy)]; [simpl in Wy|]; eauto.
    + (* JSync *)
      inversion H; subst s' evs; clear H.
      jstep s j x.
    + (* JDone *)
      inversion H; subst s' evs; clear H.
      jstep s j x.
  - (* JPend *)
    inversion H; subst s' evs; clear H.
    set (x' := {| jprog := jprog x; jmode_ := JReady; jwaited := jwaited x |}).
    pose proof (sum_pend_upd s j x x' E) as HP.
    assert (PX : pendn x = 1%nat) by (unfold pendn; rewrite M; auto).
    assert (PX' : pendn x' = O) by reflexivity.
    rewrite PX, PX' in HP.
    change (Inv (fst (do_set s (set_nth j x' (jns s)) (sps s)))).
    apply inv_set; auto.
    + unfold pending. lia.
    + intros k y Hy My. apply nth_error_set_nth in Hy.
      destruct Hy as [(_ & -> & _)|(_ & Hy)]; [discriminate | eauto].
  - discriminate.
Qed.

Lemma step_inv t s s' evs : Inv s -> step t s = Some (s', evs) -> Inv s'.
Proof.
  intros I H. unfold step in H. destruct (Nat.ltb t (nsp s)).
  - eapply step_sp_inv; eauto.
  - eapply step_jn_inv; eauto.
Qed.

Theorem inv_reachable b plans progs sched :
  Inv (fst (run step sched (init b plans progs, []))).
Proof.
  apply (run_invariant_state st nat ev step Inv).
  - intros s t s' evs I H. eapply step_inv; eauto.
  - apply Inv_init.
Qed.
