(* Proofs about the Scope model (Proto/ScopeDefs.v): for all numbers of references, all closer /
   joiner programs and all schedules. *)
From Coq Require Import ZArith List Bool Lia Arith PeanoNat.
From V Require Import Base.Sched Proto.ScopeDefs.
Import ListNotations.
Import Scope.
Local Open Scope Z_scope.

(* ------------------------------------------------------------------------------------------ *)
(* lists *)
Lemma set_nth_length {A} (i : nat) (x : A) (l : list A) : length (set_nth i x l) = length l.
Proof. revert i; induction l; intros [|i]; simpl; auto. Qed.

Lemma nth_error_set_nth_eq {A} (i : nat) (x : A) (l : list A) :
  (i < length l)%nat -> nth_error (set_nth i x l) i = Some x.
Proof. revert i; induction l; intros [|i] H; simpl in *; try lia; auto. apply IHl; lia. Qed.

Lemma nth_error_set_nth_neq {A} (i j : nat) (x : A) (l : list A) :
  i <> j -> nth_error (set_nth i x l) j = nth_error l j.
Proof. revert i j; induction l; intros [|i] [|j] H; simpl; auto; try congruence. Qed.

Lemma nth_error_set_nth {A} (i j : nat) (x y : A) (l : list A) :
  nth_error (set_nth i x l) j = Some y ->
  (i = j /\ y = x /\ (i < length l)%nat) \/ (i <> j /\ nth_error l j = Some y).
Proof.
  intros H. destruct (Nat.eq_dec i j) as [->|N].
  - left. assert (L : (j < length l)%nat).
    { rewrite <- (set_nth_length j x l). apply nth_error_Some. congruence. }
    rewrite nth_error_set_nth_eq in H by exact L. inversion H; auto.
  - right. rewrite nth_error_set_nth_neq in H by exact N. auto.
Qed.

Lemma nth_error_lt {A} (l : list A) i x : nth_error l i = Some x -> (i < length l)%nat.
Proof. intros H. apply nth_error_Some. congruence. Qed.

(* sum of a measure over a list; counting = measure 0/1 *)
Fixpoint sumf {A} (f : A -> nat) (l : list A) : nat :=
  match l with [] => O | x :: r => (f x + sumf f r)%nat end.

Lemma sumf_set_nth {A} (f : A -> nat) i (p q : A) l :
  nth_error l i = Some p -> (sumf f (set_nth i q l) + f p = sumf f l + f q)%nat.
Proof.
  revert i; induction l as [|a l IH]; intros [|i] H; simpl in *; try discriminate.
  - inversion H; subst. lia.
  - specialize (IH _ H). lia.
Qed.

Lemma sumf_zero_nth {A} (f : A -> nat) l :
  sumf f l = O -> forall i x, nth_error l i = Some x -> f x = O.
Proof.
  induction l as [|a l IH]; intros H [|i] x E; simpl in *; try discriminate.
  - inversion E; subst. lia.
  - apply (IH ltac:(lia) i x E).
Qed.

Lemma sumf_all_zero {A} (f : A -> nat) l :
  (forall i x, nth_error l i = Some x -> f x = O) -> sumf f l = O.
Proof.
  induction l as [|a l IH]; intros H; simpl; auto.
  rewrite (H O a eq_refl). simpl. apply IH. intros i x E. apply (H (S i) x E).
Qed.

Lemma sumf_map {A B} (f : B -> nat) (g : A -> B) l : sumf f (map g l) = sumf (fun x => f (g x)) l.
Proof. induction l; simpl; auto. Qed.

Lemma sumf_const0 {A} (l : list A) : sumf (fun _ => O) l = O.
Proof. induction l; simpl; auto. Qed.

Definition b2n (b : bool) : nat := if b then 1%nat else 0%nat.

(* ------------------------------------------------------------------------------------------ *)
(* the packed word *)
Lemma word_even h b : (b = 0 \/ b = 1) -> Z.even (2 * h + b) = (b =? 0).
Proof.
  intros [->| ->].
  - rewrite Z.add_0_r, Z.even_mul. reflexivity.
  - replace (2 * h + 1) with (1 + 2 * h) by lia. rewrite Z.even_add_mul_2. reflexivity.
Qed.

Lemma word_odd h b : (b = 0 \/ b = 1) -> Z.odd (2 * h + b) = (b =? 1).
Proof.
  intros H. rewrite <- Z.negb_even, (word_even h b H). destruct H as [->| ->]; reflexivity.
Qed.

Lemma word_count h b : (b = 0 \/ b = 1) -> count_of (2 * h + b) = h.
Proof.
  intros H. unfold count_of. rewrite Z.shiftr_div_pow2 by lia. change (2 ^ 1) with 2.
  symmetry. apply (Z.div_unique (2 * h + b) 2 h b); lia.
Qed.

Lemma word_clear h b : (b = 0 \/ b = 1) -> Z.land (2 * h + b) (-2) = 2 * h.
Proof.
  intros H. change (-2) with (Z.lnot 1). rewrite <- Z.ldiff_land.
  change 1 with (Z.ones 1) at 1. rewrite Z.ldiff_ones_r by lia.
  rewrite Z.shiftl_mul_pow2 by lia. fold (count_of (2 * h + b)). rewrite (word_count h b H).
  change (2 ^ 1) with 2. lia.
Qed.

Lemma b2z_odd_cases v : Z.b2z (Z.odd v) = 0 \/ Z.b2z (Z.odd v) = 1.
Proof. destruct (Z.odd v); simpl; auto. Qed.

(* ------------------------------------------------------------------------------------------ *)
(* measures of a state *)
Definition holdn (p : plan * spc) : nat := b2n (holds (snd p)).
Definition setn (p : plan * spc) : nat := b2n (sp_setting p).
Definition pendn (x : jst) : nat := match jmode_ x with JPend => 1%nat | _ => 0%nat end.
Fixpoint nclose (p : list jop) : nat :=
  match p with [] => O | JClose :: r => S (nclose r) | _ :: r => nclose r end.
Fixpoint ndone (p : list jop) : nat :=
  match p with [] => O | JDone :: r => S (ndone r) | _ :: r => ndone r end.
Definition closen (x : jst) : nat := nclose (jprog x).

Definition holders (s : st) : nat := sumf holdn (sps s).
Definition pending (s : st) : nat := (sumf setn (sps s) + sumf pendn (jns s))%nat.
Definition closes_left (s : st) : nat := sumf closen (jns s).

(* ------------------------------------------------------------------------------------------ *)
(* waking the parked joiners *)
Definition woke (x : jst) : jst := {| jprog := jprog x; jmode_ := JReady; jwaited := true |}.

Lemma wake1_length js j : length (wake1 js j) = length js.
Proof.
  unfold wake1. destruct (nth_error js j) as [x|]; auto. destruct (jmode_ x); auto.
  apply set_nth_length.
Qed.

Lemma wake1_nth js j k y :
  nth_error (wake1 js j) k = Some y ->
  exists x, nth_error js k = Some x /\
    (y = x \/ (k = j /\ jmode_ x = JBlocked /\ y = woke x)).
Proof.
  unfold wake1. destruct (nth_error js j) as [x|] eqn:E; [|eauto].
  destruct (jmode_ x) eqn:M; eauto.
  intros H. apply nth_error_set_nth in H. destruct H as [(-> & -> & _)|(N & H)]; eauto.
  exists x. split; auto.
Qed.

Lemma wake1_other js j k : k <> j -> nth_error (wake1 js j) k = nth_error js k.
Proof.
  intros N. unfold wake1. destruct (nth_error js j) as [x|]; auto. destruct (jmode_ x); auto.
  apply nth_error_set_nth_neq. auto.
Qed.

Lemma wake1_self js j x :
  nth_error js j = Some x -> exists y, nth_error (wake1 js j) j = Some y /\ jmode_ y <> JBlocked /\
    jprog y = jprog x.
Proof.
  intros E. unfold wake1. rewrite E. destruct (jmode_ x) eqn:M.
  - exists x. rewrite E, M. repeat split; congruence.
  - exists x. rewrite E, M. repeat split; congruence.
  - exists (woke x). rewrite nth_error_set_nth_eq by (eapply nth_error_lt; eauto).
    repeat split; simpl; congruence.
Qed.

Lemma wake1_sum (f : jst -> nat) js j :
  (forall x, jmode_ x = JBlocked -> f (woke x) = f x) -> sumf f (wake1 js j) = sumf f js.
Proof.
  intros Hf. unfold wake1. destruct (nth_error js j) as [x|] eqn:E; auto.
  destruct (jmode_ x) eqn:M; auto.
  pose proof (sumf_set_nth f j x (woke x) js E) as H. rewrite (Hf x M) in H.
  unfold woke in H. lia.
Qed.

Lemma wake_length ws js : length (fold_left wake1 ws js) = length js.
Proof. revert js; induction ws; simpl; intros; auto. rewrite IHws. apply wake1_length. Qed.

Lemma wake_sum (f : jst -> nat) ws js :
  (forall x, jmode_ x = JBlocked -> f (woke x) = f x) -> sumf f (fold_left wake1 ws js) = sumf f js.
Proof.
  intros Hf. revert js; induction ws; simpl; intros; auto. rewrite IHws. apply wake1_sum; auto.
Qed.

Lemma wake_nth ws js k y :
  nth_error (fold_left wake1 ws js) k = Some y ->
  exists x, nth_error js k = Some x /\ (y = x \/ (In k ws /\ jmode_ x = JBlocked /\ y = woke x)).
Proof.
  revert js y; induction ws as [|j ws IH]; simpl; intros js y H; [eauto|].
  destruct (IH _ _ H) as (x1 & E1 & D1).
  destruct (wake1_nth _ _ _ _ E1) as (x & E & D).
  exists x. split; auto.
  destruct D as [->|(-> & M & ->)].
  - destruct D1 as [->|(I & M & ->)]; [auto | right; auto].
  - destruct D1 as [->|(I & M1 & ->)]; [right; auto|]. simpl in M1. discriminate.
Qed.

Lemma wake_unblocks ws js k y :
  In k ws -> nth_error (fold_left wake1 ws js) k = Some y -> jmode_ y <> JBlocked.
Proof.
  revert js y; induction ws as [|j ws IH]; simpl; intros js y I H; [tauto|].
  destruct (Nat.eq_dec j k) as [->|N].
  - destruct (wake_nth _ _ _ _ H) as (x1 & E1 & D1).
    assert (exists x, nth_error js k = Some x) as (x & E).
    { destruct (wake1_nth _ _ _ _ E1) as (x & E & _). eauto. }
    destruct (wake1_self js k x E) as (y1 & E1' & NB & _).
    rewrite E1 in E1'. inversion E1'; subst y1.
    destruct D1 as [->|(_ & M & _)]; congruence.
  - destruct I as [->|I]; [congruence|]. eapply IH; eauto.
Qed.

Lemma wake_prog ws js k y :
  nth_error (fold_left wake1 ws js) k = Some y ->
  exists x, nth_error js k = Some x /\ jprog y = jprog x.
Proof.
  intros H. destruct (wake_nth _ _ _ _ H) as (x & E & [->|(_ & _ & ->)]); eauto.
Qed.

(* ------------------------------------------------------------------------------------------ *)
(* the main invariant *)
Definition wopen (s : st) : Z := Z.b2z (Z.odd (w s)).

Record Inv (s : st) : Prop := {
  I_cnt : w s = 2 * Z.of_nat (holders s) + wopen s;
  I_safe : ((0 < pending s)%nat \/ evt s = true) -> w s = 0;
  I_live : w s = 0 -> evt s = true \/ (0 < pending s)%nat;
  I_cas : forall i pl o, nth_error (sps s) i = Some (pl, SCas o) -> Z.odd o = true;
  I_w1 : forall j, In j (waiters s) ->
         exists x, nth_error (jns s) j = Some x /\ jmode_ x = JBlocked;
  I_w2 : forall j x, nth_error (jns s) j = Some x -> jmode_ x = JBlocked -> In j (waiters s);
  I_w3 : NoDup (waiters s);
  I_w4 : evt s = true -> waiters s = [];
  I_g : forall j x, nth_error (jns s) j = Some x -> jwaited x = true -> evt s = true
}.

Lemma Inv_init b plans progs : Inv (init b plans progs).
Proof.
  constructor; simpl; unfold holders, pending, wopen; simpl.
  - rewrite sumf_map. unfold holdn; simpl. rewrite sumf_const0. reflexivity.
  - rewrite !sumf_map. unfold setn, pendn; simpl. rewrite !sumf_const0. intros [H|H]; [lia|discriminate].
  - discriminate.
  - intros i pl o H. revert i H. induction plans as [|a l IH]; intros [|i] H; simpl in *; try discriminate; eauto.
  - tauto.
  - intros j x H M. exfalso. revert j H. induction progs as [|a l IH]; intros [|j] H; simpl in *;
      try discriminate; eauto. inversion H; subst; discriminate.
  - constructor.
  - discriminate.
  - intros j x H M. exfalso. revert j H. induction progs as [|a l IH]; intros [|j] H; simpl in *;
      try discriminate; eauto. inversion H; subst; discriminate.
Qed.

(* a reference changes its pc only *)
Lemma inv_sp_pc s s' i pl p0 p :
  Inv s -> w s' = w s -> evt s' = evt s -> waiters s' = waiters s -> jns s' = jns s ->
  sps s' = set_nth i (pl, p) (sps s) -> nth_error (sps s) i = Some (pl, p0) ->
  holds p = holds p0 -> sp_setting (pl, p) = sp_setting (pl, p0) ->
  (forall o, p = SCas o -> Z.odd o = true) -> Inv s'.
Proof.
  intros [C S L K W1 W2 W3 W4 G] Hw He Hws Hj Hs E Hh Hp Hc.
  assert (HH : holders s' = holders s).
  { unfold holders. rewrite Hs. pose proof (sumf_set_nth holdn i (pl, p0) (pl, p) _ E) as Q.
    change (holdn (pl, p)) with (b2n (holds p)) in Q.
    change (holdn (pl, p0)) with (b2n (holds p0)) in Q. rewrite Hh in Q. lia. }
  assert (HP : pending s' = pending s).
  { unfold pending. rewrite Hs, Hj. pose proof (sumf_set_nth setn i (pl, p0) (pl, p) _ E) as Q.
    change (setn (pl, p)) with (b2n (sp_setting (pl, p))) in Q.
    change (setn (pl, p0)) with (b2n (sp_setting (pl, p0))) in Q. rewrite Hp in Q. lia. }
  constructor; unfold wopen; rewrite ?Hw, ?He, ?Hws, ?Hj, ?HH, ?HP; auto.
  intros k pl' o H. rewrite Hs in H. apply nth_error_set_nth in H.
  destruct H as [(_ & Q & _)|(_ & H)]; [inversion Q; eauto | eauto].
Qed.

(* a closer/joiner that stays JReady advances in its program *)
Lemma inv_jn_ready s s' j x x' :
  Inv s -> w s' = w s -> evt s' = evt s -> waiters s' = waiters s -> sps s' = sps s ->
  jns s' = set_nth j x' (jns s) -> nth_error (jns s) j = Some x ->
  jmode_ x = JReady -> jmode_ x' = JReady ->
  (jwaited x' = true -> jwaited x = true \/ evt s = true) -> Inv s'.
Proof.
  intros [C S L K W1 W2 W3 W4 G] Hw He Hws Hs Hj E M M' Hg.
  assert (HP : pending s' = pending s).
  { unfold pending. rewrite Hs, Hj. pose proof (sumf_set_nth pendn j x x' _ E) as Q.
    assert (pendn x = O /\ pendn x' = O) as (Q1 & Q2) by (unfold pendn; rewrite M, M'; auto).
    lia. }
  assert (HH : holders s' = holders s) by (unfold holders; rewrite Hs; auto).
  constructor; unfold wopen; rewrite ?Hw, ?He, ?Hws, ?Hs, ?HH, ?HP; auto.
  - intros k I. destruct (W1 k I) as (y & Ey & My). rewrite Hj.
    destruct (Nat.eq_dec j k) as [->|N]; [congruence|].
    exists y. rewrite nth_error_set_nth_neq by auto. auto.
  - intros k y H My. rewrite Hj in H. apply nth_error_set_nth in H.
    destruct H as [(_ & -> & _)|(_ & H)]; [congruence | eauto].
  - intros k y H Wy. rewrite Hj in H. apply nth_error_set_nth in H.
    destruct H as [(-> & -> & _)|(_ & H)]; [|eauto].
    destruct (Hg Wy); eauto.
Qed.

(* evt_.set() *)
Lemma inv_set s js sp :
  Inv s -> sumf holdn sp = holders s ->
  (sumf setn sp + sumf pendn js + 1 = pending s)%nat ->
  (forall i pl o, nth_error sp i = Some (pl, SCas o) -> Z.odd o = true) ->
  (forall j x, nth_error js j = Some x -> jmode_ x = JBlocked ->
     exists y, nth_error (jns s) j = Some y /\ jmode_ y = JBlocked) ->
  Inv (fst (do_set s js sp)).
Proof.
  intros [C S L K W1 W2 W3 W4 G] HH HP HK HB. unfold do_set; simpl.
  assert (W0 : w s = 0) by (apply S; left; lia).
  constructor; simpl.
  - unfold holders, wopen; simpl. rewrite HH. exact C.
  - auto.
  - auto.
  - exact HK.
  - tauto.
  - intros k y H My. exfalso.
    destruct (wake_nth _ _ _ _ H) as (x & E & [->|(_ & _ & ->)]); [|discriminate].
    destruct (HB k x E My) as (y0 & Ey & By).
    exact (wake_unblocks _ _ _ _ (W2 k y0 Ey By) H My).
  - constructor.
  - auto.
  - auto.
Qed.

(* only the word and the references change *)
Lemma inv_core s s' :
  Inv s -> evt s' = evt s -> waiters s' = waiters s -> jns s' = jns s ->
  w s' = 2 * Z.of_nat (holders s') + wopen s' ->
  (((0 < pending s')%nat \/ evt s' = true) -> w s' = 0) ->
  (w s' = 0 -> evt s' = true \/ (0 < pending s')%nat) ->
  (forall i pl o, nth_error (sps s') i = Some (pl, SCas o) -> Z.odd o = true) ->
  Inv s'.
Proof.
  intros [C S L K W1 W2 W3 W4 G] He Hws Hj C' S' L' K'.
  constructor; auto; rewrite ?He, ?Hws, ?Hj; auto.
Qed.

Lemma sum_hold_upd s i pl p0 p :
  nth_error (sps s) i = Some (pl, p0) ->
  (sumf holdn (set_nth i (pl, p) (sps s)) + b2n (holds p0) = holders s + b2n (holds p))%nat.
Proof. intros E. exact (sumf_set_nth holdn i (pl, p0) (pl, p) _ E). Qed.

Lemma sum_set_upd s i pl p0 p :
  nth_error (sps s) i = Some (pl, p0) ->
  (sumf setn (set_nth i (pl, p) (sps s)) + b2n (sp_setting (pl, p0))
   = sumf setn (sps s) + b2n (sp_setting (pl, p)))%nat.
Proof. intros E. exact (sumf_set_nth setn i (pl, p0) (pl, p) _ E). Qed.

Lemma wopen_cases s : wopen s = 0 \/ wopen s = 1.
Proof. apply b2z_odd_cases. Qed.

Lemma cas_upd s i pl p k pl' o :
  (forall i pl o, nth_error (sps s) i = Some (pl, SCas o) -> Z.odd o = true) ->
  (forall o, p = SCas o -> Z.odd o = true) ->
  nth_error (set_nth i (pl, p) (sps s)) k = Some (pl', SCas o) -> Z.odd o = true.
Proof.
  intros K Hp H. apply nth_error_set_nth in H.
  destruct H as [(_ & Q & _)|(_ & H)]; [inversion Q; eauto | eauto].
Qed.

Lemma odd_shift2 v : Z.odd (v - 2) = Z.odd v /\ Z.odd (v + 2) = Z.odd v.
Proof.
  split.
  - replace (v - 2) with (v + 2 * (-1)) by lia. apply Z.odd_add_mul_2.
  - replace (v + 2) with (v + 2 * 1) by lia. apply Z.odd_add_mul_2.
Qed.

Ltac pcstep p0 :=
  match goal with
  | |- Inv (upd_sp ?s ?v ?i ?pl ?p) =>
      apply (inv_sp_pc s (upd_sp s v i pl p) i pl p0 p); auto; try reflexivity
  end.

Lemma step_sp_inv i s s' evs : Inv s -> step_sp i s = Some (s', evs) -> Inv s'.
Proof.
  intros I H. unfold step_sp in H.
  destruct (nth_error (sps s) i) as [[pl pc]|] eqn:E; [|discriminate].
  pose proof I as [C S L K W1 W2 W3 W4 G].
  destruct pc.
  - (* SLoad *)
    inversion H; subst; clear H.
    pcstep SLoad.
    + destruct (closed_word (w s)), pl; reflexivity.
    + destruct (closed_word (w s)), pl; reflexivity.
    + intros o Q. unfold closed_word in Q. destruct (Z.even (w s)) eqn:Ev.
      * destruct pl; discriminate.
      * inversion Q; subst. rewrite <- Z.negb_even, Ev. reflexivity.
  - (* SCas *)
    destruct (w s =? o) eqn:Q.
    + apply Z.eqb_eq in Q. inversion H; subst s' evs; clear H.
      assert (Oo : Z.odd o = true) by (eapply K; eauto).
      assert (Wo : wopen s = 1) by (unfold wopen; rewrite Q, Oo; reflexivity).
      pose proof (sum_hold_upd s i pl (SCas o) (after_admit pl) E) as HH.
      pose proof (sum_set_upd s i pl (SCas o) (after_admit pl) E) as HS.
      assert (A1 : holds (after_admit pl) = true) by (destruct pl; reflexivity).
      assert (A2 : sp_setting (pl, after_admit pl) = false) by (destruct pl; reflexivity).
      rewrite A1 in HH. rewrite A2 in HS. simpl in HH, HS.
      apply (inv_core s); auto; unfold upd_sp, holders, pending, wopen; cbn [w sps jns evt waiters].
      * destruct (odd_shift2 o) as [_ ->]. rewrite Oo. cbn [Z.b2z]. lia.
      * intros P. assert (w s = 0) by (apply S; unfold pending; destruct P; [left; lia|auto]).
        assert (Ho : o = 0) by lia. rewrite Ho in Oo. simpl in Oo. discriminate Oo.
      * intros Z0. assert (Ho : o = -2) by lia. rewrite Ho in Oo. simpl in Oo. discriminate Oo.
      * intros k pl' o'. apply cas_upd; auto. intros o'' Q'. destruct pl; discriminate.
    + inversion H; subst; clear H.
      pcstep (SCas o).
      * destruct (closed_word (w s)), pl; reflexivity.
      * destruct (closed_word (w s)), pl; reflexivity.
      * intros o' Q'. unfold closed_word in Q'. destruct (Z.even (w s)) eqn:Ev.
        -- destruct pl; discriminate.
        -- inversion Q'; subst. rewrite <- Z.negb_even, Ev. reflexivity.
  - (* SRejected *)
    inversion H; subst; clear H.
    pcstep SRejected. discriminate.
  - (* SAdmitted *)
    inversion H; subst; clear H.
    pcstep SAdmitted. discriminate.
  - (* SRunning *)
    inversion H; subst; clear H.
    pcstep SRunning. discriminate.
  - (* SSub *)
    inversion H; subst s' evs; clear H.
    set (np := if closed_word (w s) && (count_of (w s) =? 1) then SSet else SFin true).
    pose proof (sum_hold_upd s i pl SSub np E) as HH.
    pose proof (sum_set_upd s i pl SSub np E) as HS.
    assert (A1 : holds np = false) by (unfold np; destruct (_ && _); reflexivity).
    rewrite A1 in HH. simpl in HH, HS.
    destruct (wopen_cases s) as [Wo|Wo].
    + (* closed *)
      assert (Cw : closed_word (w s) = true).
      { unfold closed_word. rewrite C, Wo. rewrite word_even by auto. reflexivity. }
      assert (Cn : count_of (w s) = Z.of_nat (holders s)).
      { rewrite C, Wo. apply word_count. auto. }
      apply (inv_core s); auto; unfold upd_sp, holders, pending, wopen; cbn [w sps jns evt waiters]; fold np.
      * destruct (odd_shift2 (w s)) as [-> _]. fold (wopen s). lia.
      * intros P. destruct (Z.of_nat (holders s) =? 1) eqn:H1.
        -- apply Z.eqb_eq in H1. lia.
        -- assert (NP : np = SFin true) by (unfold np; rewrite Cw, Cn, H1; reflexivity).
           rewrite NP in HS, P. cbn [sp_setting snd b2n] in HS.
           assert (w s = 0). { apply S. unfold pending. destruct P; [left; lia|auto]. }
           lia.
      * intros Z0. right.
        assert (H1 : (Z.of_nat (holders s) =? 1) = true) by (apply Z.eqb_eq; lia).
        assert (NP : np = SSet) by (unfold np; rewrite Cw, Cn, H1; reflexivity).
        rewrite NP in HS |- *. cbn [sp_setting snd b2n] in HS. lia.
      * intros k pl' o'. apply cas_upd; auto. intros o'' Q'. unfold np in Q'.
        destruct (_ && _); discriminate.
    + (* open *)
      assert (Cw : closed_word (w s) = false).
      { unfold closed_word. rewrite C, Wo. rewrite word_even by auto. reflexivity. }
      assert (NP : np = SFin true) by (unfold np; rewrite Cw; reflexivity).
      rewrite NP in *. simpl in HS.
      apply (inv_core s); auto; unfold upd_sp, holders, pending, wopen; cbn [w sps jns evt waiters].
      * destruct (odd_shift2 (w s)) as [-> _]. fold (wopen s). lia.
      * intros P. assert (w s = 0) by (apply S; unfold pending; destruct P; [left; lia|auto]).
        lia.
      * intros Z0. lia.
      * intros k pl' o'. apply cas_upd; auto. discriminate.
  - (* SSet *)
    inversion H; subst s' evs; clear H.
    pose proof (sum_hold_upd s i pl SSet (SFin true) E) as HH.
    pose proof (sum_set_upd s i pl SSet (SFin true) E) as HS. simpl in HH, HS.
    change (Inv (fst (do_set s (jns s) (set_nth i (pl, SFin true) (sps s))))).
    apply inv_set; auto.
    + lia.
    + unfold pending. lia.
    + intros k pl' o'. apply cas_upd; auto. discriminate.
    + eauto.
  - discriminate.
Qed.

(* a closer/joiner that is not parked, and does not park, is replaced *)
Lemma inv_jn_upd s s' j x x' :
  Inv s -> evt s' = evt s -> waiters s' = waiters s ->
  jns s' = set_nth j x' (jns s) -> nth_error (jns s) j = Some x ->
  jmode_ x <> JBlocked -> jmode_ x' <> JBlocked ->
  (jwaited x' = true -> jwaited x = true \/ evt s = true) ->
  w s' = 2 * Z.of_nat (holders s') + wopen s' ->
  (((0 < pending s')%nat \/ evt s' = true) -> w s' = 0) ->
  (w s' = 0 -> evt s' = true \/ (0 < pending s')%nat) ->
  (forall i pl o, nth_error (sps s') i = Some (pl, SCas o) -> Z.odd o = true) ->
  Inv s'.
Proof.
  intros [C S L K W1 W2 W3 W4 G] He Hws Hj E M M' Hg C' S' L' K'.
  constructor; auto; rewrite ?He, ?Hws; auto.
  - intros k I. destruct (W1 k I) as (y & Ey & My). rewrite Hj.
    destruct (Nat.eq_dec j k) as [->|N]; [congruence|].
    exists y. rewrite nth_error_set_nth_neq by auto. auto.
  - intros k y H My. rewrite Hj in H. apply nth_error_set_nth in H.
    destruct H as [(_ & -> & _)|(_ & H)]; [congruence | eauto].
  - intros k y H Wy. rewrite Hj in H. apply nth_error_set_nth in H.
    destruct H as [(-> & -> & _)|(_ & H)]; [|eauto].
    destruct (Hg Wy); eauto.
Qed.

Lemma sum_pend_upd s j x x' :
  nth_error (jns s) j = Some x ->
  (sumf pendn (set_nth j x' (jns s)) + pendn x = sumf pendn (jns s) + pendn x')%nat.
Proof. intros E. exact (sumf_set_nth pendn j x x' _ E). Qed.

Ltac jstep s j x :=
  lazymatch goal with
  | |- Inv ?S =>
      let js := eval cbn [jns upd_jn] in (jns S) in
      lazymatch js with
      | set_nth _ ?x' _ => apply (inv_jn_ready s S j x x'); auto; simpl; auto
      end
  end.

Lemma step_jn_inv j s s' evs : Inv s -> step_jn j s = Some (s', evs) -> Inv s'.
Proof.
  intros I H. unfold step_jn in H.
  destruct (nth_error (jns s) j) as [x|] eqn:E; [|discriminate].
  pose proof I as [C S L K W1 W2 W3 W4 G].
  destruct (jmode_ x) eqn:M.
  - (* JReady *)
    destruct (jprog x) as [|op r] eqn:P; [discriminate|].
    destruct op.
    + (* JClose *)
      inversion H; subst s' evs; clear H.
      set (sets := (count_of (w s) =? 0) && (if strict s then negb (closed_word (w s)) else true)).
      set (x' := {| jprog := r; jmode_ := if sets then JPend else JReady; jwaited := jwaited x |}).
      pose proof (sum_pend_upd s j x x' E) as HP.
      assert (PX : pendn x = O) by (unfold pendn; rewrite M; auto).
      assert (PX' : pendn x' = b2n sets) by (unfold pendn, x'; simpl; destruct sets; auto).
      rewrite PX, PX' in HP.
      assert (Cn : count_of (w s) = Z.of_nat (holders s)).
      { rewrite C. apply word_count. apply wopen_cases. }
      assert (Cl : Z.land (w s) (-2) = 2 * Z.of_nat (holders s)).
      { rewrite C at 1. apply word_clear. apply wopen_cases. }
      assert (Ev : Z.odd (2 * Z.of_nat (holders s)) = false).
      { rewrite Z.odd_mul. reflexivity. }
      apply (inv_jn_upd s _ j x x'); auto; try (unfold x'; simpl; destruct sets; congruence);
        unfold holders, pending, wopen; cbn [w sps jns evt waiters]; fold x'; rewrite Cl.
      * rewrite Ev. cbn [Z.b2z]. unfold holders. lia.
      * intros Q. destruct sets eqn:SS.
        -- unfold sets in SS. apply andb_prop in SS. destruct SS as [SS _].
           apply Z.eqb_eq in SS. lia.
        -- simpl in HP. assert (w s = 0) by (apply S; unfold pending; destruct Q; [left; lia|auto]).
           destruct (wopen_cases s); lia.
      * intros Z0. assert (H0 : holders s = O) by lia.
        destruct sets eqn:SS; [right; simpl in HP; lia|].
        simpl in HP. unfold sets in SS. rewrite Cn, H0 in SS. simpl in SS.
        destruct (strict s); [|discriminate].
        apply negb_false_iff in SS. unfold closed_word in SS.
        assert (W0 : w s = 0).
        { rewrite C, H0. unfold wopen. rewrite <- Z.negb_even, SS. reflexivity. }
        destruct (L W0); [left; auto | right; unfold pending in *; lia].
    + (* JStop *)
      inversion H; subst s' evs; clear H.
      jstep s j x.
    + (* JWait *)
      destruct (evt s) eqn:Ee.
      * inversion H; subst s' evs; clear H.
        jstep s j x.
      * inversion H; subst s' evs; clear H.
        set (x' := {| jprog := r; jmode_ := JBlocked; jwaited := jwaited x |}).
        pose proof (sum_pend_upd s j x x' E) as HP.
        assert (PX : pendn x = O) by (unfold pendn; rewrite M; auto).
        assert (PX' : pendn x' = O) by reflexivity.
        rewrite PX, PX' in HP.
        assert (NI : ~ In j (waiters s)).
        { intros I0. destruct (W1 j I0) as (y & Ey & My). congruence. }
        constructor; unfold holders, pending, wopen; cbn [w sps jns evt waiters]; fold x'.
        -- exact C.
        -- intros Q. apply S. unfold pending. destruct Q as [Q|Q]; [left; lia|discriminate].
        -- intros Z0. destruct (L Z0) as [Q|Q]; [congruence | right; unfold pending in Q; lia].
        -- exact K.
        -- intros k [<-|I0].
           ++ exists x'. rewrite nth_error_set_nth_eq by (eapply nth_error_lt; eauto). auto.
           ++ destruct (W1 k I0) as (y & Ey & My). exists y.
              rewrite nth_error_set_nth_neq by (intros ->; tauto). auto.
        -- intros k y Hy My. apply nth_error_set_nth in Hy.
           destruct Hy as [(-> & _)|(_ & Hy)]; [left; auto | right; eauto].
        -- constructor; auto.
        -- discriminate.
        -- intros k y Hy Wy. apply nth_error_set_nth in Hy. rewrite <- Ee.
           destruct Hy as [(-> & -> & _)|(_ & Hy)]; [simpl in Wy|]; eauto.
    + (* JSync *)
      inversion H; subst s' evs; clear H.
      jstep s j x.
    + (* JDone *)
      inversion H; subst s' evs; clear H.
      jstep s j x.
  - (* JPend *)
    inversion H; subst s' evs; clear H.
    set (x' := {| jprog := jprog x; jmode_ := JReady; jwaited := jwaited x |}).
    pose proof (sum_pend_upd s j x x' E) as HP.
    assert (PX : pendn x = 1%nat) by (unfold pendn; rewrite M; auto).
    assert (PX' : pendn x' = O) by reflexivity.
    rewrite PX, PX' in HP.
    change (Inv (fst (do_set s (set_nth j x' (jns s)) (sps s)))).
    apply inv_set; auto.
    + unfold pending. lia.
    + intros k y Hy My. apply nth_error_set_nth in Hy.
      destruct Hy as [(_ & -> & _)|(_ & Hy)]; [discriminate | eauto].
  - discriminate.
Qed.

Lemma step_inv t s s' evs : Inv s -> step t s = Some (s', evs) -> Inv s'.
Proof.
  intros I H. unfold step in H. destruct (Nat.ltb t (nsp s)).
  - eapply step_sp_inv; eauto.
  - eapply step_jn_inv; eauto.
Qed.

Theorem inv_reachable b plans progs sched :
  Inv (fst (run step sched (init b plans progs, []))).
Proof.
  apply (run_invariant_state st nat ev step Inv).
  - intros s t s' evs I H. eapply step_inv; eauto.
  - apply Inv_init.
Qed.

(* ------------------------------------------------------------------------------------------ *)
(* join_safe / join_live / counting *)
Lemma holders_zero_nth s :
  holders s = O -> forall i pl pc, nth_error (sps s) i = Some (pl, pc) -> holds pc = false.
Proof.
  intros H i pl pc E. pose proof (sumf_zero_nth holdn _ H i _ E) as Q.
  unfold holdn in Q. simpl in Q. destruct (holds pc); [discriminate|reflexivity].
Qed.

Lemma pending_zero s :
  pending s = O ->
  (forall i p, nth_error (sps s) i = Some p -> sp_setting p = false) /\
  (forall j x, nth_error (jns s) j = Some x -> jmode_ x <> JPend).
Proof.
  unfold pending. intros H.
  assert (A1 : sumf setn (sps s) = O) by lia. assert (A2 : sumf pendn (jns s) = O) by lia.
  split.
  - intros i p E. pose proof (sumf_zero_nth setn _ A1 i _ E) as Q.
    unfold setn in Q. destruct (sp_setting p); [discriminate|reflexivity].
  - intros j x E M. pose proof (sumf_zero_nth pendn _ A2 j _ E) as Q.
    unfold pendn in Q. rewrite M in Q. discriminate.
Qed.

Theorem join_safe b plans progs sched :
  let s := fst (run step sched (init b plans progs, [])) in
  evt s = true \/ (0 < pending s)%nat ->
  w s = 0 /\ forall i pl pc, nth_error (sps s) i = Some (pl, pc) -> holds pc = false.
Proof.
  intros s H. pose proof (inv_reachable b plans progs sched) as I. fold s in I.
  assert (W0 : w s = 0) by (apply (I_safe s I); tauto).
  split; auto. apply holders_zero_nth.
  pose proof (I_cnt s I) as C. destruct (wopen_cases s); lia.
Qed.

Theorem join_live b plans progs sched :
  let s := fst (run step sched (init b plans progs, [])) in
  w s = 0 -> pending s = O -> evt s = true.
Proof.
  intros s W0 P0. pose proof (inv_reachable b plans progs sched) as I. fold s in I.
  destruct (I_live s I W0); [auto|lia].
Qed.

Theorem counted b plans progs sched :
  let s := fst (run step sched (init b plans progs, [])) in
  w s = 2 * Z.of_nat (holders s) + Z.b2z (Z.odd (w s)) /\ 0 <= w s.
Proof.
  intros s. pose proof (inv_reachable b plans progs sched) as I. fold s in I.
  pose proof (I_cnt s I) as C. unfold wopen in C. split; auto.
  destruct (b2z_odd_cases (w s)); lia.
Qed.

(* ------------------------------------------------------------------------------------------ *)
(* admission *)
Lemma step_closed_stable t s s' evs :
  step t s = Some (s', evs) -> Z.even (w s) = true -> Z.even (w s') = true.
Proof.
  intros H Ev. unfold step in H. destruct (Nat.ltb t (nsp s)).
  - unfold step_sp in H. destruct (nth_error (sps s) t) as [[pl pc]|]; [|discriminate].
    destruct pc; try (inversion H; subst; simpl; auto; fail).
    + destruct (w s =? o) eqn:Q; inversion H; subst; simpl; auto.
      apply Z.eqb_eq in Q. rewrite <- Q. replace (w s + 2) with (w s + 2 * 1) by lia.
      rewrite Z.even_add_mul_2. auto.
    + inversion H; subst; simpl. replace (w s - 2) with (w s + 2 * (-1)) by lia.
      rewrite Z.even_add_mul_2. auto.
  - unfold step_jn in H. destruct (nth_error (jns s) (t - nsp s)) as [x|]; [|discriminate].
    destruct (jmode_ x); [| inversion H; subst; simpl; auto | discriminate].
    destruct (jprog x) as [|op r]; [discriminate|].
    destruct op; try (inversion H; subst; simpl; auto; fail).
    + inversion H; subst; simpl.
      rewrite <- Z.negb_odd, <- Z.bit0_odd, Z.land_spec.
      change (Z.testbit (-2) 0) with false. rewrite andb_false_r. reflexivity.
    + destruct (evt s); inversion H; subst; simpl; auto.
Qed.

Theorem closed_stable b plans progs sched1 sched2 :
  let s1 := fst (run step sched1 (init b plans progs, [])) in
  let s2 := fst (run step (sched1 ++ sched2) (init b plans progs, [])) in
  Z.even (w s1) = true -> Z.even (w s2) = true.
Proof.
  intros s1 s2 H. unfold s2. rewrite run_app.
  apply (run_invariant_state st nat ev step (fun s => Z.even (w s) = true)); auto.
  intros s t s' evs Hs Hstep. eapply step_closed_stable; eauto.
Qed.

(* a successful try_record_start happens while the scope is open and adds one reference *)
Theorem admit_while_open b plans progs sched t s' evs o d :
  let s := fst (run step sched (init b plans progs, [])) in
  step t s = Some (s', evs) -> In (ECas o d true) evs ->
  Z.odd (w s) = true /\ w s = o /\ d = o + 2 /\ w s' = w s + 2 /\ holders s' = S (holders s).
Proof.
  intros s H I. pose proof (inv_reachable b plans progs sched) as V. fold s in V.
  assert (V' : Inv s') by (eapply step_inv; eauto).
  unfold step in H. destruct (Nat.ltb t (nsp s)).
  - unfold step_sp in H. destruct (nth_error (sps s) t) as [[pl pc]|] eqn:E; [|discriminate].
    destruct pc; try (inversion H; subst; simpl in I; intuition discriminate).
    + destruct (w s =? o0) eqn:Q; inversion H; subst; simpl in I;
        destruct I as [I|[]]; inversion I; subst.
      apply Z.eqb_eq in Q. pose proof (I_cas s V _ _ _ E) as Oo.
      assert (W' : w (upd_sp s (o + 2) t pl (after_admit pl)) = w s + 2) by (simpl; lia).
      repeat split; auto; try congruence.
      pose proof (I_cnt s V) as C. pose proof (I_cnt _ V') as C'. rewrite W' in C'.
      unfold wopen in *. rewrite W' in C'. destruct (odd_shift2 (w s)) as [_ R]. rewrite R in C'.
      lia.
    + unfold do_set in H. inversion H; subst. simpl in I. destruct I as [I|I]; [discriminate|].
      apply in_map_iff in I. destruct I as (? & ? & _). discriminate.
  - unfold step_jn in H. destruct (nth_error (jns s) (t - nsp s)) as [x|]; [|discriminate].
    destruct (jmode_ x); [| | discriminate].
    + destruct (jprog x) as [|op r]; [discriminate|].
      destruct op; try (inversion H; subst; simpl in I; intuition discriminate).
      destruct (evt s); inversion H; subst; simpl in I; intuition discriminate.
    + unfold do_set in H. inversion H; subst. simpl in I. destruct I as [I|I]; [discriminate|].
      apply in_map_iff in I. destruct I as (? & ? & _). discriminate.
Qed.

(* once the scope is closed, a reference still in try_record_start is rejected by its next step *)
Theorem closed_rejects b plans progs sched i pl pc s' evs :
  let s := fst (run step sched (init b plans progs, [])) in
  Z.even (w s) = true -> nth_error (sps s) i = Some (pl, pc) ->
  pc = SLoad \/ (exists o, pc = SCas o) ->
  step i s = Some (s', evs) ->
  nth_error (sps s') i = Some (pl, after_reject pl) /\ w s' = w s.
Proof.
  intros s Ev E Hpc H. pose proof (inv_reachable b plans progs sched) as V. fold s in V.
  assert (L : (i < nsp s)%nat) by (eapply nth_error_lt; eauto).
  unfold step in H. apply Nat.ltb_lt in L. rewrite L in H. unfold step_sp in H. rewrite E in H.
  apply Nat.ltb_lt in L.
  destruct Hpc as [->|(o & ->)].
  - inversion H; subst. unfold closed_word. rewrite Ev. simpl.
    rewrite nth_error_set_nth_eq by exact L. auto.
  - pose proof (I_cas s V _ _ _ E) as Oo.
    destruct (w s =? o) eqn:Q.
    + apply Z.eqb_eq in Q. rewrite <- Q, <- Z.negb_even, Ev in Oo. discriminate.
    + inversion H; subst. unfold closed_word. rewrite Ev. simpl.
      rewrite nth_error_set_nth_eq by exact L. auto.
Qed.

(* ------------------------------------------------------------------------------------------ *)
(* well-formed closer/joiner programs: a wait comes after a close of the same thread, a join
   completion after a wait.  (All programs of the three scopes have this shape.) *)
Fixpoint wfp (closed : bool) (p : list jop) : bool :=
  match p with
  | [] => true
  | JClose :: r => wfp true r
  | JWait :: r => closed && wfp closed r
  | _ :: r => wfp closed r
  end.
Fixpoint wfd (waited : bool) (p : list jop) : bool :=
  match p with
  | [] => true
  | JWait :: r => wfd true r
  | JDone :: r => waited && wfd waited r
  | _ :: r => wfd waited r
  end.
Definition wf_prog (p : list jop) : Prop := wfp false p = true /\ wfd false p = true.

Lemma wfp_mono p : wfp false p = true -> wfp true p = true.
Proof. induction p as [|op r IH]; simpl; auto. destruct op; auto. discriminate. Qed.

Definition blockedb (x : jst) : bool := match jmode_ x with JBlocked => true | _ => false end.
Definition prog_of (s : st) (j : nat) : list jop :=
  match nth_error (jns s) j with Some x => jprog x | None => [] end.

Definition jok (cl : bool) (x : jst) : Prop :=
  wfp cl (jprog x) = true /\ (jmode_ x = JBlocked -> cl = true) /\
  wfd (jwaited x || blockedb x) (jprog x) = true.

Record PInv (progs : list (list jop)) (s : st) : Prop := {
  P_ok : forall j x, nth_error (jns s) j = Some x -> jok (Z.even (w s)) x;
  P_joined : joined s <> [] -> evt s = true;
  P_count : forall j, (count_occ Nat.eq_dec (joined s) j + ndone (prog_of s j)
                       = ndone (nth j progs []))%nat
}.

Lemma jok_mono x : jok false x -> jok true x.
Proof. intros (A & B & C). repeat split; auto. apply wfp_mono; auto. Qed.

Lemma jok_cl a b x : (a = true -> b = true) -> jok a x -> jok b x.
Proof.
  intros H J. destruct a, b; auto.
  - specialize (H eq_refl). discriminate.
  - apply jok_mono; auto.
Qed.

Lemma jok_woke cl x : jok cl x -> jok cl (woke x).
Proof.
  intros (A & B & C). repeat split; simpl; auto; [discriminate|].
  destruct (jwaited x); simpl in *; auto. unfold blockedb in C.
  destruct (jmode_ x); simpl in C; auto.
  - clear -C. revert C. generalize (jprog x). induction l as [|op r IH]; simpl; auto.
    destruct op; auto. discriminate.
  - clear -C. revert C. generalize (jprog x). induction l as [|op r IH]; simpl; auto.
    destruct op; auto. discriminate.
Qed.

Lemma PInv_init b plans progs :
  Forall wf_prog progs -> PInv progs (init b plans progs).
Proof.
  intros F. constructor; simpl.
  - intros j x H. apply nth_error_In in H. apply in_map_iff in H. destruct H as (p & <- & I).
    rewrite Forall_forall in F. destruct (F p I) as (A & B). repeat split; simpl; auto. discriminate.
  - congruence.
  - intros j. unfold prog_of; simpl. rewrite nth_error_map.
    destruct (nth_error progs j) as [p|] eqn:E; simpl.
    + rewrite (nth_error_nth _ _ _ E). reflexivity.
    + rewrite nth_overflow by (apply nth_error_None; auto). reflexivity.
Qed.

Lemma prog_of_set_nth s j x' k js :
  js = set_nth j x' (jns s) -> (j < length (jns s))%nat ->
  match nth_error js k with Some x => jprog x | None => [] end =
  if Nat.eqb j k then jprog x' else prog_of s k.
Proof.
  intros -> L. destruct (Nat.eqb_spec j k) as [->|N].
  - rewrite nth_error_set_nth_eq by auto. reflexivity.
  - rewrite nth_error_set_nth_neq by auto. reflexivity.
Qed.

(* the event part: after do_set the programs are unchanged and jok is kept *)
Lemma PInv_set progs s js sp :
  (forall j x, nth_error js j = Some x -> jok (Z.even (w s)) x) ->
  (joined s <> [] -> True) ->
  (forall j, (count_occ Nat.eq_dec (joined s) j +
              ndone (match nth_error js j with Some x => jprog x | None => [] end)
              = ndone (nth j progs []))%nat) ->
  PInv progs (fst (do_set s js sp)).
Proof.
  intros A _ B. unfold do_set. constructor; simpl; auto.
  - intros j y H. destruct (wake_nth _ _ _ _ H) as (x & E & [->|(_ & _ & ->)]);
      [eauto | apply jok_woke; eauto].
  - intros j. unfold prog_of; simpl. rewrite <- (B j). f_equal. f_equal.
    destruct (nth_error (fold_left wake1 (waiters s) js) j) as [y|] eqn:E.
    + destruct (wake_prog _ _ _ _ E) as (x & -> & ->). reflexivity.
    + destruct (nth_error js j) as [x|] eqn:E'; auto.
      apply nth_error_None in E. rewrite wake_length in E.
      apply nth_error_None in E. congruence.
Qed.

Lemma step_sp_pinv progs i s s' evs :
  PInv progs s -> step_sp i s = Some (s', evs) -> PInv progs s'.
Proof.
  intros [A B C] H. unfold step_sp in H.
  destruct (nth_error (sps s) i) as [[pl pc]|] eqn:E; [|discriminate].
  assert (Keep : forall v p, Z.even v = Z.even (w s) -> PInv progs (upd_sp s v i pl p)).
  { intros v p Hv. constructor; simpl; auto. rewrite Hv. auto. }
  destruct pc; try (inversion H; subst; apply Keep; reflexivity).
  - destruct (w s =? o) eqn:Q; inversion H; subst; apply Keep; auto.
    apply Z.eqb_eq in Q. rewrite <- Q. replace (w s + 2) with (w s + 2 * 1) by lia.
    apply Z.even_add_mul_2.
  - inversion H; subst; apply Keep. replace (w s - 2) with (w s + 2 * (-1)) by lia.
    apply Z.even_add_mul_2.
  - inversion H; subst.
    change (PInv progs (fst (do_set s (jns s) (set_nth i (pl, SFin true) (sps s))))).
    apply PInv_set; auto.
Qed.

Lemma count_occ_cons_neq j k l : j <> k -> count_occ Nat.eq_dec (j :: l) k = count_occ Nat.eq_dec l k.
Proof. intros N. simpl. destruct (Nat.eq_dec j k); congruence. Qed.

Ltac jok_tac :=
  split; [simpl in *; auto
         | split; [simpl; try discriminate; auto
                  | unfold blockedb; simpl; rewrite ?orb_false_r, ?orb_true_r in *; simpl in *; auto]].

Lemma step_jn_pinv progs j s s' evs :
  Inv s -> PInv progs s -> step_jn j s = Some (s', evs) -> PInv progs s'.
Proof.
  intros V [A B C] H. unfold step_jn in H.
  destruct (nth_error (jns s) j) as [x|] eqn:E; [|discriminate].
  assert (Lj : (j < length (jns s))%nat) by (eapply nth_error_lt; eauto).
  destruct (A j x E) as (A1 & A2 & A3).
  assert (Cj : prog_of s j = jprog x) by (unfold prog_of; rewrite E; auto).
  (* generic: joiner j replaced by x', everything else of the PInv-relevant state kept *)
  assert (Upd : forall s1 x',
            jns s1 = set_nth j x' (jns s) -> joined s1 = joined s ->
            (Z.even (w s) = true -> Z.even (w s1) = true) -> (evt s = true -> evt s1 = true) ->
            jok (Z.even (w s1)) x' -> ndone (jprog x') = ndone (jprog x) -> PInv progs s1).
  { intros s1 x' Hj Hjd Hw He Jx' Hn. constructor.
    - intros k y Hy. rewrite Hj in Hy. apply nth_error_set_nth in Hy.
      destruct Hy as [(_ & -> & _)|(_ & Hy)]; auto.
      eapply jok_cl; [exact Hw|]. eauto.
    - rewrite Hjd. auto.
    - intros k. rewrite Hjd. unfold prog_of. rewrite (prog_of_set_nth s j x' k _ Hj Lj).
      destruct (Nat.eqb_spec j k) as [<-|N]; auto. rewrite Hn, <- Cj. auto. }
  destruct (jmode_ x) eqn:M.
  - destruct (jprog x) as [|op r] eqn:P; [discriminate|].
    assert (Bx : blockedb x = false) by (unfold blockedb; rewrite M; auto).
    rewrite Bx, orb_false_r in A3.
    destruct op.
    + (* JClose *)
      inversion H; subst s' evs; clear H.
      eapply Upd; simpl; eauto.
      * intros _. rewrite <- Z.negb_odd, <- Z.bit0_odd, Z.land_spec.
        change (Z.testbit (-2) 0) with false. rewrite andb_false_r. reflexivity.
      * assert (Ev : Z.even (Z.land (w s) (-2)) = true).
        { rewrite <- Z.negb_odd, <- Z.bit0_odd, Z.land_spec.
          change (Z.testbit (-2) 0) with false. rewrite andb_false_r. reflexivity. }
        rewrite Ev. split; [simpl in A1 |- *; auto | split; [auto|]].
        unfold blockedb; simpl. destruct (_ && _); simpl; rewrite orb_false_r; simpl in A3; auto.
    + (* JStop *)
      inversion H; subst s' evs; clear H.
      eapply Upd; simpl; eauto. jok_tac.
    + (* JWait *)
      simpl in A1, A3. apply andb_prop in A1. destruct A1 as [Cl A1].
      destruct (evt s) eqn:Ee; inversion H; subst s' evs; clear H.
      * eapply Upd; simpl; eauto. jok_tac.
      * eapply Upd; simpl; eauto. jok_tac.
    + (* JSync *)
      inversion H; subst s' evs; clear H.
      eapply Upd; simpl; eauto. jok_tac.
    + (* JDone *)
      inversion H; subst s' evs; clear H. simpl in A3. apply andb_prop in A3.
      destruct A3 as [Wx A3].
      constructor; simpl.
      * intros k y Hy. apply nth_error_set_nth in Hy.
        destruct Hy as [(_ & -> & _)|(_ & Hy)]; eauto.
        jok_tac.
      * intros _. eapply (I_g s V); eauto.
      * intros k. unfold prog_of; simpl.
        rewrite (prog_of_set_nth s j _ k _ eq_refl Lj).
        destruct (Nat.eqb_spec j k) as [<-|N].
        -- destruct (Nat.eq_dec j j); [|congruence]. simpl. rewrite <- (C j), Cj. simpl. lia.
        -- destruct (Nat.eq_dec j k); [congruence|]. apply C.
  - (* JPend *)
    inversion H; subst s' evs; clear H.
    set (x' := {| jprog := jprog x; jmode_ := JReady; jwaited := jwaited x |}).
    change (PInv progs (fst (do_set s (set_nth j x' (jns s)) (sps s)))).
    apply PInv_set; auto.
    + intros k y Hy. apply nth_error_set_nth in Hy.
      destruct Hy as [(_ & -> & _)|(_ & Hy)]; eauto.
      unfold blockedb in A3. rewrite M in A3. jok_tac.
    + intros k. rewrite (prog_of_set_nth s j x' k _ eq_refl Lj).
      destruct (Nat.eqb_spec j k) as [<-|N]; auto. simpl. rewrite <- Cj. auto.
  - discriminate.
Qed.

Theorem pinv_reachable b plans progs sched :
  Forall wf_prog progs -> PInv progs (fst (run step sched (init b plans progs, []))).
Proof.
  intros F.
  apply (run_invariant_state st nat ev step (fun s => Inv s /\ PInv progs s)).
  - intros s t s' evs [I P] H. split; [eapply step_inv; eauto|].
    unfold step in H. destruct (Nat.ltb t (nsp s)).
    + eapply step_sp_pinv; eauto.
    + eapply step_jn_pinv; eauto.
  - split; [apply Inv_init | apply PInv_init; auto].
Qed.

(* ------------------------------------------------------------------------------------------ *)
(* no join completes before the scope is closed and all admitted work has finished *)
Theorem join_after_work b plans progs sched :
  Forall wf_prog progs ->
  let s := fst (run step sched (init b plans progs, [])) in
  joined s <> [] ->
  evt s = true /\ w s = 0 /\
  forall i pl pc, nth_error (sps s) i = Some (pl, pc) -> holds pc = false.
Proof.
  intros F s J. pose proof (pinv_reachable b plans progs sched F) as P. fold s in P.
  assert (E : evt s = true) by (apply (P_joined progs s P J)).
  split; auto. apply join_safe. auto.
Qed.

(* each join completes at most once; with one JDone per program: exactly the JDone's executed *)
Theorem join_count b plans progs sched :
  Forall wf_prog progs ->
  let s := fst (run step sched (init b plans progs, [])) in
  forall j, (count_occ Nat.eq_dec (joined s) j + ndone (prog_of s j) = ndone (nth j progs []))%nat.
Proof.
  intros F s. pose proof (pinv_reachable b plans progs sched F) as P. apply (P_count progs _ P).
Qed.

Theorem join_once b plans progs sched :
  Forall wf_prog progs -> (forall p, In p progs -> (ndone p <= 1)%nat) ->
  let s := fst (run step sched (init b plans progs, [])) in
  NoDup (joined s).
Proof.
  intros F D s. apply (NoDup_count_occ Nat.eq_dec). intros j.
  pose proof (join_count b plans progs sched F j) as C. fold s in C.
  assert ((ndone (nth j progs []) <= 1)%nat).
  { destruct (nth_in_or_default j progs []) as [I| ->]; [auto | simpl; lia]. }
  lia.
Qed.

(* ------------------------------------------------------------------------------------------ *)
(* no deadlock: if no thread can move, every reference is finished and every closer/joiner has
   run its whole program (in particular every started join has completed) *)
Lemma step_sp_none i s pl pc :
  nth_error (sps s) i = Some (pl, pc) -> step_sp i s = None -> exists a, pc = SFin a.
Proof.
  intros E H. unfold step_sp in H. rewrite E in H.
  destruct pc; try discriminate; eauto.
  - destruct (w s =? o); discriminate.
Qed.

Lemma step_jn_none j s x :
  nth_error (jns s) j = Some x -> step_jn j s = None ->
  jmode_ x = JBlocked \/ (jmode_ x = JReady /\ jprog x = []).
Proof.
  intros E H. unfold step_jn in H. rewrite E in H.
  destruct (jmode_ x); auto; try discriminate.
  destruct (jprog x) as [|op r]; auto.
  destruct op; try discriminate. destruct (evt s); discriminate.
Qed.

Theorem no_deadlock b plans progs sched :
  Forall wf_prog progs ->
  let s := fst (run step sched (init b plans progs, [])) in
  (forall t, step t s = None) -> quiescent s = true.
Proof.
  intros F s Hn. pose proof (pinv_reachable b plans progs sched F) as P. fold s in P.
  pose proof (inv_reachable b plans progs sched) as V. fold s in V.
  assert (SP : forall i p, nth_error (sps s) i = Some p -> exists a, snd p = SFin a).
  { intros i [pl pc] E. specialize (Hn i). unfold step in Hn.
    assert (L : (i < nsp s)%nat) by (eapply nth_error_lt; eauto).
    apply Nat.ltb_lt in L. rewrite L in Hn. simpl. eapply step_sp_none; eauto. }
  assert (JN : forall j x, nth_error (jns s) j = Some x ->
                 jmode_ x = JBlocked \/ (jmode_ x = JReady /\ jprog x = [])).
  { intros j x E. specialize (Hn (nsp s + j)%nat). unfold step in Hn.
    assert (L : Nat.ltb (nsp s + j) (nsp s) = false) by (apply Nat.ltb_ge; lia).
    rewrite L in Hn. replace (nsp s + j - nsp s)%nat with j in Hn by lia.
    eapply step_jn_none; eauto. }
  assert (H0 : holders s = O).
  { apply sumf_all_zero. intros i p E. destruct (SP i p E) as (a & Q). unfold holdn. rewrite Q. auto. }
  assert (P0 : pending s = O).
  { unfold pending.
    rewrite (sumf_all_zero setn (sps s)), (sumf_all_zero pendn (jns s)); auto.
    - intros j x E. unfold pendn. destruct (JN j x E) as [M|(M & _)]; rewrite M; auto.
    - intros i p E. destruct (SP i p E) as (a & Q). unfold setn, sp_setting. rewrite Q. auto. }
  assert (NB : forall j x, nth_error (jns s) j = Some x -> jmode_ x <> JBlocked).
  { intros j x E M.
    destruct (P_ok progs s P j x E) as (_ & Cl & _). specialize (Cl M).
    pose proof (I_cnt s V) as C. rewrite H0 in C. unfold wopen in C.
    rewrite <- Z.negb_even, Cl in C. simpl in C.
    assert (Ev : evt s = true) by (destruct (I_live s V C); [auto|lia]).
    pose proof (I_w4 s V Ev) as W. pose proof (I_w2 s V j x E M) as I. rewrite W in I. exact I. }
  unfold quiescent. apply andb_true_intro. split; apply forallb_forall.
  - intros p I. apply In_nth_error in I. destruct I as (i & E).
    destruct (SP i p E) as (a & Q). unfold sp_fin. rewrite Q. auto.
  - intros x I. apply In_nth_error in I. destruct I as (j & E).
    destruct (JN j x E) as [M|(M & Q)]; [exfalso; eapply NB; eauto|].
    unfold jn_fin. rewrite M, Q. auto.
Qed.

(* at quiescence every join instruction has been executed: each started join completed, once *)
Theorem quiescent_joined b plans progs sched :
  Forall wf_prog progs ->
  let s := fst (run step sched (init b plans progs, [])) in
  quiescent s = true ->
  forall j, count_occ Nat.eq_dec (joined s) j = ndone (nth j progs []).
Proof.
  intros F s Q j. pose proof (join_count b plans progs sched F j) as C. fold s in C.
  assert (ndone (prog_of s j) = O); [|lia].
  unfold prog_of. destruct (nth_error (jns s) j) as [x|] eqn:E; auto.
  unfold quiescent in Q. apply andb_prop in Q. destruct Q as [_ Q].
  rewrite forallb_forall in Q. specialize (Q x (nth_error_In _ _ E)).
  unfold jn_fin in Q. destruct (jmode_ x); try discriminate.
  destruct (jprog x); [reflexivity|discriminate].
Qed.

(* ------------------------------------------------------------------------------------------ *)
(* at most one evt_.set() call is ever made (strict end_scope, or at most one close in total):
   so once the event is set nobody is about to touch the scope again *)
Definition RInv (s : st) : Prop :=
  (pending s + b2n (evt s) <= 1)%nat /\
  (strict s = true \/ (closes_left s + b2n (Z.even (w s)) <= 1)%nat).

Lemma inv_nonzero s : Inv s -> w s <> 0 -> pending s = O /\ evt s = false.
Proof.
  intros V N. split.
  - destruct (pending s) eqn:P; auto. exfalso. apply N. apply (I_safe s V). left. lia.
  - destruct (evt s) eqn:E; auto. exfalso. apply N. apply (I_safe s V). auto.
Qed.

Lemma even_shift2 v : Z.even (v - 2) = Z.even v /\ Z.even (v + 2) = Z.even v.
Proof. destruct (odd_shift2 v) as [A B]. rewrite <- !Z.negb_odd, A, B. auto. Qed.

Lemma rinv_set s js sp :
  RInv s -> (sumf setn sp + sumf pendn js + 1 = pending s)%nat -> sumf closen js = closes_left s ->
  RInv (fst (do_set s js sp)).
Proof.
  intros [R1 R2] HP HC. unfold RInv, do_set, pending, closes_left; simpl.
  rewrite (wake_sum pendn) by (intros x M; unfold pendn; simpl; rewrite M; reflexivity).
  rewrite (wake_sum closen) by (intros; reflexivity).
  split.
  - destruct (evt s); simpl in *; lia.
  - rewrite HC. exact R2.
Qed.

Lemma step_sp_rinv i s s' evs : Inv s -> RInv s -> step_sp i s = Some (s', evs) -> RInv s'.
Proof.
  intros V [R1 R2] H. unfold step_sp in H.
  destruct (nth_error (sps s) i) as [[pl pc]|] eqn:E; [|discriminate].
  assert (Keep : forall v p p0, nth_error (sps s) i = Some (pl, p0) ->
            sp_setting (pl, p) = sp_setting (pl, p0) -> Z.even v = Z.even (w s) ->
            RInv (upd_sp s v i pl p)).
  { intros v p p0 E0 Hs Hv. unfold RInv, pending, closes_left; simpl.
    pose proof (sum_set_upd s i pl p0 p E0) as Q. rewrite Hs in Q. rewrite Hv.
    unfold pending, closes_left in *. split; [lia|exact R2]. }
  destruct pc.
  - inversion H; subst. eapply Keep; eauto. destruct (closed_word (w s)), pl; reflexivity.
  - destruct (w s =? o) eqn:Q; inversion H; subst.
    + eapply Keep; eauto. destruct pl; reflexivity.
      apply Z.eqb_eq in Q. rewrite <- Q. apply even_shift2.
    + eapply Keep; eauto. destruct (closed_word (w s)), pl; reflexivity.
  - inversion H; subst. eapply Keep; eauto.
  - inversion H; subst. eapply Keep; eauto.
  - inversion H; subst. eapply Keep; eauto.
  - inversion H; subst.
    destruct (closed_word (w s) && (count_of (w s) =? 1)) eqn:Cd.
    + apply andb_prop in Cd. destruct Cd as [Cw Cn]. apply Z.eqb_eq in Cn.
      assert (W2 : w s = 2).
      { pose proof (I_cnt s V) as C. unfold closed_word in Cw.
        assert (Wo : wopen s = 0) by (unfold wopen; rewrite <- Z.negb_even, Cw; reflexivity).
        assert (Cn' : count_of (w s) = Z.of_nat (holders s)).
        { rewrite C at 1. rewrite Wo. apply word_count. auto. }
        lia. }
      destruct (inv_nonzero s V ltac:(lia)) as [P0 E0].
      unfold RInv, pending, closes_left; simpl.
      pose proof (sum_set_upd s i pl SSub SSet E) as Q. simpl in Q.
      destruct (even_shift2 (w s)) as [-> _]. rewrite E0. unfold pending, closes_left in *.
      split; [simpl; lia | exact R2].
    + eapply Keep; eauto. apply even_shift2.
  - inversion H; subst.
    change (RInv (fst (do_set s (jns s) (set_nth i (pl, SFin true) (sps s))))).
    pose proof (sum_set_upd s i pl SSet (SFin true) E) as Q. simpl in Q.
    apply rinv_set; [split; auto| unfold pending; lia | reflexivity].
  - discriminate.
Qed.

Lemma sum_close_upd s j x x' :
  nth_error (jns s) j = Some x ->
  (sumf closen (set_nth j x' (jns s)) + closen x = closes_left s + closen x')%nat.
Proof. intros E. exact (sumf_set_nth closen j x x' _ E). Qed.

Lemma step_jn_rinv j s s' evs : Inv s -> RInv s -> step_jn j s = Some (s', evs) -> RInv s'.
Proof.
  intros V [R1 R2] H. unfold step_jn in H.
  destruct (nth_error (jns s) j) as [x|] eqn:E; [|discriminate].
  (* generic: joiner j replaced, w / evt / sps / strict kept, not becoming a setter *)
  assert (Upd : forall s1 x', jns s1 = set_nth j x' (jns s) -> sps s1 = sps s -> w s1 = w s ->
            evt s1 = evt s -> strict s1 = strict s -> pendn x' = pendn x -> closen x' = closen x ->
            RInv s1).
  { intros s1 x' Hj Hs Hw He Hst Hp Hc. unfold RInv, pending, closes_left.
    rewrite Hj, Hs, Hw, He, Hst.
    pose proof (sum_pend_upd s j x x' E) as Q1. pose proof (sum_close_upd s j x x' E) as Q2.
    unfold pending, closes_left in *. split; [lia|]. destruct R2; [auto|right; lia]. }
  destruct (jmode_ x) eqn:M.
  - destruct (jprog x) as [|op r] eqn:P; [discriminate|].
    assert (PX : pendn x = O) by (unfold pendn; rewrite M; auto).
    destruct op.
    + (* JClose *)
      inversion H; subst s' evs; clear H.
      set (sets := (count_of (w s) =? 0) && (if strict s then negb (closed_word (w s)) else true)).
      set (x' := {| jprog := r; jmode_ := if sets then JPend else JReady; jwaited := jwaited x |}).
      pose proof (sum_pend_upd s j x x' E) as Q1. pose proof (sum_close_upd s j x x' E) as Q2.
      assert (CX : closen x = S (closen x')) by (unfold closen, x'; rewrite P; reflexivity).
      assert (PX' : pendn x' = b2n sets) by (unfold pendn, x'; simpl; destruct sets; auto).
      assert (Ev : Z.even (Z.land (w s) (-2)) = true).
      { rewrite <- Z.negb_odd, <- Z.bit0_odd, Z.land_spec.
        change (Z.testbit (-2) 0) with false. rewrite andb_false_r. reflexivity. }
      unfold RInv, pending, closes_left; cbn [w sps jns evt strict]; fold x'. rewrite Ev.
      unfold pending, closes_left in *. split.
      * destruct sets eqn:SS; [|simpl in *; lia].
        assert (Od : Z.odd (w s) = true).
        { unfold sets in SS. apply andb_prop in SS. destruct SS as [_ SS].
          destruct R2 as [St|R2].
          - rewrite St in SS. unfold closed_word in SS. rewrite <- Z.negb_even. exact SS.
          - rewrite <- Z.negb_even. destruct (Z.even (w s)); auto. simpl in R2. lia. }
        assert (N0 : w s <> 0) by (intros Z0; rewrite Z0 in Od; discriminate).
        destruct (inv_nonzero s V N0) as [P0 E0]. unfold pending in P0. rewrite E0. simpl in *. lia.
      * destruct R2 as [St|R2]; [left; auto|right].
        destruct (Z.even (w s)); simpl in *; lia.
    + inversion H; subst s' evs; clear H. eapply Upd; simpl; eauto.
      unfold closen; simpl. rewrite P. reflexivity.
    + destruct (evt s) eqn:Ee; inversion H; subst s' evs; clear H.
      * eapply Upd; simpl; eauto. unfold closen; simpl. rewrite P. reflexivity.
      * eapply Upd; simpl; eauto. unfold closen; simpl. rewrite P. reflexivity.
    + inversion H; subst s' evs; clear H. eapply Upd; simpl; eauto.
      unfold closen; simpl. rewrite P. reflexivity.
    + inversion H; subst s' evs; clear H. eapply Upd; simpl; eauto.
      unfold closen; simpl. rewrite P. reflexivity.
  - inversion H; subst s' evs; clear H.
    set (x' := {| jprog := jprog x; jmode_ := JReady; jwaited := jwaited x |}).
    change (RInv (fst (do_set s (set_nth j x' (jns s)) (sps s)))).
    pose proof (sum_pend_upd s j x x' E) as Q1. pose proof (sum_close_upd s j x x' E) as Q2.
    assert (PX : pendn x = 1%nat) by (unfold pendn; rewrite M; auto).
    assert (PX' : pendn x' = O) by reflexivity.
    assert (CX : closen x' = closen x) by reflexivity.
    apply rinv_set; [split; auto | unfold pending; lia | lia].
  - discriminate.
Qed.

Lemma RInv_init b plans progs :
  b = true \/ (sumf nclose progs <= 1)%nat -> RInv (init b plans progs).
Proof.
  intros H.
  assert (A : closes_left (init b plans progs) = sumf nclose progs).
  { unfold closes_left; simpl. rewrite sumf_map. reflexivity. }
  assert (B : pending (init b plans progs) = O).
  { unfold pending; simpl. rewrite !sumf_map. unfold setn, pendn; simpl. rewrite !sumf_const0. reflexivity. }
  unfold RInv. rewrite A, B. simpl. split; [lia|].
  destruct H; [left; auto|right; lia].
Qed.

Theorem rinv_reachable b plans progs sched :
  b = true \/ (sumf nclose progs <= 1)%nat ->
  RInv (fst (run step sched (init b plans progs, []))).
Proof.
  intros F.
  apply (run_invariant_state st nat ev step (fun s => Inv s /\ RInv s)).
  - intros s t s' evs [I P] H. split; [eapply step_inv; eauto|].
    unfold step in H. destruct (Nat.ltb t (nsp s)).
    + eapply step_sp_rinv; eauto.
    + eapply step_jn_rinv; eauto.
  - split; [apply Inv_init | apply RInv_init; auto].
Qed.

(* once the event is set (a fortiori once any join has completed) no thread is between its
   RMW on opState_ and an evt_.set(): nothing will touch the scope's memory again, the owner may
   destroy it as soon as its closers/joiners have returned *)
Theorem release_safe b plans progs sched :
  b = true \/ (sumf nclose progs <= 1)%nat ->
  let s := fst (run step sched (init b plans progs, [])) in
  evt s = true ->
  pending s = O /\ someone_setting s = false /\
  (forall j x, nth_error (jns s) j = Some x -> jmode_ x <> JPend).
Proof.
  intros F s Ev. destruct (rinv_reachable b plans progs sched F) as [R1 _]. fold s in R1.
  rewrite Ev in R1. simpl in R1. assert (P0 : pending s = O) by lia.
  destruct (pending_zero s P0) as [A B]. repeat split; auto.
  unfold someone_setting. destruct (existsb sp_setting (sps s)) eqn:X; auto.
  apply existsb_exists in X. destruct X as (p & I & Q). apply In_nth_error in I.
  destruct I as (i & E). rewrite (A i p E) in Q. discriminate.
Qed.

Theorem release_safe_joined b plans progs sched :
  Forall wf_prog progs -> b = true \/ (sumf nclose progs <= 1)%nat ->
  let s := fst (run step sched (init b plans progs, [])) in
  joined s <> [] -> someone_setting s = false /\
  (forall j x, nth_error (jns s) j = Some x -> jmode_ x <> JPend).
Proof.
  intros W F s J. destruct (join_after_work b plans progs sched W J) as (Ev & _).
  destruct (release_safe b plans progs sched F Ev) as (_ & A & B). auto.
Qed.

(* ------------------------------------------------------------------------------------------ *)
(* the nested work of a reference is started only after that reference was admitted; a rejected
   reference never starts its work *)
Definition started (p : spc) : bool :=
  match p with SRunning | SSub | SSet | SFin true => true | _ => false end.

Definition TInv (c : conf st ev) : Prop :=
  forall i, In (ENestStart i) (snd c) ->
    exists pl pc, nth_error (sps (fst c)) i = Some (pl, pc) /\ started pc = true.

Lemma no_start_in_set i ws : ~ In (ENestStart i) (ESet :: map EResume ws).
Proof.
  intros [H|H]; [discriminate|]. apply in_map_iff in H. destruct H as (? & ? & _). discriminate.
Qed.

Lemma step_started t s s' evs :
  step t s = Some (s', evs) ->
  (forall i, In (ENestStart i) evs ->
     exists pl pc, nth_error (sps s') i = Some (pl, pc) /\ started pc = true) /\
  (forall i pl pc, nth_error (sps s) i = Some (pl, pc) -> started pc = true ->
     exists pc', nth_error (sps s') i = Some (pl, pc') /\ started pc' = true).
Proof.
  intros H. unfold step in H. destruct (Nat.ltb t (nsp s)) eqn:Lt.
  - apply Nat.ltb_lt in Lt. unfold step_sp in H.
    destruct (nth_error (sps s) t) as [[pl pc]|] eqn:E; [|discriminate].
    assert (Gen : forall v p evs0, (started pc = true -> started p = true) ->
              (forall i, In (ENestStart i) evs0 -> i = t /\ started p = true) ->
              (forall i, In (ENestStart i) evs0 ->
                 exists pl0 pc0, nth_error (sps (upd_sp s v t pl p)) i = Some (pl0, pc0) /\ started pc0 = true) /\
              (forall i pl0 pc0, nth_error (sps s) i = Some (pl0, pc0) -> started pc0 = true ->
                 exists pc', nth_error (sps (upd_sp s v t pl p)) i = Some (pl0, pc') /\ started pc' = true)).
    { intros v p evs0 Hm He. split.
      - intros i I. destruct (He i I) as (-> & S). exists pl, p. simpl.
        rewrite nth_error_set_nth_eq by exact Lt. auto.
      - intros i pl0 pc0 E0 S0. simpl. destruct (Nat.eq_dec t i) as [<-|N].
        + rewrite E in E0. inversion E0; subst. exists p.
          rewrite nth_error_set_nth_eq by exact Lt. auto.
        + exists pc0. rewrite nth_error_set_nth_neq by exact N. auto. }
    destruct pc; try discriminate.
    + inversion H; subst. apply Gen; [discriminate|]. intros i [I|[]]; discriminate.
    + destruct (w s =? o); inversion H; subst; (apply Gen; [discriminate|]);
        intros i [I|[]]; discriminate.
    + inversion H; subst. apply Gen; [discriminate|]. intros i [I|[]]; discriminate.
    + inversion H; subst. apply Gen; [auto|]. intros i [I|[]]. inversion I; auto.
    + inversion H; subst. apply Gen; [auto|]. intros i [I|[]]; discriminate.
    + inversion H; subst. apply Gen; [destruct (_ && _); auto|]. intros i [I|[]]; discriminate.
    + inversion H; subst. unfold do_set; simpl. split.
      * intros i I. exfalso. eapply no_start_in_set; eauto.
      * intros i pl0 pc0 E0 S0. destruct (Nat.eq_dec t i) as [<-|N].
        -- rewrite E in E0. inversion E0; subst. exists (SFin true).
           rewrite nth_error_set_nth_eq by exact Lt. auto.
        -- exists pc0. rewrite nth_error_set_nth_neq by exact N. auto.
  - unfold step_jn in H. destruct (nth_error (jns s) (t - nsp s)) as [x|]; [|discriminate].
    assert (Same : forall s1 evs0, sps s1 = sps s -> (forall i, ~ In (ENestStart i) evs0) ->
              (forall i, In (ENestStart i) evs0 ->
                 exists pl pc, nth_error (sps s1) i = Some (pl, pc) /\ started pc = true) /\
              (forall i pl pc, nth_error (sps s) i = Some (pl, pc) -> started pc = true ->
                 exists pc', nth_error (sps s1) i = Some (pl, pc') /\ started pc' = true)).
    { intros s1 evs0 Hs Hn. split.
      - intros i I. exfalso. eapply Hn; eauto.
      - intros i pl pc E0 S0. rewrite Hs. eauto. }
    destruct (jmode_ x); [| |discriminate].
    + destruct (jprog x) as [|op r]; [discriminate|].
      destruct op; try (inversion H; subst; apply Same; [reflexivity|];
                        intros i [I|[]]; discriminate).
      destruct (evt s); inversion H; subst; apply Same; try reflexivity.
      * intros i [I|[I|[]]]; discriminate.
      * intros i [I|[]]; discriminate.
    + inversion H; subst. apply Same; [reflexivity|]. intros i. apply no_start_in_set.
Qed.

Theorem start_only_admitted b plans progs sched :
  let c := run step sched (init b plans progs, []) in
  forall i, In (ENestStart i) (snd c) ->
    exists pl pc, nth_error (sps (fst c)) i = Some (pl, pc) /\ started pc = true.
Proof.
  apply (run_invariant st nat ev step TInv).
  - intros c t s' evs T H i I. simpl in *. destruct (step_started _ _ _ _ H) as [A B].
    apply in_app_or in I. destruct I as [I|I]; [|eauto].
    destruct (T i I) as (pl & pc & E & S). destruct (B i pl pc E S) as (pc' & E' & S'). eauto.
  - intros i [].
Qed.

Corollary rejected_never_starts b plans progs sched i pl pc :
  let c := run step sched (init b plans progs, []) in
  nth_error (sps (fst c)) i = Some (pl, pc) -> pc = SRejected \/ pc = SFin false ->
  ~ In (ENestStart i) (snd c).
Proof.
  intros c E Hp I. destruct (start_only_admitted b plans progs sched i I) as (pl' & pc' & E' & S).
  fold c in E'. rewrite E in E'. inversion E'; subst. destruct Hp as [->| ->]; discriminate.
Qed.

(* ------------------------------------------------------------------------------------------ *)
(* the end_scope the code had before the fix (strict = false: set the event whenever count = 0 was
   read, also by a second close): a join can complete, and every closer/joiner can have returned,
   while a completing reference is still about to call evt_.set() on the scope *)
Definition hazard (s : st) : Prop :=
  joins_over s = true /\ joined s <> [] /\ someone_setting s = true.

(* v1 cleanup() = request_stop() + join(): one thread, one spawned operation *)
Theorem release_as_written_refuted_cleanup :
  exists sched, hazard (fst (run step sched (init false [PDetach] [prog_v1_cleanup], []))).
Proof.
  exists [0;0;0;0; 1;1; 0; 1;1;1;1]%nat. unfold hazard. vm_compute.
  repeat split; congruence.
Qed.

(* two racing v2 join()s *)
Theorem release_as_written_refuted_two_joins :
  exists sched, hazard (fst (run step sched (init false [PStart] [prog_join; prog_join], []))).
Proof.
  exists [0;0;0;0; 1; 0; 2;2;2;2; 1;1]%nat. unfold hazard. vm_compute.
  repeat split; congruence.
Qed.

(* the standard programs are well formed *)
Lemma std_progs_wf :
  wf_prog prog_join /\ wf_prog prog_v1_cleanup /\ wf_prog prog_request_stop /\
  wf_prog prog_v0_complete /\ wf_prog prog_v0_cleanup.
Proof. unfold wf_prog. vm_compute. intuition. Qed.
