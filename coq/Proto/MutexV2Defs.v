(* E1 model MutexV2: v2::async_mutex with cancellable waiters
     include/unifex/v2/async_mutex.hpp      (try_lock, _op::type::{start, stop, resume_, forward_set_value})
     source/async_mutex_v2.cpp              (process_queue, unlock)
     include/unifex/cancellable.hpp         (_op::type::start, stop_type::start, stop_callback, try_complete)
     include/unifex/detail/completion_forwarder.hpp  (the scheduler hop before the receiver is completed)
     source/inplace_stop_token.cpp          (request_stop, try_add_callback, remove_callback: lock granularity)
   Shared state of the mutex: locked_ and queue_.  The waiter list is ABSTRACT: pop_front,
   try_remove and empty are atomic; push_back is two steps (claim the tail, publish the item),
   because empty() reads head_ without the link lock and does not see an item whose push into the
   empty list is still in flight, nor the items already pushed behind it (atomic_intrusive_list.cpp
   push_back_impl: the predecessor link stays locked between sentinel_.self.store and unlock).
   pop_front / try_remove wait for an in-flight push that holds a link they need.
   Every locker i has its own inplace_stop_source src i (one callback: the cancellable's) and
   optionally a stop requester thread.  The receiver's scheduler is the inline scheduler: the hop of
   completion_forwarder is `get_stop_token(receiver).stop_requested() ? set_done : set_value`.
   Parameter fixed = true models the repaired forwarder (its receiver answers get_stop_token with
   unstoppable_token: no load, forward_set_value is called directly).
   Thread ids: 0..nl-1 lockers, nl..2nl-1 stop requesters (nl+i stops locker i), 2nl.. try_lock threads.
   The completion of a lock operation only sets a flag; the critical section and unlock() run on
   the locker's own thread (AWaitGot).
   Executable definitions only. *)
From Coq Require Import List Bool Arith.
Import ListNotations.

Module MutexV2.

Inductive outcome := OValue | ODone.

(* who calls try_complete(k) *)
Inductive ctx :=
| CLock     (* start(): after mutex_.try_lock() succeeded            [v2/async_mutex.hpp:157-162] *)
| CResume   (* resume_: after process_queue popped k                  [v2/async_mutex.hpp:95-105] *)
| CEarly    (* stop() with started_ = false (StopsEarly)             [v2/async_mutex.hpp:180-187] *)
| CStop.    (* stop() after queue_.try_remove(this) succeeded        [v2/async_mutex.hpp:188-194] *)

Inductive cbst :=
| CbNone     (* stop callback not constructed yet *)
| CbInline   (* try_add_callback failed: executed inline, source_ = nullptr *)
| CbLinked   (* in the source's callback list *)
| CbPopped   (* taken off the list by request_stop (executing or executed) *)
| CbGone.    (* removed from the list by remove_callback *)

Inductive act :=
(* cancellable type::start on the locker's thread                   [cancellable.hpp:198-214] *)
| AReg (i : nat)        (* try_add_callback: try_lock_unless_stop_requested(false)  [inplace_stop_token.cpp:124-140, 98-122] *)
| ARegRel (i : nat)     (* unlock(0) *)
| AEarly (i : nat)      (* StopsEarly: state_.load(acquire) & stopped *)
(* _op::type::start                                                 [v2/async_mutex.hpp:154-176] *)
| ATryLock (i : nat)    (* locked_.exchange(true, acquire) *)
| APush (i : nat)       (* queue_.push_back: lock the tail link, sentinel_.self := &item.rest *)
| APushPub (i : nat)    (* queue_.push_back: unlock the predecessor link with the item *)
| AXchg                 (* locked_.exchange(true, acq_rel) *)
(* process_queue                                                    [async_mutex_v2.cpp:21-45] *)
| APop                  (* queue_.pop_front(): lock head_ (and first.rest), first.self := nullptr *)
| APopPub (x : nat)     (* queue_.pop_front(): unlock(head_, rest) *)
| AUnlStore             (* locked_.store(false, release) *)
| AEmpty                (* queue_.empty() *)
| AReXchg               (* locked_.exchange(true, acq_rel) *)
(* try_complete(k) and the completion                               [cancellable.hpp:138-178] *)
| ATryComplete (k : nat) (c : ctx)   (* state_.fetch_or(completed, acq_rel) *)
| ASyncStore (k : nat) (c : ctx)     (* sync_complete_->store(true, release) *)
| ADeregAcq (k : nat) (c : ctx)      (* cleanup_: ~inplace_stop_callback: remove_callback: lock() [inplace_stop_token.cpp:142-172] *)
| ADeregRel (k : nat) (c : ctx) (wait : bool)   (* unlock(oldState) *)
| ADeregWait (k : nat) (c : ctx)     (* spin until callbackCompleted_.load(acquire) *)
| AHop (k : nat) (c : ctx)           (* inline scheduler: get_stop_token(receiver).stop_requested() [inline_scheduler.hpp:52-63] *)
(* stop_type::start after nested start returned                     [cancellable.hpp:80-108] *)
| ASyncLoad (i : nat)   (* sync_complete.load(acquire) *)
| AStartedOr (i : nat)  (* state_.fetch_or(started, acq_rel) *)
| ASyncSpin (i : nat)   (* while (!sync_complete.load(acquire)) *)
(* _op::type::stop with started_                                    [v2/async_mutex.hpp:188-195] *)
| ATryRemove (i : nat)  (* queue_.try_remove(this) *)
(* stop_callback::operator()                                        [cancellable.hpp:122-131] *)
| ACbOr (i : nat)       (* state_.fetch_or(stopped, acq_rel) *)
(* inplace_stop_source::request_stop on the requester's thread      [inplace_stop_token.cpp:39-76] *)
| SAcq (i : nat)        (* try_lock_unless_stop_requested(true) *)
| SRel (i : nat) (popped : bool)   (* state_.store(stop_requested_flag, release) *)
| SCbDone (i : nat)     (* callbackCompleted_.store(true, release) *)
| SAcq2 (i : nat)       (* lock() *)
| SRel2 (i : nat)       (* state_.store(stop_requested_flag, release) *)
(* harness level *)
| AWaitGot (i : nat)    (* locker waits for its receiver; then critical section, unlock() *)
| TTry (t : nat)        (* try_lock(): locked_.exchange(true, acquire) *)
| ARelease (t : nat)    (* a try_lock winner leaves its critical section, unlock() *)
| AFin.

(* what a thread does when the current call chain returns *)
Inductive cont :=
| KEnd                   (* thread body ends *)
| KTop (i : nat)         (* type::start returns to the locker's body: AWaitGot *)
| KAfterStart (i : nat)  (* nested start() returns into stop_type::start *)
| KInlineCb (i : nat)    (* inline-executed stop callback returns into type::start *)
| KStopper (i : nat).    (* callback->execute() returns into request_stop *)

Record op := {
  o_stopped : bool; o_started : bool; o_completed : bool;   (* cancellable state_: 1, 2, 4 *)
  o_sync : option bool;     (* sync_complete_: None = nullptr, Some b = points to a flag holding b *)
  o_cancelled : bool;       (* cancelled_ *)
  o_started_ : bool;        (* started_ of the mutex operation *)
  o_src_stop : bool;        (* src i state_ bit 0: stop requested *)
  o_src_locked : bool;      (* src i state_ bit 1: locked *)
  o_cb : cbst;
  o_cbdone : bool;          (* callbackCompleted_ *)
  o_rdc : bool;             (* removedDuringCallback (local of request_stop) *)
  o_res : list outcome;     (* completions delivered to the receiver, newest first *)
  o_released : bool         (* the receiver's continuation has started unlock() *)
}.

Record st := {
  fixed : bool;             (* completion_forwarder's receiver hides the stop token *)
  nl : nat;
  locked : bool;            (* locked_ *)
  queue : list nat;         (* queue_ in claim order *)
  ops : nat -> op;          (* per locker: cancellable state, stop source, receiver *)
  thr : list (act * cont)
}.

Inductive ev :=
| ESrcAcq (i old new : nat) (ar : bool)   (* successful lock CAS on src i: ar = acq_rel (try_lock_unless_stop_requested) / acquire (lock) *)
| ESrcObs (i v : nat)                     (* try_lock_unless_stop_requested saw the stop bit *)
| ESrcRel (i v : nat)                     (* state_.store(v, release) *)
| ESrcLd (i v : nat)                      (* stop_requested(): state_.load(acquire) *)
| ECsLd (i v : nat)                       (* cancellable state_.load(acquire) *)
| ECsOr (i old new : nat)                 (* cancellable state_.fetch_or(bit, acq_rel) *)
| ELockX (ar : bool) (old : bool)         (* locked_.exchange(true, ar ? acq_rel : acquire) *)
| ELockSt                                 (* locked_.store(false, release) *)
| EPushClaim (i : nat) | EPushPub (i : nat)
| EPopTake (x : nat)
| EPop (r : option nat)
| ERemove (i : nat) (ok : bool)
| EEmpty (b : bool)
| ESyncSt (i : nat)                       (* sync flag of thread i: store(true, release) *)
| ESyncLd (i : nat) (v : bool)            (* load(acquire) *)
| ECbDoneSt (i : nat) | ECbDoneLd (i : nat)
| EComplete (k : nat) (o : outcome) (c : ctx)   (* receiver k gets set_value / set_done *)
| ETryAcq (t : nat) | ETryFail (t : nat)
| ERelease (t : nat).

Definition b2n (b : bool) : nat := if b then 1 else 0.
Definition cs_val (o : op) : nat := b2n (o_stopped o) + 2 * b2n (o_started o) + 4 * b2n (o_completed o).
Definition src_val (o : op) : nat := b2n (o_src_stop o) + 2 * b2n (o_src_locked o).

Fixpoint set_nth {A} (n : nat) (x : A) (l : list A) : list A :=
  match l, n with
  | [], _ => []
  | _ :: r, O => x :: r
  | y :: r, S n' => y :: set_nth n' x r
  end.

Definition op0 : op :=
  {| o_stopped := false; o_started := false; o_completed := false; o_sync := None;
     o_cancelled := false; o_started_ := false; o_src_stop := false; o_src_locked := false;
     o_cb := CbNone; o_cbdone := false; o_rdc := false; o_res := []; o_released := false |}.

(* hasstop: per locker, whether a stop requester thread exists *)
Definition init (fx : bool) (hasstop : list bool) (ntry : nat) : st :=
  let n := length hasstop in
  {| fixed := fx; nl := n; locked := false; queue := [];
     ops := fun _ => op0;
     thr := map (fun i => (AReg i, KTop i)) (seq 0 n)
            ++ map (fun ib : nat * bool => (if snd ib then SAcq (fst ib) else AFin, KEnd)) (combine (seq 0 n) hasstop)
            ++ map (fun j => (TTry (2 * n + j), KEnd)) (seq 0 ntry) |}.

Definition set_ops (s : st) (l : nat -> op) : st :=
  {| fixed := fixed s; nl := nl s; locked := locked s; queue := queue s; ops := l; thr := thr s |}.
Definition set_thr (s : st) (t : nat) (a : act) (k : cont) : st :=
  {| fixed := fixed s; nl := nl s; locked := locked s; queue := queue s; ops := ops s;
     thr := set_nth t (a, k) (thr s) |}.
Definition set_locked (s : st) (b : bool) : st :=
  {| fixed := fixed s; nl := nl s; locked := b; queue := queue s; ops := ops s; thr := thr s |}.
Definition set_queue (s : st) (q : list nat) : st :=
  {| fixed := fixed s; nl := nl s; locked := locked s; queue := q; ops := ops s; thr := thr s |}.
Definition upd_op (s : st) (k : nat) (f : op -> op) : st :=
  set_ops s (fun j => if Nat.eqb j k then f (ops s j) else ops s j).
Definition getop (s : st) (k : nat) : op := ops s k.

(* field setters *)
Definition w_stopped (o : op) : op :=
  {| o_stopped := true; o_started := o_started o; o_completed := o_completed o; o_sync := o_sync o;
     o_cancelled := o_cancelled o; o_started_ := o_started_ o; o_src_stop := o_src_stop o;
     o_src_locked := o_src_locked o; o_cb := o_cb o; o_cbdone := o_cbdone o; o_rdc := o_rdc o;
     o_res := o_res o; o_released := o_released o |}.
Definition w_started (o : op) : op :=
  {| o_stopped := o_stopped o; o_started := true; o_completed := o_completed o; o_sync := o_sync o;
     o_cancelled := o_cancelled o; o_started_ := o_started_ o; o_src_stop := o_src_stop o;
     o_src_locked := o_src_locked o; o_cb := o_cb o; o_cbdone := o_cbdone o; o_rdc := o_rdc o;
     o_res := o_res o; o_released := o_released o |}.
Definition w_completed (o : op) : op :=
  {| o_stopped := o_stopped o; o_started := o_started o; o_completed := true; o_sync := o_sync o;
     o_cancelled := o_cancelled o; o_started_ := o_started_ o; o_src_stop := o_src_stop o;
     o_src_locked := o_src_locked o; o_cb := o_cb o; o_cbdone := o_cbdone o; o_rdc := o_rdc o;
     o_res := o_res o; o_released := o_released o |}.
Definition w_sync (v : option bool) (o : op) : op :=
  {| o_stopped := o_stopped o; o_started := o_started o; o_completed := o_completed o; o_sync := v;
     o_cancelled := o_cancelled o; o_started_ := o_started_ o; o_src_stop := o_src_stop o;
     o_src_locked := o_src_locked o; o_cb := o_cb o; o_cbdone := o_cbdone o; o_rdc := o_rdc o;
     o_res := o_res o; o_released := o_released o |}.
Definition w_cancelled (o : op) : op :=
  {| o_stopped := o_stopped o; o_started := o_started o; o_completed := o_completed o; o_sync := o_sync o;
     o_cancelled := true; o_started_ := o_started_ o; o_src_stop := o_src_stop o;
     o_src_locked := o_src_locked o; o_cb := o_cb o; o_cbdone := o_cbdone o; o_rdc := o_rdc o;
     o_res := o_res o; o_released := o_released o |}.
Definition w_started_ (o : op) : op :=
  {| o_stopped := o_stopped o; o_started := o_started o; o_completed := o_completed o; o_sync := o_sync o;
     o_cancelled := o_cancelled o; o_started_ := true; o_src_stop := o_src_stop o;
     o_src_locked := o_src_locked o; o_cb := o_cb o; o_cbdone := o_cbdone o; o_rdc := o_rdc o;
     o_res := o_res o; o_released := o_released o |}.
Definition w_src (stop lk : bool) (o : op) : op :=
  {| o_stopped := o_stopped o; o_started := o_started o; o_completed := o_completed o; o_sync := o_sync o;
     o_cancelled := o_cancelled o; o_started_ := o_started_ o; o_src_stop := stop;
     o_src_locked := lk; o_cb := o_cb o; o_cbdone := o_cbdone o; o_rdc := o_rdc o;
     o_res := o_res o; o_released := o_released o |}.
Definition w_cb (c : cbst) (o : op) : op :=
  {| o_stopped := o_stopped o; o_started := o_started o; o_completed := o_completed o; o_sync := o_sync o;
     o_cancelled := o_cancelled o; o_started_ := o_started_ o; o_src_stop := o_src_stop o;
     o_src_locked := o_src_locked o; o_cb := c; o_cbdone := o_cbdone o; o_rdc := o_rdc o;
     o_res := o_res o; o_released := o_released o |}.
Definition w_cbdone (o : op) : op :=
  {| o_stopped := o_stopped o; o_started := o_started o; o_completed := o_completed o; o_sync := o_sync o;
     o_cancelled := o_cancelled o; o_started_ := o_started_ o; o_src_stop := o_src_stop o;
     o_src_locked := o_src_locked o; o_cb := o_cb o; o_cbdone := true; o_rdc := o_rdc o;
     o_res := o_res o; o_released := o_released o |}.
Definition w_rdc (b : bool) (o : op) : op :=
  {| o_stopped := o_stopped o; o_started := o_started o; o_completed := o_completed o; o_sync := o_sync o;
     o_cancelled := o_cancelled o; o_started_ := o_started_ o; o_src_stop := o_src_stop o;
     o_src_locked := o_src_locked o; o_cb := o_cb o; o_cbdone := o_cbdone o; o_rdc := b;
     o_res := o_res o; o_released := o_released o |}.
Definition w_res (x : outcome) (o : op) : op :=
  {| o_stopped := o_stopped o; o_started := o_started o; o_completed := o_completed o; o_sync := o_sync o;
     o_cancelled := o_cancelled o; o_started_ := o_started_ o; o_src_stop := o_src_stop o;
     o_src_locked := o_src_locked o; o_cb := o_cb o; o_cbdone := o_cbdone o; o_rdc := o_rdc o;
     o_res := x :: o_res o; o_released := o_released o |}.
Definition w_released (o : op) : op :=
  {| o_stopped := o_stopped o; o_started := o_started o; o_completed := o_completed o; o_sync := o_sync o;
     o_cancelled := o_cancelled o; o_started_ := o_started_ o; o_src_stop := o_src_stop o;
     o_src_locked := o_src_locked o; o_cb := o_cb o; o_cbdone := o_cbdone o; o_rdc := o_rdc o;
     o_res := o_res o; o_released := true |}.

(* the item's push_back has claimed the tail but not yet published the item *)
Definition unpub (s : st) (x : nat) : bool :=
  match nth_error (thr s) x with
  | Some (APushPub y, _) => Nat.eqb x y
  | _ => false
  end.

(* some pop_front has taken x (cleared x.self) but not yet unlinked it from head_ *)
Definition taken (s : st) (x : nat) : bool :=
  existsb (fun ak : act * cont => match fst ak with APopPub y => Nat.eqb x y | _ => false end) (thr s).
(* somebody is inside the two steps of a successful pop_front (holds the lock of head_) *)
Definition popping (s : st) : bool :=
  existsb (fun ak : act * cont => match fst ak with APopPub _ => true | _ => false end) (thr s).

(* the call chain of thread t returns *)
Definition ret_to (s : st) (k : cont) : act * cont :=
  match k with
  | KEnd => (AFin, KEnd)
  | KTop i => (AWaitGot i, KEnd)
  | KAfterStart i => (ASyncLoad i, KTop i)
  | KInlineCb i => (AEarly i, KTop i)
  | KStopper i => (if o_rdc (getop s i) then SAcq2 i else SCbDone i, KEnd)
  end.
Definition ret (s : st) (t : nat) (k : cont) : st :=
  set_thr s t (fst (ret_to s k)) (snd (ret_to s k)).

(* forward_set_value on the receiver of k                          [v2/async_mutex.hpp:111-117] *)
Definition deliver (s : st) (t : nat) (kc : cont) (k : nat) (c : ctx) (stopseen : bool) : st * list ev :=
  let o := if stopseen then ODone else if o_cancelled (getop s k) then ODone else OValue in
  (ret (upd_op s k (w_res o)) t kc, [EComplete k o c]).

(* forwardingOp_.start: the hop *)
Definition go_hop (s : st) (t : nat) (kc : cont) (k : nat) (c : ctx) : st * list ev :=
  if fixed s then deliver s t kc k c false
  else (set_thr s t (AHop k c) kc, []).

(* cleanup_: destroy the stop callback; only a registered callback touches the source *)
Definition go_cleanup (s : st) (t : nat) (kc : cont) (k : nat) (c : ctx) : st * list ev :=
  match o_cb (getop s k) with
  | CbLinked | CbPopped => (set_thr s t (ADeregAcq k c) kc, [])
  | _ => go_hop s t kc k c
  end.

(* stop() of the mutex operation *)
Definition do_stop (s : st) (t : nat) (kc : cont) (i : nat) : st :=
  if o_started_ (getop s i) then set_thr s t (ATryRemove i) kc
  else set_thr (upd_op s i w_cancelled) t (ATryComplete i CEarly) kc.

Definition is_lock_ctx (c : ctx) : bool := match c with CLock | CResume => true | _ => false end.

Fixpoint remove_nat (x : nat) (l : list nat) : list nat :=
  match l with
  | [] => []
  | y :: r => if Nat.eqb x y then r else y :: remove_nat x r
  end.
Fixpoint succ_of (x : nat) (l : list nat) : option nat :=
  match l with
  | [] => None
  | y :: r => if Nat.eqb x y then hd_error r else succ_of x r
  end.
Definition mem_nat (x : nat) (l : list nat) : bool := existsb (Nat.eqb x) l.

Definition step (t : nat) (s : st) : option (st * list ev) :=
  match nth_error (thr s) t with
  | None => None
  | Some (a, kc) =>
    match a with
    | AReg i =>
        let o := getop s i in
        if o_src_stop o then
          Some (set_thr (upd_op s i (w_cb CbInline)) t (ACbOr i) (KInlineCb i), [ESrcObs i (src_val o)])
        else if o_src_locked o then None
        else Some (set_thr (upd_op s i (fun o => w_cb CbLinked (w_src false true o))) t (ARegRel i) kc,
                   [ESrcAcq i 0 2 true])
    | ARegRel i =>
        Some (set_thr (upd_op s i (w_src false false)) t (AEarly i) kc, [ESrcRel i 0])
    | AEarly i =>
        let o := getop s i in
        if o_stopped o then Some (do_stop s t kc i, [ECsLd i (cs_val o)])
        else Some (set_thr (upd_op s i (fun o => w_started_ (w_sync (Some false) o))) t (ATryLock i) (KAfterStart i),
                   [ECsLd i (cs_val o)])
    | ATryLock i =>
        if locked s then Some (set_thr s t (APush i) kc, [ELockX false true])
        else Some (set_thr (set_locked s true) t (ATryComplete i CLock) kc, [ELockX false false])
    | APush i =>
        Some (set_thr (set_queue s (queue s ++ [i])) t (APushPub i) kc, [EPushClaim i])
    | APushPub i =>
        Some (set_thr s t AXchg kc, [EPushPub i])
    | AXchg =>
        if locked s then Some (ret s t kc, [ELockX true true])
        else Some (set_thr (set_locked s true) t APop kc, [ELockX true false])
    | APop =>
        match queue s with
        | [] => Some (set_thr s t AUnlStore kc, [EPop None])
        | x :: r =>
            if popping s then None
            else if unpub s x then None
            else if match r with y :: _ => unpub s y | [] => false end then None
            else Some (set_thr s t (APopPub x) kc, [EPopTake x])
        end
    | APopPub x =>
        Some (set_thr (set_queue s (remove_nat x (queue s))) t (ATryComplete x CResume) kc, [EPop (Some x)])
    | AUnlStore =>
        Some (set_thr (set_locked s false) t AEmpty kc, [ELockSt])
    | AEmpty =>
        let b := match queue s with [] => true | x :: _ => unpub s x end in
        if b then Some (ret s t kc, [EEmpty true])
        else Some (set_thr s t AReXchg kc, [EEmpty false])
    | AReXchg =>
        if locked s then Some (ret s t kc, [ELockX true true])
        else Some (set_thr (set_locked s true) t APop kc, [ELockX true false])
    | ATryComplete k c =>
        let o := getop s k in
        let e := ECsOr k (cs_val o) (cs_val (w_completed o)) in
        if o_completed o then
          match c with
          | CResume => Some (set_thr s t APop kc, [e])      (* op->mutex_.unlock() *)
          | _ => Some (ret s t kc, [e])
          end
        else
          let s1 := upd_op s k w_completed in
          if negb (o_started o) && match o_sync o with Some _ => true | None => false end
          then Some (set_thr s1 t (ASyncStore k c) kc, [e])
          else let r := go_cleanup s1 t kc k c in Some (fst r, e :: snd r)
    | ASyncStore k c =>
        let r := go_cleanup (upd_op s k (w_sync (Some true))) t kc k c in
        Some (fst r, ESyncSt k :: snd r)
    | ADeregAcq k c =>
        let o := getop s k in
        if o_src_locked o then None
        else
          let e := ESrcAcq k (src_val o) (src_val o + 2) false in
          match o_cb o with
          | CbLinked =>
              Some (set_thr (upd_op s k (fun o => w_cb CbGone (w_src (o_src_stop o) true o))) t (ADeregRel k c false) kc, [e])
          | _ =>
              if Nat.eqb t (nl s + k)
              then Some (set_thr (upd_op s k (fun o => w_rdc true (w_src (o_src_stop o) true o))) t (ADeregRel k c false) kc, [e])
              else Some (set_thr (upd_op s k (fun o => w_src (o_src_stop o) true o)) t (ADeregRel k c true) kc, [e])
          end
    | ADeregRel k c wait =>
        let o := getop s k in
        let s1 := upd_op s k (fun o => w_src (o_src_stop o) false o) in
        let e := ESrcRel k (b2n (o_src_stop o)) in
        if wait then Some (set_thr s1 t (ADeregWait k c) kc, [e])
        else let r := go_hop s1 t kc k c in Some (fst r, e :: snd r)
    | ADeregWait k c =>
        if o_cbdone (getop s k)
        then let r := go_hop s t kc k c in Some (fst r, ECbDoneLd k :: snd r)
        else None
    | AHop k c =>
        let o := getop s k in
        let r := deliver s t kc k c (o_src_stop o) in
        Some (fst r, ESrcLd k (src_val o) :: snd r)
    | ASyncLoad i =>
        let b := match o_sync (getop s i) with Some b => b | None => false end in
        if b then Some (ret s t kc, [ESyncLd i true])
        else Some (set_thr s t (AStartedOr i) kc, [ESyncLd i false])
    | AStartedOr i =>
        let o := getop s i in
        let e := ECsOr i (cs_val o) (cs_val (w_started o)) in
        let s1 := upd_op s i w_started in
        if o_stopped o && negb (o_started o) && negb (o_completed o)
        then Some (do_stop s1 t kc i, [e])
        else if o_completed o then Some (set_thr s1 t (ASyncSpin i) kc, [e])
        else Some (ret s1 t kc, [e])
    | ASyncSpin i =>
        match o_sync (getop s i) with
        | Some true => Some (ret s t kc, [ESyncLd i true])
        | _ => None
        end
    | ATryRemove i =>
        if mem_nat i (queue s) && negb (taken s i) then
          if match succ_of i (queue s) with Some y => unpub s y | None => false end then None
          else Some (set_thr (upd_op (set_queue s (remove_nat i (queue s))) i w_cancelled) t (ATryComplete i CStop) kc,
                     [ERemove i true])
        else Some (ret s t kc, [ERemove i false])
    | ACbOr i =>
        let o := getop s i in
        let e := ECsOr i (cs_val o) (cs_val (w_stopped o)) in
        let s1 := upd_op s i w_stopped in
        if negb (o_stopped o) && o_started o && negb (o_completed o)
        then Some (do_stop s1 t kc i, [e])
        else Some (ret s1 t kc, [e])
    | SAcq i =>
        let o := getop s i in
        if o_src_stop o then Some (set_thr s t AFin KEnd, [ESrcObs i (src_val o)])
        else if o_src_locked o then None
        else
          match o_cb o with
          | CbLinked => Some (set_thr (upd_op s i (fun o => w_cb CbPopped (w_src true true o))) t (SRel i true) kc,
                              [ESrcAcq i 0 3 true])
          | _ => Some (set_thr (upd_op s i (w_src true true)) t (SRel i false) kc, [ESrcAcq i 0 3 true])
          end
    | SRel i popped =>
        let s1 := upd_op s i (fun o => w_rdc false (w_src true false o)) in
        if popped then Some (set_thr s1 t (ACbOr i) (KStopper i), [ESrcRel i 1])
        else Some (set_thr s1 t AFin KEnd, [ESrcRel i 1])
    | SCbDone i =>
        Some (set_thr (upd_op s i w_cbdone) t (SAcq2 i) kc, [ECbDoneSt i])
    | SAcq2 i =>
        let o := getop s i in
        if o_src_locked o then None
        else Some (set_thr (upd_op s i (w_src true true)) t (SRel2 i) kc, [ESrcAcq i (src_val o) (src_val o + 2) false])
    | SRel2 i =>
        Some (set_thr (upd_op s i (w_src true false)) t AFin KEnd, [ESrcRel i 1])
    | AWaitGot i =>
        let o := getop s i in
        match o_res o with
        | [OValue] => if o_released o then None
                      else Some (set_thr (upd_op s i w_released) t APop KEnd, [ERelease i])
        | _ => None
        end
    | TTry t' =>
        if locked s then Some (set_thr s t AFin KEnd, [ELockX false true; ETryFail t'])
        else Some (set_thr (set_locked s true) t (ARelease t') kc, [ELockX false false; ETryAcq t'])
    | ARelease t' =>
        Some (set_thr s t APop KEnd, [ERelease t'])
    | AFin => None
    end
  end.

(* a thread is finished: body ended, or a locker whose receiver got set_done *)
Definition thr_finished (s : st) (x : act * cont) : bool :=
  match fst x with
  | AFin => true
  | AWaitGot i => match o_res (getop s i) with [ODone] => true | _ => false end
  | _ => false
  end.
Definition quiescent (s : st) : bool := forallb (thr_finished s) (thr s).

(* who holds the mutex: a thread that is inside process_queue with the lock, or is completing a
   lock operation that carries the lock; or a granted operation that has not started unlock() *)
Definition act_tok (a : act) : nat :=
  match a with
  | APop | APopPub _ | AUnlStore | ARelease _ => 1
  | ATryComplete _ c | ASyncStore _ c | ADeregAcq _ c | ADeregRel _ c _ | ADeregWait _ c | AHop _ c =>
      if is_lock_ctx c then 1 else 0
  | _ => 0
  end.
Definition op_tok (o : op) : nat :=
  match o_res o with
  | [OValue] => if o_released o then 0 else 1
  | _ => 0
  end.
Definition tokens (s : st) : nat :=
  list_sum (map (fun x => act_tok (fst x)) (thr s))
  + list_sum (map (fun k => op_tok (ops s k)) (seq 0 (nl s))).

End MutexV2.
