(* E1 model TypeEraseNext: the completion / cancellation election of the next-operation of
   type_erased_stream (include/unifex/type_erased_stream.hpp: next_op_base::{refCount_, complete},
   _next_receiver::set_value/set_done/set_error, next_sender::_op::type::{constructor with
   stopCallback_, start, request_stop}, _stream::type::{next_receiver_wrapper,
   cleanup_receiver_wrapper, start_next, start_cleanup, union of next_ and cleanup_}), driven by a
   consumer that does what reduce_stream does inline in every completion (value: destroy the
   next-op, construct + start a new one; done / error: destroy it, construct + start cleanup;
   cleanup completion: finished, the stream may be freed), together with the consumer's stop
   source at lock granularity (source/inplace_stop_token.cpp: try_add_callback, remove_callback,
   request_stop), as Proto/FutureDefs.v models it.

   The model is CYCLIC: after a value the delivering thread constructs the next next-op in the
   same storage, refCount_ restarts at 1 and the per-round ghost state is reset, so any number of
   next() rounds is a path in one finite graph.  How the source completes each next() is chosen
   by the schedule:
     tid 0 = thread T0: the consumer's first start_next();
     tid 1 / 3 / 4 = thread A completing the outstanding next() of the source with value /
             done / error (one physical thread: from idle the tid picks the kind, a completion
             in progress moves only under the tid of its kind);
     tid 5 = thread A completing the source's cleanup();
     tid 2 = thread C: request_stop() on the consumer's stop source (if has_stop).
   There is no consumer thread: the consumer's reaction runs nested inside the completion on
   whatever thread delivers it (T0 and A construct next-ops, C only delivers done).
   Ghost state: which op-states are alive (consumer next-op = refCount_, stopSource_, receiver_,
   stopCallback_; wrapped next-op and wrapped cleanup-op = the union members next_ / cleanup_ of
   the heap allocated concrete stream; consumer cleanup-op), stream_freed, per-round facts, and
   sticky violation flags.  Executable definitions only. *)
From Coq Require Import List Bool Arith.
Import ListNotations.

Module TypeEraseNext.

Inductive kind := KV | KD | KE.            (* how the source completes a next() *)
Inductive result := RVal | RDone | RErr.   (* how a next() of the consumer completes *)
Definition res_of (k : kind) : result := match k with KV => RVal | KD => RDone | KE => RErr end.

Record params := { has_stop : bool }.

(* atomics: the current next-op (refCount_, stopSource_.state_, callbackCompleted_ of
   stopCallback_, its list linkage) and the consumer's stop source ext *)
Record mem := {
  ref : nat;                 (* next_op_base::refCount_ *)
  te_stop : bool;            (* stopSource_: stop requested *)
  ext_locked : bool;         (* lock bit of ext *)
  ext_stop : bool;           (* stop-requested bit of ext *)
  cb_linked : bool;          (* stopCallback_ is in ext's callback list *)
  cb_reg : bool;             (* stopCallback_ was registered (source_ != nullptr): its destructor deregisters *)
  cb_done : bool;            (* callbackCompleted_ *)
  c_removed : bool           (* thread C's local removedDuringCallback *)
}.

Record ghost := {
  nx_alive : bool;           (* the consumer's next-op *)
  src_alive : bool;          (* the wrapped next-op of the source: union member next_ *)
  src_out : bool;            (* the source's next() is outstanding *)
  cl_alive : bool;           (* the consumer's cleanup-op *)
  clw_alive : bool;          (* the wrapped cleanup-op: union member cleanup_ *)
  cl_out : bool;             (* the source's cleanup() is outstanding *)
  cl_started : bool;         (* cleanup was started (sticky) *)
  finished : bool;           (* the consumer's cleanup completed *)
  stream_freed : bool        (* the type-erased stream was destroyed by its owner *)
}.

(* facts about the current round (reset when a next-op is constructed) *)
Record round := {
  ndel : nat;                (* completions of the current next() *)
  src_res : option kind;     (* how the source's next() completed *)
  cb_won : bool;             (* the callback's fetch_add read non-zero *)
  fwd : bool;                (* the callback finished stopSource_.request_stop() *)
  cb_first : bool;           (* the callback's complete() was not the last *)
  cb_last : bool;            (* the callback's complete() was the last: it delivered done *)
  delivered : option result  (* what the current next() completed with *)
}.

(* sticky flags *)
Record flags := {
  ended : bool;              (* some next() completed with done / error *)
  uaf : bool;                (* a step touched a destroyed op-state or the freed stream *)
  dup : bool;                (* a next() completed twice *)
  vad : bool;                (* a value was delivered after done / error *)
  early : bool;              (* a next() completed while the wrapped next-op was still alive *)
  nofwd : bool;              (* the callback delivered done before forwarding the stop request *)
  clash : bool;              (* a union member was activated while the other / the same one was alive *)
  bad : bool                 (* a branch that the protocol excludes was taken *)
}.

(* request_stop of the next-op, type_erased_stream.hpp:397-407 *)
Inductive cbpc :=
| CAdd                       (* refCount_.fetch_add, :399 *)
| CSet | CEnd                (* stopSource_.request_stop, :404: CAS 0 -> 3, store 1 *)
| CSub.                      (* receiver_.set_done: complete, :406 / :111 *)

(* the consumer's inline reaction, run by the thread that delivered *)
Inductive kpc :=
| KReg                       (* constructor of the next-op: stopCallback_ registers, :386 *)
| KRegRel                    (* unlock ; then start, :389-395, start_next, :317-327 *)
| KInl (c : cbpc)            (* stop already requested: the callback runs inline in the constructor *)
| KDeregAcq (r : result)     (* destructor of the next-op: stopCallback_ deregisters: lock *)
| KDeregRel (r : result) (linked : bool)
| KDeregWait (r : result).   (* executing on thread C: wait for callbackCompleted_ *)

Inductive pc0 := T0Start | T0Run (f : kpc) | T0Fin.
Inductive pcA := AIdle | ASub (k : kind) | ARun (k : kind) (f : kpc) | AFin.
Inductive pcC :=
| SIdle                      (* request_stop: try_lock_unless_stop_requested true *)
| SUnl (popped : bool)
| SCb (c : cbpc)             (* the popped callback runs *)
| SRun (f : kpc)             (* ... it delivered done: the consumer's reaction, nested *)
| SCbDone                    (* callbackCompleted_.store true *)
| SRelock | SRelRel
| SFin.

Record st := { cfg : params; m : mem; g : ghost; rd : round; fl : flags; p0 : pc0; pa : pcA; pc : pcC }.

Inductive side := SSrc (k : kind) | SCbk.     (* who calls complete *)

Inductive ev :=
| ERefAdd (old : nat)                         (* refCount_.fetch_add relaxed *)
| ERefSub (w : side) (old : nat)              (* refCount_.fetch_sub acq_rel *)
| ETeSrcSet | ETeSrcEnd                       (* stopSource_.request_stop: CAS 0 -> 3, store 1 *)
| EExtObs (locked : bool)                     (* registration sees ext's stop bit *)
| EExtAcq (arel : bool) (old new : nat)       (* lock acquisition on ext *)
| EExtRel (v : nat)                           (* its release *)
| ECbDone | ECbWait                           (* callbackCompleted_ store / successful load *)
| EConsNextCtor | EConsNext (r : result) | EConsNextDtor
| EConsCleanupCtor | EConsCleanup | EConsCleanupDtor
| ESrcNextCtor | ESrcNextStart | ESrcNextComplete (k : kind) | ESrcNextDtor
| ESrcCleanupCtor | ESrcCleanupStart | ESrcCleanupComplete | ESrcCleanupDtor
| EStreamDestroyed | EConsFinished
| EStopReturned.

(* ---------------------------------------------------------------------------------------- *)
(* record updates                                                                           *)

Definition set_ref v (x : mem) : mem := {| ref := v; te_stop := te_stop x; ext_locked := ext_locked x; ext_stop := ext_stop x; cb_linked := cb_linked x; cb_reg := cb_reg x; cb_done := cb_done x; c_removed := c_removed x |}.
Definition set_te_stop v (x : mem) : mem := {| ref := ref x; te_stop := v; ext_locked := ext_locked x; ext_stop := ext_stop x; cb_linked := cb_linked x; cb_reg := cb_reg x; cb_done := cb_done x; c_removed := c_removed x |}.
Definition set_ext_locked v (x : mem) : mem := {| ref := ref x; te_stop := te_stop x; ext_locked := v; ext_stop := ext_stop x; cb_linked := cb_linked x; cb_reg := cb_reg x; cb_done := cb_done x; c_removed := c_removed x |}.
Definition set_ext_stop v (x : mem) : mem := {| ref := ref x; te_stop := te_stop x; ext_locked := ext_locked x; ext_stop := v; cb_linked := cb_linked x; cb_reg := cb_reg x; cb_done := cb_done x; c_removed := c_removed x |}.
Definition set_cb_linked v (x : mem) : mem := {| ref := ref x; te_stop := te_stop x; ext_locked := ext_locked x; ext_stop := ext_stop x; cb_linked := v; cb_reg := cb_reg x; cb_done := cb_done x; c_removed := c_removed x |}.
Definition set_cb_reg v (x : mem) : mem := {| ref := ref x; te_stop := te_stop x; ext_locked := ext_locked x; ext_stop := ext_stop x; cb_linked := cb_linked x; cb_reg := v; cb_done := cb_done x; c_removed := c_removed x |}.
Definition set_cb_done v (x : mem) : mem := {| ref := ref x; te_stop := te_stop x; ext_locked := ext_locked x; ext_stop := ext_stop x; cb_linked := cb_linked x; cb_reg := cb_reg x; cb_done := v; c_removed := c_removed x |}.
Definition set_c_removed v (x : mem) : mem := {| ref := ref x; te_stop := te_stop x; ext_locked := ext_locked x; ext_stop := ext_stop x; cb_linked := cb_linked x; cb_reg := cb_reg x; cb_done := cb_done x; c_removed := v |}.
Definition set_nx_alive v (x : ghost) : ghost := {| nx_alive := v; src_alive := src_alive x; src_out := src_out x; cl_alive := cl_alive x; clw_alive := clw_alive x; cl_out := cl_out x; cl_started := cl_started x; finished := finished x; stream_freed := stream_freed x |}.
Definition set_src_alive v (x : ghost) : ghost := {| nx_alive := nx_alive x; src_alive := v; src_out := src_out x; cl_alive := cl_alive x; clw_alive := clw_alive x; cl_out := cl_out x; cl_started := cl_started x; finished := finished x; stream_freed := stream_freed x |}.
Definition set_src_out v (x : ghost) : ghost := {| nx_alive := nx_alive x; src_alive := src_alive x; src_out := v; cl_alive := cl_alive x; clw_alive := clw_alive x; cl_out := cl_out x; cl_started := cl_started x; finished := finished x; stream_freed := stream_freed x |}.
Definition set_cl_alive v (x : ghost) : ghost := {| nx_alive := nx_alive x; src_alive := src_alive x; src_out := src_out x; cl_alive := v; clw_alive := clw_alive x; cl_out := cl_out x; cl_started := cl_started x; finished := finished x; stream_freed := stream_freed x |}.
Definition set_clw_alive v (x : ghost) : ghost := {| nx_alive := nx_alive x; src_alive := src_alive x; src_out := src_out x; cl_alive := cl_alive x; clw_alive := v; cl_out := cl_out x; cl_started := cl_started x; finished := finished x; stream_freed := stream_freed x |}.
Definition set_cl_out v (x : ghost) : ghost := {| nx_alive := nx_alive x; src_alive := src_alive x; src_out := src_out x; cl_alive := cl_alive x; clw_alive := clw_alive x; cl_out := v; cl_started := cl_started x; finished := finished x; stream_freed := stream_freed x |}.
Definition set_cl_started v (x : ghost) : ghost := {| nx_alive := nx_alive x; src_alive := src_alive x; src_out := src_out x; cl_alive := cl_alive x; clw_alive := clw_alive x; cl_out := cl_out x; cl_started := v; finished := finished x; stream_freed := stream_freed x |}.
Definition set_finished v (x : ghost) : ghost := {| nx_alive := nx_alive x; src_alive := src_alive x; src_out := src_out x; cl_alive := cl_alive x; clw_alive := clw_alive x; cl_out := cl_out x; cl_started := cl_started x; finished := v; stream_freed := stream_freed x |}.
Definition set_stream_freed v (x : ghost) : ghost := {| nx_alive := nx_alive x; src_alive := src_alive x; src_out := src_out x; cl_alive := cl_alive x; clw_alive := clw_alive x; cl_out := cl_out x; cl_started := cl_started x; finished := finished x; stream_freed := v |}.
Definition set_ndel v (x : round) : round := {| ndel := v; src_res := src_res x; cb_won := cb_won x; fwd := fwd x; cb_first := cb_first x; cb_last := cb_last x; delivered := delivered x |}.
Definition set_src_res v (x : round) : round := {| ndel := ndel x; src_res := v; cb_won := cb_won x; fwd := fwd x; cb_first := cb_first x; cb_last := cb_last x; delivered := delivered x |}.
Definition set_cb_won v (x : round) : round := {| ndel := ndel x; src_res := src_res x; cb_won := v; fwd := fwd x; cb_first := cb_first x; cb_last := cb_last x; delivered := delivered x |}.
Definition set_fwd v (x : round) : round := {| ndel := ndel x; src_res := src_res x; cb_won := cb_won x; fwd := v; cb_first := cb_first x; cb_last := cb_last x; delivered := delivered x |}.
Definition set_cb_first v (x : round) : round := {| ndel := ndel x; src_res := src_res x; cb_won := cb_won x; fwd := fwd x; cb_first := v; cb_last := cb_last x; delivered := delivered x |}.
Definition set_cb_last v (x : round) : round := {| ndel := ndel x; src_res := src_res x; cb_won := cb_won x; fwd := fwd x; cb_first := cb_first x; cb_last := v; delivered := delivered x |}.
Definition set_delivered v (x : round) : round := {| ndel := ndel x; src_res := src_res x; cb_won := cb_won x; fwd := fwd x; cb_first := cb_first x; cb_last := cb_last x; delivered := v |}.
Definition set_ended v (x : flags) : flags := {| ended := v; uaf := uaf x; dup := dup x; vad := vad x; early := early x; nofwd := nofwd x; clash := clash x; bad := bad x |}.
Definition set_uaf v (x : flags) : flags := {| ended := ended x; uaf := v; dup := dup x; vad := vad x; early := early x; nofwd := nofwd x; clash := clash x; bad := bad x |}.
Definition set_dup v (x : flags) : flags := {| ended := ended x; uaf := uaf x; dup := v; vad := vad x; early := early x; nofwd := nofwd x; clash := clash x; bad := bad x |}.
Definition set_vad v (x : flags) : flags := {| ended := ended x; uaf := uaf x; dup := dup x; vad := v; early := early x; nofwd := nofwd x; clash := clash x; bad := bad x |}.
Definition set_early v (x : flags) : flags := {| ended := ended x; uaf := uaf x; dup := dup x; vad := vad x; early := v; nofwd := nofwd x; clash := clash x; bad := bad x |}.
Definition set_nofwd v (x : flags) : flags := {| ended := ended x; uaf := uaf x; dup := dup x; vad := vad x; early := early x; nofwd := v; clash := clash x; bad := bad x |}.
Definition set_clash v (x : flags) : flags := {| ended := ended x; uaf := uaf x; dup := dup x; vad := vad x; early := early x; nofwd := nofwd x; clash := v; bad := bad x |}.
Definition set_bad v (x : flags) : flags := {| ended := ended x; uaf := uaf x; dup := dup x; vad := vad x; early := early x; nofwd := nofwd x; clash := clash x; bad := v |}.

Definition M (f : mem -> mem) (s : st) : st :=
  {| cfg := cfg s; m := f (m s); g := g s; rd := rd s; fl := fl s; p0 := p0 s; pa := pa s; pc := pc s |}.
Definition Gh (f : ghost -> ghost) (s : st) : st :=
  {| cfg := cfg s; m := m s; g := f (g s); rd := rd s; fl := fl s; p0 := p0 s; pa := pa s; pc := pc s |}.
Definition Rd (f : round -> round) (s : st) : st :=
  {| cfg := cfg s; m := m s; g := g s; rd := f (rd s); fl := fl s; p0 := p0 s; pa := pa s; pc := pc s |}.
Definition Fl (f : flags -> flags) (s : st) : st :=
  {| cfg := cfg s; m := m s; g := g s; rd := rd s; fl := f (fl s); p0 := p0 s; pa := pa s; pc := pc s |}.
Definition set_p0 (v : pc0) (s : st) : st :=
  {| cfg := cfg s; m := m s; g := g s; rd := rd s; fl := fl s; p0 := v; pa := pa s; pc := pc s |}.
Definition set_pa (v : pcA) (s : st) : st :=
  {| cfg := cfg s; m := m s; g := g s; rd := rd s; fl := fl s; p0 := p0 s; pa := v; pc := pc s |}.
Definition set_pc (v : pcC) (s : st) : st :=
  {| cfg := cfg s; m := m s; g := g s; rd := rd s; fl := fl s; p0 := p0 s; pa := pa s; pc := v |}.

(* ---------------------------------------------------------------------------------------- *)

Definition fresh_round : round :=
  {| ndel := 0; src_res := None; cb_won := false; fwd := false; cb_first := false; cb_last := false;
     delivered := None |}.

Definition init (p : params) : st :=
  {| cfg := p;
     m := {| ref := 1; te_stop := false; ext_locked := false; ext_stop := false; cb_linked := false;
             cb_reg := false; cb_done := false; c_removed := false |};
     g := {| nx_alive := false; src_alive := false; src_out := false; cl_alive := false;
             clw_alive := false; cl_out := false; cl_started := false; finished := false;
             stream_freed := false |};
     rd := fresh_round;
     fl := {| ended := false; uaf := false; dup := false; vad := false; early := false;
              nofwd := false; clash := false; bad := false |};
     p0 := T0Start; pa := AIdle; pc := if has_stop p then SIdle else SFin |}.

Definition flag_uaf (s : st) : st := Fl (set_uaf true) s.
Definition flag_bad (s : st) : st := Fl (set_bad true) s.
Definition flag_clash (s : st) : st := Fl (set_clash true) s.

(* every access to a member of the consumer's next-op (refCount_, stopSource_, receiver_,
   stopCallback_) goes through touch_nx, every use of the heap allocated concrete stream (its
   union, the source stream) through touch_strm *)
Definition touch_nx (s : st) : st := if nx_alive (g s) then s else flag_uaf s.
Definition touch_strm (s : st) : st := if stream_freed (g s) then flag_uaf s else s.

Definition stopbit (s : st) : nat := if ext_stop (m s) then 1 else 0.
Definition is_val (r : result) : bool := match r with RVal => true | _ => false end.
Definition is_some {A} (o : option A) : bool := match o with Some _ => true | None => false end.
Definition kind_eqb (a b : kind) : bool :=
  match a, b with KV, KV | KD, KD | KE, KE => true | _, _ => false end.

(* a next-op is constructed in the consumer's storage (placement new, k1_stream_common.hpp
   consumer::start_next; reduce_stream.hpp _next_receiver::set_value): refCount_ = 1, a fresh
   stopSource_ and stop callback; the registration itself is the step KReg that follows *)
Definition new_round (s : st) : st :=
  let s0 := if nx_alive (g s) || cl_alive (g s) || ended (fl s) || cb_linked (m s) then flag_bad s else s in
  let s1 := M (fun x => set_ref 1 (set_te_stop false (set_cb_linked false (set_cb_reg false
                          (set_cb_done false x))))) s0 in
  Rd (fun _ => fresh_round) (Gh (set_nx_alive true) s1).

(* next-op start, :389-395, then _stream::start_next, :317-327: the wrapped next-op of the
   source is constructed in the union member next_ and started *)
Definition start_src (s : st) (evs : list ev) : st * list ev * option kpc :=
  let s0 := touch_strm (touch_nx s) in
  let s1 := if src_alive (g s0) || clw_alive (g s0) then flag_clash s0 else s0 in
  (Gh (fun x => set_src_alive true (set_src_out true x)) s1, evs ++ [ESrcNextCtor; ESrcNextStart], None).

(* the consumer constructs + starts the cleanup-op: cleanup_sender::_op::start, :444, then
   _stream::start_cleanup, :333-344: union member cleanup_ *)
Definition start_cleanup (s : st) (evs : list ev) : st * list ev * option kpc :=
  let s0 := touch_strm s in
  let s1 := if src_alive (g s0) || clw_alive (g s0) then flag_clash s0 else s0 in
  let s2 := if cl_started (g s1) || nx_alive (g s1) || cl_alive (g s1) || negb (ndel (rd s1) =? 1)
            then flag_bad s1 else s1 in
  (Gh (fun x => set_cl_alive true (set_clw_alive true (set_cl_out true (set_cl_started true x)))) s2,
   evs ++ [EConsCleanupCtor; ESrcCleanupCtor; ESrcCleanupStart], None).

(* the members of the next-op are gone (its destructor finished); the consumer goes on: after a
   value the next next-op, after done / error the cleanup *)
Definition after_destroy (r : result) (s : st) (evs : list ev) : st * list ev * option kpc :=
  let s0 := if cb_linked (m s) then flag_bad s else s in
  let s1 := Gh (set_nx_alive false) (touch_nx s0) in
  match r with
  | RVal => (new_round s1, evs ++ [EConsNextDtor; EConsNextCtor], Some KReg)
  | _ => start_cleanup s1 (evs ++ [EConsNextDtor])
  end.

(* _next_receiver::set_xxx after complete returned true, :132-148: the consumer's receiver is
   completed with r; it destroys the next-op (destructor of stopCallback_ first) *)
Definition on_next (bycb : bool) (r : result) (s : st) (evs : list ev) : st * list ev * option kpc :=
  let s0 := touch_nx s in
  let again := 1 <=? ndel (rd s0) in
  let s1 := Fl (fun x =>
                  set_dup (dup x || again)
                 (set_vad (vad x || (ended x && is_val r))
                 (set_early (early x || src_alive (g s0))
                 (set_nofwd (nofwd x || (bycb && negb (fwd (rd s0))))
                 (set_ended (ended x || negb (is_val r)) x))))) s0 in
  let s2 := Rd (fun x => set_ndel (if again then 2 else 1)
                        (set_delivered (Some r) (if bycb then set_cb_last true x else x))) s1 in
  if again then (s2, evs ++ [EConsNext r], None)
  else if cb_reg (m s2) then (s2, evs ++ [EConsNext r], Some (KDeregAcq r))
  else after_destroy r s2 (evs ++ [EConsNext r]).

(* one step of request_stop, :397-407 *)
Inductive cbres := CbNext (c : cbpc) | CbRet | CbDeliver.

Definition cb_step (c : cbpc) (s : st) : st * list ev * cbres :=
  let s0 := touch_nx s in
  match c with
  | CAdd =>
      let old := ref (m s0) in
      let s1 := M (set_ref (S old)) s0 in
      if old =? 0 then (s1, [ERefAdd old], CbRet)
      else (Rd (set_cb_won true) s1, [ERefAdd old], CbNext CSet)
  | CSet =>
      let s1 := if te_stop (m s0) then flag_bad s0 else s0 in
      (M (set_te_stop true) s1, [ETeSrcSet], CbNext CEnd)
  | CEnd => (Rd (set_fwd true) s0, [ETeSrcEnd], CbNext CSub)
  | CSub =>
      let old := ref (m s0) in
      let s1 := M (set_ref (pred old)) (if old =? 0 then flag_bad s0 else s0) in
      if old =? 1 then (s1, [ERefSub SCbk old], CbDeliver)
      else (Rd (set_cb_first true) s1, [ERefSub SCbk old], CbRet)
  end.

(* one step of the consumer's inline reaction; onC: it runs on thread C, the thread that is
   executing ext's callbacks.  None = blocked; Some (_, _, None) = the reaction is finished *)
Definition flow_step (onC : bool) (f : kpc) (s : st) : option (st * list ev * option kpc) :=
  match f with
  | KReg =>
      (* inplace_stop_token.cpp try_add_callback / try_lock_unless_stop_requested false *)
      let s0 := touch_nx s in
      if ext_stop (m s0) then Some (s0, [EExtObs (ext_locked (m s0))], Some (KInl CAdd))
      else if ext_locked (m s0) then None
      else Some (M (fun x => set_ext_locked true (set_cb_linked true (set_cb_reg true x))) s0,
                 [EExtAcq true 0 2], Some KRegRel)
  | KRegRel => Some (start_src (M (set_ext_locked false) s) [EExtRel 0])
  | KInl c =>
      match cb_step c s with
      | (s1, evs, CbNext c') => Some (s1, evs, Some (KInl c'))
      | (s1, evs, CbRet) => Some (start_src s1 evs)
      | (s1, evs, CbDeliver) => Some (start_src (flag_bad s1) evs)
      end
  | KDeregAcq r =>
      (* inplace_stop_token.cpp remove_callback: lock *)
      if ext_locked (m s) then None
      else
        let s0 := touch_nx s in
        let linked := cb_linked (m s0) in
        Some (M (fun x => set_ext_locked true (set_cb_linked false x)) s0,
              [EExtAcq false (stopbit s) (stopbit s + 2)], Some (KDeregRel r linked))
  | KDeregRel r linked =>
      let s0 := M (set_ext_locked false) s in
      if linked then Some (after_destroy r s0 [EExtRel (stopbit s)])
      else if onC then Some (after_destroy r (M (set_c_removed true) s0) [EExtRel (stopbit s)])
      else Some (s0, [EExtRel (stopbit s)], Some (KDeregWait r))
  | KDeregWait r =>
      if cb_done (m s) then Some (after_destroy r (touch_nx s) [ECbWait]) else None
  end.

(* ---------------------------------------------------------------------------------------- *)
(* thread T0: the first start_next of the consumer                                          *)

Definition step0 (s : st) : option (st * list ev) :=
  match p0 s with
  | T0Start => Some (set_p0 (T0Run KReg) (new_round s), [EConsNextCtor])
  | T0Run f =>
      match flow_step false f s with
      | Some (s1, evs, Some f') => Some (set_p0 (T0Run f') s1, evs)
      | Some (s1, evs, None) => Some (set_p0 T0Fin s1, evs)
      | None => None
      end
  | T0Fin => None
  end.

(* ---------------------------------------------------------------------------------------- *)
(* thread A: completes the source's next with kind k (next_receiver_wrapper::set_xxx,        *)
(* :206-237: the wrapped next-op is destroyed, then _next_receiver::set_xxx: complete)       *)

Definition stepA (k : kind) (s : st) : option (st * list ev) :=
  match pa s with
  | AIdle =>
      if src_out (g s) then
        let s0 := touch_strm s in
        let s1 := if src_alive (g s0) then s0 else flag_uaf s0 in
        let s2 := if is_some (src_res (rd s1)) then flag_bad s1 else s1 in
        Some (set_pa (ASub k)
                (Rd (set_src_res (Some k)) (Gh (fun x => set_src_out false (set_src_alive false x)) s2)),
              [ESrcNextComplete k; ESrcNextDtor])
      else None
  | ASub k' =>
      if kind_eqb k k' then
        let s0 := touch_nx s in
        let old := ref (m s0) in
        let s1 := M (set_ref (pred old)) (if old =? 0 then flag_bad s0 else s0) in
        if old =? 1 then
          match on_next false (res_of k) s1 [ERefSub (SSrc k) old] with
          | (s2, evs, Some f) => Some (set_pa (ARun k f) s2, evs)
          | (s2, evs, None) => Some (set_pa AIdle s2, evs)
          end
        else Some (set_pa AIdle s1, [ERefSub (SSrc k) old])
      else None
  | ARun k' f =>
      if kind_eqb k k' then
        match flow_step false f s with
        | Some (s1, evs, Some f') => Some (set_pa (ARun k f') s1, evs)
        | Some (s1, evs, None) => Some (set_pa AIdle s1, evs)
        | None => None
        end
      else None
  | AFin => None
  end.

(* thread A completes the source's cleanup: cleanup_receiver_wrapper::set_done, :271-275, then
   the consumer destroys its cleanup-op and is finished; its owner destroys the stream *)
Definition stepA_cleanup (s : st) : option (st * list ev) :=
  match pa s with
  | AIdle =>
      if cl_out (g s) then
        let s0 := touch_strm s in
        let s1 := if clw_alive (g s0) && cl_alive (g s0) then s0 else flag_uaf s0 in
        Some (set_pa AFin
                (Gh (fun x => set_cl_out false (set_clw_alive false (set_cl_alive false
                               (set_finished true (set_stream_freed true x))))) s1),
              [ESrcCleanupComplete; ESrcCleanupDtor; EConsCleanup; EConsCleanupDtor;
               EStreamDestroyed; EConsFinished])
      else None
  | _ => None
  end.

(* ---------------------------------------------------------------------------------------- *)
(* thread C: inplace_stop_source::request_stop on ext                                       *)

Definition after_cb (s : st) : pcC := if c_removed (m s) then SRelock else SCbDone.

Definition stepC (s : st) : option (st * list ev) :=
  match pc s with
  | SIdle =>
      if ext_locked (m s) then None
      else
        let popped := cb_linked (m s) in
        let s0 := if popped then touch_nx s else s in
        Some (set_pc (SUnl popped)
                (M (fun x => set_ext_locked true (set_ext_stop true (set_cb_linked false x))) s0),
              [EExtAcq true 0 3])
  | SUnl popped =>
      let s0 := M (set_ext_locked false) s in
      if popped then Some (set_pc (SCb CAdd) s0, [EExtRel 1])
      else Some (set_pc SFin s0, [EExtRel 1; EStopReturned])
  | SCb c =>
      match cb_step c s with
      | (s1, evs, CbNext c') => Some (set_pc (SCb c') s1, evs)
      | (s1, evs, CbRet) => Some (set_pc SCbDone s1, evs)
      | (s1, evs, CbDeliver) =>
          match on_next true RDone s1 evs with
          | (s2, evs2, Some f) => Some (set_pc (SRun f) s2, evs2)
          | (s2, evs2, None) => Some (set_pc (after_cb s2) s2, evs2)
          end
      end
  | SRun f =>
      match flow_step true f s with
      | Some (s1, evs, Some f') => Some (set_pc (SRun f') s1, evs)
      | Some (s1, evs, None) => Some (set_pc (after_cb s1) s1, evs)
      | None => None
      end
  | SCbDone => Some (set_pc SRelock (M (set_cb_done true) (touch_nx s)), [ECbDone])
  | SRelock =>
      if ext_locked (m s) then None
      else Some (set_pc SRelRel (M (set_ext_locked true) s), [EExtAcq false 1 3])
  | SRelRel => Some (set_pc SFin (M (set_ext_locked false) s), [EExtRel 1; EStopReturned])
  | SFin => None
  end.

Definition step (t : nat) (s : st) : option (st * list ev) :=
  match t with
  | 0 => step0 s
  | 1 => stepA KV s
  | 2 => stepC s
  | 3 => stepA KD s
  | 4 => stepA KE s
  | 5 => stepA_cleanup s
  | _ => None
  end.

Definition p0_fin (p : pc0) : bool := match p with T0Fin => true | _ => false end.
Definition pa_fin (p : pcA) : bool := match p with AFin => true | _ => false end.
Definition pc_fin (p : pcC) : bool := match p with SFin => true | _ => false end.
Definition quiescent (s : st) : bool := p0_fin (p0 s) && pa_fin (pa s) && pc_fin (pc s).

End TypeEraseNext.

(* ------------------------------------------------------------------------------------------ *)
(* The core election alone, generalised to n concurrent stop callbacks (the code has one per
   next-op; the proof of Proto/TypeEraseNextProofs.v section Elect is by a hand-written
   invariant, for every n and every schedule).  refCount_ starts at 1; the source's completion
   calls complete (fetch_sub, old = 1: deliver); a callback does fetch_add, returns when it read 0
   (left holding nothing, the count stays incremented), otherwise forwards the stop request and
   calls complete.  thread 0 = the source's completion, thread i+1 = callback i.              *)
Module TypeEraseElect.

Inductive cpc := CIdle | CHold | CFin.

Record st := {
  rc : nat;               (* refCount_ *)
  src_done : bool;        (* the source's completion called complete *)
  cbs : list cpc;
  bailed : nat;           (* ghost: callbacks whose fetch_add read 0 *)
  deliveries : nat        (* ghost: how many callers of complete read 1 *)
}.

Inductive ev := EAdd (old : nat) | ESub (old : nat) | EDeliver.

Definition init (n : nat) : st :=
  {| rc := 1; src_done := false; cbs := repeat CIdle n; bailed := 0; deliveries := 0 |}.

Fixpoint set_nth {A} (i : nat) (x : A) (l : list A) : list A :=
  match l, i with
  | [], _ => []
  | _ :: r, O => x :: r
  | y :: r, S i' => y :: set_nth i' x r
  end.

(* next_op_base::complete, :110-112 *)
Definition complete (s : st) : nat * nat * list ev :=
  let old := rc s in
  (pred old, (if old =? 1 then S (deliveries s) else deliveries s),
   if old =? 1 then [ESub old; EDeliver] else [ESub old]).

Definition step (t : nat) (s : st) : option (st * list ev) :=
  match t with
  | O =>
      if src_done s then None
      else let '(r, d, evs) := complete s in
           Some ({| rc := r; src_done := true; cbs := cbs s; bailed := bailed s; deliveries := d |}, evs)
  | S i =>
      match nth_error (cbs s) i with
      | Some CIdle =>
          (* request_stop, :399 *)
          let old := rc s in
          if old =? 0 then
            Some ({| rc := S old; src_done := src_done s; cbs := set_nth i CFin (cbs s);
                     bailed := S (bailed s); deliveries := deliveries s |}, [EAdd old])
          else
            Some ({| rc := S old; src_done := src_done s; cbs := set_nth i CHold (cbs s);
                     bailed := bailed s; deliveries := deliveries s |}, [EAdd old])
      | Some CHold =>
          (* stopSource_.request_stop is thread-private here ; receiver_.set_done: complete, :406 *)
          let '(r, d, evs) := complete s in
          Some ({| rc := r; src_done := src_done s; cbs := set_nth i CFin (cbs s);
                   bailed := bailed s; deliveries := d |}, evs)
      | _ => None
      end
  end.

Definition is_hold (c : cpc) : bool := match c with CHold => true | _ => false end.
Definition is_fin (c : cpc) : bool := match c with CFin => true | _ => false end.
Definition holders (s : st) : nat := length (filter is_hold (cbs s)).
Definition quiescent (s : st) : bool := src_done s && forallb is_fin (cbs s).

End TypeEraseElect.
