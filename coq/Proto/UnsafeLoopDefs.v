(* E1 model UnsafeLoop: thread_unsafe_event_loop with a virtual clock: the TimerQueue model without
   the mutex and with ONE thread.
   include/unifex/thread_unsafe_event_loop.hpp  (operation_base, _after_op/_at_op::start, execute_impl)
   source/thread_unsafe_event_loop.cpp          (cancel_callback::operator(), enqueue, run_until_empty)

   Everything runs on one thread, so a whole call (start, request_stop, one iteration of
   run_until_empty including the receiver's completion) is atomic; the "threads" of the schedule
   are the logical actors whose calls interleave (from the main program between runs, or from
   inside receivers).  n operations, each with its own stop source:
     0            run_until_empty: enter / one iteration (sleep until the head is due, pop, execute) / leave
     1 .. n       start of operation t-1
     n+1 .. 2n    request_stop on operation (t-n-1)'s stop source
     2n+1+k       the clock advances by k+1 units
   operation_base::next_ / prevPtr_ have no initialiser: the model gives the link fields an explicit
   initial value [lnk0] (LUninit for the code as it is, LNull for the proposed fix "= nullptr").
   Reading LUninit is recorded as the event EUninit and ends the run (undefined behaviour; the
   state is frozen except for the crashed flag).
   Executable definitions only. *)
From Coq Require Import ZArith List Bool Arith.
From V Require Import Arith.SortedInsertDefs Proto.TimerQueueDefs.
Import ListNotations.
Local Open Scope Z_scope.

Module UnsafeLoop.

Inductive lnk := LUninit | LNull | LSet.
Inductive phase := PNew | PQueued | PDone.

Record op := mkop {
  o_after : bool; o_t : Z;     (* schedule_after d / schedule_at t *)
  orig : option Z;             (* ghost: due time computed by start *)
  dueT : Z;                    (* dueTime_ *)
  ph : phase;
  sreq : bool;                 (* stop requested on this operation's source *)
  cbreg : bool;                (* the cancel callback is registered with the source *)
  links : lnk;                 (* next_ / prevPtr_ *)
  ncomp : nat                  (* ghost: completions *)
}.

Record st := mkst {
  now : Z; q : list timer;
  inloop : bool; lastTime : Z; (* run_until_empty is active; its local lastTime *)
  crashed : bool;
  ops : list op
}.

Inductive ev :=
| EStart (i : nat) | EStop (i : nat)
| EUninit (i : nat)                    (* the cancel callback of i read prevPtr_ before it was ever written *)
| EFire (i : nat) (t : Z) | EDone (i : nat) (t : Z)
| EClock (t : Z) | EEnter | EExit.

Definition upd (o : op) (d : Z) (p : phase) (r c : bool) (l : lnk) (k : nat) (og : option Z) : op :=
  mkop (o_after o) (o_t o) og d p r c l k.

Definition set_nth {A} := @TimerQueue.set_nth A.

Definition put (s : st) (i : nat) (o : op) : st :=
  mkst (now s) (q s) (inloop s) (lastTime s) (crashed s) (set_nth i o (ops s)).
Definition set_q (s : st) (l : list timer) : st :=
  mkst (now s) l (inloop s) (lastTime s) (crashed s) (ops s).
Definition set_crashed (s : st) : st :=
  mkst (now s) (q s) (inloop s) (lastTime s) true (ops s).

(* cancel_callback::operator() (cpp 23-41) on operation i whose record is o *)
Definition cancel_cb (i : nat) (o : op) (s : st) : st * op * list ev :=
  if now s <? dueT o then
    let o1 := upd o (now s) (ph o) (sreq o) (cbreg o) (links o) (ncomp o) (orig o) in
    match links o with
    | LUninit => (set_crashed s, o, [EUninit i])    (* cpp 28: if (op_->prevPtr_ != nullptr) on garbage *)
    | LNull => (s, o1, [])
    | LSet => (set_q s (insert_timed (now s, i) (heap_remove i (q s))), o1, [])   (* cpp 32-39 *)
    end
  else (s, o, []).

(* start (hpp 104-108 / 191-194) *)
Definition step_start (i : nat) (s : st) : option (st * list ev) :=
  match nth_error (ops s) i with
  | None => None
  | Some o =>
    match ph o with
    | PNew =>
        let d := if o_after o then now s + o_t o else o_t o in
        let o1 := upd o d PNew (sreq o) (cbreg o) (links o) (ncomp o) (Some d) in
        if sreq o then
          (* callback_.construct runs the callback inline *)
          let '(s1, o2, e) := cancel_cb i o1 s in
          if crashed s1 then Some (s1, EStart i :: e)
          else
            let o3 := upd o2 (dueT o2) PQueued (sreq o2) false LSet (ncomp o2) (orig o2) in
            Some (put (set_q s1 (insert_timed (dueT o2, i) (q s1))) i o3, EStart i :: e)
        else
          let o3 := upd o1 d PQueued false true LSet (ncomp o1) (orig o1) in
          Some (put (set_q s (insert_timed (d, i) (q s))) i o3, [EStart i])
    | _ => None
    end
  end.

(* request_stop on operation i's source *)
Definition step_stop (i : nat) (s : st) : option (st * list ev) :=
  match nth_error (ops s) i with
  | None => None
  | Some o =>
    if sreq o then None
    else
      let o1 := upd o (dueT o) (ph o) true false (links o) (ncomp o) (orig o) in
      if cbreg o then
        let '(s1, o2, e) := cancel_cb i o1 s in
        if crashed s1 then Some (s1, EStop i :: e) else Some (put s1 i o2, EStop i :: e)
      else Some (put s i o1, [EStop i])
  end.

(* run_until_empty (cpp 70-90) *)
Definition step_loop (s : st) : option (st * list ev) :=
  if inloop s then
    match q s with
    | [] => Some (mkst (now s) (q s) false (lastTime s) (crashed s) (ops s), [EExit])
    | x :: tl =>
        let i := id x in
        match nth_error (ops s) i with
        | None => None
        | Some o =>
          let lt1 := if lastTime s <? due x then now s else lastTime s in      (* cpp 73-74 *)
          let now2 := if lt1 <? due x then Z.max (now s) (due x) else now s in (* cpp 75-76: sleep_until *)
          let lt2 := if lt1 <? due x then now2 else lt1 in
          let o' := upd o (dueT o) PDone (sreq o) false (links o) (S (ncomp o)) (orig o) in
          Some (mkst now2 tl true lt2 (crashed s) (set_nth i o' (ops s)),
                [if sreq o then EDone i now2 else EFire i now2])
        end
    end
  else Some (mkst (now s) (q s) true (now s) (crashed s) (ops s), [EEnter]).

Definition step_clock (k : nat) (s : st) : option (st * list ev) :=
  let t := now s + Z.of_nat (S k) in
  Some (mkst t (q s) (inloop s) (lastTime s) (crashed s) (ops s), [EClock t]).

Definition nops (s : st) : nat := length (ops s).

Definition step (t : nat) (s : st) : option (st * list ev) :=
  if crashed s then None
  else
    let n := nops s in
    if Nat.eqb t 0 then step_loop s
    else if Nat.leb t n then step_start (t - 1) s
    else if Nat.leb t (2 * n) then step_stop (t - 1 - n) s
    else step_clock (t - (2 * n + 1)) s.

Definition init_op (l0 : lnk) (spec : bool * Z) : op :=
  mkop (fst spec) (snd spec) None 0 PNew false false l0 0.

Definition init (l0 : lnk) (now0 : Z) (specs : list (bool * Z)) : st :=
  mkst now0 [] false now0 false (map (init_op l0) specs).

Definition completions (s : st) : list nat := map ncomp (ops s).
Definition queue_ids (s : st) : list nat := map id (q s).

End UnsafeLoop.
