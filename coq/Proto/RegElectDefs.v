(* E1 model RegElect(variant, n): the reference-count completion election of
     when_all_range  (include/unifex/when_all_range.hpp: _operation::type::{start, request_stop,
                      element_complete}, _element_receiver::type::{set_value, set_error, set_done})
     stop_when       (include/unifex/stop_when.hpp: _op::type::{start, notify_trigger_complete,
                      deliver_result}, cancel_callback::operator())
   TOGETHER WITH the registration of the operation's stop callback on the receiver's stop token
   and the operation's own stop source.  (when_all itself is Proto/RefElectDefs.v; when_any is
   when_all + let/just adaptors, include/unifex/when_any.hpp:66, it has no election of its own.)

   The receiver's stop source (inplace_stop_token.hpp / source/inplace_stop_token.cpp, property C03)
   is abstracted at its linearisation points exactly as in Proto/StopOnRequestDefs.v:
     REG     try_add_callback by start(): the lock CAS 0 -> 2, or the load / failed CAS that
             observes the stop bit (then the callback runs INLINE inside its constructor on the
             start thread and its source_ is cleared: its destructor does nothing)
     SET     request_stop of the receiver's source: the CAS 0 -> 3; under the lock just taken the
             registered callback (if any) is claimed for execution on the requester's thread
     DEREG   remove_callback's lock acquisition: still registered -> unlinked; executing on the
             same thread (the callback deregisters itself) -> removedDuringCallback, returns at
             once; executing / executed on another thread -> must wait
     WAIT    the spin on callbackCompleted_ (blocking step)
     CBDONE  the requester stores callbackCompleted_ after the callback returned (skipped when the
             callback was removed during its own execution)
   The operation's own stop source (stopSource_, the children's token) is abstracted to its stop
   bit: OWN = stopSource_.request_stop() linearised at the CAS 0 -> 3 or at the load that sees the
   bit already set.

   Thread ids (n = number of children): 0..n-1 = child i completes; n = start(); n+1 = the
   external requester of stop on the receiver's token; n+2 = the owner of the receiver, who
   destroys the operation as soon as the receiver has been completed.
   Executable definitions only. *)
From Coq Require Import ZArith List Bool Arith.
Import ListNotations.
Local Open Scope Z_scope.

Module RegElect.

Inductive variant := VRange | VStopWhen.
Inductive outcome := OVal | OErr | ODone.

(* life of the stop callback object (stopCallback_, a member of the operation state) *)
Inductive cbst :=
| BNew        (* not constructed yet *)
| BReg        (* constructed and linked into the receiver's source *)
| BInline     (* the source was already stopped: ran inline in its constructor, source_ = nullptr *)
| BExec       (* claimed by request_stop of the source: executing on the requester's thread *)
| BDone       (* executed and callbackCompleted_ = true *)
| BUnlinked   (* destructed while still registered: unlinked *)
| BRemoved    (* destructed from inside its own execution: removedDuringCallback set *)
| BJoined.    (* destructed after the executing thread had stored callbackCompleted_ *)

(* program counter of child i (the thread that completes it) *)
Inductive kpc :=
| KXchg (o : outcome)   (* range, error/done: about to doneOrError_.exchange(true)   when_all_range.hpp:223,232 *)
| KOwn (r : option outcome)
                        (* about to stopSource_.request_stop() (range: after winning the exchange, 226/233;
                           stop_when: always, stop_when.hpp:227).  r = Some o: this is stop_when's source,
                           result_ := o has just been emplaced (stop_when.hpp:66-85) *)
| KSub                  (* about to refCount_/activeOpCount_.fetch_sub(1)  when_all_range.hpp:149, stop_when.hpp:228 *)
| KDereg                (* elected: stopCallback_.destruct() / reset(): remove_callback's lock  150 / 229 *)
| KWait                 (* ... spinning on callbackCompleted_ *)
| KLoad                 (* range: doneOrError_.load() (152) then complete the receiver; stop_when: deliver_result() *)
| KFin.

(* the body of the stop callback: when_all_range.hpp:138-147 (request_stop + element_complete),
   stop_when.hpp:200-222 (cancel_callback::operator()) *)
Inductive cpc :=
| CIdle                 (* not invoked *)
| CAdd                  (* about to fetch_add(1) *)
| COwn                  (* read non-zero: about to stopSource_.request_stop() *)
| CSub                  (* about to fetch_sub(1) *)
| CDereg                (* elected: destruct()/reset() of the callback from inside the callback *)
| CLoad                 (* about to deliver *)
| CBail                 (* returned: fetch_add had read 0 *)
| CRet.                 (* returned after forwarding the stop *)

(* start()  when_all_range.hpp:123-136, stop_when.hpp:186-191 *)
Inductive spc :=
| SReg                  (* about to construct the stop callback (or, range with no child, to complete at once) *)
| SInl                  (* the callback runs inline inside its constructor; its position is [cb] *)
| SStart (i : nat)      (* about to start child i *)
| SFin.

(* the external requester: inplace_stop_source::request_stop  inplace_stop_token.cpp:39-75 *)
Inductive rpc :=
| RSet                  (* about to CAS the source's state 0 -> 3 *)
| RCb                   (* the callback was claimed: running it; its position is [cb] *)
| RStore                (* the callback returned, not removed: about to store callbackCompleted_ *)
| RFin.

Record st := {
  var : variant;
  rc : Z;                     (* refCount_ / activeOpCount_ *)
  doe : bool;                 (* doneOrError_ (range) *)
  first : option outcome;     (* range: outcome of the child that won the doneOrError_ exchange (error_ / nothing);
                                 stop_when: result_ (None = the empty tuple) *)
  winner : option nat;        (* ghost: index of the child that won the exchange *)
  ext : bool;                 (* stop bit of the receiver's source *)
  own : bool;                 (* stop bit of stopSource_ *)
  cbk : cbst;                 (* the stop callback object *)
  kids : list kpc;
  cb : cpc;
  sp : spc;
  rq : rpc;
  (* ghost *)
  delivered : list outcome;   (* completions of the receiver, newest first *)
  destroyed : bool;           (* the owner destroyed the operation *)
  late : nat;                 (* accesses to operation state made after the receiver was completed *)
  badreg : nat                (* completions at which the stop callback was still registered *)
}.

Inductive ev :=
| EReg (inl : bool)                  (* REG; inl: the stop bit was observed *)
| ESet                               (* SET *)
| EDereg (stopped : bool)            (* DEREG: lock() of the receiver's source, stop bit as given *)
| EWait                              (* callbackCompleted_ read as true *)
| ECbDone                            (* callbackCompleted_ stored *)
| ERc (sub : bool) (old new : Z)     (* fetch_sub / fetch_add *)
| EDoeX (old : bool)                 (* doneOrError_.exchange(true) *)
| EDoeL (v : bool)                   (* doneOrError_.load() *)
| EOwn (was : bool)                  (* stopSource_.request_stop(); was: already requested *)
| EStart (i : nat) (stop : bool)     (* child i is started; the stop bit of its token as it reads it *)
| ERoot (o : outcome)                (* the receiver is completed *)
| EDestroy.                          (* the owner destroys the operation *)

Fixpoint set_nth {A} (n : nat) (x : A) (l : list A) : list A :=
  match l, n with
  | [], _ => []
  | _ :: r, O => x :: r
  | y :: r, S n' => y :: set_nth n' x r
  end.

Definition freed (s : st) : bool := match delivered s with [] => false | _ => true end.

(* the callback is still known to the receiver's source, or not yet destructed after it ran there *)
Definition registered (b : cbst) : bool :=
  match b with BReg | BExec | BDone => true | _ => false end.

(* the destructor of a callback that ran inline (source_ = nullptr) does nothing
   (inplace_stop_token.hpp:196-200): no step *)
Definition needs_dereg (b : cbst) : bool := match b with BInline => false | _ => true end.

(* an access to operation state: late if the receiver has already been completed *)
Definition touch (s : st) : st :=
  {| var := var s; rc := rc s; doe := doe s; first := first s; winner := winner s; ext := ext s;
     own := own s; cbk := cbk s; kids := kids s; cb := cb s; sp := sp s; rq := rq s;
     delivered := delivered s; destroyed := destroyed s;
     late := if freed s then S (late s) else late s; badreg := badreg s |}.
Definition set_rc (s : st) (v : Z) : st :=
  {| var := var s; rc := v; doe := doe s; first := first s; winner := winner s; ext := ext s;
     own := own s; cbk := cbk s; kids := kids s; cb := cb s; sp := sp s; rq := rq s;
     delivered := delivered s; destroyed := destroyed s; late := late s; badreg := badreg s |}.
(* child i exchanges doneOrError_ with outcome o *)
Definition set_doe (s : st) (i : nat) (o : outcome) : st :=
  {| var := var s; rc := rc s; doe := true;
     first := if doe s then first s else Some o;
     winner := if doe s then winner s else Some i; ext := ext s;
     own := own s; cbk := cbk s; kids := kids s; cb := cb s; sp := sp s; rq := rq s;
     delivered := delivered s; destroyed := destroyed s; late := late s; badreg := badreg s |}.
(* stop_when's source stores result_ *)
Definition set_res (s : st) (r : option outcome) : st :=
  {| var := var s; rc := rc s; doe := doe s;
     first := match r with Some o => Some o | None => first s end;
     winner := winner s; ext := ext s;
     own := own s; cbk := cbk s; kids := kids s; cb := cb s; sp := sp s; rq := rq s;
     delivered := delivered s; destroyed := destroyed s; late := late s; badreg := badreg s |}.
Definition set_ext (s : st) : st :=
  {| var := var s; rc := rc s; doe := doe s; first := first s; winner := winner s; ext := true;
     own := own s; cbk := cbk s; kids := kids s; cb := cb s; sp := sp s; rq := rq s;
     delivered := delivered s; destroyed := destroyed s; late := late s; badreg := badreg s |}.
Definition set_own (s : st) : st :=
  {| var := var s; rc := rc s; doe := doe s; first := first s; winner := winner s; ext := ext s;
     own := true; cbk := cbk s; kids := kids s; cb := cb s; sp := sp s; rq := rq s;
     delivered := delivered s; destroyed := destroyed s; late := late s; badreg := badreg s |}.
Definition set_cbk (s : st) (b : cbst) : st :=
  {| var := var s; rc := rc s; doe := doe s; first := first s; winner := winner s; ext := ext s;
     own := own s; cbk := b; kids := kids s; cb := cb s; sp := sp s; rq := rq s;
     delivered := delivered s; destroyed := destroyed s; late := late s; badreg := badreg s |}.
Definition set_kid (s : st) (i : nat) (p : kpc) : st :=
  {| var := var s; rc := rc s; doe := doe s; first := first s; winner := winner s; ext := ext s;
     own := own s; cbk := cbk s; kids := set_nth i p (kids s); cb := cb s; sp := sp s; rq := rq s;
     delivered := delivered s; destroyed := destroyed s; late := late s; badreg := badreg s |}.
Definition set_cb (s : st) (p : cpc) : st :=
  {| var := var s; rc := rc s; doe := doe s; first := first s; winner := winner s; ext := ext s;
     own := own s; cbk := cbk s; kids := kids s; cb := p; sp := sp s; rq := rq s;
     delivered := delivered s; destroyed := destroyed s; late := late s; badreg := badreg s |}.
Definition set_sp (s : st) (p : spc) : st :=
  {| var := var s; rc := rc s; doe := doe s; first := first s; winner := winner s; ext := ext s;
     own := own s; cbk := cbk s; kids := kids s; cb := cb s; sp := p; rq := rq s;
     delivered := delivered s; destroyed := destroyed s; late := late s; badreg := badreg s |}.
Definition set_rq (s : st) (p : rpc) : st :=
  {| var := var s; rc := rc s; doe := doe s; first := first s; winner := winner s; ext := ext s;
     own := own s; cbk := cbk s; kids := kids s; cb := cb s; sp := sp s; rq := p;
     delivered := delivered s; destroyed := destroyed s; late := late s; badreg := badreg s |}.
(* set_value / set_error / set_done on the receiver *)
Definition deliver (s : st) (o : outcome) : st :=
  {| var := var s; rc := rc s; doe := doe s; first := first s; winner := winner s; ext := ext s;
     own := own s; cbk := cbk s; kids := kids s; cb := cb s; sp := sp s; rq := rq s;
     delivered := o :: delivered s; destroyed := destroyed s; late := late s;
     badreg := if registered (cbk s) then S (badreg s) else badreg s |}.
Definition set_destroyed (s : st) : st :=
  {| var := var s; rc := rc s; doe := doe s; first := first s; winner := winner s; ext := ext s;
     own := own s; cbk := cbk s; kids := kids s; cb := cb s; sp := sp s; rq := rq s;
     delivered := delivered s; destroyed := true; late := late s; badreg := badreg s |}.

(* What the elected thread hands to the receiver.
   range (when_all_range.hpp:152-182): doneOrError_ ? (error_ ? set_error : set_done) : set_value(vector of values)
     -- the allocation failure of that vector (-> set_error(bad_alloc)) is not modelled;
   stop_when (stop_when.hpp:234-258): std::visit on result_; the empty tuple -> std::terminate(),
     modelled as "cannot move" (None). *)
Definition result (s : st) : option outcome :=
  match var s with
  | VRange => Some (if doe s then match first s with Some o => o | None => ODone end else OVal)
  | VStopWhen => first s
  end.
Definition load_evs (s : st) (o : outcome) : list ev :=
  match var s with
  | VRange => [EDoeL (doe s); ERoot o]
  | VStopWhen => [ERoot o]
  end.

Definition nkids (s : st) : nat := length (kids s).

(* child i has been started by start() *)
Definition started (s : st) (i : nat) : bool :=
  match sp s with SStart j => Nat.ltb i j | SFin => true | _ => false end.

Definition after_sub_k (s : st) (old : Z) : kpc :=
  if old =? 1 then (if needs_dereg (cbk s) then KDereg else KLoad) else KFin.
Definition after_sub_c (s : st) (old : Z) : cpc :=
  if old =? 1 then (if needs_dereg (cbk s) then CDereg else CLoad) else CRet.

(* thread i < n *)
Definition step_kid (i : nat) (s : st) : option (st * list ev) :=
  if negb (started s i) then None else
  match nth_error (kids s) i with
  | None => None
  | Some (KXchg o) =>
      let old := doe s in
      Some (set_kid (set_doe (touch s) i o) i (if old then KSub else KOwn None), [EDoeX old])
  | Some (KOwn r) =>
      Some (set_kid (set_own (set_res (touch s) r)) i KSub, [EOwn (own s)])
  | Some KSub =>
      let old := rc s in
      Some (set_kid (set_rc (touch s) (old - 1)) i (after_sub_k s old), [ERc true old (old - 1)])
  | Some KDereg =>
      (* remove_callback on a thread that is not the notifying thread  inplace_stop_token.cpp:142-173 *)
      match cbk s with
      | BReg => Some (set_kid (set_cbk (touch s) BUnlinked) i KLoad, [EDereg (ext s)])
      | BExec | BDone => Some (set_kid (touch s) i KWait, [EDereg (ext s)])
      | _ => None
      end
  | Some KWait =>
      match cbk s with
      | BDone => Some (set_kid (set_cbk (touch s) BJoined) i KLoad, [EWait])
      | _ => None
      end
  | Some KLoad =>
      match result s with
      | Some o => Some (deliver (set_kid (touch s) i KFin) o, load_evs s o)
      | None => None
      end
  | Some KFin => None
  end.

(* one step of the callback body on its host thread; stopper = true: on the requester's thread
   (the notifying thread), false: inline on the start thread *)
Definition step_cb (stopper : bool) (s : st) : option (st * list ev) :=
  match cb s with
  | CAdd =>
      let old := rc s in
      Some (set_cb (set_rc (touch s) (old + 1)) (if old =? 0 then CBail else COwn),
            [ERc false old (old + 1)])
  | COwn => Some (set_cb (set_own (touch s)) CSub, [EOwn (own s)])
  | CSub =>
      let old := rc s in
      Some (set_cb (set_rc (touch s) (old - 1)) (after_sub_c s old), [ERc true old (old - 1)])
  | CDereg =>
      (* remove_callback on the notifying thread: removedDuringCallback, returns at once *)
      if stopper then
        match cbk s with
        | BExec => Some (set_cb (set_cbk (touch s) BRemoved) CLoad, [EDereg (ext s)])
        | _ => None
        end
      else None
  | CLoad =>
      match result s with
      | Some o => Some (deliver (set_cb (touch s) CRet) o, load_evs s o)
      | None => None
      end
  | _ => None
  end.

Definition cb_term (c : cpc) : bool := match c with CBail | CRet => true | _ => false end.

Definition first_start (s : st) : spc := if Nat.ltb 0 (nkids s) then SStart 0 else SFin.

(* thread n *)
Definition step_start (s : st) : option (st * list ev) :=
  match sp s with
  | SReg =>
      match kids s, var s with
      | [], VRange =>
          (* numHolders_ == 0: complete immediately, no callback  when_all_range.hpp:124-127 *)
          Some (deliver (set_sp (touch s) SFin) OVal, [ERoot OVal])
      | _, _ =>
          if ext s
          then Some (set_sp (set_cb (set_cbk (touch s) BInline) CAdd) SInl, [EReg true])
          else Some (set_sp (set_cbk (touch s) BReg) (first_start s), [EReg false])
      end
  | SInl =>
      match step_cb false s with
      | Some (s', evs) => Some (if cb_term (cb s') then set_sp s' (first_start s') else s', evs)
      | None => None
      end
  | SStart i =>
      if Nat.ltb i (nkids s)
      then Some (set_sp (touch s) (if Nat.ltb (S i) (nkids s) then SStart (S i) else SFin),
                 [EStart i (own s)])
      else None
  | SFin => None
  end.

(* after the callback returned: inplace_stop_token.cpp:63-66 *)
Definition after_cb (s : st) : rpc := match cbk s with BRemoved => RFin | _ => RStore end.

(* thread n+1 *)
Definition step_req (s : st) : option (st * list ev) :=
  match rq s with
  | RSet =>
      if ext s then None
      else match cbk s with
           | BReg => Some (set_rq (set_cb (set_cbk (set_ext (touch s)) BExec) CAdd) RCb, [ESet])
           | _ => Some (set_rq (set_ext s) RFin, [ESet])
           end
  | RCb =>
      match step_cb true s with
      | Some (s', evs) => Some (if cb_term (cb s') then set_rq s' (after_cb s') else s', evs)
      | None => None
      end
  | RStore => Some (set_rq (set_cbk (touch s) BDone) RFin, [ECbDone])
  | RFin => None
  end.

(* thread n+2 *)
Definition step_owner (s : st) : option (st * list ev) :=
  if freed s && negb (destroyed s) then Some (set_destroyed s, [EDestroy]) else None.

Definition step (t : nat) (s : st) : option (st * list ev) :=
  if Nat.ltb t (nkids s) then step_kid t s
  else if Nat.eqb t (nkids s) then step_start s
  else if Nat.eqb t (S (nkids s)) then step_req s
  else if Nat.eqb t (S (S (nkids s))) then step_owner s
  else None.

Definition kid_start_r (o : outcome) : kpc := match o with OVal => KSub | _ => KXchg o end.
(* stop_when: child 0 is the source (its outcome becomes result_), the others are triggers *)
Definition kids_sw (outs : list outcome) : list kpc :=
  match outs with
  | [] => []
  | a :: r => KOwn (Some a) :: map (fun _ => KOwn None) r
  end.

(* outs: the outcome of every child (stop_when: [source; trigger], the count is then the literal 2 of
   stop_when.hpp:276); req: the requester will call request_stop; pre: the receiver's source is
   already stopped before start() *)
Definition init (v : variant) (outs : list outcome) (req pre : bool) : st :=
  {| var := v; rc := Z.of_nat (length outs); doe := false; first := None; winner := None;
     ext := pre; own := false; cbk := BNew;
     kids := match v with VRange => map kid_start_r outs | VStopWhen => kids_sw outs end;
     cb := CIdle; sp := SReg; rq := if req && negb pre then RSet else RFin;
     delivered := []; destroyed := false; late := 0%nat; badreg := 0%nat |}.

Definition kid_fin (p : kpc) : bool := match p with KFin => true | _ => false end.
Definition sfin (p : spc) : bool := match p with SFin => true | _ => false end.
Definition rfin (p : rpc) : bool := match p with RFin => true | _ => false end.
(* nothing left to do: start() returned, every child's completion returned, the requester returned,
   and the owner has destroyed the operation if it was ever completed *)
Definition quiescent (s : st) : bool :=
  sfin (sp s) && forallb kid_fin (kids s) && rfin (rq s) && (negb (freed s) || destroyed s).

End RegElect.
