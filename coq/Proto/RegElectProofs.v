(* Proofs about the E1 model RegElect (Proto/RegElectDefs.v): the completion election of
   when_all_range / stop_when together with the registration of the stop callback on the receiver's
   token, the operation's own stop source, the start loop and the destruction of the operation.
   Everything is proved for both variants, an arbitrary list of child outcomes (any n, including
   n = 0), both stop modes and an arbitrary schedule (any length, any thread ids).  The core is
   one inductive state invariant [Inv] (control, election, registration) preserved separately by
   step_kid / step_cb / step_start / step_req / step_owner, and a second one [InvR] (the result)
   proved on top of it; both are lifted with run_invariant_state. *)
From Coq Require Import ZArith List Bool Lia Arith.
From V Require Import Base.Sched Proto.RegElectDefs.
Import ListNotations.
Import RegElect.

(* ------------------------------------------------------------------------------------------ *)
(* list helpers                                                                               *)

Lemma set_nth_length {A} (i : nat) (x : A) (l : list A) : length (set_nth i x l) = length l.
Proof. revert i; induction l as [|y r IH]; intros [|i]; cbn; auto. Qed.

Lemma nth_error_set_nth_eq {A} (i : nat) (x : A) (l : list A) :
  i < length l -> nth_error (set_nth i x l) i = Some x.
Proof.
  revert i; induction l as [|y r IH]; intros [|i] Hlt; cbn in *; try lia; auto.
  apply IH; lia.
Qed.

Lemma nth_error_set_nth_neq {A} (i j : nat) (x : A) (l : list A) :
  i <> j -> nth_error (set_nth i x l) j = nth_error l j.
Proof.
  revert i j; induction l as [|y r IH]; intros [|i] [|j] Hne; cbn; auto; try congruence.
Qed.

Lemma set_nth_nil_iff {A} (i : nat) (x : A) (l : list A) : set_nth i x l = [] <-> l = [].
Proof. destruct l, i; cbn; split; congruence. Qed.

Lemma Forall2_set_nth {A B} (R : A -> B -> Prop) l1 l2 i p q :
  Forall2 R l1 l2 -> nth_error l2 i = Some p ->
  (forall a, nth_error l1 i = Some a -> R a p -> R a q) ->
  Forall2 R l1 (set_nth i q l2).
Proof.
  intros H; revert i; induction H as [|a b l1 l2 Hab H IH]; intros [|i] Hn Himp;
    cbn in *; try discriminate.
  - injection Hn as ->. constructor; auto.
  - constructor; auto.
Qed.

Lemma Forall2_nth_r {A B} (R : A -> B -> Prop) l1 l2 i p :
  Forall2 R l1 l2 -> nth_error l2 i = Some p ->
  exists a, nth_error l1 i = Some a /\ R a p.
Proof.
  intros H; revert i; induction H as [|a b l1 l2 Hab H IH]; intros [|i] Hn;
    cbn in *; try discriminate.
  - injection Hn as ->. eauto.
  - eauto.
Qed.

Lemma Forall2_map_r {A B} (R : A -> B -> Prop) (f : A -> B) l :
  (forall a, R a (f a)) -> Forall2 R l (map f l).
Proof. intros H; induction l; cbn; constructor; auto. Qed.

Lemma forallb_false_nth {A} (f : A -> bool) l :
  forallb f l = false -> exists i p, nth_error l i = Some p /\ f p = false.
Proof.
  induction l as [|y r IH]; cbn; [discriminate|].
  destruct (f y) eqn:Ey; cbn.
  - intros H. destruct (IH H) as (i & p & Hn & Hp). exists (S i), p. auto.
  - intros _. exists 0, y. auto.
Qed.

(* ------------------------------------------------------------------------------------------ *)
(* counting program counters                                                                  *)

Definition b2n (b : bool) : nat := if b then 1 else 0.

Fixpoint count_if (f : kpc -> bool) (l : list kpc) : nat :=
  match l with
  | [] => 0
  | p :: r => b2n (f p) + count_if f r
  end.

Lemma count_set_nth f i p q l :
  nth_error l i = Some p ->
  count_if f (set_nth i q l) + b2n (f p) = count_if f l + b2n (f q).
Proof.
  revert i; induction l as [|y r IH]; intros [|i] H; cbn in *; try discriminate.
  - injection H as ->. lia.
  - specialize (IH i H). lia.
Qed.

Lemma count_zero_Forall f l : count_if f l = 0 -> Forall (fun p => f p = false) l.
Proof.
  induction l as [|y r IH]; cbn; intros H; constructor.
  - destruct (f y); cbn in H; [lia|reflexivity].
  - apply IH. lia.
Qed.

Lemma Forall_count_zero f l : Forall (fun p => f p = false) l -> count_if f l = 0.
Proof. induction 1 as [|y r Hy _ IH]; cbn; [reflexivity|]. rewrite Hy, IH. reflexivity. Qed.

Lemma count_pos_nth f l i p : nth_error l i = Some p -> f p = true -> count_if f l <> 0.
Proof.
  revert i; induction l as [|y r IH]; intros [|i] H Hp; cbn in *; try discriminate.
  - injection H as ->. rewrite Hp. cbn. lia.
  - specialize (IH i H Hp). lia.
Qed.

Lemma count_nil f : count_if f [] = 0.
Proof. reflexivity. Qed.

(* a child that has not yet executed its fetch_sub: it holds a count *)
Definition actv (p : kpc) : bool := match p with KXchg _ | KOwn _ | KSub => true | _ => false end.
Definition isD (p : kpc) : bool := match p with KDereg => true | _ => false end.
Definition isW (p : kpc) : bool := match p with KWait => true | _ => false end.
Definition isL (p : kpc) : bool := match p with KLoad => true | _ => false end.
(* the callback between its fetch_add (non-zero) and its fetch_sub *)
Definition cbA (c : cpc) : nat := match c with COwn | CSub => 1 | _ => 0 end.
(* the callback elected *)
Definition cbE (c : cpc) : nat := match c with CDereg | CLoad => 1 | _ => 0 end.

Definition nA (s : st) : nat := count_if actv (kids s).
Definition nD (s : st) : nat := count_if isD (kids s).
Definition nW (s : st) : nat := count_if isW (kids s).
Definition nL (s : st) : nat := count_if isL (kids s).
(* threads past the election + completions *)
Definition nE (s : st) : nat := nD s + nW s + nL s + cbE (cb s) + length (delivered s).

Definition sp_run (p : spc) : bool := match p with SStart _ | SFin => true | _ => false end.
Definition cb_inl (c : cpc) : bool := match c with CAdd | COwn | CSub | CLoad => true | _ => false end.
Definition cb_pre (c : cpc) : bool := match c with CAdd | COwn | CSub | CDereg => true | _ => false end.
Definition cb_fwd (c : cpc) : bool := match c with CSub | CDereg | CLoad | CRet => true | _ => false end.

(* who hosts the callback body, in terms of the life of the callback object *)
Definition host_ok (s : st) : Prop :=
  match cbk s with
  | BNew => cb s = CIdle /\ (rq s = RSet \/ rq s = RFin) /\
            (sp s = SReg \/ (sp s = SFin /\ nkids s = 0 /\ var s = VRange))
  | BInline => rq s = RFin /\
               ((sp s = SInl /\ cb_inl (cb s) = true) \/ (sp_run (sp s) = true /\ cb_term (cb s) = true))
  | BReg | BUnlinked => cb s = CIdle /\ (rq s = RSet \/ rq s = RFin) /\ sp_run (sp s) = true
  | BExec => sp_run (sp s) = true /\
             ((rq s = RCb /\ cb_pre (cb s) = true) \/ (rq s = RStore /\ cb_term (cb s) = true))
  | BRemoved => sp_run (sp s) = true /\
                ((rq s = RCb /\ cb s = CLoad) \/ (rq s = RFin /\ cb s = CRet))
  | BDone | BJoined => sp_run (sp s) = true /\ rq s = RFin /\ cb_term (cb s) = true
  end.

Record Inv (s : st) : Prop := {
  (* a child that start() has not started yet still holds its count *)
  i_unst : forall i p, nth_error (kids s) i = Some p -> started s i = false -> actv p = true;
  i_spn : forall i, sp s = SStart i -> i < nkids s;
  (* the reference count: holders = active children + the callback between fetch_add and
     fetch_sub; or (bail-out) the callback added 1 to a zero count and returned *)
  i_rc : rc s = Z.of_nat (nA s + cbA (cb s)) \/ (rc s = 1%Z /\ cb s = CBail /\ nA s = 0);
  i_bail : cb s = CBail -> nA s = 0;
  (* election *)
  i_z0 : nkids s <> 0 -> nA s + cbA (cb s) = 0 -> nE s = 1;
  i_z1 : nA s + cbA (cb s) <> 0 -> nE s = 0;
  i_n0 : nkids s = 0 -> cbA (cb s) = 0 /\ cbE (cb s) = 0 /\
         length (delivered s) = match var s with VRange => b2n (sfin (sp s)) | VStopWhen => 0 end;
  (* the callback object / its host *)
  i_host : host_ok s;
  i_set : rq s = RSet -> ext s = false;
  (* the elected thread and the callback object *)
  i_d : nD s <> 0 -> cbk s = BReg \/ cbk s = BExec \/ cbk s = BDone;
  i_w : nW s <> 0 -> cbk s = BExec \/ cbk s = BDone;
  i_l : nL s <> 0 \/ cb s = CLoad \/ delivered s <> [] -> registered (cbk s) = false;
  i_e0 : nE s = 0 -> cbk s <> BUnlinked /\ cbk s <> BRemoved /\ cbk s <> BJoined;
  (* the stop request has been forwarded once the callback is past its request_stop *)
  i_own : cb_fwd (cb s) = true -> own s = true;
  i_late : late s = 0;
  i_badreg : badreg s = 0;
  (* range with no child: the callback is never constructed *)
  i_n0r : nkids s = 0 -> var s = VRange -> cbk s = BNew
}.

Ltac sim :=
  unfold host_ok, nE, nA, nD, nW, nL, nkids, started,
         touch, set_rc, set_doe, set_res, set_ext, set_own, set_cbk, set_kid, set_cb, set_sp,
         set_rq, deliver, set_destroyed, freed in *;
  cbn [var rc doe first winner ext own cbk kids cb sp rq delivered destroyed late badreg
       length cbA cbE] in *.

Lemma count_actv_r outs : count_if actv (map kid_start_r outs) = length outs.
Proof. induction outs as [|o r IH]; cbn; [reflexivity|]. rewrite IH. destruct o; reflexivity. Qed.
Lemma count_actv_sw outs : count_if actv (kids_sw outs) = length outs.
Proof.
  destruct outs as [|a r]; cbn; [reflexivity|]. f_equal.
  induction r as [|o r IH]; cbn; [reflexivity|]. rewrite IH. reflexivity.
Qed.
Lemma count_other_r f outs :
  (forall p, actv p = true -> f p = false) -> count_if f (map kid_start_r outs) = 0.
Proof.
  intros H. induction outs as [|o r IH]; cbn; [reflexivity|]. rewrite IH.
  rewrite H; [reflexivity|]. destruct o; reflexivity.
Qed.
Lemma count_other_sw f outs :
  (forall p, actv p = true -> f p = false) -> count_if f (kids_sw outs) = 0.
Proof.
  intros H. destruct outs as [|a r]; cbn; [reflexivity|]. rewrite H by reflexivity. cbn.
  induction r as [|o r IH]; cbn; [reflexivity|]. rewrite IH. rewrite H by reflexivity. reflexivity.
Qed.

Definition init_kids (v : variant) (outs : list outcome) : list kpc :=
  match v with VRange => map kid_start_r outs | VStopWhen => kids_sw outs end.

Lemma init_kids_actv v outs i p : nth_error (init_kids v outs) i = Some p -> actv p = true.
Proof.
  destruct v; cbn.
  - intros H. apply nth_error_In in H. apply in_map_iff in H as (o & <- & _). destruct o; reflexivity.
  - destruct outs as [|a r]; [destruct i; discriminate|]. destruct i; cbn.
    + intros H; injection H as <-. reflexivity.
    + intros H. apply nth_error_In in H. apply in_map_iff in H as (o & <- & _). reflexivity.
Qed.

Lemma init_kids_count_actv v outs : count_if actv (init_kids v outs) = length outs.
Proof. destruct v; [apply count_actv_r|apply count_actv_sw]. Qed.
Lemma init_kids_count_other v f outs :
  (forall p, actv p = true -> f p = false) -> count_if f (init_kids v outs) = 0.
Proof. destruct v; [apply count_other_r|apply count_other_sw]. Qed.
Lemma init_kids_nil v outs : init_kids v outs = [] <-> outs = [].
Proof. destruct v, outs; cbn; split; congruence. Qed.

Lemma Inv_init v outs req pre : Inv (init v outs req pre).
Proof.
  assert (HD : count_if isD (init_kids v outs) = 0) by (apply init_kids_count_other; intros []; cbn; congruence).
  assert (HW : count_if isW (init_kids v outs) = 0) by (apply init_kids_count_other; intros []; cbn; congruence).
  assert (HL : count_if isL (init_kids v outs) = 0) by (apply init_kids_count_other; intros []; cbn; congruence).
  pose proof (init_kids_count_actv v outs) as HA.
  unfold init. fold (init_kids v outs).
  constructor; sim; rewrite ?HD, ?HW, ?HL, ?HA in *.
  - intros i p H _. eapply init_kids_actv; eauto.
  - discriminate.
  - left. f_equal. lia.
  - discriminate.
  - intros Hne H0. exfalso. apply Hne. rewrite (proj2 (init_kids_nil v outs)); [reflexivity|]. destruct outs; [reflexivity|cbn in H0; lia].
  - reflexivity.
  - intros _. destruct v; auto.
  - split; [reflexivity|]. split; [destruct (req && negb pre); auto|left; reflexivity].
  - destruct pre; [rewrite andb_false_r; discriminate|reflexivity].
  - lia.
  - lia.
  - intros [H|[H|H]]; [lia|discriminate|congruence].
  - intros _. repeat split; discriminate.
  - discriminate.
  - reflexivity.
  - reflexivity.
  - reflexivity.
Qed.

(* ------------------------------------------------------------------------------------------ *)
(* consequences used while proving preservation                                               *)

(* somebody still holds a count, or somebody is elected and has not delivered yet: nothing was delivered *)
Lemma Inv_live_nodeliv s :
  Inv s -> nA s + cbA (cb s) + nD s + nW s + nL s + cbE (cb s) <> 0 -> delivered s = [].
Proof.
  intros HI H.
  assert (Hl : length (delivered s) = 0); [|destruct (delivered s); [reflexivity|discriminate]].
  destruct (Nat.eq_dec (nA s + cbA (cb s)) 0) as [H0|H0].
  - destruct (kids s) eqn:Hk.
    + assert (Hk0 : nkids s = 0) by (unfold nkids; rewrite Hk; reflexivity).
      destruct (i_n0 _ HI Hk0) as (Ha & He & _). unfold nA, nD, nW, nL in H. rewrite Hk in H. cbn in H. lia.
    + assert (Hne : nkids s <> 0) by (unfold nkids; rewrite Hk; discriminate).
      pose proof (i_z0 _ HI Hne H0) as Hz. unfold nE in Hz. lia.
  - pose proof (i_z1 _ HI H0) as Hz. unfold nE in Hz. lia.
Qed.

Lemma Inv_nE_le s : Inv s -> nkids s <> 0 -> nE s <= 1.
Proof.
  intros HI Hne. destruct (Nat.eq_dec (nA s + cbA (cb s)) 0) as [H0|H0].
  - rewrite (i_z0 _ HI Hne H0). lia.
  - rewrite (i_z1 _ HI H0). lia.
Qed.

Lemma unst_set_nth (stf : nat -> bool) i q l :
  (forall j p, nth_error l j = Some p -> stf j = false -> actv p = true) -> stf i = true ->
  forall j p, nth_error (set_nth i q l) j = Some p -> stf j = false -> actv p = true.
Proof.
  intros H Hi j p Hn Hj. destruct (Nat.eq_dec i j) as [<-|Hne]; [congruence|].
  rewrite nth_error_set_nth_neq in Hn by exact Hne. eauto.
Qed.

Lemma freed_nil s : delivered s = [] -> freed s = false.
Proof. unfold freed. intros ->. reflexivity. Qed.

Ltac fin := try solve [ assumption | reflexivity | discriminate | lia | congruence | tauto ].

(* ------------------------------------------------------------------------------------------ *)
(* preservation: a child's completion                                                          *)

Ltac show := match goal with |- ?G => idtac "GOAL" G end.
Ltac triv := try solve [assumption | reflexivity | discriminate].
Ltac prop := intuition (try lia; try congruence; try discriminate).
(* goal-only simplification *)
Ltac simg :=
  unfold host_ok, nE, nA, nD, nW, nL, nkids, started,
         touch, set_rc, set_doe, set_res, set_ext, set_own, set_cbk, set_kid, set_cb, set_sp,
         set_rq, deliver, set_destroyed, freed;
  cbn [var rc doe first winner ext own cbk kids cb sp rq delivered destroyed late badreg
       length cbA cbE].
(* arithmetic / propositional goals: drop the hypotheses about the callback object first *)
Ltac ari := try solve [
  repeat match goal with
  | H : match cbk _ with _ => _ end |- _ => clear H
  | H : _ -> cbk _ = _ \/ _ |- _ => clear H
  | H : _ -> registered _ = _ |- _ => clear H
  | H : _ -> cbk _ <> _ /\ _ |- _ => clear H
  | H : _ -> own _ = _ |- _ => clear H
  | H : _ -> ext _ = _ |- _ => clear H
  | H : _ -> delivered _ = [] |- _ => clear H
  end; prop ].
(* intuition / congruence are exponential in the disjunctive and quantified hypotheses: those that a goal
   does not need are wrapped in [Hide] (an atom for intuition) and unwrapped on demand *)
Definition Hide (P : Prop) : Prop := P.
Ltac hide H := let T := type of H in change (Hide T) in H.
Ltac unhide H := unfold Hide in H.
Ltac parith := try solve [prop].

Ltac norm_count H :=
  cbn [actv isD isW isL b2n] in H;
  try (rewrite !Nat.add_0_r in H);
  try (apply Nat.add_cancel_r in H).
Ltac counts HC q :=
  let CA := fresh "CA" in let CD := fresh "CD" in let CW := fresh "CW" in let CL := fresh "CL" in
  pose proof (HC actv q) as CA; pose proof (HC isD q) as CD;
  pose proof (HC isW q) as CW; pose proof (HC isL q) as CL;
  norm_count CA; norm_count CD; norm_count CW; norm_count CL.

Ltac kcase HC HP HU Hunst q :=
  counts HC q; clear HC HP;
  constructor; simg;
  repeat match goal with
  | H : count_if _ (set_nth _ _ _) = count_if _ _ |- _ => rewrite H
  end;
  rewrite ?set_nth_length; [apply HU|..]; clear HU Hunst; triv.

Lemma step_kid_inv i s s' evs : Inv s -> step_kid i s = Some (s', evs) -> Inv s'.
Proof.
  intros HI Hstep. unfold step_kid in Hstep.
  destruct (started s i) eqn:Hst; cbn [negb] in Hstep; [|discriminate].
  destruct (nth_error (kids s) i) as [p|] eqn:Hn; [|discriminate].
  assert (Hne : nkids s <> 0) by (unfold nkids; intros H0; destruct (kids s); [destruct i; discriminate|discriminate]).
  pose proof (Inv_nE_le _ HI Hne) as HEle.
  pose proof (Inv_live_nodeliv _ HI) as Hnod.
  pose proof (fun f => count_pos_nth f (kids s) i p Hn) as HP.
  assert (Hdl : delivered s = []).
  { destruct p; try (apply Hnod; first [pose proof (HP actv eq_refl)|pose proof (HP isD eq_refl)|pose proof (HP isW eq_refl)|pose proof (HP isL eq_refl)]; unfold nA, nD, nW, nL; lia).
    discriminate. }
  clear Hnod.
  destruct HI as [Hunst Hspn Hrc Hbail Hz0 Hz1 Hn0 Hhost Hset Hd Hw Hl He0 Hown Hlate Hbr Hn0r].
  sim. rewrite Hdl in *.
  pose proof (fun f q => count_set_nth f i p q (kids s) Hn) as HC.
  pose proof (fun q => unst_set_nth _ i q (kids s) Hunst Hst) as HU.
  destruct p as [o|r| | | | |].
  - (* KXchg *)
    injection Hstep as <- <-.
    destruct (doe s) eqn:Hdoe.
    + kcase HC HP HU Hunst KSub. all: show.
    + kcase HC HP HU Hunst (KOwn None).
  - (* KOwn *)
    injection Hstep as <- <-.
    kcase HC HP HU Hunst KSub.
  - (* KSub *)
    pose proof (HP actv eq_refl) as PA.
    destruct Hrc as [Hrc|(Hrc & Hc & HA0)]; [|exfalso; apply PA; exact HA0].
    unfold after_sub_k in Hstep.
    destruct (rc s =? 1)%Z eqn:E1; [apply Z.eqb_eq in E1|apply Z.eqb_neq in E1].
    + (* elected *)
      assert (HzE : count_if isD (kids s) + count_if isW (kids s) + count_if isL (kids s) + cbE (cb s) + 0 = 0) by (apply Hz1; lia).
      destruct (He0 HzE) as (Hb1 & Hb2 & Hb3).
      destruct (needs_dereg (cbk s)) eqn:End; injection Hstep as <- <-.
      * kcase HC HP HU Hunst KDereg. all: ari.
        intros _. destruct (cbk s); cbn in End; try discriminate; try congruence; auto.
        destruct Hhost as (_ & _ & [Hs|(Hs & Hk & _)]); [rewrite Hs in Hst; discriminate|contradiction].
      * kcase HC HP HU Hunst KLoad. all: ari.
        intros _. destruct (cbk s); cbn in End |- *; congruence.
    + injection Hstep as <- <-.
      kcase HC HP HU Hunst KFin. all: ari.
      all: show.
  - (* KDereg *)
    pose proof (HP isD eq_refl) as PD.
    destruct (cbk s) eqn:Hk; try discriminate; injection Hstep as <- <-.
    + kcase HC HP HU Hunst KLoad. all: ari. all: show.
    + kcase HC HP HU Hunst KWait. all: ari. all: show.
    + kcase HC HP HU Hunst KWait. all: ari. all: show.
  - (* KWait *)
    pose proof (HP isW eq_refl) as PW.
    destruct (cbk s) eqn:Hk; try discriminate; injection Hstep as <- <-.
    kcase HC HP HU Hunst KLoad. all: ari. all: show.
  - (* KLoad *)
    pose proof (HP isL eq_refl) as PL.
    destruct (result s) as [o|]; [|discriminate]. injection Hstep as <- <-.
    assert (Hreg : registered (cbk s) = false) by (apply Hl; left; exact PL).
    kcase HC HP HU Hunst KFin. all: ari.
    rewrite Hreg. exact Hbr.
  - discriminate.
Qed.

(* ------------------------------------------------------------------------------------------ *)
(* preservation: the requester, start(), the owner                                            *)

Lemma reg_nodeliv s : Inv s -> registered (cbk s) = true -> delivered s = [].
Proof.
  intros HI Hr. destruct (delivered s) eqn:Hd; [reflexivity|].
  assert (H : registered (cbk s) = false) by (apply (i_l _ HI); right; right; congruence).
  congruence.
Qed.

Lemma count_le_length f l : count_if f l <= length l.
Proof. induction l as [|y r IH]; cbn; [lia|]. destruct (f y); cbn; lia. Qed.

Ltac hideall Hunst Hspn Hset Hd Hw Hl He0 Hown :=
  hide Hunst; hide Hspn; hide Hset; hide Hd; hide Hw; hide Hl; hide He0; hide Hown.

Lemma step_req_inv s s' evs : Inv s -> step_req s = Some (s', evs) -> Inv s'.
Proof.
  intros HI Hstep. unfold step_req, step_cb, after_cb, after_sub_c in Hstep.
  pose proof (Inv_live_nodeliv _ HI) as Hnod.
  pose proof (reg_nodeliv _ HI) as Hregd.
  pose proof (count_le_length actv (kids s)) as Hcl.
  destruct HI as [Hunst Hspn Hrc Hbail Hz0 Hz1 Hn0 Hhost Hset Hd Hw Hl He0 Hown Hlate Hbr Hn0r].
  sim.
  destruct (rq s) eqn:Hrq.
  - (* RSet *)
    destruct (ext s) eqn:Hext; [discriminate|].
    destruct (cbk s) eqn:Hk; injection Hstep as <- <-.
    2: { (* BReg: claimed *)
      assert (Hdl : delivered s = []) by (apply Hregd; reflexivity).
      rewrite Hdl in *. clear Hnod Hregd. destruct Hhost as (Hcb & _ & Hsp). rewrite Hcb in *. cbn [cbA cbE] in *.
      hideall Hunst Hspn Hset Hd Hw Hl He0 Hown.
      constructor; simg; triv; parith. unhide Hl; cbn [registered] in *; parith. }
    all: clear Hnod Hregd; hideall Hunst Hspn Hset Hd Hw Hl He0 Hown.
    all: constructor; simg; triv; parith.
  - (* RCb *)
    assert (Hcase : (cbk s = BExec /\ cb_pre (cb s) = true /\ sp_run (sp s) = true) \/
                    (cbk s = BRemoved /\ cb s = CLoad /\ sp_run (sp s) = true)).
    { clear - Hhost. destruct (cbk s); intuition discriminate. }
    destruct Hcase as [(Hk & Hpre & Hsp)|(Hk & Hcb & Hsp)].
    + (* BExec *)
      assert (Hdl : delivered s = []) by (apply Hregd; rewrite Hk; reflexivity).
      rewrite Hk, Hdl in *. clear Hnod Hregd Hhost. cbn [registered needs_dereg] in *.
      destruct (cb s) eqn:Hcb; try discriminate.
      * (* CAdd *)
        destruct Hrc as [Hrc|(_ & Hc & _)]; [|discriminate]. cbn [cbA cbE] in *.
        destruct (rc s =? 0)%Z eqn:E0; [apply Z.eqb_eq in E0|apply Z.eqb_neq in E0]; cbn [cb_term cb cbk] in Hstep; injection Hstep as <- <-.
        -- hideall Hunst Hspn Hset Hd Hw Hl He0 Hown. constructor; simg; triv; parith.
           all: try (unhide Hl; cbn [registered] in *; parith).
        -- hideall Hunst Hspn Hset Hd Hw Hl He0 Hown. constructor; simg; triv; parith.
           all: try (unhide Hl; cbn [registered] in *; parith).
      * (* COwn *)
        cbn [cbA cbE cb_term cb cbk] in *. injection Hstep as <- <-.
        hideall Hunst Hspn Hset Hd Hw Hl He0 Hown. constructor; simg; triv; parith.
        all: try (unhide Hl; cbn [registered] in *; parith).
      * (* CSub *)
        destruct Hrc as [Hrc|(_ & Hc & _)]; [|discriminate]. cbn [cbA cbE] in *.
        destruct (rc s =? 1)%Z eqn:E1; [apply Z.eqb_eq in E1|apply Z.eqb_neq in E1]; cbn [cb_term cb cbk] in Hstep; injection Hstep as <- <-.
        -- hideall Hunst Hspn Hset Hd Hw Hl He0 Hown. constructor; simg; triv; parith.
           all: try (unhide Hl; cbn [registered] in *; parith).
        -- hideall Hunst Hspn Hset Hd Hw Hl He0 Hown. constructor; simg; triv; parith.
           all: try (unhide Hl; cbn [registered] in *; parith).
      * (* CDereg *)
        cbn [cbA cbE cb_term cb cbk] in *. injection Hstep as <- <-.
        hideall Hunst Hspn Hset Hd Hw Hl He0 Hown. constructor; simg; triv; parith.
        all: try (unhide Hl; cbn [registered] in *; parith).
    + (* BRemoved, CLoad *)
      assert (Hdl : delivered s = []) by (apply Hnod; rewrite Hcb; cbn; lia).
      rewrite Hk, Hcb, Hdl in *. clear Hnod Hregd Hhost. cbn [registered needs_dereg cbA cbE] in *.
      destruct (result s) as [o|]; [|discriminate]. cbn [cb_term cb cbk] in Hstep. injection Hstep as <- <-.
      hideall Hunst Hspn Hset Hd Hw Hl He0 Hown. constructor; simg; triv; parith.
      all: try (unhide Hl; cbn [registered] in *; parith).
  - (* RStore *)
    assert (Hcase : cbk s = BExec /\ cb_term (cb s) = true /\ sp_run (sp s) = true).
    { clear - Hhost. destruct (cbk s); intuition discriminate. }
    destruct Hcase as (Hk & Hterm & Hsp). injection Hstep as <- <-.
    assert (Hdl : delivered s = []) by (apply Hregd; rewrite Hk; reflexivity).
    rewrite Hk, Hdl in *. clear Hnod Hregd Hhost. cbn [registered needs_dereg] in *.
    hideall Hunst Hspn Hset Hd Hw Hl He0 Hown. constructor; simg; triv; parith.
    all: try (unhide Hl; cbn [registered] in *; parith).
  - discriminate.
Qed.

(* while start() has not started child 0, nothing has been delivered (n > 0) *)
Lemma unstarted_nodeliv s i p :
  Inv s -> nth_error (kids s) i = Some p -> started s i = false -> delivered s = [].
Proof.
  intros HI Hn Hs. apply (Inv_live_nodeliv _ HI).
  pose proof (count_pos_nth actv _ _ _ Hn (i_unst _ HI _ _ Hn Hs)). unfold nA. lia.
Qed.

Ltac leaf Hunst Hspn Hset Hd Hw Hl He0 Hown :=
  hideall Hunst Hspn Hset Hd Hw Hl He0 Hown; constructor; simg; triv; parith;
  try (unhide Hset; unhide Hl; cbn [registered cb_inl] in *; parith);
  try (intros ? HH; injection HH as <-; cbn; lia);
  try (match goal with |- context [var ?s] => destruct (var s) eqn:Hvar end; cbn [b2n sfin] in *; parith).
Ltac leaf0 s Hunst Hspn Hset Hd Hw Hl He0 Hown :=
  unfold nkids; cbn [kids];
  destruct (0 <? length (kids s)) eqn:Hlt0; [apply Nat.ltb_lt in Hlt0|apply Nat.ltb_ge in Hlt0];
  leaf Hunst Hspn Hset Hd Hw Hl He0 Hown.

Lemma step_start_inv s s' evs : Inv s -> step_start s = Some (s', evs) -> Inv s'.
Proof.
  intros HI Hstep. unfold step_start, step_cb, after_sub_c, first_start in Hstep.
  pose proof (Inv_live_nodeliv _ HI) as Hnod.
  pose proof (fun i p => unstarted_nodeliv s i p HI) as Hund.
  pose proof (count_le_length actv (kids s)) as Hcl.
  destruct HI as [Hunst Hspn Hrc Hbail Hz0 Hz1 Hn0 Hhost Hset Hd Hw Hl He0 Hown Hlate Hbr Hn0r].
  sim.
  destruct (sp s) eqn:Hsp.
  - (* SReg *)
    assert (Hcase : cbk s = BNew /\ cb s = CIdle /\ (rq s = RSet \/ rq s = RFin)).
    { clear - Hhost. destruct (cbk s); cbn in Hhost; intuition discriminate. }
    destruct Hcase as (Hk & Hcb & Hrq).
    assert (Hdl : delivered s = []).
    { destruct (kids s) as [|p l] eqn:Hkids.
      - destruct (Hn0 eq_refl) as (_ & _ & H). destruct (var s); cbn in H; destruct (delivered s); try discriminate; reflexivity.
      - apply (Hund 0 p); reflexivity. }
    rewrite Hk, Hcb, Hdl in *. clear Hnod Hund Hhost. cbn [registered needs_dereg cbA cbE] in *.
    destruct (kids s) as [|p l] eqn:Hkids; [destruct (var s) eqn:Hvar|].
    + (* no child, range: complete at once *)
      injection Hstep as <- <-.
      leaf Hunst Hspn Hset Hd Hw Hl He0 Hown.
    + destruct (ext s) eqn:Hext; injection Hstep as <- <-.
      * leaf Hunst Hspn Hset Hd Hw Hl He0 Hown.
      * leaf Hunst Hspn Hset Hd Hw Hl He0 Hown.
    + assert (PA : count_if actv (p :: l) <> 0).
      { assert (H : actv p = true) by (apply (Hunst 0 p); reflexivity). cbn. rewrite H. cbn. lia. }
      destruct (ext s) eqn:Hext; injection Hstep as <- <-.
      * leaf Hunst Hspn Hset Hd Hw Hl He0 Hown.
      * leaf Hunst Hspn Hset Hd Hw Hl He0 Hown.
  - (* SInl *)
    assert (Hcase : cbk s = BInline /\ cb_inl (cb s) = true /\ rq s = RFin).
    { clear - Hhost. destruct (cbk s); cbn in Hhost; intuition discriminate. }
    destruct Hcase as (Hk & Hinl & Hrq).
    assert (Hdl : delivered s = []).
    { destruct (kids s) as [|p l] eqn:Hkids.
      - destruct (Hn0 eq_refl) as (_ & _ & H). destruct (var s); cbn in H; destruct (delivered s); try discriminate; reflexivity.
      - apply (Hund 0 p); reflexivity. }
    assert (PA : length (kids s) <> 0 -> count_if actv (kids s) <> 0).
    { destruct (kids s) as [|p l] eqn:Hkids; [cbn; congruence|]. intros _.
      assert (H : actv p = true) by (apply (Hunst 0 p); reflexivity). cbn. rewrite H. cbn. lia. }
    rewrite Hk, Hrq, Hdl in *. clear Hnod Hund Hhost. cbn [registered needs_dereg] in *.
    destruct (cb s) eqn:Hcb; try discriminate.
    + (* CAdd *)
      destruct Hrc as [Hrc|(_ & Hc & _)]; [|discriminate]. cbn [cbA cbE] in *.
      destruct (rc s =? 0)%Z eqn:E0; [apply Z.eqb_eq in E0|apply Z.eqb_neq in E0]; cbn [cb_term cb cbk] in Hstep; injection Hstep as <- <-.
      * leaf0 s Hunst Hspn Hset Hd Hw Hl He0 Hown.
      * leaf0 s Hunst Hspn Hset Hd Hw Hl He0 Hown.
    + (* COwn *)
      cbn [cbA cbE cb_term cb cbk] in *. injection Hstep as <- <-.
      leaf0 s Hunst Hspn Hset Hd Hw Hl He0 Hown.
    + (* CSub *)
      destruct Hrc as [Hrc|(_ & Hc & _)]; [|discriminate]. cbn [cbA cbE] in *.
      destruct (rc s =? 1)%Z eqn:E1; [apply Z.eqb_eq in E1|apply Z.eqb_neq in E1]; cbn [cb_term cb cbk] in Hstep; injection Hstep as <- <-.
      * leaf0 s Hunst Hspn Hset Hd Hw Hl He0 Hown.
      * leaf0 s Hunst Hspn Hset Hd Hw Hl He0 Hown.
    + (* CLoad *)
      cbn [cbA cbE] in *.
      destruct (result s) as [o|]; [|discriminate]. cbn [cb_term cb cbk] in Hstep. injection Hstep as <- <-.
      leaf0 s Hunst Hspn Hset Hd Hw Hl He0 Hown.
  - (* SStart *)
    rename i into k.
    destruct (k <? length (kids s)) eqn:Hlt; [apply Nat.ltb_lt in Hlt|discriminate].
    destruct (nth_error (kids s) k) as [p|] eqn:Hn; [|apply nth_error_None in Hn; lia].
    assert (Hdl : delivered s = []) by (apply (Hund k p Hn); apply Nat.ltb_irrefl).
    rewrite Hdl in *. clear Hnod Hund.
    assert (Hu2 : forall i p, nth_error (kids s) i = Some p -> (i <? S k) = false -> actv p = true).
    { intros i0 p0 H1 H2. apply (Hunst i0 p0 H1). apply Nat.ltb_ge in H2. apply Nat.ltb_ge. lia. }
    destruct (S k <? length (kids s)) eqn:Hlt2; [apply Nat.ltb_lt in Hlt2|apply Nat.ltb_ge in Hlt2]; injection Hstep as <- <-.
    + constructor; simg; triv.
      all: try (intros ? HH; injection HH as <-; lia).
      all: try (clear - Hhost; destruct (cbk s); cbn in *; intuition discriminate).
      all: hideall Hunst Hspn Hset Hd Hw Hl He0 Hown; parith.
    + constructor; simg; triv.
      all: try (intros ? HH; discriminate HH).
      all: try (clear - Hhost; destruct (cbk s); cbn in *; intuition discriminate).
      all: hideall Hunst Hspn Hset Hd Hw Hl He0 Hown; parith.
  - discriminate.
Qed.

Lemma step_owner_inv s s' evs : Inv s -> step_owner s = Some (s', evs) -> Inv s'.
Proof.
  intros HI Hstep. unfold step_owner in Hstep.
  destruct (freed s && negb (destroyed s)); [|discriminate]. injection Hstep as <- <-.
  destruct HI as [Hunst Hspn Hrc Hbail Hz0 Hz1 Hn0 Hhost Hset Hd Hw Hl He0 Hown Hlate Hbr Hn0r].
  constructor; simg; assumption.
Qed.

Lemma step_inv t s s' evs : Inv s -> step t s = Some (s', evs) -> Inv s'.
Proof.
  intros HI Hstep. unfold step in Hstep.
  destruct (Nat.ltb t (nkids s)); [eapply step_kid_inv; eauto|].
  destruct (Nat.eqb t (nkids s)); [eapply step_start_inv; eauto|].
  destruct (Nat.eqb t (S (nkids s))); [eapply step_req_inv; eauto|].
  destruct (Nat.eqb t (S (S (nkids s)))); [eapply step_owner_inv; eauto|discriminate].
Qed.

(* the central invariant holds in every reachable state *)
Theorem inv_reachable v outs req pre sched :
  Inv (fst (run step sched (init v outs req pre, []))).
Proof.
  apply (run_invariant_state st nat ev step Inv).
  - intros s t s' evs HI Hs. eapply step_inv; eauto.
  - apply Inv_init.
Qed.
