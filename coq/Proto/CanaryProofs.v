(* Proofs about the E1 model Canary (Proto/CanaryDefs.v) by reflection on the complete set of
   reachable states (Proto/C19Reach.v): for each of the 4 parameter values the set is computed,
   its closure under both threads' steps and the properties of every element are re-checked by
   the kernel, and [check_with_sound] lifts them to every state of every run of an arbitrary
   schedule. *)
From Coq Require Import List Bool Arith Lia PArith NArith FMapPositive.
From V Require Import Base.Sched Proto.C19Reach Proto.CanaryDefs.
Import ListNotations.
Import Canary.

Definition ptr_eq_dec : forall a b : ptr, {a = b} + {a <> b}.
Proof. decide equality. Defined.
Definition wst_eq_dec : forall a b : wst, {a = b} + {a <> b}.
Proof. decide equality. Defined.
Definition pcw_eq_dec : forall a b : pcw, {a = b} + {a <> b}.
Proof. decide equality. Defined.
Definition pcc_eq_dec : forall a b : pcc, {a = b} + {a <> b}.
Proof. decide equality. Defined.
Definition st_eq_dec : forall a b : st, {a = b} + {a <> b}.
Proof.
  decide equality; try apply Bool.bool_dec; try apply Nat.eq_dec; try apply ptr_eq_dec;
    try apply wst_eq_dec; try apply pcw_eq_dec; try apply pcc_eq_dec.
  decide equality; apply Bool.bool_dec.
Defined.

Local Open Scope N_scope.
Definition nb (b : bool) : N := if b then 1 else 0.
Definition c_pcw (x : pcw) : N :=
  match x with W0Alive => 0 | W1Use => 1 | W2Release => 2 | W3Load => 3 | W4Lock => 4
             | W5Clear => 5 | W6Spin => 6 | W7Store => 7 | WFin => 8 end.
Definition c_pcc (x : pcc) : N :=
  match x with C0Load => 0 | C1Lock => 1 | C2LockW => 2 | C2Unlock => 3 | C2Spin => 4
             | C3Xchg => 5 | C4Spin => 6 | C5StoreW => 7 | C6StoreC => 8 | CFin => 9 end.
Definition code (s : st) : positive :=
  let a := N.of_nat (ptr_val (cw s)) in
  let a := a * 4 + N.of_nat (ptr_val (wc s)) in
  let a := a * 4 + N.of_nat (wst_val (ws s)) in
  let a := a * 16 + c_pcw (pw s) in
  let a := a * 16 + c_pcc (pc s) in
  let a := a * 4 + match guard s with None => 0 | Some false => 1 | Some true => 2 end in
  let a := a * 2 + nb (held s) in
  let a := a * 2 + nb (marked s) in
  let a := a * 2 + nb (amk s) in
  let a := a * 2 + nb (blocked_unheld s) in
  let a := a * 8 + N.of_nat (late s) in
  N.succ_pos a.
Local Close Scope N_scope.

Lemma step_bound p t s : 2 <= t -> step p t s = None.
Proof. destruct t as [|[|t]]; [lia|lia|reflexivity]. Qed.

Definition is_finw (x : pcw) : bool := match x with WFin => true | _ => false end.
Definition is_finc (x : pcc) : bool := match x with CFin => true | _ => false end.

Definition P_all (p : params) (s : st) : bool :=
  Nat.eqb (late s) 0 &&                                           (* no access to a destroyed object *)
  (negb (held s) || negb (cgone s)) &&                            (* a truthy guard keeps the canary alive *)
  (match guard s with Some false => marked s | _ => true end) &&  (* "dead" is reported only after ~canary marked the watcher *)
  (match guard s with Some g => Bool.eqb g (negb (amk s)) | None => true end) &&  (* alive() is truthy iff ~canary had not marked the watcher yet *)
  negb (blocked_unheld s) &&                                      (* ~canary waits at line 207 only while a guard is held *)
  (negb (quiescent p s) || (is_finw (pw s) && is_finc (pc s))) && (* no deadlock: both destructors return *)
  (negb (is_finw (pw s) && is_finc (pc s)) ||
     (match cw s with PNull => true | _ => false end)).            (* the canary's word is cleared at the end *)

Definition all_params : list params :=
  [ {| watched := false; ask := false |}; {| watched := false; ask := true |};
    {| watched := true; ask := false |}; {| watched := true; ask := true |} ].

Definition the_reach (p : params) := reach st ev code (step p) 2 2000 (init p).

Lemma check_all :
  forallb (fun p => check_with st ev st_eq_dec code (step p) 2 (P_all p) (init p) (the_reach p))
          all_params = true.
Proof. vm_compute. reflexivity. Qed.

Lemma params_in p : In p all_params.
Proof. destruct p as [[] []]; cbn; tauto. Qed.

Theorem P_all_reachable p sched : P_all p (fst (run (step p) sched (init p, []))) = true.
Proof.
  pose proof check_all as H. rewrite forallb_forall in H.
  specialize (H p (params_in p)). cbv beta in H.
  exact (check_with_sound st ev st_eq_dec code (step p) 2 (step_bound p) (P_all p) (init p)
           (the_reach p) H sched).
Qed.

Lemma P_all_spec p s : P_all p s = true ->
  late s = 0 /\
  (held s = true -> cgone s = false) /\
  (guard s = Some false -> marked s = true) /\
  (forall g, guard s = Some g -> g = negb (amk s)) /\
  blocked_unheld s = false /\
  (quiescent p s = true -> pw s = WFin /\ pc s = CFin /\ cw s = PNull).
Proof.
  unfold P_all. intros H.
  apply andb_true_iff in H as [H H7]. apply andb_true_iff in H as [H H6].
  apply andb_true_iff in H as [H H5]. apply andb_true_iff in H as [H H4].
  apply andb_true_iff in H as [H H3]. apply andb_true_iff in H as [H1 H2].
  apply Nat.eqb_eq in H1. apply negb_true_iff in H5.
  repeat split; try assumption.
  - intros Hh. rewrite Hh in H2. cbn in H2. apply negb_true_iff in H2. exact H2.
  - intros Hg. rewrite Hg in H3. exact H3.
  - intros g Hg. rewrite Hg in H4. apply Bool.eqb_prop in H4. exact H4.
  - rewrite H in H6. cbn in H6. apply andb_true_iff in H6 as [Ha _].
    destruct (pw s); try discriminate Ha; reflexivity.
  - rewrite H in H6. cbn in H6. apply andb_true_iff in H6 as [_ Hb].
    destruct (pc s); try discriminate Hb; reflexivity.
  - rewrite H in H6. cbn in H6. rewrite H6 in H7. cbn in H7.
    destruct (cw s); try discriminate H7; reflexivity.
Qed.

Section Main.
  Variable p : params.
  Variable sched : list nat.
  Let s := fst (run (step p) sched (init p, [])).

  (* no access to the canary's word or to the guarded operation state after ~canary returned,
     none to the watcher's words after ~watcher returned *)
  Theorem never_used_after_destruction : late s = 0.
  Proof. exact (proj1 (P_all_spec p s (P_all_reachable p sched))). Qed.

  (* a truthy guard keeps the canary (and the operation state around it) alive; alive() answers
     "dead" only if ~canary has already marked the watcher dead; more precisely alive() is truthy
     exactly when ~canary had not yet executed its exchange(dead) at that moment *)
  Theorem guard_protects_and_dead_means_destroyed :
    (held s = true -> cgone s = false) /\ (guard s = Some false -> marked s = true) /\
    (forall g, guard s = Some g -> g = negb (amk s)).
  Proof.
    destruct (P_all_spec p s (P_all_reachable p sched)) as (_ & H2 & H3 & H3' & _).
    repeat split; assumption.
  Qed.

  (* ~canary is made to wait on the guard word only while a guard is held *)
  Theorem destructor_blocks_only_while_guard_held : blocked_unheld s = false.
  Proof.
    destruct (P_all_spec p s (P_all_reachable p sched)) as (_ & _ & _ & _ & H4 & _). exact H4.
  Qed.

  (* no deadlock: when no thread can move both destructors have returned and the canary's word
     is null *)
  Theorem no_deadlock : quiescent p s = true -> pw s = WFin /\ pc s = CFin /\ cw s = PNull.
  Proof.
    destruct (P_all_spec p s (P_all_reachable p sched)) as (_ & _ & _ & _ & _ & H5). exact H5.
  Qed.
End Main.
