(* Proofs about the E1 model TypeEraseNext (Proto/TypeEraseNextDefs.v).

   The model is cyclic (every next() round re-uses the same finite state), has one boolean
   parameter and six thread ids; the proofs are by COMPLETE reachability inside Coq, exactly as in
   Proto/FutureProofs.v:
     reach p     the list of states found by a work-list search from init p;
     closed      boolean check: the list contains init p and every successor (by any of the six
                 thread ids) of every member;
     reach_inv   closed p L = true -> after EVERY schedule (any length, any thread ids, hence any
                 number of next() rounds and any choice of value / done / error per round) the state
                 is a member of L  (induction on the schedule through Base/Sched).
   State properties are checked on every member of reach p and transported to all runs; trace
   properties are configuration invariants whose step case is a per-step relation checked on
   every reachable state.  Nothing is sampled: were the search incomplete, closed would be false. *)
From Coq Require Import List Bool Arith Lia.
From V Require Import Base.Sched Proto.TypeEraseNextDefs.
Import ListNotations.
Import TypeEraseNext.

(* ------------------------------------------------------------------------------------------ *)
(* decidable equality of states                                                               *)

Definition kind_eq_dec (a b : kind) : {a = b} + {a <> b}. Proof. decide equality. Defined.
Definition result_eq_dec (a b : result) : {a = b} + {a <> b}. Proof. decide equality. Defined.
Definition cbpc_eq_dec (a b : cbpc) : {a = b} + {a <> b}. Proof. decide equality. Defined.
Definition kpc_eq_dec (a b : kpc) : {a = b} + {a <> b}.
Proof. decide equality; try apply bool_dec; try apply result_eq_dec; apply cbpc_eq_dec. Defined.
Definition pc0_eq_dec (a b : pc0) : {a = b} + {a <> b}. Proof. decide equality. apply kpc_eq_dec. Defined.
Definition pcA_eq_dec (a b : pcA) : {a = b} + {a <> b}.
Proof. decide equality; try apply kpc_eq_dec; apply kind_eq_dec. Defined.
Definition pcC_eq_dec (a b : pcC) : {a = b} + {a <> b}.
Proof. decide equality; try apply bool_dec; try apply kpc_eq_dec; apply cbpc_eq_dec. Defined.
Definition params_eq_dec (a b : params) : {a = b} + {a <> b}. Proof. decide equality. apply bool_dec. Defined.
Definition mem_eq_dec (a b : mem) : {a = b} + {a <> b}.
Proof. decide equality; try apply bool_dec; apply Nat.eq_dec. Defined.
Definition ghost_eq_dec (a b : ghost) : {a = b} + {a <> b}. Proof. decide equality; apply bool_dec. Defined.
Definition round_eq_dec (a b : round) : {a = b} + {a <> b}.
Proof.
  decide equality; try apply bool_dec; try apply Nat.eq_dec.
  - decide equality. apply result_eq_dec.
  - decide equality. apply kind_eq_dec.
Defined.
Definition flags_eq_dec (a b : flags) : {a = b} + {a <> b}. Proof. decide equality; apply bool_dec. Defined.
Definition st_eq_dec (a b : st) : {a = b} + {a <> b}.
Proof.
  decide equality.
  - apply pcC_eq_dec. - apply pcA_eq_dec. - apply pc0_eq_dec. - apply flags_eq_dec.
  - apply round_eq_dec. - apply ghost_eq_dec. - apply mem_eq_dec. - apply params_eq_dec.
Defined.


Definition mem_st (x : st) (L : list st) : bool := if in_dec st_eq_dec x L then true else false.

Lemma mem_st_In x L : mem_st x L = true <-> In x L.
Proof. unfold mem_st. destruct (in_dec st_eq_dec x L); split; auto; discriminate. Qed.

(* ------------------------------------------------------------------------------------------ *)
(* complete reachability                                                                      *)

Definition tids : list nat := [0; 1; 2; 3; 4; 5].

Definition succs (s : st) : list st :=
  flat_map (fun t => match step t s with Some (s', _) => [s'] | None => [] end) tids.

Fixpoint explore (fuel : nat) (seen todo : list st) : list st :=
  match fuel with
  | O => seen
  | S f =>
      match todo with
      | [] => seen
      | s :: rest =>
          if mem_st s seen then explore f seen rest
          else explore f (s :: seen) (succs s ++ rest)
      end
  end.

Definition reach (p : params) : list st := explore 4000 [] [init p].

Definition closed (p : params) (L : list st) : bool :=
  mem_st (init p) L && forallb (fun s => forallb (fun s' => mem_st s' L) (succs s)) L.

Lemma step_tid t s : 6 <= t -> step t s = None.
Proof. intros H. unfold step. do 6 (destruct t as [|t]; [lia|]). reflexivity. Qed.

Lemma tid_in t : t < 6 -> In t tids.
Proof. intros H. unfold tids. do 6 (destruct t as [|t]; [cbn; auto 10|]). lia. Qed.

Lemma succs_step t s s' evs : step t s = Some (s', evs) -> In s' (succs s).
Proof.
  intros H. unfold succs. apply in_flat_map.
  destruct (le_lt_dec 6 t) as [Hge|Hlt].
  - rewrite (step_tid t s Hge) in H. discriminate.
  - exists t. split; [apply tid_in; exact Hlt|]. rewrite H. left. reflexivity.
Qed.

Theorem reach_inv p L :
  closed p L = true ->
  forall (sched : list nat) (tr : list ev), In (fst (run step sched (init p, tr))) L.
Proof.
  intros Hc sched tr. unfold closed in Hc. apply andb_true_iff in Hc as [Hi Hs].
  apply (run_invariant_state st nat ev step (fun s => In s L)).
  - intros s t s' evs Hin Hst. rewrite forallb_forall in Hs.
    specialize (Hs s Hin). rewrite forallb_forall in Hs.
    apply mem_st_In. apply Hs. eapply succs_step; eauto.
  - apply mem_st_In. exact Hi.
Qed.

Corollary reach_forall p L (P : st -> bool) :
  closed p L = true -> forallb P L = true ->
  forall (sched : list nat) (tr : list ev), P (fst (run step sched (init p, tr))) = true.
Proof.
  intros Hc HP sched tr. rewrite forallb_forall in HP. apply HP. apply reach_inv. exact Hc.
Qed.

Definition all_params (f : params -> bool) : bool :=
  forallb (fun hs => f {| has_stop := hs |}) [false; true].

Lemma all_params_sound f : all_params f = true -> forall p, f p = true.
Proof.
  unfold all_params. intros H [hs]. rewrite forallb_forall in H. apply H.
  destruct hs; cbn; auto.
Qed.

Lemma reach_closed_all : all_params (fun p => closed p (reach p)) = true.
Proof. vm_cast_no_check (eq_refl true). Qed.

Lemma reach_closed p : closed p (reach p) = true.
Proof. apply (all_params_sound _ reach_closed_all). Qed.

Definition chk_cfg (p : params) (s : st) : bool := if params_eq_dec (cfg s) p then true else false.
Lemma cfg_reach : all_params (fun p => forallb (chk_cfg p) (reach p)) = true.
Proof. vm_cast_no_check (eq_refl true). Qed.

(* a boolean state property checked on reach p for every parameter holds after every run *)
Lemma all_runs (P : st -> bool) :
  all_params (fun p => forallb P (reach p)) = true ->
  forall p sched tr, P (fst (run step sched (init p, tr))) = true.
Proof.
  intros H p sched tr.
  exact (reach_forall p (reach p) P (reach_closed p) (all_params_sound _ H p) sched tr).
Qed.

(* per-step relations checked on every reachable state *)
Definition step_checked (R : st -> st -> list ev -> bool) (s : st) : bool :=
  forallb (fun t => match step t s with Some (s', evs) => R s s' evs | None => true end) tids.

Lemma step_checked_sound R s t s' evs :
  step_checked R s = true -> step t s = Some (s', evs) -> R s s' evs = true.
Proof.
  intros H Hs. unfold step_checked in H. rewrite forallb_forall in H.
  destruct (le_lt_dec 6 t) as [Hge|Hlt]; [rewrite (step_tid t s Hge) in Hs; discriminate|].
  specialize (H t (tid_in t Hlt)). rewrite Hs in H. exact H.
Qed.

Lemma conf_inv_L p L (R : st -> st -> list ev -> bool) (Q : conf st ev -> Prop) :
  closed p L = true -> forallb (step_checked R) L = true ->
  (forall c s' evs, R (fst c) s' evs = true -> Q c -> Q (s', snd c ++ evs)) ->
  Q (init p, []) ->
  forall sched, Q (run step sched (init p, [])).
Proof.
  intros Hcl Hp HQ H0 sched.
  unfold closed in Hcl. apply andb_true_iff in Hcl as [Hi Hcl].
  rewrite forallb_forall in Hp. rewrite forallb_forall in Hcl.
  assert (HI : In (fst (run step sched (init p, []))) L /\ Q (run step sched (init p, []))).
  { apply (run_invariant st nat ev step (fun c => In (fst c) L /\ Q c)).
    - intros c t s' evs [Hin Hq] Hs. split.
      + cbn [fst]. specialize (Hcl _ Hin). rewrite forallb_forall in Hcl.
        apply mem_st_In, Hcl. eapply succs_step; eauto.
      + apply HQ; [|exact Hq]. eapply step_checked_sound; eauto.
    - split; [|exact H0]. cbn [fst]. apply mem_st_In. exact Hi. }
  tauto.
Qed.

Lemma conf_inv (R : st -> st -> list ev -> bool) (Q : conf st ev -> Prop) :
  all_params (fun p => forallb (step_checked R) (reach p)) = true ->
  (forall c s' evs, R (fst c) s' evs = true -> Q c -> Q (s', snd c ++ evs)) ->
  forall p, Q (init p, []) ->
  forall sched, Q (run step sched (init p, [])).
Proof.
  intros H HQ p H0.
  exact (conf_inv_L p (reach p) R Q (reach_closed p) (all_params_sound _ H p) HQ H0).
Qed.

Definition final (p : params) (sched : list nat) : st := fst (run step sched (init p, [])).

Lemma cfg_final p sched : cfg (final p sched) = p.
Proof.
  pose proof (reach_forall p (reach p) (chk_cfg p) (reach_closed p)
                (all_params_sound _ cfg_reach p) sched []) as H.
  unfold final. unfold chk_cfg in H.
  destruct (params_eq_dec (cfg (fst (run step sched (init p, [])))) p); [auto|discriminate].
Qed.

(* ------------------------------------------------------------------------------------------ *)
(* the boolean checkers                                                                       *)

Definition res_eqb (a b : result) : bool := if result_eq_dec a b then true else false.
Lemma res_eqb_eq a b : res_eqb a b = true -> a = b.
Proof. unfold res_eqb. destruct (result_eq_dec a b); [auto|discriminate]. Qed.

Definition ores_eqb (a b : option result) : bool :=
  match a, b with Some x, Some y => res_eqb x y | None, None => true | _, _ => false end.
Lemma ores_eqb_eq a b : ores_eqb a b = true -> a = b.
Proof. destruct a, b; cbn; try discriminate; auto. intros H. f_equal. apply res_eqb_eq. exact H. Qed.

(* the result the election prescribes: done when the callback's complete was the last,
   otherwise the source's own result *)
Definition prescribed (s : st) : option result :=
  match src_res (rd s) with
  | Some k => Some (if cb_last (rd s) then RDone else res_of k)
  | None => None
  end.

(* 1: once per round *)
Definition chk_once (s : st) : bool :=
  (ndel (rd s) <=? 1) && negb (dup (fl s)) &&
  eqb (is_some (delivered (rd s))) (ndel (rd s) =? 1) &&
  (* an op that is not alive has completed (or nothing was started yet) *)
  (nx_alive (g s) || (ndel (rd s) =? 1) || match p0 s with T0Start => true | _ => false end) &&
  (if quiescent s then
     (ndel (rd s) =? 1) && negb (ores_eqb (delivered (rd s)) (Some RVal)) && finished (g s) && ended (fl s)
   else true).

(* 2: with which result *)
Definition chk_result (s : st) : bool :=
  (match delivered (rd s) with
   | Some r => ores_eqb (Some r) (prescribed s)
   | None => negb (cb_last (rd s))
   end) &&
  implb (cb_last (rd s)) (cb_won (rd s) && negb (cb_first (rd s)) && is_some (src_res (rd s))) &&
  implb (cb_first (rd s)) (cb_won (rd s)) &&
  (* a callback that took a reference and whose complete was not the first was the last *)
  implb (is_some (delivered (rd s)) && cb_won (rd s) && negb (cb_first (rd s))) (cb_last (rd s)) &&
  implb (cb_won (rd s)) (ext_stop (m s)).

(* 3 / 5 / 6 / 8: the sticky violation flags *)
Definition chk_flags (s : st) : bool :=
  negb (vad (fl s)) && negb (nofwd (fl s)) && negb (early (fl s)) && negb (clash (fl s)) &&
  negb (uaf (fl s)) && negb (bad (fl s)) &&
  (* once a next() completed with done / error no further next() is started *)
  implb (ended (fl s)) ((ndel (rd s) =? 1) && negb (ores_eqb (delivered (rd s)) (Some RVal))).

(* 5: a callback that took a reference forwards the stop request before done can be delivered *)
Definition chk_fwd (s : st) : bool :=
  implb (cb_last (rd s)) (fwd (rd s) && te_stop (m s)) &&
  implb (fwd (rd s)) (cb_won (rd s) && te_stop (m s)) &&
  implb (te_stop (m s)) (cb_won (rd s) && ext_stop (m s)) &&
  implb (cb_first (rd s)) (fwd (rd s)).

(* 6 / 7: op-state lifetimes and the cleanup *)
Definition chk_life (s : st) : bool :=
  (* the union holds at most one member; the wrapped next-op lives only inside a live next-op *)
  negb (src_alive (g s) && clw_alive (g s)) &&
  implb (src_alive (g s)) (nx_alive (g s) && (ndel (rd s) =? 0)) &&
  eqb (src_out (g s)) (src_alive (g s)) &&
  implb (is_some (delivered (rd s))) (negb (src_alive (g s))) &&
  (* cleanup: after a next() that ended the sequence completed and its op was destroyed *)
  implb (cl_started (g s)) (ended (fl s) && (ndel (rd s) =? 1) && negb (nx_alive (g s)) && negb (src_alive (g s))) &&
  implb (cl_alive (g s) || clw_alive (g s) || cl_out (g s)) (cl_started (g s) && negb (finished (g s))) &&
  eqb (cl_alive (g s)) (clw_alive (g s)) && eqb (cl_alive (g s)) (cl_out (g s)) &&
  implb (finished (g s)) (cl_started (g s) && negb (cl_alive (g s))) &&
  eqb (stream_freed (g s)) (finished (g s)) &&
  implb (ended (fl s) && negb (nx_alive (g s))) (cl_started (g s)) &&
  (* the callback is never left dangling in the list of ext *)
  implb (cb_linked (m s)) (nx_alive (g s) && cb_reg (m s)).

(* 9 *)
Definition chk_ref (s : st) : bool :=
  (ref (m s) <=? 2) &&
  (* before the result is delivered the count is 1 + (a callback holds a reference) *)
  implb (nx_alive (g s) && (ndel (rd s) =? 0) && negb (is_some (src_res (rd s))))
        (ref (m s) =? (if cb_won (rd s) && negb (cb_first (rd s)) then 2 else 1)).

(* 10 *)
Definition chk_progress (s : st) : bool :=
  quiescent s || existsb (fun t => match step t s with Some _ => true | None => false end) tids.

Lemma chk_once_ok : all_params (fun p => forallb chk_once (reach p)) = true.
Proof. vm_cast_no_check (eq_refl true). Qed.
Lemma chk_result_ok : all_params (fun p => forallb chk_result (reach p)) = true.
Proof. vm_cast_no_check (eq_refl true). Qed.
Lemma chk_flags_ok : all_params (fun p => forallb chk_flags (reach p)) = true.
Proof. vm_cast_no_check (eq_refl true). Qed.
Lemma chk_fwd_ok : all_params (fun p => forallb chk_fwd (reach p)) = true.
Proof. vm_cast_no_check (eq_refl true). Qed.
Lemma chk_life_ok : all_params (fun p => forallb chk_life (reach p)) = true.
Proof. vm_cast_no_check (eq_refl true). Qed.
Lemma chk_ref_ok : all_params (fun p => forallb chk_ref (reach p)) = true.
Proof. vm_cast_no_check (eq_refl true). Qed.
Lemma chk_progress_ok : all_params (fun p => forallb chk_progress (reach p)) = true.
Proof. vm_cast_no_check (eq_refl true). Qed.

(* ------------------------------------------------------------------------------------------ *)
(* from the checkers to propositions                                                          *)

Lemma is_some_true {A} (o : option A) : is_some o = true <-> o <> None.
Proof.
  destruct o; cbn; split; intros H.
  - discriminate.
  - reflexivity.
  - discriminate H.
  - contradiction H. reflexivity.
Qed.

Section Main.
  Variable p : params.
  Variable sched : list nat.
  Let s := final p sched.

  Local Ltac get H chk ok :=
    pose proof (all_runs chk ok p sched []) as H; fold (final p sched) in H; fold s in H.

  (* 1. every next() of the consumer completes at most once; when everybody is done the last
        next() completed exactly once, with done or error, and the cleanup finished *)
  Theorem next_completes_once :
    ndel (rd s) <= 1 /\ dup (fl s) = false /\
    (delivered (rd s) <> None <-> ndel (rd s) = 1) /\
    (quiescent s = true ->
       ndel (rd s) = 1 /\ finished (g s) = true /\
       (delivered (rd s) = Some RDone \/ delivered (rd s) = Some RErr)).
  Proof.
    get H chk_once chk_once_ok. unfold chk_once in H.
    apply andb_true_iff in H as [H H5]. apply andb_true_iff in H as [H _].
    apply andb_true_iff in H as [H H3]. apply andb_true_iff in H as [H1 H2].
    apply Nat.leb_le in H1. apply negb_true_iff in H2. apply eqb_prop in H3.
    split; [exact H1|]. split; [exact H2|]. split.
    - rewrite <- is_some_true, H3. apply Nat.eqb_eq.
    - intros Hq. rewrite Hq in H5.
      apply andb_true_iff in H5 as [H5 _]. apply andb_true_iff in H5 as [H5 Hf].
      apply andb_true_iff in H5 as [Hn Hv]. apply Nat.eqb_eq in Hn.
      split; [exact Hn|]. split; [exact Hf|].
      assert (Hd : is_some (delivered (rd s)) = true) by (rewrite H3; apply Nat.eqb_eq; exact Hn).
      destruct (delivered (rd s)) as [[| |]|]; cbn in Hv, Hd; try discriminate; auto.
  Qed.

  (* 2. the result of the election: DONE exactly when the stop callback took a reference and its
        complete was the last one; otherwise -- the callback did not run, bailed out, or finished
        its set_done before the source completed -- the source's own result *)
  Theorem election_result :
    (forall r, delivered (rd s) = Some r ->
       exists k, src_res (rd s) = Some k /\ r = if cb_last (rd s) then RDone else res_of k) /\
    (delivered (rd s) = None -> cb_last (rd s) = false) /\
    (cb_last (rd s) = true -> cb_won (rd s) = true /\ cb_first (rd s) = false) /\
    (cb_first (rd s) = true -> cb_won (rd s) = true) /\
    (delivered (rd s) <> None -> cb_won (rd s) = true -> cb_first (rd s) = false -> cb_last (rd s) = true) /\
    (cb_won (rd s) = true -> ext_stop (m s) = true).
  Proof.
    get H chk_result chk_result_ok. unfold chk_result in H.
    apply andb_true_iff in H as [H H5]. apply andb_true_iff in H as [H H4].
    apply andb_true_iff in H as [H H3]. apply andb_true_iff in H as [H1 H2].
    split; [|split; [|split; [|split; [|split]]]].
    - intros r Hr. rewrite Hr in H1. apply ores_eqb_eq in H1. unfold prescribed in H1.
      destruct (src_res (rd s)) as [k|]; [|discriminate]. exists k. split; [reflexivity|].
      injection H1 as H1. exact H1.
    - intros Hd. rewrite Hd in H1. apply negb_true_iff in H1. exact H1.
    - intros Hl. rewrite Hl in H2. cbn in H2. apply andb_true_iff in H2 as [H2 _].
      apply andb_true_iff in H2 as [Ha Hb]. apply negb_true_iff in Hb. auto.
    - intros Hf. rewrite Hf in H3. exact H3.
    - intros Hd Hw Hf. apply is_some_true in Hd. rewrite Hd, Hw, Hf in H4. exact H4.
    - intros Hw. rewrite Hw in H5. exact H5.
  Qed.

  (* 3. never a value after done / error: no next() is started once one completed with done or
        error (the current next() stays the one that ended the sequence) *)
  Theorem no_value_after_done :
    vad (fl s) = false /\
    (ended (fl s) = true ->
       ndel (rd s) = 1 /\ (delivered (rd s) = Some RDone \/ delivered (rd s) = Some RErr)).
  Proof.
    get H chk_flags chk_flags_ok. unfold chk_flags in H.
    apply andb_true_iff in H as [H H7]. do 5 (apply andb_true_iff in H as [H _]).
    apply negb_true_iff in H. split; [exact H|].
    intros He. rewrite He in H7. cbn in H7. apply andb_true_iff in H7 as [Hn Hv].
    apply Nat.eqb_eq in Hn. split; [exact Hn|].
    get H1 chk_once chk_once_ok. unfold chk_once in H1.
    apply andb_true_iff in H1 as [H1 _]. apply andb_true_iff in H1 as [H1 _].
    apply andb_true_iff in H1 as [_ H3]. apply eqb_prop in H3.
    assert (Hd : is_some (delivered (rd s)) = true) by (rewrite H3; apply Nat.eqb_eq; exact Hn).
    destruct (delivered (rd s)) as [[| |]|]; cbn in Hv, Hd; try discriminate; auto.
  Qed.

  (* 5. a stop request that wins (fetch_add read non-zero) forwards request_stop to the adapter's
        stop source before done can be delivered; the adapter's source is only ever stopped
        because the consumer's was *)
  Theorem stop_forwarded_before_done :
    nofwd (fl s) = false /\
    (cb_last (rd s) = true -> fwd (rd s) = true /\ te_stop (m s) = true) /\
    (cb_first (rd s) = true -> fwd (rd s) = true) /\
    (fwd (rd s) = true -> cb_won (rd s) = true /\ te_stop (m s) = true) /\
    (te_stop (m s) = true -> cb_won (rd s) = true /\ ext_stop (m s) = true).
  Proof.
    get H chk_flags chk_flags_ok. unfold chk_flags in H.
    do 5 (apply andb_true_iff in H as [H _]). apply andb_true_iff in H as [_ H].
    apply negb_true_iff in H. split; [exact H|].
    get F chk_fwd chk_fwd_ok. unfold chk_fwd in F.
    apply andb_true_iff in F as [F F4]. apply andb_true_iff in F as [F F3].
    apply andb_true_iff in F as [F1 F2].
    split; [|split; [|split]].
    - intros Hx. rewrite Hx in F1. apply andb_true_iff in F1. exact F1.
    - intros Hx. rewrite Hx in F4. exact F4.
    - intros Hx. rewrite Hx in F2. apply andb_true_iff in F2. exact F2.
    - intros Hx. rewrite Hx in F3. apply andb_true_iff in F3. exact F3.
  Qed.

  (* 6. a next() completes only after the wrapped next-op of the source was destroyed, so the
        union storage is free when cleanup_ is activated: type_erase does not complete "at
        once", the abandoned next() of the source is awaited by the next-op itself *)
  Theorem delivery_after_wrapped_next_destroyed :
    early (fl s) = false /\ clash (fl s) = false /\
    (delivered (rd s) <> None -> src_alive (g s) = false /\ src_out (g s) = false) /\
    (src_alive (g s) = true -> clw_alive (g s) = false /\ nx_alive (g s) = true /\ ndel (rd s) = 0).
  Proof.
    get H chk_flags chk_flags_ok. unfold chk_flags in H.
    do 3 (apply andb_true_iff in H as [H _]). apply andb_true_iff in H as [H Hc].
    apply andb_true_iff in H as [_ He]. apply negb_true_iff in He, Hc.
    split; [exact He|]. split; [exact Hc|].
    get L chk_life chk_life_ok. unfold chk_life in L.
    do 8 (apply andb_true_iff in L as [L _]).
    apply andb_true_iff in L as [L L4]. apply andb_true_iff in L as [L L3].
    apply andb_true_iff in L as [L1 L2]. apply eqb_prop in L3. split.
    - intros Hd. apply is_some_true in Hd. rewrite Hd in L4. cbn in L4. apply negb_true_iff in L4.
      rewrite L3. auto.
    - intros Ha. rewrite Ha in L1, L2. cbn in L1, L2. apply negb_true_iff in L1.
      apply andb_true_iff in L2 as [La Lb]. apply Nat.eqb_eq in Lb. auto.
  Qed.

  (* 7. cleanup is started only after a next() that ended the sequence completed and its op was
        destroyed, with no source next() outstanding; the consumer is finished only after the
        wrapped cleanup-op completed and was destroyed; the stream is freed only then *)
  Theorem cleanup_after_last_next :
    (cl_started (g s) = true ->
       ended (fl s) = true /\ ndel (rd s) = 1 /\ nx_alive (g s) = false /\ src_alive (g s) = false /\
       src_out (g s) = false) /\
    (finished (g s) = true ->
       cl_started (g s) = true /\ cl_alive (g s) = false /\ clw_alive (g s) = false /\ cl_out (g s) = false) /\
    (stream_freed (g s) = finished (g s)) /\
    (ended (fl s) = true -> nx_alive (g s) = false -> cl_started (g s) = true) /\
    (cb_linked (m s) = true -> nx_alive (g s) = true).
  Proof.
    get L chk_life chk_life_ok. unfold chk_life in L.
    apply andb_true_iff in L as [L L12]. apply andb_true_iff in L as [L L11].
    apply andb_true_iff in L as [L L10]. apply andb_true_iff in L as [L L9].
    apply andb_true_iff in L as [L L8]. apply andb_true_iff in L as [L L7].
    apply andb_true_iff in L as [L L6]. apply andb_true_iff in L as [L L5].
    apply andb_true_iff in L as [L _]. apply andb_true_iff in L as [L L3]. clear L.
    apply eqb_prop in L3, L7, L8, L10.
    split; [|split; [|split; [|split]]].
    - intros Hc. rewrite Hc in L5. cbn in L5.
      apply andb_true_iff in L5 as [L5 Ld]. apply andb_true_iff in L5 as [L5 Lc].
      apply andb_true_iff in L5 as [La Lb]. apply Nat.eqb_eq in Lb.
      apply negb_true_iff in Lc, Ld. rewrite L3. auto.
    - intros Hf. rewrite Hf in L9. cbn in L9. apply andb_true_iff in L9 as [La Lb].
      apply negb_true_iff in Lb. rewrite <- L7, <- L8. auto.
    - exact L10.
    - intros He Hn. rewrite He, Hn in L11. exact L11.
    - intros Hl. rewrite Hl in L12. cbn in L12. apply andb_true_iff in L12 as [La _]. exact La.
  Qed.

  (* 8. no step touches a destroyed op-state (the consumer's next-op with refCount_, stopSource_,
        receiver_, stopCallback_; the wrapped op-states) or the freed stream, and no branch that
        the protocol excludes is taken *)
  Theorem no_use_after_destruction : uaf (fl s) = false /\ bad (fl s) = false.
  Proof.
    get H chk_flags chk_flags_ok. unfold chk_flags in H.
    apply andb_true_iff in H as [H _]. apply andb_true_iff in H as [H Hb].
    apply andb_true_iff in H as [_ Hu]. apply negb_true_iff in Hu, Hb. auto.
  Qed.

  (* 9. refCount_ stays within 0..2; while the election is open it is 1 plus the reference held
        by a callback between its fetch_add and its complete *)
  Theorem refcount_range :
    ref (m s) <= 2 /\
    (nx_alive (g s) = true -> ndel (rd s) = 0 -> src_res (rd s) = None ->
       ref (m s) = if cb_won (rd s) && negb (cb_first (rd s)) then 2 else 1).
  Proof.
    get H chk_ref chk_ref_ok. unfold chk_ref in H. apply andb_true_iff in H as [H1 H2].
    apply Nat.leb_le in H1. split; [exact H1|].
    intros Ha Hn Hs. rewrite Ha, Hn, Hs in H2. cbn in H2. apply Nat.eqb_eq in H2. exact H2.
  Qed.

  (* 10. no deadlock: in a non-quiescent reachable state some thread can move *)
  Theorem progress : quiescent s = false -> exists t, step t s <> None.
  Proof.
    intros Hq. get H chk_progress chk_progress_ok. unfold chk_progress in H. rewrite Hq in H.
    cbn [orb] in H. apply existsb_exists in H as (t & _ & Ht). exists t.
    destruct (step t s); [discriminate|discriminate Ht].
  Qed.
End Main.

(* ------------------------------------------------------------------------------------------ *)
(* trace level                                                                                *)

Definition count (f : ev -> bool) (tr : list ev) : nat := length (filter f tr).
Lemma count_app f a b : count f (a ++ b) = count f a + count f b.
Proof. unfold count. rewrite filter_app, app_length. reflexivity. Qed.

Definition b2n (b : bool) : nat := if b then 1 else 0.

Definition is_src_value (e : ev) : bool := match e with ESrcNextComplete KV => true | _ => false end.
Definition is_cons_value (e : ev) : bool := match e with EConsNext RVal => true | _ => false end.
(* the source's value completion found a callback holding a reference: the value is dropped *)
Definition is_drop (e : ev) : bool :=
  match e with ERefSub (SSrc KV) old => negb (old =? 1) | _ => false end.
Definition is_next_ctor (e : ev) : bool := match e with EConsNextCtor => true | _ => false end.
Definition is_next_done (e : ev) : bool := match e with EConsNext _ => true | _ => false end.
Definition is_src_complete (e : ev) : bool := match e with ESrcNextComplete _ => true | _ => false end.
Definition is_src_start (e : ev) : bool := match e with ESrcNextStart => true | _ => false end.
Definition is_cleanup_start (e : ev) : bool := match e with ESrcCleanupStart => true | _ => false end.
Definition is_finished (e : ev) : bool := match e with EConsFinished => true | _ => false end.

(* a source value completed and complete has not been called for it yet *)
Definition pending (s : st) : bool := match pa s with ASub KV => true | _ => false end.
(* the current next() has been started and has not completed *)
Definition round_open (s : st) : bool := nx_alive (g s) && (ndel (rd s) =? 0).

Definition R_values (s s' : st) (evs : list ev) : bool :=
  count is_src_value evs + b2n (pending s) =?
  count is_cons_value evs + count is_drop evs + b2n (pending s').
Definition R_rounds (s s' : st) (evs : list ev) : bool :=
  count is_next_ctor evs + b2n (round_open s) =? count is_next_done evs + b2n (round_open s').
Definition R_source (s s' : st) (evs : list ev) : bool :=
  count is_src_start evs + b2n (src_out (g s)) =? count is_src_complete evs + b2n (src_out (g s')).
Definition R_cleanup (s s' : st) (evs : list ev) : bool :=
  (count is_cleanup_start evs + b2n (cl_started (g s)) =? b2n (cl_started (g s'))) &&
  (count is_finished evs + b2n (finished (g s)) =? b2n (finished (g s'))).

Lemma R_values_ok : all_params (fun p => forallb (step_checked R_values) (reach p)) = true.
Proof. vm_cast_no_check (eq_refl true). Qed.
Lemma R_rounds_ok : all_params (fun p => forallb (step_checked R_rounds) (reach p)) = true.
Proof. vm_cast_no_check (eq_refl true). Qed.
Lemma R_source_ok : all_params (fun p => forallb (step_checked R_source) (reach p)) = true.
Proof. vm_cast_no_check (eq_refl true). Qed.
Lemma R_cleanup_ok : all_params (fun p => forallb (step_checked R_cleanup) (reach p)) = true.
Proof. vm_cast_no_check (eq_refl true). Qed.

(* 4. no element is delivered twice and none is invented: in every trace the values the source
      produced are exactly the values delivered to the consumer, plus the values dropped because
      a stop callback held a reference when the source completed (its complete was not the last),
      plus at most one value whose complete has not been called yet *)
Theorem trace_values p sched :
  let c := run step sched (init p, []) in
  count is_src_value (snd c) =
  count is_cons_value (snd c) + count is_drop (snd c) + b2n (pending (fst c)).
Proof.
  cbv zeta.
  apply (conf_inv R_values
           (fun c => count is_src_value (snd c) =
                     count is_cons_value (snd c) + count is_drop (snd c) + b2n (pending (fst c)))
           R_values_ok); [|reflexivity].
  intros c s' evs HR HQ. cbn [fst snd]. unfold R_values in HR. apply Nat.eqb_eq in HR.
  rewrite !count_app. lia.
Qed.

(* 1, trace form: every started next() completes exactly once -- the completions in the trace
   are the constructions, minus the one that is still open *)
Theorem trace_rounds p sched :
  let c := run step sched (init p, []) in
  count is_next_ctor (snd c) = count is_next_done (snd c) + b2n (round_open (fst c)).
Proof.
  cbv zeta.
  apply (conf_inv R_rounds
           (fun c => count is_next_ctor (snd c) = count is_next_done (snd c) + b2n (round_open (fst c)))
           R_rounds_ok); [|reflexivity].
  intros c s' evs HR HQ. cbn [fst snd]. unfold R_rounds in HR. apply Nat.eqb_eq in HR.
  rewrite !count_app. lia.
Qed.

(* every started next() of the source is completed once, at most one is outstanding *)
Theorem trace_source p sched :
  let c := run step sched (init p, []) in
  count is_src_start (snd c) = count is_src_complete (snd c) + b2n (src_out (g (fst c))).
Proof.
  cbv zeta.
  apply (conf_inv R_source
           (fun c => count is_src_start (snd c) = count is_src_complete (snd c) + b2n (src_out (g (fst c))))
           R_source_ok); [|reflexivity].
  intros c s' evs HR HQ. cbn [fst snd]. unfold R_source in HR. apply Nat.eqb_eq in HR.
  rewrite !count_app. lia.
Qed.

(* 7, trace form: cleanup is started at most once and the consumer finishes at most once
   (exactly once when cl_started / finished, which hold at quiescence) *)
Theorem trace_cleanup_once p sched :
  let c := run step sched (init p, []) in
  count is_cleanup_start (snd c) = b2n (cl_started (g (fst c))) /\
  count is_finished (snd c) = b2n (finished (g (fst c))).
Proof.
  cbv zeta.
  apply (conf_inv R_cleanup
           (fun c => count is_cleanup_start (snd c) = b2n (cl_started (g (fst c))) /\
                     count is_finished (snd c) = b2n (finished (g (fst c))))
           R_cleanup_ok); [|split; reflexivity].
  intros c s' evs HR [HQ1 HQ2]. cbn [fst snd]. unfold R_cleanup in HR.
  apply andb_true_iff in HR as [H1 H2]. apply Nat.eqb_eq in H1, H2.
  rewrite !count_app. split; lia.
Qed.

(* ------------------------------------------------------------------------------------------ *)
(* the core election for n concurrent stop callbacks: hand-written invariant, all n, all        *)
(* schedules                                                                                    *)

Module Elect.
Import TypeEraseElect.

Definition b2n (b : bool) : nat := if b then 1 else 0.
Definition cnt (l : list cpc) : nat := length (filter is_hold l).

Lemma cnt_set_nth l i old x :
  nth_error l i = Some old ->
  cnt (set_nth i x l) + b2n (is_hold old) = cnt l + b2n (is_hold x).
Proof.
  revert i. induction l as [|y r IH]; intros i H.
  - destruct i; discriminate.
  - destruct i as [|i]; cbn in H.
    + injection H as ->. unfold cnt. cbn. destruct (is_hold old), (is_hold x); cbn; lia.
    + specialize (IH i H). unfold cnt in *. cbn. destruct (is_hold y); cbn; lia.
Qed.

Lemma filter_len {A} (f : A -> bool) l : length (filter f l) <= length l.
Proof. induction l as [|y r IH]; cbn; [lia|]. destruct (f y); cbn; lia. Qed.

Lemma forallb_fin_cnt l : forallb is_fin l = true -> cnt l = 0.
Proof.
  induction l as [|y r IH]; cbn; [reflexivity|]. intros H. apply andb_true_iff in H as [Hy Hr].
  unfold cnt in *. cbn. destruct y; cbn in *; try discriminate. auto.
Qed.

Definition Inv (s : st) : Prop :=
  let sd := b2n (src_done s) in
  rc s + sd = 1 + holders s + bailed s /\
  bailed s <= 1 /\ deliveries s <= 1 /\
  (deliveries s = 0 -> bailed s = 0 /\ (sd = 1 -> 1 <= holders s)) /\
  (deliveries s = 1 -> sd = 1 /\ (bailed s = 0 -> holders s = 0)).

Lemma inv_init n : Inv (init n).
Proof.
  unfold Inv, holders, init. cbn.
  assert (H : length (filter is_hold (repeat CIdle n)) = 0).
  { induction n; cbn; auto. }
  rewrite H. lia.
Qed.

Lemma inv_step s t s' evs : Inv s -> step t s = Some (s', evs) -> Inv s'.
Proof.
  intros HI Hs. unfold step in Hs.
  destruct t as [|i].
  - (* the source's completion *)
    destruct (src_done s) eqn:Esd; [discriminate|].
    unfold complete in Hs. injection Hs as <- _. unfold Inv, holders in *. cbn in *. rewrite Esd in HI. cbn in HI.
    destruct (rc s =? 1) eqn:E1; [apply Nat.eqb_eq in E1|apply Nat.eqb_neq in E1]; lia.
  - destruct (nth_error (cbs s) i) as [[| |]|] eqn:En; try discriminate.
    + (* fetch_add *)
      pose proof (cnt_set_nth (cbs s) i CIdle CFin En) as Hf.
      pose proof (cnt_set_nth (cbs s) i CIdle CHold En) as Hh.
      unfold cnt in Hf, Hh. cbn in Hf, Hh.
      destruct (rc s =? 0) eqn:E0; [apply Nat.eqb_eq in E0|apply Nat.eqb_neq in E0];
        injection Hs as <- _; unfold Inv, holders in *; cbn in *;
        destruct (src_done s); cbn in *; lia.
    + (* the callback's complete *)
      pose proof (cnt_set_nth (cbs s) i CHold CFin En) as Hf. unfold cnt in Hf. cbn in Hf.
      unfold complete in Hs. injection Hs as <- _. unfold Inv, holders in *. cbn in *.
      destruct (rc s =? 1) eqn:E1; [apply Nat.eqb_eq in E1|apply Nat.eqb_neq in E1];
        destruct (src_done s); cbn in *; lia.
Qed.

(* for every number n of callbacks and every schedule: the result is delivered at most once,
   refCount_ stays within 0 .. n+1, and once the source's completion and every callback have
   run it has been delivered exactly once *)
Theorem elect_once n (sched : list nat) :
  let s := fst (run step sched (init n, [])) in
  deliveries s <= 1 /\ rc s <= n + 1 /\ (quiescent s = true -> deliveries s = 1).
Proof.
  cbv zeta.
  assert (HI : Inv (fst (run step sched (init n, []))) /\
               length (cbs (fst (run step sched (init n, [])))) = n).
  { apply (run_invariant_state st nat ev step (fun s => Inv s /\ length (cbs s) = n)).
    - intros s t s' evs [Hi Hl] Hs. split; [eapply inv_step; eauto|].
      assert (Hsn : forall A i (x : A) l, length (set_nth i x l) = length l).
      { intros A i x l. revert i. induction l; intros [|i]; cbn; auto. }
      unfold step in Hs. destruct t as [|i].
      + destruct (src_done s); [discriminate|]. unfold complete in Hs. injection Hs as <- _. exact Hl.
      + destruct (nth_error (cbs s) i) as [[| |]|]; try discriminate.
        * destruct (rc s =? 0); injection Hs as <- _; cbn; rewrite Hsn; exact Hl.
        * unfold complete in Hs. injection Hs as <- _. cbn. rewrite Hsn. exact Hl.
    - split; [apply inv_init|]. cbn. apply repeat_length. }
  destruct HI as [HI Hl].
  set (s := fst (run step sched (init n, []))) in *.
  assert (Hh : holders s <= n).
  { unfold holders. rewrite <- Hl. apply filter_len. }
  unfold Inv in HI. cbn zeta in HI.
  split; [lia|]. split.
  - destruct (src_done s); cbn in HI; lia.
  - intros Hq. unfold quiescent in Hq. apply andb_true_iff in Hq as [Hs Hf].
    apply forallb_fin_cnt in Hf. unfold cnt in Hf. fold (holders s) in Hf.
    rewrite Hs in HI. cbn in HI. lia.
Qed.

End Elect.
