(* Exhaustive reachability of a finite transition system, computed and checked inside Coq.
   Given a decidable equality on states and a successor function `asucc`, `reach_from c0` runs a
   worklist exploration; `check P c0` then CHECKS that the resulting list is closed under `asucc`,
   contains c0 and satisfies P everywhere.  check_sound needs nothing about the exploration itself:
   a closed set containing c0 contains every state reachable from c0.  (`hash` is any function; it
   only lets most equality tests be skipped.)  Used by Proto/UringOpProofs.v; Proto/IoCancelProofs.v
   carries its own copy of the same construction. *)
From Coq Require Import List Bool Arith NArith.
Import ListNotations.

Section Reach.
  Variable core : Type.
  Variable eq_dec : forall a b : core, {a = b} + {a <> b}.
  Variable hash : core -> N.
  Variable asucc : core -> list core.

  Inductive areach (c0 : core) : core -> Prop :=
  | ar_refl : areach c0 c0
  | ar_step c c' : areach c0 c -> In c' (asucc c) -> areach c0 c'.

  Definition core_eqb (a b : core) : bool := if eq_dec a b then true else false.
  Lemma core_eqb_eq a b : core_eqb a b = true -> a = b.
  Proof. unfold core_eqb. destruct (eq_dec a b); [auto|discriminate]. Qed.

  Definition entry := (N * core)%type.
  Definition mem (c : core) (l : list entry) : bool :=
    let h := hash c in existsb (fun x => N.eqb (fst x) h && core_eqb (snd x) c) l.

  Lemma mem_in c l : mem c l = true -> exists h, In (h, c) l.
  Proof.
    unfold mem. intros H. apply existsb_exists in H. destruct H as ([h x] & Hin & Hx).
    apply andb_true_iff in Hx. destruct Hx as [_ Hx]. apply core_eqb_eq in Hx. simpl in Hx. subst x. eauto.
  Qed.

  Fixpoint add_all (cs frontier : list core) (seen : list entry) : list core * list entry :=
    match cs with
    | [] => (frontier, seen)
    | c :: r => if mem c seen then add_all r frontier seen
                else add_all r (c :: frontier) ((hash c, c) :: seen)
    end.

  Fixpoint explore (fuel : nat) (frontier : list core) (seen : list entry) : option (list entry) :=
    match fuel with
    | O => None
    | S f =>
        match frontier with
        | [] => Some seen
        | c :: rest => let (fr, sn) := add_all (asucc c) rest seen in explore f fr sn
        end
    end.

  Definition closed (R : list entry) : bool :=
    forallb (fun x => forallb (fun c' => mem c' R) (asucc (snd x))) R.

  Lemma closed_sound R c0 :
    closed R = true -> mem c0 R = true -> forall c, areach c0 c -> mem c R = true.
  Proof.
    intros Hc H0 c Hr. induction Hr as [|c c' Hr IH Hin]; auto.
    destruct (mem_in _ _ IH) as [h Hh].
    unfold closed in Hc. rewrite forallb_forall in Hc. specialize (Hc _ Hh). simpl in Hc.
    rewrite forallb_forall in Hc. auto.
  Qed.

  Definition reach_from (fuel : nat) (c0 : core) : list entry :=
    match explore fuel [c0] [(hash c0, c0)] with Some R => R | None => [] end.

  Definition check (fuel : nat) (P : core -> bool) (c0 : core) : bool :=
    let R := reach_from fuel c0 in
    closed R && mem c0 R && forallb (fun x => P (snd x)) R.

  Lemma check_sound fuel P c0 : check fuel P c0 = true -> forall c, areach c0 c -> P c = true.
  Proof.
    unfold check. intros H c Hr. apply andb_true_iff in H. destruct H as [H HP].
    apply andb_true_iff in H. destruct H as [Hc H0].
    pose proof (closed_sound _ _ Hc H0 c Hr) as Hm. destruct (mem_in _ _ Hm) as [h Hh].
    rewrite forallb_forall in HP. apply (HP _ Hh).
  Qed.
End Reach.
