(* E1 model SrThunk: the stop-request thunk of task<> (include/unifex/task.hpp, _sr_thunk_promise_base):
     refCount_{1};
     stop_callback::operator():  if refCount_.fetch_add(1, relaxed) == 0 return;  start(stopOperation_)
                                 (= enqueue the deferred stop request on the task's scheduler)
     receiver_t::set_value (the deferred stop request ran stopSource_.request_stop on the scheduler):
                                 if refCount_.fetch_sub(1, acq_rel) == 1 resume whoToContinue_
     complete_and_choose_continuation (final_suspend or the done coroutine of the thunk):
                                 callback_.destruct()   - deregisters; BLOCKS while the callback runs on another thread
                                 whoToContinue_ = ...;  if refCount_.fetch_sub(1, acq_rel) == 1 resume it else noop
   Three logical threads: 0 = the stop callback (whoever runs it: the thread calling request_stop on the receiver's
   source, or the awaiting thread when stop was already requested at registration), 1 = the deferred stop request
   on the scheduler, 2 = the completion of the task.  Executable definitions only. *)
From Coq Require Import ZArith List Bool.
Import ListNotations.
Local Open Scope Z_scope.

Module SrThunk.

Inductive cbpc :=
| CbIdle            (* not invoked *)
| CbAdded           (* fetch_add read non-zero: about to start the deferred stop request *)
| CbDone            (* started (enqueued) it and returned *)
| CbBail.           (* fetch_add read zero: returned at once *)

Record st := {
  rc : Z;                    (* refCount_ *)
  cb : cbpc;
  dereg : bool;              (* callback_.destruct() done: the callback cannot be invoked any more *)
  ds_done : bool;            (* the deferred stop request completed (its fetch_sub done) *)
  cp_done : bool;            (* complete_and_choose_continuation did its fetch_sub *)
  resumed : list nat;        (* who resumed the continuation, newest first: 1 = deferred stop, 2 = completion *)
  kind : nat;                (* how the task's body ended: 0 value, 1 error, 2 done (a parameter of the run) *)
  chosen : option nat        (* whoToContinue_: set by complete_and_choose_continuation from the body's result
                                (task.hpp: continuation_.handle() for a value / exception, the done continuation for done) *)
}.

Inductive ev :=
| ERc (sub : bool) (old new : Z)   (* refCount_ fetch_sub / fetch_add *)
| EEnq                             (* the deferred stop request was handed to the scheduler *)
| ERoot (k : option nat).          (* whoToContinue_ is resumed: the continuation for result kind k (None: unset) *)

Definition init (k : nat) : st :=
  {| rc := 1; cb := CbIdle; dereg := false; ds_done := false; cp_done := false; resumed := []; kind := k; chosen := None |}.

Definition step (t : nat) (s : st) : option (st * list ev) :=
  match t with
  | O =>   (* task.hpp stop_callback::operator() *)
      match cb s with
      | CbIdle =>
          if dereg s then None
          else
            let old := rc s in
            Some ({| rc := old + 1; cb := if old =? 0 then CbBail else CbAdded; dereg := dereg s;
                     ds_done := ds_done s; cp_done := cp_done s; resumed := resumed s; kind := kind s; chosen := chosen s |},
                  [ERc false old (old + 1)])
      | CbAdded =>
          Some ({| rc := rc s; cb := CbDone; dereg := dereg s; ds_done := ds_done s; cp_done := cp_done s;
                   resumed := resumed s; kind := kind s; chosen := chosen s |}, [EEnq])
      | _ => None
      end
  | S O =>   (* task.hpp receiver_t::set_value, run by the scheduler *)
      match cb s with
      | CbDone =>
          if ds_done s then None
          else
            let old := rc s in
            Some ({| rc := old - 1; cb := cb s; dereg := dereg s; ds_done := true; cp_done := cp_done s;
                     resumed := if old =? 1 then 1%nat :: resumed s else resumed s; kind := kind s; chosen := chosen s |},
                  ERc true old (old - 1) :: (if old =? 1 then [ERoot (chosen s)] else []))
      | _ => None
      end
  | S (S O) =>   (* task.hpp complete_and_choose_continuation *)
      if cp_done s then None
      else match cb s with
           | CbAdded => None          (* callback_.destruct() waits for the running callback *)
           | _ =>
               let old := rc s in
               Some ({| rc := old - 1; cb := cb s; dereg := true; ds_done := ds_done s; cp_done := true;
                        resumed := if old =? 1 then 2%nat :: resumed s else resumed s; kind := kind s;
                        chosen := Some (kind s) |},
                     ERc true old (old - 1) :: (if old =? 1 then [ERoot (Some (kind s))] else []))
           end
  | _ => None
  end.

(* nothing is in flight: the task completed and the stop request, if it was started, ran *)
Definition quiescent (s : st) : bool :=
  cp_done s && (match cb s with CbIdle => true | CbBail => true | CbDone => ds_done s | CbAdded => false end).

End SrThunk.
