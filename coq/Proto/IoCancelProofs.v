(* Proofs about the model IoCancel (Proto/IoCancelDefs.v).

   Method.  The state is (core, stoppers' status list).  Every step changes `core` by one of a fixed
   finite family of functions (the five core thread steps, `step_set`, `step_run`), none of which
   looks at the status list or at the number of stoppers: the transition system `asucc` on `core`
   over-approximates the whole system for ANY number of stoppers (lemma step_asucc).  All fields of
   `core` range over finite types except counters and lists that stay bounded on reachable states,
   and the parameters are finitely many, so the set of `core` states reachable under `asucc` is
   computed by a worklist function inside Coq and then CHECKED to be closed under `asucc` and to
   contain the initial state (closed_sound needs nothing else); a boolean state predicate that
   holds on every element of a closed set containing the initial state holds on every reachable
   state: for all parameters, all numbers of stoppers, all schedules.  The computations are by
   vm_compute (re-checked by the kernel at Qed); they enumerate the complete state space, not
   samples.  Equality of states is the derived decidable equality (core_eq_dec). *)
From Coq Require Import List Bool Arith Lia NArith.
From V Require Import Base.Sched Proto.IoCancelDefs.
Import ListNotations.
Import IoCancel.

(* ---- decidable equality --------------------------------------------------------------------- *)
Definition core_eq_dec : forall a b : core, {a = b} + {a <> b}.
Proof. repeat decide equality. Defined.

Definition core_eqb (a b : core) : bool := if core_eq_dec a b then true else false.
Lemma core_eqb_eq a b : core_eqb a b = true -> a = b.
Proof. unfold core_eqb. destruct (core_eq_dec a b); [auto|discriminate]. Qed.

(* ---- the finite transition system on core ------------------------------------------------------ *)
Definition osucc (o : option (core * list ev)) : list core :=
  match o with Some (c, _) => [c] | None => [] end.

Definition asucc (s : core) : list core :=
  osucc (step_io s) ++ osucc (step_take s) ++ osucc (step_deliver s) ++ osucc (step_starter s) ++
  osucc (step_peer s) ++ [fst (fst (step_set s))] ++ osucc (step_run s).

Inductive areach (c0 : core) : core -> Prop :=
| ar_refl : areach c0 c0
| ar_step c c' : areach c0 c -> In c' (asucc c) -> areach c0 c'.

Lemma in_osucc o c e : o = Some (c, e) -> In c (osucc o).
Proof. intros ->. simpl. auto. Qed.

Lemma step_asucc t s s' e : step t s = Some (s', e) -> In (co s') (asucc (co s)).
Proof.
  unfold step, asucc. intros H.
  destruct t as [|[|[|[|[|i]]]]]; simpl in H;
    try (match type of H with context[match ?x with _ => _ end] => destruct x as [[c e']|] eqn:E end;
         [inversion H; subst; clear H; simpl; rewrite ?in_app_iff; simpl; auto 10|discriminate]).
  unfold step_stopper in H. destruct (nth_error (sts s) i) as [[| |]|]; try discriminate.
  - destruct (step_set (co s)) as [[c e'] r] eqn:E. inversion H; subst; clear H. simpl.
    rewrite ?in_app_iff. simpl. auto 10.
  - destruct (step_run (co s)) as [[c e']|] eqn:E; [|discriminate]. inversion H; subst; clear H. simpl.
    rewrite ?in_app_iff. simpl. auto 10.
Qed.

Theorem run_areach p nstop (sched : list nat) :
  areach (init_core p) (co (fst (run step sched (init p nstop, [])))).
Proof.
  apply (run_invariant_state _ _ _ step (fun s => areach (init_core p) (co s))).
  - intros s t s' e Hr Hs. eapply ar_step; eauto. eapply step_asucc; eauto.
  - simpl. constructor.
Qed.

(* ---- reachable set: worklist + closure check --------------------------------------------------- *)
Local Open Scope N_scope.
Definition pc_code (p : iopc) : N :=
  match p with
  | IIdle => 0 | ISys0 => 1 | IAddIo0 _ => 2 | IReg => 3 | IAdd => 4 | IInline _ => 5 | IDeliver => 6
  | ICUnreg => 7 | ICWait => 8 | ICDel => 9 | ICAddIo => 10 | ICSys => 11 | IDLoad => 12 | IDUnreg => 13
  | IDWait => 14 | IDFin => 15 | IDResched => 16 | ICrashed => 17
  end.
Definition cb_code (c : cbstate) : N :=
  match c with CbNone => 0 | CbReg => 1 | CbInline => 2 | CbRunning => 3 | CbDone => 4 | CbUnreg => 5 end.
Definition run_code (r : rpc) : N :=
  match r with RNone => 0 | RCb CCancel => 1 | RCb CDel => 2 | RCb CInc => 3 | RCb CEnq => 4 | RStore => 5 end.
Definition b2n (b : bool) : N := if b then 1 else 0.
Definition len {A} (l : list A) : N := N.of_nat (length l).
(* any function would do: only used to skip most equality tests *)
Definition hash (s : core) : N :=
  pc_code (io s) + 18 * (cb_code (cb s) + 6 * (run_code (runner s) + 6 * (b2n (reg s) + 2 * (b2n (ready s) +
  2 * (b2n (stopped s) + 2 * (N.of_nat (s_io s) + 3 * (N.of_nat (s_cancel s) + 3 * (len (batch s) +
  3 * (len (localq s) + 3 * (len (remoteq s) + 3 * (b2n (peer_done s) + 2 * (len (completed s) +
  2 * b2n (polled s))))))))))))).
Local Close Scope N_scope.

Definition entry := (N * core)%type.
Definition mem (c : core) (l : list entry) : bool :=
  let h := hash c in existsb (fun x => N.eqb (fst x) h && core_eqb (snd x) c) l.

Lemma mem_in c l : mem c l = true -> exists h, In (h, c) l.
Proof.
  unfold mem. intros H. apply existsb_exists in H. destruct H as ([h x] & Hin & Hx).
  apply andb_true_iff in Hx. destruct Hx as [_ Hx]. apply core_eqb_eq in Hx. simpl in Hx. subst x. eauto.
Qed.

Fixpoint add_all (cs frontier : list core) (seen : list entry) : list core * list entry :=
  match cs with
  | [] => (frontier, seen)
  | c :: r => if mem c seen then add_all r frontier seen
              else add_all r (c :: frontier) ((hash c, c) :: seen)
  end.

Fixpoint explore (fuel : nat) (frontier : list core) (seen : list entry) : option (list entry) :=
  match fuel with
  | O => None
  | S f =>
      match frontier with
      | [] => Some seen
      | c :: rest => let (fr, sn) := add_all (asucc c) rest seen in explore f fr sn
      end
  end.

Definition closed (R : list entry) : bool :=
  forallb (fun x => forallb (fun c' => mem c' R) (asucc (snd x))) R.

Lemma closed_sound R c0 :
  closed R = true -> mem c0 R = true -> forall c, areach c0 c -> mem c R = true.
Proof.
  intros Hc H0 c Hr. induction Hr as [|c c' Hr IH Hin]; auto.
  destruct (mem_in _ _ IH) as [h Hh].
  unfold closed in Hc. rewrite forallb_forall in Hc. specialize (Hc _ Hh). simpl in Hc.
  rewrite forallb_forall in Hc. auto.
Qed.

(* the reachable set of parameter p, or [] if the worklist did not terminate within the fuel *)
Definition reach_set (p : params) : list entry :=
  let c0 := init_core p in
  match explore 20000 [c0] [(hash c0, c0)] with Some R => R | None => [] end.

(* P holds on every state reachable with parameter p *)
Definition check (P : core -> bool) (p : params) : bool :=
  let R := reach_set p in
  closed R && mem (init_core p) R && forallb (fun x => P (snd x)) R.

Lemma check_sound P p : check P p = true -> forall c, areach (init_core p) c -> P c = true.
Proof.
  unfold check. intros H c Hr. apply andb_true_iff in H. destruct H as [H HP].
  apply andb_true_iff in H. destruct H as [Hc H0].
  pose proof (closed_sound _ _ Hc H0 c Hr) as Hm. destruct (mem_in _ _ Hm) as [h Hh].
  rewrite forallb_forall in HP. apply (HP _ Hh).
Qed.

(* a property of the transitions out of every reachable state *)
Definition check_trans (Q : core -> core -> bool) (p : params) : bool :=
  check (fun c => forallb (Q c) (asucc c)) p.

(* ---- all parameters ---------------------------------------------------------------------------- *)
Definition bools := [true; false].
Definition fails := [None; Some KAgain; Some KPerm; Some KOther].
Definition params_of (fx : bool) : list params :=
  flat_map (fun w => flat_map (fun r => flat_map (fun pr => flat_map (fun rd => flat_map (fun fl =>
    map (fun pl => {| fixed := fx; is_write := w; remote := r; pre := pr; ready0 := rd; fail := fl; pollable := pl |})
        bools) fails) bools) bools) bools) bools.

Lemma in_bools b : In b bools.
Proof. destruct b; simpl; auto. Qed.
Lemma in_fails f : In f fails.
Proof. destruct f as [[| |]|]; simpl; auto 6. Qed.

Lemma params_of_complete p : In p (params_of (fixed p)).
Proof.
  destruct p as [fx w r pr rd fl pl]. simpl fixed. unfold params_of.
  apply in_flat_map. exists w. split; [apply in_bools|].
  apply in_flat_map. exists r. split; [apply in_bools|].
  apply in_flat_map. exists pr. split; [apply in_bools|].
  apply in_flat_map. exists rd. split; [apply in_bools|].
  apply in_flat_map. exists fl. split; [apply in_fails|].
  apply in_map_iff. exists pl. split; [reflexivity|apply in_bools].
Qed.

Lemma check_all (P : params -> core -> bool) fx : forallb (fun p => check (P p) p) (params_of fx) = true ->
  forall p, fixed p = fx -> forall c, areach (init_core p) c -> P p c = true.
Proof.
  intros H p Hp c Hr. rewrite forallb_forall in H. subst fx.
  apply (check_sound (P p) p); auto. apply H. apply params_of_complete.
Qed.

(* ======================= the fixed variant: theorems ========================================== *)
Definition no_items (c : core) : bool :=
  match batch c, localq c, remoteq c with [], [], [] => true | _, _, _ => false end.

(* safety: at most one completion; at completion nothing of the operation is left anywhere (no epoll
   registration, no queued item, no callback in flight); no access after completion; epoll_wait
   never returns a dangling or consumed pointer; execute_ is never null when called *)
Definition P_safe (c : core) : bool :=
  negb (uaf c) && negb (stale c) && negb (crashed c) && Nat.leb (length (completed c)) 1 &&
  (if is_completed c
   then negb (reg c) && no_items c && Nat.eqb (cenq c) 0 && Nat.eqb (denq c) 0 &&
        match io c with IIdle => true | _ => false end &&
        match runner c with RNone => true | _ => false end &&
        match starter c with TFin => true | _ => false end &&
        match cb c with CbReg | CbRunning => false | _ => true end
   else true).

Definition errk_eqb (a b : errkind) : bool :=
  match a, b with KAgain, KAgain | KPerm, KPerm | KOther, KOther => true | _, _ => false end.

(* the result is the true one: value iff the bytes were transferred (exactly once, and never
   transferred and then dropped); the error is the errno of the failing syscall; done only after a
   stop request and without having consumed anything *)
Definition P_result (c : core) : bool :=
  Nat.leb (xfer c) 1 &&
  match completed c with
  | [] => true
  | [RValue] => Nat.eqb (xfer c) 1
  | [RError k] => Nat.eqb (xfer c) 0 &&
                  match fail (par c) with Some k' => errk_eqb k k' | None => false end
  | [RDone] => Nat.eqb (xfer c) 0 && stopped c
  | _ => false
  end.

Definition core_quiet (c : core) : bool :=
  match step_io c, step_take c, step_deliver c, step_starter c, step_peer c, step_run c with
  | None, None, None, None, None, None => true
  | _, _, _, _, _, _ => false
  end.

(* a descriptor on which the syscall says "try again" can be polled *)
Definition sane (p : params) : bool :=
  match fail p with None | Some KAgain => pollable p | _ => true end.

(* progress: when no core thread can move (peer done, nothing queued, no callback running) the
   operation has completed, or it is legitimately parked: registered, descriptor not ready, no stop
   requested, nothing consumed *)
Definition P_stuck (c : core) : bool :=
  if sane (par c) && core_quiet c
  then is_completed c || (parked_ok c && Nat.eqb (xfer c) 0)
  else true.

(* the five core thread steps never change who runs the callback, nor the parameters *)
Definition asucc_core (s : core) : list core :=
  osucc (step_io s) ++ osucc (step_take s) ++ osucc (step_deliver s) ++ osucc (step_starter s) ++
  osucc (step_peer s).
Definition rpc_eqb (a b : rpc) : bool := N.eqb (run_code a) (run_code b).
Lemma rpc_eqb_eq a b : rpc_eqb a b = true -> a = b.
Proof. destruct a as [|[]|], b as [|[]|]; simpl; intros; try reflexivity; discriminate. Qed.
Definition P_runner (c : core) : bool := forallb (fun c' => rpc_eqb (runner c') (runner c)) (asucc_core c).

Definition params_eqb (a b : params) : bool :=
  Bool.eqb (fixed a) (fixed b) && Bool.eqb (is_write a) (is_write b) && Bool.eqb (remote a) (remote b) &&
  Bool.eqb (pre a) (pre b) && Bool.eqb (ready0 a) (ready0 b) && Bool.eqb (pollable a) (pollable b) &&
  match fail a, fail b with
  | None, None => true
  | Some x, Some y => errk_eqb x y
  | _, _ => false
  end.
Lemma params_eqb_eq a b : params_eqb a b = true -> a = b.
Proof.
  destruct a as [a1 a2 a3 a4 a5 a6 a7], b as [b1 b2 b3 b4 b5 b6 b7]. unfold params_eqb. simpl.
  destruct a1, b1, a2, b2, a3, b3, a4, b4, a5, b5, a7, b7; simpl; try discriminate;
    destruct a6 as [[| |]|], b6 as [[| |]|]; simpl; intros; try discriminate; reflexivity.
Qed.

Definition P_fixed (p : params) (c : core) : bool :=
  P_safe c && P_result c && P_stuck c && P_runner c && params_eqb (par c) p.

Lemma fixed_checked : forallb (fun p => check (P_fixed p) p) (params_of true) = true.
Proof. vm_compute. reflexivity. Qed.

Theorem fixed_core p nstop (sched : list nat) :
  fixed p = true ->
  P_fixed p (co (fst (run step sched (init p nstop, [])))) = true.
Proof.
  intros Hf. eapply (check_all P_fixed true fixed_checked p Hf). apply run_areach.
Qed.

Ltac split_and H :=
  repeat match type of H with
         | (_ && _) = true => let H1 := fresh H in apply andb_true_iff in H; destruct H as [H H1]
         end.

(* ---- the theorems, in Prop ------------------------------------------------------------------- *)
Section Fixed.
  Variables (p : params) (nstop : nat) (sched : list nat).
  Hypothesis Hfixed : fixed p = true.
  Let s := fst (run step sched (init p nstop, [])).
  Let c := co s.

  Lemma fixed_parts : P_safe c = true /\ P_result c = true /\ P_stuck c = true /\ P_runner c = true /\ par c = p.
  Proof.
    pose proof (fixed_core p nstop sched Hfixed) as H. fold s in H. fold c in H. unfold P_fixed in H.
    split_and H. repeat split; auto. now apply params_eqb_eq.
  Qed.

  (* each read/write completes at most once *)
  Theorem io_at_most_once : length (completed c) <= 1.
  Proof.
    destruct fixed_parts as (H & _). unfold P_safe in H. split_and H. now apply Nat.leb_le.
  Qed.

  (* no access to the operation after its completion; epoll_wait never hands back a pointer to a
     completed operation or to a completion that was already consumed; no null execute_ is called *)
  Theorem nothing_touches_after_completion : uaf c = false /\ stale c = false /\ crashed c = false.
  Proof.
    destruct fixed_parts as (H & _). unfold P_safe in H. split_and H.
    repeat split; now apply negb_true_iff.
  Qed.

  (* at the operation's completion (and ever after) no epoll registration mentions it, neither of
     its queue items is queued anywhere, no thread is inside its code and its stop callback is
     neither registered nor running *)
  Theorem no_stale_registration :
    completed c <> [] ->
    reg c = false /\ batch c = [] /\ localq c = [] /\ remoteq c = [] /\ cenq c = 0 /\ denq c = 0 /\
    io c = IIdle /\ runner c = RNone /\ starter c = TFin /\ cb c <> CbReg /\ cb c <> CbRunning.
  Proof.
    intros Hc. destruct fixed_parts as (H & _). unfold P_safe in H. split_and H.
    unfold is_completed in H0. destruct (completed c) eqn:E; [congruence|]. split_and H0.
    unfold no_items in *.
    destruct (batch c), (localq c), (remoteq c); try discriminate.
    destruct (io c); try discriminate. destruct (runner c); try discriminate.
    destruct (starter c); try discriminate.
    apply negb_true_iff in H0. apply Nat.eqb_eq in H9, H8.
    repeat split; auto; destruct (cb c); try discriminate; congruence.
  Qed.

  (* the true result: value iff the bytes were transferred (at most once, never transferred and
     dropped), the error is the errno of the failing syscall, done only after a stop request *)
  Theorem io_true_result :
    xfer c <= 1 /\
    match completed c with
    | [] => True
    | [RValue] => xfer c = 1
    | [RError k] => xfer c = 0 /\ fail p = Some k
    | [RDone] => xfer c = 0 /\ stopped c = true
    | _ => False
    end.
  Proof.
    destruct fixed_parts as (_ & H & _ & _ & Hp). unfold P_result in H. split_and H. rewrite Hp in H0.
    split; [now apply Nat.leb_le|].
    destruct (completed c) as [|[|k|] [|]]; auto; try discriminate.
    - now apply Nat.eqb_eq.
    - split_and H0. apply Nat.eqb_eq in H0. split; auto.
      destruct (fail p) as [k'|]; [|discriminate]. destruct k, k'; try discriminate; reflexivity.
    - split_and H0. apply Nat.eqb_eq in H0. auto.
  Qed.
End Fixed.

(* ---- progress: no stuck state short of completion (or a legitimate park) ----------------------- *)
Lemma in_set_nth {A} (l : list A) i x y : nth_error l i = Some x -> In y (set_nth i y l).
Proof. revert i; induction l; destruct i; simpl; intros; try discriminate; auto. Qed.

Lemma in_set_nth_other {A} (l : list A) i x y z :
  nth_error l i = Some x -> x <> z -> In z l -> In z (set_nth i y l).
Proof.
  revert i; induction l; destruct i; simpl; intros H Hn Hin; try discriminate.
  - inversion H; subst. destruct Hin; [congruence|auto].
  - destruct Hin; eauto.
Qed.

Lemma step_run_some c : runner c <> RNone -> step_run c <> None.
Proof.
  unfold step_run. destruct (runner c) as [|k|]; try congruence.
  destruct (step_cb k c) as [[s1 e] [k'|]]; discriminate.
Qed.

Lemma step_set_runner c c' e r : step_set c = (c', e, r) ->
  (r = true -> runner c' <> RNone) /\ (r = false -> runner c' = runner c).
Proof.
  unfold step_set. destruct (stopped c); [intros H; inversion H; subst; split; [discriminate|auto]|].
  destruct (cb c); intros H; inversion H; subst; simpl; split; auto; discriminate.
Qed.

(* whoever runs the callback is one of the stoppers *)
Theorem runner_is_a_stopper p nstop (sched : list nat) :
  fixed p = true ->
  let s := fst (run step sched (init p nstop, [])) in
  runner (co s) <> RNone -> In KRun (sts s).
Proof.
  intros Hf.
  assert (forall sched, let s := fst (run step sched (init p nstop, [])) in
          areach (init_core p) (co s) /\ (runner (co s) <> RNone -> In KRun (sts s))) as H.
  { intros sc. apply (run_invariant_state _ _ _ step
      (fun s => areach (init_core p) (co s) /\ (runner (co s) <> RNone -> In KRun (sts s)))).
    - intros s t s' e [Hr HJ] Hs. split; [eapply ar_step; eauto; eapply step_asucc; eauto|].
      pose proof (check_all P_fixed true fixed_checked p Hf _ Hr) as HP. unfold P_fixed in HP. split_and HP.
      unfold P_runner in HP1. rewrite forallb_forall in HP1.
      unfold step in Hs. destruct t as [|[|[|[|[|i]]]]];
        try (simpl in Hs;
             match type of Hs with context[match ?x with _ => _ end] => destruct x as [[c' e']|] eqn:E end;
             [inversion Hs; subst; clear Hs; simpl|discriminate];
             assert (Hin : In c' (asucc_core (co s)))
               by (unfold asucc_core; rewrite E; simpl; rewrite ?in_app_iff; simpl; auto 10);
             apply HP1 in Hin; apply rpc_eqb_eq in Hin; rewrite Hin; exact HJ).
      unfold step_stopper in Hs. destruct (nth_error (sts s) i) as [[| |]|] eqn:En; try discriminate.
      + destruct (step_set (co s)) as [[c' e'] r] eqn:E. inversion Hs; subst; clear Hs. simpl.
        destruct (step_set_runner _ _ _ _ E) as [H1 H2]. destruct r.
        * intros _. eapply in_set_nth; eauto.
        * rewrite (H2 eq_refl). intros Hn. eapply in_set_nth_other; eauto. discriminate.
      + destruct (step_run (co s)) as [[c' e']|] eqn:E; [|discriminate]. inversion Hs; subst; clear Hs. simpl.
        intros Hn. destruct (runner c'); [congruence| |]; eapply in_set_nth; eauto.
    - simpl. split; [constructor|]. destruct (remote p); simpl; congruence. }
  intros s. apply (H sched).
Qed.

(* io_exactly_once, progress half: when no thread can move, the operation has completed, or it is
   legitimately parked (registered, descriptor not ready, no stop requested, nothing consumed) *)
Theorem io_completes p nstop (sched : list nat) :
  fixed p = true -> sane p = true ->
  let s := fst (run step sched (init p nstop, [])) in
  (forall t, step t s = None) ->
  completed (co s) <> [] \/ (parked_ok (co s) = true /\ xfer (co s) = 0).
Proof.
  intros Hf Hsane s Hstuck.
  destruct (fixed_parts p nstop sched Hf) as (_ & _ & HP & _ & Hpar). fold s in HP, Hpar.
  assert (Hcore : forall t, t < 5 -> step_core t (co s) = None).
  { intros t Ht. specialize (Hstuck t). unfold step in Hstuck.
    destruct t as [|[|[|[|[|t]]]]]; try lia;
      destruct (step_core _ (co s)) as [[c' e']|]; try discriminate; reflexivity. }
  assert (Hrun : runner (co s) = RNone).
  { destruct (runner (co s)) eqn:E; auto; exfalso;
      (assert (Hn : runner (co s) <> RNone) by congruence;
       pose proof (runner_is_a_stopper p nstop sched Hf Hn) as Hin; fold s in Hin;
       apply In_nth_error in Hin; destruct Hin as [i Hi];
       specialize (Hstuck (5 + i)); simpl in Hstuck; unfold step_stopper in Hstuck; rewrite Hi in Hstuck;
       pose proof (step_run_some _ Hn) as Hs; destruct (step_run (co s)) as [[c' e']|]; [discriminate|congruence]). }
  unfold P_stuck in HP. rewrite Hpar, Hsane in HP.
  assert (Hq : core_quiet (co s) = true).
  { unfold core_quiet.
    pose proof (Hcore 0 ltac:(lia)) as H0. pose proof (Hcore 1 ltac:(lia)) as H1.
    pose proof (Hcore 2 ltac:(lia)) as H2. pose proof (Hcore 3 ltac:(lia)) as H3.
    pose proof (Hcore 4 ltac:(lia)) as H4. simpl in H0, H1, H2, H3, H4. rewrite H0, H1, H2, H3, H4.
    unfold step_run. rewrite Hrun. reflexivity. }
  rewrite Hq in HP. simpl in HP. apply orb_true_iff in HP. destruct HP as [HP|HP].
  - left. unfold is_completed in HP. destruct (completed (co s)); [discriminate|congruence].
  - right. apply andb_true_iff in HP. destruct HP as [HP1 HP2]. apply Nat.eqb_eq in HP2. auto.
Qed.

(* ======================= the code as written: refuted ========================================= *)
Definition aw (w rem pr rd : bool) (fl : option errkind) (pl : bool) : params :=
  {| fixed := false; is_write := w; remote := rem; pre := pr; ready0 := rd; fail := fl; pollable := pl |}.

(* finding 6: started with the stop token already requested, the read completes with done while the
   kernel still holds the registration added after the cancellation removed nothing ... *)
Theorem no_stale_registration_refuted :
  exists p nstop sched, fixed p = false /\
    let c := co (fst (run step sched (init p nstop, []))) in
    completed c = [RDone] /\ reg c = true.
Proof. exists (aw false false true false None true), 0, [0; 0; 0; 0; 0; 0; 0; 1; 0; 0]. vm_compute. auto. Qed.

(* ... also without pre-cancellation: a stop request between the construction of the callback and
   the EPOLL_CTL_ADD ... *)
Theorem no_stale_registration_refuted_race :
  exists p sched, fixed p = false /\ pre p = false /\
    let c := co (fst (run step sched (init p 1, []))) in
    completed c = [RDone] /\ reg c = true.
Proof. exists (aw false false false false None true), [0; 0; 5; 5; 5; 0; 5; 5; 1; 0; 0]. vm_compute. auto. Qed.

(* ... and when the descriptor becomes ready afterwards epoll_wait returns the dangling pointer *)
Theorem nothing_touches_refuted_stale :
  exists p nstop sched, fixed p = false /\
    let c := co (fst (run step sched (init p nstop, []))) in
    completed c = [RDone] /\ stale c = true.
Proof. exists (aw false false true false None true), 0, [0; 0; 0; 0; 0; 0; 0; 1; 0; 0; 4; 2]. vm_compute. auto. Qed.

(* finding 8: a failing readv (EISDIR on a directory) parks the operation for ever *)
Theorem io_completes_refuted :
  exists p nstop sched, fixed p = false /\ sane p = true /\
    let s := fst (run step sched (init p nstop, [])) in
    (forall t, step t s = None) /\ completed (co s) = [] /\ parked_ok (co s) = false /\ errs (co s) = [KOther].
Proof.
  exists (aw false false false false (Some KOther) false), 0, [0; 0; 0; 4]. repeat split.
  intros t. do 5 (destruct t as [|t]; [reflexivity|]). vm_compute. destruct t; reflexivity.
Qed.

(* finding 8, second half: when the descriptor can be polled the error reported is EPERM whatever
   the syscall's errno was *)
Theorem io_true_result_refuted :
  exists p nstop sched, fixed p = false /\
    let c := co (fst (run step sched (init p nstop, []))) in
    fail p = Some KOther /\ completed c = [RError KPerm].
Proof. exists (aw false false false true (Some KOther) true), 0, [0; 0; 0; 2; 0; 0; 0; 0; 0; 0]. vm_compute. auto. Qed.

(* finding 15: the done path never destroys the stop callback: the stopper stores
   callbackCompleted_ into the operation after it completed (and may have been freed) *)
Theorem nothing_touches_refuted_late_store :
  exists p sched, fixed p = false /\
    let c := co (fst (run step sched (init p 1, []))) in
    completed c = [RDone] /\ uaf c = true.
Proof. exists (aw false false false false None true), [0; 0; 0; 5; 5; 5; 5; 5; 1; 0; 0; 5]. vm_compute. auto. Qed.
