(* E1 model DetachOnCancel: include/unifex/detach_on_cancel.hpp as it exists.
   The heap [detached_state] with the word parentOp_ = (pointer-present bit, 2-bit count), the
   parent operation (receiver_, callback_, unique_ptr state_), the child's inplace_stop_source and
   four threads:
     0  start(): construct the stop callback on the receiver's token (runs request_stop INLINE when
        the token is already stopped), then start the child
     1  thread A: the child's natural completion = _receiver::set_value/set_error/set_done
     2  thread B: request_stop on the receiver's (external) stop source, which runs the registered
        callback = detached_state::request_stop
     3  thread D: the owner of the receiver destroys the parent operation once the receiver completed
   The external stop source is abstracted at its linearisation points (its internals are property
   C03): REG, SET, DEREG, CB-COMPLETED, DEREG-WAIT.  The child is a scriptable leaf: it completes
   on thread A with [p_out]; when [p_inl] it completes only when it sees the stop: with done, from
   inside its stop callback (nested in request_stop) or inside its start() when the stop came
   first, and thread A does nothing; when [p_hold] thread A delivers only after the receiver has
   completed.
   Ghost state: [delivered] (completions of the receiver: op_freed = delivered <> nil), [opd] (parent
   operation destroyed by D), [freed] (number of times the heap state was freed), [late] (accesses
   to the parent operation after the receiver completed / to the heap state after it was freed),
   [cbdtor] (number of destructions of callback_), [underflow] (fetch_sub on a zero count).
   Executable definitions only. *)
From Coq Require Import List Bool Arith.
Import ListNotations.

Module DetachOnCancel.

Inductive outcome := OVal | OErr | ODone.
Inductive stopmode := NoStop | Stop | PreStop.

Record params := {
  p_out : outcome;      (* the child's natural result *)
  p_stop : stopmode;
  p_inl : bool;         (* the child completes inline (with done) when it sees the stop, and only then *)
  p_hold : bool         (* thread A completes the child only after the receiver has completed *)
}.

(* registration of callback_ in the receiver's stop source *)
Inductive cbreg :=
| RNone        (* not constructed yet *)
| RReg         (* registered (linked) *)
| RExec        (* claimed by request_stop: executing / executed, callbackCompleted_ = false *)
| RCompleted   (* callbackCompleted_ = true *)
| RUnlinked    (* deregistered before it ran *)
| RRemoved     (* deregistered from inside the callback (removedDuringCallback) *)
| RInline.     (* token already stopped at construction: ran inline, source_ = nullptr *)

(* one execution of try_get_op + the completion of the receiver (detach_on_cancel.hpp:71-93,153-168) *)
Inductive gpc :=
| GSub         (* about to parentOp_.fetch_sub(1) *)
| GDereg       (* got the op: about to ptr->callback_.destruct() = remove_callback *)
| GWait        (* remove_callback found the callback executing elsewhere: waits for callbackCompleted_ *)
| GFin.

Inductive pc0 := T0Reg | T0Cb | T0Start | T0Child (g : gpc) | T0Fin.
Inductive pcA := AGet (g : gpc) | AFin.
Inductive pcB := BSet | BCb | BCbRet | BFin.

(* detached_state::request_stop (detach_on_cancel.hpp:121-151) *)
Inductive cpc :=
| CIdle
| CLoad                          (* parentOp_.load(relaxed) *)
| CCas (p : bool) (c : nat)      (* compare_exchange_strong(expected = (p,c), 2) *)
| CReq                           (* stopSource_.request_stop() *)
| CKid (g : gpc)                 (* the child completes with done inside its stop callback *)
| CSub                           (* parentOp_.fetch_sub(1) *)
| CDereg (p : bool) (c : nat)    (* op->callback_.destruct(); reset/release; set_done *)
| CFin.

Record st := {
  par : params;
  wp : bool; wc : nat;           (* parentOp_: pointer present, count *)
  xstop : bool;                  (* the receiver's stop source: stop requested *)
  reg : cbreg;
  cbt : nat;                     (* the thread executing the callback *)
  sstop : bool;                  (* the child's stop source (stopSource_): stop requested *)
  kreg : bool;                   (* the child is started and armed (its stop callback registered) *)
  owned : bool;                  (* op.state_ (unique_ptr) still owns the heap state *)
  opd : bool;                    (* parent operation destroyed *)
  freed : nat;
  late : nat;
  cbdtor : nat;
  underflow : bool;
  delivered : list (outcome * nat);   (* (result, completing thread), newest first *)
  p0 : pc0; pa : pcA; pb : pcB; cb : cpc
}.

Inductive ev :=
| EExtReg (inl : bool)           (* callback_ construct: registered / ran inline *)
| EExtSet                        (* external request_stop: flag set, callback claimed *)
| EExtDereg                      (* remove_callback's critical section *)
| ECbDone                        (* callbackCompleted_.store(true, release) *)
| ECbWait                        (* callbackCompleted_.load(acquire) = true *)
| EWLoad (p : bool) (c : nat)
| EWCas (p : bool) (c : nat) (ok : bool)   (* observed value; desired is always (null,2) *)
| EWSub (p : bool) (c : nat)     (* fetch_sub(1): old value *)
| ESrcSet                        (* stopSource_.request_stop() sets the flag *)
| ESrcReg (seen : bool)          (* the child registers its stop callback: stop already requested? *)
| EChildDestroyed                (* the heap state (and the child operation in it) is freed *)
| ERoot (o : outcome)            (* the receiver is completed *)
| EOpDestroyed.                  (* the parent operation is destroyed *)

Definition init (p : params) : st :=
  {| par := p; wp := true; wc := 1;
     xstop := match p_stop p with PreStop => true | _ => false end;
     reg := RNone; cbt := 0; sstop := false; kreg := false;
     owned := true; opd := false; freed := 0; late := 0; cbdtor := 0; underflow := false;
     delivered := [];
     p0 := T0Reg; pa := if p_inl p then AFin else AGet GSub;
     pb := match p_stop p with Stop => BSet | _ => BFin end;
     cb := CIdle |}.

(* ---- field updates ------------------------------------------------------------------------- *)
Definition set_w (s : st) (p : bool) (c : nat) : st :=
  {| par := par s; wp := p; wc := c; xstop := xstop s; reg := reg s; cbt := cbt s; sstop := sstop s;
     kreg := kreg s; owned := owned s; opd := opd s; freed := freed s; late := late s;
     cbdtor := cbdtor s; underflow := underflow s; delivered := delivered s;
     p0 := p0 s; pa := pa s; pb := pb s; cb := cb s |}.
Definition set_x (s : st) (x : bool) (r : cbreg) (t : nat) : st :=
  {| par := par s; wp := wp s; wc := wc s; xstop := x; reg := r; cbt := t; sstop := sstop s;
     kreg := kreg s; owned := owned s; opd := opd s; freed := freed s; late := late s;
     cbdtor := cbdtor s; underflow := underflow s; delivered := delivered s;
     p0 := p0 s; pa := pa s; pb := pb s; cb := cb s |}.
Definition set_reg (s : st) (r : cbreg) : st := set_x s (xstop s) r (cbt s).
Definition set_kid (s : st) (ss kr : bool) : st :=
  {| par := par s; wp := wp s; wc := wc s; xstop := xstop s; reg := reg s; cbt := cbt s; sstop := ss;
     kreg := kr; owned := owned s; opd := opd s; freed := freed s; late := late s;
     cbdtor := cbdtor s; underflow := underflow s; delivered := delivered s;
     p0 := p0 s; pa := pa s; pb := pb s; cb := cb s |}.
Definition set_own (s : st) (ow od : bool) (fr : nat) : st :=
  {| par := par s; wp := wp s; wc := wc s; xstop := xstop s; reg := reg s; cbt := cbt s; sstop := sstop s;
     kreg := kreg s; owned := ow; opd := od; freed := fr; late := late s;
     cbdtor := cbdtor s; underflow := underflow s; delivered := delivered s;
     p0 := p0 s; pa := pa s; pb := pb s; cb := cb s |}.
Definition set_ghost (s : st) (l d : nat) (u : bool) (dl : list (outcome * nat)) : st :=
  {| par := par s; wp := wp s; wc := wc s; xstop := xstop s; reg := reg s; cbt := cbt s; sstop := sstop s;
     kreg := kreg s; owned := owned s; opd := opd s; freed := freed s; late := l;
     cbdtor := d; underflow := u; delivered := dl;
     p0 := p0 s; pa := pa s; pb := pb s; cb := cb s |}.
Definition set_pcs (s : st) (a : pc0) (b : pcA) (c : pcB) (d : cpc) : st :=
  {| par := par s; wp := wp s; wc := wc s; xstop := xstop s; reg := reg s; cbt := cbt s; sstop := sstop s;
     kreg := kreg s; owned := owned s; opd := opd s; freed := freed s; late := late s;
     cbdtor := cbdtor s; underflow := underflow s; delivered := delivered s;
     p0 := a; pa := b; pb := c; cb := d |}.
Definition set_p0 s a := set_pcs s a (pa s) (pb s) (cb s).
Definition set_pa s b := set_pcs s (p0 s) b (pb s) (cb s).
Definition set_pb s c := set_pcs s (p0 s) (pa s) c (cb s).
Definition set_cb s d := set_pcs s (p0 s) (pa s) (pb s) d.

(* the receiver has completed: its owner may destroy the parent operation from now on *)
Definition op_freed (s : st) : bool := match delivered s with [] => false | _ => true end.

(* an access to the parent operation (receiver_, callback_, state_) / to the heap state *)
Definition touch_op (s : st) : st :=
  if op_freed s then set_ghost s (S (late s)) (cbdtor s) (underflow s) (delivered s) else s.
Definition touch_heap (s : st) : st :=
  if Nat.ltb 0 (freed s) then set_ghost s (S (late s)) (cbdtor s) (underflow s) (delivered s) else s.
Definition dtor_cb (s : st) : st := set_ghost s (late s) (S (cbdtor s)) (underflow s) (delivered s).
(* unifex::set_xxx(std::move(op->receiver_), ...) *)
Definition deliver (s : st) (o : outcome) (t : nat) : st :=
  let s := touch_op s in set_ghost s (late s) (cbdtor s) (underflow s) ((o, t) :: delivered s).
(* delete / unique_ptr::reset of the heap state *)
Definition free_heap (s : st) : st := set_own s false (opd s) (S (freed s)).

(* parentOp_.fetch_sub(1, acq_rel) *)
Definition fetch_sub (s : st) : st :=
  match wc s with
  | O => set_ghost (set_w s (wp s) 3) (late s) (cbdtor s) true (delivered s)
  | S c => set_w s (wp s) c
  end.

(* ---- try_get_op and the completion of the receiver, executed by thread [t] with result [o] -----
   returns the new state, the events and the new gpc *)
Definition get_step (t : nat) (o : outcome) (g : gpc) (s : st) : option (st * list ev * gpc) :=
  match g with
  | GSub =>   (* detach_on_cancel.hpp:154-167 *)
      let s1 := touch_heap s in
      let p := wp s1 in let c := wc s1 in
      let s2 := fetch_sub s1 in
      if negb (Nat.eqb c 1) then Some (s2, [EWSub p c], GFin)            (* lost to stop: nullptr *)
      else if p then Some (s2, [EWSub p c], GDereg)
      else Some (free_heap s2, [EWSub p c; EChildDestroyed], GFin)       (* delete this *)
  | GDereg => (* detach_on_cancel.hpp:162 ptr->callback_.destruct(); inplace_stop_token.cpp remove_callback *)
      let s1 := dtor_cb (touch_op s) in
      match reg s1 with
      | RReg => Some (deliver (set_reg s1 RUnlinked) o t, [EExtDereg; ERoot o], GFin)
      | RExec =>
          if Nat.eqb t (cbt s1) then Some (deliver (set_reg s1 RRemoved) o t, [EExtDereg; ERoot o], GFin)
          else Some (s1, [EExtDereg], GWait)
      | RCompleted =>
          if Nat.eqb t (cbt s1) then Some (deliver s1 o t, [EExtDereg; ERoot o], GFin)
          else Some (s1, [EExtDereg], GWait)
      | _ => Some (deliver s1 o t, [ERoot o], GFin)   (* source_ = nullptr: nothing to deregister *)
      end
  | GWait =>  (* inplace_stop_token.cpp: while (!callbackCompleted_.load(acquire)) spin  -- blocking *)
      match reg s with
      | RCompleted => Some (deliver (touch_op s) o t, [ECbWait; ERoot o], GFin)
      | _ => None
      end
  | GFin => None
  end.

(* ---- detached_state::request_stop executed by thread [t] --------------------------------------- *)
(* callback_.destruct() was done: reset / release the heap state and complete with done
   (detach_on_cancel.hpp:144-150); [p],[c] = the value returned by the callback's fetch_sub *)
Definition cb_finish (t : nat) (p : bool) (c : nat) (s : st) : st * list ev :=
  let s1 := touch_op s in
  let reset := andb (negb p) (Nat.eqb c 1) in
  let s2 := if reset then (if owned s1 then free_heap s1 else s1)
            else set_own s1 false (opd s1) (freed s1) in
  let e := if andb reset (owned s1) then [EChildDestroyed] else [] in
  (set_cb (deliver s2 ODone t) CFin, e ++ [ERoot ODone]).

Definition step_cb (t : nat) (s : st) : option (st * list ev) :=
  match cb s with
  | CIdle | CFin => None
  | CLoad =>   (* :122-126 *)
      let s1 := touch_heap s in
      Some (set_cb s1 (if Nat.eqb (wc s1) 0 then CFin else CCas (wp s1) (wc s1)), [EWLoad (wp s1) (wc s1)])
  | CCas p c => (* :131-138 *)
      let s1 := touch_heap s in
      if andb (Bool.eqb (wp s1) p) (Nat.eqb (wc s1) c)
      then Some (set_cb (set_w s1 false 2) CReq, [EWCas p c true])
      else Some (set_cb s1 CFin, [EWCas (wp s1) (wc s1) false])
  | CReq =>    (* :139 stopSource_.request_stop(): the child sees the stop *)
      let s1 := touch_heap s in
      let s2 := set_kid s1 true (kreg s1) in
      Some (set_cb s2 (if andb (p_inl (par s)) (kreg s1) then CKid GSub else CSub), [ESrcSet])
  | CKid g =>  (* the child completes with done from inside its stop callback *)
      match get_step t ODone g s with
      | Some (s', evs, GFin) => Some (set_cb s' CSub, evs)
      | Some (s', evs, g') => Some (set_cb s' (CKid g'), evs)
      | None => None
      end
  | CSub =>    (* :140 *)
      let s1 := touch_heap s in
      let p := wp s1 in let c := wc s1 in
      let s2 := fetch_sub s1 in
      match reg s2 with
      | RReg | RExec | RCompleted => Some (set_cb s2 (CDereg p c), [EWSub p c])
      | _ => (* source_ = nullptr (ran inline): callback_.destruct() touches no shared word *)
          let (s3, evs) := cb_finish t p c (dtor_cb (touch_op s2)) in Some (s3, EWSub p c :: evs)
      end
  | CDereg p c => (* :143 op->callback_.destruct() from inside the callback, then :144-150 *)
      let s1 := dtor_cb (touch_op s) in
      let s2 := match reg s1 with
                | RExec => if Nat.eqb t (cbt s1) then set_reg s1 RRemoved else s1
                | RReg => set_reg s1 RUnlinked
                | _ => s1
                end in
      let (s3, evs) := cb_finish t p c s2 in Some (s3, EExtDereg :: evs)
  end.

Definition cb_done (s : st) : bool := match cb s with CFin => true | _ => false end.

(* ---- the threads ----------------------------------------------------------------------------- *)
Definition step0 (s : st) : option (st * list ev) :=
  match p0 s with
  | T0Reg =>   (* :53-54 op.callback_.construct(get_stop_token(op.receiver_), cancel_callback{...}) *)
      let s1 := touch_op s in
      if xstop s1 then Some (set_pcs (set_reg s1 RInline) T0Cb (pa s1) (pb s1) CLoad, [EExtReg true])
      else Some (set_p0 (set_reg s1 RReg) T0Start, [EExtReg false])
  | T0Cb =>
      match step_cb 0 s with
      | Some (s', evs) => Some (if cb_done s' then set_p0 s' T0Start else s', evs)
      | None => None
      end
  | T0Start => (* :55 unifex::start(childOp): the child registers its stop callback on stopSource_ *)
      let s1 := touch_heap s in
      if andb (sstop s1) (p_inl (par s1))
      then Some (set_p0 s1 (T0Child GSub), [ESrcReg true])
      else Some (set_p0 (set_kid s1 (sstop s1) true) T0Fin, [ESrcReg (sstop s1)])
  | T0Child g => (* the child completes with done inside its start() *)
      match get_step 0 ODone g s with
      | Some (s', evs, GFin) => Some (set_p0 s' T0Fin, evs)
      | Some (s', evs, g') => Some (set_p0 s' (T0Child g'), evs)
      | None => None
      end
  | T0Fin => None
  end.

Definition stepA (s : st) : option (st * list ev) :=
  match pa s with
  | AGet g =>
      (* the child can be completed once it is started (and, when held, the receiver completed) *)
      if andb (kreg s) (orb (negb (p_hold (par s))) (op_freed s)) then
        match get_step 1 (p_out (par s)) g s with
        | Some (s', evs, GFin) => Some (set_pa s' AFin, evs)
        | Some (s', evs, g') => Some (set_pa s' (AGet g'), evs)
        | None => None
        end
      else None
  | AFin => None
  end.

Definition stepB (s : st) : option (st * list ev) :=
  match pb s with
  | BSet =>    (* inplace_stop_source::request_stop: set the flag, claim the registered callback *)
      match reg s with
      | RReg => Some (set_pcs (set_x s true RExec 2) (p0 s) (pa s) BCb CLoad, [EExtSet])
      | _ => Some (set_pb (set_x s true (reg s) (cbt s)) BFin, [EExtSet])
      end
  | BCb =>
      match step_cb 2 s with
      | Some (s', evs) =>
          Some (if cb_done s' then set_pb s' (match reg s' with RExec => BCbRet | _ => BFin end) else s', evs)
      | None => None
      end
  | BCbRet =>  (* callback->callbackCompleted_.store(true, release): a write into op.callback_ *)
      Some (set_pb (set_reg (touch_op s) RCompleted) BFin, [ECbDone])
  | BFin => None
  end.

Definition stepD (s : st) : option (st * list ev) :=
  if andb (op_freed s) (negb (opd s)) then
    if owned s then Some (set_own s false true (S (freed s)), [EChildDestroyed; EOpDestroyed])
    else Some (set_own s false true (freed s), [EOpDestroyed])
  else None.

Definition step (t : nat) (s : st) : option (st * list ev) :=
  match t with
  | 0 => step0 s
  | 1 => stepA s
  | 2 => stepB s
  | 3 => stepD s
  | _ => None
  end.

Definition is_none {A} (o : option A) : bool := match o with None => true | Some _ => false end.
(* nobody can move *)
Definition quiescent (s : st) : bool :=
  forallb (fun t => is_none (step t s)) [0; 1; 2; 3].

End DetachOnCancel.
