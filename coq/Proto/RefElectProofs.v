(* Proofs about the E1 model RefElect(n) (Proto/RefElectDefs.v): the completion election of
   when_all.  Everything is proved for an arbitrary list of child outcomes and an arbitrary
   schedule (any length, any thread ids).  The core is one inductive state invariant [Inv],
   preserved separately by step_kid / step_cb / step_stopper, lifted with run_invariant_state;
   the trace facts use trace-aware invariants over configurations lifted with run_invariant. *)
From Coq Require Import ZArith List Bool Lia Arith.
From V Require Import Base.Sched Proto.RefElectDefs.
Import ListNotations.
Import RefElect.

(* ------------------------------------------------------------------------------------------ *)
(* list helpers                                                                               *)

Lemma set_nth_length {A} (i : nat) (x : A) (l : list A) : length (set_nth i x l) = length l.
Proof. revert i; induction l as [|y r IH]; intros [|i]; cbn; auto. Qed.

Lemma nth_error_set_nth_eq {A} (i : nat) (x : A) (l : list A) :
  i < length l -> nth_error (set_nth i x l) i = Some x.
Proof.
  revert i; induction l as [|y r IH]; intros [|i] Hlt; cbn in *; try lia; auto.
  apply IH; lia.
Qed.

Lemma nth_error_set_nth_neq {A} (i j : nat) (x : A) (l : list A) :
  i <> j -> nth_error (set_nth i x l) j = nth_error l j.
Proof.
  revert i j; induction l as [|y r IH]; intros [|i] [|j] Hne; cbn; auto; try congruence.
Qed.

Lemma Forall2_set_nth {A B} (R : A -> B -> Prop) l1 l2 i p q :
  Forall2 R l1 l2 -> nth_error l2 i = Some p ->
  (forall a, nth_error l1 i = Some a -> R a p -> R a q) ->
  Forall2 R l1 (set_nth i q l2).
Proof.
  intros H; revert i; induction H as [|a b l1 l2 Hab H IH]; intros [|i] Hn Himp;
    cbn in *; try discriminate.
  - injection Hn as ->. constructor; auto.
  - constructor; auto.
Qed.

Lemma Forall2_nth_r {A B} (R : A -> B -> Prop) l1 l2 i p :
  Forall2 R l1 l2 -> nth_error l2 i = Some p ->
  exists a, nth_error l1 i = Some a /\ R a p.
Proof.
  intros H; revert i; induction H as [|a b l1 l2 Hab H IH]; intros [|i] Hn;
    cbn in *; try discriminate.
  - injection Hn as ->. eauto.
  - eauto.
Qed.

Lemma Forall2_map_r {A B} (R : A -> B -> Prop) (f : A -> B) l :
  (forall a, R a (f a)) -> Forall2 R l (map f l).
Proof. intros H; induction l; cbn; constructor; auto. Qed.

Lemma forallb_false_nth {A} (f : A -> bool) l :
  forallb f l = false -> exists i p, nth_error l i = Some p /\ f p = false.
Proof.
  induction l as [|y r IH]; cbn; [discriminate|].
  destruct (f y) eqn:Ey; cbn.
  - intros H. destruct (IH H) as (i & p & Hn & Hp). exists (S i), p. auto.
  - intros _. exists 0, y. auto.
Qed.

(* ------------------------------------------------------------------------------------------ *)
(* counting program counters                                                                  *)

Definition b2n (b : bool) : nat := if b then 1 else 0.

Fixpoint count_if (f : kpc -> bool) (l : list kpc) : nat :=
  match l with
  | [] => 0
  | p :: r => b2n (f p) + count_if f r
  end.

Lemma count_set_nth f i p q l :
  nth_error l i = Some p ->
  count_if f (set_nth i q l) + b2n (f p) = count_if f l + b2n (f q).
Proof.
  revert i; induction l as [|y r IH]; intros [|i] H; cbn in *; try discriminate.
  - injection H as ->. lia.
  - specialize (IH i H). lia.
Qed.

Lemma count_zero_Forall f l : count_if f l = 0 -> Forall (fun p => f p = false) l.
Proof.
  induction l as [|y r IH]; cbn; intros H; constructor.
  - destruct (f y); cbn in H; [lia|reflexivity].
  - apply IH. lia.
Qed.

Lemma Forall_count_zero f l : Forall (fun p => f p = false) l -> count_if f l = 0.
Proof. induction 1 as [|y r Hy _ IH]; cbn; [reflexivity|]. rewrite Hy, IH. reflexivity. Qed.

(* a child that has not yet executed its fetch_sub *)
Definition actv (p : kpc) : bool := match p with KXchg _ | KSub => true | _ => false end.
(* a child that saw the count hit zero and is inside deliver_result *)
Definition elec (p : kpc) : bool := match p with KObs | KLoad => true | _ => false end.
Definition cbA (c : cpc) : nat := match c with CSub => 1 | _ => 0 end.
Definition cbE (c : cpc) : nat := match c with CObs | CLoad => 1 | _ => 0 end.

(* number of threads still holding a count / number of threads inside deliver_result *)
Definition nA (s : st) : nat := count_if actv (kids s).
Definition nE (s : st) : nat := count_if elec (kids s).

(* 1 iff there is at least one child *)
Definition nz (outs : list outcome) : nat := match outs with [] => 0 | _ => 1 end.

Lemma nz_le outs : nz outs <= 1.
Proof. destruct outs; cbn; lia. Qed.

Lemma nz_nonempty outs : outs <> [] -> nz outs = 1.
Proof. destruct outs; cbn; congruence. Qed.

Lemma nz_nth {B} (R : outcome -> B -> Prop) outs l i p :
  Forall2 R outs l -> nth_error l i = Some p -> nz outs = 1.
Proof.
  intros H Hn. destruct (Forall2_nth_r R outs l i p H Hn) as (a & Ha & _).
  destruct outs; [destruct i; discriminate|reflexivity].
Qed.

Lemma nz_count {R : outcome -> kpc -> Prop} outs l f :
  Forall2 R outs l -> count_if f l <> 0 -> nz outs = 1.
Proof. intros H Hc. destruct H; [cbn in Hc; lia|reflexivity]. Qed.

Lemma count_actv_start outs : count_if actv (map kid_start outs) = length outs.
Proof. induction outs as [|o r IH]; cbn; [reflexivity|]. rewrite IH. destruct o; reflexivity. Qed.

Lemma count_elec_start outs : count_if elec (map kid_start outs) = 0.
Proof. induction outs as [|o r IH]; cbn; [reflexivity|]. rewrite IH. destruct o; reflexivity. Qed.

(* if doneOrError_ is still false, every non-value child is still before its exchange; so
   once nobody is active any more all children produced values *)
Lemma all_val outs l :
  Forall2 (fun o p => o <> OVal -> p = KXchg o) outs l ->
  count_if actv l = 0 -> Forall (fun x => x = OVal) outs.
Proof.
  induction 1 as [|o p outs l Hop H IH]; cbn; intros Hc; constructor.
  - destruct o; [reflexivity| |]; rewrite Hop in Hc by discriminate; cbn in Hc; lia.
  - apply IH. lia.
Qed.

(* ------------------------------------------------------------------------------------------ *)
(* the invariant                                                                              *)

(* what a delivered completion [o] may be, in terms of the stop bit, doneOrError_ and the
   recorded exchange winner; monotone along every step *)
Definition res_ok (outs : list outcome) (s : st) (o : outcome) : Prop :=
  (o = ODone /\ stopped s = true) \/
  (o = OVal /\ Forall (fun x => x = OVal) outs) \/
  (o <> OVal /\ doe s = true /\ first s = Some o /\ In o outs).

Record Inv (outs : list outcome) (s : st) : Prop := {
  (* child i is child i: a pending exchange carries the child's own (non-value) outcome *)
  inv_rel : Forall2 (fun o p => forall o', p = KXchg o' -> o' = o /\ o <> OVal) outs (kids s);
  (* doneOrError_ false: nobody exchanged yet *)
  inv_doe_f : doe s = false ->
    first s = None /\ Forall2 (fun o p => o <> OVal -> p = KXchg o) outs (kids s);
  (* doneOrError_ true: the recorded winner is the non-value outcome of some child *)
  inv_doe_t : doe s = true -> exists f, first s = Some f /\ In f outs /\ f <> OVal;
  (* the reference count: holders = active children + the callback between its fetch_add and
     fetch_sub; or (bail-out) the callback added 1 to a zero count and returned: then the count
     is 1 for ever, with nobody left to decrement it *)
  inv_rc : rc s = Z.of_nat (nA s + cbA (cb s)) \/
           (rc s = 1%Z /\ cb s = CFin /\ nA s = 0);
  (* the callback can be in flight only if there is at least one child *)
  inv_cb : cbA (cb s) + cbE (cb s) <= nz outs;
  (* election: (threads inside deliver_result) + (completions) is 1 exactly when there are no
     holders left (and there was a child at all), otherwise 0 *)
  inv_z0 : nA s + cbA (cb s) = 0 -> nE s + cbE (cb s) + length (delivered s) = nz outs;
  inv_z1 : nA s + cbA (cb s) <> 0 -> nE s + cbE (cb s) + length (delivered s) = 0;
  inv_res : forall o, In o (delivered s) -> res_ok outs s o
}.

Ltac sim :=
  unfold nA, nE, upd_kid, upd_rc, upd_cb, deliver in *;
  cbn [rc doe first stopped kids cb delivered length cbA cbE] in *.

Lemma Inv_init outs : Inv outs (init outs).
Proof.
  constructor; unfold nA, nE, init; cbn [rc doe first stopped kids cb delivered length cbA cbE].
  - apply Forall2_map_r. intros [] o' H; cbn in H; try discriminate H;
      injection H as <-; (split; [reflexivity|discriminate]).
  - intros _. split; [reflexivity|]. apply Forall2_map_r. intros [] H; cbn; congruence.
  - discriminate.
  - left. rewrite count_actv_start. f_equal. lia.
  - lia.
  - rewrite count_actv_start, count_elec_start. intros H.
    destruct outs; cbn in *; [reflexivity|lia].
  - rewrite count_elec_start. lia.
  - intros o [].
Qed.

(* res_ok only depends on stopped / doe / first *)
Lemma res_ok_ext outs s s' o :
  stopped s' = stopped s -> doe s' = doe s -> first s' = first s ->
  res_ok outs s o -> res_ok outs s' o.
Proof. unfold res_ok. intros -> -> ->. auto. Qed.

Lemma step_kid_inv outs i s s' evs :
  Inv outs s -> step_kid i s = Some (s', evs) -> Inv outs s'.
Proof.
  intros [Hrel Hf Ht Hrc Hcb Hz0 Hz1 Hres] Hstep. unfold step_kid in Hstep.
  destruct (nth_error (kids s) i) as [p|] eqn:Hn; [|discriminate].
  assert (Hnz : nz outs = 1) by (eapply nz_nth; eauto).
  destruct p as [o| | | |].
  - (* KXchg o: doneOrError_.exchange(true) *)
    injection Hstep as <- <-.
    pose proof (count_set_nth actv i _ KSub _ Hn) as HA.
    pose proof (count_set_nth elec i _ KSub _ Hn) as HE.
    pose proof (count_set_nth actv i _ KFin _ Hn) as HA2. cbn [actv elec b2n] in HA, HE, HA2.
    constructor; sim.
    + eapply Forall2_set_nth; [exact Hrel|exact Hn|]. intros a _ _ o' Hq; discriminate Hq.
    + discriminate.
    + intros _. destruct (doe s) eqn:Hd; [exact (Ht eq_refl)|].
      destruct (Forall2_nth_r _ _ _ _ _ Hrel Hn) as (a & Ha & Hr).
      destruct (Hr o eq_refl) as [-> Hne].
      exists a. split; [reflexivity|]. split; [eapply nth_error_In; eauto|exact Hne].
    + destruct Hrc as [Hrc|(Hrc & Hc & HA0)]; [left; lia|exfalso; lia].
    + exact Hcb.
    + intros H; exfalso; lia.
    + intros _. assert (Hz : count_if actv (kids s) + cbA (cb s) <> 0) by lia.
      specialize (Hz1 Hz). lia.
    + intros o0 Ho. specialize (Hres o0 Ho). unfold res_ok in *; sim.
      destruct Hres as [H|[H|(H1 & H2 & H3 & H4)]]; auto.
      right; right. rewrite H2. auto.
  - (* KSub: refCount_.fetch_sub(1) *)
    assert (HnA : count_if actv (kids s) <> 0).
    { pose proof (count_set_nth actv i _ KFin _ Hn) as HA. cbn [actv b2n] in HA. lia. }
    destruct Hrc as [Hrc|(Hrc & Hc & HA0)]; [|exfalso; apply HnA; exact HA0].
    destruct (rc s =? 1)%Z eqn:E1; [apply Z.eqb_eq in E1|apply Z.eqb_neq in E1];
      injection Hstep as <- <-.
    + (* hit zero: elected *)
      pose proof (count_set_nth actv i _ KObs _ Hn) as HA.
      pose proof (count_set_nth elec i _ KObs _ Hn) as HE. cbn [actv elec b2n] in HA, HE.
      constructor; sim.
      * eapply Forall2_set_nth; [exact Hrel|exact Hn|]. intros a _ _ o' Hq; discriminate Hq.
      * intros Hd. destruct (Hf Hd) as [Hf1 Hf2]. split; [exact Hf1|].
        eapply Forall2_set_nth; [exact Hf2|exact Hn|].
        intros a _ Hap Hne. specialize (Hap Hne). discriminate Hap.
      * exact Ht.
      * left. lia.
      * exact Hcb.
      * intros _. assert (Hz : count_if actv (kids s) + cbA (cb s) <> 0) by lia.
        specialize (Hz1 Hz). lia.
      * intros H; exfalso; lia.
      * exact Hres.
    + pose proof (count_set_nth actv i _ KFin _ Hn) as HA.
      pose proof (count_set_nth elec i _ KFin _ Hn) as HE. cbn [actv elec b2n] in HA, HE.
      constructor; sim.
      * eapply Forall2_set_nth; [exact Hrel|exact Hn|]. intros a _ _ o' Hq; discriminate Hq.
      * intros Hd. destruct (Hf Hd) as [Hf1 Hf2]. split; [exact Hf1|].
        eapply Forall2_set_nth; [exact Hf2|exact Hn|].
        intros a _ Hap Hne. specialize (Hap Hne). discriminate Hap.
      * exact Ht.
      * left. lia.
      * exact Hcb.
      * intros H; exfalso; lia.
      * intros _. assert (Hz : count_if actv (kids s) + cbA (cb s) <> 0) by lia.
        specialize (Hz1 Hz). lia.
      * exact Hres.
  - (* KObs: read stop_requested() *)
    pose proof (count_set_nth actv i _ KFin _ Hn) as HA.
    pose proof (count_set_nth elec i _ KFin _ Hn) as HE.
    pose proof (count_set_nth actv i _ KLoad _ Hn) as HA'.
    pose proof (count_set_nth elec i _ KLoad _ Hn) as HE'.
    cbn [actv elec b2n] in HA, HE, HA', HE'.
    assert (HzA : count_if actv (kids s) + cbA (cb s) = 0).
    { destruct (Nat.eq_dec (nA s + cbA (cb s)) 0) as [H0|H0]; [exact H0|].
      specialize (Hz1 H0). unfold nE in Hz1. lia. }
    specialize (Hz0 HzA).
    destruct (stopped s) eqn:Hs; injection Hstep as <- <-.
    + constructor; sim.
      * eapply Forall2_set_nth; [exact Hrel|exact Hn|]. intros a _ _ o' Hq; discriminate Hq.
      * intros Hd. destruct (Hf Hd) as [Hf1 Hf2]. split; [exact Hf1|].
        eapply Forall2_set_nth; [exact Hf2|exact Hn|].
        intros a _ Hap Hne. specialize (Hap Hne). discriminate Hap.
      * exact Ht.
      * destruct Hrc as [Hrc|(Hrc & Hc & HA0)]; [left; lia|right; repeat split; auto; lia].
      * exact Hcb.
      * intros _. lia.
      * intros H; exfalso; lia.
      * intros o0 [<-|Ho].
        -- left. split; [reflexivity|exact Hs].
        -- exact (Hres o0 Ho).
    + constructor; sim.
      * eapply Forall2_set_nth; [exact Hrel|exact Hn|]. intros a _ _ o' Hq; discriminate Hq.
      * intros Hd. destruct (Hf Hd) as [Hf1 Hf2]. split; [exact Hf1|].
        eapply Forall2_set_nth; [exact Hf2|exact Hn|].
        intros a _ Hap Hne. specialize (Hap Hne). discriminate Hap.
      * exact Ht.
      * destruct Hrc as [Hrc|(Hrc & Hc & HA0)]; [left; lia|right; repeat split; auto; lia].
      * exact Hcb.
      * intros _. lia.
      * intros H; exfalso; lia.
      * exact Hres.
  - (* KLoad: doneOrError_.load(), complete the receiver *)
    pose proof (count_set_nth actv i _ KFin _ Hn) as HA.
    pose proof (count_set_nth elec i _ KFin _ Hn) as HE.
    cbn [actv elec b2n] in HA, HE.
    assert (HzA : count_if actv (kids s) + cbA (cb s) = 0).
    { destruct (Nat.eq_dec (nA s + cbA (cb s)) 0) as [H0|H0]; [exact H0|].
      specialize (Hz1 H0). unfold nE in Hz1. lia. }
    specialize (Hz0 HzA).
    injection Hstep as <- <-.
    constructor; sim.
    + eapply Forall2_set_nth; [exact Hrel|exact Hn|]. intros a _ _ o' Hq; discriminate Hq.
    + intros Hd. destruct (Hf Hd) as [Hf1 Hf2]. split; [exact Hf1|].
      eapply Forall2_set_nth; [exact Hf2|exact Hn|].
      intros a _ Hap Hne. specialize (Hap Hne). discriminate Hap.
    + exact Ht.
    + destruct Hrc as [Hrc|(Hrc & Hc & HA0)]; [left; lia|right; repeat split; auto; lia].
    + exact Hcb.
    + intros _. lia.
    + intros H; exfalso; lia.
    + intros o0 [<-|Ho]; [|exact (Hres o0 Ho)].
      unfold res_ok, result_of; sim.
      destruct (doe s) eqn:Hd.
      * destruct (Ht eq_refl) as (f & Hf1 & Hf2 & Hf3). rewrite Hf1.
        right; right. auto.
      * destruct (Hf eq_refl) as [_ Hf2]. right; left. split; [reflexivity|].
        eapply all_val; [exact Hf2|lia].
  - discriminate.
Qed.

Lemma step_cb_inv outs s s' evs :
  Inv outs s -> step_cb s = Some (s', evs) -> Inv outs s'.
Proof.
  intros [Hrel Hf Ht Hrc Hcb Hz0 Hz1 Hres] Hstep. unfold step_cb in Hstep.
  pose proof (nz_le outs) as Hle.
  destruct (cb s) eqn:Hc.
  - (* CIdle: refCount_.fetch_add(1) *)
    destruct Hrc as [Hrc|(_ & Hc' & _)]; [|discriminate Hc'].
    destruct (rc s =? 0)%Z eqn:E0; [apply Z.eqb_eq in E0|apply Z.eqb_neq in E0];
      injection Hstep as <- <-.
    + (* bail out *)
      constructor; sim; auto.
      right. repeat split; lia.
    + assert (HnA : count_if actv (kids s) <> 0) by (sim; lia).
      pose proof (nz_count _ _ _ Hrel HnA) as Hnz.
      constructor; sim; auto.
      * left. lia.
      * lia.
      * intros H; exfalso; lia.
      * intros _. apply Hz1. lia.
  - (* CSub: refCount_.fetch_sub(1) *)
    destruct Hrc as [Hrc|(_ & Hc' & _)]; [|discriminate Hc'].
    assert (Hz : nA s + cbA CSub <> 0) by (cbn; lia). specialize (Hz1 Hz).
    destruct (rc s =? 1)%Z eqn:E1; [apply Z.eqb_eq in E1|apply Z.eqb_neq in E1];
      injection Hstep as <- <-.
    + constructor; sim; auto.
      * left. lia.
      * intros _. lia.
      * intros H; exfalso; lia.
    + constructor; sim; auto.
      * left. lia.
      * lia.
      * intros H; exfalso; lia.
  - (* CObs *)
    assert (HzA : nA s + cbA CObs = 0).
    { destruct (Nat.eq_dec (nA s + cbA CObs) 0) as [H0|H0]; [exact H0|].
      specialize (Hz1 H0). cbn in Hz1. lia. }
    specialize (Hz0 HzA).
    destruct Hrc as [Hrc|(_ & Hc' & _)]; [|discriminate Hc'].
    destruct (stopped s) eqn:Hs; injection Hstep as <- <-.
    + constructor; sim; auto.
      * lia.
      * intros _. lia.
      * intros H; exfalso; lia.
      * intros o0 [<-|Ho]; [|exact (Hres o0 Ho)].
        left. split; [reflexivity|exact Hs].
    + constructor; sim; auto.
  - (* CLoad *)
    assert (HzA : nA s + cbA CLoad = 0).
    { destruct (Nat.eq_dec (nA s + cbA CLoad) 0) as [H0|H0]; [exact H0|].
      specialize (Hz1 H0). cbn in Hz1. lia. }
    specialize (Hz0 HzA).
    destruct Hrc as [Hrc|(_ & Hc' & _)]; [|discriminate Hc'].
    injection Hstep as <- <-.
    constructor; sim; auto.
    + lia.
    + intros _. lia.
    + intros H; exfalso; lia.
    + intros o0 [<-|Ho]; [|exact (Hres o0 Ho)].
      unfold res_ok, result_of; sim.
      destruct (doe s) eqn:Hd.
      * destruct (Ht eq_refl) as (f & Hf1 & Hf2 & Hf3). rewrite Hf1.
        right; right. auto.
      * destruct (Hf eq_refl) as [_ Hf2]. right; left. split; [reflexivity|].
        eapply all_val; [exact Hf2|lia].
  - discriminate.
Qed.

Lemma step_stopper_inv outs s s' evs :
  Inv outs s -> step_stopper s = Some (s', evs) -> Inv outs s'.
Proof.
  intros [Hrel Hf Ht Hrc Hcb Hz0 Hz1 Hres] Hstep. unfold step_stopper in Hstep.
  destruct (stopped s) eqn:Hs; [discriminate|]. injection Hstep as <- <-.
  constructor; sim; auto.
  intros o Ho. specialize (Hres o Ho). unfold res_ok in *; sim.
  destruct Hres as [[_ H]|[H|H]]; [congruence|auto|auto].
Qed.

Lemma step_inv outs t s s' evs :
  Inv outs s -> step t s = Some (s', evs) -> Inv outs s'.
Proof.
  intros HI Hstep. unfold step in Hstep.
  destruct (Nat.ltb t (nkids s)); [eapply step_kid_inv; eauto|].
  destruct (Nat.eqb t (nkids s)); [eapply step_cb_inv; eauto|].
  destruct (Nat.eqb t (S (nkids s))); [eapply step_stopper_inv; eauto|discriminate].
Qed.

(* 7. the central invariant holds in every reachable state *)
Theorem inv_reachable outs sched : Inv outs (fst (run step sched (init outs, []))).
Proof.
  apply (run_invariant_state st nat ev step (Inv outs)).
  - intros s t s' evs HI Hs. eapply step_inv; eauto.
  - apply Inv_init.
Qed.

(* ------------------------------------------------------------------------------------------ *)
(* consequences of the invariant (state level)                                                *)

Lemma Inv_elect_le outs s : Inv outs s -> nE s + cbE (cb s) + length (delivered s) <= 1.
Proof.
  intros HI. pose proof (nz_le outs).
  destruct (Nat.eq_dec (nA s + cbA (cb s)) 0) as [H0|H0].
  - rewrite (inv_z0 _ _ HI H0). assumption.
  - rewrite (inv_z1 _ _ HI H0). lia.
Qed.

Lemma Inv_rc_nonneg outs s : Inv outs s -> (0 <= rc s)%Z.
Proof. intros HI. destruct (inv_rc _ _ HI) as [H|(H & _)]; lia. Qed.

Lemma Inv_at_most_once outs s : Inv outs s -> length (delivered s) <= 1.
Proof. intros HI. pose proof (Inv_elect_le _ _ HI). lia. Qed.

Lemma quiescent_counts s :
  quiescent s = true -> nA s = 0 /\ nE s = 0 /\ cbA (cb s) = 0 /\ cbE (cb s) = 0.
Proof.
  unfold quiescent. intros H. apply andb_true_iff in H as [Hk Hc].
  rewrite forallb_forall in Hk.
  assert (HF : forall f, (forall p, kid_fin p = true -> f p = false) ->
                         count_if f (kids s) = 0).
  { intros f Hfp. apply Forall_count_zero. apply Forall_forall. intros p Hp. auto. }
  repeat split.
  - apply HF. intros []; cbn; congruence.
  - apply HF. intros []; cbn; congruence.
  - destruct (cb s); cbn in *; congruence.
  - destruct (cb s); cbn in *; congruence.
Qed.

Lemma Inv_no_lost outs s :
  Inv outs s -> quiescent s = true -> outs <> [] -> length (delivered s) = 1.
Proof.
  intros HI Hq Hne. destruct (quiescent_counts s Hq) as (HA & HE & HcA & HcE).
  pose proof (inv_z0 _ _ HI) as Hz0. rewrite (nz_nonempty _ Hne) in Hz0. lia.
Qed.

Lemma Inv_not_before outs s :
  Inv outs s -> delivered s <> [] ->
  Forall (fun p => p = KObs \/ p = KLoad \/ p = KFin) (kids s).
Proof.
  intros HI Hd.
  assert (Hlen : length (delivered s) <> 0) by (destruct (delivered s); cbn; congruence).
  destruct (Nat.eq_dec (nA s + cbA (cb s)) 0) as [H0|H0].
  - assert (HA : count_if actv (kids s) = 0) by (unfold nA in H0; lia).
    apply count_zero_Forall in HA. eapply Forall_impl; [|exact HA].
    intros [] Hp; cbn in Hp; try discriminate; auto.
  - pose proof (inv_z1 _ _ HI H0). lia.
Qed.

Lemma Inv_result outs s o :
  Inv outs s -> delivered s = [o] ->
  (o = ODone /\ stopped s = true) \/
  (o = OVal /\ Forall (fun x => x = OVal) outs) \/
  (o <> OVal /\ first s = Some o /\ In o outs /\ o <> OVal).
Proof.
  intros HI Hd. assert (Ho : In o (delivered s)) by (rewrite Hd; left; reflexivity).
  destruct (inv_res _ _ HI o Ho) as [H|[H|(H1 & H2 & H3 & H4)]]; auto.
  right; right. auto.
Qed.

(* 6. progress: a non-quiescent state (reachable or not) has an enabled thread *)
Lemma progress_any s : quiescent s = false -> exists t, step t s <> None.
Proof.
  unfold quiescent. intros H. apply andb_false_iff in H as [Hk|Hc].
  - destruct (forallb_false_nth _ _ Hk) as (i & p & Hn & Hp).
    exists i. unfold step.
    assert (Hlt : i < nkids s) by (unfold nkids; apply nth_error_Some; congruence).
    apply Nat.ltb_lt in Hlt. rewrite Hlt. unfold step_kid. rewrite Hn.
    destruct p; try discriminate. destruct (stopped s); discriminate.
  - exists (nkids s). unfold step. rewrite Nat.ltb_irrefl, Nat.eqb_refl.
    unfold step_cb. destruct (cb s); try discriminate. destruct (stopped s); discriminate.
Qed.

(* ------------------------------------------------------------------------------------------ *)
(* trace level: ERoot events                                                                  *)

Definition is_root (e : ev) : bool := match e with ERoot _ => true | _ => false end.
(* the outcomes carried by the ERoot events, in trace order *)
Definition roots (tr : list ev) : list outcome :=
  flat_map (fun e => match e with ERoot o => [o] | _ => [] end) tr.

Lemma roots_app a b : roots (a ++ b) = roots a ++ roots b.
Proof. unfold roots. apply flat_map_app. Qed.

Lemma roots_count tr : length (filter is_root tr) = length (roots tr).
Proof. induction tr as [|e r IH]; cbn; [reflexivity|]. destruct e; cbn; auto. Qed.

Lemma step_roots t s s' evs :
  step t s = Some (s', evs) -> rev (delivered s') = rev (delivered s) ++ roots evs.
Proof.
  unfold step. intros H.
  destruct (Nat.ltb t (nkids s)).
  { unfold step_kid in H. destruct (nth_error (kids s) t) as [[o| | | |]|]; try discriminate.
    - injection H as <- <-. cbn. now rewrite app_nil_r.
    - injection H as <- <-. cbn. now rewrite app_nil_r.
    - destruct (stopped s); injection H as <- <-; cbn; [reflexivity|now rewrite app_nil_r].
    - injection H as <- <-. reflexivity. }
  destruct (Nat.eqb t (nkids s)).
  { unfold step_cb in H. destruct (cb s); try discriminate.
    - injection H as <- <-. cbn. now rewrite app_nil_r.
    - injection H as <- <-. cbn. now rewrite app_nil_r.
    - destruct (stopped s); injection H as <- <-; cbn; [reflexivity|now rewrite app_nil_r].
    - injection H as <- <-. reflexivity. }
  destruct (Nat.eqb t (S (nkids s))); [|discriminate].
  unfold step_stopper in H. destruct (stopped s); [discriminate|].
  injection H as <- <-. cbn. now rewrite app_nil_r.
Qed.

Lemma roots_reachable outs sched :
  let c := run step sched (init outs, []) in roots (snd c) = rev (delivered (fst c)).
Proof.
  cbv zeta.
  apply (run_invariant st nat ev step (fun c => roots (snd c) = rev (delivered (fst c)))).
  - intros c t s' evs HI Hs. cbn [fst snd]. rewrite roots_app, HI. symmetry.
    eapply step_roots; eauto.
  - reflexivity.
Qed.

(* ------------------------------------------------------------------------------------------ *)
(* trace level: the doneOrError_ exchanges; [first] is the outcome of the first exchanger      *)

Definition doex (tr : list ev) : list bool :=
  flat_map (fun e => match e with EDoeX b => [b] | _ => [] end) tr.

Lemma doex_app a b : doex (a ++ b) = doex a ++ doex b.
Proof. unfold doex. apply flat_map_app. Qed.

(* a step emits at most one exchange event; it reports the old value of doneOrError_, sets it,
   and it is emitted by child t whose own outcome becomes [first] iff the old value was false *)
Lemma step_doex outs t s s' evs :
  Inv outs s -> step t s = Some (s', evs) ->
  (doex evs = [] /\ doe s' = doe s /\ first s' = first s) \/
  (doex evs = [doe s] /\ doe s' = true /\
   exists o, nth_error outs t = Some o /\ o <> OVal /\
             first s' = if doe s then first s else Some o).
Proof.
  intros HI. unfold step. intros H.
  destruct (Nat.ltb t (nkids s)).
  { unfold step_kid in H. destruct (nth_error (kids s) t) as [[o| | | |]|] eqn:Hn;
      try discriminate.
    - injection H as <- <-. right. cbn. repeat split.
      destruct (Forall2_nth_r _ _ _ _ _ (inv_rel _ _ HI) Hn) as (a & Ha & Hr).
      destruct (Hr o eq_refl) as [-> Hne]. exists a. auto.
    - injection H as <- <-. left. cbn. auto.
    - destruct (stopped s); injection H as <- <-; left; cbn; auto.
    - injection H as <- <-. left. cbn. auto. }
  destruct (Nat.eqb t (nkids s)).
  { unfold step_cb in H. destruct (cb s); try discriminate.
    - injection H as <- <-. left. cbn. auto.
    - injection H as <- <-. left. cbn. auto.
    - destruct (stopped s); injection H as <- <-; left; cbn; auto.
    - injection H as <- <-. left. cbn. auto. }
  destruct (Nat.eqb t (S (nkids s))); [|discriminate].
  unfold step_stopper in H. destruct (stopped s); [discriminate|].
  injection H as <- <-. left. cbn. auto.
Qed.

(* configuration invariant: the exchange events are  false, true, true, ...  and doneOrError_
   is set iff there was one *)
Definition TInv (outs : list outcome) (c : conf st ev) : Prop :=
  Inv outs (fst c) /\
  ((doe (fst c) = false /\ doex (snd c) = []) \/
   (doe (fst c) = true /\ exists k, doex (snd c) = false :: repeat true k)).

Lemma TInv_step outs c t s' evs :
  TInv outs c -> step t (fst c) = Some (s', evs) -> TInv outs (s', snd c ++ evs).
Proof.
  intros [HI HT] Hs. split; cbn [fst snd]; [eapply step_inv; eauto|].
  rewrite doex_app.
  destruct (step_doex _ _ _ _ _ HI Hs) as [(He & Hd & _)|(He & Hd & _)]; rewrite He, Hd.
  - rewrite app_nil_r. exact HT.
  - right. split; [reflexivity|].
    destruct HT as [[Hf Hx]|[Ht (k & Hx)]]; rewrite Hx.
    + rewrite Hf. exists 0. reflexivity.
    + rewrite Ht. exists (S k). cbn [app]. f_equal.
      change [true] with (repeat true 1). rewrite <- repeat_app. f_equal. lia.
Qed.

Lemma TInv_reachable outs sched : TInv outs (run step sched (init outs, [])).
Proof.
  apply (run_invariant st nat ev step (TInv outs)).
  - intros c t s' evs HI Hs. eapply TInv_step; eauto.
  - split; [apply Inv_init|]. left. split; reflexivity.
Qed.

(* once doneOrError_ is set, [first] never changes again *)
Lemma first_stable outs o sched c :
  Inv outs (fst c) -> doe (fst c) = true -> first (fst c) = Some o ->
  first (fst (run step sched c)) = Some o.
Proof.
  intros HI Hd Hfst.
  assert (H : Inv outs (fst (run step sched c)) /\ doe (fst (run step sched c)) = true /\
              first (fst (run step sched c)) = Some o).
  { apply (run_invariant_state st nat ev step
             (fun s => Inv outs s /\ doe s = true /\ first s = Some o)); [|auto].
    intros s t s' evs (HI' & Hd' & Hf') Hs. split; [eapply step_inv; eauto|].
    destruct (step_doex _ _ _ _ _ HI' Hs) as [(_ & H1 & H2)|(_ & H1 & o' & _ & _ & H2)].
    - rewrite H1, H2. auto.
    - rewrite H1, H2, Hd'. auto. }
  tauto.
Qed.

(* The strengthening of [result]: the step that emits the (unique, first) [EDoeX false] event is
   taken by a child t with a non-value outcome, no exchange happened before it, and from then on
   [first] is that child's outcome in every extension of the run. *)
Theorem first_exchange_wins outs sched1 t s' evs :
  let c1 := run step sched1 (init outs, []) in
  step t (fst c1) = Some (s', evs) -> In (EDoeX false) evs ->
  doex (snd c1) = [] /\
  exists o, nth_error outs t = Some o /\ o <> OVal /\
    forall sched2, first (fst (run step sched2 (s', snd c1 ++ evs))) = Some o.
Proof.
  cbv zeta. intros Hs Hin.
  destruct (TInv_reachable outs sched1) as [HI HT].
  set (c1 := run step sched1 (init outs, [])) in *.
  assert (Hx : In false (doex evs)).
  { unfold doex. apply in_flat_map. exists (EDoeX false). split; [exact Hin|left; reflexivity]. }
  destruct (step_doex _ _ _ _ _ HI Hs) as [(He & _)|(He & Hd & o & Ho & Hne & Hf)].
  - rewrite He in Hx. destruct Hx.
  - rewrite He in Hx. destruct Hx as [Hx|[]].
    rewrite Hx in Hf.
    destruct HT as [[_ HT]|[HT _]]; [|congruence].
    split; [exact HT|]. exists o. repeat split; auto.
    intros sched2. apply (first_stable outs o sched2 (s', snd c1 ++ evs)); cbn [fst]; auto.
    eapply step_inv; eauto.
Qed.

(* a later exchange (one that reads true) leaves [first] alone *)
Theorem later_exchange_loses outs sched1 t s' evs :
  let c1 := run step sched1 (init outs, []) in
  step t (fst c1) = Some (s', evs) -> In (EDoeX true) evs -> first s' = first (fst c1).
Proof.
  cbv zeta. intros Hs Hin.
  pose proof (inv_reachable outs sched1) as HI.
  assert (Hx : In true (doex evs)).
  { unfold doex. apply in_flat_map. exists (EDoeX true). split; [exact Hin|left; reflexivity]. }
  destruct (step_doex _ _ _ _ _ HI Hs) as [(_ & _ & Hf)|(He & _ & o & _ & _ & Hf)]; [exact Hf|].
  rewrite He in Hx. destruct Hx as [Hx|[]]. rewrite Hx in Hf. exact Hf.
Qed.

(* the exchange events of any run *)
Theorem doex_shape outs sched :
  let c := run step sched (init outs, []) in
  (doe (fst c) = false /\ first (fst c) = None /\ doex (snd c) = []) \/
  (doe (fst c) = true /\ exists k, doex (snd c) = false :: repeat true k).
Proof.
  cbv zeta. destruct (TInv_reachable outs sched) as [HI [[Hd Hx]|H]]; [left|right; exact H].
  destruct (inv_doe_f _ _ HI Hd) as [Hf _]. auto.
Qed.

(* [result], strengthened: in a run  sched1 ++ t :: sched2  whose step t performs the first
   exchange, a completion of the receiver is either the stop-induced done or exactly the
   outcome of child t *)
Theorem result_first_exchanger outs sched1 t sched2 s' evs o :
  let c1 := run step sched1 (init outs, []) in
  step t (fst c1) = Some (s', evs) -> In (EDoeX false) evs ->
  let s := fst (run step (sched1 ++ t :: sched2) (init outs, [])) in
  delivered s = [o] ->
  (o = ODone /\ stopped s = true) \/ nth_error outs t = Some o.
Proof.
  cbv zeta. intros Hs Hin Hd.
  destruct (first_exchange_wins outs sched1 t s' evs Hs Hin) as (_ & o' & Ho' & Hne & Hfst).
  pose proof (inv_reachable outs (sched1 ++ t :: sched2)) as HI.
  destruct (Inv_result _ _ _ HI Hd) as [H|[[_ H]|(_ & H & _)]]; [left; exact H| |].
  - exfalso. rewrite Forall_forall in H. apply Hne, H. eapply nth_error_In; eauto.
  - right. rewrite run_app, run_cons in H. unfold step_conf in H at 1. rewrite Hs in H.
    rewrite Hfst in H. congruence.
Qed.

(* ------------------------------------------------------------------------------------------ *)
(* trace level: "the count hit zero by a fetch_sub"                                           *)

Definition is_zero_hit (e : ev) : bool :=
  match e with ERc true _ n => (n =? 0)%Z | _ => false end.

Lemma step_zero_hit t s s' evs :
  step t s = Some (s', evs) ->
  nE s' + cbE (cb s') + length (delivered s') =
  nE s + cbE (cb s) + length (delivered s) + length (filter is_zero_hit evs).
Proof.
  unfold step. intros H.
  destruct (Nat.ltb t (nkids s)).
  { unfold step_kid in H. destruct (nth_error (kids s) t) as [[o| | | |]|] eqn:Hn;
      try discriminate.
    - injection H as <- <-. pose proof (count_set_nth elec t _ KSub _ Hn) as HE.
      cbn [elec b2n] in HE. sim. cbn. lia.
    - destruct (rc s =? 1)%Z eqn:E1; injection H as <- <-.
      + apply Z.eqb_eq in E1. pose proof (count_set_nth elec t _ KObs _ Hn) as HE.
        cbn [elec b2n] in HE. sim. rewrite E1. cbn. lia.
      + apply Z.eqb_neq in E1. pose proof (count_set_nth elec t _ KFin _ Hn) as HE.
        cbn [elec b2n] in HE. sim. cbn [filter is_zero_hit].
        destruct (rc s - 1 =? 0)%Z eqn:E2; [apply Z.eqb_eq in E2; lia|]. cbn. lia.
    - destruct (stopped s); injection H as <- <-.
      + pose proof (count_set_nth elec t _ KFin _ Hn) as HE. cbn [elec b2n] in HE.
        sim. cbn. lia.
      + pose proof (count_set_nth elec t _ KLoad _ Hn) as HE. cbn [elec b2n] in HE.
        sim. cbn. lia.
    - injection H as <- <-. pose proof (count_set_nth elec t _ KFin _ Hn) as HE.
      cbn [elec b2n] in HE. sim. cbn. lia. }
  destruct (Nat.eqb t (nkids s)).
  { unfold step_cb in H. destruct (cb s) eqn:Hc; try discriminate.
    - destruct (rc s =? 0)%Z; injection H as <- <-; sim; cbn; lia.
    - destruct (rc s =? 1)%Z eqn:E1; injection H as <- <-.
      + apply Z.eqb_eq in E1. sim. rewrite E1. cbn. lia.
      + apply Z.eqb_neq in E1. sim. cbn [filter is_zero_hit].
        destruct (rc s - 1 =? 0)%Z eqn:E2; [apply Z.eqb_eq in E2; lia|]. cbn. lia.
    - destruct (stopped s); injection H as <- <-; sim; cbn; lia.
    - injection H as <- <-. sim. cbn. lia. }
  destruct (Nat.eqb t (S (nkids s))); [|discriminate].
  unfold step_stopper in H. destruct (stopped s); [discriminate|].
  injection H as <- <-. sim. cbn. lia.
Qed.

(* (threads inside deliver_result) + (completions) = number of fetch_sub events that produced 0 *)
Theorem zero_hits_reachable outs sched :
  let c := run step sched (init outs, []) in
  length (filter is_zero_hit (snd c)) =
  nE (fst c) + cbE (cb (fst c)) + length (delivered (fst c)).
Proof.
  cbv zeta.
  apply (run_invariant st nat ev step
           (fun c => length (filter is_zero_hit (snd c)) =
                     nE (fst c) + cbE (cb (fst c)) + length (delivered (fst c)))).
  - intros c t s' evs HI Hs. cbn [fst snd]. rewrite filter_app, app_length, HI.
    rewrite (step_zero_hit _ _ _ _ Hs). reflexivity.
  - cbn [fst snd]. unfold nE, init; cbn [kids cb delivered]. rewrite count_elec_start.
    reflexivity.
Qed.

(* ------------------------------------------------------------------------------------------ *)
(* the requested statements, for all outcomes and all schedules                               *)

Section Main.
  Variable outs : list outcome.
  Variable sched : list nat.
  Let c := run step sched (init outs, []).
  Let s := fst c.
  Let tr := snd c.

  (* 1 *)
  Theorem at_most_once : length (delivered s) <= 1.
  Proof. eapply Inv_at_most_once, inv_reachable. Qed.

  (* 2 *)
  Theorem trace_roots :
    length (filter is_root tr) = length (delivered s) /\ roots tr = rev (delivered s).
  Proof.
    pose proof (roots_reachable outs sched) as H. cbv zeta in H. fold c in H. fold s tr in H.
    split; [|exact H]. rewrite roots_count, H. apply rev_length.
  Qed.

  (* 3 *)
  Theorem no_lost : quiescent s = true -> outs <> [] -> length (delivered s) = 1.
  Proof. apply Inv_no_lost, inv_reachable. Qed.

  (* 4 *)
  Theorem not_before :
    delivered s <> [] -> Forall (fun p => p = KObs \/ p = KLoad \/ p = KFin) (kids s).
  Proof. eapply Inv_not_before, inv_reachable. Qed.

  (* 5 *)
  Theorem result : forall o, delivered s = [o] ->
    (o = ODone /\ stopped s = true) \/
    (o = OVal /\ Forall (fun x => x = OVal) outs) \/
    (o <> OVal /\ first s = Some o /\ In o outs /\ o <> OVal).
  Proof. intros o. eapply Inv_result, inv_reachable. Qed.

  (* 6 *)
  Theorem progress : quiescent s = false -> exists t, step t s <> None.
  Proof. apply progress_any. Qed.

  (* 7 *)
  Theorem rc_nonneg : (0 <= rc s)%Z.
  Proof. eapply Inv_rc_nonneg, inv_reachable. Qed.

  (* at most one thread is ever inside deliver_result, and never after a completion *)
  Theorem elected_unique : nE s + cbE (cb s) + length (delivered s) <= 1.
  Proof. eapply Inv_elect_le, inv_reachable. Qed.

  (* ... and at most one fetch_sub of the whole run returns 1 (produces 0) *)
  Theorem zero_hit_at_most_once : length (filter is_zero_hit tr) <= 1.
  Proof.
    pose proof (zero_hits_reachable outs sched) as H. cbv zeta in H.
    pose proof (Inv_elect_le _ _ (inv_reachable outs sched)) as H1.
    unfold tr, c. rewrite H. exact H1.
  Qed.

  Theorem zero_hits :
    length (filter is_zero_hit tr) = nE s + cbE (cb s) + length (delivered s) /\
    length (filter is_zero_hit tr) <= 1.
  Proof. split; [exact (zero_hits_reachable outs sched)|exact zero_hit_at_most_once]. Qed.
End Main.
