(* E3-style sequential model FdOwner: unifex::linuxos::safe_file_descriptor
   (include/unifex/linux/safe_file_descriptor.hpp 25-53, source/linux/safe_file_descriptor.cpp 22-26)
   and, without close(), unifex::linuxos::mmap_region (include/unifex/linux/mmap_region.hpp 25-52,
   source/linux/mmap_region.cpp 22-26): a move-only owner of one kernel resource named by a number.

   Objects live in slots (any natural number is a slot; a slot is dead, or alive holding fd_ = -1
   (None) or a number).  The kernel keeps a table number -> identity of the open resource; every
   open gets a fresh identity; with reuse = true a new descriptor gets the LOWEST FREE number
   (open(2)), with reuse = false a number never used before: the allocation's serial number (mappings,
   compared by allocation).
   Initially 0, 1, 2 are open and belong to somebody else; OOther lets somebody else open one more
   descriptor at any time.  close(n) on a number that is not open fails (EBADF) and is logged.

   Operations (a precondition that does not hold makes the operation a no-op):
     ONew i         i dead:   fd = open(...); new (slot i) safe_file_descriptor{fd}         (hpp 29)
     OEmpty i       i dead:   new (slot i) safe_file_descriptor{}                           (hpp 27)
     OMoveCtor i j  i dead, j alive: new (slot i) safe_file_descriptor{std::move(slot j)}   (hpp 31-32)
     OMoveAssign i j  both alive:    slot i = std::move(slot j)   (by-value parameter + swap, 40-43)
     OClose i       i alive and valid(): slot i.close()                                     (cpp 22-26)
     ODestroy i     i alive:  slot i.~safe_file_descriptor()                                (hpp 34-38)
     OOther         an unrelated open
   exch = true is the code as it is: close() does ::close(std::exchange(fd_, -1)).  exch = false is
   the variant whose close() leaves fd_ alone (refuted).
   Executable definitions only. *)
From Coq Require Import List Bool Arith.
Import ListNotations.

Module FdOwner.

Inductive op :=
| ONew (i : nat) | OEmpty (i : nat) | OMoveCtor (i j : nat) | OMoveAssign (i j : nat)
| OClose (i : nat) | ODestroy (i : nat) | OOther.

Inductive ev :=
| EOpen (n : nat)                       (* the kernel handed out number n *)
| EClose (n : nat) (hit : option nat).  (* close(n): Some id = closed that resource, None = EBADF *)

Definition slot := option (option nat).   (* None = dead *)

Record st := {
  tbl : list (nat * nat);     (* open numbers with the identity of what they name *)
  next_id : nat;
  slots : nat -> slot;
  owned : list nat;           (* identities ever handed to an object *)
  others : list nat;          (* identities opened by somebody else *)
  log : list ev               (* kernel calls, oldest first *)
}.

Definition init : st :=
  {| tbl := [(0, 0); (1, 1); (2, 2)]; next_id := 3; slots := fun _ => None;
     owned := []; others := [0; 1; 2]; log := [] |}.

Definition keys (s : st) : list nat := map fst (tbl s).
Definition memb (n : nat) (l : list nat) : bool := existsb (Nat.eqb n) l.

(* the lowest number that is not open *)
Definition lowest_free (ks : list nat) : nat :=
  match find (fun n => negb (memb n ks)) (seq 0 (S (length ks))) with Some n => n | None => 0 end.

(* (own maximum: keeps the extraction free of a top-level `max`) *)
Fixpoint lmax (l : list nat) : nat :=
  match l with
  | [] => 0
  | x :: r => if Nat.leb (lmax r) x then x else lmax r
  end.

Definition alloc (reuse : bool) (s : st) : nat :=
  if reuse then lowest_free (keys s)
  else if Nat.leb (next_id s) (lmax (keys s)) then S (lmax (keys s)) else next_id s.

Fixpoint lookup (n : nat) (t : list (nat * nat)) : option nat :=
  match t with
  | [] => None
  | (k, v) :: r => if Nat.eqb k n then Some v else lookup n r
  end.
Definition remove_key (n : nat) (t : list (nat * nat)) : list (nat * nat) :=
  filter (fun kv => negb (Nat.eqb (fst kv) n)) t.

Definition upd (f : nat -> slot) (i : nat) (v : slot) : nat -> slot :=
  fun k => if Nat.eqb k i then v else f k.

Definition set_slots (s : st) (f : nat -> slot) : st :=
  {| tbl := tbl s; next_id := next_id s; slots := f; owned := owned s; others := others s; log := log s |}.

(* open(2) by an object's creator (mine) or by somebody else *)
Definition kopen (reuse mine : bool) (s : st) : st * nat :=
  let n := alloc reuse s in
  ({| tbl := (n, next_id s) :: tbl s; next_id := S (next_id s); slots := slots s;
      owned := if mine then next_id s :: owned s else owned s;
      others := if mine then others s else next_id s :: others s;
      log := log s ++ [EOpen n] |}, n).

(* close(2) *)
Definition kclose (s : st) (n : nat) : st :=
  {| tbl := remove_key n (tbl s); next_id := next_id s; slots := slots s; owned := owned s; others := others s;
     log := log s ++ [EClose n (lookup n (tbl s))] |}.

(* ~safe_file_descriptor on a temporary / a slot's content *)
Definition drop (s : st) (f : option nat) : st :=
  match f with Some n => kclose s n | None => s end.

Definition exec (exch reuse : bool) (s : st) (o : op) : st :=
  match o with
  | ONew i =>
      match slots s i with
      | None => let (s1, n) := kopen reuse true s in set_slots s1 (upd (slots s1) i (Some (Some n)))
      | Some _ => s
      end
  | OEmpty i =>
      match slots s i with
      | None => set_slots s (upd (slots s) i (Some None))
      | Some _ => s
      end
  | OMoveCtor i j =>
      match slots s i, slots s j with
      | None, Some f => set_slots s (upd (upd (slots s) j (Some None)) i (Some f))
      | _, _ => s
      end
  | OMoveAssign i j =>
      match slots s i, slots s j with
      | Some _, Some fj =>
          (* other{std::move(slot j)}: slot j := -1 *)
          let f1 := upd (slots s) j (Some None) in
          (* std::swap(fd_, other.fd_): slot i := fj, other := what slot i holds now *)
          let old_i := match f1 i with Some f => f | None => None end in
          let s1 := set_slots s (upd f1 i (Some fj)) in
          (* ~other *)
          drop s1 old_i
      | _, _ => s
      end
  | OClose i =>
      match slots s i with
      | Some (Some n) =>
          let s1 := kclose s n in
          if exch then set_slots s1 (upd (slots s1) i (Some None)) else s1
      | _ => s
      end
  | ODestroy i =>
      match slots s i with
      | Some f => let s1 := drop s f in set_slots s1 (upd (slots s1) i None)
      | None => s
      end
  | OOther => fst (kopen reuse false s)
  end.

Definition run_ops (exch reuse : bool) (ops : list op) : st := fold_left (exec exch reuse) ops init.

(* ---- observations ------------------------------------------------------------------------------ *)
Definition field (s : st) (i : nat) : option nat :=
  match slots s i with Some (Some n) => Some n | _ => None end.   (* valid() / get() *)

Fixpoint closed_ids (l : list ev) : list nat :=
  match l with
  | [] => []
  | EClose _ (Some id) :: r => id :: closed_ids r
  | _ :: r => closed_ids r
  end.

Definition good_close (own : list nat) (e : ev) : Prop :=
  match e with
  | EClose _ (Some id) => In id own
  | EClose _ None => False
  | EOpen _ => True
  end.

End FdOwner.
