(* Proofs about the model UringOp (Proto/UringOpDefs.v), by the method of Proto/IoCancelProofs.v:
   every step changes `core` by one of finitely many functions that do not look at the stoppers'
   status list, so the transition system `asucc` on `core` over-approximates the system for any
   number of stoppers; its reachable set is computed and checked closed inside Coq
   (Proto/C14Reach.v) for each of the finitely many parameter values; a boolean predicate that
   holds on the whole set holds on every reachable state, for all schedules. *)
From Coq Require Import List Bool Arith Lia NArith.
From V Require Import Base.Sched Proto.C14Reach Proto.UringOpDefs.
Import ListNotations.
Import UringOp.

Definition core_eq_dec : forall a b : core, {a = b} + {a <> b}.
Proof. repeat decide equality. Defined.

Definition osucc (o : option (core * list ev)) : list core :=
  match o with Some (c, _) => [c] | None => [] end.
Definition asucc_core (s : core) : list core :=
  osucc (step_io s) ++ osucc (step_kernel s) ++ osucc (step_peer s) ++ osucc (step_drain s).
Definition asucc (s : core) : list core :=
  asucc_core s ++ [fst (fst (step_set s))] ++ osucc (step_run s).

Local Open Scope N_scope.
Definition pc_code (p : iopc) : N :=
  match p with
  | UIdle => 0 | UReg => 1 | USubmit => 2 | UInline _ => 3 | UCancelSubmit => 4 | USub _ => 5
  | UUnreg => 6 | UWait => 7 | UFinish => 8
  end.
Definition cb_code (c : cbstate) : N :=
  match c with CbNone => 0 | CbReg => 1 | CbInline => 2 | CbRunning => 3 | CbDone => 4 | CbUnreg => 5 end.
Definition k_code (k : kstate) : N := match k with KNone => 0 | KInflight => 1 | KEarly => 2 | KFinished => 3 end.
Definition run_code (r : rpc) : N :=
  match r with RNone => 0 | RCb CCas => 1 | RCb CSubmit => 2 | RCb CEnq => 3 | RStore => 4 | RSpin => 5 end.
Definition b2n (b : bool) : N := if b then 1 else 0.
Definition len {A} (l : list A) : N := N.of_nat (length l).
Definition hash (s : core) : N :=
  pc_code (io s) + 9 * (cb_code (cb s) + 6 * (run_code (runner s) + 6 * (k_code (rd s) + 4 * (k_code (cn s) +
  4 * (b2n (ready s) + 2 * (b2n (stopped s) + 2 * (b2n (full s) + 2 * (N.of_nat (refc s) + 3 * (len (localq s) +
  4 * (len (remoteq s) + 3 * (len (pend s) + 3 * (len (cqes s) + 4 * (len (completed s) + 3 * N.of_nat (links s)))))))))))))).
Local Close Scope N_scope.

Notation areach := (C14Reach.areach core asucc).
Definition check := C14Reach.check core core_eq_dec hash asucc 20000.

Lemma step_asucc t s s' e : step t s = Some (s', e) -> In (co s') (asucc (co s)).
Proof.
  unfold step, asucc, asucc_core. intros H.
  destruct t as [|[|[|[|i]]]]; simpl in H;
    try (match type of H with context[match ?x with _ => _ end] => destruct x as [[c e']|] eqn:E end;
         [inversion H; subst; clear H; simpl; rewrite ?in_app_iff; simpl; auto 10|discriminate]).
  unfold step_stopper in H. destruct (nth_error (sts s) i) as [[| |]|]; try discriminate.
  - destruct (step_set (co s)) as [[c e'] r] eqn:E. inversion H; subst; clear H. simpl.
    rewrite ?in_app_iff. simpl. auto 10.
  - destruct (step_run (co s)) as [[c e']|] eqn:E; [|discriminate]. inversion H; subst; clear H. simpl.
    rewrite ?in_app_iff. simpl. auto 10.
Qed.

Theorem run_areach p nstop (sched : list nat) :
  areach (init_core p) (co (fst (run step sched (init p nstop, [])))).
Proof.
  apply (run_invariant_state _ _ _ step (fun s => areach (init_core p) (co s))).
  - intros s t s' e Hr Hs. eapply ar_step; eauto. eapply step_asucc; eauto.
  - simpl. constructor.
Qed.

(* ---- all parameters ---------------------------------------------------------------------------- *)
Definition bools := [true; false].
Definition fails := [None; Some KCanceled; Some KOther].
Definition params_of (fx : bool) : list params :=
  flat_map (fun pr => flat_map (fun fu => flat_map (fun rd =>
    map (fun fl => {| fixed := fx; pre := pr; full0 := fu; ready0 := rd; fail := fl |}) fails) bools) bools) bools.

Lemma in_bools b : In b bools.
Proof. destruct b; simpl; auto. Qed.
Lemma in_fails f : In f fails.
Proof. destruct f as [[|]|]; simpl; auto 6. Qed.

Lemma params_of_complete p : In p (params_of (fixed p)).
Proof.
  destruct p as [fx pr fu rd fl]. simpl fixed. unfold params_of.
  apply in_flat_map. exists pr. split; [apply in_bools|].
  apply in_flat_map. exists fu. split; [apply in_bools|].
  apply in_flat_map. exists rd. split; [apply in_bools|].
  apply in_map_iff. exists fl. split; [reflexivity|apply in_fails].
Qed.

Lemma check_all (P : params -> core -> bool) fx :
  forallb (fun p => check (P p) (init_core p)) (params_of fx) = true ->
  forall p, fixed p = fx -> forall c, areach (init_core p) c -> P p c = true.
Proof.
  intros H p Hp c Hr. rewrite forallb_forall in H. subst fx.
  eapply (C14Reach.check_sound core core_eq_dec hash asucc); eauto. apply H. apply params_of_complete.
Qed.

(* ======================= the fixed variant ====================================================== *)
Definition quiet_queues (c : core) : bool :=
  match localq c, remoteq c, pend c, cqes c with [], [], [], [] => true | _, _, _, _ => false end.

(* safety: at most one completion; the callback is linked at most once and request_stop() returns;
   no cancellation is ever processed before its operation was submitted; at completion nothing of
   the operation is left (no entry in flight, no queued item, nobody inside its code, the callback
   neither registered nor running); no access after completion *)
Definition P_safe (c : core) : bool :=
  negb (uaf c) && Nat.leb (length (completed c)) 1 && Nat.leb (links c) 1 && negb (spinning c) &&
  negb (lost_cancel c) &&
  (if is_completed c
   then quiet_queues c && Nat.eqb (links c) 0 && Nat.eqb (refc c) 0 &&
        match io c with UIdle => true | _ => false end &&
        match runner c with RNone => true | _ => false end &&
        match rd c with KInflight => false | _ => true end &&
        match cn c with KInflight | KEarly => false | _ => true end &&
        match cb c with CbReg | CbRunning => false | _ => true end
   else true).

Definition errk_eqb (a b : errkind) : bool :=
  match a, b with KCanceled, KCanceled | KOther, KOther => true | _, _ => false end.

(* the true result: value iff the bytes were transferred (never transferred and reported as done);
   an error is the completion's errno; done only after a stop request or a cancelled entry *)
Definition P_result (c : core) : bool :=
  Nat.leb (xfer c) 1 &&
  match completed c with
  | [] => true
  | [RValue] => Nat.eqb (xfer c) 1
  | [RError k] => Nat.eqb (xfer c) 0 && match fail (par c) with Some k' => errk_eqb k k' | None => false end
  | [RDone] => Nat.eqb (xfer c) 0 &&
               (stopped c || match fail (par c) with Some KCanceled => true | _ => false end)
  | _ => false
  end.

Definition core_quiet (c : core) : bool :=
  match step_io c, step_kernel c, step_peer c, step_drain c, step_run c with
  | None, None, None, None, None => true
  | _, _, _, _, _ => false
  end.

(* progress: when no core thread can move the operation has completed or is legitimately waiting
   for the descriptor (in flight, not readable, no stop requested, nothing transferred) *)
Definition P_stuck (c : core) : bool :=
  if core_quiet c then is_completed c || (parked_ok c && Nat.eqb (xfer c) 0) else true.

Definition rpc_eqb (a b : rpc) : bool := N.eqb (run_code a) (run_code b).
Lemma rpc_eqb_eq a b : rpc_eqb a b = true -> a = b.
Proof. destruct a as [|[]| |], b as [|[]| |]; simpl; intros; try reflexivity; discriminate. Qed.
Definition P_runner (c : core) : bool := forallb (fun c' => rpc_eqb (runner c') (runner c)) (asucc_core c).

Definition params_eqb (a b : params) : bool :=
  Bool.eqb (fixed a) (fixed b) && Bool.eqb (pre a) (pre b) && Bool.eqb (full0 a) (full0 b) &&
  Bool.eqb (ready0 a) (ready0 b) &&
  match fail a, fail b with None, None => true | Some x, Some y => errk_eqb x y | _, _ => false end.
Lemma params_eqb_eq a b : params_eqb a b = true -> a = b.
Proof.
  destruct a as [a1 a2 a3 a4 a5], b as [b1 b2 b3 b4 b5]. unfold params_eqb. simpl.
  destruct a1, b1, a2, b2, a3, b3, a4, b4; simpl; try discriminate;
    destruct a5 as [[|]|], b5 as [[|]|]; simpl; intros; try discriminate; reflexivity.
Qed.

Definition P_fixed (p : params) (c : core) : bool :=
  P_safe c && P_result c && P_stuck c && P_runner c && params_eqb (par c) p.

Lemma fixed_checked : forallb (fun p => check (P_fixed p) (init_core p)) (params_of true) = true.
Proof. vm_compute. reflexivity. Qed.

Theorem fixed_core p nstop (sched : list nat) :
  fixed p = true ->
  P_fixed p (co (fst (run step sched (init p nstop, [])))) = true.
Proof.
  intros Hf. eapply (check_all P_fixed true fixed_checked p Hf). apply run_areach.
Qed.

Ltac split_and H :=
  repeat match type of H with
         | (_ && _) = true => let H1 := fresh H in apply andb_true_iff in H; destruct H as [H H1]
         end.

Section Fixed.
  Variables (p : params) (nstop : nat) (sched : list nat).
  Hypothesis Hfixed : fixed p = true.
  Let s := fst (run step sched (init p nstop, [])).
  Let c := co s.

  Lemma fixed_parts : P_safe c = true /\ P_result c = true /\ P_stuck c = true /\ P_runner c = true /\ par c = p.
  Proof.
    pose proof (fixed_core p nstop sched Hfixed) as H. fold s in H. fold c in H. unfold P_fixed in H.
    split_and H. repeat split; auto. now apply params_eqb_eq.
  Qed.

  (* uring_one_completer: the receiver is completed at most once *)
  Theorem uring_at_most_once : length (completed c) <= 1.
  Proof. destruct fixed_parts as (H & _). unfold P_safe in H. split_and H. now apply Nat.leb_le. Qed.

  (* the stop callback is linked at most once into its stop source, request_stop() returns, no
     cancellation is processed before its operation was submitted, nothing touches the operation
     after its completion *)
  Theorem uring_callback_once :
    links c <= 1 /\ spinning c = false /\ lost_cancel c = false /\ uaf c = false.
  Proof.
    destruct fixed_parts as (H & _). unfold P_safe in H. split_and H.
    repeat split; try (now apply negb_true_iff). now apply Nat.leb_le.
  Qed.

  (* at completion nothing of the operation is left *)
  Theorem uring_clean_completion :
    completed c <> [] ->
    localq c = [] /\ remoteq c = [] /\ pend c = [] /\ cqes c = [] /\ links c = 0 /\ refc c = 0 /\
    io c = UIdle /\ runner c = RNone /\ rd c <> KInflight /\ cn c <> KInflight /\ cn c <> KEarly /\
    cb c <> CbReg /\ cb c <> CbRunning.
  Proof.
    intros Hc. destruct fixed_parts as (H & _). unfold P_safe in H. split_and H.
    unfold is_completed in H0. destruct (completed c) eqn:E; [congruence|]. split_and H0.
    unfold quiet_queues in *.
    destruct (localq c), (remoteq c), (pend c), (cqes c); try discriminate.
    destruct (io c); try discriminate. destruct (runner c); try discriminate.
    repeat match goal with HH : Nat.eqb _ _ = true |- _ => apply Nat.eqb_eq in HH end.
    repeat split; auto; try (destruct (rd c); try discriminate; congruence);
      try (destruct (cn c); try discriminate; congruence); destruct (cb c); try discriminate; congruence.
  Qed.

  (* the true result *)
  Theorem uring_true_result :
    xfer c <= 1 /\
    match completed c with
    | [] => True
    | [RValue] => xfer c = 1
    | [RError k] => xfer c = 0 /\ fail p = Some k
    | [RDone] => xfer c = 0 /\ (stopped c = true \/ fail p = Some KCanceled)
    | _ => False
    end.
  Proof.
    destruct fixed_parts as (_ & H & _ & _ & Hp). unfold P_result in H. split_and H. rewrite Hp in H0.
    split; [now apply Nat.leb_le|].
    destruct (completed c) as [|[|k|] [|]]; auto; try discriminate.
    - now apply Nat.eqb_eq.
    - split_and H0. apply Nat.eqb_eq in H0. split; auto.
      destruct (fail p) as [k'|]; [|discriminate]. destruct k, k'; try discriminate; reflexivity.
    - split_and H0. apply Nat.eqb_eq in H0. split; auto.
      apply orb_true_iff in H1. destruct H1 as [H1|H1]; auto.
      right. destruct (fail p) as [[|]|]; try discriminate; reflexivity.
  Qed.
End Fixed.

(* ---- progress ------------------------------------------------------------------------------------ *)
Lemma in_set_nth {A} (l : list A) i x y : nth_error l i = Some x -> In y (set_nth i y l).
Proof. revert i; induction l; destruct i; simpl; intros; try discriminate; auto. Qed.

Lemma in_set_nth_other {A} (l : list A) i x y z :
  nth_error l i = Some x -> x <> z -> In z l -> In z (set_nth i y l).
Proof.
  revert i; induction l; destruct i; simpl; intros H Hn Hin; try discriminate.
  - inversion H; subst. destruct Hin; [congruence|auto].
  - destruct Hin; eauto.
Qed.

Lemma step_run_some c : runner c <> RNone -> step_run c <> None.
Proof.
  unfold step_run. destruct (runner c) as [|k| |]; try congruence.
  destruct (step_cb false k c) as [[s1 e] [k'|]]; discriminate.
Qed.

Lemma step_set_runner c c' e r : step_set c = (c', e, r) ->
  (r = true -> runner c' <> RNone) /\ (r = false -> runner c' = runner c).
Proof.
  unfold step_set. destruct (stopped c); [intros H; inversion H; subst; split; [discriminate|auto]|].
  destruct (cb c); intros H; inversion H; subst; simpl; split; auto; discriminate.
Qed.

Theorem runner_is_a_stopper p nstop (sched : list nat) :
  fixed p = true ->
  let s := fst (run step sched (init p nstop, [])) in
  runner (co s) <> RNone -> In KRun (sts s).
Proof.
  intros Hf.
  assert (forall sched, let s := fst (run step sched (init p nstop, [])) in
          areach (init_core p) (co s) /\ (runner (co s) <> RNone -> In KRun (sts s))) as H.
  { intros sc. apply (run_invariant_state _ _ _ step
      (fun s => areach (init_core p) (co s) /\ (runner (co s) <> RNone -> In KRun (sts s)))).
    - intros s t s' e [Hr HJ] Hs. split; [eapply ar_step; eauto; eapply step_asucc; eauto|].
      pose proof (check_all P_fixed true fixed_checked p Hf _ Hr) as HP. unfold P_fixed in HP. split_and HP.
      unfold P_runner in HP1. rewrite forallb_forall in HP1.
      unfold step in Hs. destruct t as [|[|[|[|i]]]];
        try (simpl in Hs;
             match type of Hs with context[match ?x with _ => _ end] => destruct x as [[c' e']|] eqn:E end;
             [inversion Hs; subst; clear Hs; simpl|discriminate];
             assert (Hin : In c' (asucc_core (co s)))
               by (unfold asucc_core; rewrite E; simpl; rewrite ?in_app_iff; simpl; auto 10);
             apply HP1 in Hin; apply rpc_eqb_eq in Hin; rewrite Hin; exact HJ).
      unfold step_stopper in Hs. destruct (nth_error (sts s) i) as [[| |]|] eqn:En; try discriminate.
      + destruct (step_set (co s)) as [[c' e'] r] eqn:E. inversion Hs; subst; clear Hs. simpl.
        destruct (step_set_runner _ _ _ _ E) as [H1 H2]. destruct r.
        * intros _. eapply in_set_nth; eauto.
        * rewrite (H2 eq_refl). intros Hn. eapply in_set_nth_other; eauto. discriminate.
      + destruct (step_run (co s)) as [[c' e']|] eqn:E; [|discriminate]. inversion Hs; subst; clear Hs. simpl.
        intros Hn. destruct (runner c'); [congruence| | |]; eapply in_set_nth; eauto.
    - simpl. split; [constructor|]. destruct (fixed p); simpl; congruence. }
  intros s. apply (H sched).
Qed.

(* when no thread can move, the operation has completed or legitimately waits for its descriptor *)
Theorem uring_completes p nstop (sched : list nat) :
  fixed p = true ->
  let s := fst (run step sched (init p nstop, [])) in
  (forall t, step t s = None) ->
  completed (co s) <> [] \/ (parked_ok (co s) = true /\ xfer (co s) = 0).
Proof.
  intros Hf s Hstuck.
  destruct (fixed_parts p nstop sched Hf) as (_ & _ & HP & _ & Hpar). fold s in HP, Hpar.
  assert (Hcore : forall t, t < 4 -> step_core t (co s) = None).
  { intros t Ht. specialize (Hstuck t). unfold step in Hstuck.
    destruct t as [|[|[|[|t]]]]; try lia;
      destruct (step_core _ (co s)) as [[c' e']|]; try discriminate; reflexivity. }
  assert (Hrun : runner (co s) = RNone).
  { destruct (runner (co s)) eqn:E; auto; exfalso;
      (assert (Hn : runner (co s) <> RNone) by congruence;
       pose proof (runner_is_a_stopper p nstop sched Hf Hn) as Hin; fold s in Hin;
       apply In_nth_error in Hin; destruct Hin as [i Hi];
       specialize (Hstuck (4 + i)); simpl in Hstuck; unfold step_stopper in Hstuck; rewrite Hi in Hstuck;
       pose proof (step_run_some _ Hn) as Hs; destruct (step_run (co s)) as [[c' e']|]; [discriminate|congruence]). }
  unfold P_stuck in HP.
  assert (Hq : core_quiet (co s) = true).
  { unfold core_quiet.
    pose proof (Hcore 0 ltac:(lia)) as H0. pose proof (Hcore 1 ltac:(lia)) as H1.
    pose proof (Hcore 2 ltac:(lia)) as H2. pose proof (Hcore 3 ltac:(lia)) as H3.
    simpl in H0, H1, H2, H3. rewrite H0, H1, H2, H3.
    unfold step_run. rewrite Hrun. reflexivity. }
  rewrite Hq in HP. apply orb_true_iff in HP. destruct HP as [HP|HP].
  - left. unfold is_completed in HP. destruct (completed (co s)); [discriminate|congruence].
  - right. apply andb_true_iff in HP. destruct HP as [HP1 HP2]. apply Nat.eqb_eq in HP2. auto.
Qed.

(* ======================= the code as written: refuted ========================================= *)
Definition aw (pr fu rd : bool) (fl : option errkind) : params :=
  {| fixed := false; pre := pr; full0 := fu; ready0 := rd; fail := fl |}.

(* finding 10: resubmitted from pendingIoQueue_ (ring full), start_io() constructs the stop callback
   again: the same object is linked twice into the stop source's list ... *)
Theorem uring_callback_once_refuted :
  exists p nstop sched, fixed p = false /\
    links (co (fst (run step sched (init p nstop, [])))) = 2.
Proof. exists (aw false true false None), 0, [0; 0; 3; 0; 0]. vm_compute. auto. Qed.

(* ... and request_stop() then never leaves its loop: the callback it pops is still the head of the
   list; every further step of the stopper executes it again *)
Theorem uring_request_stop_returns_refuted :
  exists p sched, fixed p = false /\
    let s := fst (run step sched (init p 1, [])) in
    spinning (co s) = true /\
    exists s', step 4 s = Some (s', [ESpin]) /\ spinning (co s') = true /\ sts s' = sts s.
Proof.
  exists (aw false true false None), [0; 0; 3; 0; 0; 4; 4; 4; 4]. split; [reflexivity|]. split; [vm_compute; reflexivity|].
  eexists. split; [vm_compute; reflexivity|]. split; reflexivity.
Qed.

(* finding 16: started with the stop token already requested, the inline callback submits the
   cancellation BEFORE the read exists: it cancels nothing, the read is then submitted and parked
   although stop was requested (it completes only if the descriptor ever becomes readable) *)
Theorem uring_prestop_refuted :
  exists p nstop sched, fixed p = false /\ pre p = true /\
    let s := fst (run step sched (init p nstop, [])) in
    lost_cancel (co s) = true /\ stopped (co s) = true /\ completed (co s) = [] /\ rd (co s) = KInflight /\
    step 0 s = None /\ step 1 s = None.
Proof. exists (aw true false false None), 0, [0; 0; 0; 0; 1; 0; 0; 0]. vm_compute. repeat split; auto. Qed.

(* finding 17: a read that transferred its bytes is reported as done when stop was requested
   before its completion was processed: the bytes are gone *)
Theorem uring_true_result_refuted :
  exists p sched, fixed p = false /\
    let c := co (fst (run step sched (init p 1, []))) in
    completed c = [RDone] /\ xfer c = 1.
Proof. exists (aw false false false None), [0; 0; 2; 1; 0; 0; 0; 0; 4; 0]. vm_compute. auto. Qed.
