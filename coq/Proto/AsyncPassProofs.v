(* Proofs about the AsyncPass model (AsyncPassDefs.v): invariants per step, lifted to all schedules. *)
From Coq Require Import List Bool Arith Lia.
From V Require Import Base.Sched Proto.AsyncPassDefs.
Import ListNotations.
Import AsyncPass.

(* ------------------------------------------------------------------------------------------ *)
(* function update, sums over thread ids, counting micro-operations in continuations           *)

Lemma upd_same {A} (f : nat -> A) k v : upd f k v k = v.
Proof. unfold upd. now rewrite Nat.eqb_refl. Qed.
Lemma upd_other {A} (f : nat -> A) k v x : x <> k -> upd f k v x = f x.
Proof. unfold upd. intros. destruct (Nat.eqb_spec x k); congruence. Qed.

Fixpoint total (n : nat) (f : nat -> nat) : nat :=
  match n with 0 => 0 | S m => total m f + f m end.

Lemma total_ext n f g : (forall t, t < n -> f t = g t) -> total n f = total n g.
Proof.
  induction n; simpl; intros H; [reflexivity|].
  rewrite IHn, H; auto.
Qed.

Lemma total_upd n (f : nat -> nat) t v : t < n -> total n (upd f t v) + f t = total n f + v.
Proof.
  induction n; intros Ht; [lia|]. simpl.
  destruct (Nat.eq_dec t n) as [->|Hne].
  - rewrite upd_same.
    rewrite (total_ext n (upd f n v) f); [lia|].
    intros x Hx. apply upd_other. lia.
  - rewrite (upd_other f t v n) by congruence.
    assert (t < n) by lia. specialize (IHn H). lia.
Qed.

Lemma total_pos n f : total n f > 0 -> exists t, t < n /\ f t > 0.
Proof.
  induction n; simpl; intros H; [lia|].
  destruct (f n) eqn:E.
  - destruct IHn as [t [Ht Hf]]; [lia|]. exists t. split; [lia|exact Hf].
  - exists n. split; [lia|]. lia.
Qed.

Lemma total_ge n f t : t < n -> f t <= total n f.
Proof.
  induction n; intros Ht; [lia|]. simpl.
  destruct (Nat.eq_dec t n) as [->|Hne]; [lia|].
  assert (t < n) by lia. specialize (IHn H). lia.
Qed.

Definition cnt (p : mop -> bool) (l : list mop) : nat := length (filter p l).

Lemma cnt_nil p : cnt p [] = 0. Proof. reflexivity. Qed.
Lemma cnt_cons p x l : cnt p (x :: l) = (if p x then 1 else 0) + cnt p l.
Proof. unfold cnt. simpl. destruct (p x); reflexivity. Qed.
Lemma cnt_app p a b : cnt p (a ++ b) = cnt p a + cnt p b.
Proof. unfold cnt. rewrite filter_app, app_length. reflexivity. Qed.
Lemma cnt_pos_in p l : cnt p l > 0 -> exists m, In m l /\ p m = true.
Proof.
  induction l as [|x l IH]; [rewrite cnt_nil; lia|].
  rewrite cnt_cons. destruct (p x) eqn:E; intros H.
  - exists x. split; [now left|exact E].
  - destruct IH as [m [Hi Hp]]; [lia|]. exists m. split; [now right|exact Hp].
Qed.
Lemma cnt_in_pos p l m : In m l -> p m = true -> cnt p l > 0.
Proof.
  induction l as [|x l IH]; [intros []|]. intros [->|Hi] Hp; rewrite cnt_cons.
  - rewrite Hp. lia.
  - specialize (IH Hi Hp). lia.
Qed.

Definition pendf (p : mop -> bool) (n : nat) (f : nat -> list mop) : nat :=
  total n (fun x => cnt p (f x)).

Lemma pendf_upd p n f t L : t < n -> pendf p n (upd f t L) + cnt p (f t) = pendf p n f + cnt p L.
Proof.
  intros Ht. unfold pendf.
  rewrite (total_ext n (fun x => cnt p (upd f t L x)) (upd (fun x => cnt p (f x)) t (cnt p L))).
  - apply (total_upd n (fun x => cnt p (f x)) t (cnt p L) Ht).
  - intros x _. unfold upd. destruct (Nat.eqb x t); reflexivity.
Qed.

Lemma pendf_pos p n f : pendf p n f > 0 -> exists t m, t < n /\ In m (f t) /\ p m = true.
Proof.
  intros H. apply total_pos in H. destruct H as [t [Ht Hc]].
  apply cnt_pos_in in Hc. destruct Hc as [m [Hi Hp]]. exists t, m. auto.
Qed.

Lemma pendf_in p n f t m : t < n -> In m (f t) -> p m = true -> pendf p n f > 0.
Proof.
  intros Ht Hi Hp. pose proof (cnt_in_pos p _ _ Hi Hp).
  pose proof (total_ge n (fun x => cnt p (f x)) t Ht). simpl in H0. unfold pendf. lia.
Qed.

Definition pend (p : mop -> bool) (s : st) : nat := pendf p (nthr s) (stk s).
Arguments cnt : simpl never.
Arguments pendf : simpl never.

(* the micro-operations we count *)
Definition isTc k m := match m with MTc j _ => Nat.eqb j k | _ => false end.
Definition isTcc k c m := match m with MTc j c' => Nat.eqb j k && Bool.eqb c' c | _ => false end.
Definition isHop k m := match m with MHop j => Nat.eqb j k | _ => false end.
Definition isSync k m := match m with MSync j => Nat.eqb j k | _ => false end.
Definition isDereg k m := match m with MDereg j => Nat.eqb j k | _ => false end.
Definition isCbOr k m := match m with MCbOr j => Nat.eqb j k | _ => false end.
Definition isStopCas k m := match m with MStopCas j => Nat.eqb j k | _ => false end.
Definition isChain k m := match m with MSync j | MDereg j | MHop j => Nat.eqb j k | _ => false end.
Definition isLoop m := match m with MLoad | MCas _ => true | _ => false end.
Definition isReg m := match m with MReg => true | _ => false end.
Definition isSL m := match m with MSyncLoad => true | _ => false end.
Definition isSS m := match m with MSetStarted => true | _ => false end.
Definition isSP m := match m with MSpinSync => true | _ => false end.
Definition isCtl m := match m with MSyncLoad | MSetStarted | MSpinSync => true | _ => false end.

Lemma word_eqb_spec a b : reflect (a = b) (word_eqb a b).
Proof.
  destruct a, b; simpl; try (constructor; congruence).
  - destruct (Nat.eqb_spec i i0); constructor; congruence.
  - destruct (Nat.eqb_spec j j0); constructor; congruence.
Qed.

(* ------------------------------------------------------------------------------------------ *)
(* Tier 0: shape of the continuations                                                          *)

Fixpoint wf (l : list mop) : bool :=
  match l with
  | [] => true
  | m :: r => match r with [] => true | _ => negb (isCtl m) && wf r end
  end.

Lemma wf_tail m r : wf (m :: r) = true -> wf r = true.
Proof. simpl. destruct r; [reflexivity|]. intros H. apply andb_prop in H. tauto. Qed.

Lemma wf_ctl_head m r : wf (m :: r) = true -> isCtl m = true -> r = [].
Proof.
  simpl. destruct r; [reflexivity|]. intros H Hc. rewrite Hc in H. discriminate.
Qed.

Lemma wf_push new rest : forallb (fun m => negb (isCtl m)) new = true -> wf rest = true -> wf (new ++ rest) = true.
Proof.
  induction new as [|x new IH]; simpl; intros Hn Hr; [exact Hr|].
  apply andb_prop in Hn. destruct Hn as [Hx Hn]. specialize (IH Hn Hr).
  destruct (new ++ rest); [reflexivity|]. rewrite Hx, IH. reflexivity.
Qed.

Record Inv0 (s : st) : Prop := {
  i0_out : forall t, nthr s <= t -> stk s t = [];
  i0_wf : forall t, wf (stk s t) = true;
  i0_cas : forall t v, In (MCas v) (stk s t) -> decide (kd s t) v = DCas
}.

(* case analysis of one step: one goal per branch of [step], with the new state explicit *)
Ltac branch_ifs H :=
  repeat match type of H with
  | (if ?c then _ else _) = Some _ => let E := fresh "Hc" in destruct c eqn:E
  | match cb ?s ?k with _ => _ end = Some _ => let E := fresh "Hcb" in destruct (cb s k) eqn:E
  end.

Ltac step_cases H :=
  unfold step in H;
  match type of H with context[aborted ?s] => destruct (aborted s) eqn:Hab; [discriminate H|] end;
  let m := fresh "m" in let rest := fresh "rest" in
  match type of H with context[stk ?s ?t] => destruct (stk s t) as [|m rest] eqn:Hst; [discriminate H|] end;
  destruct m;
  [ (* MReg *) branch_ifs H
  | (* MCbOr *) cbv zeta in H; branch_ifs H
  | (* MLoad *) unfold after_obs in H;
      match type of H with context[decide ?k ?v] => destruct (decide k v) eqn:Hdec end
  | (* MCas *) branch_ifs H;
      [ unfold cas_ok in H;
        match type of H with context[kd ?s ?t] => destruct (kd s t) eqn:Hk end;
        match goal with HH : stk _ _ = MCas ?v :: _ |- _ => destruct v end
      | unfold after_obs in H;
        match type of H with context[decide ?k ?v] => destruct (decide k v) eqn:Hdec end ]
  | (* MTc *) cbv zeta in H; branch_ifs H
  | (* MSync *) idtac
  | (* MDereg *) idtac
  | (* MHop *) cbv zeta in H
  | (* MSyncLoad *) branch_ifs H
  | (* MSetStarted *) cbv zeta in H; branch_ifs H
  | (* MSpinSync *) branch_ifs H; [|discriminate H]
  | (* MStopCas *) cbv zeta in H; branch_ifs H
  | (* MSet *) cbv zeta in H; branch_ifs H
  | (* MRet *) idtac ];
  inversion H; subst; clear H.

Lemma wf_cons x r : isCtl x = false -> wf r = true -> wf (x :: r) = true.
Proof. intros Hx Hr. simpl. destruct r; [reflexivity|]. rewrite Hx, Hr. reflexivity. Qed.

Lemma stk_lt s t m rest : Inv0 s -> stk s t = m :: rest -> t < nthr s.
Proof.
  intros I Hst. destruct (Nat.lt_ge_cases t (nthr s)) as [H|H]; [exact H|].
  rewrite (i0_out s I t H) in Hst. discriminate.
Qed.

Lemma inv0_push s t m rest L s' : Inv0 s -> stk s t = m :: rest ->
  nthr s' = nthr s -> kd s' = kd s -> stk s' = upd (stk s) t L -> wf L = true ->
  (forall v, In (MCas v) L -> In (MCas v) rest \/ decide (kd s t) v = DCas) -> Inv0 s'.
Proof.
  intros I Hst Hn Hk Hs Hw Hc. pose proof (stk_lt _ _ _ _ I Hst) as Hlt.
  constructor.
  - intros t0 H0. rewrite Hs, Hn in *. rewrite upd_other by lia. apply (i0_out s I). exact H0.
  - intros t0. rewrite Hs. destruct (Nat.eq_dec t0 t) as [->|Hne].
    + rewrite upd_same. exact Hw.
    + rewrite upd_other by exact Hne. apply (i0_wf s I).
  - intros t0 v. rewrite Hs, Hk. destruct (Nat.eq_dec t0 t) as [->|Hne].
    + rewrite upd_same. intros Hin. destruct (Hc v Hin) as [Hr|Hd]; [|exact Hd].
      apply (i0_cas s I t v). rewrite Hst. now right.
    + rewrite upd_other by exact Hne. apply (i0_cas s I).
Qed.

Ltac kill_ifs :=
  repeat match goal with
  | |- context[if ?c then _ else _] => destruct c
  | |- context[match cb ?s ?k with _ => _ end] => destruct (cb s k)
  end.

Lemma step_inv0 t s s' e : Inv0 s -> step t s = Some (s', e) -> Inv0 s'.
Proof.
  intros I H. step_cases H.
  7: { destruct I; constructor; assumption. }
  all: try (match goal with |- Inv0 (set_aborted true _) => destruct I; constructor; assumption end).
  all: pose proof (i0_wf s I t) as Hw; rewrite Hst in Hw.
  all: eapply inv0_push; [exact I | exact Hst | reflexivity | reflexivity | reflexivity | | ].
  all: try (kill_ifs; simpl app;
            first [ assert (rest = []) by (eapply wf_ctl_head; [exact Hw | reflexivity]); subst; reflexivity
                  | repeat (apply wf_cons; [reflexivity|]); exact (wf_tail _ _ Hw) ]).
  all: try (kill_ifs; intros v0 Hin; simpl in Hin;
            repeat match goal with H : _ \/ _ |- _ => destruct H end;
            try discriminate; try (left; assumption); try contradiction;
            match goal with H : MCas _ = MCas _ |- _ => injection H as <-; right; assumption end).
Qed.

(* ------------------------------------------------------------------------------------------ *)
(* Tier 1: every party is in exactly one phase: before/in its loop, parked in the word,
   being completed (a try_complete pending), completed                                         *)

Ltac norm := cbn [hs nthr kd w aborted stk cstop cstart ccomp sync stopreq cb slot delivered tres taken
                  set_w set_aborted set_stk set_cstop set_cstart set_ccomp set_sync set_stopreq
                  set_cb set_slot set_delivered set_tres set_taken push fill] in *.

Definition b2n (b : bool) : nat := if b then 1 else 0.
Definition party s k := is_party_kind (kd s k).
Definition pre s k := if party s k then cnt isLoop (stk s k) else 0.
Definition inw s k := b2n (word_eqb (w s) (word_of s k)).
Definition ptc s k := pend (isTc k) s.
Definition comp s k := b2n (ccomp s k).

Definition word_ok (s : st) : Prop :=
  match w s with
  | WIdle => True
  | WCaller i => is_caller_kind (kd s i) = true
  | WAcceptor j => kd s j = TAccept
  end.

Record Inv1 (s : st) : Prop := {
  i1_w : word_ok s;
  i1_u : forall k, pre s k + inw s k + ptc s k + comp s k = b2n (party s k)
}.

(* bring the counting equation for every counted predicate occurring in the goal *)
Ltac pose_pend Hlt :=
  repeat match goal with
  | |- context[pendf ?p ?n (upd ?f ?t ?L)] =>
      let H := fresh "Hp" in let x := fresh "pn" in
      pose proof (pendf_upd p n f t L Hlt) as H;
      remember (pendf p n (upd f t L)) as x
  end.

Ltac case_eqb :=
  repeat match goal with
  | |- context[Nat.eqb ?a ?b] => destruct (Nat.eqb_spec a b); subst
  | H : context[Nat.eqb ?a ?b] |- _ => destruct (Nat.eqb_spec a b); subst
  end.

Ltac simp_cnt :=
  repeat rewrite ?cnt_cons, ?cnt_app, ?cnt_nil in *;
  cbn [isTc isTcc isHop isSync isDereg isCbOr isStopCas isChain isLoop isReg isSL isSS isSP b2n
       orb andb negb Bool.eqb] in *.

Lemma caller_party k : is_caller_kind k = true -> is_party_kind k = true.
Proof. destruct k; simpl; congruence. Qed.

Ltac kinds :=
  repeat match goal with
  | H : kd ?s ?k = _ |- _ => rewrite H in *
  end;
  cbn [is_party_kind is_caller_kind] in *.

Ltac kinds2 :=
  repeat match goal with
  | |- context[is_party_kind (kd ?s ?k)] =>
      pose proof (caller_party (kd s k)); destruct (is_party_kind (kd s k))
  | H : context[is_party_kind (kd ?s ?k)] |- _ =>
      pose proof (caller_party (kd s k)); destruct (is_party_kind (kd s k))
  | |- context[is_caller_kind (kd ?s ?k)] => destruct (is_caller_kind (kd s k))
  | H : context[is_caller_kind (kd ?s ?k)] |- _ => destruct (is_caller_kind (kd s k))
  end; cbn [b2n word_eqb] in *; case_eqb.

Ltac rew_bools :=
  repeat match goal with
  | H : ?x = true |- _ => lazymatch x with true => fail | false => fail | _ => rewrite H in * end
  | H : ?x = false |- _ => lazymatch x with true => fail | false => fail | _ => rewrite H in * end
  end.

Ltac kill_ifs_all :=
  repeat (case_eqb; simp_cnt;
  match goal with
  | |- context[if ?c then _ else _] => destruct c eqn:?
  | |- context[match cb ?s ?k with _ => _ end] => destruct (cb s k) eqn:?
  | H : context[if ?c then _ else _] |- _ => destruct c eqn:?
  | H : context[match cb ?s ?k with _ => _ end] |- _ => destruct (cb s k) eqn:?
  end); case_eqb; simp_cnt.

Ltac case_weqb :=
  repeat match goal with
  | |- context[word_eqb ?a ?b] => destruct (word_eqb_spec a b)
  | H : context[word_eqb ?a ?b] |- _ => destruct (word_eqb_spec a b)
  end.

Ltac rw_st := try match goal with HH : stk _ _ = _ :: _ |- _ => rewrite ?HH in * end.
Ltac clear_pn := repeat match goal with HH : _ = pendf _ _ _ |- _ => clear HH end.
Ltac split_decide :=
  try (match goal with Hd : decide (kd ?s ?t) _ = _ |- _ =>
         let Hk := fresh "Hk" in destruct (kd s t) eqn:Hk; cbn [decide] in Hd; try discriminate Hd end).
Ltac split_w :=
  try (match goal with
       | |- context[w ?s] => destruct (w s) eqn:?
       | H : context[w ?s] |- _ => destruct (w s) eqn:?
       end); cbn [word_eqb] in *.
(* the kind of party k0, keeping the equations (they survive later substitutions) *)
Ltac split_kind s k0 :=
  let Hcp := fresh "Hcp" in let Ecq := fresh "Ecq" in let Epq := fresh "Epq" in
  pose proof (caller_party (kd s k0)) as Hcp;
  destruct (is_caller_kind (kd s k0)) eqn:Ecq; destruct (is_party_kind (kd s k0)) eqn:Epq;
  try (discriminate (Hcp eq_refl)); clear Hcp.
Ltac grind :=
  split_w; case_eqb; rw_st; simp_cnt; split_decide;
  kinds; try discriminate; try congruence; try lia;
  case_eqb; kinds; try discriminate; try congruence; try lia;
  rew_bools; cbn [b2n] in *; try lia;
  kill_ifs_all; simp_cnt; try lia;
  cbn [word_eqb] in *; case_eqb; kinds; rew_bools; try discriminate; try congruence; try lia.

Lemma step_inv1 t s s' e : Inv0 s -> Inv1 s -> step t s = Some (s', e) -> Inv1 s'.
Proof.
  intros I0 I H. step_cases H.
  all: pose proof (stk_lt _ _ _ _ I0 Hst) as Hlt.
  all: try (exfalso; pose proof (i0_cas s I0 t _ ltac:(rewrite Hst; left; reflexivity)) as Hd;
            rewrite Hk in Hd; simpl in Hd; discriminate Hd).
  all: constructor.
  all: try (first [ exact (i1_w s I)
                  | unfold word_ok; norm; first [exact Logic.I | rewrite Hk; reflexivity | exact Hk] ]).
  all: intro k0; pose proof (i1_u s I k0) as Hu; pose proof (i1_w s I) as Hw0;
       unfold pre, inw, ptc, comp, party, pend, word_of, word_ok in *; norm;
       pose_pend Hlt; unfold upd in *; rewrite ?Hst in *.
  all: try clear Heqpn.
  all: pose proof (caller_party (kd s k0)) as Hcp;
       destruct (is_caller_kind (kd s k0)) eqn:Ecq; destruct (is_party_kind (kd s k0)) eqn:Epq;
       try (discriminate (Hcp eq_refl)); clear Hcp.
  all: try (destruct (w s) eqn:Ew); cbn [word_eqb] in *.
  all: case_eqb; rewrite ?Hst in *; simp_cnt.
  all: try (match goal with Hd : decide (kd ?s ?t) _ = _ |- _ =>
                   destruct (kd s t) eqn:Hk; cbn [decide] in Hd; try discriminate Hd end).
  all: kinds; try discriminate; try congruence.
  all: try lia.
  all: case_eqb; kinds; try discriminate; try congruence; try lia.
  all: rew_bools; cbn [b2n] in *; try lia.
  all: kill_ifs_all; simp_cnt; try lia.
  all: cbn [word_eqb] in *; case_eqb; kinds; rew_bools; try discriminate; try congruence; try lia.
Qed.

(* ------------------------------------------------------------------------------------------ *)
(* Tier 2: completion chains, deliveries, slots                                                *)

Definition phop s k := pend (isHop k) s.
Definition pchain s k := pend (isChain k) s.

Record Inv2 (s : st) : Prop := {
  i2_hop : forall k, phop s k + length (delivered s k) = comp s k;
  i2_chain : forall k, comp s k = 0 -> pchain s k = 0;
  i2_slot0 : forall k, pre s k + inw s k = 1 -> slot s k = None;
  i2_slot1 : forall k, kd s k = TAccept -> ptc s k + comp s k = 1 -> slot s k <> None;
  i2_sync : forall k, sync s k = true -> ccomp s k = true
}.

Ltac begin_step H I0 :=
  step_cases H;
  (match goal with Hst : stk ?s ?t = _ :: _ |- _ =>
     let Hlt := fresh "Hlt" in pose proof (stk_lt _ _ _ _ I0 Hst) as Hlt end);
  try (exfalso;
       match goal with Hst : stk ?s ?t = MCas ?v :: _, Hk : kd ?s ?t = _ |- _ =>
         let Hd := fresh in
         pose proof (i0_cas s I0 t v ltac:(rewrite Hst; left; reflexivity)) as Hd;
         rewrite Hk in Hd; simpl in Hd; discriminate Hd end).

Ltac unf := unfold phop, pchain, pre, inw, ptc, comp, party, pend, word_of, word_ok in *; norm.
Ltac pp := match goal with Hlt : _ < nthr _ |- _ => pose_pend Hlt end; unfold upd in *; rw_st; clear_pn.
Ltac go := case_eqb; rw_st; simp_cnt; try lia; rew_bools; cbn [b2n] in *; try lia;
           kill_ifs_all; cbn [length] in *; try lia.

Lemma step_inv2_hop t s s' e : Inv0 s -> Inv1 s -> Inv2 s -> step t s = Some (s', e) ->
  forall k, phop s' k + length (delivered s' k) = comp s' k.
Proof.
  intros I0 I1 I2 H. begin_step H I0.
  all: intro k0; pose proof (i2_hop s I2 k0) as Hh; pose proof (i1_u s I1 k0) as Hu.
  all: unf; pp; go.
Qed.

Lemma step_inv2_chain t s s' e : Inv0 s -> Inv1 s -> Inv2 s -> step t s = Some (s', e) ->
  forall k, comp s' k = 0 -> pchain s' k = 0.
Proof.
  intros I0 I1 I2 H. begin_step H I0.
  all: intro k0; pose proof (i2_chain s I2 k0) as Hh; pose proof (i1_u s I1 k0) as Hu.
  all: unf; pp; go.
Qed.

Lemma step_inv2_slot0 t s s' e : Inv0 s -> Inv1 s -> Inv2 s -> step t s = Some (s', e) ->
  forall k, pre s' k + inw s' k = 1 -> slot s' k = None.
Proof.
  intros I0 I1 I2 H. pose proof (step_inv1 _ _ _ _ I0 I1 H) as I1'. begin_step H I0.
  all: intro k0; pose proof (i2_slot0 s I2 k0) as Hh; pose proof (i1_u s I1 k0) as Hu;
       pose proof (i1_u _ I1' k0) as Hu'; pose proof (i1_w s I1) as Hw0; clear I1'.
  all: unf; pp.
  all: intro Hg; split_kind s k0.
  all: grind.
  all: try (apply Hh; lia).
Qed.

Lemma step_inv2_slot1 t s s' e : Inv0 s -> Inv1 s -> Inv2 s -> step t s = Some (s', e) ->
  forall k, kd s' k = TAccept -> ptc s' k + comp s' k = 1 -> slot s' k <> None.
Proof.
  intros I0 I1 I2 H. pose proof (step_inv1 _ _ _ _ I0 I1 H) as I1'. begin_step H I0.
  all: intro k0; pose proof (i2_slot1 s I2 k0) as Hh; pose proof (i1_u s I1 k0) as Hu;
       pose proof (i1_u _ I1' k0) as Hu'; pose proof (i1_w s I1) as Hw0; clear I1'.
  all: unf; pp.
  all: intros Hka Hg; specialize (Hh Hka); rewrite Hka in *; cbn [is_party_kind is_caller_kind] in *.
  all: grind.
  all: try (apply Hh; lia).
  all: match goal with |- context[slot ?s ?j] => destruct (slot s j) end; discriminate.
Qed.

Lemma step_inv2_sync t s s' e : Inv0 s -> Inv1 s -> Inv2 s -> step t s = Some (s', e) ->
  forall k, sync s' k = true -> ccomp s' k = true.
Proof.
  intros I0 I1 I2 H. begin_step H I0.
  all: intro k0; pose proof (i2_sync s I2 k0) as Hh; pose proof (i2_chain s I2 k0) as Hch.
  all: unf; pp.
  all: try exact Hh.
  all: go.
  all: try exact Hh.
  intros _. destruct (ccomp s k) eqn:Ec; [reflexivity|exfalso].
  pose proof (pendf_in (isChain k) (nthr s) (stk s) t (MSync k) Hlt
                ltac:(rewrite Hst; left; reflexivity) ltac:(simpl; apply Nat.eqb_refl)).
  cbn [b2n] in Hch. specialize (Hch eq_refl). lia.
Qed.

Lemma step_inv2 t s s' e : Inv0 s -> Inv1 s -> Inv2 s -> step t s = Some (s', e) -> Inv2 s'.
Proof.
  intros I0 I1 I2 H. constructor.
  - eapply step_inv2_hop; eauto.
  - eapply step_inv2_chain; eauto.
  - eapply step_inv2_slot0; eauto.
  - eapply step_inv2_slot1; eauto.
  - eapply step_inv2_sync; eauto.
Qed.

(* ------------------------------------------------------------------------------------------ *)
(* Tier 2b: who holds whose payload (ghost field [taken]) *)

Lemma total_add n f g : total n (fun x => f x + g x) = total n f + total n g.
Proof. induction n; simpl; [reflexivity|]. rewrite IHn. lia. Qed.

Lemma cnt_tc_split k l : cnt (isTc k) l = cnt (isTcc k true) l + cnt (isTcc k false) l.
Proof.
  induction l as [|m l IH]; [reflexivity|]. rewrite !cnt_cons, IH.
  destruct m; simpl; try lia. destruct (Nat.eqb k0 k), c; simpl; lia.
Qed.

Lemma pendf_tc_split k n f : pendf (isTc k) n f = pendf (isTcc k true) n f + pendf (isTcc k false) n f.
Proof.
  unfold pendf. rewrite <- total_add. apply total_ext. intros t _. apply cnt_tc_split.
Qed.

Definition holds s x i := slot s x = Some (payload_res s i) \/ tres s x = Some (payload_res s i).
Definition acc s i := exists x, holds s x i.
Definition ptcc s k c := pend (isTcc k c) s.
Definition is_try_kind k := match k with TTryCall | TTryAccept => true | _ => false end.

Record Inv3 (s : st) : Prop := {
  i3_x : forall t k, In (MTc k true) (stk s t) -> is_caller_kind (kd s k) = true;
  i3_l : forall t, cnt isLoop (stk s t) <= 1;
  i3_t : forall t, tres s t <> None -> cnt isLoop (stk s t) = 0;
  i3_d : forall i r, is_caller_kind (kd s i) = true -> slot s i = Some r -> r = RDone /\ comp s i = 1;
  i3_h1 : forall x i, holds s x i -> taken s i = Some x;
  i3_h2 : forall x i, taken s i = Some x -> holds s x i;
  i3_a : forall i, is_caller_kind (kd s i) = true -> taken s i <> None ->
           ptcc s i false + comp s i = 1 /\ slot s i = None;
  i3_b : forall i, is_caller_kind (kd s i) = true -> ptcc s i false = 1 -> taken s i <> None;
  i3_c : forall i, is_caller_kind (kd s i) = true -> comp s i = 1 -> slot s i = None -> taken s i <> None;
  i3_e1 : forall t, kd s t = TTryCall -> taken s t <> None -> tres s t = Some RValue;
  i3_e2 : forall t, kd s t = TTryCall -> tres s t = Some RValue -> taken s t <> None;
  i3_k : forall i x, taken s i = Some x -> kd s x = TAccept \/ kd s x = TTryAccept
}.

Ltac unf3 := unfold holds, acc, payload_res, ptcc, phop, pchain, pre, inw, ptc, comp, party, pend, word_of, word_ok in *; norm.

Lemma step_inv3_d t s s' e : Inv0 s -> Inv1 s -> Inv2 s -> Inv3 s -> step t s = Some (s', e) ->
  forall i r, is_caller_kind (kd s' i) = true -> slot s' i = Some r -> r = RDone /\ comp s' i = 1.
Proof.
  intros I0 I1 I2 I3 H. begin_step H I0.
  all: intros k0 r0; pose proof (i3_d s I3 k0 r0) as Hh; pose proof (i1_w s I1) as Hw0.
  all: unf3; intros Hck; specialize (Hh Hck).
  all: try exact Hh.
  all: unfold upd in *; case_eqb; try exact Hh.
  all: split_w; case_eqb; kinds; try discriminate; try congruence.
  all: kill_ifs_all; kinds; try discriminate; try congruence; try exact Hh.
  all: try (intros HH; injection HH as <-; split; reflexivity).
  all: intros HH; destruct (Hh HH); split; auto.
Qed.

Lemma step_inv3_x t s s' e : Inv0 s -> Inv3 s -> step t s = Some (s', e) ->
  forall t0 k, In (MTc k true) (stk s' t0) -> is_caller_kind (kd s' k) = true.
Proof.
  intros I0 I3 H. begin_step H I0.
  all: intros t0 k0; pose proof (i3_x s I3 t0 k0) as Hh; pose proof (i3_x s I3 t k0) as Hh';
       unf3; try exact Hh; unfold upd; case_eqb; try exact Hh; rw_st.
  all: kill_ifs; cbn [app In] in *; intros HH;
       repeat match goal with H : _ \/ _ |- _ => destruct H end;
       try discriminate; try (apply Hh'; right; assumption); try contradiction.
  all: try (match goal with H : MTc _ _ = MTc _ _ |- _ => injection H as <- Hf end; try discriminate; try congruence).
Qed.

Lemma step_inv3_l t s s' e : Inv0 s -> Inv3 s -> step t s = Some (s', e) ->
  forall t0, cnt isLoop (stk s' t0) <= 1.
Proof.
  intros I0 I3 H. begin_step H I0.
  all: intros t0; pose proof (i3_l s I3 t0) as Hh; unf3; unfold upd; case_eqb; rw_st; simp_cnt; try lia.
  all: kill_ifs_all; lia.
Qed.

Lemma step_inv3_t t s s' e : Inv0 s -> Inv3 s -> step t s = Some (s', e) ->
  forall t0, tres s' t0 <> None -> cnt isLoop (stk s' t0) = 0.
Proof.
  intros I0 I3 H. begin_step H I0.
  all: intros t0; pose proof (i3_t s I3 t0) as Hh; pose proof (i3_l s I3 t0) as Hl;
       unf3; unfold upd; case_eqb; rw_st; simp_cnt; try exact Hh; try lia.
  all: try (intros HH; specialize (Hh HH); lia).
  all: kill_ifs_all; try lia.
  all: intros HH; specialize (Hh HH); lia.
Qed.

(* slots are written once; a try thread's result is written once *)
Lemma holds_persist t s s' e : Inv0 s -> Inv1 s -> Inv2 s -> Inv3 s -> step t s = Some (s', e) ->
  forall x i, holds s x i -> holds s' x i.
Proof.
  intros I0 I1 I2 I3 H. begin_step H I0.
  all: intros x0 i0; pose proof (i1_w s I1) as Hw0; pose proof (i2_slot0 s I2 x0) as Hs0;
       pose proof (i1_u s I1 x0) as Hu; pose proof (i3_t s I3 x0) as Ht;
       pose proof (fun r => i3_d s I3 x0 r) as Hd.
  all: unf3; try (intros HH; exact HH).
  all: unfold upd in *.
  all: intros [HH|HH]; [left|right]; try exact HH.
  all: case_eqb; try exact HH; rw_st; simp_cnt.
  all: try (exfalso; rewrite HH in Ht; specialize (Ht ltac:(discriminate)); lia).
  all: try (rewrite HH; reflexivity).
  - destruct c; [|exact HH].
    pose proof (i3_x s I3 t k ltac:(rewrite Hst; left; reflexivity)) as Hck.
    destruct (Nat.eqb_spec x0 k) as [->|Hne]; [|exact HH].
    destruct (Hd _ Hck HH) as [Hr _]. destruct (kd s i0); discriminate Hr.
  - destruct (is_caller_kind (kd s k)) eqn:Eck; [exact HH|].
    destruct (Nat.eqb_spec x0 k) as [->|Hne]; [|exact HH]. exfalso.
    rewrite Eck in *. rewrite Hc in *. cbn [b2n] in *.
    assert (slot s k = None) as Hn.
    { apply Hs0. destruct (is_party_kind (kd s k)); cbn [b2n] in *; lia. }
    rewrite Hn in HH. discriminate.
Qed.

Inductive done_mark {A} (a : A) (n : nat) : Prop := DM.
Ltac pose_at H :=
  repeat match goal with x : nat |- _ =>
    lazymatch goal with
    | _ : done_mark H x |- _ => fail
    | _ => pose proof (H x); pose proof (DM H x)
    end end;
  repeat match goal with M : done_mark _ _ |- _ => clear M end.

Lemma payload_inj s a b : payload_res s a = payload_res s b -> a = b.
Proof. unfold payload_res. destruct (kd s a), (kd s b); congruence. Qed.


Lemma payload_not_done s a : payload_res s a <> RDone.
Proof. unfold payload_res. destruct (kd s a); discriminate. Qed.
Lemma payload_not_value s a : payload_res s a <> RValue.
Proof. unfold payload_res. destruct (kd s a); discriminate. Qed.

Ltac unf3' := unfold holds, acc, ptcc, phop, pchain, pre, inw, ptc, comp, party, pend, word_of, word_ok in *; norm.

Lemma ptcc_le s k c : ptcc s k c <= ptc s k.
Proof.
  unfold ptcc, ptc, pend. rewrite (pendf_tc_split k). destruct c; lia.
Qed.

Lemma inw_acc s j : Inv1 s -> Inv2 s -> w s = WAcceptor j ->
  kd s j = TAccept /\ slot s j = None /\ ptc s j = 0 /\ ccomp s j = false /\ cnt isLoop (stk s j) = 0.
Proof.
  intros I1 I2 Hw. pose proof (i1_w s I1) as Hk. unfold word_ok in Hk. rewrite Hw in Hk.
  pose proof (i1_u s I1 j) as Hu. pose proof (i2_slot0 s I2 j) as Hs.
  unfold pre, inw, comp, party, word_of in *. rewrite Hk, Hw in *. simpl in *.
  rewrite Nat.eqb_refl in *. simpl in *. destruct (ccomp s j); simpl in *; repeat split; try lia; auto.
  apply Hs. lia.
Qed.

Lemma inw_call s i : Inv1 s -> Inv2 s -> w s = WCaller i ->
  is_caller_kind (kd s i) = true /\ slot s i = None /\ ptc s i = 0 /\ ccomp s i = false /\ cnt isLoop (stk s i) = 0.
Proof.
  intros I1 I2 Hw. pose proof (i1_w s I1) as Hk. unfold word_ok in Hk. rewrite Hw in Hk.
  pose proof (i1_u s I1 i) as Hu. pose proof (i2_slot0 s I2 i) as Hs.
  pose proof (caller_party _ Hk) as Hp.
  unfold pre, inw, comp, party, word_of in *. rewrite Hk, Hp, Hw in *. simpl in *.
  rewrite Nat.eqb_refl in *. simpl in *. destruct (ccomp s i); simpl in *; repeat split; try lia; auto.
  apply Hs. lia.
Qed.

Lemma pre_facts s t m rest : Inv1 s -> Inv2 s -> is_party_kind (kd s t) = true ->
  stk s t = m :: rest -> isLoop m = true ->
  slot s t = None /\ ptc s t = 0 /\ ccomp s t = false /\ w s <> word_of s t.
Proof.
  intros I1 I2 Hp Hst Hm.
  pose proof (i1_u s I1 t) as Hu. pose proof (i2_slot0 s I2 t) as Hs.
  unfold pre, inw, comp, party in *. rewrite Hp, Hst in *. rewrite cnt_cons, Hm in *.
  destruct (word_eqb_spec (w s) (word_of s t)); destruct (ccomp s t); simpl in *; try lia.
  repeat split; try lia; auto. apply Hs. lia.
Qed.

Lemma caller_not_taken s i : Inv3 s -> is_caller_kind (kd s i) = true -> ptc s i = 0 -> ccomp s i = false ->
  taken s i = None.
Proof.
  intros I3 Hk Hp Hc. destruct (taken s i) eqn:E; [exfalso|reflexivity].
  destruct (i3_a s I3 i Hk) as [Ha _]; [congruence|].
  pose proof (ptcc_le s i false). unfold comp in Ha. rewrite Hc in Ha. simpl in Ha. lia.
Qed.

Lemma try_not_taken s t m rest : Inv3 s -> kd s t = TTryCall -> stk s t = m :: rest -> isLoop m = true ->
  taken s t = None.
Proof.
  intros I3 Hk Hst Hm. destruct (taken s t) eqn:E; [exfalso|reflexivity].
  assert (tres s t = Some RValue) as Hr by (apply (i3_e1 s I3 t Hk); congruence).
  pose proof (i3_t s I3 t ltac:(congruence)) as Hz. rewrite Hst, cnt_cons, Hm in Hz. lia.
Qed.

Lemma step_inv3_h1 t s s' e : Inv0 s -> Inv1 s -> Inv2 s -> Inv3 s -> step t s = Some (s', e) ->
  forall x i, holds s' x i -> taken s' i = Some x.
Proof.
  intros I0 I1 I2 I3 H. begin_step H I0.
  all: intros x0 i0; pose proof (i3_h1 s I3 x0 i0) as Hh.
  all: unfold holds in *; norm.
  all: try exact Hh.
  all: change (payload_res _ i0) with (payload_res s i0).
  all: unfold upd.
  (* a slot or a try result overwritten with done / value *)
  all: try (intros [HH|HH]; apply Hh; [left|right]; revert HH; kill_ifs; case_eqb; intros HH;
            try exact HH; try (injection HH as HH; symmetry in HH; apply payload_not_done in HH; contradiction);
            fail).
  all: match goal with Hc : word_eqb (w ?s) ?v = true |- _ =>
         destruct (word_eqb_spec (w s) v) as [Hw|]; [|discriminate Hc] end.
  - (* call t claims acceptor j *)
    destruct (inw_acc s j I1 I2 Hw) as (Hkj & Hsj & _).
    destruct (pre_facts s t _ _ I1 I2 ltac:(rewrite Hk; reflexivity) Hst eq_refl) as (_ & Hpt & Hct & _).
    pose proof (caller_not_taken s t I3 ltac:(rewrite Hk; reflexivity) Hpt Hct) as Hnt.
    rewrite Hsj. intros [HH|HH].
    + destruct (Nat.eqb_spec x0 j) as [->|Hne].
      * injection HH as HH. apply payload_inj in HH. subst i0. now rewrite Nat.eqb_refl.
      * specialize (Hh (or_introl HH)). destruct (Nat.eqb_spec i0 t) as [->|]; [congruence|exact Hh].
    + specialize (Hh (or_intror HH)). destruct (Nat.eqb_spec i0 t) as [->|]; [congruence|exact Hh].
  - (* throw t claims acceptor j *)
    destruct (inw_acc s j I1 I2 Hw) as (Hkj & Hsj & _).
    destruct (pre_facts s t _ _ I1 I2 ltac:(rewrite Hk; reflexivity) Hst eq_refl) as (_ & Hpt & Hct & _).
    pose proof (caller_not_taken s t I3 ltac:(rewrite Hk; reflexivity) Hpt Hct) as Hnt.
    rewrite Hsj. intros [HH|HH].
    + destruct (Nat.eqb_spec x0 j) as [->|Hne].
      * injection HH as HH. apply payload_inj in HH. subst i0. now rewrite Nat.eqb_refl.
      * specialize (Hh (or_introl HH)). destruct (Nat.eqb_spec i0 t) as [->|]; [congruence|exact Hh].
    + specialize (Hh (or_intror HH)). destruct (Nat.eqb_spec i0 t) as [->|]; [congruence|exact Hh].
  - (* accept t claims caller i *)
    destruct (inw_call s i I1 I2 Hw) as (Hki & _ & Hpi & Hci & _).
    pose proof (caller_not_taken s i I3 Hki Hpi Hci) as Hnt.
    destruct (pre_facts s t _ _ I1 I2 ltac:(rewrite Hk; reflexivity) Hst eq_refl) as (Hsl & _).
    rewrite Hsl. intros [HH|HH].
    + destruct (Nat.eqb_spec x0 t) as [->|Hne].
      * injection HH as HH. apply payload_inj in HH. subst i0. now rewrite Nat.eqb_refl.
      * specialize (Hh (or_introl HH)). destruct (Nat.eqb_spec i0 i) as [->|]; [congruence|exact Hh].
    + specialize (Hh (or_intror HH)). destruct (Nat.eqb_spec i0 i) as [->|]; [congruence|exact Hh].
  - (* try_call t claims acceptor j *)
    destruct (inw_acc s j I1 I2 Hw) as (Hkj & Hsj & _).
    pose proof (try_not_taken s t _ _ I3 Hk Hst eq_refl) as Hnt.
    assert (RGot t = payload_res s t) as Hpl by (unfold payload_res; now rewrite Hk).
    rewrite Hsj, Hpl. intros [HH|HH].
    + destruct (Nat.eqb_spec x0 j) as [->|Hne].
      * injection HH as HH. apply payload_inj in HH. subst i0. now rewrite Nat.eqb_refl.
      * specialize (Hh (or_introl HH)). destruct (Nat.eqb_spec i0 t) as [->|]; [congruence|exact Hh].
    + destruct (Nat.eqb_spec x0 t) as [->|Hne].
      * injection HH as HH. symmetry in HH. apply payload_not_value in HH. contradiction.
      * specialize (Hh (or_intror HH)). destruct (Nat.eqb_spec i0 t) as [->|]; [congruence|exact Hh].
  - (* try_accept t claims caller i *)
    destruct (inw_call s i I1 I2 Hw) as (Hki & _ & Hpi & Hci & _).
    pose proof (caller_not_taken s i I3 Hki Hpi Hci) as Hnt.
    intros [HH|HH].
    + specialize (Hh (or_introl HH)). destruct (Nat.eqb_spec i0 i) as [->|]; [congruence|exact Hh].
    + destruct (Nat.eqb_spec x0 t) as [->|Hne].
      * injection HH as HH. apply payload_inj in HH. subst i0. now rewrite Nat.eqb_refl.
      * specialize (Hh (or_intror HH)). destruct (Nat.eqb_spec i0 i) as [->|]; [congruence|exact Hh].
Qed.

Lemma step_inv3_h2 t s s' e : Inv0 s -> Inv1 s -> Inv2 s -> Inv3 s -> step t s = Some (s', e) ->
  forall x i, taken s' i = Some x -> holds s' x i.
Proof.
  intros I0 I1 I2 I3 H. pose proof (holds_persist _ _ _ _ I0 I1 I2 I3 H) as Hper. begin_step H I0.
  all: intros x0 i0; pose proof (i3_h2 s I3 x0 i0) as Hh; specialize (Hper x0 i0).
  all: try (intros HH; apply Hper; apply Hh; exact HH).
  all: match goal with Hc : word_eqb (w ?s) ?v = true |- _ =>
         destruct (word_eqb_spec (w s) v) as [Hw|]; [|discriminate Hc] end.
  all: norm; unfold upd at 1;
       match goal with |- (if Nat.eqb ?b ?a then _ else _) = _ -> _ => destruct (Nat.eqb_spec b a) as [->|Hne] end;
       [|intros HH; apply Hper; apply Hh; exact HH].
  all: intros HH; injection HH as <-; unfold holds; norm; change (payload_res _ ?a) with (payload_res s a);
       unfold upd; rewrite ?Nat.eqb_refl.
  - destruct (inw_acc s j I1 I2 Hw) as (_ & Hsj & _). rewrite Hsj. now left.
  - destruct (inw_acc s j I1 I2 Hw) as (_ & Hsj & _). rewrite Hsj. now left.
  - destruct (pre_facts s t _ _ I1 I2 ltac:(rewrite Hk; reflexivity) Hst eq_refl) as (Hsl & _).
    rewrite Hsl. now left.
  - destruct (inw_acc s j I1 I2 Hw) as (_ & Hsj & _). rewrite Hsj. left.
    unfold payload_res. now rewrite Hk.
  - now right.
Qed.

Lemma step_inv3_k t s s' e : Inv0 s -> Inv1 s -> Inv2 s -> Inv3 s -> step t s = Some (s', e) ->
  forall i x, taken s' i = Some x -> kd s' x = TAccept \/ kd s' x = TTryAccept.
Proof.
  intros I0 I1 I2 I3 H. begin_step H I0.
  all: intros i0 x0; pose proof (i3_k s I3 i0 x0) as Hh; norm; try exact Hh.
  all: match goal with Hc : word_eqb (w ?s) ?v = true |- _ =>
         destruct (word_eqb_spec (w s) v) as [Hw|]; [|discriminate Hc] end.
  all: unfold upd; case_eqb; try exact Hh; intros HH; injection HH as <-.
  all: try (left; exact (proj1 (inw_acc s _ I1 I2 Hw))).
  all: rewrite Hk; auto.
Qed.

Ltac pose_pend2 Hlt :=
  repeat match goal with
  | |- context[pendf ?p ?n (upd ?f ?t ?L)] =>
      pose proof (pendf_upd p n f t L Hlt);
      let x := fresh "pn" in let E := fresh "Epn" in
      remember (pendf p n (upd f t L)) as x eqn:E in *; clear E
  | H : context[pendf ?p ?n (upd ?f ?t ?L)] |- _ =>
      pose proof (pendf_upd p n f t L Hlt);
      let x := fresh "pn" in let E := fresh "Epn" in
      remember (pendf p n (upd f t L)) as x eqn:E in *; clear E
  end.
Ltac pp2 := match goal with Hlt : _ < nthr _ |- _ => pose_pend2 Hlt end.

Lemma step_inv3_a t s s' e : Inv0 s -> Inv1 s -> Inv2 s -> Inv3 s -> step t s = Some (s', e) ->
  forall i, is_caller_kind (kd s' i) = true -> taken s' i <> None ->
    ptcc s' i false + comp s' i = 1 /\ slot s' i = None.
Proof.
  intros I0 I1 I2 I3 H. pose proof (step_inv1 _ _ _ _ I0 I1 H) as I1'. begin_step H I0.
  all: intros i0 Hck; pose proof (i3_a s I3 i0) as Ha; pose proof (i1_w s I1) as Hw0;
       pose proof (i1_u s I1 i0) as Hu; pose proof (i1_u _ I1' i0) as Hu'; clear I1';
       pose proof (i2_slot0 s I2 i0) as Hs0;
       pose proof (pendf_tc_split i0 (nthr s) (stk s)) as Hsp;
       pose proof (pendf_upd (isTcc i0 true) (nthr s) (stk s) t [] Hlt) as HxT.
  all: match goal with Hst : stk _ _ = _ :: ?rest |- _ => pose proof (cnt_tc_split i0 rest) as Hsr end.
  all: try match goal with Hst : stk _ _ = MTc _ ?c :: _ |- _ => destruct c end.
  all: unf3'; specialize (Ha Hck); rewrite Hck in *; rewrite (caller_party _ Hck) in *.
  all: pp2; unfold upd in *; rw_st.
  all: try (intro HT; destruct (Ha HT) as [Ha1 Ha2]; clear Ha; split; [|exact Ha2];
            case_eqb; rw_st; simp_cnt; try lia; kill_ifs_all; try lia; fail).
  all: intro HT; split_w; case_eqb; rw_st; simp_cnt; kinds; try discriminate; try congruence.
  all: try (destruct (Ha HT) as [Ha1 Ha2]; clear Ha; split; [|try exact Ha2];
            rew_bools; cbn [b2n] in *; try lia; kill_ifs_all; try lia; try exact Ha2).
  all: cbn [andb] in *; case_eqb; simp_cnt.
  all: try (split; [lia | apply Hs0; lia]).
  all: try (exfalso; lia).
Qed.

Lemma step_inv3_b t s s' e : Inv0 s -> Inv1 s -> Inv2 s -> Inv3 s -> step t s = Some (s', e) ->
  forall i, is_caller_kind (kd s' i) = true -> ptcc s' i false = 1 -> taken s' i <> None.
Proof.
  intros I0 I1 I2 I3 H. pose proof (step_inv1 _ _ _ _ I0 I1 H) as I1'. begin_step H I0.
  all: intros i0 Hck; pose proof (i3_b s I3 i0) as Hb; pose proof (i1_w s I1) as Hw0;
       pose proof (i1_u s I1 i0) as Hu; pose proof (i1_u _ I1' i0) as Hu'; clear I1';
       pose proof (pendf_tc_split i0 (nthr s) (stk s)) as Hsp.
  all: match goal with Hst : stk _ _ = _ :: ?rest |- _ => pose proof (cnt_tc_split i0 rest) as Hsr end.
  all: try match goal with Hst : stk _ _ = MTc _ ?c :: _ |- _ => destruct c end.
  all: unf3'; specialize (Hb Hck); rewrite Hck in *; rewrite (caller_party _ Hck) in *.
  all: pp2; unfold upd in *; rw_st.
  all: intro HT; split_w; case_eqb; rw_st; simp_cnt; kinds; try discriminate; try congruence.
  all: try (apply Hb; lia).
  all: rew_bools; cbn [b2n andb] in *; kill_ifs_all; try discriminate; try congruence; try (apply Hb; lia); try (exfalso; lia).
Qed.

Lemma step_inv3_c t s s' e : Inv0 s -> Inv1 s -> Inv2 s -> Inv3 s -> step t s = Some (s', e) ->
  forall i, is_caller_kind (kd s' i) = true -> comp s' i = 1 -> slot s' i = None -> taken s' i <> None.
Proof.
  intros I0 I1 I2 I3 H. pose proof (step_inv1 _ _ _ _ I0 I1 H) as I1'. begin_step H I0.
  all: intros i0 Hck; pose proof (i3_c s I3 i0) as Hcc; pose proof (i3_b s I3 i0) as Hb; pose proof (i1_w s I1) as Hw0;
       pose proof (i1_u s I1 i0) as Hu; pose proof (i1_u _ I1' i0) as Hu'; clear I1';
       pose proof (pendf_tc_split i0 (nthr s) (stk s)) as Hsp;
       pose proof (pendf_upd (isTcc i0 false) (nthr s) (stk s) t [] Hlt) as HxF.
  all: match goal with Hst : stk _ _ = _ :: ?rest |- _ => pose proof (cnt_tc_split i0 rest) as Hsr end.
  all: try match goal with Hst : stk _ _ = MTc _ ?c :: _ |- _ => destruct c end.
  all: unf3'; specialize (Hcc Hck); specialize (Hb Hck); rewrite Hck in *; rewrite (caller_party _ Hck) in *.
  all: try exact Hcc.
  all: pp2; unfold upd in *; rw_st.
  all: intros HT HS; split_w; case_eqb; rw_st; simp_cnt; kinds; try discriminate; try congruence.
  all: try (apply Hcc; [lia|assumption]).
  all: rew_bools; cbn [b2n andb] in *; kill_ifs_all; try discriminate; try congruence;
       try (apply Hcc; [lia|assumption]); try (apply Hb; lia); try (exfalso; lia).
Qed.

Lemma step_inv3_e t s s' e : Inv0 s -> Inv1 s -> Inv2 s -> Inv3 s -> step t s = Some (s', e) ->
  forall t0, kd s' t0 = TTryCall ->
    (taken s' t0 <> None -> tres s' t0 = Some RValue) /\ (tres s' t0 = Some RValue -> taken s' t0 <> None).
Proof.
  intros I0 I1 I2 I3 H. begin_step H I0.
  all: intros t0 Hkt; pose proof (i3_e1 s I3 t0 Hkt) as He1; pose proof (i3_e2 s I3 t0 Hkt) as He2;
       pose proof (i3_t s I3 t0) as Ht; pose proof (i1_w s I1) as Hw0.
  all: norm; try (split; assumption).
  all: unfold upd, word_ok in *; split_w; case_eqb; rw_st; simp_cnt; kinds; try discriminate; try congruence.
  all: try (split; assumption).
  all: split; intros HH; try discriminate; try congruence; try reflexivity.
  all: exfalso; specialize (He1 HH); rewrite He1 in Ht; specialize (Ht ltac:(discriminate)); lia.
Qed.

Lemma step_inv3 t s s' e : Inv0 s -> Inv1 s -> Inv2 s -> Inv3 s -> step t s = Some (s', e) -> Inv3 s'.
Proof.
  intros I0 I1 I2 I3 H. constructor.
  - eapply step_inv3_x; eauto.
  - eapply step_inv3_l; eauto.
  - eapply step_inv3_t; eauto.
  - eapply step_inv3_d; eauto.
  - eapply step_inv3_h1; eauto.
  - eapply step_inv3_h2; eauto.
  - eapply step_inv3_a; eauto.
  - eapply step_inv3_b; eauto.
  - eapply step_inv3_c; eauto.
  - intros t0 Hk. exact (proj1 (step_inv3_e _ _ _ _ I0 I1 I2 I3 H t0 Hk)).
  - intros t0 Hk. exact (proj2 (step_inv3_e _ _ _ _ I0 I1 I2 I3 H t0 Hk)).
  - eapply step_inv3_k; eauto.
Qed.

(* ------------------------------------------------------------------------------------------ *)
(* Tier 2c: what a receiver is completed with *)

Definition expected s k : res :=
  if is_caller_kind (kd s k) then match slot s k with Some RDone => RDone | _ => RValue end
  else match slot s k with Some r => r | None => RBad end.

Definition deliv_ok s k r := r = expected s k \/ (hs s = true /\ stopreq s k = true /\ r = RDone).

Record Inv4 (s : st) : Prop := {
  i4_d : forall k r, In r (delivered s k) -> deliv_ok s k r
}.

Lemma delivered_comp s k r : Inv2 s -> In r (delivered s k) -> ccomp s k = true.
Proof.
  intros I2 Hin. pose proof (i2_hop s I2 k) as Hh. unfold comp in Hh.
  destruct (delivered s k); [destruct Hin|]. simpl in Hh. destruct (ccomp s k); [reflexivity|simpl in Hh; lia].
Qed.

Lemma step_inv4 t s s' e : Inv0 s -> Inv1 s -> Inv2 s -> Inv3 s -> Inv4 s -> step t s = Some (s', e) -> Inv4 s'.
Proof.
  intros I0 I1 I2 I3 I4 H. constructor. begin_step H I0.
  all: intros k0 r0; pose proof (i4_d s I4 k0 r0) as Hd; pose proof (delivered_comp s k0 r0 I2) as Hdc;
       pose proof (i1_u s I1 k0) as Hu.
  all: unfold deliv_ok, expected in *; norm; try exact Hd.
  all: try (match goal with Hc : word_eqb (w ?s) ?v = true |- _ =>
         destruct (word_eqb_spec (w s) v) as [Hw|]; [|discriminate Hc] end).
  (* claims writing slot j of the party found in the word, or the own slot of an acceptor *)
  all: try (intros Hin; specialize (Hd Hin); specialize (Hdc Hin); unfold upd; case_eqb; [exfalso|exact Hd];
            first [ destruct (inw_acc s _ I1 I2 Hw) as (_ & _ & _ & Hcf & _); congruence
                  | match goal with Hst : stk _ _ = _ :: _, Hk : kd _ _ = _ |- _ =>
                      destruct (pre_facts s _ _ _ I1 I2 ltac:(rewrite Hk; reflexivity) Hst eq_refl) as (_ & _ & Hcf & _) end;
                    congruence ]).
  - (* MTc k c: k was not completed *)
    intros Hin. specialize (Hd Hin). specialize (Hdc Hin).
    destruct c; [|exact Hd]. unfold upd. destruct (Nat.eqb_spec k0 k) as [->|]; [congruence|exact Hd].
  - (* MHop *)
    unfold upd. destruct (Nat.eqb_spec k0 k) as [->|]; [|exact Hd].
    intros [<-|Hin]; [|exact (Hd Hin)].
    unfold hop_result. destruct (hs s); simpl; [|now left]. destruct (stopreq s k); simpl; [right; auto|now left].
  - (* MStopCas k succeeds: k was parked, not completed *)
    intros Hin. specialize (Hd Hin). specialize (Hdc Hin).
    destruct (is_caller_kind (kd s k)) eqn:Eck; [exact Hd|].
    unfold upd. destruct (Nat.eqb_spec k0 k) as [->|]; [exfalso|exact Hd].
    unfold word_of in Hw. rewrite Eck in Hw.
    destruct (inw_acc s _ I1 I2 Hw) as (_ & _ & _ & Hcf & _). congruence.
  - intros Hin. destruct (Hd Hin) as [Hx|(Hx & Hy & Hz)]; [now left|right].
    repeat split; auto. unfold upd. destruct (Nat.eqb k0 k); auto.
  - intros Hin. destruct (Hd Hin) as [Hx|(Hx & Hy & Hz)]; [now left|right].
    repeat split; auto. unfold upd. destruct (Nat.eqb k0 k); auto.
  - intros Hin. destruct (Hd Hin) as [Hx|(Hx & Hy & Hz)]; [now left|right].
    repeat split; auto. unfold upd. destruct (Nat.eqb k0 k); auto.
Qed.

(* ------------------------------------------------------------------------------------------ *)
(* Tier 3: cancellation and the start()/completion handshake *)

Definition psync s k := pend (isSync k) s.
Definition pcbor s k := pend (isCbOr k) s.
Definition pstop s k := pend (isStopCas k) s.
Definition init_stack : list mop := [MReg; MLoad; MSyncLoad].

Record Inv5 (s : st) : Prop := {
  i5_p1 : forall k, cnt isSL (stk s k) + cnt isSS (stk s k) >= 1 -> cstart s k = false;
  i5_y1 : forall k, ccomp s k = true -> cstart s k = false -> sync s k = true \/ psync s k >= 1;
  i5_y2 : forall k, cnt isSP (stk s k) >= 1 -> sync s k = true \/ psync s k >= 1;
  i5_q0 : forall k, party s k = true -> cb s k = CbNone -> cnt isReg (stk s k) = 0 -> stopreq s k = true;
  i5_q1 : forall k, cb s k = CbGone -> stopreq s k = true \/ ccomp s k = true;
  i5_q2 : forall k, party s k = true -> cnt isReg (stk s k) = 0 -> stopreq s k = true ->
            cstop s k = true \/ pcbor s k >= 1 \/ ccomp s k = true;
  i5_r0 : forall k, cnt isReg (stk s k) = 0 \/ stk s k = init_stack;
  i5_r1 : forall k, party s k = true -> cnt isLoop (stk s k) >= 1 -> cnt isSL (stk s k) >= 1;
  i5_s2 : forall k, inw s k = 1 -> cstop s k = true -> cstart s k = true -> pstop s k >= 1;
  i5_ip : forall k, inw s k = 1 -> cstart s k = false -> cnt isSL (stk s k) + cnt isSS (stk s k) >= 1
}.

(* continuations headed by a control micro-operation have nothing behind it *)
Ltac ctl_rest I0 :=
  try match goal with
  | Hst : stk ?s ?t = ?m :: ?rest |- _ =>
      lazymatch m with
      | MSyncLoad => idtac | MSetStarted => idtac | MSpinSync => idtac
      end;
      let Hr := fresh "Hr" in
      assert (rest = []) as Hr
        by (eapply wf_ctl_head; [rewrite <- Hst; apply (i0_wf s I0 t) | reflexivity]);
      subst rest
  end.

Ltac unf5 := unfold psync, pcbor, pstop, init_stack, holds, acc, ptcc, phop, pchain, pre, inw, ptc, comp, party,
                    pend, word_of, word_ok in *; norm.

Lemma step_inv5_p1 t s s' e : Inv0 s -> Inv5 s -> step t s = Some (s', e) ->
  forall k, cnt isSL (stk s' k) + cnt isSS (stk s' k) >= 1 -> cstart s' k = false.
Proof.
  intros I0 I5 H. begin_step H I0; ctl_rest I0.
  all: intros k0; pose proof (i5_p1 s I5 k0) as Hh; unf5; unfold upd; case_eqb; rw_st; simp_cnt;
       try exact Hh; try lia.
  all: kill_ifs_all; try lia; try (intros; apply Hh; lia).
Qed.

Ltac fin_or Hh :=
  try (intros; lia); try (intros; discriminate); try (intros; congruence);
  try (intros; destruct Hh; auto; (left; assumption) || (right; lia); fail).

Lemma step_inv5_y1 t s s' e : Inv0 s -> Inv5 s -> step t s = Some (s', e) ->
  forall k, ccomp s' k = true -> cstart s' k = false -> sync s' k = true \/ psync s' k >= 1.
Proof.
  intros I0 I5 H. begin_step H I0; ctl_rest I0.
  all: intros k0; pose proof (i5_y1 s I5 k0) as Hh; unf5; try exact Hh.
  all: pp2; unfold upd in *; case_eqb; rw_st; simp_cnt.
  all: intros Hc1 Hc2; try (specialize (Hh Hc1 Hc2)); try (destruct Hh as [Hh|Hh]; [left; exact Hh|right; lia]).
  all: rew_bools; try discriminate; kill_ifs_all; try discriminate; try congruence.
  all: try (right; lia); try (left; reflexivity).
  all: try (specialize (Hh Hc1 Hc2)); try (destruct Hh as [Hh|Hh]; [left; exact Hh|right; lia]).
Qed.

Lemma step_inv5_y2 t s s' e : Inv0 s -> Inv5 s -> step t s = Some (s', e) ->
  forall k, cnt isSP (stk s' k) >= 1 -> sync s' k = true \/ psync s' k >= 1.
Proof.
  intros I0 I5 H. begin_step H I0; ctl_rest I0.
  all: intros k0; pose proof (i5_y2 s I5 k0) as Hh; pose proof (i5_y1 s I5 k0) as Hy;
       pose proof (i5_p1 s I5 k0) as Hp1; unf5.
  all: pp2; unfold upd in *; case_eqb; rw_st; simp_cnt.
  all: intros Hc1; try (specialize (Hh Hc1)); try (destruct Hh as [Hh|Hh]; [left; exact Hh|right; lia]).
  all: try lia.
  all: rew_bools; try discriminate; kill_ifs_all; try discriminate; try congruence; try lia.
  all: try (right; lia); try (left; reflexivity).
  all: try (specialize (Hh ltac:(lia))); try (destruct Hh as [Hh|Hh]; [left; exact Hh|right; lia]).
  destruct (Hy eq_refl (Hp1 ltac:(lia))) as [Hy'|Hy']; [left; exact Hy'|right; lia].
Qed.

Lemma step_inv5_q0 t s s' e : Inv0 s -> Inv5 s -> step t s = Some (s', e) ->
  forall k, party s' k = true -> cb s' k = CbNone -> cnt isReg (stk s' k) = 0 -> stopreq s' k = true.
Proof.
  intros I0 I5 H. begin_step H I0; ctl_rest I0.
  all: intros k0; pose proof (i5_q0 s I5 k0) as Hh; unf5; try exact Hh.
  all: unfold upd in *; case_eqb; rw_st; simp_cnt; try exact Hh.
  all: intros Hc1 Hc2 Hc3; try discriminate; try reflexivity; try assumption; try lia.
  all: try (apply Hh; auto; lia).
  all: kill_ifs_all; try discriminate; try lia; try (apply Hh; auto; lia).
Qed.

Lemma step_inv5_q1 t s s' e : Inv0 s -> Inv2 s -> Inv5 s -> step t s = Some (s', e) ->
  forall k, cb s' k = CbGone -> stopreq s' k = true \/ ccomp s' k = true.
Proof.
  intros I0 I2 I5 H. begin_step H I0; ctl_rest I0.
  all: intros k0; pose proof (i5_q1 s I5 k0) as Hh; pose proof (i2_chain s I2 k0) as Hch;
       pose proof (pendf_upd (isChain k0) (nthr s) (stk s) t [] Hlt) as Hpc; unf5; try exact Hh.
  all: unfold upd in *; case_eqb; rw_st; simp_cnt; try exact Hh.
  all: intros Hc1; try discriminate; try (left; reflexivity); try (right; reflexivity).
  all: try (destruct (Hh Hc1); auto; fail).
  all: rewrite ?Nat.eqb_refl in *.
  all: try (destruct (ccomp s k) eqn:Ecc; [right; reflexivity|cbn [b2n] in Hch; specialize (Hch eq_refl); exfalso; lia]).
Qed.

Lemma step_inv5_q2 t s s' e : Inv0 s -> Inv5 s -> step t s = Some (s', e) ->
  forall k, party s' k = true -> cnt isReg (stk s' k) = 0 -> stopreq s' k = true ->
            cstop s' k = true \/ pcbor s' k >= 1 \/ ccomp s' k = true.
Proof.
  intros I0 I5 H. begin_step H I0; ctl_rest I0.
  all: intros k0; pose proof (i5_q2 s I5 k0) as Hh; pose proof (i5_q0 s I5 k0) as Hq0;
       pose proof (i5_q1 s I5 k0) as Hq1; unf5.
  all: pp2; unfold upd in *; case_eqb; rw_st; simp_cnt.
  all: intros Hc1 Hc2 Hc3.
  all: rewrite ?Nat.eqb_refl in *; case_eqb.
  all: try (left; reflexivity); try (right; right; reflexivity); try (right; left; lia).
  all: try (destruct (Hh Hc1 ltac:(lia) Hc3) as [Hx|[Hx|Hx]]; [left; exact Hx|right; left; lia|right; right; exact Hx]).
  all: try congruence.
  all: try (specialize (Hq0 Hc1 ltac:(assumption) ltac:(lia)); congruence).
  all: try (destruct (Hq1 ltac:(assumption)); [congruence| right; right; assumption]).
Qed.

Lemma step_inv5_r0 t s s' e : Inv0 s -> Inv5 s -> step t s = Some (s', e) ->
  forall k, cnt isReg (stk s' k) = 0 \/ stk s' k = init_stack.
Proof.
  intros I0 I5 H. begin_step H I0; ctl_rest I0.
  all: intros k0; pose proof (i5_r0 s I5 k0) as Hh; unf5; try exact Hh.
  all: unfold upd in *; case_eqb; rw_st; simp_cnt; try exact Hh.
  all: left; destruct Hh as [Hh|Hh]; try discriminate Hh; try (injection Hh as <-); simp_cnt; try lia.
  all: kill_ifs_all; try lia.
  all: injection Hh as ->; reflexivity.
Qed.

Lemma step_inv5_r1 t s s' e : Inv0 s -> Inv3 s -> Inv5 s -> step t s = Some (s', e) ->
  forall k, party s' k = true -> cnt isLoop (stk s' k) >= 1 -> cnt isSL (stk s' k) >= 1.
Proof.
  intros I0 I3 I5 H. begin_step H I0; ctl_rest I0.
  all: intros k0; pose proof (i5_r1 s I5 k0) as Hh; pose proof (i3_l s I3 k0) as Hl; unf5; try exact Hh.
  all: unfold upd in *; case_eqb; rw_st; simp_cnt; try exact Hh; try lia.
  all: intros Hc1 Hc2; try (specialize (Hh Hc1 ltac:(lia)); lia).
  all: kill_ifs_all; try lia; try (specialize (Hh Hc1 ltac:(lia)); lia).
Qed.

Lemma step_inv5_s2 t s s' e : Inv0 s -> Inv1 s -> Inv2 s -> Inv5 s -> step t s = Some (s', e) ->
  forall k, inw s' k = 1 -> cstop s' k = true -> cstart s' k = true -> pstop s' k >= 1.
Proof.
  intros I0 I1 I2 I5 H. begin_step H I0; ctl_rest I0.
  all: intros k0; pose proof (i5_s2 s I5 k0) as Hh; pose proof (i1_u s I1 k0) as Hu;
       pose proof (i5_p1 s I5 k0) as Hp1; pose proof (i5_r1 s I5 k0) as Hr1; pose proof (i1_w s I1) as Hw0.
  all: unf5; pp2; unfold upd in *; rw_st.
  all: intros Hc1 Hc2 Hc3; split_kind s k0.
  all: grind.
  all: try (rewrite (Hp1 ltac:(lia)) in Hc; discriminate Hc).
  all: match goal with Hst : stk _ _ = MCbOr ?k :: _ |- _ =>
         destruct (cstop s k) eqn:E1, (ccomp s k) eqn:E2 end; cbn [negb andb b2n] in *; try discriminate; try lia.
  all: specialize (Hh eq_refl eq_refl eq_refl); lia.
Qed.

Lemma step_inv5_ip t s s' e : Inv0 s -> Inv1 s -> Inv2 s -> Inv5 s -> step t s = Some (s', e) ->
  forall k, inw s' k = 1 -> cstart s' k = false -> cnt isSL (stk s' k) + cnt isSS (stk s' k) >= 1.
Proof.
  intros I0 I1 I2 I5 H. begin_step H I0; ctl_rest I0.
  all: intros k0; pose proof (i5_ip s I5 k0) as Hh; pose proof (i1_u s I1 k0) as Hu;
       pose proof (i2_sync s I2 k0) as Hsy; pose proof (i5_r1 s I5 k0) as Hr1; pose proof (i1_w s I1) as Hw0.
  all: unf5; unfold upd in *; rw_st.
  all: intros Hc1 Hc2; split_kind s k0.
  all: grind.
  all: rewrite (Hsy eq_refl) in Hu; cbn [b2n] in Hu; lia.
Qed.

Lemma step_inv5 t s s' e : Inv0 s -> Inv1 s -> Inv2 s -> Inv3 s -> Inv5 s -> step t s = Some (s', e) -> Inv5 s'.
Proof.
  intros I0 I1 I2 I3 I5 H. constructor.
  - eapply step_inv5_p1; eauto.
  - eapply step_inv5_y1; eauto.
  - eapply step_inv5_y2; eauto.
  - eapply step_inv5_q0; eauto.
  - eapply step_inv5_q1; eauto.
  - eapply step_inv5_q2; eauto.
  - eapply step_inv5_r0; eauto.
  - eapply step_inv5_r1; eauto.
  - eapply step_inv5_s2; eauto.
  - eapply step_inv5_ip; eauto.
Qed.

(* ------------------------------------------------------------------------------------------ *)
(* the invariants hold initially and along every schedule                                       *)

Definition Inv (s : st) : Prop := Inv0 s /\ Inv1 s /\ Inv2 s /\ Inv3 s /\ Inv4 s /\ Inv5 s.

Lemma inv_step t s s' e : Inv s -> step t s = Some (s', e) -> Inv s'.
Proof.
  intros (I0 & I1 & I2 & I3 & I4 & I5) H.
  split; [eapply step_inv0; eauto|].
  split; [eapply step_inv1; eauto|].
  split; [eapply step_inv2; eauto|].
  split; [eapply step_inv3; eauto|].
  split; [eapply step_inv4; eauto|].
  eapply step_inv5; eauto.
Qed.

Lemma pendf_zero p n f : (forall t, cnt p (f t) = 0) -> pendf p n f = 0.
Proof.
  intros H. unfold pendf. induction n; simpl; [reflexivity|]. rewrite IHn, H. reflexivity.
Qed.

Definition quiet (p : mop -> bool) : Prop := forall k, cnt p (start_stack k) = 0.
Lemma quiet_tc k : quiet (isTc k). Proof. intros []; reflexivity. Qed.
Lemma quiet_tcc k c : quiet (isTcc k c). Proof. intros []; reflexivity. Qed.
Lemma quiet_hop k : quiet (isHop k). Proof. intros []; reflexivity. Qed.
Lemma quiet_chain k : quiet (isChain k). Proof. intros []; reflexivity. Qed.
Lemma quiet_sync k : quiet (isSync k). Proof. intros []; reflexivity. Qed.
Lemma quiet_cbor k : quiet (isCbOr k). Proof. intros []; reflexivity. Qed.
Lemma quiet_stopcas k : quiet (isStopCas k). Proof. intros []; reflexivity. Qed.

Lemma pend_init p hsb prog : quiet p -> pend p (init hsb prog) = 0.
Proof. intros Hq. unfold pend. apply pendf_zero. intros t. simpl. apply Hq. Qed.

Lemma inv_init hsb prog : Inv (init hsb prog).
Proof.
  split; [|split; [|split; [|split; [|split]]]].
  - (* Inv0 *) constructor.
    + intros t Ht. simpl. rewrite nth_overflow by exact Ht. reflexivity.
    + intros t. simpl. destruct (nth t prog TNone); reflexivity.
    + intros t v. simpl. destruct (nth t prog TNone); simpl; intuition discriminate.
  - (* Inv1 *) constructor.
    + exact Logic.I.
    + intros k. unfold pre, inw, ptc, comp, party, word_of. rewrite pend_init by apply quiet_tc.
      simpl. destruct (nth k prog TNone); reflexivity.
  - (* Inv2 *) constructor.
    + intros k. unfold phop, comp. rewrite pend_init by apply quiet_hop. reflexivity.
    + intros k _. unfold pchain. apply pend_init, quiet_chain.
    + reflexivity.
    + intros k _. unfold ptc, comp. rewrite pend_init by apply quiet_tc. simpl. discriminate.
    + simpl. discriminate.
  - (* Inv3 *) constructor.
    + intros t k. simpl. destruct (nth t prog TNone); simpl; intuition discriminate.
    + intros t. simpl. destruct (nth t prog TNone); cbv; lia.
    + simpl. congruence.
    + simpl. discriminate.
    + intros x i [H|H]; simpl in H; discriminate.
    + simpl. discriminate.
    + simpl. congruence.
    + intros i _. unfold ptcc. rewrite pend_init by apply quiet_tcc. discriminate.
    + intros i _. unfold comp. simpl. discriminate.
    + simpl. congruence.
    + simpl. discriminate.
    + simpl. discriminate.
  - (* Inv4 *) constructor. intros k r [].
  - (* Inv5 *) constructor.
    + reflexivity.
    + simpl. discriminate.
    + intros k. simpl. destruct (nth k prog TNone); cbv; lia.
    + intros k. unfold party. simpl. destruct (nth k prog TNone); simpl; try discriminate; intros _ _ H; cbv in H; lia.
    + simpl. discriminate.
    + simpl. discriminate.
    + intros k. simpl. destruct (nth k prog TNone); simpl; auto.
    + intros k. unfold party. simpl. destruct (nth k prog TNone); simpl; try discriminate; intros; cbv; lia.
    + intros k. unfold inw, word_of. simpl. destruct (is_caller_kind (nth k prog TNone)); simpl; discriminate.
    + intros k. unfold inw, word_of. simpl. destruct (is_caller_kind (nth k prog TNone)); simpl; discriminate.
Qed.

Theorem inv_reachable hsb prog sched : Inv (fst (run step sched (init hsb prog, []))).
Proof.
  apply (run_invariant_state st nat ev step Inv).
  - intros s t s' e Hi Hs. eapply inv_step; eauto.
  - apply inv_init.
Qed.

(* ------------------------------------------------------------------------------------------ *)
(* consequences of the invariants (state level)                                                 *)

Lemma inv_each_once s k : Inv s -> length (delivered s k) <= 1.
Proof.
  intros (_ & _ & I2 & _). pose proof (i2_hop s I2 k) as H. unfold comp in H.
  destruct (ccomp s k); simpl in H; lia.
Qed.

(* consumer x received the payload of sender p: an accept completed with it, or try_accept returned it *)
Definition received s x p := In (payload_res s p) (delivered s x) \/ tres s x = Some (payload_res s p).

Lemma received_holds s x p : Inv s -> received s x p -> holds s x p.
Proof.
  intros (_ & _ & _ & I3 & I4 & _) [Hin|Ht]; [left|right; exact Ht].
  destruct (i4_d s I4 x _ Hin) as [He|(_ & _ & He)]; [|apply payload_not_done in He; contradiction].
  unfold expected in He. destruct (is_caller_kind (kd s x)) eqn:Ek.
  - destruct (slot s x) as [[]|]; exfalso;
      first [apply payload_not_done in He; contradiction | apply payload_not_value in He; contradiction].
  - destruct (slot s x) as [r|]; [congruence|]. unfold payload_res in He. destruct (kd s p); discriminate.
Qed.

Lemma inv_payload_unique s p x x' : Inv s -> received s x p -> received s x' p -> x = x'.
Proof.
  intros I H1 H2. pose proof (received_holds _ _ _ I H1) as A. pose proof (received_holds _ _ _ I H2) as B.
  destruct I as (_ & _ & _ & I3 & _).
  pose proof (i3_h1 s I3 _ _ A). pose proof (i3_h1 s I3 _ _ B). congruence.
Qed.

Lemma inv_one_payload s x p p' : Inv s ->
  In (payload_res s p) (delivered s x) -> In (payload_res s p') (delivered s x) -> p = p'.
Proof.
  intros I H1 H2. pose proof (inv_each_once s x I) as Hl.
  destruct (delivered s x) as [|a [|b l]]; simpl in *; try lia; try contradiction.
  destruct H1 as [H1|[]], H2 as [H2|[]]. apply (payload_inj s). congruence.
Qed.

Definition accepted s i := exists x, holds s x i.

Lemma inv_value_accepted s i : Inv s -> is_caller_kind (kd s i) = true ->
  In RValue (delivered s i) -> accepted s i.
Proof.
  intros (_ & _ & I2 & I3 & I4 & _) Hk Hin.
  pose proof (delivered_comp s i _ I2 Hin) as Hc.
  assert (slot s i = None) as Hs.
  { destruct (i4_d s I4 i _ Hin) as [He|(_ & _ & He)]; [|discriminate].
    unfold expected in He. rewrite Hk in He. destruct (slot s i) as [r|] eqn:Es; [|reflexivity].
    destruct (i3_d s I3 i r Hk Es) as [-> _]. discriminate. }
  assert (taken s i <> None) as Ht by (apply (i3_c s I3 i Hk); [unfold comp; now rewrite Hc|exact Hs]).
  destruct (taken s i) as [x|] eqn:Et; [|congruence]. exists x. apply (i3_h2 s I3). exact Et.
Qed.

Lemma inv_done_untouched s i : Inv s -> hs s = false -> is_caller_kind (kd s i) = true ->
  In RDone (delivered s i) -> ~ accepted s i.
Proof.
  intros (_ & _ & I2 & I3 & I4 & _) Hhs Hk Hin [x Hx].
  destruct (i4_d s I4 i _ Hin) as [He|(Hh & _)]; [|congruence].
  unfold expected in He. rewrite Hk in He.
  pose proof (i3_h1 s I3 _ _ Hx) as Ht.
  destruct (i3_a s I3 i Hk) as [_ Hs]; [congruence|]. rewrite Hs in He. discriminate.
Qed.

Lemma inv_acceptor_delivers_payload s x i r : Inv s -> hs s = false ->
  slot s x = Some (payload_res s i) -> In r (delivered s x) -> r = payload_res s i.
Proof.
  intros (_ & _ & _ & I3 & I4 & _) Hhs Hs Hin.
  destruct (i4_d s I4 x _ Hin) as [He|(Hh & _)]; [|congruence].
  unfold expected in He. rewrite Hs in He. destruct (is_caller_kind (kd s x)) eqn:Ek; [|exact He].
  destruct (i3_d s I3 x _ Ek Hs) as [Hd _]. apply payload_not_done in Hd. contradiction.
Qed.

(* an acceptor completed with done took no payload *)
Lemma inv_accept_done_took_nothing s j p : Inv s -> hs s = false -> kd s j = TAccept ->
  In RDone (delivered s j) -> slot s j <> Some (payload_res s p).
Proof.
  intros (_ & I1 & I2 & I3 & I4 & _) Hhs Hk Hin Hs.
  destruct (i4_d s I4 j _ Hin) as [He|(Hh & _)]; [|congruence].
  unfold expected in He. rewrite Hk, Hs in He. simpl in He. symmetry in He.
  apply payload_not_done in He. contradiction.
Qed.

(* whoever is in the word is a live, uncompleted, unserved waiter *)
Lemma inv_word_live s k : Inv s -> w s = word_of s k -> w s <> WIdle ->
  party s k = true /\ ccomp s k = false /\ delivered s k = [] /\ slot s k = None /\ stk s k <> init_stack.
Proof.
  intros (I0 & I1 & I2 & I3 & I4 & I5) Hw Hni.
  assert (ccomp s k = false /\ slot s k = None /\ party s k = true /\ cnt isLoop (stk s k) = 0) as (Hc & Hs & Hp & Hl).
  { unfold word_of in Hw. destruct (is_caller_kind (kd s k)) eqn:Ek.
    - destruct (inw_call s k I1 I2 Hw) as (Hk & Hs & _ & Hc & Hl). unfold party. rewrite (caller_party _ Hk). auto.
    - destruct (inw_acc s k I1 I2 Hw) as (Hk & Hs & _ & Hc & Hl). unfold party. rewrite Hk. auto. }
  repeat split; auto.
  - pose proof (i2_hop s I2 k) as Hh. unfold comp in Hh. rewrite Hc in Hh. simpl in Hh.
    destruct (delivered s k); [reflexivity|simpl in Hh; lia].
  - intros E. rewrite E in Hl. cbv in Hl. lia.
Qed.

Lemma inv_try_call s t : Inv s -> kd s t = TTryCall ->
  (tres s t = Some RValue -> exists j, holds s j t /\ (kd s j = TAccept \/ kd s j = TTryAccept)) /\
  (tres s t = Some RDone -> forall x, ~ holds s x t).
Proof.
  intros (_ & _ & _ & I3 & _) Hk. split.
  - intros Hr. pose proof (i3_e2 s I3 t Hk Hr) as Ht. destruct (taken s t) as [j|] eqn:Et; [|congruence].
    exists j. split; [apply (i3_h2 s I3); exact Et|apply (i3_k s I3 t j Et)].
  - intros Hr x Hx. pose proof (i3_h1 s I3 _ _ Hx) as Ht.
    pose proof (i3_e1 s I3 t Hk ltac:(congruence)). congruence.
Qed.

(* a caller whose payload a try_accept (or an accept) holds was claimed while waiting; it is never cancelled *)
Lemma inv_taken_caller s i x : Inv s -> is_caller_kind (kd s i) = true -> holds s x i ->
  slot s i = None /\ (ccomp s i = true \/ ptc s i >= 1) /\ (hs s = false -> ~ In RDone (delivered s i)).
Proof.
  intros I Hk Hx. pose proof I as (_ & I1 & I2 & I3 & I4 & _).
  pose proof (i3_h1 s I3 _ _ Hx) as Ht.
  destruct (i3_a s I3 i Hk ltac:(congruence)) as [Ha Hs].
  split; [exact Hs|split].
  - pose proof (ptcc_le s i false). unfold comp in Ha. destruct (ccomp s i); [now left|right]. simpl in Ha. lia.
  - intros Hhs Hin. apply (inv_done_untouched s i I Hhs Hk Hin). exists x. exact Hx.
Qed.

(* ------------------------------------------------------------------------------------------ *)
(* progress: a state in which some thread still has work is never stuck                         *)

Definition mop_is_spin (m : mop) : bool := match m with MSpinSync => true | _ => false end.

Lemma step_enabled s t m rest : aborted s = false -> stk s t = m :: rest ->
  (m = MSpinSync -> sync s t = true) -> step t s <> None.
Proof.
  intros Hab Hst Hsp. unfold step. rewrite Hab, Hst.
  destruct m; try discriminate.
  - destruct (stopreq s t); discriminate.
  - cbv zeta. destruct (negb (cstop s k) && cstart s k && negb (ccomp s k)); discriminate.
  - destruct (word_eqb (w s) v); discriminate.
  - cbv zeta. destruct (ccomp s k); discriminate.
  - destruct (sync s t); discriminate.
  - cbv zeta. destruct (cstop s t && negb (cstart s t) && negb (ccomp s t)); [discriminate|].
    destruct (ccomp s t); discriminate.
  - rewrite (Hsp eq_refl). discriminate.
  - cbv zeta. destruct (word_eqb (w s) (word_of s k)); discriminate.
  - cbv zeta. destruct (stopreq s k); [discriminate|]. destruct (cb s k); discriminate.
Qed.

Lemma inv_progress s : Inv s -> aborted s = false -> (exists t, stk s t <> []) -> exists t, step t s <> None.
Proof.
  intros (I0 & I1 & I2 & I3 & I4 & I5) Hab [t Ht].
  destruct (stk s t) as [|m rest] eqn:Hst; [congruence|].
  destruct (mop_is_spin m) eqn:Em.
  2: { exists t. eapply step_enabled; eauto. intros ->. discriminate. }
  destruct m; try discriminate. clear Em.
  destruct (sync s t) eqn:Esy.
  { exists t. eapply step_enabled; eauto. }
  pose proof (i5_y2 s I5 t) as Hy. rewrite Hst in Hy. rewrite cnt_cons in Hy. simpl in Hy.
  destruct (Hy ltac:(lia)) as [Hy'|Hy']; [congruence|].
  unfold psync, pend in Hy'. destruct (pendf_pos _ _ _ Hy') as (t' & m' & Hlt & Hin & Hm').
  destruct (stk s t') as [|m0 rest'] eqn:Hst'; [destruct Hin|].
  exists t'. eapply step_enabled; eauto. intros ->.
  pose proof (i0_wf s I0 t') as Hw. rewrite Hst' in Hw.
  assert (rest' = []) by (eapply wf_ctl_head; [exact Hw|reflexivity]). subst rest'.
  destruct Hin as [<-|[]]. discriminate Hm'.
Qed.

(* ------------------------------------------------------------------------------------------ *)
(* terminal states: every party completed exactly once, or is the (single) waiter in the word,
   and then nobody asked it to stop                                                             *)

Lemma inv_terminal s : Inv s -> (forall t, stk s t = []) ->
  forall k, party s k = true ->
    (length (delivered s k) = 1 /\ w s <> word_of s k) \/
    (w s = word_of s k /\ delivered s k = [] /\ stopreq s k = false).
Proof.
  intros (I0 & I1 & I2 & I3 & I4 & I5) Hall k Hp.
  assert (Hz : forall p, pend p s = 0) by (intros p; apply pendf_zero; intros t; rewrite Hall; reflexivity).
  pose proof (i1_u s I1 k) as Hu. pose proof (i2_hop s I2 k) as Hh.
  unfold pre, ptc, phop, inw, comp in *. rewrite Hp, !Hz, Hall in *. rewrite cnt_nil in Hu. simpl in Hu.
  destruct (word_eqb_spec (w s) (word_of s k)) as [Hw|Hw]; destruct (ccomp s k) eqn:Ec; simpl in *; try lia.
  - right. split; [exact Hw|]. split; [destruct (delivered s k); [reflexivity|simpl in Hh; lia]|].
    assert (Hin : inw s k = 1) by (unfold inw; destruct (word_eqb_spec (w s) (word_of s k)); [reflexivity|contradiction]).
    destruct (cstart s k) eqn:Est.
    2: { pose proof (i5_ip s I5 k Hin Est) as H. rewrite Hall, !cnt_nil in H. lia. }
    destruct (cstop s k) eqn:Esp.
    { pose proof (i5_s2 s I5 k Hin Esp Est) as H. unfold pstop in H. rewrite Hz in H. lia. }
    destruct (stopreq s k) eqn:Esr; [exfalso|reflexivity].
    destruct (i5_q2 s I5 k Hp ltac:(rewrite Hall; reflexivity) Esr) as [H|[H|H]]; try congruence.
    unfold pcbor in H. rewrite Hz in H. lia.
  - left. split; [lia|exact Hw].
Qed.

Lemma all_done_spec s : Inv s -> all_done s = true -> forall t, stk s t = [].
Proof.
  intros (I0 & _) Had t. destruct (Nat.lt_ge_cases t (nthr s)) as [Hlt|Hge]; [|apply (i0_out s I0 t Hge)].
  unfold all_done in Had. rewrite forallb_forall in Had.
  specialize (Had t ltac:(apply in_seq; lia)). unfold stack_empty in Had. destruct (stk s t); [reflexivity|discriminate].
Qed.

(* the word holds at most one waiter: a caller and an acceptor are never both left waiting *)
Lemma inv_rendezvous s i j : Inv s -> (forall t, stk s t = []) ->
  is_caller_kind (kd s i) = true -> kd s j = TAccept ->
  length (delivered s i) = 1 \/ length (delivered s j) = 1.
Proof.
  intros I Hall Hi Hj.
  destruct (inv_terminal s I Hall i) as [[H _]|(Hwi & _)]; [unfold party; now rewrite (caller_party _ Hi)|now left|].
  destruct (inv_terminal s I Hall j) as [[H _]|(Hwj & _)]; [unfold party; now rewrite Hj|now right|].
  exfalso. unfold word_of in *. rewrite Hi in Hwi. rewrite Hj in Hwj. simpl in Hwj. congruence.
Qed.

(* a party whose stop was requested is not left waiting *)
Lemma inv_stop_completes s k : Inv s -> (forall t, stk s t = []) -> party s k = true ->
  stopreq s k = true -> length (delivered s k) = 1.
Proof.
  intros I Hall Hp Hs. destruct (inv_terminal s I Hall k Hp) as [[H _]|(_ & _ & H)]; [exact H|congruence].
Qed.

(* an accepted call completes, and with value *)
Lemma inv_accepted_value s i : Inv s -> (forall t, stk s t = []) -> hs s = false ->
  is_caller_kind (kd s i) = true -> accepted s i -> delivered s i = [RValue].
Proof.
  intros I Hall Hhs Hk [x Hx]. pose proof I as (I0 & I1 & I2 & I3 & I4 & I5).
  destruct (inv_taken_caller s i x I Hk Hx) as (Hs & Hc & Hnd).
  destruct (inv_terminal s I Hall i) as [[Hl _]|(Hw & _)]; [unfold party; now rewrite (caller_party _ Hk)| |].
  - destruct (delivered s i) as [|r [|? ?]] eqn:Ed; simpl in Hl; try lia. f_equal.
    destruct (i4_d s I4 i r ltac:(rewrite Ed; now left)) as [He|(Hh & _)]; [|congruence].
    unfold expected in He. rewrite Hk, Hs in He. exact He.
  - exfalso. unfold word_of in Hw. rewrite Hk in Hw.
    destruct (inw_call s i I1 I2 Hw) as (_ & _ & Hp & Hcc & _).
    destruct Hc as [Hc|Hc]; [congruence|lia].
Qed.

(* ------------------------------------------------------------------------------------------ *)
(* the program does not change; std::terminate needs two callers or two acceptors              *)

Lemma step_const t s s' e : step t s = Some (s', e) -> kd s' = kd s /\ hs s' = hs s /\ nthr s' = nthr s.
Proof. intros H. step_cases H; repeat split; reflexivity. Qed.

Definition Const (hsb : bool) (prog : list tkind) (s : st) : Prop :=
  kd s = (fun t => nth t prog TNone) /\ hs s = hsb /\ nthr s = length prog.

Lemma const_reachable hsb prog sched : Const hsb prog (fst (run step sched (init hsb prog, []))).
Proof.
  apply (run_invariant_state st nat ev step (Const hsb prog)).
  - intros s t s' e (A & B & C) Hs. destruct (step_const _ _ _ _ Hs) as (A' & B' & C').
    unfold Const. rewrite A', B', C'. auto.
  - repeat split.
Qed.

Definition one_caller (s : st) := forall a b, is_caller_kind (kd s a) = true -> is_caller_kind (kd s b) = true -> a = b.
Definition one_acceptor (s : st) := forall a b, kd s a = TAccept -> kd s b = TAccept -> a = b.

Lemma step_no_abort t s s' e : Inv s -> one_caller s -> one_acceptor s ->
  step t s = Some (s', e) -> aborted s' = false.
Proof.
  intros (I0 & I1 & I2 & _) Hoc Hoa H. pose proof (i1_w s I1) as Hw0. unfold word_ok in Hw0.
  begin_step H I0; norm; try exact Hab.
  all: exfalso; destruct (kd s t) eqn:Ek; cbn [decide] in Hdec; destruct (w s) eqn:Ew; try discriminate Hdec.
  all: match goal with
       | Hx : is_caller_kind (kd _ ?i) = true |- _ =>
           assert (i = t) by (apply Hoc; [exact Hx|rewrite Ek; reflexivity]); subst i;
           destruct (inw_call s t I1 I2 Ew) as (_ & _ & _ & _ & Hl)
       | Hx : kd _ ?j = TAccept |- _ =>
           assert (j = t) by (apply Hoa; [exact Hx|exact Ek]); subst j;
           destruct (inw_acc s t I1 I2 Ew) as (_ & _ & _ & _ & Hl)
       end; rewrite Hst, cnt_cons in Hl; simpl in Hl; lia.
Qed.

Theorem no_abort hsb prog sched :
  let s := fst (run step sched (init hsb prog, [])) in
  one_caller (init hsb prog) -> one_acceptor (init hsb prog) -> aborted s = false.
Proof.
  intros s Hoc Hoa. subst s.
  assert (G : forall sched, let s := fst (run step sched (init hsb prog, [])) in aborted s = false).
  { clear sched. intros sched.
    apply (run_invariant_state st nat ev step
             (fun s => Inv s /\ Const hsb prog s /\ aborted s = false)).
    - intros s t s' e (I & C & A) Hs. split; [eapply inv_step; eauto|]. split.
      + destruct C as (A1 & B1 & C1). destruct (step_const _ _ _ _ Hs) as (A' & B' & C').
        unfold Const. rewrite A', B', C'. auto.
      + eapply step_no_abort; eauto.
        * intros a b. destruct C as (-> & _). apply Hoc.
        * intros a b. destruct C as (-> & _). apply Hoa.
    - split; [apply inv_init|]. split; [repeat split|reflexivity]. }
  apply G.
Qed.

(* a successful stop() touches nobody else: the word goes back to idle, the other parties' state is unchanged *)
Lemma stop_is_local t s s' e k rest : stk s t = MStopCas k :: rest -> aborted s = false ->
  w s = word_of s k -> step t s = Some (s', e) ->
  w s' = WIdle /\
  forall k', k' <> k -> slot s' k' = slot s k' /\ delivered s' k' = delivered s k' /\ ccomp s' k' = ccomp s k' /\
                        cstop s' k' = cstop s k' /\ cstart s' k' = cstart s k' /\ taken s' k' = taken s k' /\
                        tres s' k' = tres s k' /\ (k' <> t -> stk s' k' = stk s k').
Proof.
  intros Hst Hab Hw H. unfold step in H. rewrite Hab, Hst in H. cbv zeta in H.
  destruct (word_eqb_spec (w s) (word_of s k)); [|contradiction].
  injection H as <- _. norm. split; [reflexivity|]. intros k' Hne.
  repeat split; try reflexivity.
  - destruct (is_caller_kind (kd s k)); [reflexivity|]. now rewrite upd_other.
  - intros Hne'. now rewrite upd_other.
Qed.

(* slots belong to parties, try results to the others *)
Record Inv6 (s : st) : Prop := {
  i6_sp : forall x, slot s x <> None -> party s x = true;
  i6_tp : forall x, tres s x <> None -> party s x = false
}.

Lemma step_inv6 t s s' e : Inv s -> Inv6 s -> step t s = Some (s', e) -> Inv6 s'.
Proof.
  intros (I0 & I1 & I2 & I3 & _) I6 H. pose proof (i1_w s I1) as Hw0. unfold word_ok in Hw0.
  constructor; begin_step H I0.
  all: intros x0; pose proof (i6_sp s I6 x0) as Hs; pose proof (i6_tp s I6 x0) as Ht;
       unfold party in *; norm; try assumption.
  all: try (match goal with Hc : word_eqb (w ?s) ?v = true |- _ =>
         destruct (word_eqb_spec (w s) v) as [Hw|]; [|discriminate Hc] end; rewrite Hw in Hw0).
  all: unfold upd; case_eqb; try assumption; intros HH.
  all: try (rewrite Hk; reflexivity); try (rewrite Hw0; reflexivity); try (apply caller_party; assumption).
  all: try (destruct (kd s t) eqn:Ek; cbn [decide] in Hdec; try discriminate Hdec; try reflexivity; destruct (w s); discriminate Hdec).
  - destruct c; [|exact (Hs HH)].
    destruct (Nat.eqb_spec x0 k) as [->|]; [|exact (Hs HH)].
    apply caller_party. apply (i3_x s I3 t k). rewrite Hst. now left.
  - destruct (is_caller_kind (kd s k)) eqn:Eck; [exact (Hs HH)|].
    destruct (Nat.eqb_spec x0 k) as [->|]; [|exact (Hs HH)].
    unfold word_of in Hw0. rewrite Eck in Hw0. now rewrite Hw0.
Qed.

Lemma inv6_init hsb prog : Inv6 (init hsb prog).
Proof. constructor; simpl; congruence. Qed.

Definition InvAll (s : st) : Prop := Inv s /\ Inv6 s.

Theorem invall_reachable hsb prog sched : InvAll (fst (run step sched (init hsb prog, []))).
Proof.
  apply (run_invariant_state st nat ev step InvAll).
  - intros s t s' e [Hi H6] Hs. split; [eapply inv_step; eauto|eapply step_inv6; eauto].
  - split; [apply inv_init|apply inv6_init].
Qed.

(* at a terminal state with an unstoppable hop: a call completed with value iff some consumer
   (an accept that completed, or a try_accept that returned) received exactly its payload *)
Lemma inv_value_iff_received s i : InvAll s -> (forall t, stk s t = []) -> hs s = false ->
  is_caller_kind (kd s i) = true ->
  (delivered s i = [RValue] <-> exists x, received s x i).
Proof.
  intros [I I6] Hall Hhs Hk. pose proof I as (I0 & I1 & I2 & I3 & I4 & I5). split.
  - intros Hd. destruct (inv_value_accepted s i I Hk ltac:(rewrite Hd; now left)) as [x Hx].
    exists x. destruct Hx as [Hs|Ht]; [left|right; exact Ht].
    assert (Hp : party s x = true) by (apply (i6_sp s I6); congruence).
    destruct (inv_terminal s I Hall x Hp) as [[Hl _]|(Hw & _)].
    + destruct (delivered s x) as [|r [|? ?]] eqn:Ed; simpl in Hl; try lia.
      rewrite (inv_acceptor_delivers_payload s x i r I Hhs Hs ltac:(rewrite Ed; now left)). now left.
    + exfalso. assert (w s <> WIdle) by (rewrite Hw; unfold word_of; destruct (is_caller_kind (kd s x)); intro HH; discriminate HH).
      destruct (inv_word_live s x I Hw H) as (_ & _ & _ & Hn & _). congruence.
  - intros [x Hx]. apply (inv_accepted_value s i I Hall Hhs Hk). exists x. apply received_holds; assumption.
Qed.

(* ------------------------------------------------------------------------------------------ *)
(* the theorems, for all programs and all schedules                                             *)

Definition reach (hsb : bool) (prog : list tkind) (sched : list nat) : st :=
  fst (run step sched (init hsb prog, [])).

Lemma reach_hs hsb prog sched : hs (reach hsb prog sched) = hsb.
Proof. exact (proj1 (proj2 (const_reachable hsb prog sched))). Qed.

Lemma forallb_false {A} (f : A -> bool) l : forallb f l = false -> exists x, In x l /\ f x = false.
Proof.
  induction l as [|a l IH]; simpl; [discriminate|]. destruct (f a) eqn:E; simpl.
  - intros H. destruct (IH H) as [x [Hi Hf]]. exists x. auto.
  - intros _. exists a. auto.
Qed.

Theorem each_once : forall hsb prog sched k, length (delivered (reach hsb prog sched) k) <= 1.
Proof. intros. apply inv_each_once, inv_reachable. Qed.

Theorem payload_to_exactly_one : forall hsb prog sched, let s := reach hsb prog sched in
  (forall p x x', received s x p -> received s x' p -> x = x') /\
  (forall x p p', In (payload_res s p) (delivered s x) -> In (payload_res s p') (delivered s x) -> p = p') /\
  (forall x, length (delivered s x) <= 1).
Proof.
  intros hsb prog sched s. pose proof (inv_reachable hsb prog sched) as I. fold (reach hsb prog sched) in I.
  split; [|split].
  - intros p x x'. apply inv_payload_unique. exact I.
  - intros x p p'. apply inv_one_payload. exact I.
  - intros x. apply inv_each_once. exact I.
Qed.

Theorem call_value_iff_accepted : forall prog sched, let s := reach false prog sched in
  forall i, is_caller_kind (kd s i) = true ->
    (In RValue (delivered s i) -> accepted s i) /\
    (In RDone (delivered s i) -> ~ accepted s i) /\
    (forall x r, slot s x = Some (payload_res s i) -> In r (delivered s x) -> r = payload_res s i) /\
    (all_done s = true -> (delivered s i = [RValue] <-> exists x, received s x i)).
Proof.
  intros prog sched s i Hk. pose proof (invall_reachable false prog sched) as [I I6].
  fold (reach false prog sched) in I, I6. pose proof (reach_hs false prog sched) as Hhs.
  split; [|split; [|split]].
  - apply inv_value_accepted; assumption.
  - apply inv_done_untouched; assumption.
  - intros x r. apply inv_acceptor_delivers_payload; assumption.
  - intros Had. apply inv_value_iff_received; [split; assumption|apply all_done_spec; assumption|assumption|assumption].
Qed.

(* the tree as it is: the hop sees the final receiver's stop token *)
Theorem call_value_iff_accepted_refuted : exists prog sched, let s := reach true prog sched in
  is_caller_kind (kd s 0) = true /\ delivered s 0 = [RDone] /\ slot s 1 = Some (RGot 0) /\
  delivered s 1 = [RGot 0] /\ accepted s 0 /\ received s 1 0 /\ all_done s = true.
Proof.
  exists [TCall; TAccept; TStop 0], [2; 1;1;1;1;1; 0;0;0;0;0;0;0;0;0;0;0;0].
  vm_compute. repeat split; try reflexivity.
  - exists 1. left. reflexivity.
  - left. left. reflexivity.
Qed.

(* the same program and schedule with the hop made unstoppable *)
Theorem call_value_iff_accepted_fixed_witness :
  let s := reach false [TCall; TAccept; TStop 0] [2; 1;1;1;1;1; 0;0;0;0;0;0;0;0;0;0;0;0] in
  delivered s 0 = [RValue] /\ delivered s 1 = [RGot 0] /\ all_done s = true.
Proof. vm_compute. repeat split; reflexivity. Qed.

Theorem cancel_leaves_other_waiting : forall prog sched, let s := reach false prog sched in
  (forall i, is_caller_kind (kd s i) = true -> In RDone (delivered s i) -> ~ accepted s i) /\
  (forall j p, kd s j = TAccept -> In RDone (delivered s j) -> slot s j <> Some (payload_res s p)) /\
  (forall k, w s = word_of s k -> w s <> WIdle ->
     party s k = true /\ ccomp s k = false /\ delivered s k = [] /\ slot s k = None /\ stk s k <> init_stack) /\
  (all_done s = true -> forall k, party s k = true -> stopreq s k = true -> length (delivered s k) = 1).
Proof.
  intros prog sched s. pose proof (inv_reachable false prog sched) as I. fold (reach false prog sched) in I.
  pose proof (reach_hs false prog sched) as Hhs.
  split; [|split; [|split]].
  - intros i. apply inv_done_untouched; assumption.
  - intros j p. apply inv_accept_done_took_nothing; assumption.
  - intros k. apply inv_word_live; assumption.
  - intros Had k. apply inv_stop_completes; [assumption|apply all_done_spec; assumption].
Qed.

Theorem try_only_if_counterpart_waiting : forall hsb prog sched, let s := reach hsb prog sched in
  (forall t, kd s t = TTryCall ->
     (tres s t = Some RValue -> exists j, holds s j t /\ (kd s j = TAccept \/ kd s j = TTryAccept)) /\
     (tres s t = Some RDone -> forall x, ~ holds s x t)) /\
  (forall t i, is_caller_kind (kd s i) = true -> tres s t = Some (payload_res s i) ->
     slot s i = None /\ (ccomp s i = true \/ ptc s i >= 1) /\ (hs s = false -> ~ In RDone (delivered s i))).
Proof.
  intros hsb prog sched s. pose proof (inv_reachable hsb prog sched) as I. fold (reach hsb prog sched) in I.
  split.
  - intros t. apply inv_try_call. exact I.
  - intros t i Hk Ht. apply (inv_taken_caller s i t I Hk). right. exact Ht.
Qed.

Theorem no_deadlock : forall hsb prog sched, let s := reach hsb prog sched in
  aborted s = false -> all_done s = false -> exists t, step t s <> None.
Proof.
  intros hsb prog sched s Hab Had. apply inv_progress; [apply inv_reachable|exact Hab|].
  unfold all_done in Had. destruct (forallb_false _ _ Had) as [t [_ Ht]]. exists t.
  unfold stack_empty in Ht. destruct (stk s t); [discriminate|discriminate].
Qed.

Theorem terminal_states : forall hsb prog sched, let s := reach hsb prog sched in
  all_done s = true ->
  (forall k, party s k = true ->
     (length (delivered s k) = 1 /\ w s <> word_of s k) \/
     (w s = word_of s k /\ delivered s k = [] /\ stopreq s k = false)) /\
  (forall i j, is_caller_kind (kd s i) = true -> kd s j = TAccept ->
     length (delivered s i) = 1 \/ length (delivered s j) = 1).
Proof.
  intros hsb prog sched s Had. pose proof (inv_reachable hsb prog sched) as I. fold (reach hsb prog sched) in I.
  pose proof (all_done_spec s I Had) as Hall. split.
  - apply inv_terminal; assumption.
  - intros i j. apply inv_rendezvous; assumption.
Qed.

Theorem never_terminates_if_one_each : forall hsb prog sched,
  one_caller (init hsb prog) -> one_acceptor (init hsb prog) -> aborted (reach hsb prog sched) = false.
Proof. intros hsb prog sched. apply no_abort. Qed.
