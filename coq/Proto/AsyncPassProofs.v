(* Proofs about the AsyncPass model (AsyncPassDefs.v): invariants per step, lifted to all schedules. *)
From Coq Require Import List Bool Arith Lia.
From V Require Import Base.Sched Proto.AsyncPassDefs.
Import ListNotations.
Import AsyncPass.

(* ------------------------------------------------------------------------------------------ *)
(* function update, sums over thread ids, counting micro-operations in continuations           *)

Lemma upd_same {A} (f : nat -> A) k v : upd f k v k = v.
Proof. unfold upd. now rewrite Nat.eqb_refl. Qed.
Lemma upd_other {A} (f : nat -> A) k v x : x <> k -> upd f k v x = f x.
Proof. unfold upd. intros. destruct (Nat.eqb_spec x k); congruence. Qed.

Fixpoint total (n : nat) (f : nat -> nat) : nat :=
  match n with 0 => 0 | S m => total m f + f m end.

Lemma total_ext n f g : (forall t, t < n -> f t = g t) -> total n f = total n g.
Proof.
  induction n; simpl; intros H; [reflexivity|].
  rewrite IHn, H; auto.
Qed.

Lemma total_upd n (f : nat -> nat) t v : t < n -> total n (upd f t v) + f t = total n f + v.
Proof.
  induction n; intros Ht; [lia|]. simpl.
  destruct (Nat.eq_dec t n) as [->|Hne].
  - rewrite upd_same.
    rewrite (total_ext n (upd f n v) f); [lia|].
    intros x Hx. apply upd_other. lia.
  - rewrite (upd_other f t v n) by congruence.
    assert (t < n) by lia. specialize (IHn H). lia.
Qed.

Lemma total_pos n f : total n f > 0 -> exists t, t < n /\ f t > 0.
Proof.
  induction n; simpl; intros H; [lia|].
  destruct (f n) eqn:E.
  - destruct IHn as [t [Ht Hf]]; [lia|]. exists t. split; [lia|exact Hf].
  - exists n. split; [lia|]. lia.
Qed.

Lemma total_ge n f t : t < n -> f t <= total n f.
Proof.
  induction n; intros Ht; [lia|]. simpl.
  destruct (Nat.eq_dec t n) as [->|Hne]; [lia|].
  assert (t < n) by lia. specialize (IHn H). lia.
Qed.

Definition cnt (p : mop -> bool) (l : list mop) : nat := length (filter p l).

Lemma cnt_nil p : cnt p [] = 0. Proof. reflexivity. Qed.
Lemma cnt_cons p x l : cnt p (x :: l) = (if p x then 1 else 0) + cnt p l.
Proof. unfold cnt. simpl. destruct (p x); reflexivity. Qed.
Lemma cnt_app p a b : cnt p (a ++ b) = cnt p a + cnt p b.
Proof. unfold cnt. rewrite filter_app, app_length. reflexivity. Qed.
Lemma cnt_pos_in p l : cnt p l > 0 -> exists m, In m l /\ p m = true.
Proof.
  induction l as [|x l IH]; [rewrite cnt_nil; lia|].
  rewrite cnt_cons. destruct (p x) eqn:E; intros H.
  - exists x. split; [now left|exact E].
  - destruct IH as [m [Hi Hp]]; [lia|]. exists m. split; [now right|exact Hp].
Qed.
Lemma cnt_in_pos p l m : In m l -> p m = true -> cnt p l > 0.
Proof.
  induction l as [|x l IH]; [intros []|]. intros [->|Hi] Hp; rewrite cnt_cons.
  - rewrite Hp. lia.
  - specialize (IH Hi Hp). lia.
Qed.

Definition pendf (p : mop -> bool) (n : nat) (f : nat -> list mop) : nat :=
  total n (fun x => cnt p (f x)).

Lemma pendf_upd p n f t L : t < n -> pendf p n (upd f t L) + cnt p (f t) = pendf p n f + cnt p L.
Proof.
  intros Ht. unfold pendf.
  rewrite (total_ext n (fun x => cnt p (upd f t L x)) (upd (fun x => cnt p (f x)) t (cnt p L))).
  - apply (total_upd n (fun x => cnt p (f x)) t (cnt p L) Ht).
  - intros x _. unfold upd. destruct (Nat.eqb x t); reflexivity.
Qed.

Lemma pendf_pos p n f : pendf p n f > 0 -> exists t m, t < n /\ In m (f t) /\ p m = true.
Proof.
  intros H. apply total_pos in H. destruct H as [t [Ht Hc]].
  apply cnt_pos_in in Hc. destruct Hc as [m [Hi Hp]]. exists t, m. auto.
Qed.

Lemma pendf_in p n f t m : t < n -> In m (f t) -> p m = true -> pendf p n f > 0.
Proof.
  intros Ht Hi Hp. pose proof (cnt_in_pos p _ _ Hi Hp).
  pose proof (total_ge n (fun x => cnt p (f x)) t Ht). simpl in H0. unfold pendf. lia.
Qed.

Definition pend (p : mop -> bool) (s : st) : nat := pendf p (nthr s) (stk s).
Arguments cnt : simpl never.
Arguments pendf : simpl never.

(* the micro-operations we count *)
Definition isTc k m := match m with MTc j _ => Nat.eqb j k | _ => false end.
Definition isTcc k c m := match m with MTc j c' => Nat.eqb j k && Bool.eqb c' c | _ => false end.
Definition isHop k m := match m with MHop j => Nat.eqb j k | _ => false end.
Definition isSync k m := match m with MSync j => Nat.eqb j k | _ => false end.
Definition isDereg k m := match m with MDereg j => Nat.eqb j k | _ => false end.
Definition isCbOr k m := match m with MCbOr j => Nat.eqb j k | _ => false end.
Definition isStopCas k m := match m with MStopCas j => Nat.eqb j k | _ => false end.
Definition isChain k m := match m with MSync j | MDereg j | MHop j => Nat.eqb j k | _ => false end.
Definition isLoop m := match m with MLoad | MCas _ => true | _ => false end.
Definition isReg m := match m with MReg => true | _ => false end.
Definition isSL m := match m with MSyncLoad => true | _ => false end.
Definition isSS m := match m with MSetStarted => true | _ => false end.
Definition isSP m := match m with MSpinSync => true | _ => false end.
Definition isCtl m := match m with MSyncLoad | MSetStarted | MSpinSync => true | _ => false end.

Lemma word_eqb_spec a b : reflect (a = b) (word_eqb a b).
Proof.
  destruct a, b; simpl; try (constructor; congruence).
  - destruct (Nat.eqb_spec i i0); constructor; congruence.
  - destruct (Nat.eqb_spec j j0); constructor; congruence.
Qed.

(* ------------------------------------------------------------------------------------------ *)
(* Tier 0: shape of the continuations                                                          *)

Fixpoint wf (l : list mop) : bool :=
  match l with
  | [] => true
  | m :: r => match r with [] => true | _ => negb (isCtl m) && wf r end
  end.

Lemma wf_tail m r : wf (m :: r) = true -> wf r = true.
Proof. simpl. destruct r; [reflexivity|]. intros H. apply andb_prop in H. tauto. Qed.

Lemma wf_ctl_head m r : wf (m :: r) = true -> isCtl m = true -> r = [].
Proof.
  simpl. destruct r; [reflexivity|]. intros H Hc. rewrite Hc in H. discriminate.
Qed.

Lemma wf_push new rest : forallb (fun m => negb (isCtl m)) new = true -> wf rest = true -> wf (new ++ rest) = true.
Proof.
  induction new as [|x new IH]; simpl; intros Hn Hr; [exact Hr|].
  apply andb_prop in Hn. destruct Hn as [Hx Hn]. specialize (IH Hn Hr).
  destruct (new ++ rest); [reflexivity|]. rewrite Hx, IH. reflexivity.
Qed.

Record Inv0 (s : st) : Prop := {
  i0_out : forall t, nthr s <= t -> stk s t = [];
  i0_wf : forall t, wf (stk s t) = true;
  i0_cas : forall t v, In (MCas v) (stk s t) -> decide (kd s t) v = DCas
}.

(* case analysis of one step: one goal per branch of [step], with the new state explicit *)
Ltac branch_ifs H :=
  repeat match type of H with
  | (if ?c then _ else _) = Some _ => let E := fresh "Hc" in destruct c eqn:E
  | match cb ?s ?k with _ => _ end = Some _ => let E := fresh "Hcb" in destruct (cb s k) eqn:E
  end.

Ltac step_cases H :=
  unfold step in H;
  match type of H with context[aborted ?s] => destruct (aborted s) eqn:Hab; [discriminate H|] end;
  let m := fresh "m" in let rest := fresh "rest" in
  match type of H with context[stk ?s ?t] => destruct (stk s t) as [|m rest] eqn:Hst; [discriminate H|] end;
  destruct m;
  [ (* MReg *) branch_ifs H
  | (* MCbOr *) cbv zeta in H; branch_ifs H
  | (* MLoad *) unfold after_obs in H;
      match type of H with context[decide ?k ?v] => destruct (decide k v) eqn:Hdec end
  | (* MCas *) branch_ifs H;
      [ unfold cas_ok in H;
        match type of H with context[kd ?s ?t] => destruct (kd s t) eqn:Hk end;
        match goal with HH : stk _ _ = MCas ?v :: _ |- _ => destruct v end
      | unfold after_obs in H;
        match type of H with context[decide ?k ?v] => destruct (decide k v) eqn:Hdec end ]
  | (* MTc *) cbv zeta in H; branch_ifs H
  | (* MSync *) idtac
  | (* MDereg *) idtac
  | (* MHop *) cbv zeta in H
  | (* MSyncLoad *) branch_ifs H
  | (* MSetStarted *) cbv zeta in H; branch_ifs H
  | (* MSpinSync *) branch_ifs H; [|discriminate H]
  | (* MStopCas *) cbv zeta in H; branch_ifs H
  | (* MSet *) cbv zeta in H; branch_ifs H
  | (* MRet *) idtac ];
  inversion H; subst; clear H.

Lemma wf_cons x r : isCtl x = false -> wf r = true -> wf (x :: r) = true.
Proof. intros Hx Hr. simpl. destruct r; [reflexivity|]. rewrite Hx, Hr. reflexivity. Qed.

Lemma stk_lt s t m rest : Inv0 s -> stk s t = m :: rest -> t < nthr s.
Proof.
  intros I Hst. destruct (Nat.lt_ge_cases t (nthr s)) as [H|H]; [exact H|].
  rewrite (i0_out s I t H) in Hst. discriminate.
Qed.

Lemma inv0_push s t m rest L s' : Inv0 s -> stk s t = m :: rest ->
  nthr s' = nthr s -> kd s' = kd s -> stk s' = upd (stk s) t L -> wf L = true ->
  (forall v, In (MCas v) L -> In (MCas v) rest \/ decide (kd s t) v = DCas) -> Inv0 s'.
Proof.
  intros I Hst Hn Hk Hs Hw Hc. pose proof (stk_lt _ _ _ _ I Hst) as Hlt.
  constructor.
  - intros t0 H0. rewrite Hs, Hn in *. rewrite upd_other by lia. apply (i0_out s I). exact H0.
  - intros t0. rewrite Hs. destruct (Nat.eq_dec t0 t) as [->|Hne].
    + rewrite upd_same. exact Hw.
    + rewrite upd_other by exact Hne. apply (i0_wf s I).
  - intros t0 v. rewrite Hs, Hk. destruct (Nat.eq_dec t0 t) as [->|Hne].
    + rewrite upd_same. intros Hin. destruct (Hc v Hin) as [Hr|Hd]; [|exact Hd].
      apply (i0_cas s I t v). rewrite Hst. now right.
    + rewrite upd_other by exact Hne. apply (i0_cas s I).
Qed.

Ltac kill_ifs :=
  repeat match goal with
  | |- context[if ?c then _ else _] => destruct c
  | |- context[match cb ?s ?k with _ => _ end] => destruct (cb s k)
  end.

Lemma step_inv0 t s s' e : Inv0 s -> step t s = Some (s', e) -> Inv0 s'.
Proof.
  intros I H. step_cases H.
  7: { destruct I; constructor; assumption. }
  all: try (match goal with |- Inv0 (set_aborted true _) => destruct I; constructor; assumption end).
  all: pose proof (i0_wf s I t) as Hw; rewrite Hst in Hw.
  all: eapply inv0_push; [exact I | exact Hst | reflexivity | reflexivity | reflexivity | | ].
  all: try (kill_ifs; simpl app;
            first [ assert (rest = []) by (eapply wf_ctl_head; [exact Hw | reflexivity]); subst; reflexivity
                  | repeat (apply wf_cons; [reflexivity|]); exact (wf_tail _ _ Hw) ]).
  all: try (kill_ifs; intros v0 Hin; simpl in Hin;
            repeat match goal with H : _ \/ _ |- _ => destruct H end;
            try discriminate; try (left; assumption); try contradiction;
            match goal with H : MCas _ = MCas _ |- _ => injection H as <-; right; assumption end).
Qed.

(* ------------------------------------------------------------------------------------------ *)
(* Tier 1: every party is in exactly one phase: before/in its loop, parked in the word,
   being completed (a try_complete pending), completed                                         *)

Ltac norm := cbn [hs nthr kd w aborted stk cstop cstart ccomp sync stopreq cb slot delivered tres taken
                  set_w set_aborted set_stk set_cstop set_cstart set_ccomp set_sync set_stopreq
                  set_cb set_slot set_delivered set_tres set_taken push fill] in *.

Definition b2n (b : bool) : nat := if b then 1 else 0.
Definition party s k := is_party_kind (kd s k).
Definition pre s k := if party s k then cnt isLoop (stk s k) else 0.
Definition inw s k := b2n (word_eqb (w s) (word_of s k)).
Definition ptc s k := pend (isTc k) s.
Definition comp s k := b2n (ccomp s k).

Definition word_ok (s : st) : Prop :=
  match w s with
  | WIdle => True
  | WCaller i => is_caller_kind (kd s i) = true
  | WAcceptor j => kd s j = TAccept
  end.

Record Inv1 (s : st) : Prop := {
  i1_w : word_ok s;
  i1_u : forall k, pre s k + inw s k + ptc s k + comp s k = b2n (party s k)
}.

(* bring the counting equation for every counted predicate occurring in the goal *)
Ltac pose_pend Hlt :=
  repeat match goal with
  | |- context[pendf ?p ?n (upd ?f ?t ?L)] =>
      let H := fresh "Hp" in let x := fresh "pn" in
      pose proof (pendf_upd p n f t L Hlt) as H;
      remember (pendf p n (upd f t L)) as x
  end.

Ltac case_eqb :=
  repeat match goal with
  | |- context[Nat.eqb ?a ?b] => destruct (Nat.eqb_spec a b); subst
  | H : context[Nat.eqb ?a ?b] |- _ => destruct (Nat.eqb_spec a b); subst
  end.

Ltac simp_cnt :=
  repeat rewrite ?cnt_cons, ?cnt_app, ?cnt_nil in *;
  cbn [isTc isTcc isHop isSync isDereg isCbOr isStopCas isChain isLoop isReg isSL isSS isSP b2n
       orb andb negb Bool.eqb] in *.

Lemma caller_party k : is_caller_kind k = true -> is_party_kind k = true.
Proof. destruct k; simpl; congruence. Qed.

Ltac kinds :=
  repeat match goal with
  | H : kd ?s ?k = _ |- _ => rewrite H in *
  end;
  cbn [is_party_kind is_caller_kind] in *.

Ltac kinds2 :=
  repeat match goal with
  | |- context[is_party_kind (kd ?s ?k)] =>
      pose proof (caller_party (kd s k)); destruct (is_party_kind (kd s k))
  | H : context[is_party_kind (kd ?s ?k)] |- _ =>
      pose proof (caller_party (kd s k)); destruct (is_party_kind (kd s k))
  | |- context[is_caller_kind (kd ?s ?k)] => destruct (is_caller_kind (kd s k))
  | H : context[is_caller_kind (kd ?s ?k)] |- _ => destruct (is_caller_kind (kd s k))
  end; cbn [b2n word_eqb] in *; case_eqb.

Ltac rew_bools :=
  repeat match goal with
  | H : ?x = true |- _ => lazymatch x with true => fail | false => fail | _ => rewrite H in * end
  | H : ?x = false |- _ => lazymatch x with true => fail | false => fail | _ => rewrite H in * end
  end.

Ltac kill_ifs_all :=
  repeat (case_eqb; simp_cnt;
  match goal with
  | |- context[if ?c then _ else _] => destruct c eqn:?
  | |- context[match cb ?s ?k with _ => _ end] => destruct (cb s k) eqn:?
  | H : context[if ?c then _ else _] |- _ => destruct c eqn:?
  | H : context[match cb ?s ?k with _ => _ end] |- _ => destruct (cb s k) eqn:?
  end); case_eqb; simp_cnt.

Ltac case_weqb :=
  repeat match goal with
  | |- context[word_eqb ?a ?b] => destruct (word_eqb_spec a b)
  | H : context[word_eqb ?a ?b] |- _ => destruct (word_eqb_spec a b)
  end.

Ltac rw_st := try match goal with HH : stk _ _ = _ :: _ |- _ => rewrite ?HH in * end.
Ltac clear_pn := repeat match goal with HH : _ = pendf _ _ _ |- _ => clear HH end.
Ltac split_decide :=
  try (match goal with Hd : decide (kd ?s ?t) _ = _ |- _ =>
         let Hk := fresh "Hk" in destruct (kd s t) eqn:Hk; cbn [decide] in Hd; try discriminate Hd end).
Ltac split_w :=
  try (match goal with
       | |- context[w ?s] => destruct (w s) eqn:?
       | H : context[w ?s] |- _ => destruct (w s) eqn:?
       end); cbn [word_eqb] in *.
(* the kind of party k0, keeping the equations (they survive later substitutions) *)
Ltac split_kind s k0 :=
  let Hcp := fresh "Hcp" in let Ecq := fresh "Ecq" in let Epq := fresh "Epq" in
  pose proof (caller_party (kd s k0)) as Hcp;
  destruct (is_caller_kind (kd s k0)) eqn:Ecq; destruct (is_party_kind (kd s k0)) eqn:Epq;
  try (discriminate (Hcp eq_refl)); clear Hcp.
Ltac grind :=
  split_w; case_eqb; rw_st; simp_cnt; split_decide;
  kinds; try discriminate; try congruence; try lia;
  case_eqb; kinds; try discriminate; try congruence; try lia;
  rew_bools; cbn [b2n] in *; try lia;
  kill_ifs_all; simp_cnt; try lia;
  cbn [word_eqb] in *; case_eqb; kinds; rew_bools; try discriminate; try congruence; try lia.

Lemma step_inv1 t s s' e : Inv0 s -> Inv1 s -> step t s = Some (s', e) -> Inv1 s'.
Proof.
  intros I0 I H. step_cases H.
  all: pose proof (stk_lt _ _ _ _ I0 Hst) as Hlt.
  all: try (exfalso; pose proof (i0_cas s I0 t _ ltac:(rewrite Hst; left; reflexivity)) as Hd;
            rewrite Hk in Hd; simpl in Hd; discriminate Hd).
  all: constructor.
  all: try (first [ exact (i1_w s I)
                  | unfold word_ok; norm; first [exact Logic.I | rewrite Hk; reflexivity | exact Hk] ]).
  all: intro k0; pose proof (i1_u s I k0) as Hu; pose proof (i1_w s I) as Hw0;
       unfold pre, inw, ptc, comp, party, pend, word_of, word_ok in *; norm;
       pose_pend Hlt; unfold upd in *; rewrite ?Hst in *.
  all: try clear Heqpn.
  all: pose proof (caller_party (kd s k0)) as Hcp;
       destruct (is_caller_kind (kd s k0)) eqn:Ecq; destruct (is_party_kind (kd s k0)) eqn:Epq;
       try (discriminate (Hcp eq_refl)); clear Hcp.
  all: try (destruct (w s) eqn:Ew); cbn [word_eqb] in *.
  all: case_eqb; rewrite ?Hst in *; simp_cnt.
  all: try (match goal with Hd : decide (kd ?s ?t) _ = _ |- _ =>
                   destruct (kd s t) eqn:Hk; cbn [decide] in Hd; try discriminate Hd end).
  all: kinds; try discriminate; try congruence.
  all: try lia.
  all: case_eqb; kinds; try discriminate; try congruence; try lia.
  all: rew_bools; cbn [b2n] in *; try lia.
  all: kill_ifs_all; simp_cnt; try lia.
  all: cbn [word_eqb] in *; case_eqb; kinds; rew_bools; try discriminate; try congruence; try lia.
Qed.

(* ------------------------------------------------------------------------------------------ *)
(* Tier 2: completion chains, deliveries, slots                                                *)

Definition phop s k := pend (isHop k) s.
Definition pchain s k := pend (isChain k) s.

Record Inv2 (s : st) : Prop := {
  i2_hop : forall k, phop s k + length (delivered s k) = comp s k;
  i2_chain : forall k, comp s k = 0 -> pchain s k = 0;
  i2_slot0 : forall k, pre s k + inw s k = 1 -> slot s k = None;
  i2_slot1 : forall k, kd s k = TAccept -> ptc s k + comp s k = 1 -> slot s k <> None;
  i2_sync : forall k, sync s k = true -> ccomp s k = true
}.

Ltac begin_step H I0 :=
  step_cases H;
  (match goal with Hst : stk ?s ?t = _ :: _ |- _ =>
     let Hlt := fresh "Hlt" in pose proof (stk_lt _ _ _ _ I0 Hst) as Hlt end);
  try (exfalso;
       match goal with Hst : stk ?s ?t = MCas ?v :: _, Hk : kd ?s ?t = _ |- _ =>
         let Hd := fresh in
         pose proof (i0_cas s I0 t v ltac:(rewrite Hst; left; reflexivity)) as Hd;
         rewrite Hk in Hd; simpl in Hd; discriminate Hd end).

Ltac unf := unfold phop, pchain, pre, inw, ptc, comp, party, pend, word_of, word_ok in *; norm.
Ltac pp := match goal with Hlt : _ < nthr _ |- _ => pose_pend Hlt end; unfold upd in *; rw_st; clear_pn.
Ltac go := case_eqb; rw_st; simp_cnt; try lia; rew_bools; cbn [b2n] in *; try lia;
           kill_ifs_all; cbn [length] in *; try lia.

Lemma step_inv2_hop t s s' e : Inv0 s -> Inv1 s -> Inv2 s -> step t s = Some (s', e) ->
  forall k, phop s' k + length (delivered s' k) = comp s' k.
Proof.
  intros I0 I1 I2 H. begin_step H I0.
  all: intro k0; pose proof (i2_hop s I2 k0) as Hh; pose proof (i1_u s I1 k0) as Hu.
  all: unf; pp; go.
Qed.

Lemma step_inv2_chain t s s' e : Inv0 s -> Inv1 s -> Inv2 s -> step t s = Some (s', e) ->
  forall k, comp s' k = 0 -> pchain s' k = 0.
Proof.
  intros I0 I1 I2 H. begin_step H I0.
  all: intro k0; pose proof (i2_chain s I2 k0) as Hh; pose proof (i1_u s I1 k0) as Hu.
  all: unf; pp; go.
Qed.

Lemma step_inv2_slot0 t s s' e : Inv0 s -> Inv1 s -> Inv2 s -> step t s = Some (s', e) ->
  forall k, pre s' k + inw s' k = 1 -> slot s' k = None.
Proof.
  intros I0 I1 I2 H. pose proof (step_inv1 _ _ _ _ I0 I1 H) as I1'. begin_step H I0.
  all: intro k0; pose proof (i2_slot0 s I2 k0) as Hh; pose proof (i1_u s I1 k0) as Hu;
       pose proof (i1_u _ I1' k0) as Hu'; pose proof (i1_w s I1) as Hw0; clear I1'.
  all: unf; pp.
  all: intro Hg; split_kind s k0.
  all: grind.
  all: try (apply Hh; lia).
Qed.

Lemma step_inv2_slot1 t s s' e : Inv0 s -> Inv1 s -> Inv2 s -> step t s = Some (s', e) ->
  forall k, kd s' k = TAccept -> ptc s' k + comp s' k = 1 -> slot s' k <> None.
Proof.
  intros I0 I1 I2 H. pose proof (step_inv1 _ _ _ _ I0 I1 H) as I1'. begin_step H I0.
  all: intro k0; pose proof (i2_slot1 s I2 k0) as Hh; pose proof (i1_u s I1 k0) as Hu;
       pose proof (i1_u _ I1' k0) as Hu'; pose proof (i1_w s I1) as Hw0; clear I1'.
  all: unf; pp.
  all: intros Hka Hg; specialize (Hh Hka); rewrite Hka in *; cbn [is_party_kind is_caller_kind] in *.
  all: grind.
  all: try (apply Hh; lia).
  all: match goal with |- context[slot ?s ?j] => destruct (slot s j) end; discriminate.
Qed.

Lemma step_inv2_sync t s s' e : Inv0 s -> Inv1 s -> Inv2 s -> step t s = Some (s', e) ->
  forall k, sync s' k = true -> ccomp s' k = true.
Proof.
  intros I0 I1 I2 H. begin_step H I0.
  all: intro k0; pose proof (i2_sync s I2 k0) as Hh; pose proof (i2_chain s I2 k0) as Hch.
  all: unf; pp.
  all: try exact Hh.
  all: go.
  all: try exact Hh.
  intros _. destruct (ccomp s k) eqn:Ec; [reflexivity|exfalso].
  pose proof (pendf_in (isChain k) (nthr s) (stk s) t (MSync k) Hlt
                ltac:(rewrite Hst; left; reflexivity) ltac:(simpl; apply Nat.eqb_refl)).
  cbn [b2n] in Hch. specialize (Hch eq_refl). lia.
Qed.

Lemma step_inv2 t s s' e : Inv0 s -> Inv1 s -> Inv2 s -> step t s = Some (s', e) -> Inv2 s'.
Proof.
  intros I0 I1 I2 H. constructor.
  - eapply step_inv2_hop; eauto.
  - eapply step_inv2_chain; eauto.
  - eapply step_inv2_slot0; eauto.
  - eapply step_inv2_slot1; eauto.
  - eapply step_inv2_sync; eauto.
Qed.
