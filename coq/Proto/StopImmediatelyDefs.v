(* E1 model StopImmediately: the race protocol inside the stop_immediately stream adaptor
   (include/unifex/stop_immediately.hpp): the multi-valued state_ of the stream, the two CASes of
   next_receiver::handle_signal, the cancel_next_callback registered by every next-op on the
   consumer's stop token, the hand-over of an abandoned next() to cleanup(), together with the
   little of the consumer's stop source (source/inplace_stop_token.cpp, at lock granularity) that
   decides when the callback can run and when its deregistration returns.

   The consumer is what reduce_stream does, INLINE in the completion of next() / cleanup() on
   whatever thread delivers it: value -> destroy the next-op, construct and start the next one;
   done / error -> destroy the next-op, construct and start the cleanup-op; completion of cleanup
   -> destroy the cleanup-op; the owner then destroys the stream.  So there is no consumer thread.

   Physical threads: T0 makes the first next() call; TA completes the source's next() operations
   and the source's cleanup(); TC calls request_stop on the consumer's stop source.
   Model thread ids: 0 = T0; 2 = TC; 1, 3, 4 all drive TA: from TA idle the id chooses how the
   outstanding next(source) completes (1 value, 3 done, 4 error; 1 also completes the outstanding
   cleanup(source)); while that completion (and everything the consumer does inline in it) is in
   progress only the same id moves TA.  The number of elements, the position of done / error and
   every timing are therefore chosen by the schedule; the model is cyclic (a value leads to the
   next next()), the per-round ghost flags are reset when a next-op is constructed, violations are
   recorded in sticky flags.  The state space is finite (complete reachability in the proofs).

   Parameters: p_fix_start  = next-op start() copies stream_ to a local before the stop callback is
                              constructed (finding 9; false = reads the member afterwards);
               p_fix_signal = handle_signal() uses its local copy `strm` for cleanupOp_ (false =
                              as written: reads the member stream_ of the receiver that lived in
                              the source next-op it has just destroyed);
               p_stop       = thread TC exists.
   Line numbers refer to stop_immediately.hpp.  Executable definitions only. *)
From Coq Require Import List Bool Arith.
Import ListNotations.

Module StopImmediately.

(* values of state_ (cleanup_completed is never stored by the code) *)
Inductive sstate := SNotStarted | SCompleted | SActive | SStopped | SCleanupReq.
Inductive kind := KVal | KDone | KErr.
(* who called the cancel callback / the consumer continuation, i.e. where it returns to:
   CtxTop: the thread's top level; CtxStop: request_stop on TC; CtxInline: the registration of the
   stop callback inside next-op start() (stop already requested) *)
Inductive ctx := CtxTop | CtxStop | CtxInline.
Inductive who := T0 | TA | TC.
(* the stop callback of the current next-op: not constructed / ran inline in its registration
   (source_ = nullptr: its destructor does nothing) / registered *)
Inductive cbmode := CbNone | CbInline | CbReg.
(* a tracked source op-state: none, constructed, started (outstanding), destroyed for good *)
Inductive opst := ONone | OCtor | OStarted | ODead.

Record params := { p_fix_start : bool; p_fix_signal : bool; p_stop : bool }.

Record mem := {
  state : sstate;            (* stream::state_ *)
  si_src : nat;              (* stream::stopSource_.state_ : 0, 3 (locked + stop), 1 (stop) *)
  ext_locked : bool;         (* lock bit of the consumer's stop source *)
  ext_stop : bool;           (* its stop-requested bit *)
  cb_linked : bool;          (* the current stop callback is in that source's list *)
  cb_mode : cbmode;
  cb_done : bool;            (* callbackCompleted_ of the current stop callback *)
  cb_removed : bool;         (* removedDuringCallback of TC's request_stop *)
  next_err : bool;           (* stream::nextError_ holds an error *)
  clop_set : bool;           (* stream::cleanupOp_ != nullptr *)
  src_out : bool;            (* next(source) outstanding *)
  scl_out : bool             (* cleanup(source) outstanding *)
}.

Record ghost := {
  nop_alive : bool;          (* the consumer's next-op exists *)
  cop_alive : bool;          (* the consumer's cleanup-op exists *)
  snop : opst;               (* the source next-op in stream::nextOp_ *)
  scop : opst;               (* the source cleanup-op in the consumer's cleanup-op *)
  cur_done : bool;           (* the current next() of the consumer has completed *)
  finished : bool;           (* cleanup() completed: the stream has been destroyed *)
  uaf : bool;                (* a step touched a destroyed op-state or the destroyed stream *)
  bad : bool;                (* a UNIFEX_ASSERT would fail / an op-state used out of protocol *)
  cb_won : bool;             (* the stop callback took the receiver (state_ active -> stopped) *)
  src_ever : bool;           (* a next(source) has been started *)
  wrong : bool               (* the stop callback won but next() did not complete with done *)
}.

Inductive pcT :=
| PIdle | PFin
| PStart0                                   (* T0: construct the first next-op *)
| NChk                                      (* next-op start(): stop_requested(), :260-264 *)
| NStore                                    (* state_.store active, :274 *)
| NReg | NRegRel                            (* stopCallback_.construct: try_add_callback, :277 *)
| NStartSrc                                 (* unifex::start(nextOp_), :279 *)
| CbLoad (c : ctx) | CbCas (c : ctx)        (* cancel_next_callback, :73-108 *)
| CbSrcSet (c : ctx) | CbSrcEnd (c : ctx)   (* stopSource_.request_stop, :98 *)
| CbDeregAcq (c : ctx) | CbDeregRel (c : ctx)  (* concrete_receiver::set_done: stopCallback_.destruct, :234 *)
| ClLoad (c : ctx) | ClCas (c : ctx)        (* cleanup-op start(), :370-399 *)
| HLoad | HCas1 | HCas2                     (* handle_signal, :150-187 *)
| HDeregAcq | HDeregRel (linked : bool) | HDeregWait   (* concrete_receiver::set_xxx: stopCallback_.destruct *)
| SLock | SUnlock (popped : bool) | SCbDone | SRelock | SRelRel.   (* inplace_stop_source::request_stop *)

Record st := { cfg : params; m : mem; g : ghost; t0pc : pcT; tapc : pcT; tcpc : pcT; ak : kind }.

Inductive cassite := CsCb | CsH1 | CsH2 | CsCl.

Inductive ev :=
| EStL (v : sstate)                                  (* state_.load acquire *)
| EStS (v : sstate)                                  (* state_.store relaxed *)
| EStC (site : cassite) (old new : sstate) (ok : bool)
| ESrcSet | ESrcEnd                                  (* stopSource_.request_stop: lock + stop, unlock *)
| EExtChk (v : nat)                                  (* stop_requested() on the consumer's token *)
| EExtObs (locked : bool)                            (* registration sees the stop bit *)
| EExtAcq (arel : bool) (old new : nat)              (* lock acquisition on the consumer's stop source *)
| EExtRel (v : nat)
| ECbDone | ECbWait                                  (* callbackCompleted_ store / successful load *)
| EConsNextCtor | EConsNext (k : kind) | EConsNextDtor
| EConsCleanupCtor | EConsCleanup (k : kind) | EConsCleanupDtor
| EStreamDestroyed | EConsFinished
| ESrcNextCtor | ESrcNextStart | ESrcNextComplete (k : kind) | ESrcNextDtor
| ESrcCleanupCtor | ESrcCleanupStart | ESrcCleanupComplete | ESrcCleanupDtor
| ESrcStartBad                                       (* start() reached nextOp_ through the dead stream_ *)
| EDeadReceiver.                                     (* handle_signal read stream_ of the dead receiver *)

(* ---------------------------------------------------------------------------------------- *)
(* record updates                                                                           *)

Definition set_state v (x : mem) : mem :=
  {| state := v; si_src := si_src x; ext_locked := ext_locked x; ext_stop := ext_stop x; cb_linked := cb_linked x; cb_mode := cb_mode x; cb_done := cb_done x; cb_removed := cb_removed x; next_err := next_err x; clop_set := clop_set x; src_out := src_out x; scl_out := scl_out x |}.
Definition set_si_src v (x : mem) : mem :=
  {| state := state x; si_src := v; ext_locked := ext_locked x; ext_stop := ext_stop x; cb_linked := cb_linked x; cb_mode := cb_mode x; cb_done := cb_done x; cb_removed := cb_removed x; next_err := next_err x; clop_set := clop_set x; src_out := src_out x; scl_out := scl_out x |}.
Definition set_ext_locked v (x : mem) : mem :=
  {| state := state x; si_src := si_src x; ext_locked := v; ext_stop := ext_stop x; cb_linked := cb_linked x; cb_mode := cb_mode x; cb_done := cb_done x; cb_removed := cb_removed x; next_err := next_err x; clop_set := clop_set x; src_out := src_out x; scl_out := scl_out x |}.
Definition set_ext_stop v (x : mem) : mem :=
  {| state := state x; si_src := si_src x; ext_locked := ext_locked x; ext_stop := v; cb_linked := cb_linked x; cb_mode := cb_mode x; cb_done := cb_done x; cb_removed := cb_removed x; next_err := next_err x; clop_set := clop_set x; src_out := src_out x; scl_out := scl_out x |}.
Definition set_cb_linked v (x : mem) : mem :=
  {| state := state x; si_src := si_src x; ext_locked := ext_locked x; ext_stop := ext_stop x; cb_linked := v; cb_mode := cb_mode x; cb_done := cb_done x; cb_removed := cb_removed x; next_err := next_err x; clop_set := clop_set x; src_out := src_out x; scl_out := scl_out x |}.
Definition set_cb_mode v (x : mem) : mem :=
  {| state := state x; si_src := si_src x; ext_locked := ext_locked x; ext_stop := ext_stop x; cb_linked := cb_linked x; cb_mode := v; cb_done := cb_done x; cb_removed := cb_removed x; next_err := next_err x; clop_set := clop_set x; src_out := src_out x; scl_out := scl_out x |}.
Definition set_cb_done v (x : mem) : mem :=
  {| state := state x; si_src := si_src x; ext_locked := ext_locked x; ext_stop := ext_stop x; cb_linked := cb_linked x; cb_mode := cb_mode x; cb_done := v; cb_removed := cb_removed x; next_err := next_err x; clop_set := clop_set x; src_out := src_out x; scl_out := scl_out x |}.
Definition set_cb_removed v (x : mem) : mem :=
  {| state := state x; si_src := si_src x; ext_locked := ext_locked x; ext_stop := ext_stop x; cb_linked := cb_linked x; cb_mode := cb_mode x; cb_done := cb_done x; cb_removed := v; next_err := next_err x; clop_set := clop_set x; src_out := src_out x; scl_out := scl_out x |}.
Definition set_next_err v (x : mem) : mem :=
  {| state := state x; si_src := si_src x; ext_locked := ext_locked x; ext_stop := ext_stop x; cb_linked := cb_linked x; cb_mode := cb_mode x; cb_done := cb_done x; cb_removed := cb_removed x; next_err := v; clop_set := clop_set x; src_out := src_out x; scl_out := scl_out x |}.
Definition set_clop_set v (x : mem) : mem :=
  {| state := state x; si_src := si_src x; ext_locked := ext_locked x; ext_stop := ext_stop x; cb_linked := cb_linked x; cb_mode := cb_mode x; cb_done := cb_done x; cb_removed := cb_removed x; next_err := next_err x; clop_set := v; src_out := src_out x; scl_out := scl_out x |}.
Definition set_src_out v (x : mem) : mem :=
  {| state := state x; si_src := si_src x; ext_locked := ext_locked x; ext_stop := ext_stop x; cb_linked := cb_linked x; cb_mode := cb_mode x; cb_done := cb_done x; cb_removed := cb_removed x; next_err := next_err x; clop_set := clop_set x; src_out := v; scl_out := scl_out x |}.
Definition set_scl_out v (x : mem) : mem :=
  {| state := state x; si_src := si_src x; ext_locked := ext_locked x; ext_stop := ext_stop x; cb_linked := cb_linked x; cb_mode := cb_mode x; cb_done := cb_done x; cb_removed := cb_removed x; next_err := next_err x; clop_set := clop_set x; src_out := src_out x; scl_out := v |}.
Definition set_nop_alive v (x : ghost) : ghost :=
  {| nop_alive := v; cop_alive := cop_alive x; snop := snop x; scop := scop x; cur_done := cur_done x; finished := finished x; uaf := uaf x; bad := bad x; cb_won := cb_won x; src_ever := src_ever x; wrong := wrong x |}.
Definition set_cop_alive v (x : ghost) : ghost :=
  {| nop_alive := nop_alive x; cop_alive := v; snop := snop x; scop := scop x; cur_done := cur_done x; finished := finished x; uaf := uaf x; bad := bad x; cb_won := cb_won x; src_ever := src_ever x; wrong := wrong x |}.
Definition set_snop v (x : ghost) : ghost :=
  {| nop_alive := nop_alive x; cop_alive := cop_alive x; snop := v; scop := scop x; cur_done := cur_done x; finished := finished x; uaf := uaf x; bad := bad x; cb_won := cb_won x; src_ever := src_ever x; wrong := wrong x |}.
Definition set_scop v (x : ghost) : ghost :=
  {| nop_alive := nop_alive x; cop_alive := cop_alive x; snop := snop x; scop := v; cur_done := cur_done x; finished := finished x; uaf := uaf x; bad := bad x; cb_won := cb_won x; src_ever := src_ever x; wrong := wrong x |}.
Definition set_cur_done v (x : ghost) : ghost :=
  {| nop_alive := nop_alive x; cop_alive := cop_alive x; snop := snop x; scop := scop x; cur_done := v; finished := finished x; uaf := uaf x; bad := bad x; cb_won := cb_won x; src_ever := src_ever x; wrong := wrong x |}.
Definition set_finished v (x : ghost) : ghost :=
  {| nop_alive := nop_alive x; cop_alive := cop_alive x; snop := snop x; scop := scop x; cur_done := cur_done x; finished := v; uaf := uaf x; bad := bad x; cb_won := cb_won x; src_ever := src_ever x; wrong := wrong x |}.
Definition set_uaf v (x : ghost) : ghost :=
  {| nop_alive := nop_alive x; cop_alive := cop_alive x; snop := snop x; scop := scop x; cur_done := cur_done x; finished := finished x; uaf := v; bad := bad x; cb_won := cb_won x; src_ever := src_ever x; wrong := wrong x |}.
Definition set_bad v (x : ghost) : ghost :=
  {| nop_alive := nop_alive x; cop_alive := cop_alive x; snop := snop x; scop := scop x; cur_done := cur_done x; finished := finished x; uaf := uaf x; bad := v; cb_won := cb_won x; src_ever := src_ever x; wrong := wrong x |}.
Definition set_cb_won v (x : ghost) : ghost :=
  {| nop_alive := nop_alive x; cop_alive := cop_alive x; snop := snop x; scop := scop x; cur_done := cur_done x; finished := finished x; uaf := uaf x; bad := bad x; cb_won := v; src_ever := src_ever x; wrong := wrong x |}.
Definition set_src_ever v (x : ghost) : ghost :=
  {| nop_alive := nop_alive x; cop_alive := cop_alive x; snop := snop x; scop := scop x; cur_done := cur_done x; finished := finished x; uaf := uaf x; bad := bad x; cb_won := cb_won x; src_ever := v; wrong := wrong x |}.
Definition set_wrong v (x : ghost) : ghost :=
  {| nop_alive := nop_alive x; cop_alive := cop_alive x; snop := snop x; scop := scop x; cur_done := cur_done x; finished := finished x; uaf := uaf x; bad := bad x; cb_won := cb_won x; src_ever := src_ever x; wrong := v |}.
Definition set_cfg v (s : st) : st :=
  {| cfg := v; m := m s; g := g s; t0pc := t0pc s; tapc := tapc s; tcpc := tcpc s; ak := ak s |}.
Definition set_m v (s : st) : st :=
  {| cfg := cfg s; m := v; g := g s; t0pc := t0pc s; tapc := tapc s; tcpc := tcpc s; ak := ak s |}.
Definition set_g v (s : st) : st :=
  {| cfg := cfg s; m := m s; g := v; t0pc := t0pc s; tapc := tapc s; tcpc := tcpc s; ak := ak s |}.
Definition set_t0pc v (s : st) : st :=
  {| cfg := cfg s; m := m s; g := g s; t0pc := v; tapc := tapc s; tcpc := tcpc s; ak := ak s |}.
Definition set_tapc v (s : st) : st :=
  {| cfg := cfg s; m := m s; g := g s; t0pc := t0pc s; tapc := v; tcpc := tcpc s; ak := ak s |}.
Definition set_tcpc v (s : st) : st :=
  {| cfg := cfg s; m := m s; g := g s; t0pc := t0pc s; tapc := tapc s; tcpc := v; ak := ak s |}.
Definition set_ak v (s : st) : st :=
  {| cfg := cfg s; m := m s; g := g s; t0pc := t0pc s; tapc := tapc s; tcpc := tcpc s; ak := v |}.
Definition is_err_kind (k : kind) : bool := match k with KErr => true | _ => false end.

Definition M (f : mem -> mem) (s : st) : st := set_m (f (m s)) s.
Definition Gh (f : ghost -> ghost) (s : st) : st := set_g (f (g s)) s.

(* ---------------------------------------------------------------------------------------- *)

Definition init (p : params) : st :=
  {| cfg := p;
     m := {| state := SNotStarted; si_src := 0; ext_locked := false; ext_stop := false;
             cb_linked := false; cb_mode := CbNone; cb_done := false; cb_removed := false;
             next_err := false; clop_set := false; src_out := false; scl_out := false |};
     g := {| nop_alive := false; cop_alive := false; snop := ONone; scop := ONone;
             cur_done := false; finished := false; uaf := false; bad := false; cb_won := false;
             src_ever := false; wrong := false |};
     t0pc := PStart0; tapc := PIdle; tcpc := if p_stop p then SLock else PFin; ak := KVal |}.

Definition flag_uaf (s : st) : st := Gh (set_uaf true) s.
Definition flag_bad (s : st) : st := Gh (set_bad true) s.
Definition flag_if (b : bool) (f : st -> st) (s : st) : st := if b then f s else s.

(* every access to the stream / the consumer's next-op / cleanup-op goes through these *)
Definition touch_strm (s : st) : st := flag_if (finished (g s)) flag_uaf s.
Definition touch_nop (s : st) : st := flag_if (negb (nop_alive (g s))) flag_uaf s.
Definition touch_cop (s : st) : st := flag_if (negb (cop_alive (g s))) flag_uaf s.

Definition stopbit (s : st) : nat := if ext_stop (m s) then 1 else 0.
Definition lockbit (s : st) : nat := if ext_locked (m s) then 2 else 0.

Definition opst_eqb (a b : opst) : bool :=
  match a, b with ONone, ONone | OCtor, OCtor | OStarted, OStarted | ODead, ODead => true | _, _ => false end.
Definition is_done (k : kind) : bool := match k with KDone => true | _ => false end.

(* where a thread goes when its outermost call returns *)
Definition top_return (w : who) : pcT := match w with TA => PIdle | _ => PFin end.

(* the cancel callback returns *)
Definition cb_return (w : who) (c : ctx) (s : st) : pcT :=
  match c with
  | CtxStop => if cb_removed (m s) then SRelock else SCbDone
  | CtxInline => NStartSrc
  | CtxTop => top_return w
  end.

(* cleanup-op start() returns into the consumer continuation, which returns into whatever
   completed the next() *)
Definition cl_return (w : who) (c : ctx) (s : st) : pcT :=
  match c with CtxTop => top_return w | _ => cb_return w c s end.

(* the consumer's cleanup() completes with k: destroy the cleanup-op, the owner destroys the stream *)
Definition cons_finish (k : kind) (s : st) : st * list ev :=
  let s0 := touch_cop s in
  let s1 := flag_if (finished (g s0)) flag_bad s0 in
  (Gh (fun x => set_finished true (set_cop_alive false x)) s1,
   [EConsCleanup k; EConsCleanupDtor; EStreamDestroyed; EConsFinished]).

(* cleanup_operation::start_cleanup, :401-419: construct and start cleanup(source) inside the
   consumer's cleanup-op *)
Definition start_cleanup (s : st) : st * list ev :=
  let s0 := touch_strm (touch_cop s) in
  let s1 := flag_if (negb (opst_eqb (scop (g s0)) ONone) || src_out (m s0)
                     || negb (opst_eqb (snop (g s0)) ONone)) flag_bad s0 in
  (M (set_scl_out true) (Gh (set_scop OStarted) s1), [ESrcCleanupCtor; ESrcCleanupStart]).

(* the consumer's receiver gets the completion k of its next(): what reduce_stream does.
   Returns the state, the events and the next program counter given the context c. *)
Definition consumer_next (w : who) (k : kind) (c : ctx) (s : st) : st * list ev * pcT :=
  let s0 := touch_nop s in
  let s1 := flag_if (cur_done (g s0)) flag_bad s0 in
  let s2 := flag_if (cb_won (g s1) && negb (is_done k)) (Gh (set_wrong true)) s1 in
  let s3 := Gh (fun x => set_cur_done true (set_nop_alive false x)) s2 in
  match k with
  | KVal =>
      (Gh (fun x => set_cur_done false (set_nop_alive true x)) (M (fun x => set_cb_mode CbNone (set_cb_done false x)) s3),
       [EConsNext k; EConsNextDtor; EConsNextCtor], NChk)
  | _ =>
      (Gh (set_cop_alive true) s3, [EConsNext k; EConsNextDtor; EConsCleanupCtor], ClLoad c)
  end.

(* handle_signal found cleanup_requested: :184-186.  As written the member stream_ of the
   receiver is read; the receiver lived in the source next-op destroyed at the top of
   handle_signal *)
Definition signal_start_cleanup (s : st) : st * list ev :=
  let s0 := flag_if (negb (clop_set (m s))) flag_bad s in
  let (s1, evs) := start_cleanup s0 in
  if p_fix_signal (cfg s) then (s1, evs) else (flag_uaf s1, EDeadReceiver :: evs).

(* ---------------------------------------------------------------------------------------- *)
(* one step of the code at program counter p, executed by physical thread w                  *)

Definition exec (w : who) (p : pcT) (s : st) : option (st * list ev * pcT) :=
  match p with
  | PIdle | PFin => None
  | PStart0 =>
      Some (Gh (fun x => set_nop_alive true (set_cur_done false x)) s, [EConsNextCtor], NChk)
  | NChk =>
      let s0 := touch_nop s in
      let e := EExtChk (stopbit s + lockbit s) in
      if ext_stop (m s) then
        match consumer_next w KDone CtxTop s0 with (s1, evs, p') => Some (s1, e :: evs, p') end
      else
        let s1 := touch_strm s0 in
        let s2 := flag_if (negb (opst_eqb (snop (g s1)) ONone) || negb (opst_eqb (scop (g s1)) ONone)) flag_bad s1 in
        Some (Gh (set_snop OCtor) s2, [e; ESrcNextCtor], NStore)
  | NStore =>
      Some (M (set_state SActive) (touch_strm s), [EStS SActive], NReg)
  | NReg =>
      let s0 := touch_nop s in
      if ext_stop (m s) then
        Some (M (set_cb_mode CbInline) s0, [EExtObs (ext_locked (m s))], CbLoad CtxInline)
      else if ext_locked (m s) then None
      else Some (M (fun x => set_ext_locked true (set_cb_linked true (set_cb_mode CbReg (set_cb_done false x)))) s0,
                 [EExtAcq true 0 2], NRegRel)
  | NRegRel =>
      Some (M (set_ext_locked false) s, [EExtRel 0], NStartSrc)
  | NStartSrc =>
      (* as written: stream_ is read from the next-op again; the op may be gone *)
      let dead := negb (p_fix_start (cfg s)) && negb (nop_alive (g s)) in
      let s0 := flag_if dead flag_uaf s in
      let s1 := touch_strm s0 in
      let s2 := flag_if (negb (opst_eqb (snop (g s1)) OCtor)) flag_bad s1 in
      Some (M (set_src_out true) (Gh (fun x => set_src_ever true (set_snop OStarted x)) s2),
            (if dead then [ESrcStartBad] else []) ++ [ESrcNextStart], top_return w)
  | CbLoad c =>
      let s0 := touch_strm (touch_nop s) in
      let v := state (m s0) in
      match v with
      | SActive => Some (s0, [EStL v], CbCas c)
      | SCompleted => Some (s0, [EStL v], cb_return w c s0)
      | _ => Some (flag_bad s0, [EStL v], cb_return w c s0)
      end
  | CbCas c =>
      let s0 := touch_strm s in
      let v := state (m s0) in
      match v with
      | SActive => Some (Gh (set_cb_won true) (M (set_state SStopped) s0), [EStC CsCb SActive SStopped true], CbSrcSet c)
      | SCompleted => Some (s0, [EStC CsCb v SStopped false], cb_return w c s0)
      | _ => Some (flag_bad s0, [EStC CsCb v SStopped false], cb_return w c s0)
      end
  | CbSrcSet c =>
      let s0 := touch_strm s in
      let s1 := flag_if (negb (si_src (m s0) =? 0)) flag_bad s0 in
      Some (M (set_si_src 3) s1, [ESrcSet], CbSrcEnd c)
  | CbSrcEnd c =>
      let s0 := M (set_si_src 1) (touch_strm s) in
      let s1 := touch_nop s0 in
      match cb_mode (m s1) with
      | CbReg => Some (s1, [ESrcEnd], CbDeregAcq c)
      | _ => match consumer_next w KDone c s1 with (s2, evs, p') => Some (s2, ESrcEnd :: evs, p') end
      end
  | CbDeregAcq c =>
      if ext_locked (m s) then None
      else
        let s0 := flag_if (cb_linked (m s)) flag_bad s in
        Some (M (fun x => set_ext_locked true (set_cb_linked false x)) s0,
              [EExtAcq false (stopbit s) (stopbit s + 2)], CbDeregRel c)
  | CbDeregRel c =>
      (* not in the list and on the notifying thread: removedDuringCallback = true *)
      let s0 := M (fun x => set_ext_locked false (set_cb_removed true x)) s in
      match consumer_next w KDone c s0 with (s1, evs, p') => Some (s1, EExtRel (stopbit s) :: evs, p') end
  | ClLoad c =>
      let s0 := touch_strm (touch_cop s) in
      let v := state (m s0) in
      match v with
      | SStopped => Some (M (set_clop_set true) s0, [EStL v], ClCas c)
      | SCompleted => let (s1, evs) := start_cleanup s0 in Some (s1, EStL v :: evs, cl_return w c s1)
      | SNotStarted =>
          let s1 := flag_if (src_ever (g s0)) flag_bad s0 in
          let (s2, evs) := cons_finish KDone s1 in Some (s2, EStL v :: evs, cl_return w c s2)
      | _ => Some (flag_bad s0, [EStL v], cl_return w c s0)
      end
  | ClCas c =>
      let s0 := touch_strm (touch_cop s) in
      let v := state (m s0) in
      match v with
      | SStopped => Some (M (set_state SCleanupReq) s0, [EStC CsCl SStopped SCleanupReq true], cl_return w c s0)
      | SCompleted =>
          let (s1, evs) := start_cleanup s0 in
          Some (s1, EStC CsCl v SCleanupReq false :: evs, cl_return w c s1)
      | _ => Some (flag_bad s0, [EStC CsCl v SCleanupReq false], cl_return w c s0)
      end
  | HLoad =>
      let s0 := touch_strm s in
      let v := state (m s0) in
      match v with
      | SActive => Some (s0, [EStL v], HCas1)
      | SStopped => Some (s0, [EStL v], HCas2)
      | SCleanupReq => let (s1, evs) := signal_start_cleanup s0 in Some (s1, EStL v :: evs, PIdle)
      | _ => Some (flag_bad s0, [EStL v], PIdle)
      end
  | HCas1 =>
      let s0 := touch_strm s in
      let v := state (m s0) in
      match v with
      | SActive =>
          let s1 := touch_nop (M (set_state SCompleted) s0) in
          let e := EStC CsH1 SActive SCompleted true in
          match cb_mode (m s1) with
          | CbReg => Some (s1, [e], HDeregAcq)
          | _ =>
              let s2 := flag_bad s1 in
              match consumer_next w (ak s) CtxTop (M (if is_err_kind (ak s) then set_next_err false else (fun x => x)) s2)
              with (s3, evs, p') => Some (s3, e :: evs, p') end
          end
      | SStopped => Some (s0, [EStC CsH1 v SCompleted false], HCas2)
      | SCleanupReq =>
          let (s1, evs) := signal_start_cleanup s0 in Some (s1, EStC CsH1 v SCompleted false :: evs, PIdle)
      | _ => Some (flag_bad s0, [EStC CsH1 v SCompleted false], PIdle)
      end
  | HCas2 =>
      let s0 := touch_strm s in
      let v := state (m s0) in
      match v with
      | SStopped => Some (M (set_state SCompleted) s0, [EStC CsH2 SStopped SCompleted true], PIdle)
      | SCleanupReq =>
          let (s1, evs) := signal_start_cleanup s0 in Some (s1, EStC CsH2 v SCompleted false :: evs, PIdle)
      | _ => Some (flag_bad s0, [EStC CsH2 v SCompleted false], PIdle)
      end
  | HDeregAcq =>
      if ext_locked (m s) then None
      else
        let s0 := touch_nop s in
        Some (M (fun x => set_ext_locked true (set_cb_linked false x)) s0,
              [EExtAcq false (stopbit s) (stopbit s + 2)], HDeregRel (cb_linked (m s)))
  | HDeregRel linked =>
      let s0 := M (set_ext_locked false) s in
      let e := EExtRel (stopbit s) in
      if linked then
        match consumer_next w (ak s) CtxTop (M (if is_err_kind (ak s) then set_next_err false else (fun x => x)) s0)
        with (s1, evs, p') => Some (s1, e :: evs, p') end
      else
        match w with
        | TC => (* on the notifying thread: cannot happen for handle_signal *)
            Some (flag_bad s0, [e], PIdle)
        | _ => Some (s0, [e], HDeregWait)
        end
  | HDeregWait =>
      if cb_done (m s) then
        let s0 := touch_nop s in
        match consumer_next w (ak s) CtxTop (M (if is_err_kind (ak s) then set_next_err false else (fun x => x)) s0)
        with (s1, evs, p') => Some (s1, ECbWait :: evs, p') end
      else None
  | SLock =>
      if ext_locked (m s) then None
      else
        let s0 := flag_if (ext_stop (m s)) flag_bad s in
        Some (M (fun x => set_ext_locked true (set_ext_stop true (set_cb_linked false (set_cb_removed false x)))) s0,
              [EExtAcq true 0 3], SUnlock (cb_linked (m s)))
  | SUnlock popped =>
      Some (M (set_ext_locked false) s, [EExtRel 1], if popped then CbLoad CtxStop else PFin)
  | SCbDone =>
      Some (M (set_cb_done true) (touch_nop s), [ECbDone], SRelock)
  | SRelock =>
      if ext_locked (m s) then None
      else Some (M (set_ext_locked true) s, [EExtAcq false 1 3], SRelRel)
  | SRelRel =>
      Some (M (set_ext_locked false) s, [EExtRel 1], PFin)
  end.

(* TA idle: tid 1 / 3 / 4 completes the outstanding next(source) with value / done / error
   (next_receiver::set_xxx: for an error nextError_ is stored first, :141-143; then
   handle_signal destroys nextOp_, :152); tid 1 completes the outstanding cleanup(source)
   (cleanup receiver_wrapper, :331-341) *)
Definition kind_of_tid (t : nat) : option kind :=
  match t with 1 => Some KVal | 3 => Some KDone | 4 => Some KErr | _ => None end.
Definition kind_eqb (a b : kind) : bool :=
  match a, b with KVal, KVal | KDone, KDone | KErr, KErr => true | _, _ => false end.

Definition begin_a (k : kind) (s : st) : option (st * list ev) :=
  if src_out (m s) then
    let s0 := touch_strm s in
    let s1 := flag_if (negb (opst_eqb (snop (g s0)) OStarted)) flag_bad s0 in
    let s2 := M (fun x => set_src_out false (if is_err_kind k then set_next_err true x else x)) s1 in
    Some (set_ak k (set_tapc HLoad (Gh (set_snop ONone) s2)), [ESrcNextComplete k; ESrcNextDtor])
  else if scl_out (m s) then
    match k with
    | KVal =>
        let s0 := touch_strm (touch_cop s) in
        let s1 := flag_if (negb (opst_eqb (scop (g s0)) OStarted)) flag_bad s0 in
        let s2 := M (set_scl_out false) (Gh (set_scop ODead) s1) in
        let r := if next_err (m s2) then KErr else KDone in
        let (s3, evs) := cons_finish r (M (set_next_err false) s2) in
        Some (s3, ESrcCleanupComplete :: ESrcCleanupDtor :: evs)
    | _ => None
    end
  else None.

Definition lift (f : pcT -> st -> st) (r : option (st * list ev * pcT)) : option (st * list ev) :=
  match r with Some (s, evs, p) => Some (f p s, evs) | None => None end.

Definition step (t : nat) (s : st) : option (st * list ev) :=
  match t with
  | 0 => lift set_t0pc (exec T0 (t0pc s) s)
  | 2 => lift set_tcpc (exec TC (tcpc s) s)
  | _ =>
      match kind_of_tid t with
      | None => None
      | Some k =>
          match tapc s with
          | PIdle => begin_a k s
          | p => if kind_eqb k (ak s) then lift set_tapc (exec TA p s) else None
          end
      end
  end.

Definition quiescent (s : st) : bool :=
  finished (g s) &&
  match t0pc s, tapc s, tcpc s with PFin, PIdle, PFin => true | _, _, _ => false end.

End StopImmediately.
