(* Proofs about the E1 model EventV2 (Proto/EventV2Defs.v).

   Part 1 (parametric: every program, every schedule): reset() only changes the latch
   (reset_later_only_partial); the refutation of quiet_after_completion for cancellable.hpp as it is, with the
   two witness schedules found on the real code (quiet_after_completion_refuted); at most one completion per
   wait (each_once_partial: a counting invariant over the threads between a won try_complete and the
   completion of the receiver); the head lock has one holder and a latched event has an empty waiter list
   (latch_inv_reachable, no_waiter_on_latched_event_partial).

   Part 2 (per instance, every schedule): for a fixed list of thread programs (<= 2 waiters, a setter, a
   resetter, stop requesters, ready) the model is a finite-state machine (every thread only moves forward).
   As in CancellableProofs / FutureProofs the proofs are by reflection on a COMPLETE inductive invariant:
   [reach] computes the reachable states by a work-list search; [check_with] re-checks inside the kernel
   that the set contains the initial state, is closed under the step of every thread and that the decidable
   predicate [P_all] holds on every element; [check_with_sound] lifts this over an ARBITRARY schedule
   (run_invariant_state).  Nothing is sampled.  Soundness does not depend on the hash [code] being injective:
   membership compares the stored state with [st_eq_dec].  These theorems are PER INSTANCE (the list
   [instances] below, both the code as it is and the repaired cancellable), not for all programs. *)
From Coq Require Import List Bool Arith Lia PArith NArith FMapPositive.
From V Require Import Base.Sched Proto.EventV2Defs.
Import ListNotations.
Import EventV2.

(* ------------------------------------------------------------------------------------------ *)
(* Part 1: parametric lemmas                                                                   *)

Lemma set_nth_length {A} t (x : A) l : length (set_nth t x l) = length l.
Proof. revert t; induction l as [|y l IH]; intros [|t]; cbn; auto. Qed.

Lemma nth_error_set_nth_eq {A} t (x : A) l : t < length l -> nth_error (set_nth t x l) t = Some x.
Proof.
  revert t; induction l as [|y l IH]; intros [|t] H; cbn in *; try lia; auto. apply IH. lia.
Qed.

Lemma nth_error_set_nth_neq {A} t u (x : A) l : t <> u -> nth_error (set_nth t x l) u = nth_error l u.
Proof.
  revert t u; induction l as [|y l IH]; intros [|t] [|u] H; cbn; auto; try congruence.
Qed.

Lemma nth_set_nth_eq {A} t (x d : A) l : t < length l -> nth t (set_nth t x l) d = x.
Proof.
  revert t; induction l as [|y l IH]; intros [|t] H; cbn in *; try lia; auto. apply IH. lia.
Qed.

Lemma nth_set_nth_neq {A} t u (x d : A) l : t <> u -> nth u (set_nth t x l) d = nth u l d.
Proof.
  revert t u; induction l as [|y l IH]; intros [|t] [|u] H; cbn; auto; try congruence.
Qed.

(* a thread id outside the thread list cannot move *)
Lemma step_tid t s r : step t s = Some r -> t < length (thr s).
Proof.
  unfold step. destruct (nth_error (thr s) t) eqn:E; [|discriminate].
  intros _. apply nth_error_Some. congruence.
Qed.

(* reset() - both of its steps - leaves the waiter list, every operation, every local list and the ghost
   counters alone: it only changes the latch and the lock bit of the head word.  A wait that is already on
   the list (or drained, or completed) is not affected; only later push_front_unless_latched calls see the
   difference. *)
Definition same_waits (s s' : st) : Prop :=
  evl s' = evl s /\ ops s' = ops s /\ map loc (thr s') = map loc (thr s) /\
  late_state s' = late_state s /\ late_self s' = late_self s /\ late_other s' = late_other s.

Lemma map_loc_set_nth t th f l :
  nth_error l t = Some th -> loc (f th) = loc th -> map loc (set_nth t (f th) l) = map loc l.
Proof.
  revert t; induction l as [|y l IH]; intros [|t] H Hl; cbn in *; try discriminate; auto.
  - injection H as ->. now rewrite Hl.
  - f_equal. now apply IH.
Qed.

Lemma same_waits_upd_thr s t f : (forall th, loc (f th) = loc th) -> same_waits s (upd_thr s t f).
Proof.
  intros Hf. unfold same_waits, upd_thr. destruct (nth_error (thr s) t) eqn:E; cbn; repeat split; auto.
  eapply map_loc_set_nth; eauto.
Qed.

Lemma next_cmd_loc th : loc (next_cmd th) = loc th.
Proof. unfold next_cmd. destruct (prog th); reflexivity. Qed.

Lemma same_waits_trans a b c : same_waits a b -> same_waits b c -> same_waits a c.
Proof. unfold same_waits. intuition congruence. Qed.

Theorem reset_later_only_partial t s s' evs th :
  nth_error (thr s) t = Some th -> (pc th = AResetAcq \/ pc th = AResetRel) -> kont th = KCmd ->
  step t s = Some (s', evs) -> same_waits s s'.
Proof.
  intros Hth Hpc Hk Hs. unfold step in Hs. rewrite Hth in Hs. rewrite Hk in Hs.
  destruct Hpc as [Hpc|Hpc]; rewrite Hpc in Hs.
  - destruct (negb (hl_free s)); [discriminate|]. injection Hs as <- _.
    eapply same_waits_trans; [|apply same_waits_upd_thr; reflexivity].
    unfold same_waits; cbn; repeat split.
  - destruct (latched s); injection Hs as <- _; unfold ret;
      (eapply same_waits_trans; [|apply same_waits_upd_thr; apply next_cmd_loc]);
      unfold same_waits; cbn; repeat split.
Qed.

(* ------------------------------------------------------------------------------------------ *)
(* the code as it is violates quiet_after_completion: the two windows of stop_type::start()
   (cancellable.hpp:90-97) reached through set() on another thread.  Programs: thread 0 = Wait 0, thread 1 =
   Set, thread 2 = Stop 0.  The schedules are the projections of the two failing runs of the real code
   (harness/k1_event_v2.cpp, program `0 W0 S X0 K`, replay 0:3,1:2,2:3,12:1 and 0:3,1:2,2:3,13:1). *)
Definition refute_progs : list (list cmd) := [[CWait 0]; [CSet]; [CStop 0]].

(* W1 (KNOWN_FINDINGS event_v2/touched-after-completion/state:O): start() finds the stack flag clear; set()
   drains, pops and completes the waiter; start() then executes state_.fetch_or(started) on an operation
   the receiver may have destroyed. *)
Definition w1_sched : list nat := [2; 0;0;0;0;0; 1;1;1;1;1;1;1;1;1; 0;0].
(* W2 (event_v2/touched-after-completion/self:L): stop was requested first, fetch_or(started) returns exactly
   `stopped`, so start() is going to call nested stop(); before it does, set() completes the waiter (its
   try_complete sees `started` and does not synchronise with start()); try_remove then reads the list node
   of a dead operation. *)
Definition w2_sched : list nat := [2; 0;0;0;0;0;0; 1;1;1;1;1;1;1;1; 0].

Theorem quiet_after_completion_refuted :
  (exists progs sched, let s := fst (run step sched (init false false progs, [])) in
     0 < late_state s + late_self s) /\
  (let c := run step w1_sched (init false false refute_progs, []) in
   late_state (fst c) = 1 /\ late_self (fst c) = 0 /\ o_res (getop (fst c) 0) = [OValue] /\ quiescent (fst c) = true /\
   firstn 4 (rev (snd c)) = [ESyncLd 0 true; ECsOr 0 5 7; EPopNone; EValue 0]) /\
  (let c := run step w2_sched (init false false refute_progs, []) in
   late_state (fst c) = 0 /\ late_self (fst c) = 1 /\ o_res (getop (fst c) 0) = [OValue] /\ quiescent (fst c) = true /\
   firstn 3 (rev (snd c)) = [ERemove 0 false; EPopNone; EValue 0]).
Proof.
  split; [exists refute_progs, w1_sched; vm_compute; lia|].
  split; vm_compute; repeat split.
Qed.

(* the same two schedules on the repaired cancellable: set()'s try_complete waits for start_done *)
Example repaired_same_schedules :
  (let s := fst (run step (w1_sched ++ [1;1;1;1]) (init true false refute_progs, [])) in
   late_state s + late_self s + late_other s = 0 /\ o_res (getop s 0) = [OValue] /\ quiescent s = true) /\
  (let s := fst (run step (w2_sched ++ [0;0;1;1;1;1]) (init true false refute_progs, [])) in
   late_state s + late_self s + late_other s = 0 /\ o_res (getop s 0) = [OValue] /\ quiescent s = true).
Proof. split; vm_compute; repeat split. Qed.

(* ------------------------------------------------------------------------------------------ *)
(* at most one completion per wait, for ALL programs and schedules: a counting invariant         *)

(* threads that won try_complete(k) and have not completed the receiver yet *)
Definition cnt (k : nat) (a : act) : nat :=
  match a with
  | ASyncStore k' _ | AWaitSD k' _ | ADereg k' _ | AComplete k' _ => if Nat.eqb k' k then 1 else 0
  | _ => 0
  end.
Definition pend (k : nat) (l : list thread) : nat := list_sum (map (fun th => cnt k (pc th)) l).

Lemma pend_cons k y l : pend k (y :: l) = cnt k (pc y) + pend k l.
Proof. reflexivity. Qed.

Lemma pend_set_nth k t th th' l : nth_error l t = Some th ->
  pend k (set_nth t th' l) + cnt k (pc th) = pend k l + cnt k (pc th').
Proof.
  revert t; induction l as [|y l IH]; intros [|t] H; simpl nth_error in H; simpl set_nth; try discriminate.
  - injection H as ->. rewrite !pend_cons. lia.
  - specialize (IH _ H). rewrite !pend_cons. lia.
Qed.

Lemma pend_map_loc k f l : pend k (map (fun x => t_loc (f x) x) l) = pend k l.
Proof. unfold pend. rewrite map_map. reflexivity. Qed.

Definition OnceInv (s : st) : Prop :=
  forall k, k < length (ops s) ->
    pend k (thr s) + length (o_res (getop s k)) <= b2n (o_completed (getop s k)).

Lemma set_nth_out {A} j (x : A) l : length l <= j -> set_nth j x l = l.
Proof. revert j; induction l as [|y l IH]; intros [|j] H; cbn in *; try lia; auto. f_equal. apply IH. lia. Qed.
Lemma upd_op_out s j f : length (ops s) <= j -> ops (upd_op s j f) = ops s.
Proof. intros H. unfold upd_op. cbn. now apply set_nth_out. Qed.

Lemma nth_set_nth_gen {A} w k (x d : A) l :
  nth k (set_nth w x l) d = if Nat.eqb w k && Nat.ltb w (length l) then x else nth k l d.
Proof.
  destruct (Nat.eqb w k) eqn:E; cbn [andb].
  - apply Nat.eqb_eq in E. subst. destruct (Nat.ltb k (length l)) eqn:L.
    + apply Nat.ltb_lt in L. now apply nth_set_nth_eq.
    + apply Nat.ltb_ge in L. now rewrite set_nth_out.
  - apply Nat.eqb_neq in E. now apply nth_set_nth_neq.
Qed.

Lemma cnt_next_cmd k th : cnt k (pc (next_cmd th)) = 0.
Proof. unfold next_cmd. destruct (prog th) as [|[] ?]; reflexivity. Qed.

Ltac red_st H :=
  cbn [thr ops fixed latched hl evl late_state late_self late_other
       upd_op set_ops set_thr set_evl set_hl set_latched bump_state bump_self bump_other] in H.

Lemma step_once_inv s t s' e : OnceInv s -> step t s = Some (s', e) -> OnceInv s'.
Proof.
  intros HI Hs. unfold step in Hs. destruct (nth_error (thr s) t) as [th|] eqn:E; [|discriminate].
  destruct (pc th) eqn:Epc.
  all: unfold ret, fin_start, goto, touch_state, touch_self, touch_other in Hs.
  all: repeat match type of Hs with
         | context [freed ?x ?k] => destruct (freed x k)
         end.
  all: repeat (unfold upd_thr in Hs; red_st Hs; rewrite ?nth_error_map, ?E in Hs; cbn [option_map] in Hs).
  all: repeat match type of Hs with
         | context [match ?x with _ => _ end] => destruct x eqn:?
         end; try discriminate Hs.
  all: injection Hs as <- _.
  all: intros q Hq; specialize (HI q).
  all: unfold getop in *.
  all: cbn [thr ops fixed latched hl evl late_state late_self late_other
            upd_op set_ops set_thr set_evl set_hl set_latched bump_state bump_self bump_other] in *.
  all: rewrite ?set_nth_length in Hq; specialize (HI Hq).
  all: rewrite ?nth_set_nth_gen.
  all: try match goal with
       | E0 : nth_error (thr ?S) ?T = Some ?TH |- context [pend ?Q (set_nth ?T ?X (thr ?S))] =>
           pose proof (pend_set_nth Q T TH X (thr S) E0) as HP
       | E0 : nth_error (thr ?S) ?T = Some ?TH |- context [pend ?Q (set_nth ?T ?X (map ?g (thr ?S)))] =>
           let H := fresh in
           assert (H : nth_error (map g (thr S)) T = Some (g TH)) by (rewrite nth_error_map, E0; reflexivity);
           pose proof (pend_set_nth Q T (g TH) X (map g (thr S)) H) as HP;
           rewrite pend_map_loc in HP
       end.
  all: try (cbn [pc t_goto t_loc] in HP; rewrite ?Epc, ?cnt_next_cmd in HP; cbn [cnt] in HP).
  all: repeat (progress (unfold getop in *;
       cbn [thr ops fixed latched hl evl late_state late_self late_other
            upd_op set_ops set_thr set_evl set_hl set_latched bump_state bump_self bump_other] in *;
       rewrite ?nth_set_nth_gen)).
  all: repeat match goal with
       | H : context [if ?c then _ else _] |- _ => destruct c eqn:?
       | |- context [if ?c then _ else _] => destruct c eqn:?
       end.
  all: repeat match goal with
       | H : (_ && _)%bool = true |- _ => apply andb_true_iff in H; destruct H
       | H : Nat.eqb _ _ = true |- _ => apply Nat.eqb_eq in H; subst
       end.
  all: cbn [o_res o_completed w_stopped w_started w_completed w_sd w_flag w_req w_cb w_run w_owner w_how w_res w_ret
            length] in *.
  all: try lia.
  all: repeat match goal with
       | H : o_completed ?x = _ |- _ => rewrite H in *
       end; cbn [b2n] in *; try lia.
  all: try match goal with
       | H : true && (_ <? _) = false |- _ => cbn [andb] in H; apply Nat.ltb_ge in H; lia
       | H : (?x =? ?x) = false |- _ => rewrite Nat.eqb_refl in H; discriminate H
       end.
Qed.

Lemma length_ops_step s t s' e : step t s = Some (s', e) -> length (ops s') = length (ops s).
Proof.
  intros Hs. unfold step in Hs. destruct (nth_error (thr s) t) as [th|] eqn:E; [|discriminate].
  destruct (pc th) eqn:Epc.
  all: unfold ret, fin_start, goto, touch_state, touch_self, touch_other in Hs.
  all: repeat match type of Hs with
         | context [freed ?x ?k] => destruct (freed x k)
         end.
  all: repeat (unfold upd_thr in Hs; red_st Hs; rewrite ?nth_error_map, ?E in Hs; cbn [option_map] in Hs).
  all: repeat match type of Hs with
         | context [match ?x with _ => _ end] => destruct x eqn:?
         end; try discriminate Hs.
  all: injection Hs as <- _.
  all: cbn [thr ops fixed latched hl evl late_state late_self late_other
            upd_op set_ops set_thr set_evl set_hl set_latched bump_state bump_self bump_other];
       rewrite ?set_nth_length; reflexivity.
Qed.

Theorem each_once_partial (fx sig0 : bool) (progs : list (list cmd)) (sched : list nat) :
  let s := fst (run step sched (init fx sig0 progs, [])) in
  forall k, length (o_res (getop s k)) <= 1.
Proof.
  cbv zeta.
  assert (HI : OnceInv (fst (run step sched (init fx sig0 progs, [])))).
  { apply (run_invariant_state st nat ev step OnceInv).
    - intros; eapply step_once_inv; eauto.
    - intros k Hk. cbn [fst init thr ops]. unfold getop. cbn [ops init].
      assert (Hp : forall l, pend k (map (fun p => next_cmd {| prog := p; pc := AFin; kont := KCmd; loc := [] |}) l) = 0).
      { induction l as [|p l IH]; [reflexivity|]. cbn [map]. rewrite pend_cons, IH, cnt_next_cmd. reflexivity. }
      rewrite Hp. destruct (nth_in_or_default k (repeat op0 (nwaiters progs)) op0) as [Hin| ->]; [|cbn; lia].
      apply repeat_spec in Hin. rewrite Hin. cbn. lia. }
  intros k. destruct (Nat.lt_ge_cases k (length (ops (fst (run step sched (init fx sig0 progs, [])))))) as [Hk|Hk].
  - specialize (HI k Hk). destruct (o_completed _); cbn [b2n] in HI; lia.
  - (* outside the operation table nothing is ever completed *)
    set (s := fst (run step sched (init fx sig0 progs, []))) in *.
    unfold getop. rewrite nth_overflow by exact Hk. cbn. lia.
Qed.


(* ------------------------------------------------------------------------------------------ *)
(* the latch and the list, for ALL programs and schedules                                        *)

Definition cntf (f : act -> nat) (l : list thread) : nat := list_sum (map (fun th => f (pc th)) l).
Lemma cntf_cons f y l : cntf f (y :: l) = f (pc y) + cntf f l.
Proof. reflexivity. Qed.
Lemma cntf_set_nth f t th th' l : nth_error l t = Some th ->
  cntf f (set_nth t th' l) + f (pc th) = cntf f l + f (pc th').
Proof.
  revert t; induction l as [|y l IH]; intros [|t] H; simpl nth_error in H; simpl set_nth; try discriminate.
  - injection H as ->. rewrite !cntf_cons. lia.
  - specialize (IH _ H). rewrite !cntf_cons. lia.
Qed.
Lemma cntf_map_loc f g l : cntf f (map (fun x => t_loc (g x) x) l) = cntf f l.
Proof. unfold cntf. rewrite map_map. reflexivity. Qed.
Lemma cntf_next_cmd_0 f th : (forall c, f (start_of c) = 0) -> f AFin = 0 -> f (pc (next_cmd th)) = 0.
Proof. intros H1 H2. unfold next_cmd. destruct (prog th); cbn; auto. Qed.

Definition f_pub (a : act) : nat := match a with APushPub _ => 1 | _ => 0 end.
Definition f_lat (a : act) : nat := match a with APushLatched _ => 1 | _ => 0 end.
Definition f_spl (a : act) : nat := match a with ASetSplice => 1 | _ => 0 end.
Definition f_srel (a : act) : nat := match a with ASetRel => 1 | _ => 0 end.
Definition f_rrel (a : act) : nat := match a with AResetRel => 1 | _ => 0 end.

Definition hlk (s : st) : nat := match hl s with HFree => 0 | HPush => 1 | HExcl => 2 end.

(* the head lock has exactly one holder, of the right kind; the latch and the list agree *)
Definition LatchInv (s : st) : Prop :=
  let l := thr s in
  (hlk s = 0 -> cntf f_pub l + cntf f_lat l + cntf f_spl l + cntf f_srel l + cntf f_rrel l = 0) /\
  (hlk s = 1 -> cntf f_pub l + cntf f_lat l = 1 /\ cntf f_spl l + cntf f_srel l + cntf f_rrel l = 0) /\
  (hlk s = 2 -> cntf f_pub l + cntf f_lat l = 0 /\ cntf f_spl l + cntf f_srel l + cntf f_rrel l = 1) /\
  (latched s = true -> length (evl s) = 0) /\
  (1 <= cntf f_pub l -> latched s = false) /\
  (1 <= cntf f_srel l -> length (evl s) = 0).

Lemma remove_nat_length x l : length (remove_nat x l) <= length l.
Proof. induction l as [|y l IH]; cbn; [lia|]. destruct (Nat.eqb x y); cbn; lia. Qed.

Lemma step_latch_inv s t s' e : LatchInv s -> step t s = Some (s', e) -> LatchInv s'.
Proof.
  intros HI Hs. unfold step in Hs. destruct (nth_error (thr s) t) as [th|] eqn:E; [|discriminate].
  destruct (pc th) eqn:Epc.
  all: unfold ret, fin_start, goto, touch_state, touch_self, touch_other in Hs.
  all: repeat match type of Hs with
         | context [freed ?x ?k] => destruct (freed x k)
         end.
  all: repeat (unfold upd_thr in Hs; red_st Hs; rewrite ?nth_error_map, ?E in Hs; cbn [option_map] in Hs).
  all: repeat match type of Hs with
         | context [match ?x with _ => _ end] => destruct x eqn:?
         end; try discriminate Hs.
  all: repeat match goal with H : nth_error (thr (_ _)) _ = _ |- _ => red_st H end.
  all: repeat match goal with
       | H : nth_error (thr _) _ = Some ?x, E0 : nth_error (thr _) _ = Some ?y |- _ =>
           lazymatch x with y => fail | _ => rewrite E0 in H; injection H as <- end
       end.
  all: injection Hs as <- _.
  all: unfold LatchInv, hlk, hl_free, hl_excl in *.
  all: cbn [thr ops fixed latched hl evl late_state late_self late_other
            upd_op set_ops set_thr set_evl set_hl set_latched bump_state bump_self bump_other] in *.
  all: try match goal with
       | E0 : nth_error (thr ?S) ?T = Some ?TH |- context [cntf _ (set_nth ?T ?X (thr ?S))] =>
           pose proof (cntf_set_nth f_pub T TH X (thr S) E0) as HP1;
           pose proof (cntf_set_nth f_lat T TH X (thr S) E0) as HP2;
           pose proof (cntf_set_nth f_spl T TH X (thr S) E0) as HP3;
           pose proof (cntf_set_nth f_srel T TH X (thr S) E0) as HP4;
           pose proof (cntf_set_nth f_rrel T TH X (thr S) E0) as HP5
       | E0 : nth_error (thr ?S) ?T = Some ?TH |- context [cntf _ (set_nth ?T ?X (map ?g (thr ?S)))] =>
           let H := fresh in
           assert (H : nth_error (map g (thr S)) T = Some (g TH)) by (rewrite nth_error_map, E0; reflexivity);
           pose proof (cntf_set_nth f_pub T (g TH) X (map g (thr S)) H) as HP1;
           pose proof (cntf_set_nth f_lat T (g TH) X (map g (thr S)) H) as HP2;
           pose proof (cntf_set_nth f_spl T (g TH) X (map g (thr S)) H) as HP3;
           pose proof (cntf_set_nth f_srel T (g TH) X (map g (thr S)) H) as HP4;
           pose proof (cntf_set_nth f_rrel T (g TH) X (map g (thr S)) H) as HP5;
           rewrite cntf_map_loc in HP1, HP2, HP3, HP4, HP5
       end.
  all: cbn [pc t_goto t_loc] in *; rewrite ?Epc in *.
  all: rewrite ?(cntf_next_cmd_0 f_pub), ?(cntf_next_cmd_0 f_lat), ?(cntf_next_cmd_0 f_spl),
         ?(cntf_next_cmd_0 f_srel), ?(cntf_next_cmd_0 f_rrel) in * by (try (intros []); reflexivity).
  all: cbn [f_pub f_lat f_spl f_srel f_rrel length] in *.
  all: try pose proof (remove_nat_length w (evl s)).
  all: destruct (hl s); try discriminate; destruct (latched s); try discriminate.
  all: try match goal with H : evl _ = _ |- _ => rewrite H in *; cbn [length] in * end.
  all: try (repeat split; intros; try discriminate; lia).
Qed.

Theorem latch_inv_reachable (fx sig0 : bool) (progs : list (list cmd)) (sched : list nat) :
  LatchInv (fst (run step sched (init fx sig0 progs, []))).
Proof.
  apply (run_invariant_state st nat ev step LatchInv).
  - intros; eapply step_latch_inv; eauto.
  - assert (Hz : forall f, (forall c, f (start_of c) = 0) -> f AFin = 0 ->
              forall l, cntf f (map (fun p => next_cmd {| prog := p; pc := AFin; kont := KCmd; loc := [] |}) l) = 0).
    { intros f H1 H2. induction l as [|p l IH]; [reflexivity|]. cbn [map].
      rewrite cntf_cons, IH, cntf_next_cmd_0 by assumption. reflexivity. }
    unfold LatchInv, hlk. cbn [fst init thr hl latched evl length].
    rewrite !Hz by (try (intros []); reflexivity). repeat split; intros; try discriminate; lia.
Qed.

(* no stranded wait, for ALL programs and schedules: while the event is latched its waiter list is empty;
   and the lock bit of the head word has exactly one holder *)
Theorem no_waiter_on_latched_event_partial (fx sig0 : bool) (progs : list (list cmd)) (sched : list nat) :
  let s := fst (run step sched (init fx sig0 progs, [])) in
  latched s = true -> evl s = [].
Proof.
  cbv zeta. intros Hl. destruct (latch_inv_reachable fx sig0 progs sched) as (_ & _ & _ & H & _).
  specialize (H Hl). destruct (evl _); [reflexivity|discriminate H].
Qed.

(* ------------------------------------------------------------------------------------------ *)
(* Part 2: reachable-set certificates for fixed thread programs                                *)

(* decidable equality of states *)
Definition outcome_eq_dec : forall a b : outcome, {a = b} + {a <> b}.
Proof. decide equality. Defined.
Definition cmd_eq_dec : forall a b : cmd, {a = b} + {a <> b}.
Proof. decide equality; apply Nat.eq_dec. Defined.
Definition ctx_eq_dec : forall a b : ctx, {a = b} + {a <> b}.
Proof. decide equality. Defined.
Definition how_eq_dec : forall a b : how, {a = b} + {a <> b}.
Proof. decide equality. Defined.
Definition cbst_eq_dec : forall a b : cbst, {a = b} + {a <> b}.
Proof. decide equality. Defined.
Definition hlock_eq_dec : forall a b : hlock, {a = b} + {a <> b}.
Proof. decide equality. Defined.
Definition act_eq_dec : forall a b : act, {a = b} + {a <> b}.
Proof. decide equality; try apply Nat.eq_dec; apply ctx_eq_dec. Defined.
Definition cont_eq_dec : forall a b : cont, {a = b} + {a <> b}.
Proof. decide equality; apply Nat.eq_dec. Defined.
Definition optnat_eq_dec : forall a b : option nat, {a = b} + {a <> b}.
Proof. decide equality; apply Nat.eq_dec. Defined.
Definition opthow_eq_dec : forall a b : option how, {a = b} + {a <> b}.
Proof. decide equality; apply how_eq_dec. Defined.
Definition thread_eq_dec : forall a b : thread, {a = b} + {a <> b}.
Proof.
  decide equality; try apply (list_eq_dec Nat.eq_dec); try apply cont_eq_dec; try apply act_eq_dec.
  apply (list_eq_dec cmd_eq_dec).
Defined.
Definition op_eq_dec : forall a b : op, {a = b} + {a <> b}.
Proof.
  decide equality; try apply Bool.bool_dec; try apply Nat.eq_dec; try apply cbst_eq_dec;
    try apply optnat_eq_dec; try apply opthow_eq_dec.
  apply (list_eq_dec outcome_eq_dec).
Defined.
Definition st_eq_dec : forall a b : st, {a = b} + {a <> b}.
Proof.
  decide equality; try apply Bool.bool_dec; try apply Nat.eq_dec; try apply hlock_eq_dec;
    try apply (list_eq_dec Nat.eq_dec); try apply (list_eq_dec op_eq_dec); apply (list_eq_dec thread_eq_dec).
Defined.

(* a hash of states: the state as a self-delimiting sequence of digits < 64 *)
Local Open Scope N_scope.
Definition nb (b : bool) : N := if b then 1 else 0.
Definition nn (n : nat) : N := N.of_nat n.
Definition d_list {A} (f : A -> list N) (l : list A) : list N := nn (length l) :: flat_map f l.
Definition d_nat (n : nat) : list N := [nn n].
Definition d_ctx (c : ctx) : N := match c with XFast => 0 | XResume => 1 | XStop => 2 end.
Definition d_act (a : act) : list N :=
  match a with
  | AReg w => [0; nn w] | ACbOr w => [1; nn w] | APushClaim w => [2; nn w] | APushPub w => [3; nn w]
  | APushLatched w => [4; nn w] | ASyncLoad w => [5; nn w] | AStartedOr w => [6; nn w]
  | ASyncSpin w => [7; nn w] | ASyncLoad2 w => [8; nn w] | AOrDone w => [9; nn w] | ATryRemove w => [10; nn w]
  | ATryComplete k c => [11; nn k; d_ctx c] | ASyncStore k c => [12; nn k; d_ctx c]
  | AWaitSD k c => [13; nn k; d_ctx c] | ADereg k c => [14; nn k; d_ctx c] | AComplete k c => [15; nn k; d_ctx c]
  | ASetAcq => [16] | ASetSplice => [17] | ASetRel => [18] | ASetPop => [19] | AResetAcq => [20]
  | AResetRel => [21] | AReady => [22] | AReq w => [23; nn w] | ACbRet w => [24; nn w] | AFin => [25]
  end.
Definition d_cont (k : cont) : list N :=
  match k with
  | KCmd => [0] | KStart w => [1; nn w] | KHook w => [2; nn w] | KInline w => [3; nn w]
  | KStopper w => [4; nn w] | KSet => [5]
  end.
Definition d_thread (th : thread) : list N :=
  nn (length (prog th)) :: d_act (pc th) ++ d_cont (kont th) ++ d_list d_nat (loc th).
Definition d_op (o : op) : list N :=
  [nb (o_stopped o) + 2 * nb (o_started o) + 4 * nb (o_completed o) + 8 * nb (o_sd o) + 16 * nb (o_flag o)
     + 32 * nb (o_req o);
   match o_cb o with CbNone => 0 | CbInline => 1 | CbReg => 2 | CbClaimed => 3 | CbGone => 4 end;
   match o_run o with None => 0 | Some r => 1 + nn r end;
   nn (o_owner o);
   match o_how o with None => 0 | Some HLatched => 1 | Some HDrained => 2 | Some HRemoved => 3 end;
   nb (o_ret o)]
  ++ d_list (fun x => [match x with OValue => 0 | ODone => 1 end]) (o_res o).
Definition d_st (s : st) : list N :=
  [nb (fixed s) + 2 * nb (latched s) + 4 * match hl s with HFree => 0 | HPush => 1 | HExcl => 2 end;
   nn (late_state s); nn (late_self s); nn (late_other s)]
  ++ d_list d_nat (evl s) ++ d_list d_op (ops s) ++ d_list d_thread (thr s).
Definition code (s : st) : positive := N.succ_pos (fold_left (fun a d => N.lor (N.shiftl a 6) d) (d_st s) 1).
Local Close Scope N_scope.

Section Reach.
  Definition smap := PositiveMap.t st.

  Definition succs (s : st) : list st :=
    flat_map (fun t => match step t s with Some (s', _) => [s'] | None => [] end) (seq 0 (length (thr s))).

  Definition inR (R : smap) (s : st) : bool :=
    match PositiveMap.find (code s) R with
    | Some s' => if st_eq_dec s s' then true else false
    | None => false
    end.

  Fixpoint add_new (l work : list st) (seen : smap) : list st * smap :=
    match l with
    | [] => (work, seen)
    | s :: r =>
        match PositiveMap.find (code s) seen with
        | Some _ => add_new r work seen
        | None => add_new r (s :: work) (PositiveMap.add (code s) s seen)
        end
    end.

  Fixpoint bfs (fuel : nat) (work : list st) (seen : smap) : smap :=
    match fuel with
    | O => seen
    | S f =>
        match work with
        | [] => seen
        | s :: w => let '(w', seen') := add_new (succs s) w seen in bfs f w' seen'
        end
    end.

  Definition reach (fuel : nat) (s0 : st) : smap :=
    bfs fuel [s0] (PositiveMap.add (code s0) s0 (PositiveMap.empty st)).

  (* a predicate on every state stored in the map (PositiveMap.elements rebuilds every key: far too slow
     for keys of several hundred bits) *)
  Fixpoint tree_forall (f : st -> bool) (m : smap) : bool :=
    match m with
    | PositiveMap.Leaf _ => true
    | PositiveMap.Node l o r =>
        match o with Some x => f x | None => true end && tree_forall f l && tree_forall f r
    end.

  Lemma tree_forall_find f m : tree_forall f m = true ->
    forall k x, PositiveMap.find k m = Some x -> f x = true.
  Proof.
    induction m as [|l IHl o r IHr]; cbn; intros H k x Hk.
    - destruct k; discriminate Hk.
    - apply andb_true_iff in H as [H Hr]. apply andb_true_iff in H as [Ho Hl].
      destruct k as [k|k|]; cbn in Hk.
      + eapply IHr; eauto.
      + eapply IHl; eauto.
      + subst o. exact Ho.
  Qed.

  Definition closed (R : smap) : bool := tree_forall (fun s => forallb (inR R) (succs s)) R.

  Definition all_ok (P : st -> bool) (R : smap) : bool := tree_forall P R.

  Definition check_with (P : st -> bool) (s0 : st) (R : smap) : bool :=
    inR R s0 && closed R && all_ok P R.

  Lemma inR_find R s : inR R s = true -> PositiveMap.find (code s) R = Some s.
  Proof.
    unfold inR. destruct (PositiveMap.find (code s) R) as [s'|] eqn:E; [|discriminate].
    destruct (st_eq_dec s s') as [->|]; [|discriminate]. reflexivity.
  Qed.

  Lemma step_in_succs t s s' evs : step t s = Some (s', evs) -> In s' (succs s).
  Proof.
    intros H. unfold succs. apply in_flat_map. exists t. split.
    - apply in_seq. split; [apply Nat.le_0_l|]. cbn. eapply step_tid; eauto.
    - rewrite H. left. reflexivity.
  Qed.

  Lemma closed_step R : closed R = true ->
    forall s t s' evs, inR R s = true -> step t s = Some (s', evs) -> inR R s' = true.
  Proof.
    intros Hc s t s' evs Hin Hs. unfold closed in Hc.
    pose proof (tree_forall_find _ _ Hc _ _ (inR_find _ _ Hin)) as H. cbv beta in H.
    rewrite forallb_forall in H. apply H. eapply step_in_succs; eauto.
  Qed.

  Theorem check_with_sound P s0 R : check_with P s0 R = true ->
    forall sched, P (fst (run step sched (s0, []))) = true.
  Proof.
    unfold check_with. intros H sched.
    apply andb_true_iff in H as [H H3]. apply andb_true_iff in H as [H1 H2].
    assert (Hin : inR R (fst (run step sched (s0, []))) = true).
    { apply (run_invariant_state st nat ev step (fun s => inR R s = true)); [|exact H1].
      intros s t s' e HI Hs. eapply closed_step; eauto. }
    exact (tree_forall_find _ _ H3 _ _ (inR_find _ _ Hin)).
  Qed.
End Reach.

(* ------------------------------------------------------------------------------------------ *)
(* the properties, as one decidable predicate on states                                       *)

Definition how_eqb (a : option how) (h : how) : bool :=
  match a, h with
  | Some HLatched, HLatched | Some HDrained, HDrained | Some HRemoved, HRemoved => true
  | _, _ => false
  end.

(* the completions of one wait agree with the way it left the list *)
Definition res_ok (o : op) : bool :=
  match o_res o with
  | [] => true
  | [OValue] => how_eqb (o_how o) HLatched || how_eqb (o_how o) HDrained   (* value only if drained by a set() or latched *)
  | [ODone] => how_eqb (o_how o) HRemoved && o_req o                      (* done only if its stop callback removed it *)
  | _ => false                                                            (* at most one completion *)
  end.

(* a wait whose push found the event latched has completed with value when start() returns: no other set()
   is needed *)
Definition fast_ok (o : op) : bool :=
  negb (o_ret o && how_eqb (o_how o) HLatched) ||
  match o_res o with [OValue] => true | _ => false end.

(* what must hold for operation k when every thread has run its whole program *)
Definition final_op_ok (s : st) (k : nat) (o : op) : bool :=
  match o_how o with
  | Some HRemoved => match o_res o with [ODone] => true | _ => false end
  | Some _ => match o_res o with [OValue] => true | _ => false end
  | None =>
      match o_res o with
      | [] => negb (o_ret o) || (mem_nat k (evl s) && negb (o_req o) && negb (latched s))
      | _ => false
      end
  end.

Fixpoint forall_idx {A} (f : nat -> A -> bool) (i : nat) (l : list A) : bool :=
  match l with
  | [] => true
  | x :: r => f i x && forall_idx f (S i) r
  end.

Definition hl_is_free (s : st) : bool := match hl s with HFree => true | _ => false end.

Definition final_ok (s : st) : bool :=
  hl_is_free s && forallb (fun th => match loc th with [] => true | _ => false end) (thr s) &&
  forall_idx (final_op_ok s) 0 (ops s).

Definition P_common (s : st) : bool :=
  forallb res_ok (ops s) &&                                  (* once; value / done agree with the list *)
  forallb fast_ok (ops s) &&                                 (* started while set: completes at once *)
  (negb (latched s) || match evl s with [] => true | _ => false end) &&   (* no waiter on the list of a latched event *)
  (negb (stuck s) || quiescent s) &&                         (* progress: no deadlock *)
  (negb (quiescent s) || final_ok s) &&                      (* no stranded wait, no lost completion *)
  Nat.eqb (late_other s) 0.                                  (* the stop callback object is never touched late *)

Definition P_quiet (s : st) : bool := Nat.eqb (late_state s) 0 && Nat.eqb (late_self s) 0.

(* [q]: quiet_after_completion is demanded *)
Definition P_all (q : bool) (s : st) : bool := P_common s && (if q then P_quiet s else true).

(* ------------------------------------------------------------------------------------------ *)
(* the instances                                                                              *)

Record instance := { i_sig0 : bool; i_progs : list (list cmd); i_quiet : bool }.

Definition instances : list instance :=
  [ {| i_sig0 := false; i_progs := [[CWait 0]; [CSet]; [CStop 0]]; i_quiet := false |};
    {| i_sig0 := false; i_progs := [[CWait 0]; [CSet; CReset]; [CStop 0]]; i_quiet := false |};
    {| i_sig0 := true;  i_progs := [[CWait 0; CReady]; [CReset; CWait 1]; [CStop 0]; [CSet]]; i_quiet := false |};
    {| i_sig0 := false; i_progs := [[CWait 0]; [CWait 1]; [CSet]; [CStop 1]]; i_quiet := false |};
    {| i_sig0 := false; i_progs := [[CWait 0]; [CWait 1]; [CSet]; [CReset]; [CStop 1]]; i_quiet := false |};
    {| i_sig0 := false; i_progs := [[CWait 0]; [CWait 1]; [CSet]; [CStop 0]; [CStop 1]]; i_quiet := false |};
    (* two racing set() *)
    {| i_sig0 := false; i_progs := [[CWait 0]; [CSet]; [CSet]; [CStop 0]]; i_quiet := false |};
    {| i_sig0 := false; i_progs := [[CWait 0]; [CWait 1]; [CSet]; [CSet]]; i_quiet := false |};
    (* the code as it is, paths that do not race start(): the setter is the thread that started the waits *)
    {| i_sig0 := false; i_progs := [[CWait 0; CSet]; [CStop 0]; [CReset]]; i_quiet := true |};
    {| i_sig0 := false; i_progs := [[CWait 0; CWait 1; CSet]; [CStop 0]; [CStop 1]]; i_quiet := true |} ].

Definition check_inst (fx : bool) (i : instance) : bool :=
  let s0 := init fx (i_sig0 i) (i_progs i) in
  check_with (P_all (i_quiet i || fx)) s0 (reach 200000 s0).

Lemma check_all_asis : forallb (check_inst false) instances = true.
Proof. vm_cast_no_check (eq_refl true). Qed.
Lemma check_all_fixed : forallb (check_inst true) instances = true.
Proof. vm_cast_no_check (eq_refl true). Qed.

Theorem P_all_reachable fx i sched : In i instances ->
  P_all (i_quiet i || fx) (fst (run step sched (init fx (i_sig0 i) (i_progs i), []))) = true.
Proof.
  intros Hi.
  assert (H : check_inst fx i = true).
  { destruct fx; [pose proof check_all_fixed as H|pose proof check_all_asis as H];
      rewrite forallb_forall in H; exact (H i Hi). }
  exact (check_with_sound _ _ _ H sched).
Qed.

(* ------------------------------------------------------------------------------------------ *)
(* the statements                                                                             *)

Lemma forallb_nth {A} (f : A -> bool) l d k : forallb f l = true -> k < length l -> f (nth k l d) = true.
Proof. intros H Hk. rewrite forallb_forall in H. apply H. now apply nth_In. Qed.

Lemma forall_idx_nth {A} (f : nat -> A -> bool) l d : forall i k,
  forall_idx f i l = true -> k < length l -> f (i + k) (nth k l d) = true.
Proof.
  induction l as [|x l IH]; intros i k H Hk; cbn in *; [lia|].
  apply andb_true_iff in H as [H1 H2]. destruct k as [|k].
  - now rewrite Nat.add_0_r.
  - replace (i + S k) with (S i + k) by lia. apply IH; [exact H2|lia].
Qed.

Lemma forallb_false_ex {A} (f : A -> bool) l : forallb f l = false -> exists x, In x l /\ f x = false.
Proof.
  induction l as [|x l IH]; cbn; [discriminate|]. intros H. apply andb_false_iff in H as [H|H].
  - exists x. auto.
  - destruct (IH H) as (y & Hy & Hf). exists y. auto.
Qed.

Lemma how_eqb_eq a h : how_eqb a h = true <-> a = Some h.
Proof. destruct a as [[]|], h; cbn; split; intros H; try discriminate; try reflexivity; congruence. Qed.

Section Main.
  Variable fx : bool.
  Variable i : instance.
  Hypothesis Hi : In i instances.
  Variable sched : list nat.
  Let s := fst (run step sched (init fx (i_sig0 i) (i_progs i), [])).

  Lemma P_common_s : P_common s = true.
  Proof.
    pose proof (P_all_reachable fx i sched Hi) as H. unfold P_all in H.
    apply andb_true_iff in H as [H _]. exact H.
  Qed.

  Lemma P_parts :
    forallb res_ok (ops s) = true /\ forallb fast_ok (ops s) = true /\
    (latched s = true -> evl s = []) /\ (stuck s = true -> quiescent s = true) /\
    (quiescent s = true -> final_ok s = true) /\ late_other s = 0.
  Proof.
    pose proof P_common_s as H. unfold P_common in H.
    apply andb_true_iff in H as [H H6]. apply andb_true_iff in H as [H H5].
    apply andb_true_iff in H as [H H4]. apply andb_true_iff in H as [H H3].
    apply andb_true_iff in H as [H1 H2]. apply Nat.eqb_eq in H6.
    repeat split; auto.
    - intros Hl. rewrite Hl in H3. cbn in H3. destruct (evl s); [reflexivity|discriminate].
    - intros Hq. rewrite Hq in H4. exact H4.
    - intros Hq. rewrite Hq in H5. exact H5.
  Qed.

  (* every wait is completed at most once; with set_value only if a set() drained it (and popped it from
     its local list) or its own push found the event latched; with set_done only if its stop callback
     removed it from the list (after a stop request): a cancelled wait is never signalled and a signalled
     wait is never cancelled *)
  Theorem each_wait_once_value_iff_set_done_iff_removed : forall k, k < length (ops s) ->
    let o := getop s k in
    length (o_res o) <= 1 /\
    (o_res o = [OValue] -> o_how o = Some HLatched \/ o_how o = Some HDrained) /\
    (o_res o = [ODone] -> o_how o = Some HRemoved /\ o_req o = true) /\
    (o_how o = Some HRemoved -> o_res o = [] \/ o_res o = [ODone]).
  Proof.
    intros k Hk o. destruct P_parts as (H1 & _).
    pose proof (forallb_nth res_ok (ops s) op0 k H1 Hk) as R. fold (getop s k) in R. fold o in R.
    unfold res_ok in R.
    destruct (o_res o) as [|[] [|? ?]] eqn:E; cbn; try discriminate R; repeat split; try lia;
      try discriminate; intros.
    - left; reflexivity.
    - apply orb_true_iff in R as [R|R]; apply how_eqb_eq in R; auto.
    - apply orb_true_iff in R as [R|R]; apply how_eqb_eq in R; congruence.
    - apply andb_true_iff in R as [R _]. now apply how_eqb_eq in R.
    - apply andb_true_iff in R as [_ R]. exact R.
    - right; reflexivity.
  Qed.

  (* a wait started while the event is set completes with value inside start(), without another set() *)
  Theorem wait_on_set_event_completes_at_once : forall k, k < length (ops s) ->
    let o := getop s k in
    o_how o = Some HLatched -> o_ret o = true -> o_res o = [OValue].
  Proof.
    intros k Hk o Hh Hr. destruct P_parts as (_ & H2 & _).
    pose proof (forallb_nth fast_ok (ops s) op0 k H2 Hk) as R. fold (getop s k) in R. fold o in R.
    unfold fast_ok in R. rewrite Hr, Hh in R. cbn in R.
    destruct (o_res o) as [|[] [|? ?]]; try discriminate R. reflexivity.
  Qed.

  (* no stranded wait, at every moment: while the event is latched its waiter list is empty (a waiter is
     never left on the list of a set event; those drained by set() are on the setter's local list until
     they are resumed) *)
  Theorem no_waiter_on_latched_event : latched s = true -> evl s = [].
  Proof. destruct P_parts as (_ & _ & H3 & _). exact H3. Qed.

  (* progress: a state in which no thread can move is one in which every thread has finished: no spin wait
     (head lock, stack flag, callback deregistration, start_done) is ever left without its releaser *)
  Theorem progress : quiescent s = false -> exists t, step t s <> None.
  Proof.
    intros Hq. destruct P_parts as (_ & _ & _ & H4 & _).
    destruct (stuck s) eqn:E; [rewrite (H4 eq_refl) in Hq; discriminate|].
    unfold stuck in E. apply forallb_false_ex in E. destruct E as (t & _ & Ht).
    exists t. destruct (step t s); [discriminate|discriminate Ht].
  Qed.

  (* when every thread has run its whole program: every wait that left the list has been completed exactly
     once (value if drained or latched, done if removed); every other started wait is still on the list of
     an event that is NOT set and nobody requested its stop (a wait whose stop was requested completes;
     a wait racing with set() is never stranded); the head lock is free and no drained waiter is left
     on a local list *)
  Theorem exactly_once_at_quiescence : quiescent s = true ->
    hl s = HFree /\ (forall th, In th (thr s) -> loc th = []) /\
    forall k, k < length (ops s) ->
      let o := getop s k in
      match o_how o with
      | Some HRemoved => o_res o = [ODone]
      | Some _ => o_res o = [OValue]
      | None => o_res o = [] /\
                (o_ret o = true -> In k (evl s) /\ o_req o = false /\ latched s = false)
      end.
  Proof.
    intros Hq. destruct P_parts as (_ & _ & _ & _ & H5 & _). specialize (H5 Hq).
    unfold final_ok in H5. apply andb_true_iff in H5 as [H5 Hc]. apply andb_true_iff in H5 as [Ha Hb].
    split; [unfold hl_is_free in Ha; destruct (hl s); try discriminate; reflexivity|].
    split.
    - intros th Hin. rewrite forallb_forall in Hb. specialize (Hb th Hin). destruct (loc th); [reflexivity|discriminate].
    - intros k Hk o. pose proof (forall_idx_nth (final_op_ok s) (ops s) op0 0 k Hc Hk) as R.
      cbn in R. fold (getop s k) in R. fold o in R. unfold final_op_ok in R.
      destruct (o_how o) as [[]|]; destruct (o_res o) as [|[] [|? ?]]; try discriminate R; try reflexivity.
      split; [reflexivity|]. intros Hr. rewrite Hr in R. cbn in R.
      apply andb_true_iff in R as [R R3]. apply andb_true_iff in R as [R1 R2].
      apply negb_true_iff in R2, R3. repeat split; auto.
      unfold mem_nat in R1. apply existsb_exists in R1 as (x & Hx & Hxe). apply Nat.eqb_eq in Hxe. now subst.
  Qed.

  (* the stop callback object inside the operation is never touched after the completion (deregistration
     precedes it and waits for a running callback) *)
  Theorem callback_quiet : late_other s = 0.
  Proof. destruct P_parts as (_ & _ & _ & _ & _ & H6). exact H6. Qed.

  (* quiet_after_completion for the repaired cancellable, and for the code as it is on the instances whose
     set() cannot race a start() (i_quiet) *)
  Theorem quiet_after_completion_partial : fx = true \/ i_quiet i = true ->
    late_state s = 0 /\ late_self s = 0 /\ late_other s = 0.
  Proof.
    intros Hc. pose proof (P_all_reachable fx i sched Hi) as H. fold s in H. unfold P_all in H.
    apply andb_true_iff in H as [_ H].
    assert (E : i_quiet i || fx = true).
    { destruct Hc as [->| ->]; [apply orb_true_r|reflexivity]. }
    rewrite E in H. unfold P_quiet in H. apply andb_true_iff in H as [H1 H2].
    apply Nat.eqb_eq in H1, H2. repeat split; auto. apply callback_quiet.
  Qed.
End Main.
