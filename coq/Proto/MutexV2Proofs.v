(* Proofs about the MutexV2 model (v2::async_mutex with cancellable waiters). *)
From Coq Require Import List Bool Arith Lia.
From V Require Import Base.Sched Proto.MutexV2Defs.
Import ListNotations.
Import MutexV2.

(* ------------------------------------------------------------------ list facts *)
Section ListFacts.
Context {A : Type}.

Lemma length_set_nth (l : list A) n x : length (set_nth n x l) = length l.
Proof. revert n; induction l; destruct n; simpl; auto. Qed.

Lemma nth_set_nth (l : list A) n m x :
  nth_error (set_nth n x l) m =
  if Nat.eqb n m then match nth_error l n with Some _ => Some x | None => None end
  else nth_error l m.
Proof.
  revert n m; induction l as [|a l IH]; intros n m.
  - destruct n, m; simpl; try reflexivity; destruct (Nat.eqb n m); reflexivity.
  - destruct n, m; simpl; try reflexivity. apply IH.
Qed.

Definition sumf (f : A -> nat) (l : list A) : nat := list_sum (map f l).

Lemma sumf_set_nth f (l : list A) n x y :
  nth_error l n = Some y -> sumf f (set_nth n x l) + f y = sumf f l + f x.
Proof.
  unfold sumf. revert n; induction l as [|a l IH]; intros n H.
  - destruct n; discriminate.
  - destruct n; simpl in *.
    + inversion H; subst. lia.
    + specialize (IH _ H). lia.
Qed.

Lemma sumf_nth_le f (l : list A) n y : nth_error l n = Some y -> f y <= sumf f l.
Proof.
  unfold sumf. revert n; induction l as [|a l IH]; intros n H.
  - destruct n; discriminate.
  - destruct n; simpl in *.
    + inversion H; subst. lia.
    + specialize (IH _ H). lia.
Qed.

Lemma sumf_zero f (l : list A) : (forall n x, nth_error l n = Some x -> f x = 0) -> sumf f l = 0.
Proof.
  unfold sumf. induction l as [|a l IH]; intros H; simpl; auto.
  rewrite (H 0 a eq_refl). apply IH. intros n x Hn. apply (H (S n) x Hn).
Qed.

Lemma sumf_pos_ex f (l : list A) : 1 <= sumf f l -> exists n x, nth_error l n = Some x /\ 1 <= f x.
Proof.
  unfold sumf. induction l as [|a l IH]; simpl; intros H; [lia|].
  destruct (f a) eqn:E.
  - destruct (IH H) as [n [x [H1 H2]]]. exists (S n), x. auto.
  - exists 0, a. split; auto. lia.
Qed.

Lemma existsb_sumf (g : A -> bool) f (l : list A) :
  (forall x, g x = true <-> 1 <= f x) -> (existsb g l = false <-> sumf f l = 0).
Proof.
  intros Hg. unfold sumf. induction l as [|a l IH]; simpl; [tauto|].
  rewrite orb_false_iff, IH. specialize (Hg a). destruct (g a); split; intros H.
  - destruct H; discriminate.
  - assert (1 <= f a) by (apply Hg; auto). lia.
  - destruct H as [_ H]. assert (f a = 0). { destruct (f a); auto. assert (true = true -> False); [|tauto]. intros _. assert (X : false = true) by (apply Hg; lia). discriminate. } lia.
  - split; auto. lia.
Qed.
End ListFacts.

Lemma count_app_single (l : list nat) x k :
  count_occ Nat.eq_dec (l ++ [x]) k = count_occ Nat.eq_dec l k + (if Nat.eqb x k then 1 else 0).
Proof.
  rewrite count_occ_app. simpl. destruct (Nat.eq_dec x k); destruct (Nat.eqb_spec x k); try congruence; lia.
Qed.

Lemma count_remove_nat (l : list nat) x k :
  count_occ Nat.eq_dec (remove_nat x l) k + (if Nat.eqb x k then (if mem_nat x l then 1 else 0) else 0)
  = count_occ Nat.eq_dec l k.
Proof.
  induction l as [|y l IH]; simpl.
  - destruct (Nat.eqb x k); reflexivity.
  - unfold mem_nat in *. simpl. destruct (Nat.eqb_spec x y).
    + subst. simpl. destruct (Nat.eq_dec y k); destruct (Nat.eqb_spec y k); try congruence; lia.
    + simpl. destruct (Nat.eq_dec y k); destruct (Nat.eqb_spec x k); simpl in *; try lia.
Qed.

Lemma mem_nat_count (l : list nat) x : mem_nat x l = true <-> 1 <= count_occ Nat.eq_dec l x.
Proof.
  unfold mem_nat. induction l as [|y l IH]; simpl.
  - split; [discriminate|lia].
  - destruct (Nat.eq_dec y x); destruct (Nat.eqb_spec x y); try congruence; simpl.
    + split; intros; [lia|auto].
    + exact IH.
Qed.

(* ------------------------------------------------------------------ counting over threads *)
Definition eqn (i k : nat) : nat := if Nat.eqb i k then 1 else 0.

(* try_complete(k) has been won by this thread; it is on its way to complete the receiver *)
Definition is_post (k : nat) (x : act * cont) : nat :=
  match x with
  | (ASyncStore i _, _) | (ADeregAcq i _, _) | (ADeregRel i _ _, _) | (ADeregWait i _, _) | (AHop i _, _) => eqn i k
  | _ => 0
  end.

(* the thread holds THE handle of operation k: the right to call try_complete(k).  The handle
   starts with the locker's thread, moves into the queue with push_back, leaves it with
   pop_front / try_remove, and is consumed by try_complete *)
Definition is_pre (k : nat) (x : act * cont) : nat :=
  match x with
  | (AReg i, _) | (ARegRel i, _) | (AEarly i, _) | (ATryLock i, _) | (APush i, _) => eqn i k
  | (ACbOr i, KInlineCb _) => eqn i k
  | (ATryComplete i _, _) => eqn i k
  | _ => 0
  end.

(* ... and the handle has not taken the cancellation path *)
Definition is_lockish (k : nat) (x : act * cont) : nat :=
  match x with
  | (AReg i, _) | (ARegRel i, _) | (AEarly i, _) | (ATryLock i, _) | (APush i, _) => eqn i k
  | (ACbOr i, KInlineCb _) => eqn i k
  | (ATryComplete i c, _) | (ASyncStore i c, _) | (ADeregAcq i c, _) | (ADeregRel i c _, _)
  | (ADeregWait i c, _) | (AHop i c, _) => if is_lock_ctx c then eqn i k else 0
  | _ => 0
  end.

Definition is_poppub (x : act * cont) : nat := match x with (APopPub _, _) => 1 | _ => 0 end.

Definition inq (s : st) (k : nat) : nat := count_occ Nat.eq_dec (queue s) k.
Definition handles (s : st) (k : nat) : nat := sumf (is_pre k) (thr s) + inq s k.
Definition lockish (s : st) (k : nat) : nat := sumf (is_lockish k) (thr s) + inq s k.
Definition posts (s : st) (k : nat) : nat := sumf (is_post k) (thr s).
Definition thr_tok (s : st) : nat := sumf (fun x => act_tok (fst x)) (thr s).
Definition ops_tok (s : st) : nat := sumf (fun k => op_tok (ops s k)) (seq 0 (nl s)).

Lemma tokens_eq s : tokens s = thr_tok s + ops_tok s.
Proof. reflexivity. Qed.

(* the operation an activity works on, with the try_complete context *)
Definition compl_of (a : act) : option (nat * ctx) :=
  match a with
  | ATryComplete k c | ASyncStore k c | ADeregAcq k c | ADeregRel k c _ | ADeregWait k c | AHop k c => Some (k, c)
  | _ => None
  end.

(* activities / continuations that only exist after started_ = true *)
Definition after_started (x : act * cont) : option nat :=
  match x with
  | (ASyncLoad i, _) | (AStartedOr i, _) | (ASyncSpin i, _) | (ATryLock i, _) | (APush i, _) | (APushPub i, _) => Some i
  | (_, KAfterStart i) => Some i
  | _ => None
  end.

(* indices mentioned by a thread (operations, not thread ids) *)
Definition act_ix (a : act) : option nat :=
  match a with
  | AReg i | ARegRel i | AEarly i | ATryLock i | APush i | APushPub i | APopPub i
  | ATryComplete i _ | ASyncStore i _ | ADeregAcq i _ | ADeregRel i _ _ | ADeregWait i _ | AHop i _
  | ASyncLoad i | AStartedOr i | ASyncSpin i | ATryRemove i | ACbOr i
  | SAcq i | SRel i _ | SCbDone i | SAcq2 i | SRel2 i | AWaitGot i => Some i
  | _ => None
  end.
Definition cont_ix (k : cont) : option nat :=
  match k with
  | KEnd => None
  | KTop i | KAfterStart i | KInlineCb i | KStopper i => Some i
  end.

(* activities / continuations that occur on the locker's own thread only *)
Definition own_a (a : act) : option nat :=
  match a with
  | AReg i | ARegRel i | AEarly i | ATryLock i | APush i | APushPub i
  | ASyncLoad i | AStartedOr i | ASyncSpin i | AWaitGot i => Some i
  | _ => None
  end.
Definition own_k (k : cont) : option nat :=
  match k with
  | KTop i | KAfterStart i | KInlineCb i => Some i
  | _ => None
  end.
(* thread i has certainly not yet reached its fetch_or(started) *)
Definition pre_start (x : act * cont) : option nat :=
  match x with
  | (AReg i, _) | (ARegRel i, _) | (AEarly i, _) => Some i
  | (ACbOr i, KInlineCb _) => Some i
  | _ => None
  end.

Record Inv (s : st) : Prop := {
  v_wf_a : forall t a kc i, nth_error (thr s) t = Some (a, kc) -> act_ix a = Some i -> i < nl s;
  v_wf_k : forall t a kc i, nth_error (thr s) t = Some (a, kc) -> cont_ix kc = Some i -> i < nl s;
  v_wf_q : forall i, In i (queue s) -> i < nl s;
  (* the start sequence of locker i runs on thread i *)
  v_own_a : forall t a kc i, nth_error (thr s) t = Some (a, kc) -> own_a a = Some i -> t = i;
  v_own_k : forall t a kc i, nth_error (thr s) t = Some (a, kc) -> own_k kc = Some i -> t = i;
  (* an inline-executed stop callback (stop requested before registration) never calls stop() *)
  v_ki : forall t a i, nth_error (thr s) t = Some (a, KInlineCb i) -> a = ACbOr i;
  v_bs : forall t x i, nth_error (thr s) t = Some x -> pre_start x = Some i -> o_started (ops s i) = false;
  (* one handle per operation; while it exists the operation is not completed *)
  v_hs1 : forall k, handles s k <= 1;
  v_hs2 : forall k, handles s k = 1 -> o_completed (ops s k) = false;
  (* the winner of try_complete completes the receiver exactly once *)
  v_ps : forall k, posts s k + length (o_res (ops s k)) = b2n (o_completed (ops s k));
  (* cancelled_ is set only on the cancellation path, which excludes the lock path *)
  v_cs : forall k, o_cancelled (ops s k) = true -> lockish s k = 0;
  v_ci : forall t a kc k c, nth_error (thr s) t = Some (a, kc) -> compl_of a = Some (k, c) ->
         is_lock_ctx c = false -> o_cancelled (ops s k) = true;
  v_s1 : forall k, o_started (ops s k) = true -> o_started_ (ops s k) = true;
  v_as : forall t x i, nth_error (thr s) t = Some x -> after_started x = Some i -> o_started_ (ops s i) = true;
  v_rs : forall k, o_released (ops s k) = true -> o_res (ops s k) = [OValue];
  (* a taken item stays in the queue until the pop publishes; one pop at a time *)
  v_pp : forall t x kc, nth_error (thr s) t = Some (APopPub x, kc) -> 1 <= inq s x;
  v_pu : sumf is_poppub (thr s) <= 1;
  (* mutual exclusion / conservation of the lock *)
  v_tok : tokens s <= b2n (locked s);
  v_tokf : fixed s = true -> tokens s = b2n (locked s)
}.

(* ------------------------------------------------------------------ tactics *)
Ltac break_match H :=
  repeat (cbv beta iota zeta in H; cbn [fst snd] in H;
          match type of H with
          | context [if ?b then _ else _] => destruct b eqn:?
          | context [match ?x with _ => _ end] => destruct x eqn:?
          end);
  cbv beta iota zeta in H; cbn [fst snd] in H.

(* case analysis of one step: one goal per activity and branch, [s'] replaced by its value *)
Ltac step_split H Hth :=
  unfold step in H;
  match type of H with context [nth_error (thr ?s) ?t] =>
    let a := fresh "a" in let kc := fresh "kc" in
    destruct (nth_error (thr s) t) as [[a kc]|] eqn:Hth; [|discriminate];
    destruct a end;
  unfold ret, go_cleanup, go_hop, deliver, do_stop in H;
  break_match H; try discriminate;
  inversion H; subst; clear H.

Ltac use_sum Hth :=
  repeat match goal with
  | |- context [sumf ?f (set_nth ?t ?x (thr ?s))] =>
      let C := fresh "C" in
      pose proof (sumf_set_nth f (thr s) t x _ Hth) as C; simpl in C;
      let v := fresh "v" in
      remember (sumf f (set_nth t x (thr s))) as v eqn:Ev; clear Ev
  | H : context [sumf ?f (set_nth ?t ?x (thr ?s))] |- _ =>
      let C := fresh "C" in
      pose proof (sumf_set_nth f (thr s) t x _ Hth) as C; simpl in C;
      let v := fresh "v" in
      remember (sumf f (set_nth t x (thr s))) as v eqn:Ev; clear Ev
  end.

Ltac eqb_cases :=
  unfold eqn in *;
  repeat match goal with
  | |- context [Nat.eqb ?a ?b] => destruct (Nat.eqb_spec a b)
  | H : context [Nat.eqb ?a ?b] |- _ => destruct (Nat.eqb_spec a b)
  end.

(* the current thread's continuation is not KInlineCb unless it runs the stop callback *)
Ltac kill_ki I Hth :=
  match type of Hth with
  | nth_error _ _ = Some (_, KInlineCb _) =>
      let X := fresh in pose proof (v_ki _ I _ _ _ Hth) as X; discriminate X
  end.

Lemma nth_thr_cases {A} (l : list A) t t0 x y z :
  nth_error l t = Some y -> nth_error (set_nth t x l) t0 = Some z ->
  (t0 = t /\ z = x) \/ (t0 <> t /\ nth_error l t0 = Some z).
Proof.
  intros H1 H2. rewrite nth_set_nth in H2. destruct (Nat.eqb_spec t t0).
  - subst. rewrite H1 in H2. inversion H2. auto.
  - right. auto.
Qed.

(* ------------------------------------------------------------------ preservation, clause by clause *)
Lemma in_remove_nat x l i : In i (remove_nat x l) -> In i l.
Proof.
  induction l as [|y l IH]; simpl; auto. destruct (Nat.eqb x y); simpl; intros H; auto.
  destruct H; auto.
Qed.

Lemma step_consts s t s' evs : step t s = Some (s', evs) -> fixed s' = fixed s /\ nl s' = nl s.
Proof. intros H. step_split H Hth; simpl; auto. Qed.

Ltac destr_if :=
  repeat match goal with
  | H : context [if ?b then _ else _] |- _ => destruct b eqn:?
  | |- context [if ?b then _ else _] => destruct b eqn:?
  end.

Ltac wf_same I Hth :=
  first [ eapply (v_wf_a _ I _ _ _ _ Hth); simpl; reflexivity
        | eapply (v_wf_k _ I _ _ _ _ Hth); simpl; reflexivity
        | eapply (v_wf_q _ I); match goal with E : queue _ = _ |- _ => rewrite E; simpl; auto end ].

Lemma step_wf s t s' evs : Inv s -> step t s = Some (s', evs) ->
  (forall t0 a kc i, nth_error (thr s') t0 = Some (a, kc) -> act_ix a = Some i -> i < nl s') /\
  (forall t0 a kc i, nth_error (thr s') t0 = Some (a, kc) -> cont_ix kc = Some i -> i < nl s') /\
  (forall i, In i (queue s') -> i < nl s').
Proof.
  intros I H. split; [|split].
  - intros t0 a0 kc0 i0 H0 Hi. step_split H Hth; simpl in *;
    (destruct (nth_thr_cases _ _ _ _ _ _ Hth H0) as [[-> E]|[N E]];
     [inversion E; subst; clear E; try (destruct kc; simpl in *; try kill_ki I Hth); destr_if;
      try discriminate; inversion Hi; subst; wf_same I Hth
     | eapply (v_wf_a _ I); eauto]).
  - intros t0 a0 kc0 i0 H0 Hi. step_split H Hth; simpl in *;
    (destruct (nth_thr_cases _ _ _ _ _ _ Hth H0) as [[-> E]|[N E]];
     [inversion E; subst; clear E; try (destruct kc; simpl in *; try kill_ki I Hth); destr_if;
      try discriminate; inversion Hi; subst; wf_same I Hth
     | eapply (v_wf_k _ I); eauto]).
  - intros i0 Hi. step_split H Hth; simpl in *; try (eapply (v_wf_q _ I); eauto; fail).
    + apply in_app_or in Hi. destruct Hi as [Hi|[Hi|[]]]; [eapply (v_wf_q _ I); eauto|].
      subst. wf_same I Hth.
    + eapply (v_wf_q _ I). eapply in_remove_nat; eauto.
    + eapply (v_wf_q _ I). eapply in_remove_nat; eauto.
Qed.

Lemma step_own s t s' evs : Inv s -> step t s = Some (s', evs) ->
  (forall t0 a kc i, nth_error (thr s') t0 = Some (a, kc) -> own_a a = Some i -> t0 = i) /\
  (forall t0 a kc i, nth_error (thr s') t0 = Some (a, kc) -> own_k kc = Some i -> t0 = i) /\
  (forall t0 a i, nth_error (thr s') t0 = Some (a, KInlineCb i) -> a = ACbOr i).
Proof.
  intros I H. split; [|split].
  - intros t0 a0 kc0 i0 H0 Hi. step_split H Hth; simpl in *;
    (destruct (nth_thr_cases _ _ _ _ _ _ Hth H0) as [[-> E]|[N E]];
     [inversion E; subst; clear E; try (destruct kc; simpl in *; try kill_ki I Hth); destr_if;
      try discriminate; inversion Hi; subst;
      first [ eapply (v_own_a _ I _ _ _ _ Hth); simpl; reflexivity
            | eapply (v_own_k _ I _ _ _ _ Hth); simpl; reflexivity ]
     | eapply (v_own_a _ I); eauto]).
  - intros t0 a0 kc0 i0 H0 Hi. step_split H Hth; simpl in *;
    (destruct (nth_thr_cases _ _ _ _ _ _ Hth H0) as [[-> E]|[N E]];
     [inversion E; subst; clear E; try (destruct kc; simpl in *; try kill_ki I Hth); destr_if;
      try discriminate; inversion Hi; subst;
      first [ eapply (v_own_a _ I _ _ _ _ Hth); simpl; reflexivity
            | eapply (v_own_k _ I _ _ _ _ Hth); simpl; reflexivity ]
     | eapply (v_own_k _ I); eauto]).
  - intros t0 a0 i0 H0. step_split H Hth; simpl in *;
    (destruct (nth_thr_cases _ _ _ _ _ _ Hth H0) as [[-> E]|[N E]];
     [inversion E; subst; clear E; try (destruct kc; simpl in *; try kill_ki I Hth); destr_if;
      try discriminate; try reflexivity; try kill_ki I Hth;
      try (match goal with E : (_, _) = (_, _) |- _ => inversion E; subst end; try reflexivity; try kill_ki I Hth)
     | eapply (v_ki _ I); eauto]).
    all: pose proof (v_bs _ I _ _ _ Hth eq_refl) as B; unfold getop in *; rewrite B in *;
         rewrite ?andb_false_r in *; simpl in *; discriminate.
Qed.

Lemma pre_start_own s t x i : Inv s -> nth_error (thr s) t = Some x -> pre_start x = Some i -> t = i.
Proof.
  intros I H Hp. destruct x as [a kc].
  destruct a; simpl in Hp; try discriminate;
    try (inversion Hp; subst; eapply (v_own_a _ I); eauto; reflexivity).
  destruct kc; try discriminate. inversion Hp; subst.
  pose proof (v_ki _ I _ _ _ H) as X. inversion X; subst.
  eapply (v_own_k _ I); eauto.
Qed.

Lemma step_bs s t s' evs : Inv s -> step t s = Some (s', evs) ->
  forall t0 x i, nth_error (thr s') t0 = Some x -> pre_start x = Some i -> o_started (ops s' i) = false.
Proof.
  intros I H t0 x i0 H0 Hp. step_split H Hth; simpl in *;
  (destruct (nth_thr_cases _ _ _ _ _ _ Hth H0) as [[-> E]|[N E]];
   [ subst x; try (destruct kc; simpl in *; try kill_ki I Hth); destr_if; try discriminate;
     inversion Hp; subst;
     (pose proof (v_bs _ I _ _ _ Hth eq_refl) as B; unfold getop in *; simpl in *; destr_if; simpl; auto)
   | pose proof (v_bs _ I _ _ _ E Hp) as B; unfold getop in *; simpl in *; destr_if; simpl; auto ]).
  all: try (match goal with Q : (_ =? _) = true |- true = false => apply Nat.eqb_eq in Q; subst end;
            exfalso; apply N;
            rewrite (pre_start_own _ _ _ _ I E Hp);
            symmetry; eapply (v_own_a _ I _ _ _ _ Hth); reflexivity).
  all: pose proof (v_ki _ I _ _ _ Hth) as X; inversion X; subst; exact B.
Qed.

Ltac count_simp :=
  repeat rewrite count_app_single in *;
  repeat match goal with
  | |- context [count_occ Nat.eq_dec (remove_nat ?x ?l) ?k] =>
      let R := fresh "R" in pose proof (count_remove_nat l x k) as R;
      let v := fresh "v" in remember (count_occ Nat.eq_dec (remove_nat x l) k) as v eqn:Ev; clear Ev
  end.

Ltac requeue := repeat match goal with E : queue ?s = _ |- context [queue ?s] => rewrite E end.

Lemma andb3_true a b c : a && b && c = true -> a = true /\ b = true /\ c = true.
Proof. destruct a, b, c; simpl; intros; try discriminate; auto. Qed.

(* facts about the moving thread that the arithmetic needs *)
Ltac side_facts I Hth :=
  unfold getop in *;
  try match type of Hth with nth_error _ _ = Some (ACbOr _, KInlineCb _) =>
        let X := fresh "X" in pose proof (v_ki _ I _ _ _ Hth) as X; inversion X; subst; clear X
      end;
  try match type of Hth with nth_error _ _ = Some (APopPub ?x, _) =>
        let P := fresh "P" in pose proof (v_pp _ I _ _ _ Hth) as P; unfold inq in P;
        let M := fresh "M" in assert (M : mem_nat x (queue _) = true) by (apply mem_nat_count; exact P)
      end;
  repeat match goal with
  | Q : _ && _ = true |- _ => apply andb_prop in Q; destruct Q
  | Q : negb _ = true |- _ => apply negb_true_iff in Q
  end;
  simpl in *; rewrite ?Nat.eqb_refl in *; simpl in *.

Ltac use_mem :=
  repeat match goal with Q : mem_nat ?x ?l = true, R : context [mem_nat ?x ?l] |- _ => rewrite Q in R end.

(* stop() reached with started_ = false although state_ has the started bit: impossible *)
Ltac kill_early I Hth :=
  exfalso;
  match goal with
  | Q : o_started (ops ?s ?i) = true, Q' : o_started_ (ops ?s ?i) = false |- _ =>
      rewrite (v_s1 _ I i Q) in Q'; discriminate Q'
  | Q' : o_started_ (ops ?s ?i) = false |- _ =>
      rewrite (v_as _ I _ _ i Hth eq_refl) in Q'; discriminate Q'
  end.

Lemma handles_mono s t s' evs : Inv s -> step t s = Some (s', evs) -> forall k, handles s' k <= handles s k.
Proof.
  intros I H k.
  assert (G : forall h0, handles s k <= h0 -> handles s' k <= h0); [|apply G; apply le_n].
  intros h0 E0.
  step_split H Hth; unfold handles, inq in *; simpl; try (destruct kc; simpl; try kill_ki I Hth); destr_if;
    use_sum Hth; count_simp; try (eqb_cases; lia);
    side_facts I Hth; try (kill_early I Hth); try (use_mem; eqb_cases; lia).
Qed.

(* the step of a thread whose activity is known *)
Ltac step_at H Hth :=
  unfold step in H; rewrite Hth in H;
  unfold ret, go_cleanup, go_hop, deliver, do_stop in H;
  break_match H; try discriminate;
  inversion H; subst; clear H.

Lemma handles_tc s t s' evs k c kc : Inv s -> step t s = Some (s', evs) ->
  nth_error (thr s) t = Some (ATryComplete k c, kc) -> handles s' k + 1 <= handles s k.
Proof.
  intros I H Hth.
  assert (G : forall h0, handles s k <= h0 -> handles s' k + 1 <= h0); [|apply G; apply le_n].
  intros h0 E0.
  step_at H Hth; unfold handles, inq in *; simpl; try (destruct kc; simpl; try kill_ki I Hth); destr_if;
    use_sum Hth; count_simp; try (eqb_cases; lia).
Qed.

Lemma completed_change s t s' evs k : step t s = Some (s', evs) ->
  o_completed (ops s' k) = true ->
  o_completed (ops s k) = true \/ exists c kc, nth_error (thr s) t = Some (ATryComplete k c, kc).
Proof.
  intros H Hc.
  step_split H Hth; simpl in *; unfold getop in *; destr_if; simpl in *; auto;
    try (match goal with Q : (_ =? _) = true |- _ => apply Nat.eqb_eq in Q; subst end; simpl in *; auto);
    try (right; eauto).
Qed.

Lemma step_hs s t s' evs : Inv s -> step t s = Some (s', evs) ->
  (forall k, handles s' k <= 1) /\ (forall k, handles s' k = 1 -> o_completed (ops s' k) = false).
Proof.
  intros I H. split.
  - intros k. pose proof (handles_mono _ _ _ _ I H k). pose proof (v_hs1 _ I k). lia.
  - intros k Hk. destruct (o_completed (ops s' k)) eqn:Ec; auto. exfalso.
    pose proof (handles_mono _ _ _ _ I H k) as M. pose proof (v_hs1 _ I k) as H1.
    destruct (completed_change _ _ _ _ k H Ec) as [Hc|[c [kc Hth]]].
    + assert (handles s k = 1) by lia. rewrite (v_hs2 _ I k) in Hc by auto. discriminate.
    + pose proof (handles_tc _ _ _ _ _ _ _ I H Hth). lia.
Qed.

(* variants that do not substitute the caller's equations *)
Ltac step_split' H Hth :=
  unfold step in H;
  match type of H with context [nth_error (thr ?s) ?t] =>
    let a := fresh "a" in let kc := fresh "kc" in
    destruct (nth_error (thr s) t) as [[a kc]|] eqn:Hth; [|discriminate];
    destruct a end;
  unfold ret, go_cleanup, go_hop, deliver, do_stop in H;
  break_match H; try discriminate;
  injection H as <- <-.

Ltac step_at' H Hth :=
  unfold step in H; rewrite Hth in H;
  unfold ret, go_cleanup, go_hop, deliver, do_stop in H;
  break_match H; try discriminate;
  injection H as <- <-.

Ltac rw_completed :=
  repeat match goal with
  | Q : o_completed ?o = _, E : context [b2n (o_completed ?o)] |- _ => rewrite Q in E
  | Q : o_completed ?o = _ |- context [b2n (o_completed ?o)] => rewrite Q
  end.

Lemma step_ps s t s' evs : Inv s -> step t s = Some (s', evs) ->
  forall k, posts s' k + length (o_res (ops s' k)) = b2n (o_completed (ops s' k)).
Proof.
  intros I H k.
  pose proof (v_ps _ I k) as E0.
  step_split' H Hth; unfold posts in *; simpl; try (destruct kc; simpl; try kill_ki I Hth); destr_if;
    use_sum Hth; unfold getop in *; simpl in *;
    eqb_cases; subst; simpl in *; rw_completed; simpl in *; try congruence; try lia.
Qed.

Lemma sumf_le {A} (f g : A -> nat) l : (forall x, f x <= g x) -> sumf f l <= sumf g l.
Proof. intros H. unfold sumf. induction l; simpl; auto. specialize (H a). lia. Qed.

Lemma sumf_add {A} (f g : A -> nat) l : sumf (fun x => f x + g x) l = sumf f l + sumf g l.
Proof. unfold sumf. induction l; simpl; auto. lia. Qed.

Lemma lockish_le1 s k : Inv s -> lockish s k <= 1.
Proof.
  intros I. unfold lockish.
  assert (L : sumf (is_lockish k) (thr s) <= sumf (is_pre k) (thr s) + sumf (is_post k) (thr s)).
  { rewrite <- sumf_add. apply sumf_le. intros [a kc]. destruct a; simpl; try lia;
      try (destruct c; simpl; lia); try (destruct kc; simpl; lia). }
  pose proof (v_hs1 _ I k) as H1. pose proof (v_hs2 _ I k) as H2. pose proof (v_ps _ I k) as P.
  unfold handles, posts in *.
  destruct (Nat.eq_dec (sumf (is_pre k) (thr s) + inq s k) 1) as [E|E].
  - rewrite (H2 E) in P. simpl in P. lia.
  - destruct (o_completed (ops s k)); simpl in P; lia.
Qed.

Lemma step_cs s t s' evs : Inv s -> step t s = Some (s', evs) ->
  forall k, o_cancelled (ops s' k) = true -> lockish s' k = 0.
Proof.
  intros I H k Hc.
  pose proof (v_cs _ I k) as E0. pose proof (lockish_le1 s k I) as L1.
  step_split' H Hth; unfold lockish, inq in *; simpl; try (destruct kc; simpl; try kill_ki I Hth); destr_if;
    use_sum Hth; count_simp; unfold getop in *; simpl in *;
    eqb_cases; subst; simpl in *; try (specialize (E0 Hc)); try lia;
    side_facts I Hth; try (kill_early I Hth); try (use_mem; eqb_cases; lia).

Qed.

Lemma cancelled_mono s t s' evs k : step t s = Some (s', evs) ->
  o_cancelled (ops s k) = true -> o_cancelled (ops s' k) = true.
Proof.
  intros H Hc. step_split' H Hth; simpl; unfold getop in *; destr_if; simpl; auto.
Qed.

Lemma started__mono s t s' evs k : step t s = Some (s', evs) ->
  o_started_ (ops s k) = true -> o_started_ (ops s' k) = true.
Proof.
  intros H Hc. step_split' H Hth; simpl; unfold getop in *; destr_if; simpl; auto.
Qed.

Lemma step_ci s t s' evs : Inv s -> step t s = Some (s', evs) ->
  forall t0 a kc k c, nth_error (thr s') t0 = Some (a, kc) -> compl_of a = Some (k, c) ->
  is_lock_ctx c = false -> o_cancelled (ops s' k) = true.
Proof.
  intros I H t0 a0 kc0 k0 c0 H0 Hc Hl.
  pose proof (cancelled_mono _ _ _ _ k0 H) as M.
  step_split' H Hth; simpl in H0;
  (destruct (nth_thr_cases _ _ _ _ _ _ Hth H0) as [[-> E]|[N E]];
   [ injection E as Ea Ek; subst a0 kc0; try (destruct kc; simpl in Hc; try kill_ki I Hth);
     repeat match type of Hc with context [if ?b then _ else _] => destruct b eqn:? end;
     simpl in Hc; try discriminate Hc;
     injection Hc as Ek0 Ec0; subst k0 c0; try discriminate Hl;
     try first [ apply M; eapply (v_ci _ I _ _ _ _ _ Hth); [reflexivity|assumption]
           | unfold getop in *; simpl; rewrite ?Nat.eqb_refl; simpl; reflexivity ]
   | apply M; eapply (v_ci _ I); eauto ]).

Qed.
