(* Proofs about the MutexV2 model (v2::async_mutex with cancellable waiters). *)
From Coq Require Import List Bool Arith Lia.
From V Require Import Base.Sched Proto.MutexV2Defs.
Import ListNotations.
Import MutexV2.

(* ------------------------------------------------------------------ list facts *)
Section ListFacts.
Context {A : Type}.

Lemma length_set_nth (l : list A) n x : length (set_nth n x l) = length l.
Proof. revert n; induction l; destruct n; simpl; auto. Qed.

Lemma nth_set_nth (l : list A) n m x :
  nth_error (set_nth n x l) m =
  if Nat.eqb n m then match nth_error l n with Some _ => Some x | None => None end
  else nth_error l m.
Proof.
  revert n m; induction l as [|a l IH]; intros n m.
  - destruct n, m; simpl; try reflexivity; destruct (Nat.eqb n m); reflexivity.
  - destruct n, m; simpl; try reflexivity. apply IH.
Qed.

Definition sumf (f : A -> nat) (l : list A) : nat := list_sum (map f l).

Lemma sumf_set_nth f (l : list A) n x y :
  nth_error l n = Some y -> sumf f (set_nth n x l) + f y = sumf f l + f x.
Proof.
  unfold sumf. revert n; induction l as [|a l IH]; intros n H.
  - destruct n; discriminate.
  - destruct n; simpl in *.
    + inversion H; subst. lia.
    + specialize (IH _ H). lia.
Qed.

Lemma sumf_nth_le f (l : list A) n y : nth_error l n = Some y -> f y <= sumf f l.
Proof.
  unfold sumf. revert n; induction l as [|a l IH]; intros n H.
  - destruct n; discriminate.
  - destruct n; simpl in *.
    + inversion H; subst. lia.
    + specialize (IH _ H). lia.
Qed.

Lemma sumf_zero f (l : list A) : (forall n x, nth_error l n = Some x -> f x = 0) -> sumf f l = 0.
Proof.
  unfold sumf. induction l as [|a l IH]; intros H; simpl; auto.
  rewrite (H 0 a eq_refl). apply IH. intros n x Hn. apply (H (S n) x Hn).
Qed.

Lemma sumf_pos_ex f (l : list A) : 1 <= sumf f l -> exists n x, nth_error l n = Some x /\ 1 <= f x.
Proof.
  unfold sumf. induction l as [|a l IH]; simpl; intros H; [lia|].
  destruct (f a) eqn:E.
  - destruct (IH H) as [n [x [H1 H2]]]. exists (S n), x. auto.
  - exists 0, a. split; auto. lia.
Qed.

Lemma existsb_sumf (g : A -> bool) f (l : list A) :
  (forall x, g x = true <-> 1 <= f x) -> (existsb g l = false <-> sumf f l = 0).
Proof.
  intros Hg. unfold sumf. induction l as [|a l IH]; simpl; [tauto|].
  rewrite orb_false_iff, IH. specialize (Hg a). destruct (g a); split; intros H.
  - destruct H; discriminate.
  - assert (1 <= f a) by (apply Hg; auto). lia.
  - destruct H as [_ H]. assert (f a = 0). { destruct (f a); auto. assert (true = true -> False); [|tauto]. intros _. assert (X : false = true) by (apply Hg; lia). discriminate. } lia.
  - split; auto. lia.
Qed.
End ListFacts.

Lemma count_app_single (l : list nat) x k :
  count_occ Nat.eq_dec (l ++ [x]) k = count_occ Nat.eq_dec l k + (if Nat.eqb x k then 1 else 0).
Proof.
  rewrite count_occ_app. simpl. destruct (Nat.eq_dec x k); destruct (Nat.eqb_spec x k); try congruence; lia.
Qed.

Lemma count_remove_nat (l : list nat) x k :
  count_occ Nat.eq_dec (remove_nat x l) k + (if Nat.eqb x k then (if mem_nat x l then 1 else 0) else 0)
  = count_occ Nat.eq_dec l k.
Proof.
  induction l as [|y l IH]; simpl.
  - destruct (Nat.eqb x k); reflexivity.
  - unfold mem_nat in *. simpl. destruct (Nat.eqb_spec x y).
    + subst. simpl. destruct (Nat.eq_dec y k); destruct (Nat.eqb_spec y k); try congruence; lia.
    + simpl. destruct (Nat.eq_dec y k); destruct (Nat.eqb_spec x k); simpl in *; try lia.
Qed.

Lemma mem_nat_count (l : list nat) x : mem_nat x l = true <-> 1 <= count_occ Nat.eq_dec l x.
Proof.
  unfold mem_nat. induction l as [|y l IH]; simpl.
  - split; [discriminate|lia].
  - destruct (Nat.eq_dec y x); destruct (Nat.eqb_spec x y); try congruence; simpl.
    + split; intros; [lia|auto].
    + exact IH.
Qed.

(* ------------------------------------------------------------------ counting over threads *)
Definition eqn (i k : nat) : nat := if Nat.eqb i k then 1 else 0.

(* try_complete(k) has been won by this thread; it is on its way to complete the receiver *)
Definition is_post (k : nat) (x : act * cont) : nat :=
  match x with
  | (ASyncStore i _, _) | (ADeregAcq i _, _) | (ADeregRel i _ _, _) | (ADeregWait i _, _) | (AHop i _, _) => eqn i k
  | _ => 0
  end.

(* the thread holds THE handle of operation k: the right to call try_complete(k).  The handle
   starts with the locker's thread, moves into the queue with push_back, leaves it with
   pop_front / try_remove, and is consumed by try_complete *)
Definition is_pre (k : nat) (x : act * cont) : nat :=
  match x with
  | (AReg i, _) | (ARegRel i, _) | (AEarly i, _) | (ATryLock i, _) | (APush i, _) => eqn i k
  | (ACbOr i, KInlineCb _) => eqn i k
  | (ATryComplete i _, _) => eqn i k
  | _ => 0
  end.

(* ... and the handle has not taken the cancellation path *)
Definition is_lockish (k : nat) (x : act * cont) : nat :=
  match x with
  | (AReg i, _) | (ARegRel i, _) | (AEarly i, _) | (ATryLock i, _) | (APush i, _) => eqn i k
  | (ACbOr i, KInlineCb _) => eqn i k
  | (ATryComplete i c, _) | (ASyncStore i c, _) | (ADeregAcq i c, _) | (ADeregRel i c _, _)
  | (ADeregWait i c, _) | (AHop i c, _) => if is_lock_ctx c then eqn i k else 0
  | _ => 0
  end.

Definition is_poppub (x : act * cont) : nat := match x with (APopPub _, _) => 1 | _ => 0 end.

Definition inq (s : st) (k : nat) : nat := count_occ Nat.eq_dec (queue s) k.
Definition handles (s : st) (k : nat) : nat := sumf (is_pre k) (thr s) + inq s k.
Definition lockish (s : st) (k : nat) : nat := sumf (is_lockish k) (thr s) + inq s k.
Definition posts (s : st) (k : nat) : nat := sumf (is_post k) (thr s).
Definition thr_tok (s : st) : nat := sumf (fun x => act_tok (fst x)) (thr s).
Definition ops_tok (s : st) : nat := sumf (fun k => op_tok (ops s k)) (seq 0 (nl s)).

Lemma tokens_eq s : tokens s = thr_tok s + ops_tok s.
Proof. reflexivity. Qed.

(* the operation an activity works on, with the try_complete context *)
Definition compl_of (a : act) : option (nat * ctx) :=
  match a with
  | ATryComplete k c | ASyncStore k c | ADeregAcq k c | ADeregRel k c _ | ADeregWait k c | AHop k c => Some (k, c)
  | _ => None
  end.

(* activities / continuations that only exist after started_ = true *)
Definition as_a (a : act) : option nat :=
  match a with
  | ASyncLoad i | AStartedOr i | ASyncSpin i | ATryLock i | APush i | APushPub i => Some i
  | _ => None
  end.
Definition as_k (k : cont) : option nat :=
  match k with KAfterStart i => Some i | _ => None end.

(* indices mentioned by a thread (operations, not thread ids) *)
Definition act_ix (a : act) : option nat :=
  match a with
  | AReg i | ARegRel i | AEarly i | ATryLock i | APush i | APushPub i | APopPub i
  | ATryComplete i _ | ASyncStore i _ | ADeregAcq i _ | ADeregRel i _ _ | ADeregWait i _ | AHop i _
  | ASyncLoad i | AStartedOr i | ASyncSpin i | ATryRemove i | ACbOr i
  | SAcq i | SRel i _ | SCbDone i | SAcq2 i | SRel2 i | AWaitGot i => Some i
  | _ => None
  end.
Definition cont_ix (k : cont) : option nat :=
  match k with
  | KEnd => None
  | KTop i | KAfterStart i | KInlineCb i | KStopper i => Some i
  end.

(* activities / continuations that occur on the locker's own thread only *)
Definition own_a (a : act) : option nat :=
  match a with
  | AReg i | ARegRel i | AEarly i | ATryLock i | APush i | APushPub i
  | ASyncLoad i | AStartedOr i | ASyncSpin i | AWaitGot i => Some i
  | _ => None
  end.
Definition own_k (k : cont) : option nat :=
  match k with
  | KTop i | KAfterStart i | KInlineCb i => Some i
  | _ => None
  end.
(* thread i has certainly not yet reached its fetch_or(started) *)
Definition pre_start (x : act * cont) : option nat :=
  match x with
  | (AReg i, _) | (ARegRel i, _) | (AEarly i, _) => Some i
  | (ACbOr i, KInlineCb _) => Some i
  | _ => None
  end.

Record Inv (s : st) : Prop := {
  v_wf_a : forall t a kc i, nth_error (thr s) t = Some (a, kc) -> act_ix a = Some i -> i < nl s;
  v_wf_k : forall t a kc i, nth_error (thr s) t = Some (a, kc) -> cont_ix kc = Some i -> i < nl s;
  v_wf_q : forall i, In i (queue s) -> i < nl s;
  (* the start sequence of locker i runs on thread i *)
  v_own_a : forall t a kc i, nth_error (thr s) t = Some (a, kc) -> own_a a = Some i -> t = i;
  v_own_k : forall t a kc i, nth_error (thr s) t = Some (a, kc) -> own_k kc = Some i -> t = i;
  (* an inline-executed stop callback (stop requested before registration) never calls stop() *)
  v_ki : forall t a i, nth_error (thr s) t = Some (a, KInlineCb i) -> a = ACbOr i;
  v_bs : forall t x i, nth_error (thr s) t = Some x -> pre_start x = Some i -> o_started (ops s i) = false;
  (* one handle per operation; while it exists the operation is not completed *)
  v_hs1 : forall k, handles s k <= 1;
  v_hs2 : forall k, handles s k = 1 -> o_completed (ops s k) = false;
  (* the winner of try_complete completes the receiver exactly once *)
  v_ps : forall k, posts s k + length (o_res (ops s k)) = b2n (o_completed (ops s k));
  (* cancelled_ is set only on the cancellation path, which excludes the lock path *)
  v_cs : forall k, o_cancelled (ops s k) = true -> lockish s k = 0;
  v_ci : forall t a kc k c, nth_error (thr s) t = Some (a, kc) -> compl_of a = Some (k, c) ->
         is_lock_ctx c = false -> o_cancelled (ops s k) = true;
  v_s1 : forall k, o_started (ops s k) = true -> o_started_ (ops s k) = true;
  v_as_a : forall t a kc i, nth_error (thr s) t = Some (a, kc) -> as_a a = Some i -> o_started_ (ops s i) = true;
  v_as_k : forall t a kc i, nth_error (thr s) t = Some (a, kc) -> as_k kc = Some i -> o_started_ (ops s i) = true;
  v_rs : forall k, o_released (ops s k) = true -> o_res (ops s k) = [OValue];
  (* a taken item stays in the queue until the pop publishes; one pop at a time *)
  v_pp : forall t x kc, nth_error (thr s) t = Some (APopPub x, kc) -> 1 <= inq s x;
  v_pu : sumf is_poppub (thr s) <= 1;
  (* the separate hop step exists only in the unrepaired forwarder *)
  v_hop : forall t k c kc, nth_error (thr s) t = Some (AHop k c, kc) -> fixed s = false;
  (* mutual exclusion / conservation of the lock *)
  v_tok : tokens s <= b2n (locked s);
  v_tokf : fixed s = true -> tokens s = b2n (locked s)
}.

(* ------------------------------------------------------------------ tactics *)
Ltac break_match H :=
  repeat (cbv beta iota zeta in H; cbn [fst snd] in H;
          match type of H with
          | context [if ?b then _ else _] => destruct b eqn:?
          | context [match ?x with _ => _ end] => destruct x eqn:?
          end);
  cbv beta iota zeta in H; cbn [fst snd] in H.

(* case analysis of one step: one goal per activity and branch, [s'] replaced by its value *)
Ltac step_split H Hth :=
  unfold step in H;
  match type of H with context [nth_error (thr ?s) ?t] =>
    let a := fresh "a" in let kc := fresh "kc" in
    destruct (nth_error (thr s) t) as [[a kc]|] eqn:Hth; [|discriminate];
    destruct a end;
  unfold ret, go_cleanup, go_hop, deliver, do_stop in H;
  break_match H; try discriminate;
  inversion H; subst; clear H.

Ltac use_sum Hth :=
  repeat match goal with
  | |- context [sumf ?f (set_nth ?t ?x (thr ?s))] =>
      let C := fresh "C" in
      pose proof (sumf_set_nth f (thr s) t x _ Hth) as C; simpl in C;
      let v := fresh "v" in
      remember (sumf f (set_nth t x (thr s))) as v eqn:Ev; clear Ev
  | H : context [sumf ?f (set_nth ?t ?x (thr ?s))] |- _ =>
      let C := fresh "C" in
      pose proof (sumf_set_nth f (thr s) t x _ Hth) as C; simpl in C;
      let v := fresh "v" in
      remember (sumf f (set_nth t x (thr s))) as v eqn:Ev; clear Ev
  end.

Ltac eqb_cases :=
  unfold eqn in *;
  repeat match goal with
  | |- context [Nat.eqb ?a ?b] => destruct (Nat.eqb_spec a b)
  | H : context [Nat.eqb ?a ?b] |- _ => destruct (Nat.eqb_spec a b)
  end.

(* the current thread's continuation is not KInlineCb unless it runs the stop callback *)
Ltac kill_ki I Hth :=
  match type of Hth with
  | nth_error _ _ = Some (_, KInlineCb _) =>
      let X := fresh in pose proof (v_ki _ I _ _ _ Hth) as X; discriminate X
  end.

(* case analysis on the continuation only where it matters: the step returns (ret_to), or the
   thread runs the stop callback (whose counting depends on the continuation) *)
Ltac dk I Hth :=
  try (first [ match goal with |- context [ret_to _ ?k] => is_var k; destruct k end
             | match type of Hth with nth_error _ _ = Some (ACbOr _, ?k) => is_var k; destruct k end ];
       simpl; try kill_ki I Hth).

Lemma nth_thr_cases {A} (l : list A) t t0 x y z :
  nth_error l t = Some y -> nth_error (set_nth t x l) t0 = Some z ->
  (t0 = t /\ z = x) \/ (t0 <> t /\ nth_error l t0 = Some z).
Proof.
  intros H1 H2. rewrite nth_set_nth in H2. destruct (Nat.eqb_spec t t0).
  - subst. rewrite H1 in H2. inversion H2. auto.
  - right. auto.
Qed.

(* ------------------------------------------------------------------ preservation, clause by clause *)
Lemma in_remove_nat x l i : In i (remove_nat x l) -> In i l.
Proof.
  induction l as [|y l IH]; simpl; auto. destruct (Nat.eqb x y); simpl; intros H; auto.
  destruct H; auto.
Qed.

Lemma step_consts s t s' evs : step t s = Some (s', evs) -> fixed s' = fixed s /\ nl s' = nl s.
Proof. intros H. step_split H Hth; simpl; auto. Qed.

Ltac destr_if :=
  repeat match goal with
  | H : context [if ?b then _ else _] |- _ => destruct b eqn:?
  | |- context [if ?b then _ else _] => destruct b eqn:?
  end.

Ltac wf_same I Hth :=
  first [ eapply (v_wf_a _ I _ _ _ _ Hth); simpl; reflexivity
        | eapply (v_wf_k _ I _ _ _ _ Hth); simpl; reflexivity
        | eapply (v_wf_q _ I); match goal with E : queue _ = _ |- _ => rewrite E; simpl; auto end ].

Lemma step_wf s t s' evs : Inv s -> step t s = Some (s', evs) ->
  (forall t0 a kc i, nth_error (thr s') t0 = Some (a, kc) -> act_ix a = Some i -> i < nl s') /\
  (forall t0 a kc i, nth_error (thr s') t0 = Some (a, kc) -> cont_ix kc = Some i -> i < nl s') /\
  (forall i, In i (queue s') -> i < nl s').
Proof.
  intros I H. split; [|split].
  - intros t0 a0 kc0 i0 H0 Hi. step_split H Hth; simpl in *;
    (destruct (nth_thr_cases _ _ _ _ _ _ Hth H0) as [[-> E]|[N E]];
     [inversion E; subst; clear E; try (destruct kc; simpl in *; try kill_ki I Hth); destr_if;
      try discriminate; inversion Hi; subst; wf_same I Hth
     | eapply (v_wf_a _ I); eauto]).
  - intros t0 a0 kc0 i0 H0 Hi. step_split H Hth; simpl in *;
    (destruct (nth_thr_cases _ _ _ _ _ _ Hth H0) as [[-> E]|[N E]];
     [inversion E; subst; clear E; try (destruct kc; simpl in *; try kill_ki I Hth); destr_if;
      try discriminate; inversion Hi; subst; wf_same I Hth
     | eapply (v_wf_k _ I); eauto]).
  - intros i0 Hi. step_split H Hth; simpl in *; try (eapply (v_wf_q _ I); eauto; fail).
    + apply in_app_or in Hi. destruct Hi as [Hi|[Hi|[]]]; [eapply (v_wf_q _ I); eauto|].
      subst. wf_same I Hth.
    + eapply (v_wf_q _ I). eapply in_remove_nat; eauto.
    + eapply (v_wf_q _ I). eapply in_remove_nat; eauto.
Qed.

Lemma step_own s t s' evs : Inv s -> step t s = Some (s', evs) ->
  (forall t0 a kc i, nth_error (thr s') t0 = Some (a, kc) -> own_a a = Some i -> t0 = i) /\
  (forall t0 a kc i, nth_error (thr s') t0 = Some (a, kc) -> own_k kc = Some i -> t0 = i) /\
  (forall t0 a i, nth_error (thr s') t0 = Some (a, KInlineCb i) -> a = ACbOr i).
Proof.
  intros I H. split; [|split].
  - intros t0 a0 kc0 i0 H0 Hi. step_split H Hth; simpl in *;
    (destruct (nth_thr_cases _ _ _ _ _ _ Hth H0) as [[-> E]|[N E]];
     [inversion E; subst; clear E; try (destruct kc; simpl in *; try kill_ki I Hth); destr_if;
      try discriminate; inversion Hi; subst;
      first [ eapply (v_own_a _ I _ _ _ _ Hth); simpl; reflexivity
            | eapply (v_own_k _ I _ _ _ _ Hth); simpl; reflexivity ]
     | eapply (v_own_a _ I); eauto]).
  - intros t0 a0 kc0 i0 H0 Hi. step_split H Hth; simpl in *;
    (destruct (nth_thr_cases _ _ _ _ _ _ Hth H0) as [[-> E]|[N E]];
     [inversion E; subst; clear E; try (destruct kc; simpl in *; try kill_ki I Hth); destr_if;
      try discriminate; inversion Hi; subst;
      first [ eapply (v_own_a _ I _ _ _ _ Hth); simpl; reflexivity
            | eapply (v_own_k _ I _ _ _ _ Hth); simpl; reflexivity ]
     | eapply (v_own_k _ I); eauto]).
  - intros t0 a0 i0 H0. step_split H Hth; simpl in *;
    (destruct (nth_thr_cases _ _ _ _ _ _ Hth H0) as [[-> E]|[N E]];
     [inversion E; subst; clear E; try (destruct kc; simpl in *; try kill_ki I Hth); destr_if;
      try discriminate; try reflexivity; try kill_ki I Hth;
      try (match goal with E : (_, _) = (_, _) |- _ => inversion E; subst end; try reflexivity; try kill_ki I Hth)
     | eapply (v_ki _ I); eauto]).
    all: pose proof (v_bs _ I _ _ _ Hth eq_refl) as B; unfold getop in *; rewrite B in *;
         rewrite ?andb_false_r in *; simpl in *; discriminate.
Qed.

Lemma pre_start_own s t x i : Inv s -> nth_error (thr s) t = Some x -> pre_start x = Some i -> t = i.
Proof.
  intros I H Hp. destruct x as [a kc].
  destruct a; simpl in Hp; try discriminate;
    try (inversion Hp; subst; eapply (v_own_a _ I); eauto; reflexivity).
  destruct kc; try discriminate. inversion Hp; subst.
  pose proof (v_ki _ I _ _ _ H) as X. inversion X; subst.
  eapply (v_own_k _ I); eauto.
Qed.

Lemma step_bs s t s' evs : Inv s -> step t s = Some (s', evs) ->
  forall t0 x i, nth_error (thr s') t0 = Some x -> pre_start x = Some i -> o_started (ops s' i) = false.
Proof.
  intros I H t0 x i0 H0 Hp. step_split H Hth; simpl in *;
  (destruct (nth_thr_cases _ _ _ _ _ _ Hth H0) as [[-> E]|[N E]];
   [ subst x; try (destruct kc; simpl in *; try kill_ki I Hth); destr_if; try discriminate;
     inversion Hp; subst;
     (pose proof (v_bs _ I _ _ _ Hth eq_refl) as B; unfold getop in *; simpl in *; destr_if; simpl; auto)
   | pose proof (v_bs _ I _ _ _ E Hp) as B; unfold getop in *; simpl in *; destr_if; simpl; auto ]).
  all: try (match goal with Q : (_ =? _) = true |- true = false => apply Nat.eqb_eq in Q; subst end;
            exfalso; apply N;
            rewrite (pre_start_own _ _ _ _ I E Hp);
            symmetry; eapply (v_own_a _ I _ _ _ _ Hth); reflexivity).
  all: pose proof (v_ki _ I _ _ _ Hth) as X; inversion X; subst; exact B.
Qed.

Ltac count_simp :=
  repeat rewrite count_app_single in *;
  repeat match goal with
  | |- context [count_occ Nat.eq_dec (remove_nat ?x ?l) ?k] =>
      let R := fresh "R" in pose proof (count_remove_nat l x k) as R;
      let v := fresh "v" in remember (count_occ Nat.eq_dec (remove_nat x l) k) as v eqn:Ev; clear Ev
  end.

Ltac requeue := repeat match goal with E : queue ?s = _ |- context [queue ?s] => rewrite E end.

Lemma andb3_true a b c : a && b && c = true -> a = true /\ b = true /\ c = true.
Proof. destruct a, b, c; simpl; intros; try discriminate; auto. Qed.

(* facts about the moving thread that the arithmetic needs *)
Ltac side_facts I Hth :=
  unfold getop in *;
  try match type of Hth with nth_error _ _ = Some (ACbOr _, KInlineCb _) =>
        let X := fresh "X" in pose proof (v_ki _ I _ _ _ Hth) as X; inversion X; subst; clear X
      end;
  try match type of Hth with nth_error _ _ = Some (APopPub ?x, _) =>
        let P := fresh "P" in pose proof (v_pp _ I _ _ _ Hth) as P; unfold inq in P;
        let M := fresh "M" in assert (M : mem_nat x (queue _) = true) by (apply mem_nat_count; exact P)
      end;
  repeat match goal with
  | Q : _ && _ = true |- _ => apply andb_prop in Q; destruct Q
  | Q : negb _ = true |- _ => apply negb_true_iff in Q
  end;
  simpl in *; rewrite ?Nat.eqb_refl in *; simpl in *.

Ltac use_mem :=
  repeat match goal with Q : mem_nat ?x ?l = true, R : context [mem_nat ?x ?l] |- _ => rewrite Q in R end.

(* stop() reached with started_ = false although state_ has the started bit: impossible *)
Ltac kill_early I Hth :=
  exfalso;
  match goal with
  | Q : o_started (ops ?s ?i) = true, Q' : o_started_ (ops ?s ?i) = false |- _ =>
      rewrite (v_s1 _ I i Q) in Q'; discriminate Q'
  | Q' : o_started_ (ops ?s ?i) = false |- _ =>
      rewrite (v_as_a _ I _ _ _ i Hth eq_refl) in Q'; discriminate Q'
  end.

Lemma handles_mono s t s' evs : Inv s -> step t s = Some (s', evs) -> forall k, handles s' k <= handles s k.
Proof.
  intros I H k.
  assert (G : forall h0, handles s k <= h0 -> handles s' k <= h0); [|apply G; apply le_n].
  intros h0 E0.
  step_split H Hth; unfold handles, inq in *; simpl; dk I Hth; destr_if;
    use_sum Hth; count_simp; try (eqb_cases; lia);
    side_facts I Hth; try (kill_early I Hth); try (use_mem; eqb_cases; lia).
Qed.

(* the step of a thread whose activity is known *)
Ltac step_at H Hth :=
  unfold step in H; rewrite Hth in H;
  unfold ret, go_cleanup, go_hop, deliver, do_stop in H;
  break_match H; try discriminate;
  inversion H; subst; clear H.

Lemma handles_tc s t s' evs k c kc : Inv s -> step t s = Some (s', evs) ->
  nth_error (thr s) t = Some (ATryComplete k c, kc) -> handles s' k + 1 <= handles s k.
Proof.
  intros I H Hth.
  assert (G : forall h0, handles s k <= h0 -> handles s' k + 1 <= h0); [|apply G; apply le_n].
  intros h0 E0.
  step_at H Hth; unfold handles, inq in *; simpl; dk I Hth; destr_if;
    use_sum Hth; count_simp; try (eqb_cases; lia).
Qed.

Lemma completed_change s t s' evs k : step t s = Some (s', evs) ->
  o_completed (ops s' k) = true ->
  o_completed (ops s k) = true \/ exists c kc, nth_error (thr s) t = Some (ATryComplete k c, kc).
Proof.
  intros H Hc.
  step_split H Hth; simpl in *; unfold getop in *; destr_if; simpl in *; auto;
    try (match goal with Q : (_ =? _) = true |- _ => apply Nat.eqb_eq in Q; subst end; simpl in *; auto);
    try (right; eauto).
Qed.

Lemma step_hs s t s' evs : Inv s -> step t s = Some (s', evs) ->
  (forall k, handles s' k <= 1) /\ (forall k, handles s' k = 1 -> o_completed (ops s' k) = false).
Proof.
  intros I H. split.
  - intros k. pose proof (handles_mono _ _ _ _ I H k). pose proof (v_hs1 _ I k). lia.
  - intros k Hk. destruct (o_completed (ops s' k)) eqn:Ec; auto. exfalso.
    pose proof (handles_mono _ _ _ _ I H k) as M. pose proof (v_hs1 _ I k) as H1.
    destruct (completed_change _ _ _ _ k H Ec) as [Hc|[c [kc Hth]]].
    + assert (handles s k = 1) by lia. rewrite (v_hs2 _ I k) in Hc by auto. discriminate.
    + pose proof (handles_tc _ _ _ _ _ _ _ I H Hth). lia.
Qed.

(* variants that do not substitute the caller's equations *)
Ltac step_split' H Hth :=
  unfold step in H;
  match type of H with context [nth_error (thr ?s) ?t] =>
    let a := fresh "a" in let kc := fresh "kc" in
    destruct (nth_error (thr s) t) as [[a kc]|] eqn:Hth; [|discriminate];
    destruct a end;
  unfold ret, go_cleanup, go_hop, deliver, do_stop in H;
  break_match H; try discriminate;
  injection H as <- <-.

Ltac step_at' H Hth :=
  unfold step in H; rewrite Hth in H;
  unfold ret, go_cleanup, go_hop, deliver, do_stop in H;
  break_match H; try discriminate;
  injection H as <- <-.

Ltac rw_completed :=
  repeat match goal with
  | Q : o_completed ?o = _, E : context [b2n (o_completed ?o)] |- _ => rewrite Q in E
  | Q : o_completed ?o = _ |- context [b2n (o_completed ?o)] => rewrite Q
  end.

Lemma step_ps s t s' evs : Inv s -> step t s = Some (s', evs) ->
  forall k, posts s' k + length (o_res (ops s' k)) = b2n (o_completed (ops s' k)).
Proof.
  intros I H k.
  pose proof (v_ps _ I k) as E0.
  step_split' H Hth; unfold posts in *; simpl; dk I Hth; destr_if;
    use_sum Hth; unfold getop in *; simpl in *;
    eqb_cases; subst; simpl in *; rw_completed; simpl in *; try congruence; try lia.
Qed.

Lemma sumf_le {A} (f g : A -> nat) l : (forall x, f x <= g x) -> sumf f l <= sumf g l.
Proof. intros H. unfold sumf. induction l; simpl; auto. specialize (H a). lia. Qed.

Lemma sumf_add {A} (f g : A -> nat) l : sumf (fun x => f x + g x) l = sumf f l + sumf g l.
Proof. unfold sumf. induction l; simpl; auto. lia. Qed.

Lemma lockish_le1 s k : Inv s -> lockish s k <= 1.
Proof.
  intros I. unfold lockish.
  assert (L : sumf (is_lockish k) (thr s) <= sumf (is_pre k) (thr s) + sumf (is_post k) (thr s)).
  { rewrite <- sumf_add. apply sumf_le. intros [a kc]. destruct a; simpl; try lia;
      try (destruct c; simpl; lia); try (destruct kc; simpl; lia). }
  pose proof (v_hs1 _ I k) as H1. pose proof (v_hs2 _ I k) as H2. pose proof (v_ps _ I k) as P.
  unfold handles, posts in *.
  destruct (Nat.eq_dec (sumf (is_pre k) (thr s) + inq s k) 1) as [E|E].
  - rewrite (H2 E) in P. simpl in P. lia.
  - destruct (o_completed (ops s k)); simpl in P; lia.
Qed.

Lemma step_cs s t s' evs : Inv s -> step t s = Some (s', evs) ->
  forall k, o_cancelled (ops s' k) = true -> lockish s' k = 0.
Proof.
  intros I H k Hc.
  pose proof (v_cs _ I k) as E0. pose proof (lockish_le1 s k I) as L1.
  step_split' H Hth; unfold lockish, inq in *; simpl; dk I Hth; destr_if;
    use_sum Hth; count_simp; unfold getop in *; simpl in *;
    eqb_cases; subst; simpl in *; try (specialize (E0 Hc)); try lia;
    side_facts I Hth; try (kill_early I Hth); try (use_mem; eqb_cases; lia).

Qed.

Lemma cancelled_mono s t s' evs k : step t s = Some (s', evs) ->
  o_cancelled (ops s k) = true -> o_cancelled (ops s' k) = true.
Proof.
  intros H Hc. step_split' H Hth; simpl; unfold getop in *; destr_if; simpl; auto.
Qed.

Lemma started__mono s t s' evs k : step t s = Some (s', evs) ->
  o_started_ (ops s k) = true -> o_started_ (ops s' k) = true.
Proof.
  intros H Hc. step_split' H Hth; simpl; unfold getop in *; destr_if; simpl; auto.
Qed.

Lemma step_ci s t s' evs : Inv s -> step t s = Some (s', evs) ->
  forall t0 a kc k c, nth_error (thr s') t0 = Some (a, kc) -> compl_of a = Some (k, c) ->
  is_lock_ctx c = false -> o_cancelled (ops s' k) = true.
Proof.
  intros I H t0 a0 kc0 k0 c0 H0 Hc Hl.
  pose proof (cancelled_mono _ _ _ _ k0 H) as M.
  step_split' H Hth; simpl in H0;
  (destruct (nth_thr_cases _ _ _ _ _ _ Hth H0) as [[-> E]|[N E]];
   [ injection E as Ea Ek; subst a0 kc0; try (destruct kc; simpl in Hc; try kill_ki I Hth);
     repeat match type of Hc with context [if ?b then _ else _] => destruct b eqn:? end;
     simpl in Hc; try discriminate Hc;
     injection Hc as Ek0 Ec0; subst k0 c0; try discriminate Hl;
     try first [ apply M; eapply (v_ci _ I _ _ _ _ _ Hth); [reflexivity|assumption]
           | unfold getop in *; simpl; rewrite ?Nat.eqb_refl; simpl; reflexivity ]
   | apply M; eapply (v_ci _ I); eauto ]).

Qed.

Lemma step_as s t s' evs : Inv s -> step t s = Some (s', evs) ->
  (forall t0 a kc i, nth_error (thr s') t0 = Some (a, kc) -> as_a a = Some i -> o_started_ (ops s' i) = true) /\
  (forall t0 a kc i, nth_error (thr s') t0 = Some (a, kc) -> as_k kc = Some i -> o_started_ (ops s' i) = true).
Proof.
  intros I H. split.
  - intros t0 a0 kc0 i0 H0 Ha.
    pose proof (started__mono _ _ _ _ i0 H) as M.
    step_split' H Hth; simpl in H0;
    (destruct (nth_thr_cases _ _ _ _ _ _ Hth H0) as [[-> E]|[N E]];
     [ injection E as Ea Ek; subst a0 kc0; try (destruct kc; simpl in Ha; try kill_ki I Hth);
       repeat match type of Ha with context [if ?b then _ else _] => destruct b eqn:? end;
       simpl in Ha; try discriminate Ha;
       injection Ha as Ei; subst i0;
       try first [ apply M; eapply (v_as_a _ I _ _ _ _ Hth); reflexivity
                 | apply M; eapply (v_as_k _ I _ _ _ _ Hth); reflexivity
                 | unfold getop in *; simpl; rewrite ?Nat.eqb_refl; simpl; reflexivity ]
     | apply M; eapply (v_as_a _ I); eauto ]).
  - intros t0 a0 kc0 i0 H0 Ha.
    pose proof (started__mono _ _ _ _ i0 H) as M.
    step_split' H Hth; simpl in H0;
    (destruct (nth_thr_cases _ _ _ _ _ _ Hth H0) as [[-> E]|[N E]];
     [ injection E as Ea Ek; subst a0 kc0; try (destruct kc; simpl in Ha; try kill_ki I Hth);
       simpl in Ha; try discriminate Ha;
       injection Ha as Ei; subst i0;
       try first [ apply M; eapply (v_as_a _ I _ _ _ _ Hth); reflexivity
                 | apply M; eapply (v_as_k _ I _ _ _ _ Hth); reflexivity
                 | unfold getop in *; simpl; rewrite ?Nat.eqb_refl; simpl; reflexivity ]
     | apply M; eapply (v_as_k _ I); eauto ]).
Qed.

Lemma step_s1 s t s' evs : Inv s -> step t s = Some (s', evs) ->
  forall k, o_started (ops s' k) = true -> o_started_ (ops s' k) = true.
Proof.
  intros I H k Hs.
  pose proof (started__mono _ _ _ _ k H) as M. pose proof (v_s1 _ I k) as S1.
  step_split' H Hth; simpl in *; unfold getop in *; destr_if; simpl in *; auto;
    try (apply Nat.eqb_eq in Heqb; subst); 
    try (match goal with Q : (_ =? _) = true |- _ => apply Nat.eqb_eq in Q; subst end);
    try (eapply (v_as_a _ I _ _ _ _ Hth); reflexivity).

Qed.

Lemma step_rs s t s' evs : Inv s -> step t s = Some (s', evs) ->
  forall k, o_released (ops s' k) = true -> o_res (ops s' k) = [OValue].
Proof.
  intros I H k Hr.
  pose proof (v_rs _ I k) as R. pose proof (v_ps _ I k) as P.
  step_split' H Hth; simpl in *; unfold getop in *; destr_if; simpl in *; auto;
    try (match goal with Q : (_ =? _) = true |- _ => apply Nat.eqb_eq in Q; subst end);
    try (exfalso; specialize (R Hr); rewrite R in *; simpl in *;
         match type of Hr with o_released (ops _ ?j) = true =>
           pose proof (sumf_nth_le (is_post j) _ _ _ Hth) as L; simpl in L; try unfold eqn in L;
           rewrite ?Nat.eqb_refl in L; unfold posts in P;
           destruct (o_completed (ops s j)); simpl in *; try discriminate; lia end).
  assumption.
Qed.

Lemma popping_zero s : popping s = false <-> sumf is_poppub (thr s) = 0.
Proof.
  unfold popping. apply existsb_sumf. intros [a kc]. destruct a; simpl; split; intros; try discriminate; try lia; auto.
Qed.

Lemma taken_false_nth s x t kc : taken s x = false -> nth_error (thr s) t = Some (APopPub x, kc) -> False.
Proof.
  unfold taken. intros H Hn.
  assert (E : existsb (fun ak : act * cont => match fst ak with APopPub y => Nat.eqb x y | _ => false end) (thr s) = true).
  { apply existsb_exists. exists (APopPub x, kc). split; [eapply nth_error_In; eauto|]. simpl. apply Nat.eqb_refl. }
  congruence.
Qed.

Lemma sumf_two {A} (f : A -> nat) l a b x y :
  nth_error l a = Some x -> nth_error l b = Some y -> a <> b -> f x + f y <= sumf f l.
Proof.
  unfold sumf. revert a b; induction l as [|z l IH]; intros a b Ha Hb N.
  - destruct a; discriminate.
  - destruct a, b; simpl in *; try congruence.
    + inversion Ha; subst. pose proof (sumf_nth_le f l b y Hb). unfold sumf in *. lia.
    + inversion Hb; subst. pose proof (sumf_nth_le f l a x Ha). unfold sumf in *. lia.
    + assert (a <> b) by congruence. specialize (IH _ _ Ha Hb H). lia.
Qed.

Lemma step_pu s t s' evs : Inv s -> step t s = Some (s', evs) -> sumf is_poppub (thr s') <= 1.
Proof.
  intros I H. pose proof (v_pu _ I) as P.
  step_split' H Hth; simpl; dk I Hth; destr_if; use_sum Hth; try lia.
  all: match goal with Q : popping _ = false |- _ => apply popping_zero in Q end; lia.
Qed.

Lemma step_pp s t s' evs : Inv s -> step t s = Some (s', evs) ->
  forall t0 x kc, nth_error (thr s') t0 = Some (APopPub x, kc) -> 1 <= inq s' x.
Proof.
  intros I H t0 x0 kc0 H0.
  step_split' H Hth; simpl in H0; unfold inq; simpl;
  (destruct (nth_thr_cases _ _ _ _ _ _ Hth H0) as [[-> E]|[N E]];
   [ try (destruct kc; simpl in E; try kill_ki I Hth); 
     repeat match type of E with context [if ?b then _ else _] => destruct b eqn:? end;
     try discriminate E
   | pose proof (v_pp _ I _ _ _ E) as P; unfold inq in P ]); count_simp; try lia.
  all: try (injection E as -> ->; rewrite Heql; simpl; destruct (Nat.eq_dec n n); [lia|congruence]).
  - exfalso. pose proof (sumf_two is_poppub _ _ _ _ _ Hth E (not_eq_sym N)) as T. simpl in T.
    pose proof (v_pu _ I). lia.
  - side_facts I Hth. destruct (Nat.eqb_spec i x0).
    + subst. exfalso. eapply taken_false_nth; eauto.
    + lia.
Qed.

Lemma compl_facts s t a kc k c : Inv s -> nth_error (thr s) t = Some (a, kc) -> compl_of a = Some (k, c) ->
  k < nl s /\ o_res (ops s k) = [] /\ o_released (ops s k) = false /\
  o_cancelled (ops s k) = negb (is_lock_ctx c) /\
  (forall c' , a = ATryComplete k c' -> o_completed (ops s k) = false).
Proof.
  intros I Hth Hc.
  assert (Hk : k < nl s).
  { eapply (v_wf_a _ I _ _ _ _ Hth). destruct a; simpl in *; try discriminate; inversion Hc; subst; reflexivity. }
  assert (Hcomp : forall c', a = ATryComplete k c' -> o_completed (ops s k) = false).
  { intros c' ->. apply (v_hs2 _ I k). pose proof (v_hs1 _ I k) as H1.
    pose proof (sumf_nth_le (is_pre k) _ _ _ Hth) as L. simpl in L. unfold eqn in L. rewrite Nat.eqb_refl in L.
    unfold handles in *. lia. }
  assert (Hres : o_res (ops s k) = []).
  { pose proof (v_ps _ I k) as P. unfold posts in P.
    destruct a; simpl in Hc; try discriminate; inversion Hc; subst.
    - rewrite (Hcomp c eq_refl) in P. simpl in P. destruct (o_res (ops s k)); simpl in *; auto; lia.
    - pose proof (sumf_nth_le (is_post k) _ _ _ Hth) as L. simpl in L. unfold eqn in L. rewrite Nat.eqb_refl in L.
      destruct (o_completed (ops s k)); simpl in P; destruct (o_res (ops s k)); simpl in *; auto; lia.
    - pose proof (sumf_nth_le (is_post k) _ _ _ Hth) as L. simpl in L. unfold eqn in L. rewrite Nat.eqb_refl in L.
      destruct (o_completed (ops s k)); simpl in P; destruct (o_res (ops s k)); simpl in *; auto; lia.
    - pose proof (sumf_nth_le (is_post k) _ _ _ Hth) as L. simpl in L. unfold eqn in L. rewrite Nat.eqb_refl in L.
      destruct (o_completed (ops s k)); simpl in P; destruct (o_res (ops s k)); simpl in *; auto; lia.
    - pose proof (sumf_nth_le (is_post k) _ _ _ Hth) as L. simpl in L. unfold eqn in L. rewrite Nat.eqb_refl in L.
      destruct (o_completed (ops s k)); simpl in P; destruct (o_res (ops s k)); simpl in *; auto; lia.
    - pose proof (sumf_nth_le (is_post k) _ _ _ Hth) as L. simpl in L. unfold eqn in L. rewrite Nat.eqb_refl in L.
      destruct (o_completed (ops s k)); simpl in P; destruct (o_res (ops s k)); simpl in *; auto; lia. }
  split; [exact Hk|]. split; [exact Hres|]. split; [|split; [|exact Hcomp]].
  - destruct (o_released (ops s k)) eqn:R; auto. rewrite (v_rs _ I k R) in Hres. discriminate.
  - destruct (is_lock_ctx c) eqn:L; simpl.
    + destruct (o_cancelled (ops s k)) eqn:C; auto. exfalso.
      pose proof (v_cs _ I k C) as Z. unfold lockish in Z.
      pose proof (sumf_nth_le (is_lockish k) _ _ _ Hth) as L2.
      destruct a; simpl in Hc; try discriminate; inversion Hc; subst; simpl in L2; rewrite L in L2;
        unfold eqn in L2; rewrite Nat.eqb_refl in L2; lia.
    + eapply (v_ci _ I); eauto.
Qed.

Lemma sumf_ext {A} (f g : A -> nat) l : (forall x, f x = g x) -> sumf f l = sumf g l.
Proof. intros H. unfold sumf. induction l; simpl; auto. Qed.

Lemma sumf_seq_upd (g1 g2 : nat -> nat) n k0 :
  k0 < n -> (forall j, j <> k0 -> g1 j = g2 j) -> sumf g1 (seq 0 n) + g2 k0 = sumf g2 (seq 0 n) + g1 k0.
Proof.
  intros Hk Hj. unfold sumf.
  assert (G : forall m b, (b <= k0 < b + m -> list_sum (map g1 (seq b m)) + g2 k0 = list_sum (map g2 (seq b m)) + g1 k0)
                     /\ (~ (b <= k0 < b + m) -> list_sum (map g1 (seq b m)) = list_sum (map g2 (seq b m)))).
  { induction m as [|m IH]; intros b; split; intros Hb; simpl; try lia.
    - destruct (Nat.eq_dec b k0).
      + subst. destruct (IH (S k0)) as [_ IH2]. rewrite IH2 by lia. lia.
      + destruct (IH (S b)) as [IH1 _]. rewrite (Hj b n0). specialize (IH1 ltac:(lia)). lia.
    - destruct (IH (S b)) as [_ IH2]. rewrite IH2 by lia. rewrite (Hj b) by lia. reflexivity. }
  destruct (G n 0) as [G1 _]. apply G1. lia.
Qed.

Lemma ops_tok_neutral s k f : (forall o, op_tok (f o) = op_tok o) -> ops_tok (upd_op s k f) = ops_tok s.
Proof.
  intros H. unfold ops_tok. simpl. apply sumf_ext. intros j. destruct (Nat.eqb j k); auto.
Qed.

Lemma ops_tok_upd s k f : k < nl s -> ops_tok (upd_op s k f) + op_tok (ops s k) = ops_tok s + op_tok (f (ops s k)).
Proof.
  intros H. unfold ops_tok. simpl.
  pose proof (sumf_seq_upd (fun j => op_tok (if j =? k then f (ops s j) else ops s j)) (fun j => op_tok (ops s j)) (nl s) k H) as X.
  simpl in X. rewrite Nat.eqb_refl in X. apply X.
  intros j Hj. apply Nat.eqb_neq in Hj. rewrite Hj. reflexivity.
Qed.

Lemma thr_tok_set S t a k a0 k0 : nth_error (thr S) t = Some (a0, k0) ->
  thr_tok (set_thr S t a k) + act_tok a0 = thr_tok S + act_tok a.
Proof. intros H. unfold thr_tok. simpl. apply (sumf_set_nth (fun x => act_tok (fst x)) (thr S) t (a, k) (a0, k0) H). Qed.

Lemma ops_tok_set_thr s t a k : ops_tok (set_thr s t a k) = ops_tok s. Proof. reflexivity. Qed.
Lemma ops_tok_set_locked s b : ops_tok (set_locked s b) = ops_tok s. Proof. reflexivity. Qed.
Lemma ops_tok_set_queue s q : ops_tok (set_queue s q) = ops_tok s. Proof. reflexivity. Qed.
Lemma thr_tok_upd_op s k f : thr_tok (upd_op s k f) = thr_tok s. Proof. reflexivity. Qed.
Lemma thr_tok_set_locked s b : thr_tok (set_locked s b) = thr_tok s. Proof. reflexivity. Qed.
Lemma thr_tok_set_queue s q : thr_tok (set_queue s q) = thr_tok s. Proof. reflexivity. Qed.

Ltac ops_neutral :=
  rewrite ?ops_tok_set_thr;
  repeat first [ rewrite ops_tok_set_locked | rewrite ops_tok_set_queue
               | rewrite ops_tok_neutral by (intros; reflexivity) ].

Ltac ops_neutral_in OT :=
  rewrite ?ops_tok_set_thr in OT;
  repeat first [ rewrite ops_tok_set_locked in OT | rewrite ops_tok_set_queue in OT
               | rewrite ops_tok_neutral in OT by (intros; reflexivity) ].

Ltac tok_norm Hth :=
  rewrite ?tokens_eq in *; unfold ret; cbn [ret_to fst snd];
  match goal with |- context [thr_tok (set_thr ?S ?t ?a ?k)] =>
    let TT := fresh "TT" in pose proof (thr_tok_set S t a k _ _ Hth) as TT;
    let v := fresh "v" in remember (thr_tok (set_thr S t a k)) as v eqn:Ev; clear Ev;
    rewrite ?thr_tok_upd_op, ?thr_tok_set_locked, ?thr_tok_set_queue in TT; simpl in TT
  end;
  rewrite ?ops_tok_set_thr.

(* the one operation whose token status changes: completion (w_res) or release (w_released) *)
Ltac ops_changed Hk :=
  try match goal with
  | |- context [ops_tok (upd_op ?S ?k (w_res ?o))] =>
      let OT := fresh "OT" in pose proof (ops_tok_upd S k (w_res o) Hk) as OT;
      let w := fresh "w" in remember (ops_tok (upd_op S k (w_res o))) as w eqn:Ew; clear Ew;
      ops_neutral_in OT; simpl in OT; rewrite ?Nat.eqb_refl in OT; simpl in OT
  | |- context [ops_tok (upd_op ?S ?k w_released)] =>
      let OT := fresh "OT" in pose proof (ops_tok_upd S k w_released Hk) as OT;
      let w := fresh "w" in remember (ops_tok (upd_op S k w_released)) as w eqn:Ew; clear Ew;
      ops_neutral_in OT; simpl in OT; rewrite ?Nat.eqb_refl in OT; simpl in OT
  end.

Ltac lock_cases :=
  repeat match goal with
  | H : context [b2n (locked ?s)] |- _ => destruct (locked s) eqn:?; simpl in *
  | |- context [b2n (locked ?s)] => destruct (locked s) eqn:?; simpl in *
  end.

Lemma step_hop s t s' evs : Inv s -> step t s = Some (s', evs) ->
  forall t0 k c kc, nth_error (thr s') t0 = Some (AHop k c, kc) -> fixed s' = false.
Proof.
  intros I H t0 k0 c0 kc0 H0.
  step_split' H Hth; simpl in *;
  (destruct (nth_thr_cases _ _ _ _ _ _ Hth H0) as [[-> E]|[N E]];
   [ try (destruct kc; simpl in E; try kill_ki I Hth);
     repeat match type of E with context [if ?b then _ else _] => destruct b eqn:? end;
     try discriminate E; auto
   | eapply (v_hop _ I); eauto ]).
Qed.

Lemma step_tok s t s' evs : Inv s -> step t s = Some (s', evs) ->
  tokens s' <= b2n (locked s') /\ (fixed s' = true -> tokens s' = b2n (locked s')).
Proof.
  intros I H. pose proof (v_tok _ I) as T0. pose proof (v_tokf _ I) as F0.
  step_split' H Hth; unfold ret; dk I Hth;
    try (pose proof (compl_facts _ _ _ _ _ _ I Hth eq_refl) as (Hk & Hres & Hrel & Hcan & Hcomp));
    try (assert (Hk : i < nl s) by (eapply (v_wf_a _ I _ _ _ _ Hth); reflexivity));
    try (pose proof (v_hop _ I _ _ _ _ Hth) as Hfx);
    tok_norm Hth; ops_changed Hk; ops_neutral; unfold getop in *; simpl in *; destr_if; simpl in *;
    try (rewrite (Hcomp _ eq_refl) in *; discriminate);
    try congruence; unfold op_tok in *; simpl in *;
    rewrite ?Hres, ?Hrel in *; simpl in *; try congruence;
    repeat match goal with
    | Q : o_res ?o = _, OT : context [o_res ?o] |- _ => rewrite Q in OT
    | Q : o_released ?o = _, OT : context [o_released ?o] |- _ => rewrite Q in OT
    end; simpl in *;
    lock_cases; try discriminate;
    try (split; [lia|intros Fx; first [specialize (F0 Fx)|specialize (F0 eq_refl)|idtac]; try discriminate; try congruence; lia]).
Qed.

Lemma step_inv s t s' evs : Inv s -> step t s = Some (s', evs) -> Inv s'.
Proof.
  intros I H.
  destruct (step_wf _ _ _ _ I H) as (W1 & W2 & W3).
  destruct (step_own _ _ _ _ I H) as (O1 & O2 & O3).
  destruct (step_hs _ _ _ _ I H) as (H1 & H2).
  destruct (step_as _ _ _ _ I H) as (A1 & A2).
  destruct (step_tok _ _ _ _ I H) as (T1 & T2).
  constructor; auto.
  - eapply step_bs; eauto.
  - eapply step_ps; eauto.
  - eapply step_cs; eauto.
  - eapply step_ci; eauto.
  - eapply step_s1; eauto.
  - eapply step_rs; eauto.
  - eapply step_pp; eauto.
  - eapply step_pu; eauto.
  - eapply step_hop; eauto.
Qed.

(* ------------------------------------------------------------------ the initial state *)
Lemma sumf_map {A B} (f : B -> nat) (g : A -> B) l : sumf f (map g l) = sumf (fun x => f (g x)) l.
Proof. unfold sumf. rewrite map_map. reflexivity. Qed.

Lemma sumf_app {A} (f : A -> nat) l1 l2 : sumf f (l1 ++ l2) = sumf f l1 + sumf f l2.
Proof. unfold sumf. rewrite map_app, list_sum_app. reflexivity. Qed.

Lemma sumf_eqn_seq b n k : sumf (fun i => eqn i k) (seq b n) <= 1.
Proof.
  assert (G : forall n b, (k < b -> sumf (fun i => eqn i k) (seq b n) = 0) /\ sumf (fun i => eqn i k) (seq b n) <= 1).
  { clear. induction n as [|n IH]; intros b; unfold sumf in *; simpl; [split; intros; lia|].
    destruct (IH (S b)) as [IH1 IH2]. unfold eqn at 1 3. destruct (Nat.eqb_spec b k).
    - subst. split; [intros; lia|]. rewrite IH1 by lia. lia.
    - split; [intros Hb; rewrite IH1 by lia; lia|]. lia. }
  apply G.
Qed.

Lemma init_thr_cases fx hs nt t a kc :
  nth_error (thr (init fx hs nt)) t = Some (a, kc) ->
  (t < length hs /\ a = AReg t /\ kc = KTop t) \/
  (exists i, i < length hs /\ (a = SAcq i \/ a = AFin) /\ kc = KEnd) \/
  (exists j, a = TTry j /\ kc = KEnd).
Proof.
  simpl. intros H.
  set (n := length hs) in *.
  destruct (Nat.ltb t n) eqn:E1.
  - apply Nat.ltb_lt in E1. left.
    rewrite nth_error_app1 in H by (rewrite map_length, seq_length; auto).
    rewrite nth_error_map in H. rewrite nth_error_nth' with (d := 0) in H by (rewrite seq_length; auto).
    rewrite seq_nth in H by auto. simpl in H. inversion H. auto.
  - apply Nat.ltb_ge in E1. right.
    rewrite nth_error_app2 in H by (rewrite map_length, seq_length; auto). rewrite map_length, seq_length in H.
    apply nth_error_In in H. apply in_app_or in H. destruct H as [H|H].
    + left. apply in_map_iff in H. destruct H as [[i b] [H1 H2]]. simpl in H1. inversion H1; subst.
      apply in_combine_l in H2. apply in_seq in H2. exists i. split; [lia|]. split; auto. destruct b; auto.
    + right. apply in_map_iff in H. destruct H as [j [H1 H2]]. inversion H1; subst. eauto.
Qed.

Lemma init_sum0 fx hs nt (f : act * cont -> nat) :
  (forall i, f (SAcq i, KEnd) = 0) -> f (AFin, KEnd) = 0 -> (forall j, f (TTry j, KEnd) = 0) ->
  sumf f (thr (init fx hs nt)) = sumf (fun i => f (AReg i, KTop i)) (seq 0 (length hs)).
Proof.
  intros H1 H2 H3. unfold init. cbn [thr]. rewrite !sumf_app, !sumf_map.
  assert (Z1 : sumf (fun x : nat * bool => f (if snd x then SAcq (fst x) else AFin, KEnd)) (combine (seq 0 (length hs)) hs) = 0).
  { apply sumf_zero. intros n [i b] _. simpl. destruct b; auto. }
  assert (Z2 : sumf (fun x : nat => f (TTry (2 * length hs + x), KEnd)) (seq 0 nt) = 0).
  { apply sumf_zero. intros n j _. auto. }
  rewrite Z1, Z2. lia.
Qed.

Lemma init_inv fx hs nt : Inv (init fx hs nt).
Proof.
  constructor.
  - intros t a kc i H Hi. apply init_thr_cases in H. simpl.
    destruct H as [(H1 & -> & ->)|[(j & H1 & [->| ->] & ->)|(j & -> & ->)]]; simpl in Hi; inversion Hi; subst; auto.
  - intros t a kc i H Hi. apply init_thr_cases in H. simpl.
    destruct H as [(H1 & -> & ->)|[(j & H1 & [->| ->] & ->)|(j & -> & ->)]]; simpl in Hi; inversion Hi; subst; auto.
  - simpl. intros i [].
  - intros t a kc i H Hi. apply init_thr_cases in H.
    destruct H as [(H1 & -> & ->)|[(j & H1 & [->| ->] & ->)|(j & -> & ->)]]; simpl in Hi; inversion Hi; subst; auto.
  - intros t a kc i H Hi. apply init_thr_cases in H.
    destruct H as [(H1 & -> & ->)|[(j & H1 & [->| ->] & ->)|(j & -> & ->)]]; simpl in Hi; inversion Hi; subst; auto.
  - intros t a i H. apply init_thr_cases in H.
    destruct H as [(H1 & -> & E)|[(j & H1 & _ & E)|(j & _ & E)]]; discriminate.
  - intros t [a kc] i H Hi. reflexivity.
  - intros k. unfold handles, inq. rewrite init_sum0 by reflexivity. simpl.
    pose proof (sumf_eqn_seq 0 (length hs) k). lia.
  - intros k _. reflexivity.
  - intros k. unfold posts. rewrite init_sum0 by reflexivity. simpl.
    rewrite sumf_zero; auto.
  - intros k H. discriminate.
  - intros t a kc k c H Hc. apply init_thr_cases in H.
    destruct H as [(H1 & -> & E)|[(j & H1 & [->| ->] & E)|(j & -> & E)]]; discriminate.
  - intros k H. discriminate.
  - intros t a kc i H Hi. apply init_thr_cases in H.
    destruct H as [(H1 & -> & E)|[(j & H1 & [->| ->] & E)|(j & -> & E)]]; discriminate.
  - intros t a kc i H Hi. apply init_thr_cases in H.
    destruct H as [(H1 & -> & ->)|[(j & H1 & [->| ->] & ->)|(j & -> & ->)]]; discriminate.
  - intros k H. discriminate.
  - intros t x kc H. apply init_thr_cases in H.
    destruct H as [(H1 & E & _)|[(j & H1 & [E|E] & _)|(j & E & _)]]; discriminate.
  - rewrite init_sum0 by reflexivity. rewrite sumf_zero; auto.
  - intros t k c kc H. apply init_thr_cases in H.
    destruct H as [(H1 & E & _)|[(j & H1 & [E|E] & _)|(j & E & _)]]; discriminate.
  - rewrite tokens_eq. unfold thr_tok, ops_tok. rewrite init_sum0 by reflexivity.
    rewrite !sumf_zero; simpl; auto.
  - intros _. rewrite tokens_eq. unfold thr_tok, ops_tok. rewrite init_sum0 by reflexivity.
    rewrite !sumf_zero; simpl; auto.
Qed.

Lemma inv_reachable fx hs nt sched : Inv (fst (run step sched (init fx hs nt, []))).
Proof.
  apply (run_invariant_state _ _ _ step Inv).
  - intros s t s' ev I H. eapply step_inv; eauto.
  - apply init_inv.
Qed.

(* ------------------------------------------------------------------ state theorems *)
Lemma op_tok_le_ops_tok s k : k < nl s -> op_tok (ops s k) <= ops_tok s.
Proof.
  intros H. unfold ops_tok.
  apply (sumf_nth_le (fun j => op_tok (ops s j)) (seq 0 (nl s)) k k).
  rewrite nth_error_nth' with (d := 0) by (rewrite seq_length; auto). rewrite seq_nth by auto. reflexivity.
Qed.

(* mutual exclusion: the lock tokens (threads inside process_queue with the lock or completing a
   granted lock operation, try_lock winners, granted operations that have not started unlock())
   never exceed one, and exist only while locked_ is set *)
Theorem mutex fx hs nt sched :
  let s := fst (run step sched (init fx hs nt, [])) in
  tokens s <= b2n (locked s) /\ tokens s <= 1.
Proof.
  intros s. pose proof (v_tok _ (inv_reachable fx hs nt sched)) as T. fold s in T.
  split; auto. destruct (locked s); simpl in T; lia.
Qed.

(* with the repaired forwarder the lock is conserved: locked_ is set exactly when somebody holds a
   token, so a locked mutex always has a thread or granted operation responsible for unlocking *)
Theorem lock_not_leaked hs nt sched :
  let s := fst (run step sched (init true hs nt, [])) in
  tokens s = b2n (locked s).
Proof.
  intros s. pose proof (inv_reachable true hs nt sched) as I. fold s in I.
  apply (v_tokf _ I).
  assert (G : forall sched, fixed (fst (run step sched (init true hs nt, []))) = true).
  { clear. intros sched.
    apply (run_invariant_state _ _ _ step (fun s => fixed s = true)); [|reflexivity].
    intros s t s' ev F H. destruct (step_consts _ _ _ _ H) as [E _]. congruence. }
  apply G.
Qed.

(* every receiver is completed at most once *)
Theorem each_once fx hs nt sched :
  let s := fst (run step sched (init fx hs nt, [])) in
  forall k, length (o_res (ops s k)) <= 1.
Proof.
  intros s k. pose proof (v_ps _ (inv_reachable fx hs nt sched) k) as P. fold s in P.
  destruct (o_completed (ops s k)); simpl in P; lia.
Qed.

(* try_complete never fails where it is called: resume_'s "popped but already completed by stop"
   branch (and the ignored result in start()) is dead code over a linearizable list *)
Theorem try_complete_always_wins fx hs nt sched :
  let s := fst (run step sched (init fx hs nt, [])) in
  forall t k c kc, nth_error (thr s) t = Some (ATryComplete k c, kc) -> o_completed (ops s k) = false.
Proof.
  intros s t k c kc H. pose proof (inv_reachable fx hs nt sched) as I. fold s in I.
  destruct (compl_facts _ _ _ _ _ _ I H eq_refl) as (_ & _ & _ & _ & Hc). eapply Hc. reflexivity.
Qed.

(* ------------------------------------------------------------------ trace observers *)
Definition compl_of_ev (k : nat) (e : ev) : list outcome :=
  match e with EComplete k' o _ => if Nat.eqb k' k then [o] else [] | _ => [] end.
(* what receiver k got, in order *)
Definition completions (tr : list ev) (k : nat) : list outcome := flat_map (compl_of_ev k) tr.

(* a completion event is consistent with its context: the cancellation paths (stop before
   start / after try_remove) deliver done; the paths that carry the lock deliver value *)
Definition ctx_ok (fx : bool) (e : ev) : Prop :=
  match e with
  | EComplete k o c =>
      (is_lock_ctx c = false -> o = ODone) /\ (fx = true -> is_lock_ctx c = true -> o = OValue)
  | _ => True
  end.

Record TInv1 (c : st * list ev) : Prop := {
  t1_inv : Inv (fst c);
  t1_compl : forall k, completions (snd c) k = rev (o_res (ops (fst c) k));
  t1_ctx : Forall (ctx_ok (fixed (fst c))) (snd c)
}.

Lemma init_tinv1 fx hs nt : TInv1 (init fx hs nt, []).
Proof. constructor; simpl; auto. apply init_inv. Qed.

Lemma step_tinv1 c t s' evs : TInv1 c -> step t (fst c) = Some (s', evs) -> TInv1 (s', snd c ++ evs).
Proof.
  destruct c as [s tr]. simpl. intros T H.
  pose proof (t1_inv _ T) as I. simpl in I.
  pose proof (step_inv _ _ _ _ I H) as I'.
  destruct (step_consts _ _ _ _ H) as [Efx _].
  constructor; simpl; [exact I'| |].
  - intros k. pose proof (t1_compl _ T k) as C. simpl in C.
    unfold completions in *. rewrite flat_map_app, C. clear C.
    step_split' H Hth; simpl; unfold getop in *; try (destruct kc; simpl); eqb_cases; subst; destr_if; simpl;
      rewrite ?app_nil_r; auto; try congruence.
  - rewrite Efx. apply Forall_app. split; [apply (t1_ctx _ T)|].
    clear Efx I'.
    step_split' H Hth; simpl;
      try (pose proof (compl_facts _ _ _ _ _ _ I Hth eq_refl) as (Hk & Hres & Hrel & Hcan & Hcomp));
      try (pose proof (v_hop _ I _ _ _ _ Hth) as Hfx);
      unfold getop in *; simpl in *; rewrite ?Nat.eqb_refl in *; simpl in *;
      repeat (constructor; simpl; auto);
      try (intros; congruence);
      try (rewrite Hcan in *; destruct (is_lock_ctx c); simpl in *; intros; congruence).
Qed.

Lemma tinv1_reachable fx hs nt sched : TInv1 (run step sched (init fx hs nt, [])).
Proof.
  apply (run_invariant _ _ _ step TInv1).
  - intros c t s' ev T H. eapply step_tinv1; eauto.
  - apply init_tinv1.
Qed.

Lemma fixed_run fx hs nt sched : fixed (fst (run step sched (init fx hs nt, []))) = fx.
Proof.
  apply (run_invariant_state _ _ _ step (fun s => fixed s = fx)); [|reflexivity].
  intros s t s' ev F H. destruct (step_consts _ _ _ _ H) as [E _]. congruence.
Qed.

(* each receiver is completed at most once (trace form) and the trace agrees with the state *)
Theorem each_once_trace fx hs nt sched :
  let c := run step sched (init fx hs nt, []) in
  forall k, completions (snd c) k = rev (o_res (ops (fst c) k)) /\ length (completions (snd c) k) <= 1.
Proof.
  intros c k. pose proof (tinv1_reachable fx hs nt sched) as T. fold c in T.
  split; [apply (t1_compl _ T)|]. rewrite (t1_compl _ T), rev_length.
  pose proof (v_ps _ (t1_inv _ T) k) as P. destruct (o_completed (ops (fst c) k)); simpl in P; lia.
Qed.

(* cancelled_never_owns: a receiver that is completed on a cancellation path (stop before the
   operation started, or after a successful try_remove) gets set_done and the completing thread
   does not carry the lock; with the repaired forwarder the converse holds too: whoever is
   completed on a lock-carrying path (try_lock in start(), pop_front in process_queue) gets
   set_value - so set_done is delivered only to operations that never owned the mutex *)
Theorem cancelled_never_owns fx hs nt sched :
  let tr := snd (run step sched (init fx hs nt, [])) in
  forall k o c, In (EComplete k o c) tr ->
    (is_lock_ctx c = false -> o = ODone) /\ (fx = true -> (o = ODone <-> is_lock_ctx c = false)).
Proof.
  intros tr k o c Hin. pose proof (tinv1_reachable fx hs nt sched) as T.
  pose proof (t1_ctx _ T) as F. rewrite fixed_run in F. rewrite Forall_forall in F.
  specialize (F _ Hin). simpl in F. destruct F as [F1 F2]. split; auto.
  intros Hf. split; [|auto]. intros ->. destruct (is_lock_ctx c) eqn:E; auto.
  specialize (F2 Hf eq_refl). discriminate.
Qed.

(* acquire / release alternate: [scan] is None as soon as somebody acquires while another party
   is inside its critical section, or a release comes from somebody who is not the holder *)
Definition scan1 (h : option (option nat)) (e : ev) : option (option nat) :=
  match h with
  | None => None
  | Some cur =>
      match e with
      | EComplete k OValue _ | ETryAcq k => match cur with None => Some (Some k) | Some _ => None end
      | ERelease k => match cur with
                      | Some j => if Nat.eqb k j then Some None else None
                      | None => None
                      end
      | _ => Some cur
      end
  end.
Definition scan (tr : list ev) : option (option nat) := fold_left scan1 tr (Some None).

Definition rel_of (x : nat) (y : act * cont) : nat :=
  match y with (ARelease z, _) => eqn z x | _ => 0 end.
(* x is inside its critical section: a granted lock operation that has not started unlock(), or
   a try_lock winner *)
Definition hold_x (s : st) (x : nat) : nat :=
  (if x <? nl s then op_tok (ops s x) else 0) + sumf (rel_of x) (thr s).

Lemma hold_bound s t a kc x : nth_error (thr s) t = Some (a, kc) -> rel_of x (a, kc) = 0 ->
  hold_x s x + act_tok a <= tokens s.
Proof.
  intros Hth Hr. rewrite tokens_eq. unfold hold_x, thr_tok.
  assert (O : (if x <? nl s then op_tok (ops s x) else 0) <= ops_tok s).
  { destruct (Nat.ltb_spec x (nl s)); [apply op_tok_le_ops_tok; auto|lia]. }
  pose proof (sumf_set_nth (rel_of x) (thr s) t (AFin, KEnd) _ Hth) as R1.
  pose proof (sumf_set_nth (fun y => act_tok (fst y)) (thr s) t (AFin, KEnd) _ Hth) as R2.
  simpl in R2. change (rel_of x (AFin, KEnd)) with 0 in R1. rewrite Hr in R1.
  assert (L : sumf (rel_of x) (set_nth t (AFin, KEnd) (thr s)) <= sumf (fun y => act_tok (fst y)) (set_nth t (AFin, KEnd) (thr s))).
  { apply sumf_le. intros [a0 k0]. destruct a0; simpl; try lia. unfold eqn. destruct (_ =? _); lia. }
  lia.
Qed.

Record TInv2 (c : st * list ev) : Prop := {
  t2_inv : Inv (fst c);
  t2_scan : exists h, scan (snd c) = Some h /\
            forall x, hold_x (fst c) x = match h with Some y => eqn y x | None => 0 end
}.

Lemma init_tinv2 fx hs nt : TInv2 (init fx hs nt, []).
Proof.
  constructor; [apply init_inv|]. exists None. split; [reflexivity|]. intros x.
  cbn [fst snd]. unfold hold_x. rewrite init_sum0 by reflexivity. simpl. rewrite sumf_zero by auto.
  destruct (x <? length hs); reflexivity.
Qed.

Lemma hold_set_thr S t a k y x : nth_error (thr S) t = Some y ->
  hold_x (set_thr S t a k) x + rel_of x y = hold_x S x + rel_of x (a, k).
Proof.
  intros H. unfold hold_x, set_thr. cbn [thr nl ops].
  pose proof (sumf_set_nth (rel_of x) (thr S) t (a, k) y H).
  remember (if x <? nl S then op_tok (ops S x) else 0) as o. lia.
Qed.
Lemma hold_set_locked s b x : hold_x (set_locked s b) x = hold_x s x. Proof. reflexivity. Qed.
Lemma hold_set_queue s q x : hold_x (set_queue s q) x = hold_x s x. Proof. reflexivity. Qed.
Lemma hold_neutral s k f x : (forall o, op_tok (f o) = op_tok o) -> hold_x (upd_op s k f) x = hold_x s x.
Proof.
  intros H. unfold hold_x. simpl. destruct (x <? nl s); auto. destruct (x =? k); auto.
Qed.
Lemma hold_upd s k f x : k < nl s ->
  hold_x (upd_op s k f) x + (if x =? k then op_tok (ops s k) else 0)
  = hold_x s x + (if x =? k then op_tok (f (ops s k)) else 0).
Proof.
  intros H. unfold hold_x. simpl. destruct (Nat.eqb_spec x k).
  - subst. apply Nat.ltb_lt in H. rewrite H. lia.
  - lia.
Qed.

Ltac hold_neutral_in X :=
  repeat first [ rewrite hold_set_locked in X | rewrite hold_set_queue in X
               | rewrite hold_neutral in X by (intros; reflexivity) ].

(* express hold_x of the new state by hold_x of the old one *)
Ltac hold_norm Hth Hk x :=
  unfold ret; cbn [ret_to fst snd];
  match goal with |- context [hold_x (set_thr ?S ?t ?a ?k) x] =>
    let HT := fresh "HT" in pose proof (hold_set_thr S t a k _ x Hth) as HT;
    let v := fresh "v" in remember (hold_x (set_thr S t a k) x) as v eqn:Ev; clear Ev;
    try match type of HT with
    | context [hold_x (upd_op ?S2 ?k2 (w_res ?o)) x] =>
        let OT := fresh "OT" in pose proof (hold_upd S2 k2 (w_res o) x Hk) as OT;
        let w := fresh "w" in remember (hold_x (upd_op S2 k2 (w_res o)) x) as w eqn:Ew; clear Ew;
        hold_neutral_in OT; simpl in OT; rewrite ?Nat.eqb_refl in OT; simpl in OT
    | context [hold_x (upd_op ?S2 ?k2 w_released) x] =>
        let OT := fresh "OT" in pose proof (hold_upd S2 k2 w_released x Hk) as OT;
        let w := fresh "w" in remember (hold_x (upd_op S2 k2 w_released) x) as w eqn:Ew; clear Ew;
        hold_neutral_in OT; simpl in OT; rewrite ?Nat.eqb_refl in OT; simpl in OT
    end;
    hold_neutral_in HT; simpl in HT
  end.

Lemma step_tinv2 c t s' evs : TInv2 c -> step t (fst c) = Some (s', evs) -> TInv2 (s', snd c ++ evs).
Proof.
  destruct c as [s tr]. simpl. intros T H.
  pose proof (t2_inv _ T) as I. simpl in I.
  pose proof (step_inv _ _ _ _ I H) as I'.
  constructor; simpl; [exact I'|]. clear I'.
  destruct (t2_scan _ T) as [h [Hs Hh]]. simpl in Hs, Hh.
  unfold scan in *. rewrite fold_left_app, Hs. clear Hs.
  pose proof (v_tok _ I) as T0.
  step_split' H Hth;
    try (pose proof (compl_facts _ _ _ _ _ _ I Hth eq_refl) as (Hk & Hres & Hrel & Hcan & Hcomp));
    try (assert (Hk : i < nl s) by (eapply (v_wf_a _ I _ _ _ _ Hth); reflexivity));
    cbn [fold_left scan1];
    try (exists h; split; [reflexivity|]; intros xx; rewrite <- (Hh xx); try (destruct kc; try kill_ki I Hth);
         hold_norm Hth Hk xx; unfold getop in *; unfold op_tok in *; simpl in *;
         rewrite ?Hres, ?Hrel in *; simpl in *; destr_if; try lia; fail).
  (* acquisitions: nobody is inside a critical section *)
  all: try (assert (Hn : h = None);
            [ destruct h as [y|]; auto; exfalso; pose proof (Hh y) as Hy; unfold eqn in Hy; rewrite Nat.eqb_refl in Hy;
              pose proof (hold_bound s t _ _ y Hth eq_refl) as B; simpl in B;
              unfold getop in *; simpl in *; rewrite ?Nat.eqb_refl in *; simpl in *;
              try (match goal with Q : o_cancelled _ = false |- _ => rewrite Q in Hcan end; destruct (is_lock_ctx c); simpl in *; try discriminate);
              destruct (locked s); simpl in *; try discriminate; lia
            | subst h ]).
  all: try (eexists; split; [reflexivity|]; intros xx; pose proof (Hh xx) as Hx; try (destruct kc; try kill_ki I Hth);
            hold_norm Hth Hk xx; unfold getop in *; unfold op_tok in *; simpl in *;
            rewrite ?Hres, ?Hrel in *; simpl in *; eqb_cases; subst; destr_if; try congruence; try lia; fail).
  - (* a granted locker leaves its critical section *)
    assert (Hn : h = Some i).
    { pose proof (Hh i) as Hi. unfold hold_x in Hi. apply Nat.ltb_lt in Hk. rewrite Hk in Hi.
      unfold op_tok, getop in *. rewrite Heql, Heqb in Hi.
      destruct h as [y|]; [|lia]. unfold eqn in Hi. destruct (Nat.eqb_spec y i); [subst; auto|lia]. }
    subst h. rewrite Nat.eqb_refl. exists None. split; [reflexivity|]. intros xx. pose proof (Hh xx) as Hx.
    hold_norm Hth Hk xx. unfold getop, op_tok in *. simpl in *. rewrite ?Heql, ?Heqb in *. simpl in *.
    eqb_cases; subst; try congruence; try lia.
  - (* a try_lock winner leaves its critical section *)
    assert (Hn : h = Some t0).
    { pose proof (Hh t0) as Hi. unfold hold_x in Hi.
      pose proof (sumf_nth_le (rel_of t0) _ _ _ Hth) as L. simpl in L. unfold eqn in L. rewrite Nat.eqb_refl in L.
      destruct h as [y|]; [|lia]. unfold eqn in Hi. destruct (Nat.eqb_spec y t0); [subst; auto|lia]. }
    subst h. rewrite Nat.eqb_refl. exists None. split; [reflexivity|]. intros xx. pose proof (Hh xx) as Hx.
    assert (Hk : 0 < 1) by lia.
    hold_norm Hth Hk xx. simpl in *. eqb_cases; subst; try congruence; try lia.
Qed.

Lemma tinv2_reachable fx hs nt sched : TInv2 (run step sched (init fx hs nt, [])).
Proof.
  apply (run_invariant _ _ _ step TInv2).
  - intros c t s' ev T H. eapply step_tinv2; eauto.
  - apply init_tinv2.
Qed.

(* mutual exclusion on traces: acquire (set_value of a lock operation, try_lock() = true) and
   release events alternate, each release by the current holder - in both variants of the model *)
Theorem mutex_trace fx hs nt sched :
  let tr := snd (run step sched (init fx hs nt, [])) in
  exists h, scan tr = Some h.
Proof.
  intros tr. destruct (t2_scan _ (tinv2_reachable fx hs nt sched)) as [h [H _]]. exists h. exact H.
Qed.

(* ------------------------------------------------------------------ FIFO *)
Definition claim_of (e : ev) : list nat := match e with EPushClaim i => [i] | _ => [] end.
Definition pop_of (e : ev) : list nat := match e with EPop (Some x) => [x] | _ => [] end.
Definition removed_of (e : ev) : list nat := match e with ERemove i true => [i] | _ => [] end.
(* the waiters in the order in which their push_back claimed the tail *)
Definition claims (tr : list ev) : list nat := flat_map claim_of tr.
(* the waiters in the order in which pop_front handed them to process_queue *)
Definition pops (tr : list ev) : list nat := flat_map pop_of tr.
(* the waiters taken out by a successful try_remove (cancelled while queued) *)
Definition removed (tr : list ev) : list nat := flat_map removed_of tr.

Definition prepush (x : act * cont) : option nat :=
  match x with
  | (AReg i, _) | (ARegRel i, _) | (AEarly i, _) | (ATryLock i, _) | (APush i, _) => Some i
  | (ACbOr i, KInlineCb _) => Some i
  | _ => None
  end.

Lemma filter_snoc {A} (P : A -> bool) l x : filter P (l ++ [x]) = filter P l ++ (if P x then [x] else []).
Proof. rewrite filter_app. simpl. destruct (P x); reflexivity. Qed.

Lemma mem_nat_app x l1 l2 : mem_nat x (l1 ++ l2) = mem_nat x l1 || mem_nat x l2.
Proof. unfold mem_nat. apply existsb_app. Qed.

Lemma mem_nat_In x l : mem_nat x l = true <-> In x l.
Proof.
  unfold mem_nat. rewrite existsb_exists. split.
  - intros [y [H1 H2]]. apply Nat.eqb_eq in H2. subst. auto.
  - intros H. exists x. split; auto. apply Nat.eqb_refl.
Qed.

Lemma mem_nat_false x l : mem_nat x l = false <-> ~ In x l.
Proof. rewrite <- mem_nat_In. destruct (mem_nat x l); split; intros; try congruence; tauto. Qed.

Lemma remove_nat_notin i l : ~ In i l -> remove_nat i l = l.
Proof.
  induction l as [|y l IH]; simpl; auto. intros H. destruct (Nat.eqb_spec i y).
  - subst. exfalso. apply H. auto.
  - f_equal. apply IH. tauto.
Qed.

Lemma remove_nat_app_r i l1 l2 : ~ In i l1 -> remove_nat i (l1 ++ l2) = l1 ++ remove_nat i l2.
Proof.
  induction l1 as [|y l IH]; simpl; auto. intros H. destruct (Nat.eqb_spec i y).
  - subst. exfalso. apply H. auto.
  - f_equal. apply IH. tauto.
Qed.

Lemma filter_removed_snoc R i l :
  NoDup l -> ~ In i R ->
  filter (fun j => negb (mem_nat j (R ++ [i]))) l = remove_nat i (filter (fun j => negb (mem_nat j R)) l).
Proof.
  intros N HR. induction l as [|j l IH]; simpl; auto.
  inversion N; subst. rewrite mem_nat_app. simpl. rewrite orb_false_r.
  destruct (Nat.eqb_spec j i).
  - subst. apply mem_nat_false in HR. rewrite HR. simpl. rewrite Nat.eqb_refl.
    rewrite IH by auto. apply remove_nat_notin. intros Hin. apply filter_In in Hin. tauto.
  - rewrite orb_false_r. destruct (mem_nat j R); simpl; auto.
    destruct (Nat.eqb_spec i j); [congruence|]. f_equal. auto.
Qed.

Record TInv3 (c : st * list ev) : Prop := {
  t3_inv : Inv (fst c);
  t3_nodup : NoDup (claims (snd c));
  t3_pre : forall t x i, nth_error (thr (fst c)) t = Some x -> prepush x = Some i -> ~ In i (claims (snd c));
  t3_rem : forall i, In i (removed (snd c)) -> In i (claims (snd c));
  t3_head : forall t x kc, nth_error (thr (fst c)) t = Some (APopPub x, kc) -> hd_error (queue (fst c)) = Some x;
  t3_fifo : filter (fun i => negb (mem_nat i (removed (snd c)))) (claims (snd c)) = pops (snd c) ++ queue (fst c)
}.

Lemma init_tinv3 fx hs nt : TInv3 (init fx hs nt, []).
Proof.
  constructor; cbn [fst snd].
  - apply init_inv.
  - constructor.
  - intros t x i _ _ H. exact H.
  - intros i H. exact H.
  - intros t x kc H. apply init_thr_cases in H.
    destruct H as [(H1 & E & _)|[(j & H1 & [E|E] & _)|(j & E & _)]]; discriminate.
  - reflexivity.
Qed.

Lemma NoDup_snoc {A} (l : list A) x : NoDup l -> ~ In x l -> NoDup (l ++ [x]).
Proof.
  intros N H. induction l as [|a l IH]; simpl.
  - constructor; auto.
  - inversion N; subst. constructor.
    + intros Hin. apply in_app_or in Hin. destruct Hin as [Hin|[Hin|[]]]; auto. subst. apply H. left; auto.
    + apply IH; auto. intros Hin. apply H. right; auto.
Qed.

Lemma prepush_own s t x i : Inv s -> nth_error (thr s) t = Some x -> prepush x = Some i -> t = i.
Proof.
  intros I H Hp. destruct x as [a kc].
  destruct a; simpl in Hp; try discriminate;
    try (inversion Hp; subst; eapply (v_own_a _ I); eauto; reflexivity).
  destruct kc; try discriminate. inversion Hp; subst.
  pose proof (v_ki _ I _ _ _ H) as X. inversion X; subst.
  eapply (v_own_k _ I); eauto.
Qed.

Lemma step_tinv3 c t s' evs : TInv3 c -> step t (fst c) = Some (s', evs) -> TInv3 (s', snd c ++ evs).
Proof.
  destruct c as [s tr]. cbn [fst snd]. intros T H.
  pose proof (t3_inv _ T) as I. cbn [fst snd] in I.
  pose proof (step_inv _ _ _ _ I H) as I'.
  pose proof (t3_nodup _ T) as N. pose proof (t3_pre _ T) as P. pose proof (t3_rem _ T) as R.
  pose proof (t3_head _ T) as Hd. pose proof (t3_fifo _ T) as F. cbn [fst snd] in *.
  constructor; cbn [fst snd]; [exact I'| | | | |]; clear I'.
  - (* NoDup claims *)
    unfold claims in *. rewrite flat_map_app.
    step_split' H Hth; simpl; rewrite ?app_nil_r; auto.
    apply NoDup_snoc; auto. eapply P; eauto.
  - (* prepush threads have not claimed *)
    intros t0 x0 i0 H0 Hp. unfold claims in *. rewrite flat_map_app.
    step_split' H Hth; simpl in H0;
    (destruct (nth_thr_cases _ _ _ _ _ _ Hth H0) as [[-> E]|[N0 E]];
     [ subst x0; try (destruct kc; simpl in Hp; try kill_ki I Hth);
       repeat match type of Hp with context [if ?b then _ else _] => destruct b eqn:? end;
       simpl in Hp; try discriminate Hp; injection Hp as Ei; subst i0;
       simpl; rewrite ?app_nil_r; try (eapply P; [exact Hth|reflexivity])
     | simpl; rewrite ?app_nil_r; try (eapply P; eauto; fail) ]).
    + intros Hin. apply in_app_or in Hin. destruct Hin as [Hin|[Hin|[]]]; [eapply P; eauto|].
      subst i0. apply N0. rewrite (prepush_own _ _ _ _ I E Hp).
      symmetry. eapply (v_own_a _ I _ _ _ _ Hth). reflexivity.
    + pose proof (v_ki _ I _ _ _ Hth) as X. inversion X; subst. eapply P; [exact Hth|reflexivity].
  - (* removed waiters had claimed *)
    intros i0 Hin. unfold removed, claims in *. rewrite !flat_map_app in *.
    step_split' H Hth; simpl in *; rewrite ?app_nil_r in *; auto;
      try (apply in_or_app; left; apply R; auto; fail).
    apply in_app_or in Hin. destruct Hin as [Hin|[Hin|[]]]; [apply R; auto|]. subst i0.
    apply andb_prop in Heqb. destruct Heqb as [Hm _]. apply mem_nat_In in Hm.
    assert (X : In i (pops tr ++ queue s)) by (apply in_or_app; right; auto).
    rewrite <- F in X. apply filter_In in X. tauto.
  - (* a taken item is the head of the queue *)
    intros t0 x0 kc0 H0.
    step_split' H Hth; simpl in H0; simpl;
    (destruct (nth_thr_cases _ _ _ _ _ _ Hth H0) as [[-> E]|[N0 E]];
     [ try (destruct kc; simpl in E; try kill_ki I Hth);
       repeat match type of E with context [if ?b then _ else _] => destruct b eqn:? end;
       try discriminate E
     | try (eapply Hd; eauto; fail) ]).
    all: try (injection E as -> ->; match goal with Q : queue _ = _ |- _ => rewrite Q end; reflexivity).
    all: try (pose proof (Hd _ _ _ E) as X; simpl in X; discriminate X).
    all: try (pose proof (Hd _ _ _ E) as X; match goal with Q : queue _ = _ |- _ => rewrite Q end; exact X).
    + pose proof (Hd _ _ _ E) as X. destruct (queue s); simpl in *; [discriminate|auto].
    + exfalso. assert (X : 1 + 1 <= sumf is_poppub (thr s)) by (exact (sumf_two is_poppub _ _ _ _ _ Hth E (not_eq_sym N0))).
      pose proof (v_pu _ I). lia.
    + pose proof (Hd _ _ _ E) as X. apply andb_prop in Heqb. destruct Heqb as [_ Ht].
      apply negb_true_iff in Ht.
      destruct (queue s) as [|y r]; simpl in *; [discriminate|]. inversion X; subst.
      destruct (Nat.eqb_spec i x0); [|reflexivity].
      subst. exfalso. eapply taken_false_nth; eauto.
  - (* the queue is the claim order minus the removed and the popped *)
    unfold claims, pops, removed in *. rewrite !flat_map_app.
    step_split' H Hth; simpl; rewrite ?app_nil_r; auto;
      try (match goal with Q : queue _ = _ |- _ => rewrite <- Q in F end; exact F).
    + (* claim *)
      assert (Hni : ~ In i (flat_map claim_of tr)) by (eapply P; eauto; reflexivity).
      assert (Hnr : mem_nat i (flat_map removed_of tr) = false).
      { apply mem_nat_false. intros X. apply Hni. apply R. exact X. }
      rewrite filter_snoc, Hnr. simpl. rewrite F, app_assoc. reflexivity.
    + (* pop publishes *)
      pose proof (Hd _ _ _ Hth) as X. destruct (queue s) as [|y r]; simpl in X; [discriminate|].
      inversion X; subst. simpl. rewrite Nat.eqb_refl. rewrite F, <- app_assoc. reflexivity.
    + (* try_remove *)
      apply andb_prop in Heqb. destruct Heqb as [Hm _]. apply mem_nat_In in Hm.
      assert (ND : NoDup (flat_map pop_of tr ++ queue s)) by (rewrite <- F; apply NoDup_filter; exact N).
      assert (Hnp : ~ In i (flat_map pop_of tr)).
      { intros X. revert ND X Hm. generalize (flat_map pop_of tr) (queue s). clear.
        induction l as [|a l IH]; simpl; intros q ND X Hm; [tauto|].
        inversion ND; subst. destruct X as [->|X].
        - apply H1. apply in_or_app. right. auto.
        - eapply IH; eauto. }
      assert (Hnr : ~ In i (flat_map removed_of tr)).
      { intros X. assert (Y : In i (flat_map pop_of tr ++ queue s)) by (apply in_or_app; right; auto).
        rewrite <- F in Y. apply filter_In in Y. destruct Y as [_ Y].
        apply mem_nat_In in X. rewrite X in Y. discriminate. }
      rewrite filter_removed_snoc by auto. rewrite F. apply remove_nat_app_r. exact Hnp.
Qed.

Lemma tinv3_reachable fx hs nt sched : TInv3 (run step sched (init fx hs nt, [])).
Proof.
  apply (run_invariant _ _ _ step TInv3).
  - intros c t s' ev T H. eapply step_tinv3; eauto.
  - apply init_tinv3.
Qed.

(* FIFO: the queue is, in order, the waiters that claimed the tail (push_back), minus those taken
   out by a successful try_remove (cancelled while queued), minus those already handed to
   process_queue by pop_front: waiters are popped - granted the mutex - in the order they queued *)
Theorem fifo fx hs nt sched :
  let c := run step sched (init fx hs nt, []) in
  filter (fun i => negb (mem_nat i (removed (snd c)))) (claims (snd c)) = pops (snd c) ++ queue (fst c)
  /\ NoDup (claims (snd c)).
Proof.
  intros c. pose proof (tinv3_reachable fx hs nt sched) as T. fold c in T.
  split; [apply (t3_fifo _ T)|apply (t3_nodup _ T)].
Qed.

(* ------------------------------------------------------------------ no lost waiter *)
(* a thread that is about to (re)examine locked_ / the queue: the Dekker pattern *)
Definition is_guard (x : act * cont) : nat :=
  match x with
  | (APushPub _, _) | (AXchg, _) | (AEmpty, _) | (AReXchg, _) => 1
  | _ => 0
  end.
Definition guards (s : st) : nat := sumf is_guard (thr s).

Record LInv (s : st) : Prop := {
  l_inv : Inv s;
  (* before its StopsEarly check passed, the operation has not set started_ *)
  l_bs2 : forall t x i, nth_error (thr s) t = Some x -> pre_start x = Some i -> o_started_ (ops s i) = false;
  (* the handle of an operation is never dropped: until try_complete(k) has been called it is
     with k's thread, in the queue, or in the hands of exactly one thread *)
  l_handle : forall k, k < nl s -> handles s k + b2n (o_completed (ops s k)) >= 1;
  (* Dekker: when the mutex is unlocked and a waiter is queued, somebody is about to look *)
  l_guard : locked s = false -> queue s <> [] -> guards s >= 1
}.

Lemma step_bs2 s t s' evs : Inv s ->
  (forall t x i, nth_error (thr s) t = Some x -> pre_start x = Some i -> o_started_ (ops s i) = false) ->
  step t s = Some (s', evs) ->
  forall t0 x i, nth_error (thr s') t0 = Some x -> pre_start x = Some i -> o_started_ (ops s' i) = false.
Proof.
  intros I B2 H t0 x i0 H0 Hp. step_split' H Hth; simpl in *;
  (destruct (nth_thr_cases _ _ _ _ _ _ Hth H0) as [[-> E]|[N E]];
   [ subst x; try (destruct kc; simpl in *; try kill_ki I Hth); destr_if; try discriminate;
     inversion Hp; subst;
     (pose proof (B2 _ _ _ Hth eq_refl) as B; unfold getop in *; simpl in *; destr_if; simpl; auto)
   | pose proof (B2 _ _ _ E Hp) as B; unfold getop in *; simpl in *; destr_if; simpl; auto ]).
  all: try (match goal with Q : (_ =? _) = true |- true = false => apply Nat.eqb_eq in Q; subst end;
            exfalso; apply N;
            rewrite (pre_start_own _ _ _ _ I E Hp);
            symmetry; eapply (v_own_a _ I _ _ _ _ Hth); reflexivity).
  all: pose proof (v_ki _ I _ _ _ Hth) as X; inversion X; subst; exact B.
Qed.

Lemma handles_keep s t s' evs : Inv s ->
  (forall t x i, nth_error (thr s) t = Some x -> pre_start x = Some i -> o_started_ (ops s i) = false) ->
  step t s = Some (s', evs) -> forall k,
  handles s k <= handles s' k + b2n (o_completed (ops s' k)).
Proof.
  intros I B2 H k.
  assert (G : forall h0, h0 <= handles s k -> h0 <= handles s' k + b2n (o_completed (ops s' k))); [|apply G; apply le_n].
  intros h0 E0. pose proof (v_hs1 _ I k) as H1.
  step_split' H Hth; unfold handles, inq in *; simpl; dk I Hth; destr_if;
    use_sum Hth; count_simp; unfold getop in *; simpl in *; try (eqb_cases; subst; simpl in *; rw_completed; simpl in *; lia);
    try (pose proof (B2 _ _ _ Hth eq_refl) as B; simpl in B; congruence);
    side_facts I Hth; try (kill_early I Hth); try (use_mem; eqb_cases; subst; simpl in *; rw_completed; simpl in *; lia).
  pose proof (v_bs _ I _ _ _ Hth eq_refl) as B. simpl in B. congruence.
Qed.

Lemma tok_locked s t a kc : Inv s -> nth_error (thr s) t = Some (a, kc) -> act_tok a = 1 -> locked s = true.
Proof.
  intros I H Ha. pose proof (v_tok _ I) as T. rewrite tokens_eq in T. unfold thr_tok in T.
  pose proof (sumf_nth_le (fun x => act_tok (fst x)) _ _ _ H) as L. simpl in L.
  destruct (locked s); auto. simpl in T. lia.
Qed.

Lemma unpub_thread s x : unpub s x = true -> exists kc, nth_error (thr s) x = Some (APushPub x, kc).
Proof.
  unfold unpub. destruct (nth_error (thr s) x) as [[a kc]|]; try discriminate.
  destruct a; try discriminate. intros H. apply Nat.eqb_eq in H. subst. eauto.
Qed.

Lemma step_linv s t s' evs : LInv s -> step t s = Some (s', evs) -> LInv s'.
Proof.
  intros L H. pose proof (l_inv _ L) as I. pose proof (l_bs2 _ L) as B2.
  destruct (step_consts _ _ _ _ H) as [_ Enl].
  constructor.
  - eapply step_inv; eauto.
  - eapply step_bs2; eauto.
  - intros k Hk. rewrite Enl in Hk. pose proof (l_handle _ L k Hk) as Hh.
    pose proof (handles_keep _ _ _ _ I B2 H k) as K.
    destruct (o_completed (ops s k)) eqn:C.
    + assert (o_completed (ops s' k) = true).
      { clear - H C. step_split' H Hth; simpl; unfold getop in *; destr_if; simpl; auto. }
      rewrite H0. simpl. lia.
    + simpl in Hh. lia.
  - intros Hl Hq. pose proof (l_guard _ L) as G. unfold guards in *.
    step_split' H Hth; simpl in *; dk I Hth; destr_if; use_sum Hth;
      try discriminate; try congruence; try lia;
      try (assert (Gx : sumf is_guard (thr s) >= 1) by (apply G; [assumption|first [assumption|discriminate|congruence]]); lia).
    all: try (exfalso; assert (Lk : locked s = true) by (eapply tok_locked; [exact I|exact Hth|reflexivity]); congruence).
    all: try (assert (Gx : sumf is_guard (thr s) >= 1) by (apply G; [assumption|intros Z; rewrite Z in Hq; simpl in Hq; congruence]); lia).
    all: destruct (queue s) as [|x r] eqn:Eq; [congruence|];
         destruct (unpub_thread _ _ Heqb) as [kc' Hx];
         assert (Nx : t <> x) by (intros ->; rewrite Hth in Hx; discriminate);
         assert (X : 1 + 1 <= sumf is_guard (thr s)) by (exact (sumf_two is_guard _ _ _ _ _ Hth Hx Nx)); lia.
Qed.

Lemma init_linv fx hs nt : LInv (init fx hs nt).
Proof.
  constructor.
  - apply init_inv.
  - intros t x i H Hp. reflexivity.
  - intros k Hk. unfold handles, inq. rewrite init_sum0 by reflexivity. simpl in *.
    assert (G : forall n b, b <= k < b + n -> sumf (fun i => eqn i k) (seq b n) >= 1).
    { clear. induction n as [|n IH]; intros b Hb; [lia|]. unfold sumf in *. simpl.
      unfold eqn at 1. destruct (Nat.eqb_spec b k); [lia|]. specialize (IH (S b)). lia. }
    specialize (G (length hs) 0). lia.
  - intros _ Hq. simpl in Hq. congruence.
Qed.

Lemma linv_reachable fx hs nt sched : LInv (fst (run step sched (init fx hs nt, []))).
Proof.
  apply (run_invariant_state _ _ _ step LInv).
  - intros s t s' ev I H. eapply step_linv; eauto.
  - apply init_linv.
Qed.

(* no lost waiter, invariant part (both variants of the forwarder):
   - an operation whose try_complete has not been called yet is never dropped: its handle is
     with its own thread (before push_back), in the queue, or held by exactly one thread that is
     about to call try_complete on it;
   - the Dekker property: when locked_ is false and a waiter is queued, some thread is between
     its push_back and its locked_.exchange, or between locked_.store(false) and the re-check *)
Theorem no_lost_waiter fx hs nt sched :
  let s := fst (run step sched (init fx hs nt, [])) in
  (forall k, k < nl s -> o_completed (ops s k) = false -> handles s k = 1) /\
  (locked s = false -> queue s <> [] -> guards s >= 1).
Proof.
  intros s. pose proof (linv_reachable fx hs nt sched) as L. fold s in L. split.
  - intros k Hk Hc. pose proof (l_handle _ L k Hk) as H. rewrite Hc in H. simpl in H.
    pose proof (v_hs1 _ (l_inv _ L) k). lia.
  - apply (l_guard _ L).
Qed.

(* ------------------------------------------------------------------ thread typing, quiescence *)
Definition stop_a (a : act) : option nat :=
  match a with
  | SAcq i | SRel i _ | SCbDone i | SAcq2 i | SRel2 i => Some i
  | _ => None
  end.
Definition is_try_a (a : act) : bool := match a with TTry _ | ARelease _ => true | _ => false end.

Record MInv (s : st) : Prop := {
  m_inv : Inv s;
  m_len : 2 * nl s <= length (thr s);
  (* request_stop for locker i runs on thread nl + i; try_lock threads come after *)
  m_styp_a : forall t a kc i, nth_error (thr s) t = Some (a, kc) -> stop_a a = Some i -> t = nl s + i;
  m_styp_k : forall t a i, nth_error (thr s) t = Some (a, KStopper i) -> t = nl s + i;
  m_ttyp : forall t a kc, nth_error (thr s) t = Some (a, kc) -> is_try_a a = true -> 2 * nl s <= t;
  m_fin : forall t kc, nth_error (thr s) t = Some (AFin, kc) -> kc = KEnd;
  (* a locker's thread ends only after it released the mutex (or its receiver got set_done: then
     it stays in AWaitGot) *)
  m_fi : forall t a, t < nl s -> nth_error (thr s) t = Some (a, KEnd) -> a = AWaitGot t \/ o_released (ops s t) = true;
  m_rl : forall t a kc i, nth_error (thr s) t = Some (a, kc) -> own_a a = Some i \/ own_k kc = Some i ->
         o_released (ops s i) = false
}.

Lemma released_mono s t s' evs k : step t s = Some (s', evs) ->
  o_released (ops s k) = true -> o_released (ops s' k) = true.
Proof.
  intros H Hc. step_split' H Hth; simpl; unfold getop in *; destr_if; simpl; auto.
Qed.

Lemma released_change s t s' evs k : step t s = Some (s', evs) ->
  o_released (ops s' k) = true ->
  o_released (ops s k) = true \/ exists kc, nth_error (thr s) t = Some (AWaitGot k, kc).
Proof.
  intros H Hc.
  step_split' H Hth; simpl in *; unfold getop in *; destr_if; simpl in *; auto;
    try (match goal with Q : (_ =? _) = true |- _ => apply Nat.eqb_eq in Q; subst end; simpl in *; auto);
    try (right; eauto).
Qed.

Lemma step_minv s t s' evs : MInv s -> step t s = Some (s', evs) -> MInv s'.
Proof.
  intros M H. pose proof (m_inv _ M) as I.
  destruct (step_consts _ _ _ _ H) as [_ Enl].
  constructor.
  - eapply step_inv; eauto.
  - rewrite Enl. pose proof (m_len _ M) as L.
    assert (length (thr s') = length (thr s)); [|lia].
    clear - H. step_split' H Hth; simpl; unfold ret; simpl; rewrite ?length_set_nth; reflexivity.
  - intros t0 a0 kc0 i0 H0 Hs. rewrite Enl.
    step_split' H Hth; simpl in H0;
    (destruct (nth_thr_cases _ _ _ _ _ _ Hth H0) as [[-> E]|[N E]];
     [ injection E as Ea Ek; subst a0 kc0; try (destruct kc; simpl in Hs; try kill_ki I Hth);
       repeat match type of Hs with context [if ?b then _ else _] => destruct b eqn:? end;
       simpl in Hs; try discriminate Hs; injection Hs as Ei; subst i0;
       first [ eapply (m_styp_a _ M _ _ _ _ Hth); reflexivity | eapply (m_styp_k _ M _ _ _ Hth) ]
     | eapply (m_styp_a _ M); eauto ]).
  - intros t0 a0 i0 H0. rewrite Enl.
    step_split' H Hth; simpl in H0;
    (destruct (nth_thr_cases _ _ _ _ _ _ Hth H0) as [[-> E]|[N E]];
     [ try (destruct kc; simpl in E; try kill_ki I Hth);
       repeat match type of E with context [if ?b then _ else _] => destruct b eqn:? end;
       try discriminate E; injection E as Ea Ei; subst;
       first [ eapply (m_styp_a _ M _ _ _ _ Hth); reflexivity | eapply (m_styp_k _ M _ _ _ Hth) ]
     | eapply (m_styp_k _ M); eauto ]).
  - intros t0 a0 kc0 H0 Hs. rewrite Enl.
    step_split' H Hth; simpl in H0;
    (destruct (nth_thr_cases _ _ _ _ _ _ Hth H0) as [[-> E]|[N E]];
     [ injection E as Ea Ek; subst a0 kc0; try (destruct kc; simpl in Hs; try kill_ki I Hth);
       repeat match type of Hs with context [if ?b then _ else _] => destruct b eqn:? end;
       simpl in Hs; try discriminate Hs;
       eapply (m_ttyp _ M _ _ _ Hth); reflexivity
     | eapply (m_ttyp _ M); eauto ]).
  - intros t0 kc0 H0.
    step_split' H Hth; simpl in H0;
    (destruct (nth_thr_cases _ _ _ _ _ _ Hth H0) as [[-> E]|[N E]];
     [ try (destruct kc; simpl in E; try kill_ki I Hth);
       repeat match type of E with context [if ?b then _ else _] => destruct b eqn:? end;
       try discriminate E; injection E as Ea; subst; reflexivity
     | eapply (m_fin _ M); eauto ]).
  - intros t0 a0 Ht0 H0. rewrite Enl in Ht0.
    pose proof (released_mono _ _ _ _ t0 H) as RM.
    step_split' H Hth; simpl in H0;
    (destruct (nth_thr_cases _ _ _ _ _ _ Hth H0) as [[-> E]|[N E]];
     [ try (destruct kc; simpl in E; try kill_ki I Hth);
       repeat match type of E with context [if ?b then _ else _] => destruct b eqn:? end;
       try discriminate E; injection E as Ea; subst
     | destruct (m_fi _ M _ _ Ht0 E) as [X|X]; [left; exact X|right; apply RM; exact X] ]).
    all: try (exfalso; pose proof (m_styp_k _ M _ _ _ Hth); lia).
    all: try (exfalso; pose proof (m_styp_a _ M _ _ _ _ Hth eq_refl); lia).
    all: try (exfalso; pose proof (m_ttyp _ M _ _ _ Hth eq_refl); lia).
    all: try (left; f_equal; symmetry; eapply (v_own_k _ I _ _ _ _ Hth); reflexivity).
    all: try (destruct (m_fi _ M _ _ Ht0 Hth) as [X|X]; [try discriminate X|right; apply RM; exact X]).
    all: right; assert (Ei : i = t) by (eapply eq_sym, (v_own_a _ I _ _ _ _ Hth); reflexivity); subst i;
         unfold getop; simpl; rewrite Nat.eqb_refl; reflexivity.
  - intros t0 a0 kc0 i0 H0 Ho.
    assert (RC := released_change _ _ _ _ i0 H).
    destruct (o_released (ops s' i0)) eqn:Er; auto. exfalso. specialize (RC eq_refl).
    revert Er RC.
    step_split' H Hth; simpl in H0; intros Er RC;
    (destruct (nth_thr_cases _ _ _ _ _ _ Hth H0) as [[-> E]|[N E]];
     [ injection E as Ea Ek; subst a0 kc0
     | ]);
    (destruct RC as [RC|[kc1 RC]];
     [ | try discriminate RC ]).
    all: try (rewrite (m_rl _ M _ _ _ _ E Ho) in RC; discriminate RC).
    all: try (destruct kc; simpl in Ho; try kill_ki I Hth).
    all: try (destruct Ho as [Ho|Ho];
              repeat match type of Ho with context [if ?b then _ else _] => destruct b eqn:? end;
              simpl in Ho; try discriminate Ho; injection Ho as Ei; subst i0;
              first [ rewrite (m_rl _ M _ _ _ _ Hth (or_introl eq_refl)) in RC
                    | rewrite (m_rl _ M _ _ _ _ Hth (or_intror eq_refl)) in RC ]; discriminate RC).
    all: injection RC as Ei _; subst i0; apply N;
         assert (Et : t = i) by (eapply (v_own_a _ I _ _ _ _ Hth); reflexivity);
         assert (Et0 : t0 = i) by (destruct Ho as [Ho|Ho]; [eapply (v_own_a _ I _ _ _ _ E Ho)|eapply (v_own_k _ I _ _ _ _ E Ho)]);
         congruence.
Qed.

Lemma combine_nth_error {A B} (l1 : list A) (l2 : list B) k x y :
  nth_error (combine l1 l2) k = Some (x, y) -> nth_error l1 k = Some x /\ nth_error l2 k = Some y.
Proof.
  revert l2 k. induction l1 as [|a l1 IH]; intros l2 k H; simpl in H.
  - destruct k; discriminate.
  - destruct l2 as [|b l2]; [destruct k; discriminate|]. destruct k; simpl in *.
    + inversion H. auto.
    + apply IH. exact H.
Qed.

Lemma seq_nth_error b n k x : nth_error (seq b n) k = Some x -> x = b + k /\ k < n.
Proof.
  revert b k. induction n as [|n IH]; intros b k H; simpl in H.
  - destruct k; discriminate.
  - destruct k; simpl in H.
    + inversion H. lia.
    + apply IH in H. lia.
Qed.

Lemma init_thr_pos fx hs nt t a kc :
  nth_error (thr (init fx hs nt)) t = Some (a, kc) ->
  let n := length hs in
  (t < n /\ a = AReg t /\ kc = KTop t) \/
  (n <= t < 2 * n /\ (a = SAcq (t - n) \/ a = AFin) /\ kc = KEnd) \/
  (2 * n <= t /\ (exists j, a = TTry j) /\ kc = KEnd).
Proof.
  unfold init. cbn [thr]. intros H. cbv zeta. set (n := length hs) in *.
  destruct (Nat.ltb_spec t n) as [E1|E1].
  - left. rewrite nth_error_app1 in H by (rewrite map_length, seq_length; auto).
    rewrite nth_error_map in H. destruct (nth_error (seq 0 n) t) eqn:E; [|discriminate].
    apply seq_nth_error in E. simpl in H. inversion H. destruct E as [-> _]. auto.
  - right. rewrite nth_error_app2 in H by (rewrite map_length, seq_length; auto). rewrite map_length, seq_length in H.
    assert (Lc : length (combine (seq 0 n) hs) = n) by (rewrite combine_length, seq_length; apply Nat.min_id).
    destruct (Nat.ltb_spec (t - n) n) as [E2|E2].
    + left. rewrite nth_error_app1 in H by (rewrite map_length, Lc; auto).
      rewrite nth_error_map in H. destruct (nth_error (combine (seq 0 n) hs) (t - n)) as [[i b]|] eqn:E; [|discriminate].
      apply combine_nth_error in E. destruct E as [Es _]. apply seq_nth_error in Es. simpl in Es, H.
      destruct Es as [-> _]. inversion H. split; [lia|]. split; auto. destruct b; auto.
    + right. rewrite nth_error_app2 in H by (rewrite map_length, Lc; auto). rewrite map_length, Lc in H.
      rewrite nth_error_map in H. destruct (nth_error (seq 0 nt) (t - n - n)) eqn:E; [|discriminate].
      simpl in H. inversion H. split; [lia|]. split; eauto.
Qed.

Lemma init_minv fx hs nt : MInv (init fx hs nt).
Proof.
  constructor.
  - apply init_inv.
  - simpl. rewrite !app_length, !map_length, seq_length, combine_length, seq_length, Nat.min_id. lia.
  - intros t a kc i H Hs. apply init_thr_pos in H. simpl.
    destruct H as [(H1 & -> & ->)|[(H1 & [->| ->] & ->)|(H1 & [j ->] & ->)]]; simpl in Hs; inversion Hs; subst; lia.
  - intros t a i H. apply init_thr_pos in H.
    destruct H as [(H1 & _ & E)|[(H1 & _ & E)|(H1 & _ & E)]]; discriminate.
  - intros t a kc H Hs. apply init_thr_pos in H. simpl.
    destruct H as [(H1 & -> & ->)|[(H1 & [->| ->] & ->)|(H1 & [j ->] & ->)]]; simpl in Hs; try discriminate; lia.
  - intros t kc H. apply init_thr_pos in H.
    destruct H as [(H1 & E & _)|[(H1 & _ & E)|(H1 & _ & E)]]; try discriminate; auto.
  - intros t a Ht H. apply init_thr_pos in H. simpl in Ht.
    destruct H as [(H1 & _ & E)|[(H1 & _ & E)|(H1 & _ & E)]]; try discriminate; lia.
  - intros t a kc i H Ho. reflexivity.
Qed.

Lemma minv_reachable fx hs nt sched : MInv (fst (run step sched (init fx hs nt, []))).
Proof.
  apply (run_invariant_state _ _ _ step MInv).
  - intros s t s' ev I H. eapply step_minv; eauto.
  - apply init_minv.
Qed.

Lemma quiescent_thread s t a kc : quiescent s = true -> nth_error (thr s) t = Some (a, kc) ->
  a = AFin \/ exists i, a = AWaitGot i /\ o_res (ops s i) = [ODone].
Proof.
  unfold quiescent. intros Q H. rewrite forallb_forall in Q.
  specialize (Q _ (nth_error_In _ _ H)). unfold thr_finished in Q. simpl in Q.
  destruct a; try discriminate; auto. right. exists i. split; auto. unfold getop in Q.
  destruct (o_res (ops s i)) as [|[] [|? ?]]; try discriminate; auto.
Qed.

(* at quiescence (every thread body has ended; a locker whose receiver got set_done counts as
   ended) every locker's receiver has been completed exactly once, nobody is queued, and - with
   the repaired forwarder - the mutex is unlocked *)
Theorem served_at_quiescence fx hs nt sched :
  let s := fst (run step sched (init fx hs nt, [])) in
  quiescent s = true ->
  (forall i, i < nl s -> length (o_res (ops s i)) = 1) /\ queue s = [] /\ (fx = true -> locked s = false).
Proof.
  intros s Q. pose proof (minv_reachable fx hs nt sched) as M. fold s in M.
  pose proof (m_inv _ M) as I.
  assert (A : forall i, i < nl s -> o_res (ops s i) = [ODone] \/ (o_res (ops s i) = [OValue] /\ o_released (ops s i) = true)).
  { intros i Hi. pose proof (m_len _ M) as L.
    destruct (nth_error (thr s) i) as [[a kc]|] eqn:E; [|apply nth_error_None in E; lia].
    destruct (quiescent_thread _ _ _ _ Q E) as [->|[j [-> Hj]]].
    - pose proof (m_fin _ M _ _ E). subst kc.
      destruct (m_fi _ M _ _ Hi E) as [X|X]; [discriminate|]. right. split; auto. apply (v_rs _ I). exact X.
    - left. assert (i = j) by (eapply (v_own_a _ I _ _ _ _ E); reflexivity). subst. exact Hj. }
  split; [|split].
  - intros i Hi. destruct (A i Hi) as [->|[-> _]]; reflexivity.
  - destruct (queue s) as [|k r] eqn:Eq; auto. exfalso.
    assert (Hk : k < nl s) by (apply (v_wf_q _ I); rewrite Eq; left; auto).
    assert (Hh : handles s k = 1).
    { pose proof (v_hs1 _ I k). unfold handles, inq in *. rewrite Eq in *. simpl in *.
      destruct (Nat.eq_dec k k); [lia|congruence]. }
    pose proof (v_hs2 _ I k Hh) as Hc. pose proof (v_ps _ I k) as P. rewrite Hc in P. simpl in P.
    destruct (A k Hk) as [X|[X _]]; rewrite X in P; simpl in P; lia.
  - intros ->. pose proof (v_tokf _ I) as T. unfold s in T at 1. rewrite fixed_run in T. specialize (T eq_refl).
    fold s in T.
    assert (Z : tokens s = 0).
    { rewrite tokens_eq. unfold thr_tok, ops_tok. rewrite !sumf_zero; auto.
      - intros n x Hn. apply seq_nth_error in Hn. destruct Hn as [-> Hn]. simpl.
        unfold op_tok. destruct (A n Hn) as [->|[-> ->]]; reflexivity.
      - intros n [a kc] Hn. destruct (quiescent_thread _ _ _ _ Q Hn) as [->|[j [-> _]]]; reflexivity. }
    rewrite Z in T. destruct (locked s); [discriminate|reflexivity].
Qed.

(* ------------------------------------------------------------------ invariants for progress *)
Definition is_srcholder (k : nat) (x : act * cont) : nat :=
  match x with
  | (ARegRel i, _) | (ADeregRel i _ _, _) | (SRel i _, _) | (SRel2 i, _) => eqn i k
  | _ => 0
  end.
Definition is_sacq (k : nat) (x : act * cont) : nat :=
  match x with
  | (SAcq i, _) | (SRel i false, _) => eqn i k
  | _ => 0
  end.
(* request_stop is between taking k's callback off the list and callbackCompleted_.store *)
Definition is_cbregion (k : nat) (x : act * cont) : nat :=
  match x with
  | (SRel i true, _) | (SCbDone i, _) => eqn i k
  | (_, KStopper i) => eqn i k
  | _ => 0
  end.
Definition is_syncstore (k : nat) (x : act * cont) : nat :=
  match x with (ASyncStore i _, _) => eqn i k | _ => 0 end.
Definition waits_cb (a : act) : option nat :=
  match a with ADeregRel k _ true | ADeregWait k _ => Some k | _ => None end.

Record PInv (s : st) : Prop := {
  p_minv : MInv s;
  p_linv : LInv s;
  (* the source's spin lock is held by exactly the thread between its lock CAS and unlock store *)
  p_sl : forall k, b2n (o_src_locked (ops s k)) = sumf (is_srcholder k) (thr s);
  (* request_stop runs once: after it took the callback no SAcq is pending *)
  p_c0 : forall k, o_cb (ops s k) = CbPopped -> sumf (is_sacq k) (thr s) = 0;
  (* a callback taken by request_stop is executing (or about to), unless it has completed or was
     deregistered from inside its own execution *)
  p_c1 : forall k, o_cb (ops s k) = CbPopped ->
         o_cbdone (ops s k) = true \/ o_rdc (ops s k) = true \/ sumf (is_cbregion k) (thr s) >= 1;
  p_c3 : forall k, o_rdc (ops s k) = true ->
         (exists a kc, nth_error (thr s) (nl s + k) = Some (a, kc) /\ is_post k (a, kc) = 1) \/ o_res (ops s k) <> [];
  p_c4 : forall t k c kc, nth_error (thr s) t = Some (ADeregAcq k c, kc) ->
         o_cb (ops s k) = CbLinked \/ o_cb (ops s k) = CbPopped;
  p_c5 : forall t a kc k, nth_error (thr s) t = Some (a, kc) -> waits_cb a = Some k ->
         o_cb (ops s k) = CbPopped /\ t <> nl s + k;
  p_c6 : forall t a k, nth_error (thr s) t = Some (a, KStopper k) -> act_ix a = Some k /\ stop_a a = None;
  (* the sync_complete handshake of stop_type::start *)
  p_yk : forall t a kc i, nth_error (thr s) t = Some (a, kc) ->
         (a = ASyncLoad i \/ a = AStartedOr i \/ a = ASyncSpin i) -> kc = KTop i;
  p_y0a : forall t a kc i, nth_error (thr s) t = Some (a, kc) -> (a = ASyncLoad i \/ a = AStartedOr i) ->
         o_started (ops s i) = false;
  p_y0k : forall t a i, nth_error (thr s) t = Some (a, KAfterStart i) -> o_started (ops s i) = false;
  p_y1 : forall t a kc i, nth_error (thr s) t = Some (a, kc) -> (as_a a = Some i \/ as_k kc = Some i) ->
         o_sync (ops s i) <> None;
  p_y2 : forall i, o_started (ops s i) = false -> o_completed (ops s i) = true -> o_sync (ops s i) = Some false ->
         sumf (is_syncstore i) (thr s) >= 1;
  p_y3 : forall t kc i, nth_error (thr s) t = Some (ASyncSpin i, kc) ->
         o_sync (ops s i) = Some true \/ sumf (is_syncstore i) (thr s) >= 1
}.

Ltac rw_field F :=
  repeat match goal with
  | Q : F ?o = _, E : context [F ?o] |- _ => rewrite Q in E
  | Q : F ?o = _ |- context [F ?o] => rewrite Q
  end.

Lemma step_p_sl s t s' evs : PInv s -> step t s = Some (s', evs) ->
  forall k, b2n (o_src_locked (ops s' k)) = sumf (is_srcholder k) (thr s').
Proof.
  intros P H k. pose proof (m_inv _ (p_minv _ P)) as I. pose proof (p_sl _ P k) as E0.
  step_split' H Hth; simpl; dk I Hth; destr_if; use_sum Hth;
    unfold getop in *; simpl in *; eqb_cases; subst; simpl in *;
    try lia; rw_field o_src_locked; simpl in *; try lia;
    try (match goal with E : context [o_src_locked ?o] |- _ => destruct (o_src_locked o) eqn:? end; simpl in *; try discriminate; lia).

Qed.

Lemma nth_set_nth_eq' {A} (l : list A) n x y : nth_error l n = Some y -> nth_error (set_nth n x l) n = Some x.
Proof. intros H. rewrite nth_set_nth, Nat.eqb_refl, H. reflexivity. Qed.


Lemma sumf_only {A} (f : A -> nat) l t0 y :
  nth_error l t0 = Some y -> (forall n x, n <> t0 -> nth_error l n = Some x -> f x = 0) -> sumf f l = f y.
Proof.
  revert t0. induction l as [|a l IH]; intros t0 H0 Hz.
  - destruct t0; discriminate.
  - destruct t0; simpl in *.
    + inversion H0; subst. unfold sumf. simpl.
      assert (E : sumf f l = 0) by (apply sumf_zero; intros n x Hn; apply (Hz (S n) x); auto).
      unfold sumf in E. lia.
    + unfold sumf in *. simpl. rewrite (Hz 0 a) by auto. simpl.
      apply (IH t0 H0). intros n x Hn Hx. apply (Hz (S n) x); auto.
Qed.

(* a thread that holds the handle of k and a thread that has won try_complete(k) exclude each other *)
Lemma pre_post_excl s t1 x1 t2 x2 k : Inv s ->
  nth_error (thr s) t1 = Some x1 -> is_pre k x1 = 1 ->
  nth_error (thr s) t2 = Some x2 -> is_post k x2 = 1 -> False.
Proof.
  intros I H1 P1 H2 P2.
  pose proof (sumf_nth_le (is_pre k) _ _ _ H1) as L1. pose proof (sumf_nth_le (is_post k) _ _ _ H2) as L2.
  pose proof (v_hs1 _ I k) as A. pose proof (v_hs2 _ I k) as B. pose proof (v_ps _ I k) as C.
  unfold handles, posts in *. assert (E : sumf (is_pre k) (thr s) + inq s k = 1) by lia.
  rewrite (B E) in C. simpl in C. lia.
Qed.

Lemma two_posts_excl s t1 x1 t2 x2 k : Inv s -> t1 <> t2 ->
  nth_error (thr s) t1 = Some x1 -> is_post k x1 = 1 ->
  nth_error (thr s) t2 = Some x2 -> is_post k x2 = 1 -> False.
Proof.
  intros I N H1 P1 H2 P2.
  pose proof (sumf_two (is_post k) _ _ _ _ _ H1 H2 N) as L.
  pose proof (v_ps _ I k) as C. unfold posts in C. destruct (o_completed (ops s k)); simpl in C; lia.
Qed.

Lemma step_p_c0 s t s' evs : PInv s -> step t s = Some (s', evs) ->
  forall k, o_cb (ops s' k) = CbPopped -> sumf (is_sacq k) (thr s') = 0.
Proof.
  intros P H k Hc. pose proof (p_minv _ P) as M. pose proof (m_inv _ M) as I. pose proof (p_c0 _ P k) as E0.
  step_split' H Hth; simpl; dk I Hth; destr_if; use_sum Hth;
    unfold getop in *; simpl in *; eqb_cases; subst; simpl in *;
    try (specialize (E0 Hc)); try lia; try congruence.
  all: match type of Hth with nth_error _ _ = Some ?xx => assert (S1 : sumf (is_sacq k) (thr s) = is_sacq k xx) by
         (apply (sumf_only _ _ t _ Hth); intros n [a0 kc0] Hn Hx;
          destruct (is_sacq k (a0, kc0)) eqn:Z; auto; exfalso; apply Hn;
          rewrite (m_styp_a _ M _ _ _ _ Hth eq_refl);
          destruct a0; simpl in Z; try discriminate; unfold eqn in Z;
          try (destruct popped; try discriminate);
          destruct (Nat.eqb_spec i k); try discriminate; subst;
          eapply (m_styp_a _ M _ _ _ _ Hx); reflexivity) end;
       simpl in S1; unfold eqn in S1; rewrite Nat.eqb_refl in S1; lia.
Qed.

Lemma step_p_c6 s t s' evs : PInv s -> step t s = Some (s', evs) ->
  forall t0 a k, nth_error (thr s') t0 = Some (a, KStopper k) -> act_ix a = Some k /\ stop_a a = None.
Proof.
  intros P H t0 a0 k0 H0. pose proof (p_minv _ P) as M. pose proof (m_inv _ M) as I.
  step_split' H Hth; simpl in H0;
    try (pose proof (compl_facts _ _ _ _ _ _ I Hth eq_refl) as (Hk & Hres & Hrel & Hcan & Hcomp));
    unfold getop in *; try (rewrite (Hcomp _ eq_refl) in *; discriminate);
  (destruct (nth_thr_cases _ _ _ _ _ _ Hth H0) as [[-> E]|[N E]];
   [ try (destruct kc; simpl in E; try kill_ki I Hth);
     repeat match type of E with context [if ?b then _ else _] => destruct b eqn:? end;
     try discriminate E; injection E as Ea Ei; subst;
     try (split; reflexivity);
     try (pose proof (p_c6 _ P _ _ _ Hth) as [X X']; simpl in X, X'; try discriminate X'; injection X as X; subst; split; reflexivity)
   | eapply (p_c6 _ P); eauto ]).
  all: try (pose proof (p_c6 _ P _ _ _ Hth) as [X X']; simpl in X, X'; first [discriminate X|discriminate X']).
  all: try (exfalso; pose proof (m_styp_k _ M _ _ _ Hth) as T1;
            pose proof (v_wf_k _ I _ _ _ _ Hth eq_refl) as W1;
            first [ pose proof (v_own_a _ I _ _ _ _ Hth eq_refl) as T2; pose proof (v_wf_a _ I _ _ _ _ Hth eq_refl) as W2; lia
                  | pose proof (m_ttyp _ M _ _ _ Hth eq_refl) as T2; lia ]).
Qed.

Lemma step_p_c4 s t s' evs : PInv s -> step t s = Some (s', evs) ->
  forall t0 k c kc, nth_error (thr s') t0 = Some (ADeregAcq k c, kc) ->
  o_cb (ops s' k) = CbLinked \/ o_cb (ops s' k) = CbPopped.
Proof.
  intros P H t0 k0 c0 kc0 H0. pose proof (p_minv _ P) as M. pose proof (m_inv _ M) as I.
  step_split' H Hth; simpl in H0;
  (destruct (nth_thr_cases _ _ _ _ _ _ Hth H0) as [[-> E]|[N E]];
   [ try (destruct kc; simpl in E; try kill_ki I Hth);
     repeat match type of E with context [if ?b then _ else _] => destruct b eqn:? end;
     try discriminate E; injection E as Ea Eb Ec; subst;
     unfold getop in *; simpl in *; rewrite ?Nat.eqb_refl in *; simpl in *; auto
   | pose proof (p_c4 _ P _ _ _ _ E) as X; unfold getop in *; simpl; destr_if; simpl; auto ]).
  all: exfalso; repeat match goal with Q : (_ =? _) = true |- _ => apply Nat.eqb_eq in Q; subst end.
  all: match goal with
       | A : nth_error _ ?t1 = Some (AReg ?i, _), B : nth_error _ ?t2 = Some (ADeregAcq ?i _, _) |- _ =>
           eapply (pre_post_excl s t1 _ t2 _ i I A); [|exact B|]; simpl; unfold eqn; rewrite Nat.eqb_refl; reflexivity
       | A : nth_error _ ?t1 = Some (ADeregAcq ?k _, _), B : nth_error _ ?t2 = Some (ADeregAcq ?k _, _), N : ?t2 <> ?t1 |- _ =>
           eapply (two_posts_excl s t1 _ t2 _ k I (not_eq_sym N) A); [|exact B|]; simpl; unfold eqn; rewrite Nat.eqb_refl; reflexivity
       end.
Qed.

Lemma waits_post a kc k : waits_cb a = Some k -> is_post k (a, kc) = 1.
Proof.
  destruct a; simpl; try discriminate; try (destruct wait; try discriminate);
    intros H; injection H as ->; unfold eqn; rewrite Nat.eqb_refl; reflexivity.
Qed.

Lemma step_p_c5 s t s' evs : PInv s -> step t s = Some (s', evs) ->
  forall t0 a kc k, nth_error (thr s') t0 = Some (a, kc) -> waits_cb a = Some k ->
  o_cb (ops s' k) = CbPopped /\ t0 <> nl s' + k.
Proof.
  intros P H t0 a0 kc0 k0 H0 Hw. pose proof (p_minv _ P) as M. pose proof (m_inv _ M) as I.
  destruct (step_consts _ _ _ _ H) as [_ Enl]. rewrite Enl. clear Enl.
  step_split' H Hth; simpl in H0;
  (destruct (nth_thr_cases _ _ _ _ _ _ Hth H0) as [[-> E]|[N E]];
   [ try (destruct kc; simpl in E; try kill_ki I Hth);
     repeat match type of E with context [if ?b then _ else _] => destruct b eqn:? end;
     try discriminate E; injection E as Ea Eb; subst; simpl in Hw; try discriminate Hw;
     injection Hw as Ew; subst
   | pose proof (p_c5 _ P _ _ _ _ E Hw) as [X1 X2]; split; [|exact X2];
     unfold getop in *; simpl; destr_if; simpl; auto ]).
  all: try (exfalso; repeat match goal with Q : (_ =? _) = true |- _ => apply Nat.eqb_eq in Q; subst end;
            match goal with
            | A : nth_error _ ?t1 = Some (AReg ?i, _), B : nth_error _ ?t2 = Some (_, _), W : waits_cb _ = Some ?i |- _ =>
                eapply (pre_post_excl s t1 _ t2 _ i I A); [|exact B|apply waits_post; exact W]; simpl; unfold eqn; rewrite Nat.eqb_refl; reflexivity
            | A : nth_error _ ?t1 = Some (ADeregAcq ?k _, _), B : nth_error _ ?t2 = Some (_, _), W : waits_cb _ = Some ?k, N : ?t2 <> ?t1 |- _ =>
                eapply (two_posts_excl s t1 _ t2 _ k I (not_eq_sym N) A); [|exact B|apply waits_post; exact W]; simpl; unfold eqn; rewrite Nat.eqb_refl; reflexivity
            end).
  all: try (pose proof (p_c5 _ P _ _ _ _ Hth eq_refl) as [X1 X2]; split; [|exact X2];
            unfold getop in *; simpl; rewrite ?Nat.eqb_refl; simpl; auto).
  all: try (destruct (p_c4 _ P _ _ _ _ Hth) as [X|X]; unfold getop in *; [congruence|];
            split; [simpl; rewrite Nat.eqb_refl; simpl; exact X|];
            match goal with Q : (_ =? _) = false |- _ => apply Nat.eqb_neq in Q; exact Q end).

Qed.

Lemma step_p_c1 s t s' evs : PInv s -> step t s = Some (s', evs) ->
  forall k, o_cb (ops s' k) = CbPopped ->
  o_cbdone (ops s' k) = true \/ o_rdc (ops s' k) = true \/ sumf (is_cbregion k) (thr s') >= 1.
Proof.
  intros P H k Hc. pose proof (p_minv _ P) as M. pose proof (m_inv _ M) as I.
  pose proof (p_c1 _ P k) as E0. pose proof (p_c0 _ P k) as E1.
  step_split' H Hth; simpl; try (destruct kc; simpl; try kill_ki I Hth); destr_if; use_sum Hth;
    unfold getop in *; simpl in *; eqb_cases; subst; simpl in *; try congruence;
    try (destruct (E0 Hc) as [X|[X|X]]; [left; exact X|right; left; exact X|right; right; lia]; fail);
    try (right; right; lia); try (left; reflexivity); try (right; left; assumption).
  all: try (exfalso; pose proof (m_styp_k _ M _ _ _ Hth) as T1;
            pose proof (v_wf_k _ I _ _ _ _ Hth eq_refl) as W1;
            first [ pose proof (v_own_a _ I _ _ _ _ Hth eq_refl) as T2; pose proof (v_wf_a _ I _ _ _ _ Hth eq_refl) as W2; lia
                  | pose proof (m_ttyp _ M _ _ _ Hth eq_refl) as T2; lia ]).
  all: try (pose proof (p_c6 _ P _ _ _ Hth) as [X6 X7]; simpl in X6, X7; try discriminate X6; try discriminate X7; injection X6 as X6; subst).
  all: try congruence.
  all: try (right; right;
            match goal with |- ?v >= 1 => idtac end;
            match type of Hth with nth_error _ _ = Some (SRel ?k true, _) =>
              pose proof (sumf_nth_le (is_cbregion k) _ _ _ Hth) as L; simpl in L; unfold eqn in L; rewrite Nat.eqb_refl in L; lia end).
  all: try (exfalso; specialize (E1 Hc);
            match type of Hth with nth_error _ _ = Some (SRel ?k false, _) =>
              pose proof (sumf_nth_le (is_sacq k) _ _ _ Hth) as L; simpl in L; unfold eqn in L; rewrite Nat.eqb_refl in L; lia end).

Qed.

Lemma res_nonempty_mono s t s' evs k : step t s = Some (s', evs) ->
  o_res (ops s k) <> [] -> o_res (ops s' k) <> [].
Proof.
  intros H Hc. step_split' H Hth; simpl; unfold getop in *; destr_if; simpl; auto; discriminate.
Qed.

Lemma rdc_change s t s' evs k : step t s = Some (s', evs) -> o_rdc (ops s' k) = true ->
  o_rdc (ops s k) = true \/ (exists c kc, nth_error (thr s) t = Some (ADeregAcq k c, kc) /\ t = nl s + k).
Proof.
  intros H Hc.
  step_split' H Hth; simpl in *; unfold getop in *; destr_if; simpl in *; auto;
    try discriminate;
    try (match goal with Q : (_ =? _) = true |- _ => apply Nat.eqb_eq in Q; subst end; simpl in *; auto);
    try (right; eexists; eexists; split; [reflexivity|];
         match goal with Q : (_ =? _) = true |- _ => apply Nat.eqb_eq in Q; exact Q end).
Qed.

Lemma post_next s t s' evs a kc k : Inv s -> nth_error (thr s) t = Some (a, kc) -> is_post k (a, kc) = 1 ->
  step t s = Some (s', evs) ->
  (exists a' kc', nth_error (thr s') t = Some (a', kc') /\ is_post k (a', kc') = 1) \/ o_res (ops s' k) <> [].
Proof.
  intros I Hth Hp H.
  destruct a; simpl in Hp; try discriminate; unfold eqn in Hp;
    match type of Hp with (if ?a =? ?b then _ else _) = _ => destruct (Nat.eqb_spec a b); [subst|discriminate] end;
    step_at' H Hth; simpl; unfold getop; simpl; rewrite ?Nat.eqb_refl; simpl;
    try (right; discriminate);
    try (left; eexists; eexists; split; [apply (nth_set_nth_eq' _ _ _ _ Hth)|]; simpl; unfold eqn; rewrite Nat.eqb_refl; reflexivity).
Qed.

Lemma step_p_c3 s t s' evs : PInv s -> step t s = Some (s', evs) ->
  forall k, o_rdc (ops s' k) = true ->
  (exists a kc, nth_error (thr s') (nl s' + k) = Some (a, kc) /\ is_post k (a, kc) = 1) \/ o_res (ops s' k) <> [].
Proof.
  intros P H k Hr. pose proof (p_minv _ P) as M. pose proof (m_inv _ M) as I.
  pose proof (res_nonempty_mono _ _ _ _ k H) as RM.
  destruct (step_consts _ _ _ _ H) as [_ Enl]. rewrite Enl. clear Enl.
  assert (Hthr : forall t0, t0 <> t -> nth_error (thr s') t0 = nth_error (thr s) t0).
  { intros t0 N. clear - H N. step_split' H Hth; simpl; unfold ret; simpl; rewrite nth_set_nth;
      destruct (Nat.eqb_spec t t0); try congruence; reflexivity. }
  destruct (rdc_change _ _ _ _ k H Hr) as [Ho|[c [kc [Hth Et]]]].
  - destruct (p_c3 _ P k Ho) as [[a [kc [Ha Hp]]]|Hn]; [|right; auto].
    destruct (Nat.eq_dec t (nl s + k)) as [Et|Et].
    + subst t. eapply post_next; eauto.
    + left. exists a, kc. rewrite Hthr by auto. auto.
  - subst t. eapply (post_next s (nl s + k) s' evs _ _ k I Hth); [|exact H].
    simpl. unfold eqn. rewrite Nat.eqb_refl. reflexivity.
Qed.

Lemma started_change s t s' evs k : step t s = Some (s', evs) -> o_started (ops s' k) = true ->
  o_started (ops s k) = true \/ exists kc, nth_error (thr s) t = Some (AStartedOr k, kc).
Proof.
  intros H Hc.
  step_split' H Hth; simpl in *; unfold getop in *; destr_if; simpl in *; auto;
    try (match goal with Q : (_ =? _) = true |- _ => apply Nat.eqb_eq in Q; subst end; simpl in *; auto);
    try (right; eauto).
Qed.

Lemma step_p_yk s t s' evs : PInv s -> step t s = Some (s', evs) ->
  forall t0 a kc i, nth_error (thr s') t0 = Some (a, kc) ->
  (a = ASyncLoad i \/ a = AStartedOr i \/ a = ASyncSpin i) -> kc = KTop i.
Proof.
  intros P H t0 a0 kc0 i0 H0 Ho. pose proof (p_minv _ P) as M. pose proof (m_inv _ M) as I.
  step_split' H Hth; simpl in H0;
  (destruct (nth_thr_cases _ _ _ _ _ _ Hth H0) as [[-> E]|[N E]];
   [ injection E as Ea Ek; subst a0 kc0; try (destruct kc; try kill_ki I Hth);
     destruct Ho as [Ho|[Ho|Ho]]; simpl in Ho;
     repeat match type of Ho with context [if ?b then _ else _] => destruct b eqn:? end;
     try discriminate Ho; inversion Ho; subst; try reflexivity;
     first [ eapply (p_yk _ P _ _ _ _ Hth); left; reflexivity
           | eapply (p_yk _ P _ _ _ _ Hth); right; left; reflexivity
           | eapply (p_yk _ P _ _ _ _ Hth); right; right; reflexivity ]
   | eapply (p_yk _ P); eauto ]).
Qed.

Lemma step_p_y0 s t s' evs : PInv s -> step t s = Some (s', evs) ->
  (forall t0 a kc i, nth_error (thr s') t0 = Some (a, kc) -> (a = ASyncLoad i \/ a = AStartedOr i) -> o_started (ops s' i) = false) /\
  (forall t0 a i, nth_error (thr s') t0 = Some (a, KAfterStart i) -> o_started (ops s' i) = false).
Proof.
  intros P H. pose proof (p_minv _ P) as M. pose proof (m_inv _ M) as I.
  assert (G : forall t0 a kc i, nth_error (thr s') t0 = Some (a, kc) ->
              (a = ASyncLoad i \/ a = AStartedOr i \/ kc = KAfterStart i) -> o_started (ops s' i) = false).
  { intros t0 a0 kc0 i0 H0 Ho.
    destruct (o_started (ops s' i0)) eqn:Es; auto. exfalso.
    destruct (started_change _ _ _ _ i0 H Es) as [Hold|[kc1 Hso]].
    - (* it was set before: contradiction with the old invariant for the thread's old state *)
      revert Hold.
      step_split' H Hth; simpl in H0; intros Hold;
      (destruct (nth_thr_cases _ _ _ _ _ _ Hth H0) as [[-> E]|[N E]];
       [ injection E as Ea Ek; subst a0 kc0; try (destruct kc; try kill_ki I Hth);
         destruct Ho as [Ho|[Ho|Ho]];
         simpl in Ho;
         repeat match type of Ho with context [if ?b then _ else _] => destruct b eqn:? end;
         try discriminate Ho; inversion Ho; subst
       | ]).
      all: try (destruct Ho as [Ho|[Ho|Ho]]; subst;
                [ rewrite (p_y0a _ P _ _ _ _ E (or_introl eq_refl)) in Hold
                | rewrite (p_y0a _ P _ _ _ _ E (or_intror eq_refl)) in Hold
                | rewrite (p_y0k _ P _ _ _ E) in Hold ]; discriminate Hold).
      all: try (first [ rewrite (p_y0a _ P _ _ _ _ Hth (or_introl eq_refl)) in Hold
                      | rewrite (p_y0a _ P _ _ _ _ Hth (or_intror eq_refl)) in Hold
                      | rewrite (p_y0k _ P _ _ _ Hth) in Hold
                      | rewrite (v_bs _ I _ _ _ Hth eq_refl) in Hold ]; discriminate Hold).
    - (* this very step sets the bit: the thread is at AStartedOr i0 with continuation KTop i0 *)
      pose proof (p_yk _ P _ _ _ _ Hso (or_intror (or_introl eq_refl))) as Ek. subst kc1.
      assert (Et : t = i0) by (eapply (v_own_a _ I _ _ _ _ Hso); reflexivity).
      destruct (Nat.eq_dec t0 t) as [E0|E0].
      + subst t0. clear Es. step_at' H Hso; simpl in H0; rewrite (nth_set_nth_eq' _ _ _ _ Hso) in H0;
          injection H0 as Ea Ek; subst a0 kc0;
          destruct Ho as [Ho|[Ho|Ho]]; simpl in Ho; discriminate Ho.
      + assert (Hthr : nth_error (thr s') t0 = nth_error (thr s) t0).
        { clear - H E0. step_split' H Hth; simpl; unfold ret; simpl; rewrite nth_set_nth;
            destruct (Nat.eqb_spec t t0); try congruence; reflexivity. }
        rewrite Hthr in H0. apply E0.
        destruct Ho as [Ho|[Ho|Ho]]; subst.
        * rewrite (v_own_a _ I _ _ _ _ H0 eq_refl). reflexivity.
        * rewrite (v_own_a _ I _ _ _ _ H0 eq_refl). reflexivity.
        * rewrite (v_own_k _ I _ _ _ _ H0 eq_refl). reflexivity. }
  split.
  - intros t0 a kc i H0 [Ho|Ho]; eapply G; eauto.
  - intros t0 a i H0. eapply G; eauto.
Qed.

Lemma sync_some_mono s t s' evs k : step t s = Some (s', evs) ->
  o_sync (ops s k) <> None -> o_sync (ops s' k) <> None.
Proof.
  intros H Hc. step_split' H Hth; simpl; unfold getop in *; destr_if; simpl; auto; discriminate.
Qed.

Lemma step_p_y1 s t s' evs : PInv s -> step t s = Some (s', evs) ->
  forall t0 a kc i, nth_error (thr s') t0 = Some (a, kc) -> (as_a a = Some i \/ as_k kc = Some i) ->
  o_sync (ops s' i) <> None.
Proof.
  intros P H t0 a0 kc0 i0 H0 Ho. pose proof (p_minv _ P) as M. pose proof (m_inv _ M) as I.
  pose proof (sync_some_mono _ _ _ _ i0 H) as SM.
  step_split' H Hth; simpl in H0;
  (destruct (nth_thr_cases _ _ _ _ _ _ Hth H0) as [[-> E]|[N E]];
   [ injection E as Ea Ek; subst a0 kc0; try (destruct kc; try kill_ki I Hth);
     destruct Ho as [Ho|Ho]; simpl in Ho;
     repeat match type of Ho with context [if ?b then _ else _] => destruct b eqn:? end;
     try discriminate Ho; inversion Ho; subst;
     first [ apply SM; eapply (p_y1 _ P _ _ _ _ Hth); left; reflexivity
           | apply SM; eapply (p_y1 _ P _ _ _ _ Hth); right; reflexivity
           | unfold getop; simpl; rewrite Nat.eqb_refl; simpl; discriminate ]
   | apply SM; eapply (p_y1 _ P); eauto ]).
Qed.

Lemma pre_not_completed s t x k : Inv s -> nth_error (thr s) t = Some x -> is_pre k x = 1 ->
  o_completed (ops s k) = false.
Proof.
  intros I H Hp. apply (v_hs2 _ I k). pose proof (v_hs1 _ I k).
  pose proof (sumf_nth_le (is_pre k) _ _ _ H). unfold handles in *. lia.
Qed.

Lemma step_p_y2 s t s' evs : PInv s -> step t s = Some (s', evs) ->
  forall i, o_started (ops s' i) = false -> o_completed (ops s' i) = true -> o_sync (ops s' i) = Some false ->
  sumf (is_syncstore i) (thr s') >= 1.
Proof.
  intros P H k Hs Hc Hy. pose proof (p_minv _ P) as M. pose proof (m_inv _ M) as I.
  pose proof (p_y2 _ P k) as E0.
  step_split' H Hth; simpl; dk I Hth; destr_if; use_sum Hth;
    unfold getop in *; simpl in *; eqb_cases; subst; simpl in *; try congruence; try lia;
    try (specialize (E0 Hs Hc Hy); lia).
  all: try (match type of Hth with nth_error _ _ = Some ?xx =>
              match type of Hc with o_completed (ops _ ?j) = true =>
                rewrite (pre_not_completed s t xx j I Hth) in Hc;
                  [discriminate Hc|simpl; unfold eqn; rewrite ?Nat.eqb_refl; reflexivity] end end).
  all: try (rw_field o_started; rw_field o_sync; simpl in *; try discriminate; congruence).

Qed.

Lemma step_p_y3 s t s' evs : PInv s -> step t s = Some (s', evs) ->
  forall t0 kc i, nth_error (thr s') t0 = Some (ASyncSpin i, kc) ->
  o_sync (ops s' i) = Some true \/ sumf (is_syncstore i) (thr s') >= 1.
Proof.
  intros P H t0 kc0 i0 H0. pose proof (p_minv _ P) as M. pose proof (m_inv _ M) as I.
  step_split' H Hth; simpl in H0;
  (destruct (nth_thr_cases _ _ _ _ _ _ Hth H0) as [[-> E]|[N E]];
   [ try (destruct kc; simpl in E; try kill_ki I Hth);
     repeat match type of E with context [if ?b then _ else _] => destruct b eqn:? end;
     try discriminate E; injection E as Ea Eb; subst
   | pose proof (p_y3 _ P _ _ _ E) as E0 ]);
  simpl; dk I Hth; destr_if; use_sum Hth;
    unfold getop in *; simpl in *; eqb_cases; subst; simpl in *; try congruence;
    try (destruct E0 as [E0|E0]; [left; exact E0|right; lia]; fail);
    try (left; reflexivity).
  all: try (exfalso; apply N; rewrite (v_own_a _ I _ _ _ _ E eq_refl); symmetry; eapply (v_own_a _ I _ _ _ _ Hth); reflexivity).
  all: pose proof (p_y0a _ P _ _ _ _ Hth (or_intror eq_refl)) as Y0;
       pose proof (p_y1 _ P _ _ _ _ Hth (or_introl eq_refl)) as Y1;
       pose proof (p_y2 _ P i Y0) as Y2;
       destruct (o_sync (ops s i)) as [[|]|] eqn:Esy; [left; reflexivity| |congruence];
       right; assert (X : sumf (is_syncstore i) (thr s) >= 1) by (apply Y2; auto); lia.
Qed.

Lemma step_pinv s t s' evs : PInv s -> step t s = Some (s', evs) -> PInv s'.
Proof.
  intros P H. destruct (step_p_y0 _ _ _ _ P H) as [Y0a Y0k].
  constructor.
  - eapply step_minv; eauto. apply (p_minv _ P).
  - eapply step_linv; eauto. apply (p_linv _ P).
  - eapply step_p_sl; eauto.
  - eapply step_p_c0; eauto.
  - eapply step_p_c1; eauto.
  - eapply step_p_c3; eauto.
  - eapply step_p_c4; eauto.
  - eapply step_p_c5; eauto.
  - eapply step_p_c6; eauto.
  - eapply step_p_yk; eauto.
  - exact Y0a.
  - exact Y0k.
  - eapply step_p_y1; eauto.
  - eapply step_p_y2; eauto.
  - eapply step_p_y3; eauto.
Qed.

Lemma init_pinv fx hs nt : PInv (init fx hs nt).
Proof.
  constructor.
  - apply init_minv.
  - apply init_linv.
  - intros k. rewrite init_sum0 by reflexivity. simpl. rewrite sumf_zero; auto.
  - intros k H. discriminate.
  - intros k H. discriminate.
  - intros k H. discriminate.
  - intros t k c kc H. apply init_thr_pos in H.
    destruct H as [(H1 & E & _)|[(H1 & [E|E] & _)|(H1 & [j E] & _)]]; discriminate.
  - intros t a kc k H Hw. apply init_thr_pos in H.
    destruct H as [(H1 & -> & _)|[(H1 & [->| ->] & _)|(H1 & [j ->] & _)]]; discriminate.
  - intros t a k H. apply init_thr_pos in H.
    destruct H as [(H1 & _ & E)|[(H1 & _ & E)|(H1 & _ & E)]]; discriminate.
  - intros t a kc i H Ho. apply init_thr_pos in H.
    destruct H as [(H1 & -> & _)|[(H1 & [->| ->] & _)|(H1 & [j ->] & _)]]; destruct Ho as [Ho|[Ho|Ho]]; discriminate.
  - intros t a kc i H Ho. reflexivity.
  - intros t a i H. reflexivity.
  - intros t a kc i H Ho. apply init_thr_pos in H.
    destruct H as [(H1 & -> & ->)|[(H1 & [->| ->] & ->)|(H1 & [j ->] & ->)]]; destruct Ho as [Ho|Ho]; discriminate.
  - intros i _ H. discriminate.
  - intros t kc i H. apply init_thr_pos in H.
    destruct H as [(H1 & E & _)|[(H1 & [E|E] & _)|(H1 & [j E] & _)]]; discriminate.
Qed.

Lemma pinv_reachable fx hs nt sched : PInv (fst (run step sched (init fx hs nt, []))).
Proof.
  apply (run_invariant_state _ _ _ step PInv).
  - intros s t s' ev I H. eapply step_pinv; eauto.
  - apply init_pinv.
Qed.

(* ------------------------------------------------------------------ progress (repaired forwarder) *)
Definition always_enabled (a : act) : bool :=
  match a with
  | ARegRel _ | AEarly _ | ATryLock _ | APush _ | APushPub _ | AXchg | APopPub _ | AUnlStore | AEmpty | AReXchg
  | ATryComplete _ _ | ASyncStore _ _ | ADeregRel _ _ _ | AHop _ _ | ASyncLoad _ | AStartedOr _ | ACbOr _
  | SRel _ _ | SCbDone _ | SRel2 _ | TTry _ | ARelease _ => true
  | _ => false
  end.

Lemma always_enabled_step s t a kc : nth_error (thr s) t = Some (a, kc) -> always_enabled a = true -> step t s <> None.
Proof.
  intros H E. unfold step. rewrite H.
  destruct a; simpl in E; try discriminate;
    unfold go_cleanup, go_hop, deliver, do_stop; simpl;
    repeat match goal with |- context [if ?b then _ else _] => destruct b | |- context [match ?x with _ => _ end] => destruct x end;
    discriminate.
Qed.

Lemma forallb_false_ex {A} (f : A -> bool) l :
  forallb f l = false -> exists n x, nth_error l n = Some x /\ f x = false.
Proof.
  induction l as [|a l IH]; simpl; intros H; [discriminate|].
  destruct (f a) eqn:E.
  - destruct (IH H) as [n [x [H1 H2]]]. exists (S n), x. auto.
  - exists 0, a. auto.
Qed.

Section Stuck.
Variable s : st.
Hypothesis P : PInv s.
Hypothesis Hfx : fixed s = true.
Hypothesis Hall : forall t, step t s = None.

Let M := p_minv _ P.
Let I := m_inv _ M.

Lemma stuck_not_enabled t a kc : nth_error (thr s) t = Some (a, kc) -> always_enabled a = false.
Proof.
  intros H. destruct (always_enabled a) eqn:E; auto. exfalso. eapply always_enabled_step; eauto.
Qed.

Lemma stuck_unpub x : unpub s x = false.
Proof.
  destruct (unpub s x) eqn:E; auto. destruct (unpub_thread _ _ E) as [kc H].
  pose proof (stuck_not_enabled _ _ _ H). discriminate.
Qed.

Lemma stuck_popping : popping s = false.
Proof.
  destruct (popping s) eqn:E; auto. exfalso. unfold popping in E. apply existsb_exists in E.
  destruct E as [[a kc] [Hin Ha]]. apply In_nth_error in Hin. destruct Hin as [t Ht].
  pose proof (stuck_not_enabled _ _ _ Ht). destruct a; simpl in *; discriminate.
Qed.

Lemma stuck_src_unlocked k : o_src_locked (ops s k) = false.
Proof.
  destruct (o_src_locked (ops s k)) eqn:E; auto. exfalso.
  pose proof (p_sl _ P k) as Hsl. rewrite E in Hsl. simpl in Hsl.
  destruct (sumf_pos_ex (is_srcholder k) (thr s)) as [t [[a kc] [Ht Hf]]]; [lia|].
  pose proof (stuck_not_enabled _ _ _ Ht). destruct a; simpl in *; try lia; discriminate.
Qed.

(* with no in-flight push / pop and no source lock held, these activities are enabled too *)
Definition cond_enabled (a : act) : bool :=
  match a with
  | AReg _ | APop | ADeregAcq _ _ | ATryRemove _ | SAcq _ | SAcq2 _ => true
  | _ => false
  end.

Lemma stuck_not_cond t a kc : nth_error (thr s) t = Some (a, kc) -> cond_enabled a = false.
Proof.
  intros H. destruct (cond_enabled a) eqn:E; auto. exfalso.
  pose proof (Hall t) as Hst. unfold step in Hst. rewrite H in Hst.
  destruct a; simpl in E; try discriminate; unfold getop in Hst.
  - rewrite stuck_src_unlocked in Hst. destruct (o_src_stop (ops s i)); discriminate.
  - rewrite stuck_popping in Hst. destruct (queue s) as [|x r]; [discriminate|].
    rewrite stuck_unpub in Hst. destruct r as [|y r']; [discriminate|]. rewrite stuck_unpub in Hst. discriminate.
  - rewrite stuck_src_unlocked in Hst. destruct (o_cb (ops s k)); try discriminate; destruct (t =? nl s + k); discriminate.
  - destruct (mem_nat i (queue s) && negb (taken s i)); [|discriminate].
    destruct (succ_of i (queue s)); [rewrite stuck_unpub in Hst|]; discriminate.
  - rewrite stuck_src_unlocked in Hst. destruct (o_src_stop (ops s i)); [discriminate|]. destruct (o_cb (ops s i)); discriminate.
  - rewrite stuck_src_unlocked in Hst. discriminate.
Qed.

(* nobody waits for a stop callback to finish *)
Lemma stuck_no_deregwait t k c kc : nth_error (thr s) t = Some (ADeregWait k c, kc) -> False.
Proof.
  intros H. pose proof (Hall t) as Hst. unfold step in Hst. rewrite H in Hst. unfold getop in Hst.
  destruct (o_cbdone (ops s k)) eqn:Ed.
  { unfold go_hop, deliver in Hst. rewrite Hfx in Hst. discriminate. }
  destruct (p_c5 _ P _ _ _ _ H eq_refl) as [Hpop Hne].
  assert (Hrdc : o_rdc (ops s k) = false).
  { destruct (o_rdc (ops s k)) eqn:Er; auto. exfalso.
    destruct (p_c3 _ P k Er) as [[a [kc' [Ha Hp]]]|Hn].
    - eapply (two_posts_excl s t _ (nl s + k) _ k I Hne H); [|exact Ha|exact Hp].
      simpl. unfold eqn. rewrite Nat.eqb_refl. reflexivity.
    - pose proof (v_ps _ I k) as Q. pose proof (sumf_nth_le (is_post k) _ _ _ H) as L. simpl in L.
      unfold eqn in L. rewrite Nat.eqb_refl in L. unfold posts in Q.
      destruct (o_res (ops s k)) eqn:Er2; [congruence|]. simpl in Q.
      assert (b2n (o_completed (ops s k)) <= 1) by (destruct (o_completed (ops s k)); simpl; lia). lia. }
  destruct (p_c1 _ P k Hpop) as [X|[X|X]]; try congruence.
  destruct (sumf_pos_ex (is_cbregion k) (thr s)) as [t' [[a kc'] [Ht' Hf]]]; [lia|].
  pose proof (stuck_not_enabled _ _ _ Ht') as E1. pose proof (stuck_not_cond _ _ _ Ht') as E2.
  destruct kc'; try (destruct a; simpl in Hf; try lia; try (destruct popped; simpl in Hf; try lia); simpl in E1; discriminate).
  (* the callback is running on the requester's thread: whatever it does there is enabled *)
  destruct (p_c6 _ P _ _ _ Ht') as [X6 X7].
  pose proof (m_styp_k _ M _ _ _ Ht') as Tk.
  destruct a; simpl in E1, E2, X6, X7; try discriminate; injection X6 as X6; subst;
    simpl in Hf; unfold eqn in Hf; (destruct (Nat.eqb_spec i k) as [Ei|Ei]; [subst i|lia]).
  - (* ADeregWait on the requester's own thread: impossible *)
    destruct (p_c5 _ P _ _ _ _ Ht' eq_refl) as [_ Hn']. congruence.
  - (* ASyncSpin is an activity of the locker's own thread *)
    pose proof (v_own_a _ I _ _ _ _ Ht' eq_refl). pose proof (v_wf_a _ I _ _ _ _ Ht' eq_refl). lia.
  - pose proof (v_own_a _ I _ _ _ _ Ht' eq_refl). pose proof (v_wf_a _ I _ _ _ _ Ht' eq_refl). lia.
Qed.

Lemma stuck_no_syncspin t i kc : nth_error (thr s) t = Some (ASyncSpin i, kc) -> False.
Proof.
  intros H. pose proof (Hall t) as Hst. unfold step in Hst. rewrite H in Hst. unfold getop in Hst.
  destruct (p_y3 _ P _ _ _ H) as [X|X].
  - rewrite X in Hst. discriminate.
  - destruct (sumf_pos_ex (is_syncstore i) (thr s)) as [t' [[a kc'] [Ht' Hf]]]; [lia|].
    pose proof (stuck_not_enabled _ _ _ Ht'). destruct a; simpl in *; try lia; discriminate.
Qed.

(* every thread is parked in AWaitGot or has ended *)
Lemma stuck_shape t a kc : nth_error (thr s) t = Some (a, kc) -> a = AFin \/ exists i, a = AWaitGot i.
Proof.
  intros H. pose proof (stuck_not_enabled _ _ _ H) as E1. pose proof (stuck_not_cond _ _ _ H) as E2.
  destruct a; simpl in E1, E2; try discriminate; eauto.
  - exfalso. eapply stuck_no_deregwait; eauto.
  - exfalso. eapply stuck_no_syncspin; eauto.
Qed.

(* ... but then every locker has been completed: the state is quiescent *)
Lemma stuck_quiescent : quiescent s = true.
Proof.
  destruct (quiescent s) eqn:Q; auto. exfalso.
  unfold quiescent in Q. destruct (forallb_false_ex _ _ Q) as [t [[a kc] [Ht Hf]]].
  destruct (stuck_shape _ _ _ Ht) as [->|[i ->]]; [discriminate|].
  unfold thr_finished in Hf. simpl in Hf. unfold getop in Hf.
  assert (Et : t = i) by (eapply (v_own_a _ I _ _ _ _ Ht); reflexivity). subst t.
  assert (Hi : i < nl s) by (eapply (v_wf_a _ I _ _ _ _ Ht); reflexivity).
  assert (Hrel : o_released (ops s i) = false) by (eapply (m_rl _ M _ _ _ _ Ht); left; reflexivity).
  pose proof (Hall i) as Hst. unfold step in Hst. rewrite Ht in Hst. unfold getop in Hst. rewrite Hrel in Hst.
  pose proof (v_ps _ I i) as Ps.
  assert (Hres : o_res (ops s i) = []).
  { destruct (o_res (ops s i)) as [|o [|o' l]]; auto.
    - destruct o; discriminate.
    - simpl in Ps. destruct (o_completed (ops s i)); simpl in Ps; lia. }
  rewrite Hres in Ps. simpl in Ps.
  (* somebody must still complete i *)
  assert (Hc : o_completed (ops s i) = false).
  { destruct (o_completed (ops s i)) eqn:Ec; auto. exfalso. simpl in Ps.
    destruct (sumf_pos_ex (is_post i) (thr s)) as [t' [[a' kc'] [Ht' Hp]]]; [unfold posts in Ps; lia|].
    pose proof (stuck_not_enabled _ _ _ Ht') as E1. pose proof (stuck_not_cond _ _ _ Ht') as E2.
    destruct a'; simpl in Hp, E1, E2; try lia; try discriminate. eapply stuck_no_deregwait; eauto. }
  pose proof (l_handle _ (p_linv _ P) i Hi) as Hh. rewrite Hc in Hh. simpl in Hh.
  assert (Hq : 1 <= inq s i).
  { unfold handles in Hh. destruct (Nat.eq_dec (sumf (is_pre i) (thr s)) 0) as [Z|Z]; [lia|]. exfalso.
    destruct (sumf_pos_ex (is_pre i) (thr s)) as [t' [[a' kc'] [Ht' Hp]]]; [lia|].
    pose proof (stuck_not_enabled _ _ _ Ht') as E1. pose proof (stuck_not_cond _ _ _ Ht') as E2.
    destruct a'; simpl in Hp, E1, E2; try lia; try discriminate. }
  assert (Hqne : queue s <> []) by (intros Z; unfold inq in Hq; rewrite Z in Hq; simpl in Hq; lia).
  destruct (locked s) eqn:Lk.
  - (* locked: the owner can move *)
    pose proof (v_tokf _ I Hfx) as T. rewrite Lk, tokens_eq in T. simpl in T.
    destruct (Nat.eq_dec (thr_tok s) 0) as [Z|Z].
    + (* a granted operation: its thread can release *)
      destruct (sumf_pos_ex (fun k => op_tok (ops s k)) (seq 0 (nl s))) as [n [j [Hn Hj]]]; [unfold ops_tok in T; lia|].
      apply seq_nth_error in Hn. destruct Hn as [-> Hjn]. simpl in Hj.
      pose proof (m_len _ M) as L.
      destruct (nth_error (thr s) n) as [[a' kc']|] eqn:Et; [|apply nth_error_None in Et; lia].
      unfold op_tok in Hj. destruct (o_res (ops s n)) as [|[] [|? ?]] eqn:Er; try lia.
      destruct (o_released (ops s n)) eqn:Erl; [lia|].
      destruct (stuck_shape _ _ _ Et) as [->|[j ->]].
      * pose proof (m_fin _ M _ _ Et). subst kc'. destruct (m_fi _ M _ _ Hjn Et) as [X|X]; [discriminate|congruence].
      * assert (n = j) by (eapply (v_own_a _ I _ _ _ _ Et); reflexivity). subst j.
        pose proof (Hall n) as Hs2. unfold step in Hs2. rewrite Et in Hs2. unfold getop in Hs2.
        rewrite Er, Erl in Hs2. discriminate.
    + destruct (sumf_pos_ex (fun x => act_tok (fst x)) (thr s)) as [t' [[a' kc'] [Ht' Hp]]]; [unfold thr_tok in Z; lia|].
      pose proof (stuck_not_enabled _ _ _ Ht') as E1. pose proof (stuck_not_cond _ _ _ Ht') as E2.
      destruct a'; simpl in Hp, E1, E2; try lia; try discriminate. eapply stuck_no_deregwait; eauto.
  - (* unlocked: the Dekker guard can move *)
    pose proof (l_guard _ (p_linv _ P) Lk Hqne) as G.
    destruct (sumf_pos_ex is_guard (thr s)) as [t' [[a' kc'] [Ht' Hp]]]; [unfold guards in G; lia|].
    pose proof (stuck_not_enabled _ _ _ Ht') as E1.
    destruct a'; simpl in Hp, E1; try lia; discriminate.
Qed.
End Stuck.

(* no deadlock (repaired forwarder): in every reachable state that is not quiescent some thread
   can move *)
Theorem progress hs nt sched :
  let s := fst (run step sched (init true hs nt, [])) in
  quiescent s = false -> exists t, step t s <> None.
Proof.
  intros s Q. pose proof (pinv_reachable true hs nt sched) as P. fold s in P.
  assert (Hfx : fixed s = true) by apply fixed_run.
  destruct (existsb (fun t => match step t s with Some _ => true | None => false end) (seq 0 (length (thr s)))) eqn:Ex.
  - apply existsb_exists in Ex. destruct Ex as [t [_ Ht]]. exists t. destruct (step t s); [discriminate|discriminate].
  - exfalso. assert (Hall : forall t, step t s = None).
    { intros t. destruct (Nat.ltb_spec t (length (thr s))) as [Lt|Ge].
      - destruct (step t s) eqn:Es; auto. exfalso.
        assert (X : existsb (fun t => match step t s with Some _ => true | None => false end) (seq 0 (length (thr s))) = true).
        { apply existsb_exists. exists t. split; [apply in_seq; lia|]. rewrite Es. reflexivity. }
        congruence.
      - unfold step. assert (E : nth_error (thr s) t = None) by (apply nth_error_None; auto). rewrite E. reflexivity. }
    rewrite (stuck_quiescent s P Hfx Hall) in Q. discriminate.
Qed.
