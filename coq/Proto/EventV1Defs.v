(* E1 model EventV1(sig0, programs): v1::async_manual_reset_event
   (include/unifex/v1/async_manual_reset_event.hpp, source/async_manual_reset_event_v1.cpp).

   Memory as the code has it: one atomic word [top] (state_: nullptr | this | pointer to the top
   waiting operation) and one plain field next_ per waiting operation ([nxt w]).  Threads run
   programs over set / reset / ready / start of the wait operation w.  Every atomic access is
   one step; the resumption of each waiter popped by set() is one step (in pop order).  A wait
   that observes the signalled state at its load or at a failed CAS resumes itself in that step
   (nothing shared is touched in between).  compare_exchange_weak is modelled as strong (no
   spurious failure; a spurious failure only repeats the CAS with the same expected value).

   [stk] and the list carried by [PPop] are auxiliary (history) variables: the list of waiters
   linked from [top] resp. from the setter's cursor.  No branch of [step] inspects them (lemma
   step_erase in EventV1Proofs.v); invariant Inv proves that they are exactly the chains formed
   by the next_ fields.
   Executable definitions only. *)
From Coq Require Import List Bool Arith.
Import ListNotations.

Module EventV1.

Inductive ptr := PNull | PSig | POp (w : nat).          (* nullptr | this | &op_w *)
Inductive cmd := CSet | CReset | CReady | CWait (w : nat).

Inductive pc :=
| PIdle                              (* between commands *)
| PCas (w : nat) (e : ptr)           (* start_or_wait: op.next_ = e written, about to CAS e -> &op *)
| PPop (p : ptr) (rest : list nat).  (* set(): about to pop the operation p points to *)

Record thread := { prog : list cmd; tpc : pc }.

Record st := {
  top : ptr;                 (* evt.state_ *)
  nxt : nat -> ptr;          (* op_w.next_ (indeterminate until written: PNull) *)
  thr : list thread;
  resumed : list nat;        (* waiters whose set_value ran, newest first *)
  stk : list nat             (* auxiliary: waiters linked from top *)
}.

Inductive ev :=
| EWaitLoad (w : nat) (p : ptr)               (* start_or_wait: state_.load(acquire) = p *)
| EWaitCas (w : nat) (old : ptr) (ok : bool)  (* compare_exchange(old -> &op_w) (release / acquire) *)
| ESetX (old : ptr)                           (* set: state_.exchange(this, acq_rel) = old *)
| EResetCas (old : ptr) (ok : bool)           (* reset: compare_exchange_strong(this -> nullptr, acq_rel) *)
| EReadyLoad (p : ptr)                        (* ready: state_.load(acquire) = p *)
| EReady (b : bool)                           (* ready() returned b *)
| EResume (w : nat).                          (* op_w.set_value(): completion handed to w's scheduler *)

Definition ptr_eqb (a b : ptr) : bool :=
  match a, b with
  | PNull, PNull => true
  | PSig, PSig => true
  | POp x, POp y => Nat.eqb x y
  | _, _ => false
  end.

Definition is_sig (p : ptr) : bool := match p with PSig => true | _ => false end.

Definition upd (f : nat -> ptr) (w : nat) (p : ptr) : nat -> ptr :=
  fun x => if Nat.eqb x w then p else f x.

Fixpoint set_nth {A} (n : nat) (x : A) (l : list A) : list A :=
  match l, n with
  | [], _ => []
  | _ :: r, O => x :: r
  | y :: r, S n' => y :: set_nth n' x r
  end.

Definition init (sig0 : bool) (progs : list (list cmd)) : st :=
  {| top := if sig0 then PSig else PNull;
     nxt := fun _ => PNull;
     thr := map (fun p => {| prog := p; tpc := PIdle |}) progs;
     resumed := []; stk := [] |}.

Definition idle (r : list cmd) : thread := {| prog := r; tpc := PIdle |}.

Definition step (t : nat) (s : st) : option (st * list ev) :=
  match nth_error (thr s) t with
  | None => None
  | Some th =>
    let r := tl (prog th) in
    match tpc th with
    | PIdle =>
      match prog th with
      | [] => None
      (* async_manual_reset_event_v1.cpp:23-41  set(): exchange; already signalled or empty
         stack: return; otherwise walk the stack *)
      | CSet :: _ =>
          let old := top s in
          let th' := match old with
                     | POp _ => {| prog := r; tpc := PPop old (stk s) |}
                     | _ => idle r
                     end in
          Some ({| top := PSig; nxt := nxt s; thr := set_nth t th' (thr s);
                   resumed := resumed s; stk := [] |}, [ESetX old])
      (* v1/async_manual_reset_event.hpp:100-110  reset(): CAS this -> nullptr, result ignored *)
      | CReset :: _ =>
          match top s with
          | PSig => Some ({| top := PNull; nxt := nxt s; thr := set_nth t (idle r) (thr s);
                             resumed := resumed s; stk := stk s |}, [EResetCas PSig true])
          | old => Some ({| top := old; nxt := nxt s; thr := set_nth t (idle r) (thr s);
                            resumed := resumed s; stk := stk s |}, [EResetCas old false])
          end
      (* v1/async_manual_reset_event.hpp:95-98  ready() *)
      | CReady :: _ =>
          Some ({| top := top s; nxt := nxt s; thr := set_nth t (idle r) (thr s);
                   resumed := resumed s; stk := stk s |},
                [EReadyLoad (top s); EReady (is_sig (top s))])
      (* async_manual_reset_event_v1.cpp:43-66  start_or_wait: load; signalled: set_value;
         else next_ := top and go to the CAS *)
      | CWait w :: _ =>
          match top s with
          | PSig => Some ({| top := PSig; nxt := nxt s; thr := set_nth t (idle r) (thr s);
                             resumed := w :: resumed s; stk := stk s |},
                          [EWaitLoad w PSig; EResume w])
          | old => Some ({| top := old; nxt := upd (nxt s) w old;
                            thr := set_nth t {| prog := r; tpc := PCas w old |} (thr s);
                            resumed := resumed s; stk := stk s |}, [EWaitLoad w old])
          end
      end
    (* async_manual_reset_event_v1.cpp:51-65  the CAS of the do-while; on failure `top` holds the
       value read: signalled -> set_value, else next_ := top and retry *)
    | PCas w e =>
        if ptr_eqb (top s) e then
          Some ({| top := POp w; nxt := nxt s; thr := set_nth t (idle (prog th)) (thr s);
                   resumed := resumed s; stk := w :: stk s |}, [EWaitCas w e true])
        else
          match top s with
          | PSig => Some ({| top := PSig; nxt := nxt s; thr := set_nth t (idle (prog th)) (thr s);
                             resumed := w :: resumed s; stk := stk s |},
                          [EWaitCas w PSig false; EResume w])
          | old => Some ({| top := old; nxt := upd (nxt s) w old;
                            thr := set_nth t {| prog := prog th; tpc := PCas w old |} (thr s);
                            resumed := resumed s; stk := stk s |}, [EWaitCas w old false])
          end
    (* async_manual_reset_event_v1.cpp:36-40  std::exchange(op, op->next_)->set_value() : read
       next_ of the popped operation first, then resume it; loop ends on nullptr.  A cursor
       equal to `this` would be a wild pointer: no step (excluded by invariant Inv) *)
    | PPop p rest =>
        match p with
        | POp w =>
            let p' := nxt s w in
            let th' := match p' with
                       | PNull => idle (prog th)
                       | _ => {| prog := prog th; tpc := PPop p' (tl rest) |}
                       end in
            Some ({| top := top s; nxt := nxt s; thr := set_nth t th' (thr s);
                     resumed := w :: resumed s; stk := stk s |}, [EResume w])
        | _ => None
        end
    end
  end.

(* every thread ran its whole program *)
Definition th_fin (th : thread) : bool :=
  match prog th, tpc th with [], PIdle => true | _, _ => false end.
Definition quiescent (s : st) : bool := forallb th_fin (thr s).

End EventV1.
