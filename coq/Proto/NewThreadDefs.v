(* E1 model NewThread: new_thread_context (include/unifex/new_thread_context.hpp).
   Every started schedule() operation creates a thread; the thread completes the receiver and
   "retires": under the context's mutex it swaps itself into threadToJoin_, decrements
   activeThreadCount_ (notifying the destructor when it was the last), then joins the thread it
   swapped out.  The destructor drops the context's own count, waits until the count is zero and
   joins threadToJoin_.
   Threads: 0 = owner (constructs the context, and -- after every starter returned from its last
   start() -- destroys it); 1..p = starters, starter x starts operations x.0, x.1, ...;
   p+1 ... p+m = the operations' threads, numbered in the fixed order 1.0, 1.1, ..., 2.0, ...
   (the tie renames the implementation's thread ids, which follow the creation order);
   p+m+1 = the environment: a spurious wake-up of the destructor's cv_.wait.
   The std::thread constructor inside start() is folded into the fetch_add that follows it: the
   new thread's first action is to lock the operation's mutex, which start() holds until after
   the fetch_add, so nothing can observe the difference.
   A thread that has left retire_thread's critical section only has to join its predecessor and
   exit; it has finished exactly when its predecessor has, so "thread finished" is a derived
   notion (all earlier retirees are past their unlock) and needs no step of its own.
   Executable definitions only. *)
From Coq Require Import List Bool Arith.
Import ListNotations.

Module NewThread.

Definition item := (nat * nat)%type.   (* starter (thread id), sequence number *)
Definition item_eqb (a b : item) : bool := Nat.eqb (fst a) (fst b) && Nat.eqb (snd a) (snd b).

(* owner: ~context, lines 131-141 *)
Inductive opc :=
| OSub                    (* activeThreadCount_.fetch_sub(1) *)
| OLock                   (* unique_lock lk{mut_} *)
| OPred                   (* holds mut_: evaluates the predicate (load of the count) *)
| OWait                   (* holds mut_, count != 0: about to cv_.wait *)
| OBlocked (notified : bool)
| OJoin                   (* holds mut_, count == 0: threadToJoin_.join() if joinable *)
| OUnlock
| ODone.

(* starter: _op::start, lines 164-174 *)
Inductive spc :=
| SLock (j : nat)         (* lock_guard opLock{mut_} of operation j *)
| SAdd (j : nat)          (* thread_ = std::thread(...); activeThreadCount_.fetch_add(1) *)
| SUnlock (j : nat).

(* an operation's thread: _op::run (177-197) then context::retire_thread (146-158) *)
Inductive tpc :=
| TNotCreated
| TLock                   (* lock_guard opLock{mut_}: blocks until start() has released it *)
| TUnlock
| TRun                    (* reads the stop token, completes the receiver *)
| RLock                   (* lock_guard lk{ctx.mut_} *)
| RSub                    (* swapped itself into threadToJoin_; about to fetch_sub(1) *)
| RNotify                 (* it was the last: cv_.notify_one() *)
| RUnlock
| TAfter.                 (* left the critical section: joins the thread it swapped out, exits *)

Record st := {
  count : nat;                     (* activeThreadCount_ *)
  cmtx : option nat;               (* owner of context::mut_ (thread id) *)
  owner : opc;
  starters : list (nat * spc);     (* per starter: number of operations, program counter *)
  threads : list (item * tpc);     (* one entry per operation, in the fixed order *)
  oplocked : list item;            (* operations whose own mutex is held by start() *)
  retired : list item;             (* threads that swapped themselves into threadToJoin_, in order;
                                      threadToJoin_ is the last one *)
  stopped : list item;             (* operations whose receiver's stop token is requested *)
  (* ghost *)
  completed : list (item * bool)   (* completions, oldest first; true = set_done *)
}.

Inductive ev :=
| ECount (add : bool) (old : nat)   (* fetch_add / fetch_sub on activeThreadCount_ *)
| ELoadCount (v : nat)
| ECLock | ECUnlock | ECWait | ECNotify      (* context mutex / condvar *)
| EOpLock (it : item) | EOpUnlock (it : item)
| EObs (it : item) (b : bool)
| ERun (it : item) (done : bool)
| EJoin                              (* the destructor's threadToJoin_.join() returned *)
| ESpurious.

Fixpoint all_items (x : nat) (counts : list nat) : list item :=
  match counts with
  | [] => []
  | n :: r => map (fun j => (S x, j)) (seq 0 n) ++ all_items (S x) r
  end.

Definition init (counts : list nat) (stops : list item) : st :=
  {| count := 1; cmtx := None; owner := OSub;
     starters := map (fun n => (n, SLock 0)) counts;
     threads := map (fun it => (it, TNotCreated)) (all_items 0 counts); oplocked := [];
     retired := []; stopped := stops; completed := [] |}.

Fixpoint set_nth {A} (n : nat) (x : A) (l : list A) : list A :=
  match l, n with
  | [], _ => []
  | _ :: r, O => x :: r
  | y :: r, S n' => y :: set_nth n' x r
  end.

Definition mem (a : item) (l : list item) : bool := existsb (item_eqb a) l.
Fixpoint remove_item (a : item) (l : list item) : list item :=
  match l with [] => [] | x :: r => if item_eqb a x then r else x :: remove_item a r end.

Definition nstart (s : st) : nat := length (starters s).

(* field updates *)
Definition upd (s : st) (c : nat) (m : option nat) (o : opc) (ss : list (nat * spc))
               (ts : list (item * tpc)) (ol : list item) (rt : list item) (cp : list (item * bool)) : st :=
  {| count := c; cmtx := m; owner := o; starters := ss; threads := ts; oplocked := ol;
     retired := rt; stopped := stopped s; completed := cp |}.
Definition set_owner (s : st) (o : opc) : st :=
  upd s (count s) (cmtx s) o (starters s) (threads s) (oplocked s) (retired s) (completed s).
Definition set_cmtx (s : st) (m : option nat) : st :=
  upd s (count s) m (owner s) (starters s) (threads s) (oplocked s) (retired s) (completed s).
Definition set_count (s : st) (c : nat) : st :=
  upd s c (cmtx s) (owner s) (starters s) (threads s) (oplocked s) (retired s) (completed s).
Definition set_starter (s : st) (x : nat) (p : nat * spc) : st :=
  upd s (count s) (cmtx s) (owner s) (set_nth x p (starters s)) (threads s) (oplocked s) (retired s) (completed s).
Definition set_thread (s : st) (i : nat) (p : item * tpc) : st :=
  upd s (count s) (cmtx s) (owner s) (starters s) (set_nth i p (threads s)) (oplocked s) (retired s) (completed s).
Definition set_oplocked (s : st) (l : list item) : st :=
  upd s (count s) (cmtx s) (owner s) (starters s) (threads s) l (retired s) (completed s).

Definition starter_done (p : nat * spc) : bool :=
  match snd p with SLock j => Nat.leb (fst p) j | _ => false end.
Definition all_starters_done (s : st) : bool := forallb starter_done (starters s).

Definition past_unlock (p : item * tpc) : bool := match snd p with TAfter => true | _ => false end.

(* a retired thread has finished iff it and all threads retired before it are past their unlock;
   the destructor joins the last retired thread *)
Definition thread_pc (s : st) (it : item) : option tpc :=
  match find (fun p => item_eqb it (fst p)) (threads s) with Some p => Some (snd p) | None => None end.
Definition all_retired_finished (s : st) : bool :=
  forallb (fun it => match thread_pc s it with Some TAfter => true | _ => false end) (retired s).

Definition wake (o : opc) : opc := match o with OBlocked false => OBlocked true | _ => o end.

Definition step_owner (s : st) : option (st * list ev) :=
  match owner s with
  | OSub =>
      if all_starters_done s
      then Some (set_owner (set_count s (pred (count s))) OLock, [ECount false (count s)])
      else None
  | OLock => match cmtx s with None => Some (set_owner (set_cmtx s (Some 0)) OPred, [ECLock]) | _ => None end
  | OPred => Some (set_owner s (if Nat.eqb (count s) 0 then OJoin else OWait), [ELoadCount (count s)])
  | OWait => Some (set_owner (set_cmtx s None) (OBlocked false), [ECWait; ECUnlock])
  | OBlocked true => match cmtx s with None => Some (set_owner (set_cmtx s (Some 0)) OPred, [ECLock]) | _ => None end
  | OBlocked false => None
  | OJoin =>
      match retired s with
      | [] => Some (set_owner (set_cmtx s None) ODone, [ECUnlock])     (* not joinable: straight to unlock *)
      | _ => if all_retired_finished s then Some (set_owner s OUnlock, [EJoin]) else None
      end
  | OUnlock => Some (set_owner (set_cmtx s None) ODone, [ECUnlock])
  | ODone => None
  end.

(* the std::thread constructor: the operation's thread exists from now on *)
Definition create (it : item) (l : list (item * tpc)) : list (item * tpc) :=
  map (fun p => if item_eqb it (fst p) then (it, TLock) else p) l.

(* starter number x (thread id S x) *)
Definition step_starter (x : nat) (s : st) : option (st * list ev) :=
  match nth_error (starters s) x with
  | None => None
  | Some (n, SLock j) =>
      if Nat.ltb j n
      then Some (set_starter (set_oplocked s ((S x, j) :: oplocked s)) x (n, SAdd j), [EOpLock (S x, j)])
      else None
  | Some (n, SAdd j) =>
      Some (upd s (S (count s)) (cmtx s) (owner s) (set_nth x (n, SUnlock j) (starters s))
                (create (S x, j) (threads s)) (oplocked s) (retired s) (completed s),
            [ECount true (count s)])
  | Some (n, SUnlock j) =>
      Some (set_starter (set_oplocked s (remove_item (S x, j) (oplocked s))) x (n, SLock (S j)), [EOpUnlock (S x, j)])
  end.

(* the thread of the i-th operation (thread id nstart + 1 + i) *)
Definition step_thread (i : nat) (s : st) : option (st * list ev) :=
  let me := S (nstart s + i) in
  match nth_error (threads s) i with
  | None => None
  | Some (it, TNotCreated) => None
  | Some (it, TLock) =>
      if mem it (oplocked s) then None
      else Some (set_thread s i (it, TUnlock), [EOpLock it])
  | Some (it, TUnlock) => Some (set_thread s i (it, TRun), [EOpUnlock it])
  | Some (it, TRun) =>
      let b := mem it (stopped s) in
      Some (upd s (count s) (cmtx s) (owner s) (starters s) (set_nth i (it, RLock) (threads s))
                (oplocked s) (retired s) (completed s ++ [(it, b)]),
            [EObs it b; ERun it b])
  | Some (it, RLock) =>
      match cmtx s with
      | None =>
          (* prevThread = exchange(threadToJoin_, t) is private work under the lock *)
          Some (upd s (count s) (Some me) (owner s) (starters s) (set_nth i (it, RSub) (threads s))
                    (oplocked s) (retired s ++ [it]) (completed s), [ECLock])
      | _ => None
      end
  | Some (it, RSub) =>
      Some (set_thread (set_count s (pred (count s))) i (it, if Nat.eqb (count s) 1 then RNotify else RUnlock),
            [ECount false (count s)])
  | Some (it, RNotify) => Some (set_owner (set_thread s i (it, RUnlock)) (wake (owner s)), [ECNotify])
  | Some (it, RUnlock) => Some (set_thread (set_cmtx s None) i (it, TAfter), [ECUnlock])
  | Some (it, TAfter) => None
  end.

Definition step_spur (s : st) : option (st * list ev) :=
  match owner s with
  | OBlocked false => Some (set_owner s (OBlocked true), [ESpurious])
  | _ => None
  end.

Definition step (t : nat) (s : st) : option (st * list ev) :=
  let p := nstart s in
  if Nat.eqb t 0 then step_owner s
  else if Nat.leb t p then step_starter (pred t) s
  else if Nat.leb t (p + length (threads s)) then step_thread (t - S p) s
  else if Nat.eqb t (S (p + length (threads s))) then step_spur s
  else None.

Definition final (s : st) : bool :=
  match owner s with ODone => all_starters_done s | _ => false end.

End NewThread.
