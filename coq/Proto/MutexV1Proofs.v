(* Proofs about the MutexV1 model (v1::async_mutex). *)
From Coq Require Import List Bool Arith Lia.
From V Require Import Base.Sched Proto.MutexV1Defs.
Import ListNotations.
Import MutexV1.

(* ------------------------------------------------------------------ list facts *)
Section ListFacts.
Context {A : Type}.

Lemma length_set_nth (l : list A) n x : length (set_nth n x l) = length l.
Proof. revert n; induction l; destruct n; simpl; auto. Qed.

Lemma nth_set_nth (l : list A) n m x :
  nth_error (set_nth n x l) m =
  if Nat.eqb n m then match nth_error l n with Some _ => Some x | None => None end
  else nth_error l m.
Proof.
  revert n m; induction l as [|a l IH]; intros n m.
  - destruct n, m; simpl; try reflexivity; destruct (Nat.eqb n m); reflexivity.
  - destruct n, m; simpl; try reflexivity. apply IH.
Qed.

Lemma nth_set_nth_eq (l : list A) n x y :
  nth_error l n = Some y -> nth_error (set_nth n x l) n = Some x.
Proof. intros H. rewrite nth_set_nth, Nat.eqb_refl, H. reflexivity. Qed.

Lemma nth_set_nth_neq (l : list A) n m x :
  n <> m -> nth_error (set_nth n x l) m = nth_error l m.
Proof. intros H. rewrite nth_set_nth. apply Nat.eqb_neq in H. now rewrite H. Qed.

Definition cnt (f : A -> bool) (l : list A) : nat := length (filter f l).
Definition b2n (b : bool) : nat := if b then 1 else 0.

Lemma cnt_set_nth f (l : list A) n x y :
  nth_error l n = Some y ->
  cnt f (set_nth n x l) + b2n (f y) = cnt f l + b2n (f x).
Proof.
  unfold cnt. revert n; induction l as [|a l IH]; intros n H.
  - destruct n; discriminate.
  - destruct n; simpl in *.
    + inversion H; subst. destruct (f y), (f x); simpl; lia.
    + specialize (IH _ H). destruct (f a); simpl; lia.
Qed.

Lemma cnt_nth_pos f (l : list A) n y :
  nth_error l n = Some y -> f y = true -> 1 <= cnt f l.
Proof.
  unfold cnt. revert n; induction l as [|a l IH]; intros n H Hf.
  - destruct n; discriminate.
  - destruct n; simpl in *.
    + inversion H; subst. rewrite Hf. simpl. lia.
    + specialize (IH _ H Hf). destruct (f a); simpl; lia.
Qed.

Lemma cnt_one_unique f (l : list A) a b x y :
  cnt f l <= 1 -> nth_error l a = Some x -> f x = true ->
  nth_error l b = Some y -> f y = true -> a = b.
Proof.
  unfold cnt. revert a b; induction l as [|c l IH]; intros a b H Ha Hx Hb Hy.
  - destruct a; discriminate.
  - destruct a, b; simpl in *; auto.
    + inversion Ha; subst. rewrite Hx in H. simpl in H.
      pose proof (cnt_nth_pos f l b y Hb Hy). unfold cnt in *. lia.
    + inversion Hb; subst. rewrite Hy in H. simpl in H.
      pose proof (cnt_nth_pos f l a x Ha Hx). unfold cnt in *. lia.
    + f_equal. apply IH; auto. destruct (f c); simpl in H; lia.
Qed.

Lemma cnt_repeat f (x : A) n : cnt f (repeat x n) = n * b2n (f x).
Proof. unfold cnt. induction n; simpl; auto. destruct (f x); simpl in *; lia. Qed.

Lemma cnt_app f (l1 l2 : list A) : cnt f (l1 ++ l2) = cnt f l1 + cnt f l2.
Proof. unfold cnt. rewrite filter_app, app_length. reflexivity. Qed.

Lemma nth_repeat_app (x y : A) n m t p :
  nth_error (repeat x n ++ repeat y m) t = Some p ->
  (t < n /\ p = x) \/ (n <= t /\ t < n + m /\ p = y).
Proof.
  intros H. destruct (Nat.ltb t n) eqn:E.
  - apply Nat.ltb_lt in E. left. split; auto.
    rewrite nth_error_app1 in H by (rewrite repeat_length; auto).
    apply nth_error_In in H. apply repeat_spec in H. auto.
  - apply Nat.ltb_ge in E. right.
    rewrite nth_error_app2 in H by (rewrite repeat_length; auto). rewrite repeat_length in H.
    assert (t - n < m). { rewrite <- (repeat_length y m). apply nth_error_Some. congruence. }
    apply nth_error_In in H. apply repeat_spec in H. repeat split; auto; lia.
Qed.
End ListFacts.

(* ------------------------------------------------------------------ the state invariant *)
Definition stack (s : st) : list nat := match w s with Some l => l | None => [] end.
Definition pcat (s : st) (t : nat) : option pc := nth_error (pcs s) t.

Record Inv (nl nt : nat) (s : st) : Prop := {
  i_len : length (pcs s) = nl + nt;
  (* the word is inactive exactly when nobody holds the mutex; never two holders *)
  i_hold : holders s = match w s with None => 0 | Some _ => 1 end;
  (* the suspended lockers are exactly the members of the stack and of pendingQueue_, once each *)
  i_nodup : NoDup (stack s ++ pend s);
  i_wait : forall t, pcat s t = Some PWait <-> In t (stack s ++ pend s);
  i_unl : w s = None -> pend s = [];
  i_pend : forall t, pcat s t = Some PUnlCas \/ pcat s t = Some PUnlX -> pend s = [];
  i_x : forall t, pcat s t = Some PUnlX -> stack s <> [];
  i_typ : forall t, t < nl -> pcat s t <> Some PTry /\ pcat s t <> Some PFailed
}.

Lemma holders_cnt s : holders s = cnt is_holder (pcs s).
Proof. reflexivity. Qed.

Lemma init_inv nl nt : Inv nl nt (init nl nt).
Proof.
  constructor; unfold pcat; simpl.
  - rewrite app_length, !repeat_length. reflexivity.
  - rewrite holders_cnt. simpl. rewrite cnt_app, !cnt_repeat. simpl. lia.
  - constructor.
  - intros t; split; [|intros []]. intros H. apply nth_repeat_app in H. destruct H as [[_ H]|[_ [_ H]]]; discriminate.
  - reflexivity.
  - reflexivity.
  - intros t H. apply nth_repeat_app in H. destruct H as [[_ H]|[_ [_ H]]]; discriminate.
  - intros t Ht. split; intros H; apply nth_repeat_app in H; destruct H as [[_ H]|[H _]]; try discriminate; lia.
Qed.

(* uniqueness of the holder *)
Lemma holder_unique nl nt s a b pa pb :
  Inv nl nt s -> pcat s a = Some pa -> is_holder pa = true ->
  pcat s b = Some pb -> is_holder pb = true -> a = b.
Proof.
  intros I Ha Hpa Hb Hpb. eapply (cnt_one_unique is_holder (pcs s)); eauto.
  rewrite <- holders_cnt, (i_hold _ _ _ I). destruct (w s); lia.
Qed.

Lemma holder_locked nl nt s a pa :
  Inv nl nt s -> pcat s a = Some pa -> is_holder pa = true -> w s <> None.
Proof.
  intros I Ha Hpa E. pose proof (i_hold _ _ _ I) as H. rewrite E, holders_cnt in H.
  pose proof (cnt_nth_pos is_holder (pcs s) a pa Ha Hpa). lia.
Qed.

Lemma no_holder_when_unlocked nl nt s a pa :
  Inv nl nt s -> w s = None -> pcat s a = Some pa -> is_holder pa = false.
Proof.
  intros I E Ha. destruct (is_holder pa) eqn:F; auto.
  exfalso. eapply holder_locked; eauto.
Qed.

Ltac nth_cases :=
  repeat match goal with
  | H : context [nth_error (set_nth ?n _ _) ?m] |- _ =>
      rewrite nth_set_nth in H; destruct (Nat.eqb n m) eqn:?
  | |- context [nth_error (set_nth ?n _ _) ?m] =>
      rewrite nth_set_nth; destruct (Nat.eqb n m) eqn:?
  end;
  repeat match goal with
  | H : Nat.eqb _ _ = true |- _ => apply Nat.eqb_eq in H; subst
  | H : Nat.eqb _ _ = false |- _ => apply Nat.eqb_neq in H
  end.

(* a thread that only changes its own pc, not touching the word or the queues, between two
   non-waiting pcs with the same holder status *)
Lemma inv_set_pc nl nt s t p q :
  Inv nl nt s -> pcat s t = Some p ->
  is_holder q = is_holder p -> q <> PWait -> p <> PWait ->
  (q = PUnlCas \/ q = PUnlX -> pend s = []) ->
  (q = PUnlX -> stack s <> []) ->
  (q = PTry \/ q = PFailed -> nl <= t) ->
  Inv nl nt (set_pc s t q).
Proof.
  intros I Hp Hh Hq Hpw Hpe Hx Hty. unfold pcat in *.
  constructor; unfold pcat, stack in *; simpl.
  - rewrite length_set_nth. apply (i_len _ _ _ I).
  - rewrite holders_cnt. simpl. pose proof (cnt_set_nth is_holder (pcs s) t q p Hp) as C.
    rewrite Hh in C. rewrite <- (i_hold _ _ _ I), holders_cnt. lia.
  - apply (i_nodup _ _ _ I).
  - intros t'. rewrite <- (i_wait _ _ _ I t'). unfold pcat. nth_cases.
    + rewrite Hp. split; intros H; inversion H; congruence.
    + reflexivity.
  - apply (i_unl _ _ _ I).
  - intros t' H. nth_cases.
    + rewrite Hp in H. apply Hpe. destruct H as [H|H]; inversion H; auto.
    + eapply (i_pend _ _ _ I); eauto.
  - intros t' H. nth_cases.
    + rewrite Hp in H. apply Hx. inversion H; auto.
    + eapply (i_x _ _ _ I); eauto.
  - intros t' Ht'. nth_cases.
    + rewrite Hp. split; intros H; inversion H; subst; assert (nl <= t') by auto; lia.
    + apply (i_typ _ _ _ I); auto.
Qed.

Ltac side := try discriminate; try (intros [?|?]; discriminate).

Lemma step_inv nl nt s t s' evs :
  Inv nl nt s -> step t s = Some (s', evs) -> Inv nl nt s'.
Proof.
  intros I H. unfold step in H.
  destruct (nth_error (pcs s) t) as [p|] eqn:Ep; [|discriminate].
  assert (Ht : t < nl \/ nl <= t) by lia.
  destruct p.
  - (* PLoad *)
    inversion H; subst; clear H. eapply inv_set_pc; eauto; side.
  - (* PCas *)
    destruct (wv_eqb (head_of (w s)) old) eqn:Eq.
    + destruct (w s) as [l|] eqn:Ew; inversion H; subst; clear H.
      * (* push *)
        assert (Hnw : ~ In t (l ++ pend s)).
        { intros Hin. pose proof (proj2 (i_wait _ _ _ I t)) as X. unfold stack, pcat in X.
          rewrite Ew in X. specialize (X Hin). congruence. }
        constructor; unfold pcat, stack in *; simpl.
        -- rewrite length_set_nth. apply (i_len _ _ _ I).
        -- rewrite holders_cnt. simpl.
           pose proof (cnt_set_nth is_holder (pcs s) t PWait _ Ep) as C. simpl in C.
           pose proof (i_hold _ _ _ I) as Hh. rewrite Ew, holders_cnt in Hh. lia.
        -- constructor; auto. pose proof (i_nodup _ _ _ I) as N. unfold stack in N. now rewrite Ew in N.
        -- intros t'. pose proof (i_wait _ _ _ I t') as X. unfold stack, pcat in X. rewrite Ew in X.
           nth_cases.
           ++ rewrite Ep. split; auto.
           ++ rewrite X. split; [auto|]. intros [E|E]; [congruence|auto].
        -- discriminate.
        -- intros t' H'. nth_cases.
           ++ rewrite Ep in H'. destruct H' as [H'|H']; discriminate.
           ++ eapply (i_pend _ _ _ I); eauto.
        -- intros t' H'. discriminate.
        -- intros t' Ht'. nth_cases.
           ++ rewrite Ep. split; discriminate.
           ++ apply (i_typ _ _ _ I); auto.
      * (* inactive -> locked *)
        constructor; unfold pcat, stack in *; simpl.
        -- rewrite length_set_nth. apply (i_len _ _ _ I).
        -- rewrite holders_cnt. simpl.
           pose proof (cnt_set_nth is_holder (pcs s) t PHeld _ Ep) as C. simpl in C.
           pose proof (i_hold _ _ _ I) as Hh. rewrite Ew, holders_cnt in Hh. lia.
        -- pose proof (i_nodup _ _ _ I) as N. unfold stack in N. now rewrite Ew in N.
        -- intros t'. pose proof (i_wait _ _ _ I t') as X. unfold stack, pcat in X. rewrite Ew in X.
           nth_cases; [|exact X].
           rewrite Ep. rewrite <- X. split; intros H'; [discriminate|congruence].
        -- discriminate.
        -- intros t' H'. apply (i_unl _ _ _ I). auto.
        -- intros t' H'. nth_cases.
           ++ rewrite Ep in H'. discriminate.
           ++ exfalso. pose proof (no_holder_when_unlocked _ _ _ t' _ I Ew H'). discriminate.
        -- intros t' Ht'. nth_cases.
           ++ rewrite Ep. split; discriminate.
           ++ apply (i_typ _ _ _ I); auto.
    + inversion H; subst; clear H. eapply inv_set_pc; eauto; side.
  - (* PTry *)
    destruct (w s) as [l|] eqn:Ew; inversion H; subst; clear H.
    + assert (nl <= t).
      { destruct Ht as [Ht|Ht]; auto. exfalso. apply (proj1 (i_typ _ _ _ I t Ht)). exact Ep. }
      eapply inv_set_pc; eauto; side.
    + constructor; unfold pcat, stack in *; simpl.
      -- rewrite length_set_nth. apply (i_len _ _ _ I).
      -- rewrite holders_cnt. simpl.
         pose proof (cnt_set_nth is_holder (pcs s) t PHeld _ Ep) as C. simpl in C.
         pose proof (i_hold _ _ _ I) as Hh. rewrite Ew, holders_cnt in Hh. lia.
      -- pose proof (i_nodup _ _ _ I) as N. unfold stack in N. now rewrite Ew in N.
      -- intros t'. pose proof (i_wait _ _ _ I t') as X. unfold stack, pcat in X. rewrite Ew in X.
         nth_cases; [|exact X].
         rewrite Ep. rewrite <- X. split; intros H'; [discriminate|congruence].
      -- discriminate.
      -- intros t' H'. apply (i_unl _ _ _ I). auto.
      -- intros t' H'. nth_cases.
         ++ rewrite Ep in H'. discriminate.
         ++ exfalso. pose proof (no_holder_when_unlocked _ _ _ t' _ I Ew H'). discriminate.
      -- intros t' Ht'. nth_cases.
         ++ rewrite Ep. split; discriminate.
         ++ apply (i_typ _ _ _ I); auto.
  - (* PWait *) discriminate.
  - (* PHeld *)
    inversion H; subst; clear H. eapply inv_set_pc; eauto; side.
  - (* PUnl *)
    destruct (pend s) as [|j r] eqn:Epd.
    + inversion H; subst; clear H.
      assert (Hw : w s <> None) by (eapply holder_locked; eauto).
      eapply inv_set_pc; eauto; try discriminate.
      * destruct (head_of (w s)); reflexivity.
      * destruct (head_of (w s)); discriminate.
      * intros E. unfold stack. destruct (w s) as [[|a l]|]; simpl in *; try discriminate; congruence.
      * intros [E|E]; destruct (head_of (w s)); discriminate.
    + (* hand the mutex to the head of pendingQueue_ *)
      inversion H; subst; clear H. unfold hand_over.
      assert (Hw : w s <> None) by (eapply holder_locked; eauto).
      assert (Hj : pcat s j = Some PWait).
      { apply (i_wait _ _ _ I). rewrite Epd. apply in_or_app. right. left. reflexivity. }
      assert (Hjt : t <> j) by (intros E; subst; unfold pcat in Hj; congruence).
      assert (Hjr : ~ In j (stack s ++ r)).
      { pose proof (i_nodup _ _ _ I) as N. rewrite Epd in N. apply NoDup_remove_2 in N. exact N. }
      constructor; unfold pcat in *; simpl.
      -- rewrite !length_set_nth. apply (i_len _ _ _ I).
      -- rewrite holders_cnt. simpl.
         assert (E1 : nth_error (set_nth t PDone (pcs s)) j = Some PWait) by (rewrite nth_set_nth_neq; auto).
         pose proof (cnt_set_nth is_holder _ j PHeld _ E1) as C1.
         pose proof (cnt_set_nth is_holder (pcs s) t PDone _ Ep) as C2. simpl in *.
         pose proof (i_hold _ _ _ I) as Hh. rewrite holders_cnt in Hh.
         destruct (w s); [lia|congruence].
      -- pose proof (i_nodup _ _ _ I) as N. rewrite Epd in N. apply NoDup_remove_1 in N. exact N.
      -- intros t'. pose proof (i_wait _ _ _ I t') as X. unfold pcat in X. rewrite Epd in X.
         unfold stack in *; simpl.
         nth_cases.
         ++ exfalso; congruence.
         ++ rewrite Hj. split; [discriminate|]. intros; contradiction.
         ++ rewrite Ep. split; [discriminate|]. intros Hin. exfalso.
            assert (Y : In t' (match w s with Some l => l | None => [] end ++ j :: r)).
            { apply in_app_or in Hin. apply in_or_app. destruct Hin; [left|right; right]; auto. }
            apply X in Y. congruence.
         ++ rewrite X. split; intros Hin; apply in_app_or in Hin; apply in_or_app.
            ** destruct Hin as [Hin|[Hin|Hin]]; [left|congruence|right]; auto.
            ** destruct Hin; [left|right; right]; auto.
      -- intros E; congruence.
      -- intros t' H'. exfalso. nth_cases.
         ++ exfalso; congruence.
         ++ rewrite Hj in H'. destruct H' as [H'|H']; discriminate.
         ++ rewrite Ep in H'. destruct H' as [H'|H']; discriminate.
         ++ assert (t = t'); [|congruence].
            destruct H' as [H'|H']; eapply (holder_unique _ _ s t t'); eauto.
      -- intros t' H'. exfalso. nth_cases.
         ++ exfalso; congruence.
         ++ rewrite Hj in H'. discriminate.
         ++ rewrite Ep in H'. discriminate.
         ++ assert (t = t'); [|congruence]. eapply (holder_unique _ _ s t t'); eauto.
      -- intros t' Ht'. nth_cases.
         ++ exfalso; congruence.
         ++ rewrite Hj. split; discriminate.
         ++ rewrite Ep. split; discriminate.
         ++ apply (i_typ _ _ _ I); auto.
  - (* PUnlCas *)
    assert (Hpd : pend s = []) by (eapply (i_pend _ _ _ I); eauto).
    destruct (w s) as [[|a l]|] eqn:Ew; inversion H; subst; clear H.
    + (* nullptr -> inactive: released *)
      constructor; unfold pcat, stack in *; simpl.
      -- rewrite length_set_nth. apply (i_len _ _ _ I).
      -- rewrite holders_cnt. simpl.
         pose proof (cnt_set_nth is_holder (pcs s) t PDone _ Ep) as C. simpl in C.
         pose proof (i_hold _ _ _ I) as Hh. rewrite Ew, holders_cnt in Hh. lia.
      -- rewrite Hpd. constructor.
      -- intros t'. pose proof (i_wait _ _ _ I t') as X. unfold stack, pcat in X. rewrite Ew in X.
         nth_cases; [|exact X]. rewrite Ep. rewrite <- X. split; intros; [discriminate|congruence].
      -- auto.
      -- auto.
      -- intros t' H'. exfalso. nth_cases.
         ++ rewrite Ep in H'. discriminate.
         ++ assert (t = t'); [|congruence]. eapply (holder_unique _ _ s t t'); eauto.
      -- intros t' Ht'. nth_cases.
         ++ rewrite Ep. split; discriminate.
         ++ apply (i_typ _ _ _ I); auto.
    + eapply inv_set_pc; eauto; try discriminate.
      * intros _. unfold stack. rewrite Ew. discriminate.
      * intros [E|E]; discriminate.
    + exfalso. eapply (holder_locked _ _ s t); eauto.
  - (* PUnlX *)
    assert (Hpd : pend s = []) by (eapply (i_pend _ _ _ I); eauto).
    destruct (w s) as [[|a l]|] eqn:Ew; try discriminate.
    destruct (rev (a :: l)) as [|j r] eqn:Er; [discriminate|].
    inversion H; subst; clear H. unfold hand_over.
    assert (Hperm : forall x, In x (a :: l) <-> In x (j :: r)).
    { intros x. rewrite <- Er. apply in_rev. }
    assert (Hnd : NoDup (j :: r)).
    { rewrite <- Er. apply NoDup_rev. pose proof (i_nodup _ _ _ I) as N. unfold stack in N.
      rewrite Ew, Hpd, app_nil_r in N. exact N. }
    assert (Hj : pcat s j = Some PWait).
    { apply (i_wait _ _ _ I). unfold stack. rewrite Ew, Hpd, app_nil_r. apply Hperm. left. reflexivity. }
    assert (Hjt : t <> j) by (intros E; subst; unfold pcat in Hj; congruence).
    constructor; unfold pcat, stack in *; simpl.
    -- rewrite !length_set_nth. apply (i_len _ _ _ I).
    -- rewrite holders_cnt. simpl.
       assert (E1 : nth_error (set_nth t PDone (pcs s)) j = Some PWait) by (rewrite nth_set_nth_neq; auto).
       pose proof (cnt_set_nth is_holder _ j PHeld _ E1) as C1.
       pose proof (cnt_set_nth is_holder (pcs s) t PDone _ Ep) as C2. simpl in *.
       pose proof (i_hold _ _ _ I) as Hh. rewrite Ew, holders_cnt in Hh. lia.
    -- inversion Hnd; auto.
    -- intros t'. pose proof (i_wait _ _ _ I t') as X. unfold pcat, stack in X.
       rewrite Ew, Hpd, app_nil_r in X.
       nth_cases.
       ++ exfalso; congruence.
       ++ rewrite Hj. split; [discriminate|]. intros Hin. inversion Hnd; contradiction.
       ++ rewrite Ep. split; [discriminate|]. intros Hin. exfalso.
          assert (Y : In t' (a :: l)) by (apply Hperm; right; auto). apply X in Y. congruence.
       ++ rewrite X, Hperm. split; [intros [E|E]; [congruence|auto]|intros; right; auto].
    -- discriminate.
    -- intros t' H'. exfalso. nth_cases.
       ++ exfalso; congruence.
       ++ rewrite Hj in H'. destruct H' as [H'|H']; discriminate.
       ++ rewrite Ep in H'. destruct H' as [H'|H']; discriminate.
       ++ assert (t = t'); [|congruence].
          destruct H' as [H'|H']; eapply (holder_unique _ _ s t t'); eauto.
    -- intros t' H'. exfalso. nth_cases.
       ++ exfalso; congruence.
       ++ rewrite Hj in H'. discriminate.
       ++ rewrite Ep in H'. discriminate.
       ++ assert (t = t'); [|congruence]. eapply (holder_unique _ _ s t t'); eauto.
    -- intros t' Ht'. nth_cases.
       ++ exfalso; congruence.
       ++ rewrite Hj. split; discriminate.
       ++ rewrite Ep. split; discriminate.
       ++ apply (i_typ _ _ _ I); auto.
  - discriminate.
  - discriminate.
Qed.

Lemma inv_reachable nl nt sched : Inv nl nt (fst (run step sched (init nl nt, []))).
Proof.
  apply (run_invariant_state _ _ _ step (Inv nl nt)).
  - intros s t s' ev I H. eapply step_inv; eauto.
  - apply init_inv.
Qed.

(* ------------------------------------------------------------------ trace observers *)
Definition acq_of (e : ev) : list nat := match e with EAcquire i _ => [i] | _ => [] end.
(* who acquired the mutex, in order (set_value of a lock operation or try_lock() = true) *)
Definition acquirers (tr : list ev) : list nat := flat_map acq_of tr.

(* the successful enqueue CASes of enqueue_or_mark_active, in order *)
Definition enq_of (e : ev) : list nat := match e with ECasLock _ (WPtr t) true => [t] | _ => [] end.
Definition enqueued (tr : list ev) : list nat := flat_map enq_of tr.
(* the waiters resumed by an unlock(), in order *)
Definition handoff_of (e : ev) : list nat := match e with EAcquire j true => [j] | _ => [] end.
Definition handoffs (tr : list ev) : list nat := flat_map handoff_of tr.

(* acquire / release alternate: [scan] returns None as soon as an acquire happens while somebody
   is inside its critical section (or a release comes from somebody who is not the holder);
   otherwise Some (the current holder, if any) *)
Definition scan1 (h : option (option nat)) (e : ev) : option (option nat) :=
  match h with
  | None => None
  | Some cur =>
      match e with
      | EAcquire i _ => match cur with None => Some (Some i) | Some _ => None end
      | ERelease i => match cur with
                      | Some j => if Nat.eqb i j then Some None else None
                      | None => None
                      end
      | _ => Some cur
      end
  end.
Definition scan (tr : list ev) : option (option nat) := fold_left scan1 tr (Some None).

Definition acquired (p : pc) : bool :=
  is_holder p || match p with PDone => true | _ => false end.

Lemma wv_eqb_eq a b : wv_eqb a b = true -> a = b.
Proof. destruct a, b; simpl; try discriminate; auto. intros H. apply Nat.eqb_eq in H. congruence. Qed.

Record TInv (nl nt : nat) (c : st * list ev) : Prop := {
  t_inv : Inv nl nt (fst c);
  t_nodup : NoDup (acquirers (snd c));
  t_acq : forall i, In i (acquirers (snd c)) <-> exists p, pcat (fst c) i = Some p /\ acquired p = true;
  t_scan : exists h, scan (snd c) = Some h /\ forall i, pcat (fst c) i = Some PHeld <-> h = Some i;
  t_fifo : enqueued (snd c) = handoffs (snd c) ++ pend (fst c) ++ rev (stack (fst c))
}.

Lemma init_tinv nl nt : TInv nl nt (init nl nt, []).
Proof.
  constructor; simpl.
  - apply init_inv.
  - constructor.
  - intros i. split; [intros []|]. intros [p [H Hp]]. unfold pcat in H. simpl in H.
    apply nth_repeat_app in H. destruct H as [[_ H]|[_ [_ H]]]; subst; discriminate.
  - exists None. split; [reflexivity|]. intros i. split; [|discriminate].
    intros H. unfold pcat in H. simpl in H.
    apply nth_repeat_app in H. destruct H as [[_ H]|[_ [_ H]]]; discriminate.
  - reflexivity.
Qed.

(* frame: the thread only changes its own pc; no acquire/release/enqueue event; acquired status kept *)
Lemma tinv_set_pc nl nt s tr t p q evs :
  TInv nl nt (s, tr) -> Inv nl nt (set_pc s t q) -> pcat s t = Some p ->
  acquired q = acquired p -> p <> PHeld -> q <> PHeld ->
  flat_map acq_of evs = [] -> flat_map enq_of evs = [] ->
  (forall h, fold_left scan1 evs (Some h) = Some h) ->
  TInv nl nt (set_pc s t q, tr ++ evs).
Proof.
  intros T I' Hp Ha Hph Hqh E1 E2 E3. unfold pcat in *.
  assert (E4 : flat_map handoff_of evs = []).
  { clear - E1. induction evs as [|e evs IH]; auto. simpl in *.
    destruct e; simpl in *; auto; try discriminate. }
  constructor; simpl.
  - exact I'.
  - unfold acquirers. rewrite flat_map_app, E1, app_nil_r. apply (t_nodup _ _ _ T).
  - intros i. unfold acquirers. rewrite flat_map_app, E1, app_nil_r.
    rewrite (t_acq _ _ _ T i). simpl. unfold pcat. simpl. nth_cases.
    + rewrite Hp. split; intros [x [H1 H2]]; inversion H1; subst; eexists; split; eauto; congruence.
    + reflexivity.
  - destruct (t_scan _ _ _ T) as [h [Hs Hh]]. simpl in *. exists h. split.
    + unfold scan in *. rewrite fold_left_app, Hs. apply E3.
    + intros i. rewrite <- Hh. unfold pcat. simpl. nth_cases; [|reflexivity].
      rewrite Hp. split; intros H; inversion H; congruence.
  - unfold enqueued, handoffs. rewrite !flat_map_app, E2, E4, !app_nil_r.
    apply (t_fifo _ _ _ T).
Qed.

Lemma NoDup_snoc {A} (l : list A) x : NoDup l -> ~ In x l -> NoDup (l ++ [x]).
Proof.
  intros N H. induction l as [|a l IH]; simpl.
  - constructor; auto.
  - inversion N; subst. constructor.
    + intros Hin. apply in_app_or in Hin. destruct Hin as [Hin|[Hin|[]]]; auto. subst. apply H. left; auto.
    + apply IH; auto. intros Hin. apply H. right; auto.
Qed.

(* an event that is neither acquire, release nor a successful enqueue *)
Definition neutral (e : ev) : Prop :=
  acq_of e = [] /\ enq_of e = [] /\ forall h, scan1 (Some h) e = Some h.

Lemma acq_nil_handoff e : acq_of e = [] -> handoff_of e = [].
Proof. destruct e; simpl; auto; discriminate. Qed.

(* inline acquisition: the word goes inactive -> nullptr and t's own thread enters the critical section *)
Lemma tinv_inline nl nt s tr t p e :
  TInv nl nt (s, tr) -> w s = None -> pcat s t = Some p -> acquired p = false -> neutral e ->
  let s' := {| w := Some []; pend := pend s; pcs := set_nth t PHeld (pcs s) |} in
  Inv nl nt s' -> TInv nl nt (s', tr ++ [e; EAcquire t false]).
Proof.
  intros T Ew Hp Hacq [N1 [N2 N3]] s' I'. unfold pcat in *.
  pose proof (t_inv _ _ _ T) as I. simpl in I.
  assert (Hnot : ~ In t (acquirers tr)).
  { intros Hin. apply (t_acq _ _ _ T) in Hin. simpl in Hin. destruct Hin as [x [H1 H2]].
    unfold pcat in H1. congruence. }
  constructor; simpl.
  - exact I'.
  - unfold acquirers. rewrite flat_map_app. simpl. rewrite N1. simpl. apply NoDup_snoc; auto.
    apply (t_nodup _ _ _ T).
  - intros i. unfold acquirers. rewrite flat_map_app. simpl. rewrite N1. simpl.
    rewrite in_app_iff. fold (acquirers tr). rewrite (t_acq _ _ _ T i). simpl. unfold pcat. simpl.
    nth_cases.
    + rewrite Hp. split; [intros _; eexists; split; eauto|]. intros _. right. left. reflexivity.
    + split; [intros [H|[H|[]]]; [auto|congruence]|auto].
  - destruct (t_scan _ _ _ T) as [h [Hs Hh]]. simpl in *.
    assert (h = None).
    { destruct h as [i|]; auto. exfalso. pose proof (proj2 (Hh i) eq_refl) as X.
      pose proof (no_holder_when_unlocked _ _ _ _ _ I Ew X). discriminate. }
    subst h. exists (Some t). split.
    + unfold scan in *. rewrite fold_left_app, Hs. simpl. rewrite N3. reflexivity.
    + intros i. unfold pcat. simpl. nth_cases.
      * rewrite Hp. split; auto.
      * split; [|congruence]. intros X. exfalso.
        pose proof (no_holder_when_unlocked _ _ _ _ _ I Ew X). discriminate.
  - unfold enqueued, handoffs. rewrite !flat_map_app. simpl. rewrite N2. simpl. rewrite !app_nil_r.
    pose proof (t_fifo _ _ _ T) as F. simpl in F. unfold enqueued, handoffs, stack in *.
    rewrite Ew in F. simpl in *. rewrite (acq_nil_handoff e N1), F, !app_nil_r. reflexivity.
Qed.

(* hand-over: t (in unlock) resumes the waiter j *)
Lemma tinv_handover nl nt s tr t p j r neww pre :
  TInv nl nt (s, tr) -> pcat s t = Some p -> is_holder p = true -> p <> PHeld ->
  pcat s j = Some PWait ->
  Forall neutral pre ->
  pend s ++ rev (stack s) = j :: r ++ rev (match neww with Some l => l | None => [] end) ->
  Inv nl nt (hand_over s t j r neww) ->
  TInv nl nt (hand_over s t j r neww, tr ++ pre ++ [EAcquire j true]).
Proof.
  intros T Hp Hh Hph Hj Hpre Hq I'. unfold pcat in *.
  pose proof (t_inv _ _ _ T) as I. simpl in I.
  assert (Hjt : t <> j) by (intros E; subst; rewrite Hp in Hj; inversion Hj; subst; discriminate).
  assert (P1 : flat_map acq_of pre = []).
  { clear - Hpre. induction Hpre as [|e pre [N1 _] _ IH]; simpl; auto. rewrite N1, IH. reflexivity. }
  assert (P2 : flat_map enq_of pre = []).
  { clear - Hpre. induction Hpre as [|e pre [_ [N2 _]] _ IH]; simpl; auto. rewrite N2, IH. reflexivity. }
  assert (P3 : forall h, fold_left scan1 pre (Some h) = Some h).
  { clear - Hpre. induction Hpre as [|e pre [_ [_ N3]] _ IH]; intros h; [reflexivity|]. cbn [fold_left]. rewrite N3. apply IH. }
  assert (P4 : flat_map handoff_of pre = []).
  { clear - P1. induction pre as [|e pre IH]; auto. simpl in *.
    destruct e; simpl in *; auto; try discriminate. }
  assert (Hnot : ~ In j (acquirers tr)).
  { intros Hin. apply (t_acq _ _ _ T) in Hin. simpl in Hin. destruct Hin as [x [H1 H2]].
    unfold pcat in H1. rewrite Hj in H1. inversion H1; subst. discriminate. }
  assert (Hnoheld : forall i, nth_error (pcs s) i <> Some PHeld).
  { intros i X. assert (t = i) by (eapply (holder_unique _ _ s t i); eauto). subst. congruence. }
  constructor; simpl.
  - exact I'.
  - unfold acquirers. rewrite !flat_map_app. simpl. rewrite P1. simpl. apply NoDup_snoc; auto.
    apply (t_nodup _ _ _ T).
  - intros i. unfold acquirers. rewrite !flat_map_app. simpl. rewrite P1. simpl.
    rewrite in_app_iff. fold (acquirers tr). rewrite (t_acq _ _ _ T i). simpl. unfold pcat. simpl.
    nth_cases.
    + exfalso; congruence.
    + rewrite Hj. split; [intros _; eexists; split; eauto|]. intros _. right. left. reflexivity.
    + rewrite Hp. split; [intros _; eexists; split; eauto|]. intros _. left. eexists; split; eauto.
      unfold acquired. rewrite Hh. reflexivity.
    + split; [intros [H|[H|[]]]; [auto|congruence]|auto].
  - destruct (t_scan _ _ _ T) as [h [Hs Hhh]]. simpl in *.
    assert (h = None).
    { destruct h as [i|]; auto. exfalso. apply (Hnoheld i). apply Hhh. reflexivity. }
    subst h. exists (Some j). split.
    + unfold scan in *. rewrite !fold_left_app, Hs, P3. reflexivity.
    + intros i. unfold pcat. simpl. nth_cases.
      * exfalso; congruence.
      * rewrite Hj. split; auto.
      * rewrite Hp. split; [discriminate|congruence].
      * split; [|congruence]. intros X. exfalso. eapply Hnoheld; eauto.
  - unfold enqueued, handoffs. rewrite !flat_map_app. simpl. rewrite P2, P4. simpl. rewrite !app_nil_r.
    pose proof (t_fifo _ _ _ T) as F. simpl in F. unfold enqueued, handoffs in *.
    rewrite F, Hq. unfold stack. simpl. rewrite <- !app_assoc. reflexivity.
Qed.

Ltac neutral_tac := repeat split; simpl; auto.

Lemma step_tinv nl nt c t s' evs :
  TInv nl nt c -> step t (fst c) = Some (s', evs) -> TInv nl nt (s', snd c ++ evs).
Proof.
  destruct c as [s tr]. simpl. intros T H.
  pose proof (t_inv _ _ _ T) as I. simpl in I.
  pose proof (step_inv _ _ _ _ _ _ I H) as I'.
  unfold step in H.
  destruct (nth_error (pcs s) t) as [p|] eqn:Ep; [|discriminate].
  destruct p.
  - (* PLoad *)
    inversion H; subst; clear H. eapply tinv_set_pc; eauto; try discriminate; reflexivity.
  - (* PCas *)
    destruct (wv_eqb (head_of (w s)) old) eqn:Eq.
    + apply wv_eqb_eq in Eq.
      destruct (w s) as [l|] eqn:Ew; inversion H; subst; clear H.
      * (* push *)
        assert (Hnew : match head_of (Some l) with WInact => WNull | _ => WPtr t end = WPtr t)
          by (destruct l; reflexivity).
        rewrite Hnew in *.
        constructor; simpl.
        -- exact I'.
        -- unfold acquirers. rewrite flat_map_app. simpl. rewrite app_nil_r. apply (t_nodup _ _ _ T).
        -- intros i. unfold acquirers. rewrite flat_map_app. simpl. rewrite app_nil_r.
           fold (acquirers tr). rewrite (t_acq _ _ _ T i). simpl. unfold pcat. simpl. nth_cases; [|reflexivity].
           rewrite Ep. split; intros [x [H1 H2]]; inversion H1; subst; discriminate.
        -- destruct (t_scan _ _ _ T) as [h [Hs Hh]]. simpl in *. exists h. split.
           ++ unfold scan in *. rewrite fold_left_app, Hs. reflexivity.
           ++ intros i. rewrite <- Hh. unfold pcat. simpl. nth_cases; [|reflexivity].
              rewrite Ep. split; intros H; inversion H.
        -- unfold enqueued, handoffs. rewrite !flat_map_app. simpl. rewrite !app_nil_r.
           pose proof (t_fifo _ _ _ T) as F. simpl in F. unfold enqueued, handoffs, stack in *.
           rewrite Ew in F. simpl. rewrite F. rewrite !app_assoc. reflexivity.
      * (* inline acquisition *)
        eapply (tinv_inline nl nt s tr t); eauto. neutral_tac.
    + inversion H; subst; clear H. eapply tinv_set_pc; eauto; try discriminate; try reflexivity.
      simpl. destruct old; reflexivity.
  - (* PTry *)
    destruct (w s) as [l|] eqn:Ew; inversion H; subst; clear H.
    + eapply tinv_set_pc; eauto; try discriminate; reflexivity.
    + eapply (tinv_inline nl nt s tr t); eauto. neutral_tac.
  - discriminate.
  - (* PHeld: release *)
    inversion H; subst; clear H.
    constructor; simpl.
    + exact I'.
    + unfold acquirers. rewrite flat_map_app. simpl. rewrite app_nil_r. apply (t_nodup _ _ _ T).
    + intros i. unfold acquirers. rewrite flat_map_app. simpl. rewrite app_nil_r.
      fold (acquirers tr). rewrite (t_acq _ _ _ T i). simpl. unfold pcat. simpl. nth_cases; [|reflexivity].
      rewrite Ep. split; intros [x [H1 H2]]; inversion H1; subst; eexists; split; eauto.
    + destruct (t_scan _ _ _ T) as [h [Hs Hh]]. simpl in *.
      assert (h = Some t) by (apply Hh; exact Ep). subst h.
      exists None. split.
      * unfold scan in *. rewrite fold_left_app, Hs. simpl. rewrite Nat.eqb_refl. reflexivity.
      * intros i. unfold pcat. simpl. nth_cases.
        -- rewrite Ep. split; discriminate.
        -- split; [|discriminate]. intros X. exfalso.
           assert (t = i) by (eapply (holder_unique _ _ s t i); eauto). congruence.
    + unfold enqueued, handoffs. rewrite !flat_map_app. simpl. rewrite !app_nil_r.
      apply (t_fifo _ _ _ T).
  - (* PUnl *)
    destruct (pend s) as [|j r] eqn:Epd.
    + inversion H; subst; clear H. eapply tinv_set_pc; eauto; try discriminate; try reflexivity.
      * destruct (head_of (w s)); reflexivity.
      * destruct (head_of (w s)); discriminate.
    + inversion H; subst; clear H.
      change [EAcquire j true] with ([] ++ [EAcquire j true]).
      eapply tinv_handover; eauto; try discriminate.
      * apply (i_wait _ _ _ I). rewrite Epd. apply in_or_app. right. left. reflexivity.
      * rewrite Epd. unfold stack. simpl. reflexivity.
  - (* PUnlCas *)
    destruct (w s) as [[|a l]|] eqn:Ew; inversion H; subst; clear H.
    + (* released *)
      assert (Hpd : pend s = []) by (eapply (i_pend _ _ _ I); eauto).
      constructor; simpl.
      * exact I'.
      * unfold acquirers. rewrite flat_map_app. simpl. rewrite app_nil_r. apply (t_nodup _ _ _ T).
      * intros i. unfold acquirers. rewrite flat_map_app. simpl. rewrite app_nil_r.
        fold (acquirers tr). rewrite (t_acq _ _ _ T i). simpl. unfold pcat. simpl. nth_cases; [|reflexivity].
        rewrite Ep. split; intros [x [H1 H2]]; inversion H1; subst; eexists; split; eauto.
      * destruct (t_scan _ _ _ T) as [h [Hs Hh]]. simpl in *. exists h. split.
        -- unfold scan in *. rewrite fold_left_app, Hs. reflexivity.
        -- intros i. rewrite <- Hh. unfold pcat. simpl. nth_cases; [|reflexivity].
           rewrite Ep. split; intros H; inversion H.
      * unfold enqueued, handoffs. rewrite !flat_map_app. simpl. rewrite !app_nil_r.
        pose proof (t_fifo _ _ _ T) as F. simpl in F. unfold stack in *. rewrite Ew in F. simpl in *.
        unfold enqueued, handoffs in F. rewrite F, !app_nil_r. reflexivity.
    + eapply tinv_set_pc; eauto; try discriminate; reflexivity.
    + eapply tinv_set_pc; eauto; try discriminate; reflexivity.
  - (* PUnlX *)
    assert (Hpd : pend s = []) by (eapply (i_pend _ _ _ I); eauto).
    destruct (w s) as [[|a l]|] eqn:Ew; try discriminate.
    destruct (rev (a :: l)) as [|j r] eqn:Er; [discriminate|].
    inversion H; subst; clear H.
    change [EXchg (WPtr a); EAcquire j true] with ([EXchg (WPtr a)] ++ [EAcquire j true]).
    eapply tinv_handover; eauto; try discriminate.
    + apply (i_wait _ _ _ I). unfold stack. rewrite Ew, Hpd, app_nil_r. apply in_rev. rewrite Er. left; auto.
    + constructor; [neutral_tac|constructor].
    + rewrite Hpd. unfold stack. rewrite Ew. cbn [app]. rewrite Er. simpl. rewrite app_nil_r. reflexivity.
  - discriminate.
  - discriminate.
Qed.

Lemma tinv_reachable nl nt sched : TInv nl nt (run step sched (init nl nt, [])).
Proof.
  apply (run_invariant _ _ _ step (TInv nl nt)).
  - intros c t s' ev T H. eapply step_tinv; eauto.
  - apply init_tinv.
Qed.

(* ------------------------------------------------------------------ theorems *)
Lemma cnt_zero {A} (f : A -> bool) l :
  (forall n x, nth_error l n = Some x -> f x = false) -> cnt f l = 0.
Proof.
  unfold cnt. induction l as [|a l IH]; intros H; simpl; auto.
  rewrite (H 0 a eq_refl). apply IH. intros n x Hn. apply (H (S n) x Hn).
Qed.

Lemma cnt_pos_ex {A} (f : A -> bool) l :
  1 <= cnt f l -> exists n x, nth_error l n = Some x /\ f x = true.
Proof.
  unfold cnt. induction l as [|a l IH]; simpl; intros H; [lia|].
  destruct (f a) eqn:E.
  - exists 0, a. auto.
  - destruct (IH H) as [n [x [H1 H2]]]. exists (S n), x. auto.
Qed.

Lemma forallb_false_ex {A} (f : A -> bool) l :
  forallb f l = false -> exists n x, nth_error l n = Some x /\ f x = false.
Proof.
  induction l as [|a l IH]; simpl; intros H; [discriminate|].
  destruct (f a) eqn:E.
  - destruct (IH H) as [n [x [H1 H2]]]. exists (S n), x. auto.
  - exists 0, a. auto.
Qed.

Lemma forallb_nth {A} (f : A -> bool) l n x :
  forallb f l = true -> nth_error l n = Some x -> f x = true.
Proof. intros H Hn. rewrite forallb_forall in H. apply H. eapply nth_error_In; eauto. Qed.

(* mutual exclusion on states: at most one thread is between its acquisition and the end of its
   unlock(); the word is the inactive sentinel exactly when there is none *)
Theorem mutex_state nl nt sched :
  let s := fst (run step sched (init nl nt, [])) in
  holders s <= 1 /\ (holders s = 0 <-> w s = None).
Proof.
  intros s. pose proof (inv_reachable nl nt sched) as I. fold s in I.
  rewrite (i_hold _ _ _ I). destruct (w s); split; try lia; split; intros; try discriminate; auto; lia.
Qed.

(* mutual exclusion on traces: acquire and release events alternate, each release by the holder *)
Theorem mutex_trace nl nt sched :
  let tr := snd (run step sched (init nl nt, [])) in
  exists h, scan tr = Some h.
Proof.
  intros tr. destruct (t_scan _ _ _ (tinv_reachable nl nt sched)) as [h [H _]]. exists h. exact H.
Qed.

(* no lost waiter, invariant part: the suspended lockers are exactly the members of the stack and
   of pendingQueue_; when the mutex is unlocked nobody is suspended and pendingQueue_ is empty *)
Theorem no_lost_waiter nl nt sched :
  let s := fst (run step sched (init nl nt, [])) in
  (forall t, nth_error (pcs s) t = Some PWait <-> In t (stack s ++ pend s)) /\
  NoDup (stack s ++ pend s) /\
  (w s = None -> waiting s = 0 /\ pend s = []).
Proof.
  intros s. pose proof (inv_reachable nl nt sched) as I. fold s in I.
  split; [apply (i_wait _ _ _ I)|]. split; [apply (i_nodup _ _ _ I)|].
  intros E. pose proof (i_unl _ _ _ I E) as Hp. split; auto.
  apply cnt_zero. intros n x Hn. destruct x; auto. exfalso.
  apply (i_wait _ _ _ I) in Hn. unfold stack in Hn. rewrite E, Hp in Hn. destruct Hn.
Qed.

(* each locker / try_lock thread acquires at most once *)
Theorem each_once nl nt sched :
  let tr := snd (run step sched (init nl nt, [])) in
  NoDup (acquirers tr).
Proof. apply (t_nodup _ _ _ (tinv_reachable nl nt sched)). Qed.

(* at quiescence every locker has been served, exactly once; a try_lock thread acquired iff it
   did not report failure *)
Theorem served_at_quiescence nl nt sched :
  let c := run step sched (init nl nt, []) in
  quiescent (fst c) = true ->
  w (fst c) = None /\ pend (fst c) = [] /\
  forall i, i < nl -> count_occ Nat.eq_dec (acquirers (snd c)) i = 1.
Proof.
  intros c Q. pose proof (tinv_reachable nl nt sched) as T. fold c in T.
  pose proof (t_inv _ _ _ T) as I. unfold quiescent in Q.
  assert (Hw : w (fst c) = None).
  { destruct (w (fst c)) eqn:Ew; auto. exfalso.
    pose proof (i_hold _ _ _ I) as Hh. rewrite Ew in Hh.
    assert (X : 1 <= cnt is_holder (pcs (fst c))) by (rewrite <- holders_cnt; lia).
    destruct (cnt_pos_ex _ _ X) as [n [x [H1 H2]]].
    pose proof (forallb_nth _ _ _ _ Q H1). destruct x; discriminate. }
  split; auto. split; [apply (i_unl _ _ _ I Hw)|].
  intros i Hi.
  assert (Hin : In i (acquirers (snd c))).
  { apply (t_acq _ _ _ T). unfold pcat.
    destruct (nth_error (pcs (fst c)) i) as [p|] eqn:Ep.
    - exists p. split; auto. pose proof (forallb_nth _ _ _ _ Q Ep) as F.
      destruct (i_typ _ _ _ I i Hi) as [_ Hnf]. unfold pcat in Hnf.
      destruct p; try discriminate; auto; congruence.
    - exfalso. apply nth_error_None in Ep. rewrite (i_len _ _ _ I) in Ep. lia. }
  pose proof (t_nodup _ _ _ T) as N.
  rewrite (NoDup_count_occ Nat.eq_dec) in N. specialize (N i).
  apply (count_occ_In Nat.eq_dec) in Hin. lia.
Qed.

(* FIFO: waiters are resumed in exactly the order of their successful enqueue CASes; those not
   yet resumed are pendingQueue_ followed by the reversed stack.  (Acquisitions through the
   inactive -> nullptr CAS of async_lock or try_lock are not enqueued and can overtake.) *)
Theorem fifo nl nt sched :
  let c := run step sched (init nl nt, []) in
  enqueued (snd c) = handoffs (snd c) ++ pend (fst c) ++ rev (stack (fst c)).
Proof. apply (t_fifo _ _ _ (tinv_reachable nl nt sched)). Qed.

(* no deadlock: in every reachable state that is not quiescent some thread can move; in
   particular a suspended locker always has a holder that can run its unlock() *)
Lemma holder_can_step nl nt s t p :
  Inv nl nt s -> pcat s t = Some p -> is_holder p = true -> step t s <> None.
Proof.
  intros I Hp Hh. unfold pcat in Hp. unfold step. rewrite Hp.
  destruct p; try discriminate.
  - destruct (pend s); discriminate.
  - destruct (w s) as [[|? ?]|]; discriminate.
  - pose proof (i_x _ _ _ I t Hp) as X. unfold stack in X.
    destruct (w s) as [[|a l]|]; try congruence.
    destruct (rev (a :: l)) eqn:Er; [|discriminate].
    exfalso. apply (f_equal (@length nat)) in Er. rewrite rev_length in Er. simpl in Er. lia.
Qed.

Lemma progress_inv nl nt s :
  Inv nl nt s -> quiescent s = false -> exists t, step t s <> None.
Proof.
  intros I Q.
  unfold quiescent in Q. destruct (forallb_false_ex _ _ Q) as [t [p [Hp Hf]]].
  destruct (is_holder p) eqn:Hh.
  - exists t. eapply holder_can_step; eauto.
  - destruct p; try discriminate.
    + exists t. unfold step. rewrite Hp. discriminate.
    + exists t. unfold step. rewrite Hp. destruct (wv_eqb _ _); [destruct (w s)|]; discriminate.
    + exists t. unfold step. rewrite Hp. destruct (w s); discriminate.
    + (* a suspended locker: the mutex is locked, its holder can move *)
      assert (Hw : w s <> None).
      { intros E. apply (i_wait _ _ _ I) in Hp. unfold stack in Hp.
        rewrite E, (i_unl _ _ _ I E) in Hp. destruct Hp. }
      pose proof (i_hold _ _ _ I) as Hc.
      assert (X : 1 <= cnt is_holder (pcs s)) by (rewrite <- holders_cnt; destruct (w s); [lia|congruence]).
      destruct (cnt_pos_ex _ _ X) as [h [x [H1 H2]]].
      exists h. eapply holder_can_step; eauto.
Qed.

Theorem progress nl nt sched :
  let s := fst (run step sched (init nl nt, [])) in
  quiescent s = false -> exists t, step t s <> None.
Proof. intros s. apply (progress_inv nl nt). apply inv_reachable. Qed.

(* ------------------------------------------------------------------ termination *)
(* every step strictly decreases a measure: no livelock in the CAS retry loops (a failed CAS means
   somebody else's CAS/exchange succeeded, and each thread performs a bounded number of those) *)
Definition rank (p : pc) : nat :=
  match p with
  | PLoad => 7 | PCas _ => 6 | PTry => 5 | PWait => 5 | PHeld => 4 | PUnl => 3
  | PUnlCas => 2 | PUnlX => 1 | PDone => 0 | PFailed => 0
  end.
(* a locker whose remembered value of head_ is out of date: its next CAS fails *)
Definition stale (x : option (list nat)) (p : pc) : bool :=
  match p with PCas old => negb (wv_eqb (head_of x) old) | _ => false end.
Definition ranks (l : list pc) : nat := list_sum (map rank l).
Definition measure (s : st) : nat :=
  (length (pcs s) + 1) * ranks (pcs s) + cnt (stale (w s)) (pcs s).

Lemma ranks_set_nth l n x y :
  nth_error l n = Some y -> ranks (set_nth n x l) + rank y = ranks l + rank x.
Proof.
  unfold ranks. revert n; induction l as [|a l IH]; intros n H.
  - destruct n; discriminate.
  - destruct n; simpl in *.
    + inversion H; subst. lia.
    + specialize (IH _ H). lia.
Qed.

Lemma cnt_le_length {A} (f : A -> bool) l : cnt f l <= length l.
Proof. unfold cnt. induction l as [|a l IH]; simpl; auto. destruct (f a); simpl; lia. Qed.

Lemma wv_eqb_refl a : wv_eqb a a = true.
Proof. destruct a; simpl; auto. apply Nat.eqb_refl. Qed.

Lemma measure_drop s s' :
  length (pcs s') = length (pcs s) -> ranks (pcs s') + 1 <= ranks (pcs s) -> measure s' < measure s.
Proof.
  intros HL HR. unfold measure. rewrite HL.
  pose proof (cnt_le_length (stale (w s')) (pcs s')) as C. rewrite HL in C.
  nia.
Qed.

Lemma step_decreases nl nt s t s' evs :
  Inv nl nt s -> step t s = Some (s', evs) -> measure s' < measure s.
Proof.
  intros I H. unfold step in H.
  destruct (nth_error (pcs s) t) as [p|] eqn:Ep; [|discriminate].
  destruct p.
  - inversion H; subst; clear H. apply measure_drop; simpl.
    + apply length_set_nth.
    + pose proof (ranks_set_nth (pcs s) t (PCas (head_of (w s))) _ Ep). simpl in *. lia.
  - destruct (wv_eqb (head_of (w s)) old) eqn:Eq.
    + destruct (w s) as [l|] eqn:Ew; inversion H; subst; clear H; apply measure_drop; simpl;
        try apply length_set_nth.
      * pose proof (ranks_set_nth (pcs s) t PWait _ Ep). simpl in *. lia.
      * pose proof (ranks_set_nth (pcs s) t PHeld _ Ep). simpl in *. lia.
    + inversion H; subst; clear H. unfold measure. simpl. rewrite length_set_nth.
      pose proof (ranks_set_nth (pcs s) t (PCas (head_of (w s))) _ Ep) as R. simpl in R.
      pose proof (cnt_set_nth (stale (w s)) (pcs s) t (PCas (head_of (w s))) _ Ep) as C.
      simpl in C. rewrite Eq, wv_eqb_refl in C. simpl in C.
      assert (ranks (set_nth t (PCas (head_of (w s))) (pcs s)) = ranks (pcs s)) by lia.
      nia.
  - destruct (w s) as [l|] eqn:Ew; inversion H; subst; clear H; apply measure_drop; simpl;
      try apply length_set_nth.
    + pose proof (ranks_set_nth (pcs s) t PFailed _ Ep). simpl in *. lia.
    + pose proof (ranks_set_nth (pcs s) t PHeld _ Ep). simpl in *. lia.
  - discriminate.
  - inversion H; subst; clear H. apply measure_drop; simpl.
    + apply length_set_nth.
    + pose proof (ranks_set_nth (pcs s) t PUnl _ Ep). simpl in *. lia.
  - destruct (pend s) as [|j r] eqn:Epd; inversion H; subst; clear H.
    + apply measure_drop; simpl; [apply length_set_nth|].
      pose proof (ranks_set_nth (pcs s) t (match head_of (w s) with WNull => PUnlCas | _ => PUnlX end) _ Ep) as R.
      destruct (head_of (w s)); simpl in *; lia.
    + assert (Hj : pcat s j = Some PWait).
      { apply (i_wait _ _ _ I). rewrite Epd. apply in_or_app. right. left. reflexivity. }
      assert (Hjt : t <> j) by (intros E; subst; unfold pcat in Hj; congruence).
      apply measure_drop; simpl; [rewrite !length_set_nth; reflexivity|].
      assert (E1 : nth_error (set_nth t PDone (pcs s)) j = Some PWait) by (rewrite nth_set_nth_neq; auto).
      pose proof (ranks_set_nth _ j PHeld _ E1). pose proof (ranks_set_nth (pcs s) t PDone _ Ep).
      simpl in *. lia.
  - destruct (w s) as [[|a l]|] eqn:Ew; inversion H; subst; clear H; apply measure_drop; simpl;
      try apply length_set_nth.
    + pose proof (ranks_set_nth (pcs s) t PDone _ Ep). simpl in *. lia.
    + pose proof (ranks_set_nth (pcs s) t PUnlX _ Ep). simpl in *. lia.
    + pose proof (ranks_set_nth (pcs s) t PUnlX _ Ep). simpl in *. lia.
  - assert (Hpd : pend s = []) by (eapply (i_pend _ _ _ I); eauto).
    destruct (w s) as [[|a l]|] eqn:Ew; try discriminate.
    destruct (rev (a :: l)) as [|j r] eqn:Er; [discriminate|].
    inversion H; subst; clear H.
    assert (Hj : pcat s j = Some PWait).
    { apply (i_wait _ _ _ I). unfold stack. rewrite Ew, Hpd, app_nil_r. apply in_rev. rewrite Er. left; auto. }
    assert (Hjt : t <> j) by (intros E; subst; unfold pcat in Hj; congruence).
    apply measure_drop; simpl; [rewrite !length_set_nth; reflexivity|].
    assert (E1 : nth_error (set_nth t PDone (pcs s)) j = Some PWait) by (rewrite nth_set_nth_neq; auto).
    pose proof (ranks_set_nth _ j PHeld _ E1). pose proof (ranks_set_nth (pcs s) t PDone _ Ep).
    simpl in *. lia.
  - discriminate.
  - discriminate.
Qed.

(* number of positions of the schedule at which the chosen thread actually moved *)
Fixpoint effective (sched : list nat) (s : st) : nat :=
  match sched with
  | [] => 0
  | t :: r => match step t s with
              | Some (s', _) => S (effective r s')
              | None => effective r s
              end
  end.

Lemma effective_bound nl nt sched : forall s tr,
  Inv nl nt s -> effective sched s + measure (fst (run step sched (s, tr))) <= measure s.
Proof.
  induction sched as [|t r IH]; intros s tr I; simpl.
  - lia.
  - unfold step_conf. simpl. destruct (step t s) as [[s' evs]|] eqn:E.
    + pose proof (step_decreases _ _ _ _ _ _ I E).
      pose proof (IH s' (tr ++ evs) (step_inv _ _ _ _ _ _ I E)). lia.
    + apply IH; auto.
Qed.

Lemma measure_init nl nt : measure (init nl nt) = (nl + nt + 1) * (7 * nl + 5 * nt).
Proof.
  unfold measure. simpl. rewrite app_length, !repeat_length.
  assert (R : ranks (repeat PLoad nl ++ repeat PTry nt) = 7 * nl + 5 * nt).
  { unfold ranks. rewrite map_app, list_sum_app.
    assert (X : forall p n, list_sum (map rank (repeat p n)) = rank p * n).
    { intros p n. induction n; simpl; lia. }
    rewrite !X. simpl. lia. }
  rewrite R.
  assert (C : cnt (stale None) (repeat PLoad nl ++ repeat PTry nt) = 0).
  { rewrite cnt_app, !cnt_repeat. simpl. lia. }
  rewrite C. lia.
Qed.

(* every schedule makes at most (nl+nt+1)(7 nl + 5 nt) moves: together with [progress] every
   maximal run ends in a quiescent state, where every locker has been served *)
Theorem bounded_steps nl nt sched :
  effective sched (init nl nt) <= (nl + nt + 1) * (7 * nl + 5 * nt).
Proof.
  pose proof (effective_bound nl nt sched (init nl nt) [] (init_inv nl nt)).
  rewrite measure_init in H. lia.
Qed.

Lemma can_finish_from nl nt : forall k s tr,
  Inv nl nt s -> measure s <= k ->
  exists ext, quiescent (fst (run step ext (s, tr))) = true.
Proof.
  induction k as [|k IH]; intros s tr I Hm.
  - destruct (quiescent s) eqn:Q; [exists []; exact Q|].
    destruct (progress_inv _ _ _ I Q) as [t Ht].
    destruct (step t s) as [[s' evs]|] eqn:E; [|congruence].
    pose proof (step_decreases _ _ _ _ _ _ I E). lia.
  - destruct (quiescent s) eqn:Q; [exists []; exact Q|].
    destruct (progress_inv _ _ _ I Q) as [t Ht].
    destruct (step t s) as [[s' evs]|] eqn:E; [|congruence].
    pose proof (step_decreases _ _ _ _ _ _ I E).
    destruct (IH s' (tr ++ evs) (step_inv _ _ _ _ _ _ I E)) as [ext Hext]; [lia|].
    exists (t :: ext). simpl. unfold step_conf. simpl. rewrite E. exact Hext.
Qed.

(* from every reachable state the run can be completed to a quiescent state *)
Theorem can_finish nl nt sched :
  exists ext, quiescent (fst (run step (sched ++ ext) (init nl nt, []))) = true.
Proof.
  pose proof (inv_reachable nl nt sched) as I.
  destruct (run step sched (init nl nt, [])) as [s tr] eqn:E. simpl in I.
  destruct (can_finish_from nl nt (measure s) s tr I (le_n _)) as [ext H].
  exists ext. rewrite run_app, E. exact H.
Qed.
