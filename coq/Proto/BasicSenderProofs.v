(* Proofs about the E1 model BasicSender (Proto/BasicSenderDefs.v) by reflection on the complete
   set of reachable states (Proto/C19Reach.v) for each of the 60 parameter values: closure under
   the five threads' steps and the properties of every element are re-checked by the kernel and
   lifted to every state of every run of an arbitrary schedule by [check_with_sound]. *)
From Coq Require Import List Bool Arith Lia PArith NArith FMapPositive.
From V Require Import Base.Sched Proto.C19Reach Proto.BasicSenderDefs.
Import ListNotations.
Import BasicSender.

Definition outcome_eq_dec : forall a b : outcome, {a = b} + {a <> b}. Proof. decide equality. Defined.
Definition phase_eq_dec : forall a b : phase, {a = b} + {a <> b}. Proof. decide equality. Defined.
Definition cbst_eq_dec : forall a b : cbst, {a = b} + {a <> b}. Proof. decide equality. Defined.
Definition slotst_eq_dec : forall a b : slotst, {a = b} + {a <> b}. Proof. decide equality. Defined.
Definition tail_eq_dec : forall a b : tail, {a = b} + {a <> b}. Proof. decide equality. Defined.
Definition r0site_eq_dec : forall a b : r0site, {a = b} + {a <> b}. Proof. decide equality. Defined.
Definition pcn_eq_dec : forall a b : pcn, {a = b} + {a <> b}. Proof. decide equality. Defined.
Definition pc0_eq_dec : forall a b : pc0, {a = b} + {a <> b}. Proof. decide equality; try apply tail_eq_dec; apply r0site_eq_dec. Defined.
Definition pcc_eq_dec : forall a b : pcc, {a = b} + {a <> b}. Proof. decide equality; apply tail_eq_dec. Defined.
Definition pc3_eq_dec : forall a b : pc3, {a = b} + {a <> b}. Proof. decide equality; apply tail_eq_dec. Defined.
Definition st_eq_dec : forall a b : st, {a = b} + {a <> b}.
Proof.
  decide equality; try apply Bool.bool_dec; try apply Nat.eq_dec; try apply phase_eq_dec;
    try apply cbst_eq_dec; try apply slotst_eq_dec; try apply pc0_eq_dec; try apply pcc_eq_dec;
    try apply pc3_eq_dec; try apply pcn_eq_dec.
  - apply (list_eq_dec outcome_eq_dec).
  - apply (list_eq_dec outcome_eq_dec).
  - decide equality; apply outcome_eq_dec.
  - decide equality; apply Nat.eq_dec.
Defined.
Local Open Scope N_scope.
Definition nb (b : bool) : N := if b then 1 else 0.
Definition c_tail (t : tail) : N := match t with TDereg => 0 | TDeregWait => 1 | TRoot => 2 end.
Definition c_pc0 (x : pc0) : N := match x with B0Reg => 0 | B0IAcq => 1 | B0IRel => 2 | B0Acq => 3 | B0Body => 4 | B0Arm => 5 | B0NAcq => 6 | B0NBody => 7 | B0NRel => 8 | B0Rel => 9 | B0Fin => 10 | B0Tail t => 11 + c_tail t | B0Rq R0Start => 14 | B0Rq R0Inl => 15 end.
Definition c_pcc (x : pcc) : N := match x with CCall => 0 | CAcq => 1 | CBody => 2 | CRelNo => 3 | CRel => 4 | CRet => 5 | CFin => 6 | CTail t => 7 + c_tail t | CRq => 10 end.
Definition c_pc3 (x : pc3) : N := match x with S3Set => 0 | S3Acq => 1 | S3Body => 2 | S3Slot => 3 | S3RelNo => 4 | S3Rel => 5 | S3CbRet => 6 | S3Fin => 7 | S3Tail t => 8 + c_tail t | S3Re => 11 end.
Definition c_pcn (x : pcn) : N := match x with NIdle => 0 | NSet => 1 | NAcq => 2 | NBody => 3 | NRe => 4 | NSlot => 5 | NRelNo => 6 | NRel => 7 | NCbRet => 8 end.
Definition c_cb (x : cbst) : N := match x with CbNone => 0 | CbReg => 1 | CbInline => 2 | CbRun => 3 | CbRunRm => 4 | CbDone => 5 | CbGone => 6 end.
Definition c_ph (x : phase) : N := match x with PStarting => 0 | PStarted => 1 | PStoppedEarly => 2 | PCompleted => 3 end.
Definition c_oo (x : option outcome) : N := match x with None => 0 | Some OVal => 1 | Some ODone => 2 end.
Fixpoint c_outs (l : list outcome) : N := match l with [] => 0 | OVal :: r => 1 + 3 * c_outs r | ODone :: r => 2 + 3 * c_outs r end.
Definition code (s : st) : positive :=
  let a := match mo s with None => 0 | Some t => 1 + N.of_nat t end in
  let a := a * 4 + N.of_nat (md s) in
  let a := a * 4 + c_ph (ph s) in
  let a := a * 2 + nb (own s) in
  let a := a * 4 + N.of_nat (refs s) in
  let a := a * 4 + c_oo (res s) in
  let a := a * 2 + nb (src s) in
  let a := a * 8 + c_cb (cb s) in
  let a := a * 4 + N.of_nat (notifier s) in
  let a := a * 4 + N.of_nat (slot_val (slot s)) in
  let a := a * 2 + nb (armed s) in
  let a := a * 16 + c_pc0 (p0 s) in
  let a := a * 16 + c_pcc (p1 s) in
  let a := a * 16 + c_pcc (p2 s) in
  let a := a * 16 + c_pc3 (p3 s) in
  let a := a * 16 + c_pcn (pn s) in
  let a := a * 2 + nb (h1 s) in
  let a := a * 2 + nb (h2 s) in
  let a := a * 2 + nb (destroyed s) in
  let a := a * 2 + nb (freed s) in
  let a := a * 16 + c_outs (completions s) in
  let a := a * 128 + c_outs (calls s) in
  let a := a * 4 + N.of_nat (nstart s) in
  let a := a * 4 + N.of_nat (ncallback s) in
  let a := a * 4 + N.of_nat (nstop s) in
  let a := a * 4 + N.of_nat (badstop s) in
  let a := a * 16 + N.of_nat (late s) in
  N.succ_pos a.
Local Close Scope N_scope.

Lemma step_bound p t s : 5 <= t -> step p t s = None.
Proof. destruct t as [|[|[|[|[|t]]]]]; try lia. reflexivity. Qed.

Definition fin0 (x : pc0) : bool := match x with B0Fin => true | _ => false end.
Definition finc (x : pcc) : bool := match x with CFin => true | _ => false end.
Definition fin3 (x : pc3) : bool := match x with S3Fin => true | _ => false end.
Definition cb_torn_down (c : cbst) : bool := match c with CbReg | CbRun => false | _ => true end.

(* a safe callback can be in flight while another thread completes the operation: the first
   callback is safe (the stop callback may complete meanwhile), or there is a second safe callback
   and the operation is not completed by the start event itself *)
Definition racy (p : params) : bool :=
  match first p with
  | FSafe => true
  | FNone => second p
  | FSync | FInl | FUnsafe => false
  end.

Definition final_ok (p : params) (s : st) : bool :=
  Nat.eqb (length (completions s)) 1 && destroyed s && fin0 (p0 s) && fin3 (p3 s) &&
  (finc (p1 s) || negb (exists_cb p 1) || negb (armed s)) &&
  (finc (p2 s) || negb (exists_cb p 2) || negb (armed s)) &&
  Nat.eqb (md s) 0 && Nat.eqb (refs s) 0.

Definition P_common (p : params) (s : st) : bool :=
  Nat.leb (length (completions s)) 1 &&                          (* at most one completion *)
  Nat.leb (nstart s) 1 && Nat.leb (ncallback s) 1 && Nat.leb (nstop s) 1 &&   (* each body event at most once *)
  (Nat.eqb (nstop s) 0 || Nat.eqb (nstart s) 1) &&               (* the stop event only after the start event *)
  (negb (quiescent p s) || final_ok p s) &&                      (* exactly one completion at quiescence, no deadlock *)
  (negb (freed s) || (cb_torn_down (cb s) && finished (ph s) && negb (own s))) &&
                                                                 (* stop callback gone and the cell released at completion *)
  (match completions s with
   | [o] => match res s with Some o' => if outcome_eq_dec o o' then true else false | None => false end
   | _ => true end) &&                                           (* the completion is the deferred result *)
  (match res s with Some ODone => src s | _ => true end) &&      (* done only after a stop request *)
  Nat.leb (md s) 3 &&
  Nat.eqb (badstop s) 0 &&                                       (* the stop event only for a started, unfinished operation *)
  (match first_call s with
   | Some o => match res s with Some o' => if outcome_eq_dec o o' then true else false | None => false end
   | None => match res s with
             | None => true
             | Some ODone => match ph s with PStoppedEarly => true | _ => false end
             | Some OVal => false
             end
   end).                                                         (* the result is the first signal the body chose *)

Definition P_all (p : params) (s : st) : bool :=
  P_common p s && (if racy p then true else Nat.eqb (late s) 0).

Definition all_params : list params :=
  flat_map (fun f => flat_map (fun b => flat_map (fun r =>
     [ {| first := f; second := false; breq := b; restop := r |};
       {| first := f; second := true; breq := b; restop := r |} ]) [false; true])
     [BNo; BValStop; BStopVal])
           [FSync; FInl; FSafe; FUnsafe; FNone].

Definition the_reach (p : params) := reach st ev code (step p) 5 4000 (init p).

Lemma check_all :
  forallb (fun p => check_with st ev st_eq_dec code (step p) 5 (P_all p) (init p) (the_reach p))
          all_params = true.
Proof. vm_compute. reflexivity. Qed.

Lemma params_in p : In p all_params.
Proof. destruct p as [[] [] [] []]; cbn; tauto. Qed.

Theorem P_all_reachable p sched : P_all p (fst (run (step p) sched (init p, []))) = true.
Proof.
  pose proof check_all as H. rewrite forallb_forall in H.
  specialize (H p (params_in p)). cbv beta in H.
  exact (check_with_sound st ev st_eq_dec code (step p) 5 (step_bound p) (P_all p) (init p)
           (the_reach p) H sched).
Qed.

Lemma P_common_spec p s : P_common p s = true ->
  length (completions s) <= 1 /\
  (nstart s <= 1 /\ ncallback s <= 1 /\ nstop s <= 1) /\
  (nstop s = 0 \/ nstart s = 1) /\
  (quiescent p s = true -> final_ok p s = true) /\
  (freed s = true -> cb_torn_down (cb s) = true /\ finished (ph s) = true /\ own s = false) /\
  (forall o, completions s = [o] -> res s = Some o) /\
  (res s = Some ODone -> src s = true) /\
  badstop s = 0 /\
  (forall o, first_call s = Some o -> res s = Some o).
Proof.
  unfold P_common. intros H.
  apply andb_true_iff in H as [H H12]. apply andb_true_iff in H as [H H11].
  apply andb_true_iff in H as [H H10]. apply andb_true_iff in H as [H H9].
  apply andb_true_iff in H as [H H8]. apply andb_true_iff in H as [H H7].
  apply andb_true_iff in H as [H H6]. apply andb_true_iff in H as [H H5].
  apply andb_true_iff in H as [H H4]. apply andb_true_iff in H as [H H3].
  apply andb_true_iff in H as [H1 H2].
  apply Nat.leb_le in H1, H2, H3, H4.
  repeat split; try assumption.
  - apply orb_true_iff in H5 as [H5|H5]; apply Nat.eqb_eq in H5; auto.
  - intros Hq. rewrite Hq in H6. exact H6.
  - rewrite H in H7. cbn in H7. apply andb_true_iff in H7 as [H7 _].
    apply andb_true_iff in H7 as [H7 _]. exact H7.
  - rewrite H in H7. cbn in H7. apply andb_true_iff in H7 as [H7 _].
    apply andb_true_iff in H7 as [_ H7]. exact H7.
  - rewrite H in H7. cbn in H7. apply andb_true_iff in H7 as [_ H7].
    apply negb_true_iff in H7. exact H7.
  - intros o Ho. rewrite Ho in H8. destruct (res s) as [o'|]; [|discriminate H8].
    destruct (outcome_eq_dec o o') as [->|]; [reflexivity|discriminate H8].
  - intros Hr. rewrite Hr in H9. exact H9.
  - apply Nat.eqb_eq. exact H11.
  - intros o Ho. rewrite Ho in H12. destruct (res s) as [o'|]; [|discriminate H12].
    destruct (outcome_eq_dec o o') as [->|]; [reflexivity|discriminate H12].
Qed.

Lemma final_ok_spec p s : final_ok p s = true ->
  length (completions s) = 1 /\ destroyed s = true /\ p0 s = B0Fin /\ p3 s = S3Fin /\
  mo s = mo s /\ md s = 0 /\ refs s = 0.
Proof.
  unfold final_ok. intros H.
  apply andb_true_iff in H as [H H8]. apply andb_true_iff in H as [H H7].
  apply andb_true_iff in H as [H _]. apply andb_true_iff in H as [H _].
  apply andb_true_iff in H as [H H4]. apply andb_true_iff in H as [H H3].
  apply andb_true_iff in H as [H1 H2].
  apply Nat.eqb_eq in H1, H7, H8. repeat split; try assumption.
  - destruct (p0 s); try discriminate H3; reflexivity.
  - destruct (p3 s); try discriminate H4; reflexivity.
Qed.

Section Main.
  Variable p : params.
  Variable sched : list nat.
  Let s := fst (run (step p) sched (init p, [])).

  Lemma P_common_s : P_common p s = true.
  Proof.
    pose proof (P_all_reachable p sched) as H. unfold P_all in H.
    apply andb_true_iff in H as [H _]. exact H.
  Qed.

  (* the receiver is completed at most once; exactly once when no thread can move any more, and
     then the operation is destroyed, start() and the stop request have returned, the mutex is
     free and no strong reference to the safe-callback cell is left *)
  Theorem one_completer :
    length (completions s) <= 1 /\
    (quiescent p s = true ->
       length (completions s) = 1 /\ destroyed s = true /\ p0 s = B0Fin /\ p3 s = S3Fin /\
       md s = 0 /\ refs s = 0).
  Proof.
    destruct (P_common_spec p s P_common_s) as (H1 & _ & _ & H4 & _).
    split; [exact H1|]. intros Hq.
    destruct (final_ok_spec p s (H4 Hq)) as (A & B & C & D & _ & E & F). repeat split; assumption.
  Qed.

  (* each event reaches the user's body at most once; the stop event only after the start event;
     callbacks that arrive after the operation finished do not reach the body *)
  Theorem body_events :
    nstart s <= 1 /\ ncallback s <= 1 /\ nstop s <= 1 /\ (nstop s = 0 \/ nstart s = 1).
  Proof.
    destruct (P_common_spec p s P_common_s) as (_ & (A & B & C) & D & _). repeat split; assumption.
  Qed.

  (* when the receiver is completed the stop callback is deregistered or finished, the operation
     has dropped its reference to the safe-callback cell, the completion is the deferred result,
     and done is only delivered after a stop request *)
  Theorem completion_side_conditions :
    (freed s = true -> cb s <> CbReg /\ cb s <> CbRun /\ own s = false) /\
    (forall o, completions s = [o] -> res s = Some o) /\
    (res s = Some ODone -> src s = true).
  Proof.
    destruct (P_common_spec p s P_common_s) as (_ & _ & _ & _ & H5 & H6 & H7 & _).
    split; [|split; assumption].
    intros Hf. destruct (H5 Hf) as (A & _ & C).
    repeat split; try exact C; intros Hc; rewrite Hc in A; discriminate A.
  Qed.

  (* the stop event reaches the body at most once and only while the operation is started and
     not finished ([badstop] counts the stop events dispatched in any other phase) *)
  Theorem stop_dispatch : nstop s <= 1 /\ badstop s = 0 /\ (nstop s = 0 \/ nstart s = 1).
  Proof.
    destruct (P_common_spec p s P_common_s) as (_ & (_ & _ & C) & D & _ & _ & _ & _ & E & _).
    repeat split; assumption.
  Qed.

  (* a completion signal already chosen is never overridden: the deferred result is the FIRST
     set_value / set_done call of the body ([calls] only grows, newest first), and the one
     completion the receiver gets is that result *)
  Theorem first_decision_wins :
    length (completions s) <= 1 /\
    (forall o, first_call s = Some o -> res s = Some o) /\
    (forall o o', first_call s = Some o -> completions s = [o'] -> o' = o).
  Proof.
    destruct (P_common_spec p s P_common_s) as (H1 & _ & _ & _ & _ & H6 & _ & _ & H9).
    split; [exact H1|]. split; [exact H9|].
    intros o o' Hf Hc. pose proof (H9 o Hf) as A. pose proof (H6 o' Hc) as B.
    rewrite A in B. injection B as B. symmetry. exact B.
  Qed.

  (* quiet_after_completion holds when no safe callback can be in flight while another thread
     completes the operation *)
  Theorem quiet_after_completion_cond : racy p = false -> late s = 0.
  Proof.
    intros Hr. pose proof (P_all_reachable p sched) as H. unfold P_all in H.
    apply andb_true_iff in H as [_ H]. rewrite Hr in H. apply Nat.eqb_eq. exact H.
  Qed.
End Main.

(* ------------------------------------------------------------------------------------------ *)
(* a safe callback that took its strong reference (weak_.lock()) before the operation finished
   locks the operation's mutex after the receiver has been completed                            *)

Definition witness (p : params) : list nat :=
  let stop := if restop p then [3; 3; 3; 3; 3; 3; 3] else [3; 3; 3; 3; 3; 3] in
  match first p, second p with
  | FSafe, false => [0; 0; 0; 0; 1] ++ stop ++ [1]
  | FSafe, true => [0; 0; 0; 0; 2] ++ stop ++ [2]
  | FNone, _ => [0; 0; 0; 0; 2] ++ stop ++ [2]
  | FSync, _ | FInl, _ | FUnsafe, _ => []
  end.

Theorem quiet_after_completion_refuted : forall p, racy p = true ->
  let c := run (step p) (witness p) (init p, []) in
  late (fst c) = 1 /\ length (completions (fst c)) = 1 /\
  (* the last two events: the receiver is completed, then the callback locks the mutex *)
  exists o, firstn 2 (rev (snd c)) = [ELock 0 1; ERoot o].
Proof.
  intros [[] [] [] []] Hr; try discriminate Hr; cbv zeta; vm_compute;
    (split; [reflexivity|split; [reflexivity|eexists; reflexivity]]).
Qed.
