(* Proofs about the E1 model StopOnRequest(n) (Proto/StopOnRequestDefs.v): the election
   "first stop callback completes" of stop_on_request.  Everything is proved for an arbitrary
   number n of external tokens, arbitrary sets of requested / pre-stopped sources and an
   arbitrary schedule.  The core is one inductive state invariant [Inv] = a per-source part
   [Src] + a global [Phase] (construction / armed / somebody inside complete() / done),
   preserved by step_start / step_req / step_owner and lifted with run_invariant_state. *)
From Coq Require Import List Bool Arith Lia.
From V Require Import Base.Sched Proto.StopOnRequestDefs.
Import ListNotations.
Import StopOnRequest.

(* ------------------------------------------------------------------------------------------ *)
(* helpers                                                                                    *)

Lemma upd_eq {A} (f : nat -> A) i v : upd f i v i = v.
Proof. unfold upd. now rewrite Nat.eqb_refl. Qed.

Lemma upd_neq {A} (f : nat -> A) i v j : j <> i -> upd f i v j = f j.
Proof. unfold upd. intros H. apply Nat.eqb_neq in H. now rewrite H. Qed.

Lemma in_order n k : In k (order n) <-> k <= n.
Proof. unfold order. rewrite in_app_iff, in_seq. cbn. lia. Qed.

Lemma NoDup_order n : NoDup (order n).
Proof.
  unfold order. apply (NoDup_Add (Add_app 0 (seq 1 n) [])). rewrite app_nil_r.
  split; [apply seq_NoDup|]. rewrite in_seq. lia.
Qed.

Lemma skip_split c l : exists p, l = p ++ skip c l /\ forall k, In k p -> c k = BInline.
Proof.
  induction l as [|k r IH]; cbn.
  - exists []. split; [reflexivity|]. intros k [].
  - destruct (c k) eqn:E; try (exists []; split; [reflexivity|intros ? []]).
    destruct IH as (p & Hp & Hall). exists (k :: p). split.
    + cbn. f_equal. exact Hp.
    + intros j [<-|Hj]; auto.
Qed.

Lemma skip_incl c l k : In k (skip c l) -> In k l.
Proof.
  destruct (skip_split c l) as (p & Hp & _). intros H. rewrite Hp. apply in_or_app. now right.
Qed.

Lemma skip_head_ok c k r : c k <> BInline -> skip c (k :: r) = k :: r.
Proof. cbn. destruct (c k); congruence. Qed.

Lemma skip_nonil_head c l k r : skip c l = k :: r -> c k <> BInline.
Proof.
  induction l as [|a l IH]; cbn; [discriminate|].
  destruct (c a) eqn:E; intros H; try (injection H as <- <-; congruence). auto.
Qed.

Lemma skip_idem c l : skip c (skip c l) = skip c l.
Proof.
  destruct (skip c l) as [|k r] eqn:E; [reflexivity|].
  apply skip_head_ok. eapply skip_nonil_head; eauto.
Qed.

Lemma skip_in c l i : In i l -> c i <> BInline -> In i (skip c l).
Proof.
  destruct (skip_split c l) as (p & Hp & Hall). intros H Hne. rewrite Hp in H.
  apply in_app_or in H as [H|H]; [|exact H]. exfalso. auto.
Qed.

Lemma skip_out c l i : In i l -> ~ In i (skip c l) -> c i = BInline.
Proof.
  destruct (skip_split c l) as (p & Hp & Hall). intros H Hn. rewrite Hp in H.
  apply in_app_or in H as [H|H]; [auto|contradiction].
Qed.

Arguments all_torn : simpl never.

Lemma all_torn_iff s : all_torn s = true <-> forall k, k <= nsrc s -> torn (cb s k) = true.
Proof.
  unfold all_torn. rewrite forallb_forall. split; intros H k Hk.
  - apply H. apply in_seq. lia.
  - apply H. apply in_seq in Hk. lia.
Qed.

(* ------------------------------------------------------------------------------------------ *)
(* the invariant                                                                              *)

(* constructed and not yet destructed *)
Definition built (b : cbst) : Prop := b = BReg \/ b = BInline \/ b = BExec \/ b = BDone.

Definition no_rcomp (s : st) : Prop := forall i w l, rq s i <> RComp w l.
Definition Quiet0 (s : st) : Prop := completions s = 0 /\ freed s = false.

(* source i, its callback object and its requester: the combinations of (program counter of
   requester i, callback i, stop flag i) that occur *)
Definition ok3 (r : rpc) (b : cbst) (stopped : bool) : bool :=
  match r, b, stopped with
  | RSet, (BNew | BReg | BUnlinked), false => true
  | RXchg, BExec, true => true
  | RStore, BExec, true => true
  | RComp _ _, (BExec | BRemoved), true => true
  | RFin, (BNew | BReg | BUnlinked), false => true
  | RFin, (BNew | BInline | BDone | BJoined | BRemoved | BUnlinked), true => true
  | _, _, _ => false
  end.

Record Src (req pre : nat -> bool) (s : st) (i : nat) : Prop := {
  s_ok : ok3 (rq s i) (cb s i) (stp s i) = true;
  s_set : rq s i = RSet -> req i = true;
  (* a stopped source whose callback exists has made, or is about to make, its exchange *)
  s_k : stp s i = true ->
        cb s i = BNew \/ cbs s = ATLEAST \/ sp s = SInl i \/ rq s i = RXchg;
  s_req : req i = true -> rq s i = RSet \/ stp s i = true;
  s_pre : pre i = true -> stp s i = true;
  s_prov : stp s i = true -> req i = true \/ pre i = true
}.

(* thread t is inside complete() with the callbacks [todo] still to destruct *)
Record CompInv (t : nat) (w : bool) (todo : list nat) (s : st) : Prop := {
  c_cbs : cbs s = ATLEAST;
  c_split : exists p, order (nsrc s) = p ++ todo /\ forall k, In k p -> torn (cb s k) = true;
  c_todo : forall k, In k todo -> built (cb s k);
  c_head : skip (cb s) todo = todo;
  c_wait : w = true ->
           exists k r, todo = k :: r /\ (cb s k = BExec \/ cb s k = BDone) /\ t <> S k;
  c_self : forall i, t = S i ->
           (In i todo -> cb s i = BExec) /\ (~ In i todo -> cb s i = BRemoved)
}.

Inductive Phase (s : st) : Prop :=
| PhReg i : sp s = SReg i -> i <= nsrc s -> no_rcomp s -> Quiet0 s -> cbs s <> ALLC ->
    (forall j, j < i -> built (cb s j)) -> (forall j, i <= j -> cb s j = BNew) -> Phase s
| PhInl i : sp s = SInl i -> i <= nsrc s -> no_rcomp s -> Quiet0 s -> cbs s <> ALLC ->
    (forall j, j < i -> built (cb s j)) -> cb s i = BInline ->
    (forall j, i < j -> cb s j = BNew) -> Phase s
| PhCas : sp s = SCas -> no_rcomp s -> Quiet0 s -> cbs s <> ALLC ->
    (forall j, j <= nsrc s -> built (cb s j)) -> Phase s
| PhArmed : sp s = SFin -> cbs s = ALLC -> no_rcomp s -> Quiet0 s ->
    (forall j, j <= nsrc s -> built (cb s j)) -> Phase s
| PhCompS w todo : sp s = SComp None w todo -> no_rcomp s -> Quiet0 s ->
    CompInv 0 w todo s -> Phase s
| PhCompR i w todo : sp s = SFin -> i <= nsrc s -> rq s i = RComp w todo ->
    (forall j w' l', rq s j = RComp w' l' -> j = i) -> Quiet0 s ->
    CompInv (S i) w todo s -> Phase s
| PhDone : sp s = SFin -> no_rcomp s -> completions s = 1 -> freed s = true ->
    cbs s = ATLEAST -> (forall j, j <= nsrc s -> torn (cb s j) = true) -> Phase s.

Record Inv (n : nat) (req pre : nat -> bool) (s : st) : Prop := {
  i_n : nsrc s = n;
  i_src : forall i, Src req pre s i;
  i_ph : Phase s;
  i_late : late s = 0;
  i_badtd : badtd s = 0;
  i_g : cbs s = ATLEAST -> exists i, i <= nsrc s /\ stp s i = true
}.

Lemma Inv_init n req pre : Inv n req pre (init n req pre).
Proof.
  constructor; cbn; auto.
  - intros i. constructor; cbn.
    + destruct (req i), (pre i); reflexivity.
    + destruct (req i), (pre i); cbn; intros H; try discriminate H; reflexivity.
    + auto.
    + intros Hr. rewrite Hr. destruct (pre i); cbn; auto.
    + auto.
    + auto.
  - apply (PhReg _ 0); cbn; auto; try lia.
    + intros i w l. cbn. destruct (req i && negb (pre i)); discriminate.
    + split; reflexivity.
    + discriminate.
  - discriminate.
Qed.

(* ------------------------------------------------------------------------------------------ *)
(* the thread inside complete()                                                               *)

Lemma NoDup_app_tail {A} (p l : list A) : NoDup (p ++ l) -> NoDup l.
Proof. induction p as [|a p IH]; cbn; intros H; [exact H|]. inversion H; auto. Qed.

Lemma comp_nodup t w todo s : CompInv t w todo s -> NoDup todo.
Proof.
  intros [_ (p & Hp & _) _ _ _ _]. pose proof (NoDup_order (nsrc s)) as H. rewrite Hp in H.
  eapply NoDup_app_tail; eauto.
Qed.

Lemma comp_in_le t w todo s k : CompInv t w todo s -> In k todo -> k <= nsrc s.
Proof.
  intros [_ (p & Hp & _) _ _ _ _] H. apply in_order. rewrite Hp. apply in_or_app. now right.
Qed.

Lemma comp_all_torn t w s : CompInv t w [] s -> forall k, k <= nsrc s -> torn (cb s k) = true.
Proof.
  intros [_ (p & Hp & Ht) _ _ _ _] k Hk. apply Ht. rewrite app_nil_r in Hp. rewrite <- Hp.
  now apply in_order.
Qed.

Lemma comp_head_pending t todo k r s :
  CompInv t false todo s -> todo = k :: r -> cb s k = BReg \/ cb s k = BExec \/ cb s k = BDone.
Proof.
  intros HC ->. pose proof (c_head _ _ _ _ HC) as Hh. apply skip_nonil_head in Hh.
  destruct (c_todo _ _ _ _ HC k (or_introl eq_refl)) as [H|[H|[H|H]]]; auto. contradiction.
Qed.

(* entering complete() *)
Lemma comp_enter t s :
  cbs s = ATLEAST -> (forall j, j <= nsrc s -> built (cb s j)) ->
  (forall i, t = S i -> i <= nsrc s /\ cb s i = BExec) ->
  CompInv t false (skip (cb s) (order (nsrc s))) s.
Proof.
  intros Hc Hb Hs. constructor.
  - exact Hc.
  - destruct (skip_split (cb s) (order (nsrc s))) as (p & Hp & Hall). exists p. split; [exact Hp|].
    intros k Hk. rewrite (Hall k Hk). reflexivity.
  - intros k Hk. apply Hb. apply in_order. eapply skip_incl; eauto.
  - apply skip_idem.
  - discriminate.
  - intros i Hi. destruct (Hs i Hi) as [Hle He]. split; [auto|].
    intros Hn. exfalso. apply Hn. apply skip_in; [now apply in_order|congruence].
Qed.

(* the head callback k has been destructed (new value v); go on with the rest *)
Lemma comp_advance t w k r s s' v :
  CompInv t w (k :: r) s -> nsrc s' = nsrc s -> cbs s' = cbs s -> cb s' = upd (cb s) k v ->
  torn v = true -> (t = S k -> v = BRemoved) ->
  CompInv t false (skip (cb s') r) s'.
Proof.
  intros HC Hn Hc Hcb Hv Hself.
  pose proof (comp_nodup _ _ _ _ HC) as Hnd. apply NoDup_cons_iff in Hnd as [Hnk Hndr].
  destruct HC as [Hcbs (p & Hp & Ht) Htodo Hhead _ Hs].
  constructor.
  - congruence.
  - destruct (skip_split (cb s') r) as (q & Hq & Hall).
    exists (p ++ k :: q). split.
    + rewrite Hn, Hp. rewrite <- app_assoc. cbn. f_equal. f_equal. exact Hq.
    + intros j Hj. rewrite Hcb. destruct (Nat.eq_dec j k) as [->|Hne].
      * rewrite upd_eq. exact Hv.
      * rewrite upd_neq by exact Hne. apply in_app_or in Hj as [Hj|[Hj|Hj]]; [auto|congruence|].
        specialize (Hall j Hj). rewrite Hcb, upd_neq in Hall by exact Hne. rewrite Hall. reflexivity.
  - intros j Hj. apply skip_incl in Hj. rewrite Hcb, upd_neq by congruence.
    apply Htodo. now right.
  - apply skip_idem.
  - discriminate.
  - intros i Hi. specialize (Hs i Hi) as [Hs1 Hs2]. split.
    + intros Hin. apply skip_incl in Hin. rewrite Hcb, upd_neq by congruence. apply Hs1. now right.
    + intros Hnin. destruct (Nat.eq_dec i k) as [->|Hne].
      * rewrite Hcb, upd_eq. auto.
      * destruct (in_dec Nat.eq_dec i r) as [Hir|Hir].
        -- exfalso. pose proof (skip_out _ _ _ Hir Hnin) as Hinl.
           rewrite Hcb, upd_neq in Hinl by exact Hne.
           rewrite Hs1 in Hinl by (now right). discriminate.
        -- rewrite Hcb, upd_neq by exact Hne. apply Hs2. intros [Heq|Hin]; congruence.
Qed.

(* the head callback is executing on another thread: start spinning *)
Lemma comp_wait t k r s s' :
  CompInv t false (k :: r) s -> nsrc s' = nsrc s -> cbs s' = cbs s -> cb s' = cb s ->
  cb s k = BExec \/ cb s k = BDone -> t <> S k ->
  CompInv t true (k :: r) s'.
Proof.
  intros [Hcbs Hsp Htodo Hhead _ Hs] Hn Hc Hcb Hk Ht.
  constructor; try rewrite Hn; try rewrite Hcb; try congruence; auto.
  intros _. exists k, r. auto.
Qed.

(* steps of other threads: SET claims a registered callback, CBDONE completes an executing one *)
Lemma comp_stable t w todo s s' :
  CompInv t w todo s -> nsrc s' = nsrc s -> cbs s' = ATLEAST ->
  (forall j, cb s' j = cb s j \/ (cb s j = BReg /\ cb s' j = BExec) \/
             (cb s j = BExec /\ cb s' j = BDone /\ t <> S j)) ->
  CompInv t w todo s'.
Proof.
  intros [Hcbs (p & Hp & Ht) Htodo Hhead Hw Hs] Hn Hc Htr.
  constructor.
  - exact Hc.
  - exists p. rewrite Hn. split; [exact Hp|]. intros k Hk. specialize (Ht k Hk).
    destruct (Htr k) as [H|[[H _]|[H _]]]; [congruence| |]; rewrite H in Ht; discriminate.
  - intros k Hk. specialize (Htodo k Hk). unfold built in *.
    destruct (Htr k) as [H|[[_ H]|[_ [H _]]]]; rewrite H; auto.
  - destruct todo as [|k r]; [reflexivity|]. apply skip_head_ok.
    apply skip_nonil_head in Hhead.
    destruct (Htr k) as [H|[[_ H]|[_ [H _]]]]; rewrite H; auto; discriminate.
  - intros Hwt. destruct (Hw Hwt) as (k & r & -> & Hk & Hne). exists k, r. split; [reflexivity|].
    split; [|exact Hne].
    destruct (Htr k) as [H|[[H _]|[_ [H _]]]]; [rewrite H; exact Hk| |right; exact H].
    destruct Hk; congruence.
  - intros i Hi. specialize (Hs i Hi) as [Hs1 Hs2].
    destruct (Htr i) as [H|[[H _]|[_ [_ H]]]]; [rewrite H; auto| |contradiction].
    exfalso. destruct (in_dec Nat.eq_dec i todo) as [Hin|Hin]; [rewrite Hs1 in H|rewrite Hs2 in H];
      auto; discriminate.
Qed.


(* ------------------------------------------------------------------------------------------ *)
(* preservation                                                                               *)

Lemma ok3_exec r b : ok3 r BExec b = true ->
  b = true /\ (r = RXchg \/ r = RStore \/ exists w l, r = RComp w l).
Proof. destruct r, b; cbn; intros H; try discriminate H; split; eauto. Qed.

Lemma ok3_xchg c b : ok3 RXchg c b = true -> c = BExec /\ b = true.
Proof. destruct c, b; cbn; intros H; try discriminate H; auto. Qed.

Lemma ok3_store c b : ok3 RStore c b = true -> c = BExec /\ b = true.
Proof. destruct c, b; cbn; intros H; try discriminate H; auto. Qed.

Lemma ok3_set c b : ok3 RSet c b = true -> b = false /\ (c = BNew \/ c = BReg \/ c = BUnlinked).
Proof. destruct c, b; cbn; intros H; try discriminate H; auto. Qed.

Lemma ok3_comp w l c b : ok3 (RComp w l) c b = true -> b = true /\ (c = BExec \/ c = BRemoved).
Proof. destruct c, b; cbn; intros H; try discriminate H; auto. Qed.

Lemma ok3_stopped r c : c = BInline \/ c = BExec \/ c = BDone -> forall b, ok3 r c b = true -> b = true.
Proof. intros [-> | [-> | ->]] b; destruct r, b; cbn; intros H; try discriminate H; auto. Qed.

(* a step that leaves source j, its callback and its requester alone *)
Lemma Src_frame' req pre s s' j :
  Src req pre s j -> rq s' j = rq s j -> stp s' j = stp s j -> cb s' j = cb s j ->
  (cb s j = BNew \/ cbs s = ATLEAST \/ sp s = SInl j \/ rq s j = RXchg ->
   cb s j = BNew \/ cbs s' = ATLEAST \/ sp s' = SInl j \/ rq s j = RXchg) ->
  Src req pre s' j.
Proof.
  intros [h1 h2 h3 h4 h5 h6] Hr Hs Hc Hk.
  constructor; rewrite ?Hr, ?Hs, ?Hc; auto.
Qed.

Lemma Src_frame req pre s s' j :
  Src req pre s j -> rq s' j = rq s j -> stp s' j = stp s j -> cb s' j = cb s j ->
  (cbs s' = cbs s \/ cbs s' = ATLEAST) -> (sp s = SInl j -> cbs s' = ATLEAST \/ sp s' = SInl j) ->
  Src req pre s' j.
Proof.
  intros HS Hr Hs Hc Hcbs Hsp. apply (Src_frame' _ _ s); auto.
  intros [H|[H|[H|H]]]; auto.
  - destruct Hcbs as [Hcbs|Hcbs]; [rewrite Hcbs|]; auto.
  - destruct (Hsp H); auto.
Qed.

(* a destruction step of the thread inside complete() *)
Lemma Src_comp req pre s s' j :
  Src req pre s j -> cbs s' = ATLEAST -> stp s' j = stp s j ->
  (rq s' j = rq s j \/ exists w l w' l', rq s j = RComp w l /\ rq s' j = RComp w' l') ->
  (cb s' j = cb s j \/ (cb s j = BReg /\ cb s' j = BUnlinked) \/
   (cb s j = BDone /\ cb s' j = BJoined) \/
   (cb s j = BExec /\ cb s' j = BRemoved /\ exists w l, rq s j = RComp w l)) ->
  Src req pre s' j.
Proof.
  intros [h1 h2 h3 h4 h5 h6] Hc Hs Hr Hcb.
  assert (Hok : ok3 (rq s' j) (cb s' j) (stp s j) = true).
  { destruct Hr as [Hr|(w & l & w' & l' & Hr1 & Hr2)].
    - rewrite Hr. destruct Hcb as [H|[[H1 H2]|[[H1 H2]|(H1 & H2 & w & l & H3)]]];
        [rewrite H; exact h1| | |]; rewrite ?H3, H1 in h1; rewrite ?H3, H2;
        destruct (rq s j), (stp s j); cbn in *; congruence.
    - rewrite Hr1 in *. rewrite Hr2.
      destruct Hcb as [H|[[H1 H2]|[[H1 H2]|(H1 & H2 & _)]]];
        [rewrite H; exact h1| | |]; rewrite H1 in h1; rewrite H2;
        destruct (stp s j); cbn in *; congruence. }
  constructor; rewrite ?Hs; auto.
  - intros H. apply h2. destruct Hr as [Hr|(w & l & w' & l' & _ & Hr2)]; congruence.
  - intros Hq. destruct (h4 Hq) as [H|H]; auto.
    left. destruct Hr as [Hr|(w & l & w' & l' & Hr1 & _)]; congruence.
Qed.

Lemma comp_step_cont t w todo s s1 evs w' todo' :
  CompInv t w todo s -> comp_step t w todo s = Some (s1, evs, Some (w', todo')) ->
  CompInv t w' todo' s1 /\
  (nsrc s1 = nsrc s /\ cbs s1 = cbs s /\ stp s1 = stp s /\ rq s1 = rq s /\ sp s1 = sp s /\
   freed s1 = freed s /\ completions s1 = completions s /\ badtd s1 = badtd s /\
   late s1 = (if freed s then S (late s) else late s)) /\
  (forall j, cb s1 j = cb s j \/ (cb s j = BReg /\ cb s1 j = BUnlinked) \/
             (cb s j = BDone /\ cb s1 j = BJoined) \/
             (cb s j = BExec /\ cb s1 j = BRemoved /\ t = S j)).
Proof.
  intros HC Hstep. unfold comp_step in Hstep. destruct todo as [|k r]; [discriminate Hstep|].
  pose proof (c_self _ _ _ _ HC) as Hself.
  assert (Hselfk : t = S k -> cb s k = BExec).
  { intros Ht. apply (Hself k Ht). now left. }
  assert (Htr : forall v j, (cb s k = BReg /\ v = BUnlinked) \/ (cb s k = BDone /\ v = BJoined) \/
                            (cb s k = BExec /\ v = BRemoved /\ t = S k) ->
            upd (cb s) k v j = cb s j \/ (cb s j = BReg /\ upd (cb s) k v j = BUnlinked) \/
            (cb s j = BDone /\ upd (cb s) k v j = BJoined) \/
            (cb s j = BExec /\ upd (cb s) k v j = BRemoved /\ t = S j)).
  { intros v j Hv. destruct (Nat.eq_dec j k) as [->|Hne].
    - rewrite upd_eq. tauto.
    - rewrite upd_neq by exact Hne. auto. }
  destruct w.
  - destruct (c_wait _ _ _ _ HC eq_refl) as (k' & r' & Heq & _ & Hne). injection Heq as <- <-.
    destruct (cb s k) eqn:Hk; try discriminate Hstep. injection Hstep as <- <- <- <-.
    split; [|split; [repeat split|]].
    + apply (comp_advance t true k r s (set_cb (touch s) k BJoined) BJoined HC); try reflexivity.
      intros; contradiction.
    + intros j. cbn. apply Htr. tauto.
  - destruct (cb s k) eqn:Hk; try discriminate Hstep.
    + (* BReg *)
      injection Hstep as <- <- <- <-. split; [|split; [repeat split|]].
      * apply (comp_advance t false k r s (set_cb (touch s) k BUnlinked) BUnlinked HC);
          try reflexivity. intros Ht. specialize (Hselfk Ht). discriminate.
      * intros j. cbn. apply Htr. tauto.
    + (* BExec *)
      destruct (Nat.eqb_spec t (S k)) as [Ht|Ht]; injection Hstep as <- <- <- <-.
      * split; [|split; [repeat split|]].
        -- apply (comp_advance t false k r s (set_cb (touch s) k BRemoved) BRemoved HC); reflexivity.
        -- intros j. cbn. apply Htr. tauto.
      * split; [|split; [repeat split|]]; auto.
        apply (comp_wait t k r s (touch s) HC); auto.
    + (* BDone *)
      destruct (Nat.eqb_spec t (S k)) as [Ht|Ht]; injection Hstep as <- <- <- <-.
      * specialize (Hselfk Ht). discriminate.
      * split; [|split; [repeat split|]]; auto.
        apply (comp_wait t k r s (touch s) HC); auto.
Qed.

Lemma comp_step_fin t w todo s s1 evs :
  comp_step t w todo s = Some (s1, evs, None) -> todo = [] /\ s1 = finish s.
Proof.
  unfold comp_step. destruct todo as [|k r].
  - intros H. injection H as <- _. auto.
  - destruct w; destruct (cb s k); try discriminate; destruct (Nat.eqb t (S k)); discriminate.
Qed.

Lemma CompInv_ext t w todo s s' :
  CompInv t w todo s -> nsrc s' = nsrc s -> cbs s' = cbs s -> cb s' = cb s -> CompInv t w todo s'.
Proof.
  intros HC Hn Hc Hcb. apply (comp_stable t w todo s); auto.
  - rewrite Hc. apply (c_cbs _ _ _ _ HC).
  - intros j. left. now rewrite Hcb.
Qed.

Lemma start_inv n req pre s s' evs :
  Inv n req pre s -> step_start s = Some (s', evs) -> Inv n req pre s'.
Proof.
  intros [Hn Hsrc Hph Hlate Hbad Hg] Hstep. unfold step_start in Hstep.
  destruct Hph as [i Hsp Hle Hnr [Hc0 Hf0] Hna Hlt Hge
                  |i Hsp Hle Hnr [Hc0 Hf0] Hna Hlt Hi Hgt
                  |Hsp Hnr [Hc0 Hf0] Hna Hb
                  |Hsp Hcbs Hnr [Hc0 Hf0] Hb
                  |w todo Hsp Hnr [Hc0 Hf0] HC
                  |i w todo Hsp Hle Hrq Hun [Hc0 Hf0] HC
                  |Hsp Hnr Hc1 Hf1 Hcbs Ht];
    rewrite Hsp in Hstep; try discriminate Hstep.
  - (* SReg i *)
    apply Nat.leb_le in Hle as Hleb. rewrite Hleb in Hstep.
    assert (Hnew : cb s i = BNew) by (apply Hge; lia).
    assert (Hfr : forall j, j <> i -> Src req pre s j -> forall v p,
              Src req pre (set_sp (set_cb (touch s) i v) p) j).
    { intros j Hne HS v p. apply (Src_frame _ _ s); cbn; rewrite ?upd_neq by exact Hne; auto.
      rewrite Hsp. congruence. }
    destruct (stp s i) eqn:Hst; injection Hstep as <- <-.
    + (* the source is already stopped: inline *)
      constructor; cbn; rewrite ?Hf0; auto.
      * intros j. destruct (Nat.eq_dec j i) as [->|Hne]; [|apply Hfr; auto].
        destruct (Hsrc i) as [h1 h2 h3 h4 h5 h6]. constructor; cbn; rewrite ?upd_eq; auto.
        rewrite Hnew, Hst in h1. rewrite Hst. destruct (rq s i); try discriminate h1; reflexivity.
      * apply (PhInl _ i); cbn; rewrite ?upd_eq; auto; try (split; auto).
        -- intros j Hj. rewrite upd_neq by lia. auto.
        -- intros j Hj. rewrite upd_neq by lia. apply Hge. lia.
    + (* registered *)
      constructor; cbn; rewrite ?Hf0; auto.
      * intros j. destruct (Nat.eq_dec j i) as [->|Hne]; [|apply Hfr; auto].
        destruct (Hsrc i) as [h1 h2 h3 h4 h5 h6]. constructor; cbn; rewrite ?upd_eq; auto.
        -- rewrite Hnew, Hst in h1. rewrite Hst. destruct (rq s i); try discriminate h1; reflexivity.
        -- intros H. congruence.
      * unfold after_reg. destruct (Nat.ltb i (nsrc s)) eqn:Hlt'.
        -- apply Nat.ltb_lt in Hlt'. apply (PhReg _ (S i)); cbn; auto; try (split; auto).
           ++ intros j Hj. destruct (Nat.eq_dec j i) as [->|Hne];
                [rewrite upd_eq; left; reflexivity|rewrite upd_neq by exact Hne; apply Hlt; lia].
           ++ intros j Hj. rewrite upd_neq by lia. apply Hge. lia.
        -- apply Nat.ltb_ge in Hlt'. apply PhCas; cbn; auto; try (split; auto).
           intros j Hj. destruct (Nat.eq_dec j i) as [->|Hne];
             [rewrite upd_eq; left; reflexivity|rewrite upd_neq by exact Hne; apply Hlt; lia].
  - (* SInl i: the inline callback exchanges callbackState_ *)
    assert (Hstpi : stp s i = true).
    { apply (ok3_stopped (rq s i) (cb s i) (or_introl Hi) _ (s_ok _ _ _ _ (Hsrc i))). }
    assert (Hgoal : Inv n req pre (set_sp (set_cbs (touch s) ATLEAST) (after_reg (nsrc s) i))).
    { constructor; cbn; rewrite ?Hf0; auto.
      - intros j. apply (Src_frame _ _ s); cbn; auto.
      - unfold after_reg. destruct (Nat.ltb i (nsrc s)) eqn:Hlt'.
        + apply Nat.ltb_lt in Hlt'. apply (PhReg _ (S i)); cbn; auto; try (split; auto);
            try discriminate.
          intros j Hj. destruct (Nat.eq_dec j i) as [->|Hne];
            [right; left; exact Hi|apply Hlt; lia].
        + apply Nat.ltb_ge in Hlt'. apply PhCas; cbn; auto; try (split; auto); try discriminate.
          intros j Hj. destruct (Nat.eq_dec j i) as [->|Hne];
            [right; left; exact Hi|apply Hlt; lia].
      - intros _. exists i. split; auto. }
    destruct (cbs s) eqn:Hcbs; try congruence; injection Hstep as <- <-; exact Hgoal.
  - (* SCas *)
    destruct (cbs s) eqn:Hcbs; try congruence; injection Hstep as <- <-.
    + (* INIT -> ALL_CONSTRUCTED_NOT_CALLED *)
      constructor; cbn; rewrite ?Hf0; auto.
      * intros j. apply (Src_frame' _ _ s); cbn; auto.
        intros [H|[H|[H|H]]]; auto; congruence.
      * apply PhArmed; cbn; auto. split; auto.
      * discriminate.
    + (* a callback has already run: start() completes *)
      constructor; cbn; rewrite ?Hf0; auto.
      * intros j. apply (Src_frame _ _ s); cbn; auto; try (intros H; congruence).
      * apply (PhCompS _ false (skip (cb s) (order (nsrc s)))); cbn; auto; [split; auto|].
        refine (comp_enter 0 (set_sp (touch s) _) _ _ _); cbn; auto. discriminate.
  - (* SComp None: inside complete() *)
    destruct (comp_step 0 w todo s) as [[[s1 evs1] [[w' todo']|]]|] eqn:Hcs;
      try discriminate Hstep; injection Hstep as <- <-.
    + destruct (comp_step_cont _ _ _ _ _ _ _ _ HC Hcs)
        as (HC' & (E1 & E2 & E3 & E4 & E5 & E6 & E7 & E8 & E9) & Htr).
      pose proof (c_cbs _ _ _ _ HC) as Hat.
      constructor; cbn; try congruence.
      * intros j. apply (Src_comp _ _ s); cbn; rewrite ?E2, ?E3, ?E4; auto.
        destruct (Htr j) as [H|[H|[H|(H1 & H2 & H3)]]]; auto. discriminate H3.
      * apply (PhCompS _ w' todo'); cbn; auto.
        -- intros i w0 l. cbn. rewrite E4. apply Hnr.
        -- split; cbn; congruence.
        -- apply (CompInv_ext _ _ _ s1); auto.
      * rewrite E9, Hf0. exact Hlate.
      * intros H. rewrite E1, E3. apply Hg. congruence.
    + destruct (comp_step_fin _ _ _ _ _ _ Hcs) as [-> ->].
      pose proof (comp_all_torn _ _ _ HC) as Hall.
      constructor; cbn; auto.
      * intros j. apply (Src_frame _ _ s); cbn; auto; try (intros H; congruence).
      * apply PhDone; cbn; auto; try congruence. apply (c_cbs _ _ _ _ HC).
      * rewrite (proj2 (all_torn_iff s) Hall). exact Hbad.
Qed.

(* facts read off the phase *)
Lemma phase_freed s :
  Phase s -> freed s = false \/ (forall j, j <= nsrc s -> torn (cb s j) = true).
Proof. intros [? ? ? ? [? ?]|? ? ? ? [? ?]|? ? [? ?]|? ? ? [? ?]|? ? ? ? [? ?]|? ? ? ? ? ? ? [? ?]|]; auto. Qed.

Lemma phase_cases_cb s j :
  Phase s -> j <= nsrc s -> cb s j = BNew \/ built (cb s j) \/ cbs s = ATLEAST.
Proof.
  intros [i Hsp Hle Hnr Hq Hna Hlt Hge|i Hsp Hle Hnr Hq Hna Hlt Hi Hgt|Hsp Hnr Hq Hna Hb
         |Hsp Hcbs Hnr Hq Hb|w todo Hsp Hnr Hq HC|i w todo Hsp Hle Hrq Hun Hq HC
         |Hsp Hnr Hc1 Hf1 Hcbs Ht] Hj; auto.
  - destruct (Nat.lt_ge_cases j i); auto.
  - destruct (Nat.lt_trichotomy j i) as [H|[->|H]]; auto.
    right; left. rewrite Hi. right; left; reflexivity.
  - right; right. apply (c_cbs _ _ _ _ HC).
  - right; right. apply (c_cbs _ _ _ _ HC).
Qed.

Lemma phase_allc s :
  Phase s -> cbs s = ALLC ->
  sp s = SFin /\ no_rcomp s /\ Quiet0 s /\ (forall j, j <= nsrc s -> built (cb s j)).
Proof.
  intros [i Hsp Hle Hnr Hq Hna Hlt Hge|i Hsp Hle Hnr Hq Hna Hlt Hi Hgt|Hsp Hnr Hq Hna Hb
         |Hsp Hcbs Hnr Hq Hb|w todo Hsp Hnr Hq HC|i w todo Hsp Hle Hrq Hun Hq HC
         |Hsp Hnr Hc1 Hf1 Hcbs Ht] Ha; try congruence; auto.
  - pose proof (c_cbs _ _ _ _ HC). congruence.
  - pose proof (c_cbs _ _ _ _ HC). congruence.
Qed.

Lemma phase_rcomp s i w todo :
  Phase s -> rq s i = RComp w todo ->
  sp s = SFin /\ i <= nsrc s /\ (forall j w' l', rq s j = RComp w' l' -> j = i) /\ Quiet0 s /\
  CompInv (S i) w todo s.
Proof.
  intros [i0 Hsp Hle Hnr Hq Hna Hlt Hge|i0 Hsp Hle Hnr Hq Hna Hlt Hi Hgt|Hsp Hnr Hq Hna Hb
         |Hsp Hcbs Hnr Hq Hb|w0 todo0 Hsp Hnr Hq HC|i0 w0 todo0 Hsp Hle Hrq Hun Hq HC
         |Hsp Hnr Hc1 Hf1 Hcbs Ht] Hr; try (exfalso; eapply Hnr; eauto; fail).
  pose proof (Hun _ _ _ Hr) as ->. rewrite Hrq in Hr. injection Hr as <- <-. auto.
Qed.

(* steps of requesters that are not inside complete(): SET, the exchange that does not
   complete, CBDONE *)
Lemma Phase_stable s s' :
  Phase s -> sp s' = sp s -> nsrc s' = nsrc s -> completions s' = completions s ->
  freed s' = freed s ->
  (cbs s' = cbs s \/ (cbs s' = ATLEAST /\ cbs s <> ALLC)) ->
  (forall j w l, rq s' j = RComp w l <-> rq s j = RComp w l) ->
  (forall j, cb s' j = cb s j \/ (cb s j = BReg /\ cb s' j = BExec) \/
             (cb s j = BExec /\ cb s' j = BDone /\ forall w l, rq s j <> RComp w l)) ->
  Phase s'.
Proof.
  intros Hph Esp En Ec Ef Hcbs Hrq Htr.
  assert (Hbuilt : forall j, built (cb s j) -> built (cb s' j)).
  { intros j Hb. unfold built in *.
    destruct (Htr j) as [H|[[_ H]|[_ [H _]]]]; rewrite H; auto. }
  assert (Hnew : forall j, cb s j = BNew -> cb s' j = BNew).
  { intros j Hb. destruct (Htr j) as [H|[[H _]|[H _]]]; congruence. }
  assert (Hnr' : no_rcomp s -> no_rcomp s').
  { intros Hnr j w l H. apply Hrq in H. eapply Hnr; eauto. }
  assert (Hq' : Quiet0 s -> Quiet0 s').
  { intros [H1 H2]. split; congruence. }
  assert (Hna' : cbs s <> ALLC -> cbs s' <> ALLC).
  { intros H. destruct Hcbs as [Hc|[Hc _]]; congruence. }
  destruct Hph as [i Hsp Hle Hnr Hq Hna Hlt Hge|i Hsp Hle Hnr Hq Hna Hlt Hi Hgt|Hsp Hnr Hq Hna Hb
         |Hsp Hcbs0 Hnr Hq Hb|w todo Hsp Hnr Hq HC|i w todo Hsp Hle Hr Hun Hq HC
         |Hsp Hnr Hc1 Hf1 Hcbs0 Ht].
  - apply (PhReg _ i); rewrite ?En; auto; congruence.
  - apply (PhInl _ i); rewrite ?En; auto; try congruence.
    destruct (Htr i) as [H|[[H _]|[H _]]]; congruence.
  - apply PhCas; rewrite ?En; auto; congruence.
  - apply PhArmed; rewrite ?En; auto; try congruence.
    destruct Hcbs as [Hc|[_ Hc]]; congruence.
  - apply (PhCompS _ w todo); auto; try congruence.
    apply (comp_stable 0 w todo s); auto.
    + pose proof (c_cbs _ _ _ _ HC). destruct Hcbs as [Hc|[Hc _]]; congruence.
    + intros j. destruct (Htr j) as [H|[H|(H1 & H2 & _)]]; auto.
  - apply (PhCompR _ i w todo); rewrite ?En; auto; try congruence.
    + apply Hrq. exact Hr.
    + intros j w' l' H. apply Hrq in H. eauto.
    + apply (comp_stable (S i) w todo s); auto.
      * pose proof (c_cbs _ _ _ _ HC). destruct Hcbs as [Hc|[Hc _]]; congruence.
      * intros j. destruct (Htr j) as [H|[H|(H1 & H2 & H3)]]; auto.
        right; right. repeat split; auto. intros Heq. injection Heq as ->. eapply H3; eauto.
  - apply PhDone; rewrite ?En; auto; try congruence.
    + destruct Hcbs as [Hc|[Hc _]]; congruence.
    + intros j Hj. specialize (Ht j Hj).
      destruct (Htr j) as [H|[[H _]|[H _]]]; [congruence| |]; rewrite H in Ht; discriminate.
Qed.

Lemma req_inv n req pre i s s' evs :
  Inv n req pre s -> i <= nsrc s -> step_req i s = Some (s', evs) -> Inv n req pre s'.
Proof.
  intros [Hn Hsrc Hph Hlate Hbad Hg] Hle Hstep. unfold step_req in Hstep.
  pose proof (Hsrc i) as [Hok Hset Hk Hreq Hpre Hprov].
  (* sources other than i are not concerned by a step of requester i outside complete() *)
  assert (Hfr : forall s1 p j, j <> i -> rq s1 j = rq s j -> stp s1 j = stp s j -> cb s1 j = cb s j ->
            (cbs s1 = cbs s \/ cbs s1 = ATLEAST) -> sp s1 = sp s ->
            Src req pre (set_rq s1 i p) j).
  { intros s1 p j Hne H0 H1 H2 H3 H4. apply (Src_frame _ _ s); cbn; rewrite ?upd_neq by exact Hne; auto;
      try (intros H; right; congruence). }
  destruct (rq s i) eqn:Hrq; try discriminate Hstep.
  - (* RSet: SET i *)
    apply ok3_set in Hok as [Hst Hcb]. rewrite Hst in Hstep.
    destruct Hcb as [Hcb|[Hcb|Hcb]]; rewrite Hcb in Hstep; injection Hstep as <- <-.
    + (* no callback yet: it will run inline in start() *)
      constructor; cbn; auto.
      * intros j. destruct (Nat.eq_dec j i) as [->|Hne].
        -- constructor; cbn; rewrite ?upd_eq; auto; try discriminate. rewrite Hcb. reflexivity.
        -- apply Hfr; cbn; rewrite ?upd_neq by exact Hne; auto.
      * apply (Phase_stable s); cbn; auto.
        intros j w l. destruct (Nat.eq_dec j i) as [->|Hne];
          [rewrite upd_eq, Hrq; split; discriminate|rewrite upd_neq by exact Hne; tauto].
      * intros H. destruct (Hg H) as (j & Hj & Hs). exists j. split; auto.
        unfold upd. destruct (Nat.eqb j i); auto.
    + (* a registered callback: claimed, runs on this thread *)
      assert (Hf : freed s = false).
      { destruct (phase_freed s Hph) as [H|H]; auto. specialize (H i Hle). rewrite Hcb in H.
        discriminate. }
      constructor; cbn; rewrite ?Hf; auto.
      * intros j. destruct (Nat.eq_dec j i) as [->|Hne].
        -- constructor; cbn; rewrite ?upd_eq; auto; try discriminate.
        -- apply Hfr; cbn; rewrite ?upd_neq by exact Hne; auto.
      * apply (Phase_stable s); cbn; auto.
        -- intros j w l. destruct (Nat.eq_dec j i) as [->|Hne];
             [rewrite upd_eq, Hrq; split; discriminate|rewrite upd_neq by exact Hne; tauto].
        -- intros j. destruct (Nat.eq_dec j i) as [->|Hne];
             [rewrite upd_eq; auto|rewrite upd_neq by exact Hne; auto].
      * intros H. exists i. rewrite upd_eq. auto.
    + (* the callback has already been deregistered by complete() *)
      assert (Hat : cbs s = ATLEAST).
      { destruct (phase_cases_cb s i Hph Hle) as [H|[H|H]]; auto; [congruence|].
        rewrite Hcb in H. destruct H as [H|[H|[H|H]]]; discriminate. }
      constructor; cbn; auto.
      * intros j. destruct (Nat.eq_dec j i) as [->|Hne].
        -- constructor; cbn; rewrite ?upd_eq; auto; try discriminate. rewrite Hcb. reflexivity.
        -- apply Hfr; cbn; rewrite ?upd_neq by exact Hne; auto.
      * apply (Phase_stable s); cbn; auto.
        intros j w l. destruct (Nat.eq_dec j i) as [->|Hne];
          [rewrite upd_eq, Hrq; split; discriminate|rewrite upd_neq by exact Hne; tauto].
      * intros H. exists i. rewrite upd_eq. auto.
  - (* RXchg: the callback exchanges callbackState_ *)
    apply ok3_xchg in Hok as [Hcb Hst].
    assert (Hf : freed s = false).
    { destruct (phase_freed s Hph) as [H|H]; auto. specialize (H i Hle). rewrite Hcb in H.
      discriminate. }
    assert (Hgoal : cbs s <> ALLC ->
              Inv n req pre (set_rq (set_cbs (touch s) ATLEAST) i
                               (after_cb (set_cbs (touch s) ATLEAST) i))).
    { intros Hna. unfold after_cb. cbn. rewrite Hcb.
      constructor; cbn; rewrite ?Hf; auto.
      - intros j. destruct (Nat.eq_dec j i) as [->|Hne].
        + constructor; cbn; rewrite ?upd_eq; auto; try discriminate. rewrite Hcb, Hst. reflexivity.
        + apply Hfr; cbn; auto.
      - apply (Phase_stable s); cbn; auto.
        intros j w l. destruct (Nat.eq_dec j i) as [->|Hne];
          [rewrite upd_eq, Hrq; split; discriminate|rewrite upd_neq by exact Hne; tauto].
      - intros _. exists i. auto. }
    destruct (cbs s) eqn:Hcbs; injection Hstep as <- <-; try (apply Hgoal; discriminate).
    (* ALL_CONSTRUCTED_NOT_CALLED: this callback completes *)
    destruct (phase_allc s Hph Hcbs) as (Hsp & Hnr & [Hc0 _] & Hb).
    constructor; cbn; rewrite ?Hf; auto.
    + intros j. destruct (Nat.eq_dec j i) as [->|Hne].
      * constructor; cbn; rewrite ?upd_eq; auto; try discriminate. rewrite Hcb, Hst. reflexivity.
      * apply Hfr; cbn; auto.
    + apply (PhCompR _ i false (skip (cb s) (order (nsrc s)))); cbn; rewrite ?upd_eq; auto.
      * intros j w' l'. destruct (Nat.eq_dec j i) as [->|Hne]; auto.
        rewrite upd_neq by exact Hne. intros H. exfalso. eapply Hnr; eauto.
      * split; auto.
      * refine (comp_enter (S i) (set_rq (set_cbs (touch s) ATLEAST) i _) _ _ _); cbn; auto.
        intros i0 Hi0. injection Hi0 as <-. auto.
    + intros _. exists i. auto.
  - (* RComp: inside complete(), called from this requester's callback *)
    destruct (phase_rcomp s i w todo Hph Hrq) as (Hsp & _ & Hun & [Hc0 Hf0] & HC).
    destruct (comp_step (S i) w todo s) as [[[s1 evs1] [[w' todo']|]]|] eqn:Hcs;
      try discriminate Hstep; injection Hstep as <- <-.
    + destruct (comp_step_cont _ _ _ _ _ _ _ _ HC Hcs)
        as (HC' & (E1 & E2 & E3 & E4 & E5 & E6 & E7 & E8 & E9) & Htr).
      pose proof (c_cbs _ _ _ _ HC) as Hat.
      constructor; cbn; try congruence.
      * intros j. apply (Src_comp _ _ s); cbn; rewrite ?E2, ?E3, ?E4; auto.
        -- destruct (Nat.eq_dec j i) as [->|Hne];
             [rewrite upd_eq; right; eauto 8|rewrite upd_neq by exact Hne; auto].
        -- destruct (Htr j) as [H|[H|[H|(H1 & H2 & H3)]]]; auto.
           injection H3 as <-. right; right; right. eauto.
      * apply (PhCompR _ i w' todo'); cbn; rewrite ?upd_eq; auto; try congruence.
        -- intros j w0 l0. destruct (Nat.eq_dec j i) as [->|Hne]; auto.
           rewrite upd_neq, E4 by exact Hne. apply Hun.
        -- split; cbn; congruence.
        -- apply (CompInv_ext _ _ _ s1); auto.
      * rewrite E9, Hf0. exact Hlate.
      * intros H. rewrite E1, E3. apply Hg. congruence.
    + destruct (comp_step_fin _ _ _ _ _ _ Hcs) as [-> ->].
      pose proof (comp_all_torn _ _ _ HC) as Hall.
      pose proof (c_cbs _ _ _ _ HC) as Hat.
      assert (Hrem : cb s i = BRemoved).
      { apply (c_self _ _ _ _ HC i eq_refl). intros []. }
      unfold after_cb. cbn. rewrite Hrem.
      constructor; cbn; auto.
      * intros j. destruct (Nat.eq_dec j i) as [->|Hne].
        -- apply ok3_comp in Hok as [Hst _].
           constructor; cbn; rewrite ?upd_eq; auto; try discriminate.
           rewrite Hrem, Hst. reflexivity.
        -- apply Hfr; cbn; auto.
      * apply PhDone; cbn; auto; try congruence.
        intros j w0 l0. cbn. destruct (Nat.eq_dec j i) as [->|Hne];
          [rewrite upd_eq; discriminate|rewrite upd_neq by exact Hne].
        intros H. apply Hne. eapply Hun; eauto.
      * rewrite (proj2 (all_torn_iff s) Hall). exact Hbad.
  - (* RStore: CBDONE i *)
    apply ok3_store in Hok as [Hcb Hst]. injection Hstep as <- <-.
    assert (Hf : freed s = false).
    { destruct (phase_freed s Hph) as [H|H]; auto. specialize (H i Hle). rewrite Hcb in H.
      discriminate. }
    constructor; cbn; rewrite ?Hf; auto.
    + intros j. destruct (Nat.eq_dec j i) as [->|Hne].
      * constructor; cbn; rewrite ?upd_eq; auto; try discriminate.
        -- rewrite Hst. reflexivity.
        -- intros H. destruct (Hk H) as [H1|[H1|[H1|H1]]]; auto; congruence.
      * apply Hfr; cbn; rewrite ?upd_neq by exact Hne; auto.
    + apply (Phase_stable s); cbn; auto.
      * intros j w l. destruct (Nat.eq_dec j i) as [->|Hne];
          [rewrite upd_eq, Hrq; split; discriminate|rewrite upd_neq by exact Hne; tauto].
      * intros j. destruct (Nat.eq_dec j i) as [->|Hne];
          [rewrite upd_eq|rewrite upd_neq by exact Hne; auto].
        right; right. repeat split; auto. intros w l. rewrite Hrq. discriminate.
Qed.

Lemma owner_inv n req pre s s' evs :
  Inv n req pre s -> step_owner s = Some (s', evs) -> Inv n req pre s'.
Proof.
  intros [Hn Hsrc Hph Hlate Hbad Hg] Hstep. unfold step_owner in Hstep.
  destruct (freed s && negb (destroyed s)); [|discriminate Hstep]. injection Hstep as <- <-.
  constructor; cbn; auto.
  - intros j. apply (Src_frame _ _ s); cbn; auto.
  - apply (Phase_stable s); cbn; auto. tauto.
Qed.

Lemma step_inv n req pre t s s' evs :
  Inv n req pre s -> step t s = Some (s', evs) -> Inv n req pre s'.
Proof.
  intros HI Hstep. unfold step in Hstep. destruct t as [|i].
  - eapply start_inv; eauto.
  - destruct (Nat.leb i (nsrc s)) eqn:Hle.
    + apply Nat.leb_le in Hle. eapply req_inv; eauto.
    + destruct (Nat.eqb i (S (nsrc s))); [eapply owner_inv; eauto|discriminate Hstep].
Qed.

(* the invariant holds in every reachable state *)
Theorem inv_reachable n req pre sched :
  Inv n req pre (fst (run step sched (init n req pre, []))).
Proof.
  apply (run_invariant_state st nat ev step (Inv n req pre)).
  - intros s t s' evs HI Hs. eapply step_inv; eauto.
  - apply Inv_init.
Qed.

(* ------------------------------------------------------------------------------------------ *)
(* consequences (state level)                                                                 *)

Lemma Inv_completions_le n req pre s : Inv n req pre s -> completions s <= 1.
Proof.
  intros HI. destruct (i_ph _ _ _ _ HI)
    as [? ? ? ? [H ?]|? ? ? ? [H ?]|? ? [H ?]|? ? ? [H ?]|? ? ? ? [H ?]|? ? ? ? ? ? ? [H ?]|? ? H];
    rewrite H; lia.
Qed.

Lemma Inv_freed_iff n req pre s : Inv n req pre s -> (freed s = true <-> completions s = 1).
Proof.
  intros HI. destruct (i_ph _ _ _ _ HI)
    as [? ? ? ? [H H']|? ? ? ? [H H']|? ? [H H']|? ? ? [H H']|? ? ? ? [H H']|? ? ? ? ? ? ? [H H']
       |? ? H H']; rewrite H, H'; split; intros; try discriminate; auto.
Qed.

(* after the completion: start() has returned, nobody is inside complete(), every callback is
   torn down, no requester is executing a callback *)
Lemma Inv_after_completion n req pre s :
  Inv n req pre s -> completions s <> 0 ->
  sp s = SFin /\ freed s = true /\ cbs s = ATLEAST /\
  (forall j, j <= nsrc s -> torn (cb s j) = true /\
     (rq s j = RSet \/ rq s j = RFin)).
Proof.
  intros HI Hc. destruct (i_ph _ _ _ _ HI)
    as [? ? ? ? [H ?]|? ? ? ? [H ?]|? ? [H ?]|? ? ? [H ?]|? ? ? ? [H ?]|? ? ? ? ? ? ? [H ?]
       |Hsp Hnr Hc1 Hf Hcbs Ht]; try congruence.
  repeat split; auto.
  pose proof (s_ok _ _ _ _ (i_src _ _ _ _ HI j)) as Hok. specialize (Ht j H).
  destruct (rq s j) eqn:Hr; auto.
  - apply ok3_xchg in Hok as [Hcb _]. rewrite Hcb in Ht. discriminate.
  - exfalso. eapply Hnr; eauto.
  - apply ok3_store in Hok as [Hcb _]. rewrite Hcb in Ht. discriminate.
Qed.

Lemma in_seq0 n i : In i (seq 0 (S n)) <-> i <= n.
Proof. rewrite in_seq. lia. Qed.

Lemma quiescent_spec s :
  quiescent s = true ->
  sp s = SFin /\ (forall i, i <= nsrc s -> rq s i = RFin) /\ (freed s = true -> destroyed s = true).
Proof.
  unfold quiescent. intros H. apply andb_true_iff in H as [H Ho]. apply andb_true_iff in H as [Hs Hr].
  repeat split.
  - destruct (sp s); try discriminate Hs; reflexivity.
  - intros i Hi. rewrite forallb_forall in Hr. specialize (Hr i (proj2 (in_seq0 _ _) Hi)).
    destruct (rq s i); try discriminate Hr; reflexivity.
  - intros Hf. rewrite Hf in Ho. exact Ho.
Qed.

(* no lost completion *)
Lemma Inv_no_lost n req pre s :
  Inv n req pre s -> quiescent s = true -> any_stop n req pre = true -> completions s = 1.
Proof.
  intros HI Hq Hany. destruct (quiescent_spec s Hq) as (Hsp & Hr & _).
  unfold any_stop in Hany. apply existsb_exists in Hany as (i & Hi & Hrp).
  apply in_seq0 in Hi. rewrite <- (i_n _ _ _ _ HI) in Hi.
  pose proof (i_src _ _ _ _ HI i) as [Hok Hset Hk Hreq Hpre Hprov].
  assert (Hst : stp s i = true).
  { apply orb_true_iff in Hrp as [H|H]; auto.
    destruct (Hreq H) as [H'|H']; auto. rewrite (Hr i Hi) in H'. discriminate. }
  destruct (i_ph _ _ _ _ HI)
    as [? Hsp' ? ? ? ? ? ?|? Hsp' ? ? ? ? ? ? ?|Hsp' ? ? ? ?|_ Hcbs _ _ Hb|? ? Hsp' ? ? ?
       |i0 ? ? _ Hle Hr0 _ _ _|_ _ Hc _ _ _]; try congruence.
  - (* armed although source i is stopped: impossible *)
    exfalso. destruct (Hk Hst) as [H|[H|[H|H]]]; try congruence.
    + specialize (Hb i Hi). rewrite H in Hb. destruct Hb as [Hb|[Hb|[Hb|Hb]]]; discriminate.
    + rewrite (Hr i Hi) in H. discriminate.
  - rewrite (Hr i0 Hle) in Hr0. discriminate.
Qed.

(* completed only after a stop request on one of the sources *)
Lemma Inv_only_after_stop n req pre s :
  Inv n req pre s -> completions s <> 0 ->
  exists i, i <= n /\ stp s i = true /\ (req i = true \/ pre i = true).
Proof.
  intros HI Hc. destruct (Inv_after_completion _ _ _ _ HI Hc) as (_ & _ & Hcbs & _).
  destruct (i_g _ _ _ _ HI Hcbs) as (i & Hi & Hs). exists i.
  rewrite <- (i_n _ _ _ _ HI). repeat split; auto. apply (s_prov _ _ _ _ (i_src _ _ _ _ HI i) Hs).
Qed.

Lemma Inv_never_without_stop n req pre s :
  Inv n req pre s -> any_stop n req pre = false -> completions s = 0.
Proof.
  intros HI Hany. destruct (Nat.eq_dec (completions s) 0) as [H|H]; auto. exfalso.
  destruct (Inv_only_after_stop _ _ _ _ HI H) as (i & Hi & _ & Hrp).
  assert (any_stop n req pre = true); [|congruence].
  unfold any_stop. apply existsb_exists. exists i. split; [now apply in_seq0|].
  apply orb_true_iff. tauto.
Qed.

(* ------------------------------------------------------------------------------------------ *)
(* progress: no deadlock                                                                      *)

Lemma step_req_unfold i s : i <= nsrc s -> step (S i) s = step_req i s.
Proof. intros H. unfold step. apply Nat.leb_le in H. now rewrite H. Qed.

Lemma req_enabled n req pre s i :
  Inv n req pre s -> i <= nsrc s -> rq s i = RSet \/ rq s i = RXchg \/ rq s i = RStore ->
  step (S i) s <> None.
Proof.
  intros HI Hi Hr. rewrite (step_req_unfold _ _ Hi). unfold step_req.
  pose proof (s_ok _ _ _ _ (i_src _ _ _ _ HI i)) as Hok.
  destruct Hr as [Hr|[Hr|Hr]]; rewrite Hr in *.
  - apply ok3_set in Hok as [Hst _]. rewrite Hst. destruct (cb s i); discriminate.
  - destruct (cbs s); discriminate.
  - discriminate.
Qed.

Lemma comp_progress t w todo s :
  CompInv t w todo s ->
  comp_step t w todo s <> None \/ exists k, k <= nsrc s /\ t <> S k /\ cb s k = BExec.
Proof.
  intros HC. unfold comp_step. destruct todo as [|k r]; [left; discriminate|].
  destruct w.
  - destruct (c_wait _ _ _ _ HC eq_refl) as (k' & r' & Heq & Hk & Hne). injection Heq as <- <-.
    destruct Hk as [Hk|Hk]; rewrite Hk; [right|left; discriminate].
    exists k. repeat split; auto. eapply comp_in_le; eauto. now left.
  - left. destruct (comp_head_pending _ _ _ _ _ HC eq_refl) as [H|[H|H]]; rewrite H;
      try destruct (Nat.eqb t (S k)); discriminate.
Qed.

Lemma forallb_false_ex {A} (f : A -> bool) l :
  forallb f l = false -> exists a, In a l /\ f a = false.
Proof.
  induction l as [|a l IH]; cbn; [discriminate|].
  destruct (f a) eqn:Ea; cbn.
  - intros H. destruct (IH H) as (x & Hx & Hr). exists x. auto.
  - intros _. exists a. auto.
Qed.

Lemma progress_inv n req pre s :
  Inv n req pre s -> quiescent s = false -> exists t, step t s <> None.
Proof.
  intros HI Hq.
  (* a requester (other than one inside complete()) that has not finished can move *)
  assert (Hreq : (forall i w l, i <= nsrc s -> rq s i <> RComp w l) ->
                 forallb (fun i => rfin (rq s i)) (seq 0 (S (nsrc s))) = false ->
                 exists t, step t s <> None).
  { intros Hnr Hf.
    assert (Hex : exists i, i <= nsrc s /\ rq s i <> RFin).
    { destruct (forallb_false_ex _ _ Hf) as (i & Hi & Hr). exists i. split.
      - apply in_seq in Hi. lia.
      - intros H. rewrite H in Hr. discriminate. }
    destruct Hex as (i & Hi & Hr). exists (S i).
    eapply req_enabled; eauto.
    destruct (rq s i) eqn:E; auto; try congruence. exfalso. eapply Hnr; eauto. }
  pose proof (i_ph _ _ _ _ HI) as Hph.
  destruct Hph as [i Hsp Hle Hnr Hq0 Hna Hlt Hge|i Hsp Hle Hnr Hq0 Hna Hlt Hi Hgt|Hsp Hnr Hq0 Hna Hb
         |Hsp Hcbs Hnr Hq0 Hb|w todo Hsp Hnr Hq0 HC|i w todo Hsp Hle Hr Hun Hq0 HC
         |Hsp Hnr Hc1 Hf1 Hcbs Ht].
  - exists 0. cbn. unfold step_start. rewrite Hsp. apply Nat.leb_le in Hle. rewrite Hle.
    destruct (stp s i); discriminate.
  - exists 0. cbn. unfold step_start. rewrite Hsp. destruct (cbs s); discriminate.
  - exists 0. cbn. unfold step_start. rewrite Hsp. destruct (cbs s); discriminate.
  - (* armed *)
    unfold quiescent in Hq. rewrite Hsp in Hq. destruct Hq0 as [_ Hf]. rewrite Hf in Hq.
    change (sfin SFin) with true in Hq. change (negb false) with true in Hq.
    rewrite andb_true_l, orb_true_l, andb_true_r in Hq. apply Hreq; auto; try (intros j w l _; apply Hnr).
  - (* start() inside complete() *)
    destruct (comp_progress _ _ _ _ HC) as [H|(k & Hk & _ & Hex)].
    + exists 0. cbn. unfold step_start. rewrite Hsp.
      destruct (comp_step 0 w todo s) as [[[s1 evs1] [[w' todo']|]]|]; congruence.
    + exists (S k). eapply req_enabled; eauto.
      pose proof (s_ok _ _ _ _ (i_src _ _ _ _ HI k)) as Hok. rewrite Hex in Hok.
      apply ok3_exec in Hok as [_ [H|[H|(w0 & l0 & H)]]]; auto. exfalso. eapply Hnr; eauto.
  - (* requester i inside complete() *)
    destruct (comp_progress _ _ _ _ HC) as [H|(k & Hk & Hne & Hex)].
    + exists (S i). rewrite (step_req_unfold _ _ Hle). unfold step_req. rewrite Hr.
      destruct (comp_step (S i) w todo s) as [[[s1 evs1] [[w' todo']|]]|]; congruence.
    + exists (S k). eapply req_enabled; eauto.
      pose proof (s_ok _ _ _ _ (i_src _ _ _ _ HI k)) as Hok. rewrite Hex in Hok.
      apply ok3_exec in Hok as [_ [H|[H|(w0 & l0 & H)]]]; auto. exfalso.
      apply Hne. f_equal. symmetry. eapply Hun; eauto.
  - (* completed *)
    unfold quiescent in Hq. rewrite Hsp, Hf1 in Hq.
    change (sfin SFin) with true in Hq. change (negb true) with false in Hq.
    rewrite andb_true_l, orb_false_l in Hq.
    destruct (forallb (fun i => rfin (rq s i)) (seq 0 (S (nsrc s)))) eqn:E.
    + rewrite andb_true_l in Hq. exists (S (S (nsrc s))). unfold step.
      assert (Hl : Nat.leb (S (nsrc s)) (nsrc s) = false) by (apply Nat.leb_gt; lia).
      rewrite Hl, Nat.eqb_refl. unfold step_owner. rewrite Hf1, Hq. discriminate.
    + apply Hreq; auto; try (intros j w l _; apply Hnr).
Qed.

(* ------------------------------------------------------------------------------------------ *)
(* what a step that completes the receiver / a step after the completion looks like            *)

Lemma comp_step_root t w todo s s1 evs r :
  comp_step t w todo s = Some (s1, evs, r) -> In ERoot evs -> todo = [].
Proof.
  unfold comp_step. destruct todo as [|k l]; [reflexivity|].
  destruct w; destruct (cb s k); try discriminate; try destruct (Nat.eqb t (S k));
    intros H; injection H as <- <- <-; cbn; intros [Hf|[]]; discriminate Hf.
Qed.

Lemma root_step t s s' evs :
  step t s = Some (s', evs) -> In ERoot evs ->
  (t = 0 /\ exists ret w, sp s = SComp ret w []) \/
  (exists i w, t = S i /\ i <= nsrc s /\ rq s i = RComp w []).
Proof.
  unfold step. destruct t as [|i].
  - unfold step_start. intros Hs Hin. left. split; [reflexivity|].
    destruct (sp s) as [i|i| |ret w todo|] eqn:Hsp; try discriminate Hs.
    + destruct (Nat.leb i (nsrc s)); [|discriminate Hs].
      destruct (stp s i); injection Hs as <- <-; destruct Hin as [H|[]]; discriminate H.
    + destruct (cbs s); injection Hs as <- <-; destruct Hin as [H|[]]; discriminate H.
    + destruct (cbs s); injection Hs as <- <-; destruct Hin as [H|[]]; discriminate H.
    + destruct (comp_step 0 w todo s) as [[[s1 evs1] r]|] eqn:Hcs; [|discriminate Hs].
      assert (evs = evs1) by (destruct r as [[? ?]|]; injection Hs as _ <-; reflexivity). subst evs1.
      rewrite (comp_step_root _ _ _ _ _ _ _ Hcs Hin). eauto.
  - destruct (Nat.leb i (nsrc s)) eqn:Hle.
    + apply Nat.leb_le in Hle. unfold step_req. intros Hs Hin. right.
      destruct (rq s i) as [| |w todo| |] eqn:Hr; try discriminate Hs.
      * destruct (stp s i); [discriminate Hs|].
        destruct (cb s i); injection Hs as <- <-; destruct Hin as [H|[]]; discriminate H.
      * destruct (cbs s); injection Hs as <- <-; destruct Hin as [H|[]]; discriminate H.
      * destruct (comp_step (S i) w todo s) as [[[s1 evs1] r]|] eqn:Hcs; [|discriminate Hs].
        assert (evs = evs1) by (destruct r as [[? ?]|]; injection Hs as _ <-; reflexivity).
        subst evs1. pose proof (comp_step_root _ _ _ _ _ _ _ Hcs Hin) as ->. eauto.
      * injection Hs as <- <-. destruct Hin as [H|[]]; discriminate H.
    + destruct (Nat.eqb i (S (nsrc s))); [|discriminate].
      unfold step_owner. destruct (freed s && negb (destroyed s)); [|discriminate].
      intros Hs Hin. injection Hs as <- <-. destruct Hin as [H|[]]; discriminate H.
Qed.

(* at the step that completes the receiver every callback is deregistered or ran inline;
   in particular none is executing *)
Lemma Inv_torn_at_completion n req pre t s s' evs :
  Inv n req pre s -> step t s = Some (s', evs) -> In ERoot evs ->
  forall k, k <= n -> torn (cb s k) = true /\ cb s k <> BExec /\ cb s k <> BReg.
Proof.
  intros HI Hs Hin k Hk. rewrite <- (i_n _ _ _ _ HI) in Hk.
  assert (Ht : torn (cb s k) = true).
  { destruct (root_step _ _ _ _ Hs Hin) as [(-> & ret & w & Hsp)|(i & w & -> & Hi & Hr)].
    - destruct (i_ph _ _ _ _ HI)
        as [? Hsp' ? ? ? ? ? ?|? Hsp' ? ? ? ? ? ? ?|Hsp' ? ? ? ?|Hsp' ? ? ? ?|w0 todo0 Hsp' _ _ HC
           |? ? ? Hsp' ? ? ? ? ?|Hsp' ? ? ? ? ?]; try congruence.
      rewrite Hsp in Hsp'. injection Hsp' as _ <- <-. eapply comp_all_torn; eauto.
    - destruct (phase_rcomp _ _ _ _ (i_ph _ _ _ _ HI) Hr) as (_ & _ & _ & _ & HC).
      eapply comp_all_torn; eauto. }
  split; [exact Ht|]. split; intros H; rewrite H in Ht; discriminate.
Qed.

(* after the completion the only possible steps are the owner's destruction of the operation
   and SET on a source whose callback is gone (no access to the operation at all) *)
Lemma Inv_quiet_step n req pre t s s' evs :
  Inv n req pre s -> freed s = true -> step t s = Some (s', evs) ->
  (t = S (S n) /\ evs = [EDestroy]) \/
  (exists i, i <= n /\ t = S i /\ evs = [ESet i] /\ torn (cb s i) = true /\
             cb s' = cb s /\ cbs s' = cbs s).
Proof.
  intros HI Hf Hs.
  assert (Hc : completions s <> 0).
  { apply (Inv_freed_iff _ _ _ _ HI) in Hf. lia. }
  destruct (Inv_after_completion _ _ _ _ HI Hc) as (Hsp & _ & _ & Hall).
  pose proof (i_n _ _ _ _ HI) as Hn.
  unfold step in Hs. destruct t as [|i].
  - unfold step_start in Hs. rewrite Hsp in Hs. discriminate Hs.
  - destruct (Nat.leb i (nsrc s)) eqn:Hle.
    + apply Nat.leb_le in Hle. destruct (Hall i Hle) as [Ht Hr]. right. exists i.
      unfold step_req in Hs. destruct Hr as [Hr|Hr]; rewrite Hr in Hs; [|discriminate Hs].
      destruct (stp s i); [discriminate Hs|].
      destruct (cb s i) eqn:Hcb; try discriminate Ht; injection Hs as <- <-;
        repeat split; auto; lia.
    + destruct (Nat.eqb_spec i (S (nsrc s))) as [->|]; [|discriminate Hs].
      unfold step_owner in Hs. destruct (freed s && negb (destroyed s)); [|discriminate Hs].
      injection Hs as <- <-. left. rewrite Hn. auto.
Qed.

(* ------------------------------------------------------------------------------------------ *)
(* trace level: the ERoot events are exactly the completions                                   *)

Definition is_root (e : ev) : bool := match e with ERoot => true | _ => false end.

Lemma comp_step_count t w todo s s1 evs r :
  comp_step t w todo s = Some (s1, evs, r) ->
  completions s1 = completions s + length (filter is_root evs).
Proof.
  unfold comp_step. destruct todo as [|k l].
  - intros H. injection H as <- <- _. cbn. lia.
  - destruct w; destruct (cb s k); try discriminate; try destruct (Nat.eqb t (S k));
      intros H; injection H as <- <- _; cbn; lia.
Qed.

Lemma step_count t s s' evs :
  step t s = Some (s', evs) -> completions s' = completions s + length (filter is_root evs).
Proof.
  unfold step. destruct t as [|i].
  - unfold step_start. destruct (sp s) as [i|i| |ret w todo|]; try discriminate.
    + destruct (Nat.leb i (nsrc s)); [|discriminate].
      destruct (stp s i); intros H; injection H as <- <-; cbn; lia.
    + destruct (cbs s); intros H; injection H as <- <-; cbn; lia.
    + destruct (cbs s); intros H; injection H as <- <-; cbn; lia.
    + destruct (comp_step 0 w todo s) as [[[s1 evs1] r]|] eqn:Hcs; [|discriminate].
      apply comp_step_count in Hcs.
      destruct r as [[? ?]|]; intros H; injection H as <- <-; cbn; exact Hcs.
  - destruct (Nat.leb i (nsrc s)).
    + unfold step_req. destruct (rq s i) as [| |w todo| |]; try discriminate.
      * destruct (stp s i); [discriminate|].
        destruct (cb s i); intros H; injection H as <- <-; cbn; lia.
      * destruct (cbs s); intros H; injection H as <- <-; cbn; lia.
      * destruct (comp_step (S i) w todo s) as [[[s1 evs1] r]|] eqn:Hcs; [|discriminate].
        apply comp_step_count in Hcs.
        destruct r as [[? ?]|]; intros H; injection H as <- <-; cbn; exact Hcs.
      * intros H; injection H as <- <-; cbn; lia.
    + destruct (Nat.eqb i (S (nsrc s))); [|discriminate].
      unfold step_owner. destruct (freed s && negb (destroyed s)); [|discriminate].
      intros H; injection H as <- <-; cbn; lia.
Qed.

Lemma roots_reachable n req pre sched :
  let c := run step sched (init n req pre, []) in
  length (filter is_root (snd c)) = completions (fst c).
Proof.
  cbv zeta.
  apply (run_invariant st nat ev step
           (fun c => length (filter is_root (snd c)) = completions (fst c))).
  - intros c t s' evs HI Hs. cbn [fst snd]. rewrite filter_app, app_length, HI.
    symmetry. apply step_count with (t := t). exact Hs.
  - reflexivity.
Qed.

(* ------------------------------------------------------------------------------------------ *)
(* the requested statements: for all n, all requested / pre-stopped sets, all schedules        *)

Section Main.
  Variable n : nat.
  Variables req pre : nat -> bool.
  Variable sched : list nat.
  Let c := run step sched (init n req pre, []).
  Let s := fst c.
  Let tr := snd c.

  (* 1. one completer: never two completions; exactly one at quiescence as soon as one source
        is requested or was already stopped; none if no source is ever stopped *)
  Theorem one_completer :
    completions s <= 1 /\
    (quiescent s = true -> any_stop n req pre = true -> completions s = 1) /\
    (any_stop n req pre = false -> completions s = 0).
  Proof.
    pose proof (inv_reachable n req pre sched) as HI. fold c in HI. fold s in HI.
    split; [eapply Inv_completions_le; eauto|]. split.
    - eapply Inv_no_lost; eauto.
    - eapply Inv_never_without_stop; eauto.
  Qed.

  (* 2. the receiver is completed only by set_done (ERoot is the only completion event of the
        model and the trace has exactly [completions] of them) and only after a stop request on
        one of the n+1 sources, which was asked for by the environment *)
  Theorem completed_only_after_stop :
    length (filter is_root tr) = completions s /\
    (completions s <> 0 ->
     exists i, i <= n /\ stp s i = true /\ (req i = true \/ pre i = true)).
  Proof.
    split; [exact (roots_reachable n req pre sched)|].
    eapply Inv_only_after_stop, inv_reachable.
  Qed.

  (* 3. at the step that completes the receiver every callback 0..n is deregistered or ran
        inline (torn), none is executing, none is still registered; the ghost counter of
        incomplete teardowns stays 0 *)
  Theorem callbacks_torn_down_before_completion :
    badtd s = 0 /\
    forall t s' evs, step t s = Some (s', evs) -> In ERoot evs ->
      forall k, k <= n -> torn (cb s k) = true /\ cb s k <> BExec /\ cb s k <> BReg.
  Proof.
    pose proof (inv_reachable n req pre sched) as HI. fold c in HI. fold s in HI.
    split; [apply (i_badtd _ _ _ _ HI)|].
    intros t s' evs. eapply Inv_torn_at_completion; eauto.
  Qed.

  (* 4. quiet after completion: no access to callbackState_ or to a callback object is ever
        made after the receiver was completed; once it is completed start() has returned, every
        callback is torn down, every requester is either done or has not yet set its stop flag,
        and the only steps left are the owner's destruction and SET on a source that no longer
        has a callback (in particular nobody stores callbackCompleted_) *)
  Theorem quiet_after_completion :
    late s = 0 /\
    (freed s = true <-> completions s = 1) /\
    (completions s <> 0 ->
       sp s = SFin /\ freed s = true /\ cbs s = ATLEAST /\
       forall j, j <= nsrc s -> torn (cb s j) = true /\ (rq s j = RSet \/ rq s j = RFin)) /\
    (freed s = true -> forall t s' evs, step t s = Some (s', evs) ->
       (t = S (S n) /\ evs = [EDestroy]) \/
       (exists i, i <= n /\ t = S i /\ evs = [ESet i] /\ torn (cb s i) = true /\
                  cb s' = cb s /\ cbs s' = cbs s)).
  Proof.
    pose proof (inv_reachable n req pre sched) as HI. fold c in HI. fold s in HI.
    split; [apply (i_late _ _ _ _ HI)|]. split; [eapply Inv_freed_iff; eauto|]. split.
    - eapply Inv_after_completion; eauto.
    - intros Hf t s' evs. eapply Inv_quiet_step; eauto.
  Qed.

  (* 5. no deadlock: in every reachable state that is not quiescent some thread can move; in
        particular the spin on callbackCompleted_ never waits for the spinning thread itself
        and never for a callback that nobody will finish *)
  Theorem progress : quiescent s = false -> exists t, step t s <> None.
  Proof. eapply progress_inv, inv_reachable. Qed.

  Theorem inv_holds : Inv n req pre s.
  Proof. apply inv_reachable. Qed.
End Main.
