(* E1 model EventLoop: manual_event_loop / single_thread_context
   (include/unifex/manual_event_loop.hpp, source/manual_event_loop.cpp,
   include/unifex/single_thread_context.hpp).
   One std::mutex, one condition_variable, a FIFO intrusive list (head_/tail_) and stop_.
   Threads: 0 = owner of the context (creates the worker thread, later stop() + join, i.e.
   the destructor of single_thread_context); 1..k = producers, producer p starts its schedule()
   operations p.0, p.1, ... (each start() is one enqueue()); k+1 = a thread requesting stop on the
   stop sources of some items; k+2 = the worker running run(); k+3 = "the environment" whose only
   step is a spurious wake-up of cv_.wait (never taken by the implementation under the shim, but
   every theorem quantifies over schedules that contain it).
   Every mutex / condvar operation is one step; the private list manipulation made while the
   mutex is held is folded into the step that acquired it.
   Executable definitions only. *)
From Coq Require Import List Bool Arith.
Import ListNotations.

Module EventLoop.

(* item p.j : j-th operation started by producer p (p = its thread id, 1-based) *)
Definition item := (nat * nat)%type.

Definition item_eqb (a b : item) : bool := Nat.eqb (fst a) (fst b) && Nat.eqb (snd a) (snd b).
Definition mem (a : item) (l : list item) : bool := existsb (item_eqb a) l.

(* owner thread: single_thread_context ctor / dtor (single_thread_context.hpp:30-37) and
   manual_event_loop::stop (manual_event_loop.cpp:41-45) *)
Inductive mpc :=
| MSpawn        (* about to create the thread running loop_.run() *)
| MLock         (* stop(): about to lock mutex_ (then stop_ = true) *)
| MNotify       (* holds the mutex: about to cv_.notify_all() *)
| MUnlock       (* about to unlock (unique_lock destructor) *)
| MJoin         (* thread_.join() *)
| MDone.

(* producer: manual_event_loop.cpp:47-60 enqueue() of its j-th item; finished when j = count *)
Inductive ppc :=
| PLock (j : nat)     (* about to lock mutex_; then push item j at the tail *)
| PNotify (j : nat)   (* holds the mutex, list was empty: about to cv_.notify_one() *)
| PUnlock (j : nat).  (* about to unlock *)

(* worker: manual_event_loop.cpp:22-39 run() *)
Inductive wpc :=
| WNotStarted
| WLock                 (* about to lock: unique_lock ctor (line 23) or lock.lock() (line 37) *)
| WWait                 (* holds the mutex, head_ == nullptr and not stop_: about to cv_.wait (28) *)
| WBlocked (notified : bool)  (* inside cv_.wait, mutex released; notified = may re-acquire *)
| WUnlockExec (t : item)      (* holds the mutex, popped t (30-34): about to lock.unlock() (35) *)
| WExec (t : item)            (* about to task->execute() (36) *)
| WUnlockRet            (* holds the mutex, empty and stop_: return (27), ~unique_lock unlocks *)
| WDone.

Record st := {
  race : bool;                  (* false: stop() only after every producer returned from its last start() *)
  mtx : option nat;             (* owner of mutex_ *)
  queue : list item;            (* head_ ... tail_, head first *)
  stopf : bool;                 (* stop_ *)
  mainpc : mpc;
  prods : list (nat * ppc);     (* per producer: number of items, program counter *)
  tocancel : list item;         (* stop requests still to be made, in order *)
  cancelled : list item;        (* items whose stop source has been requested to stop *)
  wk : wpc;
  (* ghost *)
  enq : list item;              (* every item ever pushed, in the order of the pushes (oldest first) *)
  late : list item;             (* items pushed while stop_ was already true *)
  executed : list (item * bool) (* completions, oldest first; true = set_done, false = set_value *)
}.

Inductive ev :=
| ESpawn                     (* std::thread constructor *)
| ELock                      (* mutex_.lock() acquired (not by enqueue) *)
| EEnq (it : item)           (* mutex_.lock() acquired by enqueue(it): the linearisation point of the push *)
| EUnlock
| ENotifyOne
| ENotifyAll
| EWait                      (* cv_.wait: entered the wait-set (the mutex release follows in the same step) *)
| EJoin
| ECancel (it : item)        (* request_stop on the item's stop source took effect *)
| EObs (it : item) (b : bool)    (* execute_impl read stop_requested() *)
| ERun (it : item) (done : bool) (* the receiver is completed: set_done / set_value *)
| ESpurious.                 (* spurious wake-up *)

Definition init (rc : bool) (counts : list nat) (cancels : list item) : st :=
  {| race := rc; mtx := None; queue := []; stopf := false; mainpc := MSpawn;
     prods := map (fun n => (n, PLock 0)) counts; tocancel := cancels; cancelled := [];
     wk := WNotStarted; enq := []; late := []; executed := [] |}.

Fixpoint set_nth {A} (n : nat) (x : A) (l : list A) : list A :=
  match l, n with
  | [], _ => []
  | _ :: r, O => x :: r
  | y :: r, S n' => y :: set_nth n' x r
  end.

Definition nprods (s : st) : nat := length (prods s).
Definition cancel_tid (s : st) : nat := S (nprods s).
Definition worker_tid (s : st) : nat := S (S (nprods s)).
Definition spur_tid (s : st) : nat := S (S (S (nprods s))).

(* field updates *)
Definition set_mtx (s : st) (m : option nat) : st :=
  {| race := race s; mtx := m; queue := queue s; stopf := stopf s; mainpc := mainpc s;
     prods := prods s; tocancel := tocancel s; cancelled := cancelled s; wk := wk s;
     enq := enq s; late := late s; executed := executed s |}.
Definition set_main (s : st) (p : mpc) : st :=
  {| race := race s; mtx := mtx s; queue := queue s; stopf := stopf s; mainpc := p;
     prods := prods s; tocancel := tocancel s; cancelled := cancelled s; wk := wk s;
     enq := enq s; late := late s; executed := executed s |}.
Definition set_stop (s : st) : st :=
  {| race := race s; mtx := mtx s; queue := queue s; stopf := true; mainpc := mainpc s;
     prods := prods s; tocancel := tocancel s; cancelled := cancelled s; wk := wk s;
     enq := enq s; late := late s; executed := executed s |}.
Definition set_prod (s : st) (i : nat) (p : nat * ppc) : st :=
  {| race := race s; mtx := mtx s; queue := queue s; stopf := stopf s; mainpc := mainpc s;
     prods := set_nth i p (prods s); tocancel := tocancel s; cancelled := cancelled s; wk := wk s;
     enq := enq s; late := late s; executed := executed s |}.
Definition set_wk (s : st) (w : wpc) : st :=
  {| race := race s; mtx := mtx s; queue := queue s; stopf := stopf s; mainpc := mainpc s;
     prods := prods s; tocancel := tocancel s; cancelled := cancelled s; wk := w;
     enq := enq s; late := late s; executed := executed s |}.
Definition set_queue (s : st) (q : list item) : st :=
  {| race := race s; mtx := mtx s; queue := q; stopf := stopf s; mainpc := mainpc s;
     prods := prods s; tocancel := tocancel s; cancelled := cancelled s; wk := wk s;
     enq := enq s; late := late s; executed := executed s |}.
(* push at the tail (enqueue, lines 49-56) with the ghost bookkeeping *)
Definition push (s : st) (it : item) : st :=
  {| race := race s; mtx := mtx s; queue := queue s ++ [it]; stopf := stopf s; mainpc := mainpc s;
     prods := prods s; tocancel := tocancel s; cancelled := cancelled s; wk := wk s;
     enq := enq s ++ [it]; late := if stopf s then late s ++ [it] else late s;
     executed := executed s |}.
Definition add_executed (s : st) (it : item) (b : bool) : st :=
  {| race := race s; mtx := mtx s; queue := queue s; stopf := stopf s; mainpc := mainpc s;
     prods := prods s; tocancel := tocancel s; cancelled := cancelled s; wk := wk s;
     enq := enq s; late := late s; executed := executed s ++ [(it, b)] |}.
Definition do_cancel (s : st) (it : item) (r : list item) : st :=
  {| race := race s; mtx := mtx s; queue := queue s; stopf := stopf s; mainpc := mainpc s;
     prods := prods s; tocancel := r; cancelled := it :: cancelled s; wk := wk s;
     enq := enq s; late := late s; executed := executed s |}.

Definition mtx_free (s : st) : bool := match mtx s with None => true | Some _ => false end.

(* cv_.notify_one / notify_all with a single possible waiter: the worker leaves the wait-set *)
Definition wake (w : wpc) : wpc := match w with WBlocked false => WBlocked true | _ => w end.

Definition prod_done (p : nat * ppc) : bool :=
  match snd p with PLock j => Nat.leb (fst p) j | _ => false end.
Definition all_prods_done (s : st) : bool := forallb prod_done (prods s).

(* the worker has just acquired the mutex inside run(): lines 25-34 *)
Definition worker_acquired (s : st) : st :=
  let s1 := set_mtx s (Some (worker_tid s)) in
  match queue s with
  | t :: q => set_wk (set_queue s1 q) (WUnlockExec t)
  | [] => set_wk s1 (if stopf s then WUnlockRet else WWait)
  end.

Definition step_main (s : st) : option (st * list ev) :=
  match mainpc s with
  | MSpawn => Some (set_wk (set_main s MLock) WLock, [ESpawn])
  | MLock =>
      if mtx_free s && (race s || all_prods_done s)
      then Some (set_stop (set_main (set_mtx s (Some 0)) MNotify), [ELock])
      else None
  | MNotify => Some (set_wk (set_main s MUnlock) (wake (wk s)), [ENotifyAll])
  | MUnlock => Some (set_main (set_mtx s None) MJoin, [EUnlock])
  | MJoin => match wk s with WDone => Some (set_main s MDone, [EJoin]) | _ => None end
  | MDone => None
  end.

(* producer number i (thread id S i) *)
Definition step_prod (i : nat) (s : st) : option (st * list ev) :=
  match nth_error (prods s) i with
  | None => None
  | Some (n, PLock j) =>
      if Nat.ltb j n && mtx_free s then
        let it := (S i, j) in
        let was_empty := match queue s with [] => true | _ => false end in
        let s1 := push (set_mtx s (Some (S i))) it in
        Some (set_prod s1 i (n, if was_empty then PNotify j else PUnlock j), [EEnq it])
      else None
  | Some (n, PNotify j) => Some (set_wk (set_prod s i (n, PUnlock j)) (wake (wk s)), [ENotifyOne])
  | Some (n, PUnlock j) => Some (set_prod (set_mtx s None) i (n, PLock (S j)), [EUnlock])
  end.

Definition step_cancel (s : st) : option (st * list ev) :=
  match tocancel s with
  | [] => None
  | it :: r => Some (do_cancel s it r, [ECancel it])
  end.

Definition step_worker (s : st) : option (st * list ev) :=
  match wk s with
  | WNotStarted => None
  | WLock => if mtx_free s then Some (worker_acquired s, [ELock]) else None
  | WWait => Some (set_wk (set_mtx s None) (WBlocked false), [EWait; EUnlock])
  | WBlocked true => if mtx_free s then Some (worker_acquired s, [ELock]) else None
  | WBlocked false => None
  | WUnlockExec t => Some (set_wk (set_mtx s None) (WExec t), [EUnlock])
  | WExec t =>
      let b := mem t (cancelled s) in
      Some (set_wk (add_executed s t b) WLock, [EObs t b; ERun t b])
  | WUnlockRet => Some (set_wk (set_mtx s None) WDone, [EUnlock])
  | WDone => None
  end.

Definition step_spur (s : st) : option (st * list ev) :=
  match wk s with
  | WBlocked false => Some (set_wk s (WBlocked true), [ESpurious])
  | _ => None
  end.

Definition step (t : nat) (s : st) : option (st * list ev) :=
  if Nat.eqb t 0 then step_main s
  else if Nat.leb t (nprods s) then step_prod (pred t) s
  else if Nat.eqb t (cancel_tid s) then step_cancel s
  else if Nat.eqb t (worker_tid s) then step_worker s
  else if Nat.eqb t (spur_tid s) then step_spur s
  else None.

(* everything finished *)
Definition final (s : st) : bool :=
  match mainpc s, wk s, tocancel s with
  | MDone, WDone, [] => all_prods_done s
  | _, _, _ => false
  end.

(* projections used by the OCaml handler *)
Definition executed_items (s : st) : list item := map fst (executed s).

End EventLoop.
