(* Proofs about the model IoCancel (Proto/IoCancelDefs.v).

   Method.  The state is (core, stoppers' status list).  Every step changes `core` by one of a fixed
   finite family of functions (the five core thread steps, `step_set`, `step_run`), none of which
   looks at the status list or at the number of stoppers: the transition system `asucc` on `core`
   over-approximates the whole system for ANY number of stoppers (lemma step_asucc).  All fields of
   `core` range over finite types except counters and lists that stay bounded on reachable states,
   and the parameters are finitely many, so the set of `core` states reachable under `asucc` is
   computed by a worklist function inside Coq and then CHECKED to be closed under `asucc` and to
   contain the initial state (closed_sound needs nothing else); a boolean state predicate that
   holds on every element of a closed set containing the initial state holds on every reachable
   state: for all parameters, all numbers of stoppers, all schedules.  The computations are by
   vm_compute (re-checked by the kernel at Qed); they enumerate the complete state space, not
   samples.  Equality of states is the derived decidable equality (core_eq_dec). *)
From Coq Require Import List Bool Arith Lia NArith.
From V Require Import Base.Sched Proto.IoCancelDefs.
Import ListNotations.
Import IoCancel.

(* ---- decidable equality --------------------------------------------------------------------- *)
Definition core_eq_dec : forall a b : core, {a = b} + {a <> b}.
Proof. repeat decide equality. Defined.

Definition core_eqb (a b : core) : bool := if core_eq_dec a b then true else false.
Lemma core_eqb_eq a b : core_eqb a b = true -> a = b.
Proof. unfold core_eqb. destruct (core_eq_dec a b); [auto|discriminate]. Qed.

(* ---- the finite transition system on core ------------------------------------------------------ *)
Definition osucc (o : option (core * list ev)) : list core :=
  match o with Some (c, _) => [c] | None => [] end.

Definition asucc (s : core) : list core :=
  osucc (step_io s) ++ osucc (step_take s) ++ osucc (step_deliver s) ++ osucc (step_starter s) ++
  osucc (step_peer s) ++ [fst (fst (step_set s))] ++ osucc (step_run s).

Inductive areach (c0 : core) : core -> Prop :=
| ar_refl : areach c0 c0
| ar_step c c' : areach c0 c -> In c' (asucc c) -> areach c0 c'.

Lemma in_osucc o c e : o = Some (c, e) -> In c (osucc o).
Proof. intros ->. simpl. auto. Qed.

Lemma step_asucc t s s' e : step t s = Some (s', e) -> In (co s') (asucc (co s)).
Proof.
  unfold step, asucc. intros H.
  destruct t as [|[|[|[|[|i]]]]]; simpl in H;
    try (match type of H with context[match ?x with _ => _ end] => destruct x as [[c e']|] eqn:E end;
         [inversion H; subst; clear H; simpl; rewrite ?in_app_iff; simpl; auto 10|discriminate]).
  unfold step_stopper in H. destruct (nth_error (sts s) i) as [[| |]|]; try discriminate.
  - destruct (step_set (co s)) as [[c e'] r] eqn:E. inversion H; subst; clear H. simpl.
    rewrite ?in_app_iff. simpl. auto 10.
  - destruct (step_run (co s)) as [[c e']|] eqn:E; [|discriminate]. inversion H; subst; clear H. simpl.
    rewrite ?in_app_iff. simpl. auto 10.
Qed.

Theorem run_areach p nstop (sched : list nat) :
  areach (init_core p) (co (fst (run step sched (init p nstop, [])))).
Proof.
  apply (run_invariant_state _ _ _ step (fun s => areach (init_core p) (co s))).
  - intros s t s' e Hr Hs. eapply ar_step; eauto. eapply step_asucc; eauto.
  - simpl. constructor.
Qed.

(* ---- reachable set: worklist + closure check --------------------------------------------------- *)
Local Open Scope N_scope.
Definition pc_code (p : iopc) : N :=
  match p with
  | IIdle => 0 | ISys0 => 1 | IAddIo0 _ => 2 | IReg => 3 | IAdd => 4 | IInline _ => 5 | IDeliver => 6
  | ICUnreg => 7 | ICWait => 8 | ICDel => 9 | ICAddIo => 10 | ICSys => 11 | IDLoad => 12 | IDUnreg => 13
  | IDWait => 14 | IDFin => 15 | IDResched => 16 | ICrashed => 17
  end.
Definition cb_code (c : cbstate) : N :=
  match c with CbNone => 0 | CbReg => 1 | CbInline => 2 | CbRunning => 3 | CbDone => 4 | CbUnreg => 5 end.
Definition run_code (r : rpc) : N :=
  match r with RNone => 0 | RCb CCancel => 1 | RCb CDel => 2 | RCb CInc => 3 | RCb CEnq => 4 | RStore => 5 end.
Definition b2n (b : bool) : N := if b then 1 else 0.
Definition len {A} (l : list A) : N := N.of_nat (length l).
(* any function would do: only used to skip most equality tests *)
Definition hash (s : core) : N :=
  pc_code (io s) + 18 * (cb_code (cb s) + 6 * (run_code (runner s) + 6 * (b2n (reg s) + 2 * (b2n (ready s) +
  2 * (b2n (stopped s) + 2 * (N.of_nat (s_io s) + 3 * (N.of_nat (s_cancel s) + 3 * (len (batch s) +
  3 * (len (localq s) + 3 * (len (remoteq s) + 3 * (b2n (peer_done s) + 2 * (len (completed s) +
  2 * b2n (polled s))))))))))))).
Local Close Scope N_scope.

Definition entry := (N * core)%type.
Definition mem (c : core) (l : list entry) : bool :=
  let h := hash c in existsb (fun x => N.eqb (fst x) h && core_eqb (snd x) c) l.

Lemma mem_in c l : mem c l = true -> exists h, In (h, c) l.
Proof.
  unfold mem. intros H. apply existsb_exists in H. destruct H as ([h x] & Hin & Hx).
  apply andb_true_iff in Hx. destruct Hx as [_ Hx]. apply core_eqb_eq in Hx. simpl in Hx. subst x. eauto.
Qed.

Fixpoint add_all (cs frontier : list core) (seen : list entry) : list core * list entry :=
  match cs with
  | [] => (frontier, seen)
  | c :: r => if mem c seen then add_all r frontier seen
              else add_all r (c :: frontier) ((hash c, c) :: seen)
  end.

Fixpoint explore (fuel : nat) (frontier : list core) (seen : list entry) : option (list entry) :=
  match fuel with
  | O => None
  | S f =>
      match frontier with
      | [] => Some seen
      | c :: rest => let (fr, sn) := add_all (asucc c) rest seen in explore f fr sn
      end
  end.

Definition closed (R : list entry) : bool :=
  forallb (fun x => forallb (fun c' => mem c' R) (asucc (snd x))) R.

Lemma closed_sound R c0 :
  closed R = true -> mem c0 R = true -> forall c, areach c0 c -> mem c R = true.
Proof.
  intros Hc H0 c Hr. induction Hr as [|c c' Hr IH Hin]; auto.
  destruct (mem_in _ _ IH) as [h Hh].
  unfold closed in Hc. rewrite forallb_forall in Hc. specialize (Hc _ Hh). simpl in Hc.
  rewrite forallb_forall in Hc. auto.
Qed.

(* the reachable set of parameter p, or [] if the worklist did not terminate within the fuel *)
Definition reach_set (p : params) : list entry :=
  let c0 := init_core p in
  match explore 20000 [c0] [(hash c0, c0)] with Some R => R | None => [] end.

(* P holds on every state reachable with parameter p *)
Definition check (P : core -> bool) (p : params) : bool :=
  let R := reach_set p in
  closed R && mem (init_core p) R && forallb (fun x => P (snd x)) R.

Lemma check_sound P p : check P p = true -> forall c, areach (init_core p) c -> P c = true.
Proof.
  unfold check. intros H c Hr. apply andb_true_iff in H. destruct H as [H HP].
  apply andb_true_iff in H. destruct H as [Hc H0].
  pose proof (closed_sound _ _ Hc H0 c Hr) as Hm. destruct (mem_in _ _ Hm) as [h Hh].
  rewrite forallb_forall in HP. apply (HP _ Hh).
Qed.

(* a property of the transitions out of every reachable state *)
Definition check_trans (Q : core -> core -> bool) (p : params) : bool :=
  check (fun c => forallb (Q c) (asucc c)) p.

(* ---- all parameters ---------------------------------------------------------------------------- *)
Definition bools := [true; false].
Definition fails := [None; Some KAgain; Some KPerm; Some KOther].
Definition params_of (fx : bool) : list params :=
  flat_map (fun w => flat_map (fun r => flat_map (fun pr => flat_map (fun rd => flat_map (fun fl =>
    map (fun pl => {| fixed := fx; is_write := w; remote := r; pre := pr; ready0 := rd; fail := fl; pollable := pl |})
        bools) fails) bools) bools) bools) bools.

Lemma params_of_complete p : In p (params_of (fixed p)).
Proof.
  destruct p as [fx w r pr rd fl pl]. simpl fixed.
  destruct fx, w, r, pr, rd, pl; destruct fl as [[| |]|]; vm_compute; tauto.
Qed.

Lemma check_all P fx : forallb (check P) (params_of fx) = true ->
  forall p, fixed p = fx -> forall c, areach (init_core p) c -> P c = true.
Proof.
  intros H p Hp c Hr. rewrite forallb_forall in H. subst fx.
  apply (check_sound P p); auto. apply H. apply params_of_complete.
Qed.

(* ======================= the fixed variant: theorems ========================================== *)
Definition no_items (c : core) : bool :=
  match batch c, localq c, remoteq c with [], [], [] => true | _, _, _ => false end.

(* safety: at most one completion; at completion nothing of the operation is left anywhere (no epoll
   registration, no queued item, no callback in flight); no access after completion; epoll_wait
   never returns a dangling or consumed pointer; execute_ is never null when called *)
Definition P_safe (c : core) : bool :=
  negb (uaf c) && negb (stale c) && negb (crashed c) && Nat.leb (length (completed c)) 1 &&
  (if is_completed c
   then negb (reg c) && no_items c && Nat.eqb (cenq c) 0 && Nat.eqb (denq c) 0 &&
        match io c with IIdle => true | _ => false end &&
        match runner c with RNone => true | _ => false end &&
        match starter c with TFin => true | _ => false end &&
        match cb c with CbReg | CbRunning => false | _ => true end
   else true).

Definition errk_eqb (a b : errkind) : bool :=
  match a, b with KAgain, KAgain | KPerm, KPerm | KOther, KOther => true | _, _ => false end.

(* the result is the true one: value iff the bytes were transferred (exactly once, and never
   transferred and then dropped); the error is the errno of the failing syscall; done only after a
   stop request and without having consumed anything *)
Definition P_result (c : core) : bool :=
  Nat.leb (xfer c) 1 &&
  match completed c with
  | [] => true
  | [RValue] => Nat.eqb (xfer c) 1
  | [RError k] => Nat.eqb (xfer c) 0 &&
                  match fail (par c) with Some k' => errk_eqb k k' | None => false end
  | [RDone] => Nat.eqb (xfer c) 0 && stopped c
  | _ => false
  end.

Definition core_quiet (c : core) : bool :=
  match step_io c, step_take c, step_deliver c, step_starter c, step_peer c, step_run c with
  | None, None, None, None, None, None => true
  | _, _, _, _, _, _ => false
  end.

(* a descriptor on which the syscall says "try again" can be polled *)
Definition sane (p : params) : bool :=
  match fail p with None | Some KAgain => pollable p | _ => true end.

(* progress: when no core thread can move (peer done, nothing queued, no callback running) the
   operation has completed, or it is legitimately parked: registered, descriptor not ready, no stop
   requested, nothing consumed *)
Definition P_stuck (c : core) : bool :=
  if sane (par c) && core_quiet c
  then is_completed c || (parked_ok c && Nat.eqb (xfer c) 0)
  else true.

Definition P_fixed (c : core) : bool := P_safe c && P_result c && P_stuck c.


Definition p0 := {| fixed := true; is_write := false; remote := true; pre := false; ready0 := false; fail := None; pollable := true |}.
Time Eval vm_compute in (core_eqb (init_core p0) (init_core p0)).
Time Eval vm_compute in (List.length (asucc (init_core p0))).
Time Eval vm_compute in (match explore 50 [init_core p0] [(hash (init_core p0), init_core p0)] with Some R => Some (List.length R) | None => None end).
Time Eval vm_compute in (List.length (reach_set p0)).
Time Eval vm_compute in (check P_fixed p0).
